// cosmos-sdk 0.47 exports every module in its own goroutine: a panic inside a module's ExportGenesis cannot be
// recovered by the caller and aborts the process (`kava export` crashes the same way).  Before every real export the
// harness therefore runs each Kava module's ExportGenesis once, sequentially, in its own goroutine-free call on a
// discarded branch of the same (check-state) context, and reports a panic there as a failed export.
package main

import (
	"fmt"
	"strings"

	tmproto "github.com/cometbft/cometbft/proto/tendermint/types"
	sdk "github.com/cosmos/cosmos-sdk/types"

	"github.com/kava-labs/kava/x/auction"
	"github.com/kava-labs/kava/x/bep3"
	"github.com/kava-labs/kava/x/cdp"
	"github.com/kava-labs/kava/x/committee"
	"github.com/kava-labs/kava/x/community"
	"github.com/kava-labs/kava/x/earn"
	"github.com/kava-labs/kava/x/evmutil"
	"github.com/kava-labs/kava/x/hard"
	"github.com/kava-labs/kava/x/incentive"
	"github.com/kava-labs/kava/x/issuance"
	"github.com/kava-labs/kava/x/kavadist"
	"github.com/kava-labs/kava/x/precisebank"
	"github.com/kava-labs/kava/x/pricefeed"
	"github.com/kava-labs/kava/x/savings"
	"github.com/kava-labs/kava/x/swap"

	"kavaverif/harness/history"
)

// exportDryRun returns the first Kava module whose ExportGenesis panics on the node's state ("" = none).
func exportDryRun(n *history.Node) (module, panicMsg string) {
	base := n.T.NewContext(true, tmproto.Header{Height: n.T.LastBlockHeight()})
	t := n.T
	steps := []struct {
		name string
		f    func(ctx sdk.Context)
	}{
		{"auction", func(ctx sdk.Context) { auction.ExportGenesis(ctx, t.GetAuctionKeeper()) }},
		{"bep3", func(ctx sdk.Context) { bep3.ExportGenesis(ctx, t.GetBep3Keeper()) }},
		{"cdp", func(ctx sdk.Context) { cdp.ExportGenesis(ctx, t.GetCDPKeeper()) }},
		{"committee", func(ctx sdk.Context) { committee.ExportGenesis(ctx, t.GetCommitteeKeeper()) }},
		{"community", func(ctx sdk.Context) { community.ExportGenesis(ctx, t.GetCommunityKeeper()) }},
		{"earn", func(ctx sdk.Context) { earn.ExportGenesis(ctx, t.GetEarnKeeper()) }},
		{"evmutil", func(ctx sdk.Context) { evmutil.ExportGenesis(ctx, t.GetEvmutilKeeper()) }},
		{"hard", func(ctx sdk.Context) { hard.ExportGenesis(ctx, t.GetHardKeeper()) }},
		{"incentive", func(ctx sdk.Context) { incentive.ExportGenesis(ctx, t.GetIncentiveKeeper()) }},
		{"issuance", func(ctx sdk.Context) { issuance.ExportGenesis(ctx, t.GetIssuanceKeeper()) }},
		{"kavadist", func(ctx sdk.Context) { kavadist.ExportGenesis(ctx, t.GetKavadistKeeper()) }},
		{"precisebank", func(ctx sdk.Context) { precisebank.ExportGenesis(ctx, t.GetPrecisebankKeeper()) }},
		{"pricefeed", func(ctx sdk.Context) { pricefeed.ExportGenesis(ctx, t.GetPriceFeedKeeper()) }},
		{"savings", func(ctx sdk.Context) { savings.ExportGenesis(ctx, t.GetSavingsKeeper()) }},
		{"swap", func(ctx sdk.Context) { swap.ExportGenesis(ctx, t.GetSwapKeeper()) }},
	}
	for _, s := range steps {
		cctx, _ := base.CacheContext()
		if pm := safely(func() { s.f(cctx) }); pm != "" {
			return s.name, pm
		}
	}
	return "", ""
}

// safeExport = the application's own export, guarded by the dry run.
func safeExport(n *history.Node) history.Exported {
	if m, pm := exportDryRun(n); m != "" {
		if len(pm) > 300 {
			pm = pm[:300]
		}
		return history.Exported{Err: fmt.Sprintf("export panic in x/%s ExportGenesis: %s", m, strings.TrimSpace(pm))}
	}
	return n.Export()
}
