// Governance-style parameter changes of C14's histories.
//
// A chain that is exported has usually lived through governance: minting switched off, markets delisted, pools
// no longer allowed, reward periods ended.  Such a state has a module's PARAMETERS saying "off" while its STORE
// still holds the data written while it was "on" (a recorded previous block time, deposits in a delisted market,
// shares of a pool that is not allowed any more, claims of a removed reward period).  Export / import has to carry
// that data over although the parameters no longer mention it.
//
// Every history gets at least one such change before the export (rotating over the list below, plus a random
// second one), written the way a ParameterChangeProposal of x/gov or x/committee writes it — straight into the
// module's x/params subspace — or through the module keeper's SetParams (alternating by history).  Modes:
//
//	off-at-export   switched off some blocks before the export; the common follow-up blocks switch it back on, on the
//	                original and on the imported chain, and both are compared afterwards
//	off-then-on     switched off and back on before the export (the store carries traces of the off period)
//	stays-off       switched off before the export and never switched on again
package main

import (
	"sort"
	"time"

	sdkmath "cosmossdk.io/math"
	sdk "github.com/cosmos/cosmos-sdk/types"
	paramtypes "github.com/cosmos/cosmos-sdk/x/params/types"

	bep3types "github.com/kava-labs/kava/x/bep3/types"
	cdptypes "github.com/kava-labs/kava/x/cdp/types"
	earntypes "github.com/kava-labs/kava/x/earn/types"
	hardtypes "github.com/kava-labs/kava/x/hard/types"
	incentivetypes "github.com/kava-labs/kava/x/incentive/types"
	issuancetypes "github.com/kava-labs/kava/x/issuance/types"
	kavadisttypes "github.com/kava-labs/kava/x/kavadist/types"
	pricefeedtypes "github.com/kava-labs/kava/x/pricefeed/types"
	savingstypes "github.com/kava-labs/kava/x/savings/types"
	swaptypes "github.com/kava-labs/kava/x/swap/types"

	c "kavaverif/harness/common"
	"kavaverif/harness/history"
)

// govEnv carries what one history's parameter changes need to be repeated identically on two chains.
type govEnv struct {
	// viaSubspace: write through the x/params subspace (the route of a parameter change proposal) instead of the
	// module keeper's SetParams
	viaSubspace bool
	// pick is a per-history number used to choose among candidates (which market, which pool …)
	pick int
	// saved: what Off removed, for On to put back (set on the original chain, replayed on the imported one)
	saved map[string]any
}

func (e *govEnv) write(n *history.Node, ctx sdk.Context, subspace string, ps paramtypes.ParamSet, keeperSet func()) {
	if e.viaSubspace {
		if ss, ok := n.T.GetParamsKeeper().GetSubspace(subspace); ok {
			ss.SetParamSet(ctx, ps)
			return
		}
	}
	keeperSet()
}

// govAction is one kind of parameter change.  Off reads the node's own current parameters and returns false when
// the change does not apply to the state (nothing written).  On undoes it (on any node holding the same parameters).
type govAction struct {
	Name string
	Off  func(e *govEnv, n *history.Node, ctx sdk.Context) bool
	On   func(e *govEnv, n *history.Node, ctx sdk.Context)
}

func govActions() []govAction {
	return []govAction{
		{
			// x/kavadist minting switched off after having run: the previous block time stays recorded
			Name: "kavadist-off",
			Off: func(e *govEnv, n *history.Node, ctx sdk.Context) bool {
				k := n.T.GetKavadistKeeper()
				p := k.GetParams(ctx)
				if !p.Active {
					return false
				}
				p.Active = false
				e.write(n, ctx, kavadisttypes.ModuleName, &p, func() { k.SetParams(ctx, p) })
				return true
			},
			On: func(e *govEnv, n *history.Node, ctx sdk.Context) {
				k := n.T.GetKavadistKeeper()
				p := k.GetParams(ctx)
				p.Active = true
				e.write(n, ctx, kavadisttypes.ModuleName, &p, func() { k.SetParams(ctx, p) })
			},
		},
		{
			// x/community: the "disable inflation" upgrade time is set; the next begin block switches kavadist and
			// x/mint inflation off through the module's own code, sets the staking rewards rate and consolidates the funds
			Name: "community-upgrade-time",
			Off: func(e *govEnv, n *history.Node, ctx sdk.Context) bool {
				k := n.T.GetCommunityKeeper()
				p, found := k.GetParams(ctx)
				if !found {
					return false
				}
				p.UpgradeTimeDisableInflation = ctx.BlockTime().Add(time.Second)
				p.UpgradeTimeSetStakingRewardsPerSecond = sdk.NewDec(int64(1000 + 777*(e.pick%5)))
				k.SetParams(ctx, p)
				return true
			},
			On: func(e *govEnv, n *history.Node, ctx sdk.Context) {
				kk := n.T.GetKavadistKeeper()
				kp := kk.GetParams(ctx)
				kp.Active = true
				e.write(n, ctx, kavadisttypes.ModuleName, &kp, func() { kk.SetParams(ctx, kp) })
				k := n.T.GetCommunityKeeper()
				if p, found := k.GetParams(ctx); found {
					p.StakingRewardsPerSecond = p.StakingRewardsPerSecond.QuoInt64(2)
					k.SetParams(ctx, p)
				}
			},
		},
		{
			// x/community staking rewards rate set (a rate while the pool may be empty) / set back to zero
			Name: "community-rewards-rate",
			Off: func(e *govEnv, n *history.Node, ctx sdk.Context) bool {
				k := n.T.GetCommunityKeeper()
				p, found := k.GetParams(ctx)
				if !found {
					return false
				}
				e.saved["community-rate"] = p.StakingRewardsPerSecond
				if p.StakingRewardsPerSecond.IsZero() {
					p.StakingRewardsPerSecond = sdk.NewDecWithPrec(int64(1234567+e.pick%1000), 3)
				} else {
					p.StakingRewardsPerSecond = sdk.ZeroDec()
				}
				k.SetParams(ctx, p)
				return true
			},
			On: func(e *govEnv, n *history.Node, ctx sdk.Context) {
				k := n.T.GetCommunityKeeper()
				if p, found := k.GetParams(ctx); found {
					if r, ok := e.saved["community-rate"].(sdk.Dec); ok && !r.IsZero() {
						p.StakingRewardsPerSecond = r
					} else {
						p.StakingRewardsPerSecond = sdk.NewDecWithPrec(500_000, 3)
					}
					k.SetParams(ctx, p)
				}
			},
		},
		{
			// x/hard: a money market with deposits is delisted
			Name: "hard-market-delisted",
			Off: func(e *govEnv, n *history.Node, ctx sdk.Context) bool {
				k := n.T.GetHardKeeper()
				p := k.GetParams(ctx)
				supplied, _ := k.GetSuppliedCoins(ctx)
				var cands []int
				for i, mm := range p.MoneyMarkets {
					if supplied.AmountOf(mm.Denom).IsPositive() {
						cands = append(cands, i)
					}
				}
				if len(cands) == 0 || len(p.MoneyMarkets) < 2 {
					return false
				}
				i := cands[e.pick%len(cands)]
				e.saved["hard-mm"] = p.MoneyMarkets[i]
				p.MoneyMarkets = append(append(hardtypes.MoneyMarkets{}, p.MoneyMarkets[:i]...), p.MoneyMarkets[i+1:]...)
				e.write(n, ctx, hardtypes.ModuleName, &p, func() { k.SetParams(ctx, p) })
				return true
			},
			On: func(e *govEnv, n *history.Node, ctx sdk.Context) {
				mm, ok := e.saved["hard-mm"].(hardtypes.MoneyMarket)
				if !ok {
					return
				}
				k := n.T.GetHardKeeper()
				p := k.GetParams(ctx)
				for _, x := range p.MoneyMarkets {
					if x.Denom == mm.Denom {
						return
					}
				}
				p.MoneyMarkets = append(p.MoneyMarkets, mm)
				e.write(n, ctx, hardtypes.ModuleName, &p, func() { k.SetParams(ctx, p) })
			},
		},
		{
			// x/swap: an allowed pool is removed while the pool (and its share records) exists
			Name: "swap-pool-disallowed",
			Off: func(e *govEnv, n *history.Node, ctx sdk.Context) bool {
				k := n.T.GetSwapKeeper()
				p := k.GetParams(ctx)
				var cands []int
				for i, ap := range p.AllowedPools {
					if _, found := k.GetPool(ctx, swaptypes.PoolID(ap.TokenA, ap.TokenB)); found {
						cands = append(cands, i)
					}
				}
				if len(cands) == 0 {
					return false
				}
				i := cands[e.pick%len(cands)]
				e.saved["swap-pool"] = p.AllowedPools[i]
				p.AllowedPools = append(append(swaptypes.AllowedPools{}, p.AllowedPools[:i]...), p.AllowedPools[i+1:]...)
				e.write(n, ctx, swaptypes.ModuleName, &p, func() { k.SetParams(ctx, p) })
				return true
			},
			On: func(e *govEnv, n *history.Node, ctx sdk.Context) {
				ap, ok := e.saved["swap-pool"].(swaptypes.AllowedPool)
				if !ok {
					return
				}
				k := n.T.GetSwapKeeper()
				p := k.GetParams(ctx)
				for _, x := range p.AllowedPools {
					if x.TokenA == ap.TokenA && x.TokenB == ap.TokenB {
						return
					}
				}
				p.AllowedPools = append(p.AllowedPools, ap)
				e.write(n, ctx, swaptypes.ModuleName, &p, func() { k.SetParams(ctx, p) })
			},
		},
		{
			// x/bep3: an asset with swap records is deactivated
			Name: "bep3-asset-deactivated",
			Off: func(e *govEnv, n *history.Node, ctx sdk.Context) bool {
				k := n.T.GetBep3Keeper()
				p := k.GetParams(ctx)
				if len(p.AssetParams) == 0 {
					return false
				}
				i := e.pick % len(p.AssetParams)
				for j, ap := range p.AssetParams { // prefer an asset that has swap records
					for _, s := range k.GetAllAtomicSwaps(ctx) {
						if len(s.Amount) == 1 && s.Amount[0].Denom == ap.Denom {
							i = j
						}
					}
				}
				e.saved["bep3-active"] = p.AssetParams[i].Denom
				p.AssetParams = append(bep3types.AssetParams{}, p.AssetParams...)
				p.AssetParams[i].Active = false
				e.write(n, ctx, bep3types.ModuleName, &p, func() { k.SetParams(ctx, p) })
				return true
			},
			On: func(e *govEnv, n *history.Node, ctx sdk.Context) {
				dn, ok := e.saved["bep3-active"].(string)
				if !ok {
					return
				}
				k := n.T.GetBep3Keeper()
				p := k.GetParams(ctx)
				p.AssetParams = append(bep3types.AssetParams{}, p.AssetParams...)
				for i := range p.AssetParams {
					if p.AssetParams[i].Denom == dn {
						p.AssetParams[i].Active = true
					}
				}
				e.write(n, ctx, bep3types.ModuleName, &p, func() { k.SetParams(ctx, p) })
			},
		},
		{
			// x/bep3: an asset's supply limit is lowered to (just above) what is in use, its swap size limits narrowed
			Name: "bep3-limits-lowered",
			Off: func(e *govEnv, n *history.Node, ctx sdk.Context) bool {
				k := n.T.GetBep3Keeper()
				p := k.GetParams(ctx)
				if len(p.AssetParams) == 0 {
					return false
				}
				i := e.pick % len(p.AssetParams)
				e.saved["bep3-asset"] = p.AssetParams[i]
				ap := p.AssetParams[i]
				if sup, found := k.GetAssetSupply(ctx, ap.Denom); found {
					used := sup.CurrentSupply.Amount.Add(sup.IncomingSupply.Amount)
					if sup.OutgoingSupply.Amount.GT(used) {
						used = sup.OutgoingSupply.Amount
					}
					lim := used.AddRaw(int64(e.pick % 3)) // 0 = exactly at the limit
					if lim.IsPositive() && lim.LT(ap.SupplyLimit.Limit) {
						ap.SupplyLimit.Limit = lim
						if ap.SupplyLimit.TimeBasedLimit.GT(lim) {
							ap.SupplyLimit.TimeBasedLimit = lim
						}
					}
				}
				ap.MaxSwapAmount = ap.MaxSwapAmount.QuoRaw(1000)
				if !ap.MaxSwapAmount.GT(ap.MinSwapAmount) {
					ap.MaxSwapAmount = ap.MinSwapAmount.AddRaw(1)
				}
				p.AssetParams = append(bep3types.AssetParams{}, p.AssetParams...)
				p.AssetParams[i] = ap
				if p.Validate() != nil {
					return false
				}
				e.write(n, ctx, bep3types.ModuleName, &p, func() { k.SetParams(ctx, p) })
				return true
			},
			On: func(e *govEnv, n *history.Node, ctx sdk.Context) {
				ap, ok := e.saved["bep3-asset"].(bep3types.AssetParam)
				if !ok {
					return
				}
				k := n.T.GetBep3Keeper()
				p := k.GetParams(ctx)
				p.AssetParams = append(bep3types.AssetParams{}, p.AssetParams...)
				for i := range p.AssetParams {
					if p.AssetParams[i].Denom == ap.Denom {
						active := p.AssetParams[i].Active
						p.AssetParams[i] = ap
						p.AssetParams[i].Active = active
					}
				}
				e.write(n, ctx, bep3types.ModuleName, &p, func() { k.SetParams(ctx, p) })
			},
		},
		{
			// x/pricefeed: a market with a current price is deactivated
			Name: "pricefeed-market-deactivated",
			Off: func(e *govEnv, n *history.Node, ctx sdk.Context) bool {
				k := n.T.GetPriceFeedKeeper()
				p := k.GetParams(ctx)
				var cands []int
				for i, m := range p.Markets {
					if !m.Active {
						continue
					}
					if _, err := k.GetCurrentPrice(ctx, m.MarketID); err == nil {
						cands = append(cands, i)
					}
				}
				if len(cands) == 0 {
					return false
				}
				i := cands[e.pick%len(cands)]
				p.Markets = append(pricefeedtypes.Markets{}, p.Markets...)
				p.Markets[i].Active = false
				e.saved["pricefeed-market"] = p.Markets[i].MarketID
				e.write(n, ctx, pricefeedtypes.ModuleName, &p, func() { k.SetParams(ctx, p) })
				return true
			},
			On: func(e *govEnv, n *history.Node, ctx sdk.Context) {
				id, ok := e.saved["pricefeed-market"].(string)
				if !ok {
					return
				}
				k := n.T.GetPriceFeedKeeper()
				p := k.GetParams(ctx)
				p.Markets = append(pricefeedtypes.Markets{}, p.Markets...)
				for i := range p.Markets {
					if p.Markets[i].MarketID == id {
						p.Markets[i].Active = true
					}
				}
				e.write(n, ctx, pricefeedtypes.ModuleName, &p, func() { k.SetParams(ctx, p) })
			},
		},
		{
			// x/incentive: reward periods ended (end time in the past) or removed altogether while claims and
			// reward indexes exist
			Name: "incentive-periods-ended",
			Off: func(e *govEnv, n *history.Node, ctx sdk.Context) bool {
				k := n.T.GetIncentiveKeeper()
				p := k.GetParams(ctx)
				e.saved["incentive-params"] = p
				now := ctx.BlockTime()
				endMulti := func(ps incentivetypes.MultiRewardPeriods, remove bool) incentivetypes.MultiRewardPeriods {
					if remove {
						if len(ps) > 1 {
							return append(incentivetypes.MultiRewardPeriods{}, ps[1:]...)
						}
						return incentivetypes.MultiRewardPeriods{}
					}
					out := append(incentivetypes.MultiRewardPeriods{}, ps...)
					for i := range out {
						if out[i].Start.Before(now) {
							out[i].End = now
						}
					}
					return out
				}
				rm := e.pick%2 == 0
				p.HardSupplyRewardPeriods = endMulti(p.HardSupplyRewardPeriods, rm)
				p.HardBorrowRewardPeriods = endMulti(p.HardBorrowRewardPeriods, !rm)
				p.SwapRewardPeriods = endMulti(p.SwapRewardPeriods, rm)
				p.DelegatorRewardPeriods = endMulti(p.DelegatorRewardPeriods, !rm)
				p.SavingsRewardPeriods = endMulti(p.SavingsRewardPeriods, rm)
				p.EarnRewardPeriods = endMulti(p.EarnRewardPeriods, !rm)
				up := append(incentivetypes.RewardPeriods{}, p.USDXMintingRewardPeriods...)
				if rm && len(up) > 1 {
					up = up[1:]
				} else {
					for i := range up {
						if up[i].Start.Before(now) {
							up[i].End = now
						}
					}
				}
				p.USDXMintingRewardPeriods = up
				if p.Validate() != nil {
					return false
				}
				e.write(n, ctx, incentivetypes.ModuleName, &p, func() { k.SetParams(ctx, p) })
				return true
			},
			On: func(e *govEnv, n *history.Node, ctx sdk.Context) {
				p, ok := e.saved["incentive-params"].(incentivetypes.Params)
				if !ok {
					return
				}
				k := n.T.GetIncentiveKeeper()
				e.write(n, ctx, incentivetypes.ModuleName, &p, func() { k.SetParams(ctx, p) })
			},
		},
		{
			// x/cdp: collateral parameters changed under open positions (stability fee, liquidation ratio raised a
			// little, debt limit lowered to what is already drawn, auction size)
			Name: "cdp-collateral-changed",
			Off: func(e *govEnv, n *history.Node, ctx sdk.Context) bool {
				k := n.T.GetCDPKeeper()
				p := k.GetParams(ctx)
				e.saved["cdp-params"] = p
				cps := append(cdptypes.CollateralParams{}, p.CollateralParams...)
				i := e.pick % len(cps)
				cp := cps[i]
				cp.StabilityFee = sdk.MustNewDecFromStr("1.000000002293273137")
				cp.AuctionSize = cp.AuctionSize.MulRaw(2)
				cp.LiquidationRatio = cp.LiquidationRatio.Add(sdk.NewDecWithPrec(1, 2))
				if tp := k.GetTotalPrincipal(ctx, cp.Type, "usdx"); tp.IsPositive() && tp.LT(cp.DebtLimit.Amount) {
					cp.DebtLimit = sdk.NewCoin("usdx", tp)
				}
				cps[i] = cp
				p.CollateralParams = cps
				if p.Validate() != nil {
					return false
				}
				e.write(n, ctx, cdptypes.ModuleName, &p, func() { k.SetParams(ctx, p) })
				return true
			},
			On: func(e *govEnv, n *history.Node, ctx sdk.Context) {
				p, ok := e.saved["cdp-params"].(cdptypes.Params)
				if !ok {
					return
				}
				k := n.T.GetCDPKeeper()
				e.write(n, ctx, cdptypes.ModuleName, &p, func() { k.SetParams(ctx, p) })
			},
		},
		{
			// x/savings: a supported denomination with deposits is removed
			Name: "savings-denom-removed",
			Off: func(e *govEnv, n *history.Node, ctx sdk.Context) bool {
				k := n.T.GetSavingsKeeper()
				p := k.GetParams(ctx)
				held := sdk.NewCoins()
				for _, dp := range k.GetAllDeposits(ctx) {
					held = held.Add(dp.Amount...)
				}
				var cands []int
				for i, dn := range p.SupportedDenoms {
					for _, cn := range held {
						if cn.Denom == dn || (dn == "bkava" && len(cn.Denom) > 5 && cn.Denom[:5] == "bkava") {
							cands = append(cands, i)
							break
						}
					}
				}
				if len(cands) == 0 {
					return false
				}
				i := cands[e.pick%len(cands)]
				e.saved["savings-denom"] = p.SupportedDenoms[i]
				p.SupportedDenoms = append(append([]string{}, p.SupportedDenoms[:i]...), p.SupportedDenoms[i+1:]...)
				e.write(n, ctx, savingstypes.ModuleName, &p, func() { k.SetParams(ctx, p) })
				return true
			},
			On: func(e *govEnv, n *history.Node, ctx sdk.Context) {
				dn, ok := e.saved["savings-denom"].(string)
				if !ok {
					return
				}
				k := n.T.GetSavingsKeeper()
				p := k.GetParams(ctx)
				for _, x := range p.SupportedDenoms {
					if x == dn {
						return
					}
				}
				p.SupportedDenoms = append(append([]string{}, p.SupportedDenoms...), dn)
				e.write(n, ctx, savingstypes.ModuleName, &p, func() { k.SetParams(ctx, p) })
			},
		},
		{
			// x/earn: an allowed vault with shares is removed
			Name: "earn-vault-removed",
			Off: func(e *govEnv, n *history.Node, ctx sdk.Context) bool {
				k := n.T.GetEarnKeeper()
				p := k.GetParams(ctx)
				var cands []int
				for i, av := range p.AllowedVaults {
					for _, vr := range k.GetAllVaultRecords(ctx) {
						d := vr.TotalShares.Denom
						if d == av.Denom || (av.Denom == "bkava" && len(d) > 5 && d[:5] == "bkava") {
							cands = append(cands, i)
							break
						}
					}
				}
				if len(cands) == 0 {
					return false
				}
				i := cands[e.pick%len(cands)]
				e.saved["earn-vault"] = p.AllowedVaults[i]
				p.AllowedVaults = append(append(earntypes.AllowedVaults{}, p.AllowedVaults[:i]...), p.AllowedVaults[i+1:]...)
				e.write(n, ctx, earntypes.ModuleName, &p, func() { k.SetParams(ctx, p) })
				return true
			},
			On: func(e *govEnv, n *history.Node, ctx sdk.Context) {
				av, ok := e.saved["earn-vault"].(earntypes.AllowedVault)
				if !ok {
					return
				}
				k := n.T.GetEarnKeeper()
				p := k.GetParams(ctx)
				for _, x := range p.AllowedVaults {
					if x.Denom == av.Denom {
						return
					}
				}
				p.AllowedVaults = append(p.AllowedVaults, av)
				e.write(n, ctx, earntypes.ModuleName, &p, func() { k.SetParams(ctx, p) })
			},
		},
		{
			// x/issuance: the asset is paused and its rate limit switched off while a supply record exists
			Name: "issuance-asset-paused",
			Off: func(e *govEnv, n *history.Node, ctx sdk.Context) bool {
				k := n.T.GetIssuanceKeeper()
				p := k.GetParams(ctx)
				if len(p.Assets) == 0 {
					return false
				}
				e.saved["issuance-params"] = p
				as := append([]issuancetypes.Asset{}, p.Assets...)
				as[0].Paused = true
				if e.pick%2 == 0 {
					as[0].RateLimit = issuancetypes.NewRateLimit(false, sdkmath.ZeroInt(), 0)
				}
				p.Assets = as
				if p.Validate() != nil {
					return false
				}
				e.write(n, ctx, issuancetypes.ModuleName, &p, func() { k.SetParams(ctx, p) })
				return true
			},
			On: func(e *govEnv, n *history.Node, ctx sdk.Context) {
				p, ok := e.saved["issuance-params"].(issuancetypes.Params)
				if !ok {
					return
				}
				k := n.T.GetIssuanceKeeper()
				e.write(n, ctx, issuancetypes.ModuleName, &p, func() { k.SetParams(ctx, p) })
			},
		},
	}
}

// govPlan is what one history does: which changes, in which mode.
type govPlan struct {
	Env     *govEnv
	Actions []govAction
	Mode    string // off-at-export | off-then-on | stays-off
	Applied []govAction
}

var govModes = []string{"off-at-export", "off-at-export", "off-then-on", "stays-off"}

// findingTriggers are the changes that expose a LISTED finding of the unchanged tree (known_findings.json): every
// alarm of a history that applied one of them carries its name in the gov= tag, which is what the finding's signature
// matches.  They run alone, in dedicated histories (three of every twelve random ones), so that they never hide what the
// other changes would show.
var findingTriggers = map[string]bool{"hard-market-delisted": true, "pricefeed-market-deactivated": true, "bep3-asset-deactivated": true}

// makeGovPlan: history number idx gets clean action idx mod N (so every kind is covered once the run has N histories)
// and, two times out of three, a second, randomly chosen clean one; trigger = the name of a finding trigger to apply
// instead (alone).  VERIF_C14_GOV=<name> forces one action for every history.
func makeGovPlan(idx int, r *c.Rng, only, trigger string) *govPlan {
	var clean, all []govAction
	for _, a := range govActions() {
		all = append(all, a)
		if !findingTriggers[a.Name] {
			clean = append(clean, a)
		}
	}
	gp := &govPlan{Env: &govEnv{viaSubspace: idx%2 == 0, pick: r.Intn(1 << 20), saved: map[string]any{}}}
	gp.Mode = govModes[(idx/len(clean)+idx+r.Intn(2))%len(govModes)]
	if only == "" {
		only = trigger
	}
	if only != "" {
		for _, a := range all {
			if a.Name == only {
				gp.Actions = append(gp.Actions, a)
			}
		}
		return gp
	}
	first := idx % len(clean)
	gp.Actions = append(gp.Actions, clean[first])
	if r.Intn(3) > 0 {
		if second := r.Intn(len(clean)); second != first {
			gp.Actions = append(gp.Actions, clean[second])
		}
	}
	return gp
}

func (gp *govPlan) names() string {
	var ns []string
	for _, a := range gp.Applied {
		ns = append(ns, a.Name)
	}
	sort.Strings(ns)
	s := ""
	for i, n := range ns {
		if i > 0 {
			s += "+"
		}
		s += n
	}
	if s == "" {
		return "none"
	}
	return s
}

// off applies the history's changes on node n (the original chain, before the export); each change on its own branch
// of the state, kept only when it applied without panicking (a keeper's SetParams validates).
func (gp *govPlan) off(n *history.Node, ctx sdk.Context) {
	for _, a := range gp.Actions {
		cctx, write := ctx.CacheContext()
		applied := false
		if pm := safely(func() { applied = a.Off(gp.Env, n, cctx) }); pm == "" && applied {
			write()
			gp.Applied = append(gp.Applied, a)
		}
	}
}

// on switches everything that was switched off back on, on node n.
func (gp *govPlan) on(n *history.Node, ctx sdk.Context) {
	for _, a := range gp.Applied {
		cctx, write := ctx.CacheContext()
		if pm := safely(func() { a.On(gp.Env, n, cctx) }); pm == "" {
			write()
		}
	}
}
