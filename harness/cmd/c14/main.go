// c14: genesis export/import round trip (property C14).
//
// The history runner brings the REAL app to a state with a history (open auctions, partially repaid cdps,
// expired unrefunded swaps, pending committee/gov proposals and votes, non-zero precisebank remainder, synced
// and unsynced incentive claims), then:
//
//  0. a few more blocks that start with a governance-style parameter change (gov.go): a module's parameters say
//     "off" while its store still holds the data of the time it was on;
//  1. ExportAppStateAndValidators on the original (A), guarded by a sequential dry run (exportguard.go);
//  2. every module's ValidateGenesis on the exported document;
//  3. InitChain of a fresh app (B1) from it, commit, export again, compare the two documents module by
//     module (JSON-normalised; expired pricefeed posts ignored, as the prose allows), the incentive section field
//     by field, every Kava module store and the x/params store key by key; export twice; two imports;
//  4. five common follow-up blocks on A and on a second import (B2), the third of which switches back on what was
//     switched off: per-tx result codes; balances / positions after block 2 (tolerance one base unit); after block 5
//     module account balances, total supplies and every module's genesis exported from both chains (followup.go);
//  5. every registered invariant route on B1 (after import) and B2 (after the follow-up blocks).
//
// The exported and re-exported sections of thirteen modules are also fed to the Lean models of
// Model/GenesisModels.lean and Model/GenesisMore.lean (validate / init / export): modelTies, ties.go.
package main

import (
	"encoding/binary"
	"encoding/json"
	"fmt"
	"math/big"
	"os"
	"sort"
	"strings"
	"sync"
	"time"

	sdkmath "cosmossdk.io/math"
	abci "github.com/cometbft/cometbft/abci/types"
	sdk "github.com/cosmos/cosmos-sdk/types"
	authtypes "github.com/cosmos/cosmos-sdk/x/auth/types"
	banktypes "github.com/cosmos/cosmos-sdk/x/bank/types"
	evmtypes "github.com/evmos/ethermint/x/evm/types"

	"github.com/kava-labs/kava/app"
	bep3types "github.com/kava-labs/kava/x/bep3/types"
	cdptypes "github.com/kava-labs/kava/x/cdp/types"
	pbtypes "github.com/kava-labs/kava/x/precisebank/types"
	pricefeedtypes "github.com/kava-labs/kava/x/pricefeed/types"
	savingstypes "github.com/kava-labs/kava/x/savings/types"
	swaptypes "github.com/kava-labs/kava/x/swap/types"

	c "kavaverif/harness/common"
	"kavaverif/harness/history"
)

func short(s string, n int) string {
	s = strings.Join(strings.Fields(s), " ")
	if len(s) > n {
		return s[:n]
	}
	return s
}

func main() {
	out := c.NewOut(c.OutPath())
	defer out.Close()
	rng := c.NewRng(c.Seed())
	t0 := time.Now()
	cfg := history.DefaultConfig()
	plans := []history.Plan{
		{Name: "hard-multi-denom-liquidation", Cfg: cfg, Script: history.ScenarioHardMultiDenom(), Blocks: 12, MaxTxs: 6, PriceEvery: 5},
		{Name: "gov-tally-bkava", Cfg: cfg, Script: history.ScenarioGovTallyBkava(cfg.GovVotingPeriod), Blocks: 12, MaxTxs: 6, PriceEvery: 5},
		{Name: "committee-param-change", Cfg: cfg, Script: history.ScenarioCommitteeParamChange(), Blocks: 12, MaxTxs: 6, PriceEvery: 5},
		{Name: "cdp-fees-accrued", Cfg: cfg, Script: history.ScenarioCdpFeesAccrued()},
		{Name: "cdp-fees-accrued-then-random", Cfg: cfg, Script: history.ScenarioCdpFeesAccrued(), Blocks: 20, MaxTxs: 6, PriceEvery: 5},
	}
	nRandom := c.Budget(12, 80)
	for i := 0; i < nRandom; i++ {
		cf := cfg
		cf.LiquidationInterval = int64(1 + i%3)
		// exports are taken at many different heights
		plans = append(plans, history.Plan{Name: fmt.Sprintf("random-%d", i), Cfg: cf, Blocks: 25 + 14*i%160, MaxTxs: 8, PriceEvery: 4})
	}
	planIdx := map[string]int{}
	for i := range plans {
		plans[i].Seed = rng.Fork(uint64(i)).U64()
		// the seed shifts which parameter change a plan gets, so that over the seeds every directed scenario and
		// every random history meets every kind of change
		planIdx[plans[i].Name] = i + int(c.Seed()%1000)*5
	}
	if only := os.Getenv("VERIF_ONLY_PLAN"); only != "" {
		var sel []history.Plan
		for _, p := range plans {
			if p.Name == only {
				sel = append(sel, p)
			}
		}
		plans = sel
	}
	var wg sync.WaitGroup
	sem := make(chan struct{}, c.Workers())
	for _, plan := range plans {
		plan, idx := plan, planIdx[plan.Name]
		wg.Add(1)
		go func() {
			defer wg.Done()
			sem <- struct{}{}
			defer func() { <-sem }()
			// a panic that escapes here comes from keeper code the harness calls to observe or drive a chain
			if pm := safely(func() { runPlan(out, plan, idx) }); pm != "" {
				out.Case(class(plan.Name)+"|harness-panic", "c14.step", plan.Name+"@plan-aborted", "observe", "fail", short(pm, 300))
				out.Violation(fmt.Sprintf("C14 observe failed plan=%s@plan-aborted seed=%d: %s", plan.Name, plan.Seed, short(pm, 400)))
			}
		}()
	}
	wg.Wait()
	out.NoteN("wall-seconds", int(time.Since(t0).Seconds()))
}

func class(plan string) string {
	if strings.HasPrefix(plan, "random-") {
		return "random"
	}
	return plan
}

func runPlan(out *c.Out, plan history.Plan, idx int) {
	p := history.MakeParties()
	prng := c.NewRng(plan.Seed ^ 0x5bd1e995)
	// precisebank: extended-precision mints and transfers through the real keeper every few blocks, so that
	// fractional balances and a non-zero remainder exist at export time
	hooks := history.Hooks{
		AfterEndBlock: func(n *history.Node, ctx sdk.Context, height int64) {
			if height%4 != 1 {
				return
			}
			pk := n.T.GetPrecisebankKeeper()
			C := pbtypes.ConversionFactor()
			amt := sdkmath.NewIntFromBigInt(prng.BigBelow(C.MulRaw(3).BigInt())).AddRaw(1)
			coins := sdk.NewCoins(sdk.NewCoin(pbtypes.ExtendedCoinDenom, amt))
			cctx, write := ctx.CacheContext()
			if err := pk.MintCoins(cctx, evmtypes.ModuleName, coins); err != nil {
				return
			}
			u := p.Users[prng.Intn(len(p.Users))]
			if err := pk.SendCoinsFromModuleToAccount(cctx, evmtypes.ModuleName, u.Addr, coins); err != nil {
				return
			}
			if prng.Chance(50) {
				v := p.Users[prng.Intn(len(p.Users))]
				part := sdkmath.NewIntFromBigInt(prng.BigBelow(amt.BigInt()))
				if part.IsPositive() {
					_ = pk.SendCoins(cctx, u.Addr, v.Addr, sdk.NewCoins(sdk.NewCoin(pbtypes.ExtendedCoinDenom, part)))
				}
			}
			write()
			out.Note("precisebank-ops")
		},
	}
	tStage := time.Now()
	stage := func(name string) {
		out.NoteN("ms:"+name, int(time.Since(tStage).Milliseconds()))
		tStage = time.Now()
	}
	h := history.Produce(plan, hooks)
	stage("1-history")
	A := h.Leader
	defer A.Close()
	for s, n := range h.Stats {
		out.NoteN(s, n)
	}
	cls := class(plan.Name)
	if h.Stopped != "" {
		// a begin-block panic is C02's finding; there is no committed state to export beyond this height
		out.Note("history-stopped:" + short(h.Stopped, 80))
		if len(h.Blocks) < 2 {
			return
		}
	}
	if A.Height < 1 {
		return
	}
	lastTime := h.Blocks[A.Height-1].Time

	// ---- 0. governance-style parameter changes before the export (gov.go): the history lives a few blocks with a
	// module switched off (or changed) while its store still holds the data of the time it was on
	trigger := ""
	if strings.HasPrefix(plan.Name, "random-") {
		var k int
		fmt.Sscanf(plan.Name, "random-%d", &k)
		switch k % 12 {
		case 9:
			trigger = "bep3-asset-deactivated"
		case 10:
			trigger = "hard-market-delisted"
		case 11:
			trigger = "pricefeed-market-deactivated"
		}
	}
	gp := makeGovPlan(idx, c.NewRng(plan.Seed^0x60f), os.Getenv("VERIF_C14_GOV"), trigger)
	if h.Stopped == "" && os.Getenv("VERIF_C14_NOGOV") == "" {
		grng := c.NewRng(plan.Seed ^ 0x77aa)
		gg := history.NewGen(p, grng, A, plan.Cfg)
		nb := 3 + grng.Intn(4)
		for k := 0; k < nb; k++ {
			gap := c.Pick(grng, []time.Duration{6 * time.Second, 6 * time.Second, 6 * time.Second, time.Minute, 10 * time.Minute, time.Hour})
			b := &blockRec{Height: A.Height + 1, Time: lastTime.Add(gap)}
			if k == 0 {
				b.Pre = gp.off
			}
			if gp.Mode == "off-then-on" && k == nb-1 {
				b.Pre = gp.on
			}
			if stop := genBlock(A, p, gg, b, grng.Intn(7), nil, nil, nil); stop != "" {
				// a block that panics after a parameter change is C02's subject; nothing was committed for this height
				out.Note("gov-block-stopped:" + gp.names() + ":" + short(stop, 80))
				h.Stopped = stop
				break
			}
			lastTime = b.Time
		}
		for _, a := range gp.Applied {
			out.Note("gov:" + a.Name + ":" + gp.Mode)
		}
		if len(gp.Applied) == 0 {
			out.Note("gov:none-applicable")
		}
	}
	fail := func(step, detail string) {
		out.Case(cls+"|"+step+"|fail", "c14.step", plan.Name, step, "fail", short(detail, 400))
		out.Violation(fmt.Sprintf("C14 %s failed plan=%s seed=%d export-height=%d: %s", step, plan.Name, plan.Seed, A.Height, short(detail, 600)))
	}
	ok := func(step string) { out.Case(cls+"|"+step+"|ok", "c14.step", plan.Name, step, "ok", "-") }
	govTag := gp.names() + ":" + gp.Mode
	// from here on the history is named with what governance did to it: every case line, PREDFAIL and violation
	// carries it (plan=<name>@<changes>:<mode>)
	baseName := plan.Name
	plan.Name = baseName + "@" + govTag

	stage("2-gov-blocks")
	// ---- 1. export
	exA := safeExport(A)
	if exA.Err != "" {
		fail("export", exA.Err)
		return
	}
	ok("export")
	// ---- 2. validation
	if failed := history.ValidateGenesis(exA.AppState); len(failed) > 0 {
		var ms []string
		for m := range failed {
			ms = append(ms, m)
		}
		sort.Strings(ms)
		for _, m := range ms {
			out.Case(cls+"|validate|fail|"+m, "c14.step", plan.Name, "validate-"+m, "fail", short(failed[m], 300))
			out.Violation(fmt.Sprintf("C14 validate failed module=%s plan=%s seed=%d export-height=%d: %s", m, plan.Name, plan.Seed, A.Height, short(failed[m], 500)))
		}
		// keep going: InitChain does not run ValidateGenesis, the import itself may still work
	} else {
		ok("validate")
	}
	// ---- 3. import, re-export, compare
	B1, err := history.ImportNode("B1", exA, lastTime)
	if err != nil {
		fail("import", err.Error())
		return
	}
	defer B1.Close()
	ok("import")
	if err := B1.CommitGenesis(); err != nil {
		fail("import-commit", err.Error())
		return
	}
	exB := safeExport(B1)
	if exB.Err != "" {
		fail("re-export", exB.Err)
		return
	}
	ok("re-export")
	diffs, modules := history.CompareExports(exA, exB, lastTime)
	if dir := os.Getenv("VERIF_DUMP"); dir != "" {
		os.WriteFile(dir+"/"+baseName+".A.json", exA.AppState, 0o644)
		os.WriteFile(dir+"/"+baseName+".B.json", exB.AppState, 0o644)
	}
	dm := map[string]history.ModuleDiff{}
	for _, d := range diffs {
		dm[d.Module] = d
	}
	for _, m := range modules {
		if d, differs := dm[m]; differs {
			out.Case(cls+"|"+m+"|differs", "c14.module", plan.Name, m, "0", d.Path, short(d.A, 200), short(d.B, 200))
			out.Violation(fmt.Sprintf("C14 re-export differs module=%s path=%s original=%s imported=%s plan=%s seed=%d gov=%s export-height=%d",
				m, d.Path, short(d.A, 200), short(d.B, 200), plan.Name, plan.Seed, govTag, A.Height))
		} else {
			sig := ""
			if len(exA.Modules[m]) > 400 { // non-trivial section
				sig = cls + "|" + m + "|same"
			}
			out.Case(sig, "c14.module", plan.Name, m, "1", "-", "-", "-")
		}
	}
	// the incentive section field by field (exact), leaving out only the hard claims that the known finding
	// C14-export-mutates-state makes scheduling-dependent: a difference in the parameters, reward indexes, accrual times
	// or any other claim type must not hide behind it
	sectionCompare(out, plan, cls, govTag, "incentive", exA, exB, func(f string) bool { return f == "hard_liquidity_provider_claims" })
	if br := history.AssertInvariants(B1, B1.CommittedCtx(lastTime)); len(br) > 0 {
		out.Case(cls+"|inv-import|broken", "c14.invariant", plan.Name, "after-import", short(strings.Join(br, ","), 300))
		out.Violation(fmt.Sprintf("C14 invariant broken on the imported app plan=%s seed=%d gov=%s: %s", plan.Name, plan.Seed, govTag, short(strings.Join(br, " | "), 500)))
	} else {
		out.Case(cls+"|inv-import|ok", "c14.invariant", plan.Name, "after-import", "-")
	}
	modelTies(out, plan.Name, cls, exA, exB)
	modelTiesMore(out, plan.Name, cls, exA, exB, lastTime)
	storeCompare(out, plan, cls, A, B1, lastTime)
	paramsStoreCompare(out, plan, cls, govTag, A, B1, lastTime)

	stage("3-export-import-reexport-compare")
	// ---- 3b. is the export a function of the state? (i) exporting the same node twice with no block in
	// between must give the same document (ExportGenesis must not write), (ii) two fresh imports of the same
	// document must export the same document.
	exB2 := safeExport(B1)
	if exB2.Err == "" {
		if d2, _ := history.CompareExports(exB, exB2, lastTime); len(d2) > 0 {
			out.Case(cls+"|export-twice|differs|"+d2[0].Module, "c14.step", plan.Name, "export-twice-"+d2[0].Module, "fail", short(d2[0].Path+" first="+d2[0].A+" second="+d2[0].B, 300))
			out.Violation(fmt.Sprintf("C14 export is not read-only: exporting the same node twice differs module=%s path=%s first=%s second=%s plan=%s seed=%d",
				d2[0].Module, d2[0].Path, short(d2[0].A, 120), short(d2[0].B, 120), plan.Name, plan.Seed))
		} else {
			ok("export-twice")
		}
	}
	if B3, err := history.ImportNode("B3", exA, lastTime); err == nil {
		if B3.CommitGenesis() == nil {
			if exB3 := safeExport(B3); exB3.Err == "" {
				if d3, _ := history.CompareExports(exB, exB3, lastTime); len(d3) > 0 {
					out.Case(cls+"|export-deterministic|differs|"+d3[0].Module, "c14.step", plan.Name, "export-deterministic-"+d3[0].Module, "fail", short(d3[0].Path, 300))
					out.Violation(fmt.Sprintf("C14 export is not deterministic: two fresh imports of the same document export different documents module=%s path=%s one=%s other=%s plan=%s seed=%d",
						d3[0].Module, d3[0].Path, short(d3[0].A, 120), short(d3[0].B, 120), plan.Name, plan.Seed))
				} else {
					ok("export-deterministic")
				}
			}
		}
		B3.Close()
	}
	stage("4-export-twice-deterministic")
	if h.Stopped != "" {
		return // the original cannot run further blocks (C02's finding)
	}

	// ---- 4. common follow-up blocks on the original (A) and on a second import (B2)
	// B2 is imported from a SECOND export of the original: the first one (exA, compared above) may hold incentive's
	// hard claims half-synced — x/hard's export rewrites them while x/incentive exports them concurrently (known finding
	// C14-export-mutates-state) — e.g. a claim with its old reward indexes next to a deposit already carrying the settled
	// amount, which later pays a few units too much.  After the first export the node's check state holds every synced
	// claim, so the second document is consistent; the follow-up comparison then measures the import, not that race.
	exA2 := safeExport(A)
	if exA2.Err != "" {
		exA2 = exA
	}
	B2, err := history.ImportNode("B2", exA2, lastTime)
	if err != nil {
		fail("import-2", err.Error())
		return
	}
	defer B2.Close()
	stage("5-second-export-import")
	g := history.NewGen(p, c.NewRng(plan.Seed^0x1234567), A, plan.Cfg)
	g.Soft = true
	// Messages that fail ValidateBasic are skipped (genBlock): baseapp charges such a tx the gas accumulated on the
	// block's context so far, which on the first block after InitChain includes all of InitGenesis (≈ 4·10^8) and
	// exhausts the block gas meter of the imported app only — an SDK artefact of delivering a tx that CheckTx would
	// never admit, unrelated to the exported state.
	//
	// block 1: 40 generated txs, then up to three CDPs carrying accumulated fees are closed (index entries written
	//          by the import are exercised by removal)
	// block 2: empty (the begin blockers walk the indexes the import rebuilt)
	// block 3: what was switched off before the export is switched back on (same parameter write on both chains),
	//          15 generated txs
	// block 4: ten minutes later, empty: minting, reward accrual, interest of the re-activated modules
	// block 5: 6 generated txs
	reactivate := gp.Mode == "off-at-export" && len(gp.Applied) > 0
	type fspec struct {
		gap   time.Duration
		ntx   int
		react bool
		close bool
	}
	fspecs := []fspec{{6 * time.Second, 40, false, true}, {6 * time.Second, 0, false, false}, {6 * time.Second, 15, true, false},
		{10 * time.Minute, 0, false, false}, {6 * time.Second, 6, false, false}}
	// positions (tolerance one base unit) are compared after block 2, i.e. after one block of transactions and one
	// empty block: later the one unit of interest the export settled has been through liquidations, lot splits and
	// reward payouts, and only the tolerant comparisons below apply
	comparePositions := func(t time.Time) bool {
		// reading the positions runs keeper code (synced deposits, pending interest) that may panic on a damaged state
		var sa, sb map[string]string
		if pm := safely(func() { sa = history.Snapshot(A, p, A.CommittedCtx(t)) }); pm != "" {
			out.Note("followup-observe-panic-on-original:" + short(pm, 80))
			return false
		}
		if pm := safely(func() { sb = history.Snapshot(B2, p, B2.CommittedCtx(t)) }); pm != "" {
			fail("follow-up-observe", "reading the positions of the imported chain panics: "+pm)
			return false
		}
		nviol := 0
		for _, k := range unionKeys(sa, sb) {
			va, vb := sa[k], sb[k]
			if va == "" {
				va = "0"
			}
			if vb == "" {
				vb = "0"
			}
			kc := strings.SplitN(k, "/", 2)[0]
			rel := "same"
			if va != vb {
				rel = "differs"
				if within(va, vb, 1) {
					rel = "within-1"
				}
			}
			out.Case(kc+"|"+rel, "c14.pos", plan.Name, k, va, vb)
			if rel == "differs" && nviol < 3 {
				nviol++
				out.Violation(fmt.Sprintf("C14 position differs after follow-up block 2 key=%s original=%s imported=%s plan=%s seed=%d gov=%s export-height=%d", k, va, vb, plan.Name, plan.Seed, govTag, exA.Height))
			}
		}
		return true
	}
	t := lastTime
	closed := 0
	var blocks []*blockRec
	var resB [][]abci.ResponseDeliverTx
	for bi, fs := range fspecs {
		t = t.Add(fs.gap)
		b := &blockRec{Height: A.Height + 1, Time: t}
		if fs.react && reactivate {
			b.Pre = gp.on
		}
		var more func(deliver func(spec *history.TxSpec) (uint32, bool))
		if fs.close {
			more = func(deliver func(spec *history.TxSpec) (uint32, bool)) {
				hdr := p.Header(b.Height, b.Time)
				for _, cdp := range A.T.GetCDPKeeper().GetAllCdps(A.Ctx(hdr)) {
					if closed >= 3 || !cdp.AccumulatedFees.IsPositive() {
						continue
					}
					owner, okp := partyByAddr(p, cdp.Owner)
					if !okp {
						continue
					}
					pay := cdp.GetTotalPrincipal().Amount.MulRaw(102).QuoRaw(100).AddRaw(10)
					if A.T.GetBankKeeper().SpendableCoins(A.Ctx(hdr), cdp.Owner).AmountOf("usdx").LT(pay) {
						continue
					}
					msg := cdptypes.NewMsgRepayDebt(cdp.Owner, cdp.Type, sdk.NewCoin("usdx", pay))
					spec := &history.TxSpec{Kind: "cdp.close", Msgs: []sdk.Msg{&msg}, Signers: []history.Party{owner}, Desc: "cdp.close"}
					if code, delivered := deliver(spec); delivered && code == 0 {
						closed++
					}
				}
			}
		}
		var veto func(ctx sdk.Context, spec *history.TxSpec) bool
		if bi > 0 {
			dv := vetoDustCollateral(A)
			veto = func(ctx sdk.Context, spec *history.TxSpec) bool {
				if dv(ctx, spec) {
					out.Note("followup-skipped-cdp-on-dust-principal")
					return true
				}
				return false
			}
		}
		if stop := genBlock(A, p, g, b, fs.ntx, more, func() { out.Note("followup-skipped-basic-invalid") }, veto); stop != "" {
			out.Note(fmt.Sprintf("followup-%d-stopped-on-original:%s", bi+1, short(stop, 80))) // C02's business
			return
		}
		rb, pm := replayBlock(B2, p, b)
		if pm != "" {
			fail(fmt.Sprintf("follow-up-block-%d", bi+1), pm)
			return
		}
		blocks = append(blocks, b)
		resB = append(resB, rb)
		if bi == 1 && !comparePositions(t) {
			return
		}
	}
	stage("6-followup-blocks")
	out.NoteN("followup-cdps-closed", closed)
	if reactivate {
		out.Note("followup-reactivated:" + gp.names())
	}
	for bi, b := range blocks {
		for k := range b.Txs {
			ca, cb := b.Res[k], resB[bi][k]
			same := ca.Code == cb.Code && ca.Codespace == cb.Codespace
			sig := fmt.Sprintf("%s|%s/%d|same=%v", b.Kinds[k], ca.Codespace, ca.Code, same)
			out.Case(sig, "c14.tx", plan.Name, fmt.Sprintf("%d.%d", bi+1, k), b.Kinds[k], fmt.Sprintf("%s/%d", ca.Codespace, ca.Code), fmt.Sprintf("%s/%d", cb.Codespace, cb.Code))
			if os.Getenv("VERIF_DEBUG") != "" {
				fmt.Printf("FOLLOWUP %s block=%d tx=%d kind=%s codeA=%d gasA=%d codeB=%d gasB=%d\n", plan.Name, bi+1, k, b.Kinds[k], ca.Code, ca.GasUsed, cb.Code, cb.GasUsed)
			}
			if !same {
				out.Violation(fmt.Sprintf("C14 follow-up tx result differs block=%d kind=%s original=%s/%d imported=%s/%d plan=%s seed=%d gov=%s log-original=%q log-imported=%q",
					bi+1, b.Kinds[k], ca.Codespace, ca.Code, cb.Codespace, cb.Code, plan.Name, plan.Seed, govTag, short(ca.Log, 200), short(cb.Log, 200)))
			}
		}
	}
	// module accounts and total supplies (what minting, reward payouts, fee settlement leave behind)
	ma, supa := moduleBalances(A, A.CommittedCtx(t))
	mb, supb := moduleBalances(B2, B2.CommittedCtx(t))
	cmpAmounts := func(cmd, what string, tol int64, a, b map[string]string) {
		for _, k := range unionKeys(a, b) {
			va, vb := a[k], b[k]
			if va == "" {
				va = "0"
			}
			if vb == "" {
				vb = "0"
			}
			rel := "same"
			if va != vb {
				rel = "differs"
				if within(va, vb, tol) {
					rel = "within-tol"
				}
			}
			out.Case(k+"|"+rel, cmd, plan.Name, k, va, vb, fmt.Sprint(tol), govTag)
			if rel == "differs" {
				out.Violation(fmt.Sprintf("C14 %s differs after the follow-up blocks key=%s original=%s imported=%s plan=%s seed=%d gov=%s export-height=%d", what, k, va, vb, plan.Name, plan.Seed, govTag, exA.Height))
			}
		}
	}
	cmpAmounts("c14.macc", "module account balance", maccTol, ma, mb)
	cmpAmounts("c14.supply", "total supply", supplyTol, supa, supb)
	if br := history.AssertInvariants(B2, B2.CommittedCtx(t)); len(br) > 0 {
		out.Case(cls+"|inv-followup|broken", "c14.invariant", plan.Name, "after-follow-up", short(strings.Join(br, ","), 300))
		out.Violation(fmt.Sprintf("C14 invariant broken on the imported app after the follow-up blocks plan=%s seed=%d gov=%s: %s", plan.Name, plan.Seed, govTag, short(strings.Join(br, " | "), 500)))
	} else {
		out.Case(cls+"|inv-followup|ok", "c14.invariant", plan.Name, "after-follow-up", "-")
	}
	stage("7-followup-balances-invariants")
	// every module's genesis exported from both chains after the follow-up blocks, field by field
	fxA, fxB := safeExport(A), safeExport(B2)
	if fxA.Err != "" || fxB.Err != "" {
		if fxB.Err != "" && fxA.Err == "" {
			fail("follow-up-export", fxB.Err)
		} else {
			out.Note("followup-export-failed-on-original:" + short(fxA.Err, 80))
		}
		return
	}
	if dir := os.Getenv("VERIF_DUMP"); dir != "" {
		os.WriteFile(dir+"/"+baseName+".FA.json", fxA.AppState, 0o644)
		os.WriteFile(dir+"/"+baseName+".FB.json", fxB.AppState, 0o644)
	}
	followupExportCompare(out, plan, cls, govTag, fxA, fxB, t)
	stage("8-followup-exports-compare")
}

// sectionCompare compares one module's section of two documents field by field, exactly (c14.section).
func sectionCompare(out *c.Out, plan history.Plan, cls, govTag, m string, a, b history.Exported, skip func(field string) bool) {
	pa, pb := sectionParts(a.Modules[m]), sectionParts(b.Modules[m])
	fields := map[string]bool{}
	for f := range pa {
		fields[f] = true
	}
	for f := range pb {
		fields[f] = true
	}
	var fs []string
	for f := range fields {
		fs = append(fs, f)
	}
	sort.Strings(fs)
	for _, f := range fs {
		if skip != nil && skip(f) {
			continue
		}
		if path, va, vb, d := tolDiff(m+"."+f, m+"."+f, pa[f], pb[f], 0, nil); d {
			out.Case(cls+"|"+m+"."+f+"|differs", "c14.section", plan.Name, m, f, "0", path, short(va, 160), short(vb, 160), govTag)
			out.Violation(fmt.Sprintf("C14 section differs after import module=%s field=%s path=%s original=%s imported=%s plan=%s seed=%d gov=%s",
				m, f, path, short(va, 160), short(vb, 160), plan.Name, plan.Seed, govTag))
		} else {
			out.Case(cls+"|"+m+"."+f+"|same", "c14.section", plan.Name, m, f, "1", "-", "-", "-", govTag)
		}
	}
}

// followupExportCompare: the documents exported from the original and from the imported chain after the common
// follow-up blocks, module by module and field by field; numeric leaves within numTol base units (c14.fsection).
func followupExportCompare(out *c.Out, plan history.Plan, cls, govTag string, a, b history.Exported, t time.Time) {
	names := map[string]bool{}
	for k := range a.Modules {
		names[k] = true
	}
	for k := range b.Modules {
		names[k] = true
	}
	var ms []string
	for k := range names {
		ms = append(ms, k)
	}
	sort.Strings(ms)
	dusty := map[string]bool{}
	dustyCollateral(a.Modules["cdp"], b.Modules["cdp"], 1_000_000, dusty)
	for _, m := range ms {
		pa, pb := sectionParts(a.Modules[m]), sectionParts(b.Modules[m])
		if m == "incentive" && len(dusty) > 0 {
			for _, f := range []string{"usdx_reward_state", "usdx_minting_claims"} {
				neutraliseDustFactors(pa[f], dusty)
				neutraliseDustFactors(pb[f], dusty)
			}
			out.Note("followup-dust-principal-factors-not-compared")
		}
		if m == "cdp" && len(dusty) > 0 {
			neutraliseDustAccrual(pa["previous_accumulation_times"], dusty)
			neutraliseDustAccrual(pb["previous_accumulation_times"], dusty)
		}
		if m == "pricefeed" {
			var va, vb any
			json.Unmarshal(a.Modules[m], &va)
			json.Unmarshal(b.Modules[m], &vb)
			ma, _ := livePosts(va, t).(map[string]any)
			mb, _ := livePosts(vb, t).(map[string]any)
			pa, pb = ma, mb
		}
		fields := map[string]bool{}
		for f := range pa {
			fields[f] = true
		}
		for f := range pb {
			fields[f] = true
		}
		var fs []string
		for f := range fields {
			fs = append(fs, f)
		}
		sort.Strings(fs)
		for _, f := range fs {
			bare := m + "." + f
			if f == "" {
				bare = m
			}
			if followupSkip(bare) {
				continue
			}
			if path, va, vb, d := tolDiff(bare, bare, pa[f], pb[f], numTol, followupSkip); d {
				out.Case(cls+"|"+bare+"|differs", "c14.fsection", plan.Name, m, f, "0", path, short(va, 160), short(vb, 160), govTag)
				out.Violation(fmt.Sprintf("C14 chains diverge after the follow-up blocks: exported genesis differs module=%s field=%s path=%s original=%s imported=%s plan=%s seed=%d gov=%s",
					m, f, path, short(va, 160), short(vb, 160), plan.Name, plan.Seed, govTag))
			} else {
				sig := ""
				if len(a.Modules[m]) > 400 {
					sig = cls + "|" + bare + "|same"
				}
				out.Case(sig, "c14.fsection", plan.Name, m, f, "1", "-", "-", "-", govTag)
			}
		}
	}
}

// sameParamJSON: x/params values are amino-JSON; a nil slice written by the genesis builder ("null") and the empty
// slice a JSON round trip yields ("[]") read back as the same parameter value.
func sameParamJSON(a, b []byte) bool {
	var va, vb any
	if json.Unmarshal(a, &va) != nil || json.Unmarshal(b, &vb) != nil {
		return false
	}
	var norm func(v any) any
	norm = func(v any) any {
		switch x := v.(type) {
		case nil:
			return []any{}
		case map[string]any:
			for k, e := range x {
				x[k] = norm(e)
			}
			return x
		case []any:
			for i, e := range x {
				x[i] = norm(e)
			}
			return x
		}
		return v
	}
	ja, _ := json.Marshal(norm(va))
	jb, _ := json.Marshal(norm(vb))
	return string(ja) == string(jb)
}

// paramsStoreCompare: the x/params store (every module's parameter subspace) of the original and the imported app,
// key by key, grouped by subspace (c14.store with module "params").
func paramsStoreCompare(out *c.Out, plan history.Plan, cls, govTag string, A, B *history.Node, t time.Time) {
	da, db := history.DumpStore(A, A.CommittedCtx(t), "params"), history.DumpStore(B, B.CommittedCtx(t), "params")
	type agg struct {
		n, bad int
		first  string
		kind   string
	}
	groups := map[string]*agg{}
	sub := func(k string) string {
		if i := strings.Index(k, "/"); i > 0 {
			return k[:i]
		}
		return "-"
	}
	keys := map[string]bool{}
	for k := range da {
		keys[k] = true
	}
	for k := range db {
		keys[k] = true
	}
	for k := range keys {
		g := groups[sub(k)]
		if g == nil {
			g = &agg{}
			groups[sub(k)] = g
		}
		g.n++
		va, ina := da[k]
		vb, inb := db[k]
		kind := ""
		switch {
		case ina && !inb:
			kind = "missing-in-import"
		case !ina && inb:
			kind = "extra-in-import"
		case string(va) != string(vb) && !sameParamJSON(va, vb):
			kind = "value-differs"
		}
		if kind != "" {
			g.bad++
			if g.first == "" || k < g.first {
				g.first, g.kind = k, kind
			}
		}
	}
	var ss []string
	for s := range groups {
		ss = append(ss, s)
	}
	sort.Strings(ss)
	for _, s := range ss {
		g := groups[s]
		if g.bad > 0 {
			out.Case(cls+"|store|params|"+s+"|differs", "c14.store", plan.Name, "params", s, "0", g.kind, fmt.Sprint(g.bad), fmt.Sprintf("%x", g.first))
			out.Violation(fmt.Sprintf("C14 store differs after import module=params prefix=%s kind=%s keys=%d first-key=%q original=%q imported=%q plan=%s seed=%d gov=%s",
				s, g.kind, g.bad, g.first, clip(da[g.first]), clip(db[g.first]), plan.Name, plan.Seed, govTag))
		} else {
			out.Case(cls+"|store|params|"+s+"|same", "c14.store", plan.Name, "params", s, "1", "-", fmt.Sprint(g.n), "-")
		}
	}
}

// storeCompare: raw KV comparison, derived indexes included, of every Kava module store between the
// original app — read through its check state AFTER the export, i.e. with everything the export settles
// already written (cdp's interest sync rewrites the cdp record and its ratio index entry) — and the imported
// app. Tolerated differences are decided key by key in toleratedStoreDiff, each with its reason.
func storeCompare(out *c.Out, plan history.Plan, cls string, A, B *history.Node, t time.Time) {
	ctxA := A.CommittedCtx(t) // check state: committed state + the writes of ExportGenesis
	ctxB := B.CommittedCtx(t)
	for _, m := range history.KavaStores {
		da, db := history.DumpStore(A, ctxA, m), history.DumpStore(B, ctxB, m)
		diffs, groups := history.CompareStores(m, da, db)
		type agg struct {
			first history.StoreDiff
			n     int
		}
		bad := map[string]*agg{}
		for _, d := range diffs {
			if why := toleratedStoreDiff(d, t); why != "" {
				out.Note("store-tolerated:" + m + "/" + d.Prefix + "/" + d.Kind + ":" + why)
				continue
			}
			if bad[d.Prefix] == nil {
				bad[d.Prefix] = &agg{first: d}
			}
			bad[d.Prefix].n++
		}
		var ps []string
		for p := range groups {
			ps = append(ps, p)
		}
		sort.Strings(ps)
		for _, p := range ps {
			if g, isBad := bad[p]; isBad {
				d := g.first
				out.Case(cls+"|store|"+m+"|"+p+"|differs", "c14.store", plan.Name, m, p, "0", d.Kind, fmt.Sprint(g.n), fmt.Sprintf("%x", d.Key))
				out.Violation(fmt.Sprintf("C14 store differs after import module=%s prefix=%s kind=%s keys=%d first-key=%x original=%x imported=%x plan=%s seed=%d",
					m, p, d.Kind, g.n, d.Key, clip(d.A), clip(d.B), plan.Name, plan.Seed))
			} else {
				out.Case(cls+"|store|"+m+"|"+p+"|same", "c14.store", plan.Name, m, p, "1", "-", fmt.Sprint(groups[p]), "-")
			}
		}
	}
}

func clip(b []byte) []byte {
	if len(b) > 40 {
		return b[:40]
	}
	return b
}

// toleratedStoreDiff decides, for one differing key, whether the difference is one the export / import is
// allowed to make; "" = not tolerated. The list is explicit on purpose:
//
//	pricefeed 0x01 missing-in-import  raw oracle posts already expired at import time are dropped (named in the prose)
//	pricefeed 0x00 missing-in-import  a market whose posts are all expired holds an EMPTY current-price record on the
//	                                  original ("no valid price") and no record on the import: both read as no price
//	cdp       0x10 any                per-market pricefeed status flags: a cache recomputed from the current prices at
//	                                  import and again for every collateral at the start of every begin block
//	hard      0x01/0x02 value-differs deposits / borrows: the export settles interest in the exported copy but does not
//	                                  write it back, so the original still holds the unsynced record (the settled form
//	                                  is compared through the re-export and the follow-up block)
//	hard      0x08/0x09 extra-in-import  supply / borrow interest factors never initialised on the original are
//	                                  exported as 1.0 and materialised by the import (a missing factor reads as 1.0)
//	incentive 0x04 value-differs      hard liquidity-provider claims: rewritten by x/hard's export hooks while
//	                                  x/incentive exports them concurrently — the known finding C14-export-mutates-state,
//	                                  reported by C14_export_read_only / C14_export_deterministic / C14_reexport_identical
func toleratedStoreDiff(d history.StoreDiff, t time.Time) string {
	switch {
	case d.Module == "pricefeed" && d.Prefix == "01" && d.Kind == "missing-in-import":
		var pp pricefeedtypes.PostedPrice
		if app.MakeEncodingConfig().Marshaler.Unmarshal(d.A, &pp) == nil && !pp.Expiry.After(t) {
			return "expired-post-dropped"
		}
	case d.Module == "pricefeed" && d.Prefix == "00" && d.Kind == "missing-in-import":
		var cp pricefeedtypes.CurrentPrice
		if app.MakeEncodingConfig().Marshaler.Unmarshal(d.A, &cp) == nil && (cp.Price.IsNil() || cp.Price.IsZero()) {
			return "empty-current-price"
		}
	case d.Module == "cdp" && d.Prefix == "10":
		return "pricefeed-status-cache"
	case d.Module == "hard" && (d.Prefix == "01" || d.Prefix == "02") && d.Kind == "value-differs":
		return "interest-settled-in-export-only"
	case d.Module == "hard" && (d.Prefix == "08" || d.Prefix == "09") && d.Kind == "extra-in-import":
		var f sdk.Dec
		if f.Unmarshal(d.B) == nil && f.Equal(sdk.OneDec()) {
			return "default-interest-factor-materialised"
		}
		var dp sdk.DecProto
		if app.MakeEncodingConfig().Marshaler.Unmarshal(d.B, &dp) == nil && dp.Dec.Equal(sdk.OneDec()) {
			return "default-interest-factor-materialised"
		}
	case d.Module == "incentive" && d.Prefix == "04" && d.Kind == "value-differs":
		return "known-finding-export-mutates-state"
	}
	return ""
}

func partyByAddr(p *history.Parties, a sdk.AccAddress) (history.Party, bool) {
	for _, u := range p.All() {
		if u.Addr.Equals(a) {
			return u, true
		}
	}
	return history.Party{}, false
}

func within(a, b string, tol int64) bool {
	x, ok1 := new(big.Int).SetString(a, 10)
	y, ok2 := new(big.Int).SetString(b, 10)
	if !ok1 || !ok2 {
		// decimal strings (earn shares): compare mantissas
		da, e1 := sdk.NewDecFromStr(a)
		db, e2 := sdk.NewDecFromStr(b)
		if e1 != nil || e2 != nil {
			return false
		}
		return da.Sub(db).Abs().LTE(sdk.NewDec(tol))
	}
	return new(big.Int).Abs(new(big.Int).Sub(x, y)).Cmp(big.NewInt(tol)) <= 0
}

// ---------------------------------------------------------------- model ties

// key48 maps an address / id to a Nat that preserves the byte order of its first six bytes.
func key48(b []byte) uint64 {
	var buf [8]byte
	copy(buf[2:], b)
	return binary.BigEndian.Uint64(buf[:])
}

var denomIdx = map[string]int{}
var denomMu sync.Mutex

// denomKey: a stable order-preserving index for the denominations seen (fixed table + hash fallback).
func denomKey(d string) int {
	table := []string{"bkava-kavavaloper", "bnb", "btc", "busd", "hard", "swp", "ukava", "usdtoken", "usdx", "xrp"}
	for i, t := range table {
		if d == t {
			return (i + 1) * 1000
		}
		if strings.HasPrefix(d, t) && t == "bkava-kavavaloper" {
			// two validators: order by suffix
			return (i+1)*1000 + int(d[len(t)])
		}
	}
	return 999999
}

func coinsField(cs sdk.Coins) string {
	if len(cs) == 0 {
		return "-"
	}
	var parts []string
	for _, cn := range cs {
		parts = append(parts, fmt.Sprintf("%d:%s", denomKey(cn.Denom), cn.Amount))
	}
	return strings.Join(parts, ",")
}

func modelTies(out *c.Out, plan, cls string, a, b history.Exported) {
	enc := app.MakeEncodingConfig()
	cdc := enc.Marshaler
	// ---- precisebank
	{
		var ga, gb pbtypes.GenesisState
		var bank banktypes.GenesisState
		if cdc.UnmarshalJSON(a.Modules[pbtypes.ModuleName], &ga) == nil && cdc.UnmarshalJSON(b.Modules[pbtypes.ModuleName], &gb) == nil &&
			cdc.UnmarshalJSON(a.Modules[banktypes.ModuleName], &bank) == nil {
			reserve := sdk.ZeroInt()
			ra := authtypes.NewModuleAddress(pbtypes.ModuleName).String()
			for _, bl := range bank.Balances {
				if bl.Address == ra {
					reserve = bl.Coins.AmountOf(pbtypes.IntegerCoinDenom)
				}
			}
			f := func(g pbtypes.GenesisState) string {
				var parts []string
				for _, fb := range g.Balances {
					ad, _ := sdk.AccAddressFromBech32(fb.Address)
					parts = append(parts, fmt.Sprintf("%d:%s", key48(ad), fb.Amount))
				}
				if len(parts) == 0 {
					return "-"
				}
				return strings.Join(parts, ",")
			}
			sig := fmt.Sprintf("n=%d|rem0=%v", minInt(len(ga.Balances), 3), ga.Remainder.IsZero())
			out.Case(sig, "c14.pb", plan, f(ga), ga.Remainder.String(), reserve.String(), "=>", f(gb), gb.Remainder.String())
		}
	}
	// ---- savings
	{
		var ga, gb savingstypes.GenesisState
		if cdc.UnmarshalJSON(a.Modules[savingstypes.ModuleName], &ga) == nil && cdc.UnmarshalJSON(b.Modules[savingstypes.ModuleName], &gb) == nil {
			// denominations → ranks in string order (sdk.Coins are sorted by denom)
			var dn []string
			seen := map[string]bool{}
			for _, g := range []savingstypes.GenesisState{ga, gb} {
				for _, dp := range g.Deposits {
					for _, cn := range dp.Amount {
						if !seen[cn.Denom] {
							seen[cn.Denom] = true
							dn = append(dn, cn.Denom)
						}
					}
				}
			}
			sort.Strings(dn)
			rank := map[string]int{}
			for i, d := range dn {
				rank[d] = i + 1
			}
			f := func(g savingstypes.GenesisState) string {
				var parts []string
				for _, dp := range g.Deposits {
					var cs []string
					for _, cn := range dp.Amount {
						cs = append(cs, fmt.Sprintf("%d:%s", rank[cn.Denom], cn.Amount))
					}
					c := "-"
					if len(cs) > 0 {
						c = strings.Join(cs, "+")
					}
					parts = append(parts, fmt.Sprintf("%d=%s", key48(dp.Depositor), c))
				}
				if len(parts) == 0 {
					return "-"
				}
				return strings.Join(parts, ",")
			}
			out.Case(fmt.Sprintf("n=%d", minInt(len(ga.Deposits), 4)), "c14.savings", plan, f(ga), "=>", f(gb))
		}
	}
	// ---- swap
	{
		var ga, gb swaptypes.GenesisState
		if cdc.UnmarshalJSON(a.Modules[swaptypes.ModuleName], &ga) == nil && cdc.UnmarshalJSON(b.Modules[swaptypes.ModuleName], &gb) == nil {
			f := func(g swaptypes.GenesisState) (string, string) {
				rank := map[string]int{}
				var ids []string
				for _, pr := range g.PoolRecords {
					ids = append(ids, pr.PoolID)
				}
				for _, sr := range g.ShareRecords {
					ids = append(ids, sr.PoolID)
				}
				sort.Strings(ids)
				for _, id := range ids {
					if _, ok := rank[id]; !ok {
						rank[id] = len(rank) + 1
					}
				}
				var ps, ss []string
				for _, pr := range g.PoolRecords {
					ps = append(ps, fmt.Sprintf("%d:%s:%s:%s", rank[pr.PoolID], pr.ReservesA.Amount, pr.ReservesB.Amount, pr.TotalShares))
				}
				for _, sr := range g.ShareRecords {
					ss = append(ss, fmt.Sprintf("%d:%d:%s", key48(sr.Depositor)*100+uint64(rank[sr.PoolID]), rank[sr.PoolID], sr.SharesOwned))
				}
				return c.Strs(ps), c.Strs(ss)
			}
			pa, sa := f(ga)
			pb, sb := f(gb)
			out.Case(fmt.Sprintf("pools=%d|shares=%d", len(ga.PoolRecords), minInt(len(ga.ShareRecords), 5)), "c14.swap", plan, pa, sa, "=>", pb, sb)
		}
	}
	// ---- bep3, one case per asset
	{
		var ga, gb bep3types.GenesisState
		if cdc.UnmarshalJSON(a.Modules[bep3types.ModuleName], &ga) == nil && cdc.UnmarshalJSON(b.Modules[bep3types.ModuleName], &gb) == nil {
			for _, ap := range ga.Params.AssetParams {
				f := func(g bep3types.GenesisState) (string, string) {
					var ss []string
					nOpen, nExp, nDone := 0, 0, 0
					for _, s := range g.AtomicSwaps {
						if len(s.Amount) != 1 || s.Amount[0].Denom != ap.Denom {
							continue
						}
						st := 0
						switch s.Status {
						case bep3types.SWAP_STATUS_OPEN:
							st = 0
							nOpen++
						case bep3types.SWAP_STATUS_COMPLETED:
							st = 1
							nDone++
						case bep3types.SWAP_STATUS_EXPIRED:
							st = 2
							nExp++
						default:
							st = 9
						}
						in := 0
						if s.Direction == bep3types.SWAP_DIRECTION_INCOMING {
							in = 1
						}
						ss = append(ss, fmt.Sprintf("%d:%d:%d:%s:%d:%d", key48(s.GetSwapID()), in, st, s.Amount[0].Amount, s.ExpireHeight, s.ClosedBlock))
					}
					sup := "0:0:0"
					for _, sp := range g.Supplies {
						if sp.GetDenom() == ap.Denom {
							sup = fmt.Sprintf("%s:%s:%s", sp.IncomingSupply.Amount, sp.OutgoingSupply.Amount, sp.CurrentSupply.Amount)
						}
					}
					_ = nOpen
					return c.Strs(ss), sup
				}
				sa, supa := f(ga)
				sb, supb := f(gb)
				n := 0
				if sa != "-" {
					n = len(strings.Split(sa, ","))
				}
				out.Case(fmt.Sprintf("swaps=%d", minInt(n, 6)), "c14.bep3", plan, ap.Denom, sa, supa, ap.SupplyLimit.Limit.String(), "=>", sb, supb)
			}
		}
	}
}

func minInt(a, b int) int {
	if a < b {
		return a
	}
	return b
}

var _ = json.Marshal
