// Ties of the further Lean genesis models (Model/GenesisMore.lean): the exported (A) and re-exported (B) sections of
// kavadist, community, issuance, auction, committee, hard (parameters + accrual records), pricefeed and cdp are encoded
// for the driver, which runs the Lean validate / init / export on A and compares with B.
package main

import (
	"fmt"
	"hash/fnv"
	"sort"
	"strings"
	"time"

	sdk "github.com/cosmos/cosmos-sdk/types"
	authtypes "github.com/cosmos/cosmos-sdk/x/auth/types"
	banktypes "github.com/cosmos/cosmos-sdk/x/bank/types"
	"github.com/cosmos/gogoproto/proto"

	"github.com/kava-labs/kava/app"
	auctiontypes "github.com/kava-labs/kava/x/auction/types"
	cdptypes "github.com/kava-labs/kava/x/cdp/types"
	committeetypes "github.com/kava-labs/kava/x/committee/types"
	communitytypes "github.com/kava-labs/kava/x/community/types"
	hardtypes "github.com/kava-labs/kava/x/hard/types"
	issuancetypes "github.com/kava-labs/kava/x/issuance/types"
	kavadisttypes "github.com/kava-labs/kava/x/kavadist/types"
	pricefeedtypes "github.com/kava-labs/kava/x/pricefeed/types"

	c "kavaverif/harness/common"
	"kavaverif/harness/history"
)

// tick encodes a time for the models: "zero" = Go's time.Time{}, "default" = time.Unix(1,0) (the default previous
// block time of kavadist), otherwise Unix nanoseconds.
func tick(t time.Time) string {
	switch {
	case t.IsZero():
		return "zero"
	case t.Equal(time.Unix(1, 0)):
		return "default"
	}
	return fmt.Sprint(t.UnixNano())
}

func hash32(bz []byte) uint32 {
	h := fnv.New32a()
	h.Write(bz)
	return h.Sum32()
}

// ranks assigns 1-based ranks in string order to the names seen.
func ranks(names ...[]string) map[string]int {
	seen := map[string]bool{}
	var all []string
	for _, ns := range names {
		for _, n := range ns {
			if !seen[n] {
				seen[n] = true
				all = append(all, n)
			}
		}
	}
	sort.Strings(all)
	r := map[string]int{}
	for i, n := range all {
		r[n] = i + 1
	}
	return r
}

type keyed struct {
	k uint64
	s string
}

func joinSorted(xs []keyed) string {
	sort.SliceStable(xs, func(i, j int) bool { return xs[i].k < xs[j].k })
	if len(xs) == 0 {
		return "-"
	}
	parts := make([]string, len(xs))
	for i, x := range xs {
		parts[i] = x.s
	}
	return strings.Join(parts, ",")
}

func modelTiesMore(out *c.Out, plan, cls string, a, b history.Exported, now time.Time) {
	cdc := app.MakeEncodingConfig().Marshaler
	// ---- kavadist
	{
		var ga, gb kavadisttypes.GenesisState
		if cdc.UnmarshalJSON(a.Modules[kavadisttypes.ModuleName], &ga) == nil && cdc.UnmarshalJSON(b.Modules[kavadisttypes.ModuleName], &gb) == nil {
			f := func(g kavadisttypes.GenesisState) (string, string, string) {
				var ps []string
				for _, p := range g.Params.Periods {
					ps = append(ps, fmt.Sprintf("%s:%s:%s", tick(p.Start), tick(p.End), p.Inflation.BigInt()))
				}
				return c.B(g.Params.Active), tick(g.PreviousBlockTime), c.Strs(ps)
			}
			aa, pa, pra := f(ga)
			ab, pb, prb := f(gb)
			out.Case(fmt.Sprintf("active=%s|prev-default=%v", aa, pa == "default"), "c14.kavadist", plan, aa, pa, pra, "=>", ab, pb, prb)
		}
	}
	// ---- community
	{
		var ga, gb communitytypes.GenesisState
		if cdc.UnmarshalJSON(a.Modules[communitytypes.ModuleName], &ga) == nil && cdc.UnmarshalJSON(b.Modules[communitytypes.ModuleName], &gb) == nil {
			f := func(g communitytypes.GenesisState) []string {
				p, s := g.Params, g.StakingRewardsState
				if p.StakingRewardsPerSecond.IsNil() || p.UpgradeTimeSetStakingRewardsPerSecond.IsNil() || s.LastTruncationError.IsNil() {
					return nil
				}
				return []string{tick(p.UpgradeTimeDisableInflation), p.StakingRewardsPerSecond.BigInt().String(), p.UpgradeTimeSetStakingRewardsPerSecond.BigInt().String(),
					tick(s.LastAccumulationTime), s.LastTruncationError.BigInt().String()}
			}
			fa, fb := f(ga), f(gb)
			if fa != nil && fb != nil {
				sig := fmt.Sprintf("rate0=%v|upgrade=%v|acc0=%v", ga.Params.StakingRewardsPerSecond.IsZero(), !ga.Params.UpgradeTimeDisableInflation.IsZero(), ga.StakingRewardsState.LastAccumulationTime.IsZero())
				out.Case(sig, "c14.community", append(append(append([]string{plan}, fa...), "=>"), fb...)...)
			}
		}
	}
	// ---- issuance
	{
		var ga, gb issuancetypes.GenesisState
		if cdc.UnmarshalJSON(a.Modules[issuancetypes.ModuleName], &ga) == nil && cdc.UnmarshalJSON(b.Modules[issuancetypes.ModuleName], &gb) == nil {
			var names []string
			for _, g := range []issuancetypes.GenesisState{ga, gb} {
				for _, as := range g.Params.Assets {
					names = append(names, as.Denom)
				}
				for _, s := range g.Supplies {
					names = append(names, s.GetDenom())
				}
			}
			rk := ranks(names)
			f := func(g issuancetypes.GenesisState) (string, string) {
				var as []string
				for _, x := range g.Params.Assets {
					as = append(as, fmt.Sprintf("%d:%s:%s", rk[x.Denom], c.B(x.Paused), c.B(x.RateLimit.Active)))
				}
				var ss []keyed
				for _, s := range g.Supplies {
					ss = append(ss, keyed{uint64(rk[s.GetDenom()]), fmt.Sprintf("%d:%s:%d", rk[s.GetDenom()], s.CurrentSupply.Amount, int64(s.TimeElapsed))})
				}
				return c.Strs(as), joinSorted(ss)
			}
			aa, sa := f(ga)
			ab, sb := f(gb)
			paused := len(ga.Params.Assets) > 0 && ga.Params.Assets[0].Paused
			out.Case(fmt.Sprintf("assets=%d|supplies=%d|paused=%v", len(ga.Params.Assets), len(ga.Supplies), paused), "c14.issuance", plan, aa, sa, "=>", ab, sb)
		}
	}
	// ---- auction (skipped above 1500 auctions: the model's import is quadratic)
	{
		var ga, gb auctiontypes.GenesisState
		var bank banktypes.GenesisState
		if cdc.UnmarshalJSON(a.Modules[auctiontypes.ModuleName], &ga) == nil && cdc.UnmarshalJSON(b.Modules[auctiontypes.ModuleName], &gb) == nil &&
			cdc.UnmarshalJSON(a.Modules[banktypes.ModuleName], &bank) == nil && len(ga.Auctions) <= 1500 {
			sumCoins := func(cs sdk.Coins) sdk.Int {
				t := sdk.ZeroInt()
				for _, cn := range cs {
					t = t.Add(cn.Amount)
				}
				return t
			}
			macc := sdk.ZeroInt()
			ma := authtypes.NewModuleAddress(auctiontypes.ModuleName).String()
			for _, bl := range bank.Balances {
				if bl.Address == ma {
					macc = sumCoins(bl.Coins)
				}
			}
			f := func(g auctiontypes.GenesisState) (string, bool) {
				as, err := auctiontypes.UnpackGenesisAuctions(g.Auctions)
				if err != nil {
					return "", false
				}
				var xs []keyed
				for _, x := range as {
					xs = append(xs, keyed{x.GetID(), fmt.Sprintf("%d:%s:%s", x.GetID(), tick(x.GetEndTime()), sumCoins(x.GetModuleAccountCoins()))})
				}
				return joinSorted(xs), true
			}
			sa, oka := f(ga)
			sb, okb := f(gb)
			if oka && okb {
				out.Case(fmt.Sprintf("auctions=%d", minInt(len(ga.Auctions), 4)), "c14.auction", plan, fmt.Sprint(ga.NextAuctionId), sa, macc.String(), "=>", fmt.Sprint(gb.NextAuctionId), sb)
			}
		} else if len(ga.Auctions) > 1500 {
			out.Note("tie-auction-skipped-too-many")
		}
	}
	// ---- committee
	{
		var ga, gb committeetypes.GenesisState
		if cdc.UnmarshalJSON(a.Modules[committeetypes.ModuleName], &ga) == nil && cdc.UnmarshalJSON(b.Modules[committeetypes.ModuleName], &gb) == nil {
			f := func(g committeetypes.GenesisState) (string, string, string) {
				var cs, ps, vs []keyed
				for _, any := range g.Committees {
					var com committeetypes.Committee
					if cdc.UnpackAny(any, &com) == nil {
						cs = append(cs, keyed{com.GetID(), fmt.Sprintf("%d:%d", com.GetID(), hash32(any.Value))})
					}
				}
				for _, p := range g.Proposals {
					bz, _ := proto.Marshal(&p)
					ps = append(ps, keyed{p.ID, fmt.Sprintf("%d:%d:%d", p.ID, p.CommitteeID, hash32(bz))})
				}
				for _, v := range g.Votes {
					k := v.ProposalID<<48 | key48(v.Voter)
					vs = append(vs, keyed{k, fmt.Sprintf("%d:%d:%d", k, v.ProposalID, int(v.VoteType))})
				}
				return joinSorted(cs), joinSorted(ps), joinSorted(vs)
			}
			ca, pa, va := f(ga)
			cb, pb, vb := f(gb)
			out.Case(fmt.Sprintf("proposals=%d|votes=%d", minInt(len(ga.Proposals), 3), minInt(len(ga.Votes), 3)), "c14.committee", plan,
				fmt.Sprint(ga.NextProposalID), ca, pa, va, "=>", fmt.Sprint(gb.NextProposalID), cb, pb, vb)
		}
	}
	// ---- hard: listed markets and accrual records
	{
		var ga, gb hardtypes.GenesisState
		if cdc.UnmarshalJSON(a.Modules[hardtypes.ModuleName], &ga) == nil && cdc.UnmarshalJSON(b.Modules[hardtypes.ModuleName], &gb) == nil {
			var names []string
			for _, g := range []hardtypes.GenesisState{ga, gb} {
				for _, mm := range g.Params.MoneyMarkets {
					names = append(names, mm.Denom)
				}
				for _, at := range g.PreviousAccumulationTimes {
					names = append(names, at.CollateralType)
				}
			}
			rk := ranks(names)
			f := func(g hardtypes.GenesisState) (string, string) {
				var ms []string
				for _, mm := range g.Params.MoneyMarkets {
					ms = append(ms, fmt.Sprint(rk[mm.Denom]))
				}
				var as []keyed
				for _, at := range g.PreviousAccumulationTimes {
					as = append(as, keyed{uint64(rk[at.CollateralType]), fmt.Sprintf("%d:%s:%s:%s", rk[at.CollateralType], tick(at.PreviousAccumulationTime),
						at.SupplyInterestFactor.BigInt(), at.BorrowInterestFactor.BigInt())})
				}
				return c.Strs(ms), joinSorted(as)
			}
			ma, aa := f(ga)
			mb, ab := f(gb)
			out.Case(fmt.Sprintf("markets=%d", len(ga.Params.MoneyMarkets)), "c14.hard", plan, ma, aa, "=>", mb, ab)
		}
	}
	// ---- pricefeed: markets and raw posts (current prices are not exported)
	{
		var ga, gb pricefeedtypes.GenesisState
		if cdc.UnmarshalJSON(a.Modules[pricefeedtypes.ModuleName], &ga) == nil && cdc.UnmarshalJSON(b.Modules[pricefeedtypes.ModuleName], &gb) == nil {
			var names []string
			for _, g := range []pricefeedtypes.GenesisState{ga, gb} {
				for _, m := range g.Params.Markets {
					names = append(names, m.MarketID)
				}
				for _, pp := range g.PostedPrices {
					names = append(names, pp.MarketID)
				}
			}
			rk := ranks(names)
			f := func(g pricefeedtypes.GenesisState) (string, string, int) {
				var ms []string
				for _, m := range g.Params.Markets {
					ms = append(ms, fmt.Sprintf("%d:%s", rk[m.MarketID], c.B(m.Active)))
				}
				var ps []keyed
				expired := 0
				for _, pp := range g.PostedPrices {
					if !pp.Expiry.After(now) {
						expired++
					}
					k := uint64(rk[pp.MarketID])<<48 | key48(pp.OracleAddress)
					ps = append(ps, keyed{k, fmt.Sprintf("%d:%d:%s:%d", k, rk[pp.MarketID], pp.Price.BigInt(), pp.Expiry.UnixNano())})
				}
				return c.Strs(ms), joinSorted(ps), expired
			}
			ma, pa, exp := f(ga)
			mb, pb, _ := f(gb)
			out.Case(fmt.Sprintf("posts=%d|expired=%d", minInt(len(ga.PostedPrices), 3), minInt(exp, 3)), "c14.pricefeed", plan, fmt.Sprint(now.UnixNano()), ma, pa, "=>", mb, pb)
		}
	}
	// ---- cdp: primary records, totals and accumulation records (skipped above 1500 cdps)
	{
		var ga, gb cdptypes.GenesisState
		if cdc.UnmarshalJSON(a.Modules[cdptypes.ModuleName], &ga) == nil && cdc.UnmarshalJSON(b.Modules[cdptypes.ModuleName], &gb) == nil && len(ga.CDPs) <= 1500 {
			var names []string
			for _, g := range []cdptypes.GenesisState{ga, gb} {
				for _, cp := range g.Params.CollateralParams {
					names = append(names, cp.Type)
				}
				for _, x := range g.CDPs {
					names = append(names, x.Type)
				}
				for _, x := range g.TotalPrincipals {
					names = append(names, x.CollateralType)
				}
				for _, x := range g.PreviousAccumulationTimes {
					names = append(names, x.CollateralType)
				}
			}
			rk := ranks(names)
			f := func(g cdptypes.GenesisState) []string {
				var ts []string
				for _, cp := range g.Params.CollateralParams {
					ts = append(ts, fmt.Sprint(rk[cp.Type]))
				}
				var cs, ds, ps, as []keyed
				for _, x := range g.CDPs {
					k := uint64(rk[x.Type])<<40 | x.ID
					cs = append(cs, keyed{k, fmt.Sprintf("%d:%d:%d:%s:%s:%s", k, key48(x.Owner), rk[x.Type], x.Collateral.Amount, x.Principal.Amount, x.AccumulatedFees.Amount)})
				}
				for _, d := range g.Deposits {
					k := d.CdpID<<48 | key48(d.Depositor)
					ds = append(ds, keyed{k, fmt.Sprintf("%d:%s", k, d.Amount.Amount)})
				}
				for _, x := range g.TotalPrincipals {
					ps = append(ps, keyed{uint64(rk[x.CollateralType]), fmt.Sprintf("%d:%s", rk[x.CollateralType], x.TotalPrincipal)})
				}
				for _, x := range g.PreviousAccumulationTimes {
					as = append(as, keyed{uint64(rk[x.CollateralType]), fmt.Sprintf("%d:%s:%s", rk[x.CollateralType], tick(x.PreviousAccumulationTime), x.InterestFactor.BigInt())})
				}
				return []string{c.Strs(ts), fmt.Sprint(g.StartingCdpID), joinSorted(cs), joinSorted(ds), joinSorted(ps), joinSorted(as)}
			}
			fa, fb := f(ga), f(gb)
			out.Case(fmt.Sprintf("cdps=%d|deposits=%d", minInt(len(ga.CDPs), 4), minInt(len(ga.Deposits), 4)), "c14.cdp",
				append(append(append([]string{plan}, fa...), "=>"), fb...)...)
		}
	}
}
