// c20: correspondence harness for time-locked reward payouts (property C20).
//
// Three streams, one self-contained case per line (see lean/Driver/C20.lean for the formats):
//
//	c20.cal    Go's time package and Keeper.GetPeriodLength, exhaustively by day 2019-2100 on both sides of
//	           14:00 UTC plus random instants, for a list of lock-up months.
//	c20.sched  the unexported addCoinsToVestingSchedule (hook VerifAddCoinsToVestingSchedule) on stored
//	           periodic vesting accounts with random layouts (0-6 periods) in every phase, chained claims;
//	           the SDK account's own GetVestingCoins / LockedCoins sampled around every period boundary.
//	c20.send   Keeper.SendTimeLockedCoinsToAccount on the real app for every recipient kind (base, periodic,
//	           continuous, delayed, permanent, module blocked/unblocked, EthAccount, no account), histories of
//	           payouts with advancing block time and delegations; the real bank LockedCoins / SpendableCoins
//	           sampled around every period boundary before and after.
//	c20.guard  the refusal clause: single calls of SendTimeLockedCoinsToAccount observed on the keeper's own
//	           context (no rollback), multi-denom payouts against module balances that are absent / short /
//	           exact / ample per denom, for every recipient kind, schedule phase and lock-up length incl. 0.
package main

import (
	"fmt"
	"os"
	"sort"
	"strconv"
	"strings"
	"time"

	sdk "github.com/cosmos/cosmos-sdk/types"
	"github.com/cosmos/cosmos-sdk/types/query"
	authtypes "github.com/cosmos/cosmos-sdk/x/auth/types"
	vestexported "github.com/cosmos/cosmos-sdk/x/auth/vesting/exported"
	vestingtypes "github.com/cosmos/cosmos-sdk/x/auth/vesting/types"
	stakingtypes "github.com/cosmos/cosmos-sdk/x/staking/types"
	etherminttypes "github.com/evmos/ethermint/types"

	"github.com/kava-labs/kava/app"
	incentivekeeper "github.com/kava-labs/kava/x/incentive/keeper"
	incentivetypes "github.com/kava-labs/kava/x/incentive/types"

	c "kavaverif/harness/common"
	"kavaverif/harness/kapp"
)

// denom index = position; alphabetical so that sdk.Coins order is the index order
var denoms = []string{"hard", "swp", "ukava"}

const ukavaIdx = 2

type vec [3]int64

func (v vec) coins() sdk.Coins {
	cs := sdk.Coins{}
	for i, a := range v {
		if a > 0 {
			cs = append(cs, sdk.NewInt64Coin(denoms[i], a))
		}
	}
	return cs
}

func vecOf(cs sdk.Coins) vec {
	var v vec
	for i, d := range denoms {
		v[i] = cs.AmountOf(d).Int64()
	}
	return v
}

func (v vec) String() string { return fmt.Sprintf("%d,%d,%d", v[0], v[1], v[2]) }
func (v vec) add(o vec) vec  { return vec{v[0] + o[0], v[1] + o[1], v[2] + o[2]} }
func (v vec) isZero() bool   { return v[0] == 0 && v[1] == 0 && v[2] == 0 }

func periodsStr(ps vestingtypes.Periods) string {
	if len(ps) == 0 {
		return "-"
	}
	s := make([]string, len(ps))
	for i, p := range ps {
		s[i] = fmt.Sprintf("%d:%s", p.Length, vecOf(p.Amount))
	}
	return strings.Join(s, "|")
}

// pvaFields = start end ov dv periods
func pvaFields(a *vestingtypes.PeriodicVestingAccount) []string {
	return []string{strconv.FormatInt(a.StartTime, 10), strconv.FormatInt(a.EndTime, 10),
		vecOf(a.OriginalVesting).String(), vecOf(a.DelegatedVesting).String(), periodsStr(a.VestingPeriods)}
}

var noPva = []string{"0", "0", "0,0,0", "0,0,0", "-"}

func clonePva(a *vestingtypes.PeriodicVestingAccount) *vestingtypes.PeriodicVestingAccount {
	bz := *a.BaseVestingAccount
	ba := *a.BaseVestingAccount.BaseAccount
	bz.BaseAccount = &ba
	bz.OriginalVesting = append(sdk.Coins{}, a.OriginalVesting...)
	bz.DelegatedVesting = append(sdk.Coins{}, a.DelegatedVesting...)
	bz.DelegatedFree = append(sdk.Coins{}, a.DelegatedFree...)
	ps := make(vestingtypes.Periods, len(a.VestingPeriods))
	for i, p := range a.VestingPeriods {
		ps[i] = vestingtypes.Period{Length: p.Length, Amount: append(sdk.Coins{}, p.Amount...)}
	}
	return &vestingtypes.PeriodicVestingAccount{BaseVestingAccount: &bz, StartTime: a.StartTime, VestingPeriods: ps}
}

// wellFormed = the WF of the theorems: Validate() (start<end, sums) plus positive lengths
func wellFormed(a *vestingtypes.PeriodicVestingAccount) bool {
	if a.StartTime >= a.EndTime {
		return false
	}
	end := a.StartTime
	sum := sdk.NewCoins()
	for _, p := range a.VestingPeriods {
		if p.Length <= 0 {
			return false
		}
		end += p.Length
		sum = sum.Add(p.Amount...)
	}
	return end == a.EndTime && sum.IsEqual(a.OriginalVesting)
}

func boundaries(a *vestingtypes.PeriodicVestingAccount) []int64 {
	bs := []int64{a.StartTime}
	t := a.StartTime
	for _, p := range a.VestingPeriods {
		t += p.Length
		bs = append(bs, t)
	}
	bs = append(bs, a.EndTime)
	return bs
}

// sampleTimes: now, the lock-up end and every period boundary of both schedules, each ±1 s
func sampleTimes(r *c.Rng, now, length int64, accs ...*vestingtypes.PeriodicVestingAccount) []int64 {
	must := []int64{now - 1, now, now + 1, now + length - 1, now + length, now + length + 1}
	set := map[int64]bool{}
	var opt []int64
	for _, a := range accs {
		if a == nil {
			continue
		}
		for _, b := range boundaries(a) {
			for _, t := range []int64{b - 1, b, b + 1} {
				if !set[t] {
					set[t] = true
					opt = append(opt, t)
				}
			}
		}
	}
	for len(opt) > 24 { // cap the line length: drop random optional instants
		i := r.Intn(len(opt))
		opt = append(opt[:i], opt[i+1:]...)
	}
	res := []int64{}
	seen := map[int64]bool{}
	for _, t := range append(must, opt...) {
		if !seen[t] {
			seen[t] = true
			res = append(res, t)
		}
	}
	sort.Slice(res, func(i, j int) bool { return res[i] < res[j] })
	return res
}

func at(t int64) time.Time { return time.Unix(t, 0).UTC() }

// ------------------------------------------------------------------------------------------ c20.cal

func daysIn(y int, m time.Month) int { return time.Date(y, m+1, 0, 0, 0, 0, 0, time.UTC).Day() }

func calCase(out *c.Out, k incentivekeeper.Keeper, t time.Time, months []int64) {
	now := t.Unix()
	y, m, d := t.Date()
	lens := make([]string, len(months))
	days := make([]string, len(months))
	secs := make([]string, len(months))
	for i, mo := range months {
		var l int64
		panicked, _ := c.Recover(func() { l = k.GetPeriodLength(t, mo) })
		if panicked {
			lens[i], days[i], secs[i] = "P", "0", "0"
			continue
		}
		e := time.Unix(now+l, 0).UTC()
		lens[i] = strconv.FormatInt(l, 10)
		days[i] = strconv.Itoa(e.Day())
		secs[i] = strconv.Itoa(e.Hour()*3600 + e.Minute()*60 + e.Second())
	}
	early := d < incentivekeeper.MidMonth || (d == incentivekeeper.MidMonth && t.Hour() < incentivekeeper.PaymentHour)
	sig := fmt.Sprintf("early=%v|month=%d|dim=%d|day15=%v", early, int(m), daysIn(y, m), d == 15)
	ms := make([]string, len(months))
	for i, mo := range months {
		ms[i] = strconv.FormatInt(mo, 10)
	}
	out.Case(sig, "c20.cal", strconv.FormatInt(now, 10), strconv.Itoa(y), strconv.Itoa(int(m)), strconv.Itoa(d),
		strconv.Itoa(t.Hour()), strings.Join(ms, ","), strings.Join(lens, ","), strings.Join(days, ","), strings.Join(secs, ","))
}

func runCal(out *c.Out, r *c.Rng) {
	k := incentivekeeper.Keeper{} // GetPeriodLength does not touch the receiver
	thorough := c.Tier() == "thorough"
	all := make([]int64, 49)
	for i := range all {
		all[i] = int64(i)
	}
	pick := func() []int64 {
		if thorough {
			return all
		}
		ms := []int64{0, 1, 2, 3, 6, 12, 13, 24, 48}
		ms = append(ms, r.Range(0, 48), r.Range(0, 48))
		sort.Slice(ms, func(i, j int) bool { return ms[i] < ms[j] })
		return ms
	}
	// exhaustive by day, both sides of the pay hour
	for day := time.Date(2019, 1, 1, 0, 0, 0, 0, time.UTC); day.Year() <= 2100; day = day.AddDate(0, 0, 1) {
		calCase(out, k, day.Add(14*time.Hour-time.Second), pick())
		calCase(out, k, day.Add(14*time.Hour), pick())
		if thorough {
			calCase(out, k, day, pick())
			calCase(out, k, day.Add(24*time.Hour-time.Second), pick())
		} else if day.Day() == 1 || day.Day() == 15 || day.Day() >= 28 || r.Chance(10) {
			calCase(out, k, day, pick())
			calCase(out, k, day.Add(24*time.Hour-time.Second), pick())
		}
	}
	// random instants 1970-2400 with nanoseconds, random month lists including negative months
	n := c.Budget(4000, 100000)
	for i := 0; i < n; i++ {
		sec := r.Range(0, 13569465600)
		t := time.Unix(sec, r.Range(0, 999999999)).UTC()
		ms := []int64{r.Range(-3, 60), r.Range(0, 5), r.Range(0, 120), r.Range(1, 1200)}
		calCase(out, k, t, ms)
	}
}

// ------------------------------------------------------------------------------------------ worlds

type world struct {
	tApp  app.TestApp
	base  sdk.Context
	addrs []sdk.AccAddress
	macc  sdk.AccAddress
	mods  map[bool]string // blocked? -> a module account name with that status
}

func mkWorld() *world {
	_, addrs := app.GeneratePrivKeyAddressPairs(12)
	tApp, ctx := kapp.NewApp()
	w := &world{tApp: tApp, base: ctx, addrs: addrs, mods: map[bool]string{}}
	ak := tApp.GetAccountKeeper()
	bk := tApp.GetBankKeeper()
	w.macc = ak.GetModuleAccount(ctx, incentivetypes.IncentiveMacc).GetAddress()
	for _, name := range []string{"hard", "cdp", "auction", "earn", "liquid", "community", "savings", "swap", "evm", "gov"} {
		func() {
			defer func() { recover() }()
			acc := ak.GetModuleAccount(ctx, name)
			if acc == nil {
				return
			}
			b := bk.BlockedAddr(acc.GetAddress())
			if _, ok := w.mods[b]; !ok {
				w.mods[b] = name
			}
		}()
	}
	return w
}

func must(err error) {
	if err != nil {
		panic(err)
	}
}

func (w *world) fund(ctx sdk.Context, addr sdk.AccAddress, cs sdk.Coins) {
	if cs.IsZero() {
		return
	}
	bk := w.tApp.GetBankKeeper()
	must(bk.MintCoins(ctx, incentivetypes.IncentiveMacc, cs))
	must(bk.SendCoinsFromModuleToAccount(ctx, incentivetypes.IncentiveMacc, addr, cs))
}

func (w *world) baseAcc(ctx sdk.Context, addr sdk.AccAddress) *authtypes.BaseAccount {
	ak := w.tApp.GetAccountKeeper()
	b := authtypes.NewBaseAccountWithAddress(addr)
	b.AccountNumber = ak.NextAccountNumber(ctx)
	return b
}

// random schedule: n periods with small lengths (so that boundaries and lock-ups collide often)
func randPeriods(r *c.Rng, n int) (vestingtypes.Periods, vec, int64) {
	ps := vestingtypes.Periods{}
	var ov vec
	var total int64
	for i := 0; i < n; i++ {
		l := r.Range(1, 12)
		if r.Chance(15) {
			l = r.Range(1, 2)
		}
		var a vec
		for d := range a {
			if r.Chance(60) {
				a[d] = r.Range(1, 40)
			}
		}
		if a.isZero() && r.Chance(80) {
			a[r.Intn(3)] = r.Range(1, 40)
		}
		ps = append(ps, vestingtypes.Period{Length: l, Amount: a.coins()})
		ov = ov.add(a)
		total += l
	}
	return ps, ov, total
}

// a block time in a chosen phase of the schedule
func phaseTime(r *c.Rng, a *vestingtypes.PeriodicVestingAccount) (int64, string) {
	bs := boundaries(a)
	switch r.Intn(9) {
	case 0:
		return a.StartTime - r.Range(1, 25), "not-started"
	case 1:
		return a.StartTime, "at-start"
	case 2:
		return a.EndTime, "at-end"
	case 3:
		return a.EndTime + 1, "finished"
	case 4:
		return a.EndTime + r.Range(1, 40), "finished"
	case 5:
		return bs[r.Intn(len(bs))], "on-boundary"
	case 6:
		return bs[r.Intn(len(bs))] + r.Range(-1, 1), "around-boundary"
	default:
		if a.EndTime > a.StartTime {
			return a.StartTime + r.Range(0, a.EndTime-a.StartTime), "inside"
		}
		return a.StartTime, "at-start"
	}
}

// a lock-up length relative to the remaining schedule
func lockup(r *c.Rng, now int64, a *vestingtypes.PeriodicVestingAccount) int64 {
	var future []int64
	if a != nil {
		for _, b := range boundaries(a) {
			if b > now {
				future = append(future, b)
			}
		}
	}
	switch k := r.Intn(10); {
	case k <= 3 && len(future) > 0: // exactly on a boundary / the end, or one second off
		l := future[r.Intn(len(future))] - now
		if r.Chance(40) {
			l += r.Range(-1, 1)
		}
		if l <= 0 {
			l = 1
		}
		return l
	case k == 4 && a != nil && a.EndTime > now: // around the end
		l := a.EndTime - now + r.Range(-1, 2)
		if l <= 0 {
			l = 1
		}
		return l
	case k == 5:
		return 1
	case k == 6 && a != nil && a.EndTime > now: // longer than everything
		return a.EndTime - now + r.Range(1, 30)
	default:
		return r.Range(1, 45)
	}
}

func randAmt(r *c.Rng) vec {
	var a vec
	switch r.Intn(8) {
	case 0: // empty
	case 1:
		a[r.Intn(3)] = 1
	default:
		for d := range a {
			if r.Chance(55) {
				a[d] = r.Range(1, 50)
			}
		}
	}
	return a
}

type smp struct {
	t                   int64
	v, v2, l, l2, s, s2 vec
}

func smpStr(xs []smp, bank bool) string {
	if len(xs) == 0 {
		return "-"
	}
	out := make([]string, len(xs))
	for i, x := range xs {
		if bank {
			out[i] = fmt.Sprintf("%d:%s:%s:%s:%s:%s:%s", x.t, x.v, x.v2, x.l, x.l2, x.s, x.s2)
		} else {
			out[i] = fmt.Sprintf("%d:%s:%s:%s:%s", x.t, x.v, x.v2, x.l, x.l2)
		}
	}
	return strings.Join(out, ";")
}

// obsStr: the samples field; if an observation call into the SDK panicked the field is `panic` (the
// driver turns it into a verdict on the case) and the message is kept as a note.
func obsStr(out *c.Out, xs []smp, bank bool, obsPanic string) string {
	if obsPanic != "" {
		if len(obsPanic) > 120 {
			obsPanic = obsPanic[:120]
		}
		out.Note("observation-panic: " + obsPanic)
		return "panic"
	}
	return smpStr(xs, bank)
}

// validStr: the real account's own Validate() ("1" ok, "0" error or panic)
func validStr(a *vestingtypes.PeriodicVestingAccount) string {
	ok := false
	c.Recover(func() { ok = a.Validate() == nil })
	return c.B(ok)
}

// ------------------------------------------------------------------------------------------ c20.sched

func branchSig(now, length int64, a *vestingtypes.PeriodicVestingAccount) string {
	if a.EndTime < now {
		return "finished"
	}
	s := "live"
	start := a.StartTime
	if a.StartTime > now {
		s = "notstarted"
		start = now
	}
	if a.EndTime-now < length {
		return s + "+append"
	}
	target := now - start + length
	cnt := int64(0)
	for i, p := range a.VestingPeriods {
		l := p.Length
		if i == 0 && a.StartTime > now {
			l += a.StartTime - now
		}
		cnt += l
		if cnt == target {
			return fmt.Sprintf("%s+boundary(last=%v)", s, i == len(a.VestingPeriods)-1)
		}
		if cnt > target {
			return fmt.Sprintf("%s+inside(first=%v)", s, i == 0)
		}
	}
	return s + "+none"
}

func (w *world) seqSched(out *c.Out, seq int, r *c.Rng) {
	ak := w.tApp.GetAccountKeeper()
	k := w.tApp.GetIncentiveKeeper()
	addr := w.addrs[0]
	ncases := tierPick(60, 240)
	for i := 0; i < ncases; {
		ctx, _ := w.base.CacheContext()
		// layout
		n := int(r.Range(1, 6))
		if r.Chance(6) {
			n = 0
		}
		ps, ov, total := randPeriods(r, n)
		start := kapp.GenTime.Unix() + r.Range(-50, 50)
		pva := vestingtypes.NewPeriodicVestingAccount(w.baseAcc(ctx, addr), ov.coins(), start, ps)
		pva.DelegatedVesting = sdk.Coins{}
		pva.DelegatedFree = sdk.Coins{}
		_ = total
		malformed := ""
		if n > 0 && r.Chance(8) {
			switch r.Intn(4) {
			case 0:
				pva.VestingPeriods[r.Intn(n)].Length = r.Range(-3, 0)
				malformed = "bad-length"
			case 1:
				pva.EndTime += r.Range(-2, 3)
				malformed = "bad-end"
			case 2:
				pva.OriginalVesting = pva.OriginalVesting.Add(sdk.NewInt64Coin(denoms[r.Intn(3)], r.Range(1, 5)))
				malformed = "bad-ov"
			default:
				malformed = ""
			}
		}
		if n > 0 && !noDelegation && r.Chance(25) { // delegated vesting record (≤ original vesting, as Validate demands)
			var dv vec
			for d := range dv {
				if ov[d] > 0 && r.Chance(60) {
					dv[d] = r.Range(1, ov[d])
				}
			}
			pva.DelegatedVesting = dv.coins()
		}
		now, phase := phaseTime(r, pva)
		chain := int(r.Range(1, 4)) // repeated claims on the same account
		for j := 0; j < chain; j++ {
			pre := clonePva(pva)
			wf := wellFormed(pre)
			amt := randAmt(r)
			length := lockup(r, now, pre)
			if r.Chance(4) {
				length = r.Range(-5, 0) // malformed input
			}
			ak.SetAccount(ctx, pva)
			bctx := ctx.WithBlockTime(time.Unix(now, r.Range(0, 999999999)).UTC())
			panicked, msg := c.Recover(func() { k.VerifAddCoinsToVestingSchedule(bctx, addr, amt.coins(), length) })
			if panicked {
				out.Violation(fmt.Sprintf("seq=%d addCoinsToVestingSchedule panicked: %s", seq, msg))
				break
			}
			post := ak.GetAccount(ctx, addr).(*vestingtypes.PeriodicVestingAccount)
			var xs []smp
			obsPanic := ""
			if wf && length > 0 {
				for _, t := range sampleTimes(r, now, length, pre, post) {
					var x smp
					x.t = t
					p, m := c.Recover(func() {
						x.v, x.l = vecOf(pre.GetVestingCoins(at(t))), vecOf(pre.LockedCoins(at(t)))
						x.v2, x.l2 = vecOf(post.GetVestingCoins(at(t))), vecOf(post.LockedCoins(at(t)))
					})
					if p {
						if obsPanic == "" {
							obsPanic = fmt.Sprintf("GetVestingCoins/LockedCoins t=%d: %s", t, m)
						}
						continue
					}
					xs = append(xs, x)
				}
			}
			valid := validStr(post)
			sig := ""
			if wf && length > 0 {
				sig = fmt.Sprintf("%s|%s|np=%d|dv=%v|claim=%d", branchSig(now, length, pre), phase, min(len(pre.VestingPeriods), 4), !pre.DelegatedVesting.IsZero(), min(j, 2))
			} else {
				out.Note("sched-malformed:" + malformed + fmt.Sprintf("/len<=0=%v", length <= 0))
			}
			f := []string{strconv.FormatInt(now, 10)}
			f = append(f, pvaFields(pre)...)
			f = append(f, amt.String(), strconv.FormatInt(length, 10), "=>")
			f = append(f, pvaFields(post)...)
			f = append(f, obsStr(out, xs, false, obsPanic), valid)
			out.Case(sig, "c20.sched", f...)
			i++
			pva = post
			// next claim later (or at the same block time)
			switch r.Intn(4) {
			case 0:
			case 1:
				now += 1
			default:
				nn, ph := phaseTime(r, pva)
				if nn >= now {
					now, phase = nn, ph
				} else {
					now += r.Range(0, 15)
				}
			}
		}
	}
}

// ------------------------------------------------------------------------------------------ c20.send

type party struct {
	addr      sdk.AccAddress
	kind      string
	delegated int64 // ukava delegated through the bank (harness bookkeeping)
}

func kindOf(acc authtypes.AccountI) string {
	switch acc.(type) {
	case nil:
		return "none"
	case *authtypes.BaseAccount:
		return "base"
	case *vestingtypes.PeriodicVestingAccount:
		return "periodic"
	case *vestingtypes.ContinuousVestingAccount:
		return "continuous"
	case *vestingtypes.DelayedVestingAccount:
		return "delayed"
	case *vestingtypes.PermanentLockedAccount:
		return "permanent"
	case authtypes.ModuleAccountI:
		return "module"
	default:
		return "other"
	}
}

func accStr(acc authtypes.AccountI) string {
	if acc == nil {
		return "nil"
	}
	return acc.String()
}

// mkParties: recipients of every kind; vesting kinds are set up as a valid genesis would (Validate() == nil,
// funded). Index 0,1 base accounts, 2,3 periodic vesting accounts, then continuous, delayed, permanent-locked,
// module account(s) (blocked / unblocked), EthAccount, no account.
func (w *world) mkParties(ctx sdk.Context, r *c.Rng, now int64) []*party {
	ak := w.tApp.GetAccountKeeper()
	var ps []*party
	add := func(kind string, addr sdk.AccAddress) { ps = append(ps, &party{addr: addr, kind: kind}) }
	for i := 0; i < 2; i++ { // base accounts, one with coins of its own
		ak.SetAccount(ctx, w.baseAcc(ctx, w.addrs[i]))
		if i == 1 {
			w.fund(ctx, w.addrs[i], vec{r.Range(0, 30), 0, r.Range(0, 30)}.coins())
		}
		add("base", w.addrs[i])
	}
	for i := 2; i < 4; i++ { // periodic vesting accounts in a random phase
		n := int(r.Range(1, 6))
		prs, ov, _ := randPeriods(r, n)
		start := now + r.Range(-60, 10)
		if i == 3 && r.Chance(70) { // not started yet
			start = now + r.Range(1, 40)
		}
		pva := vestingtypes.NewPeriodicVestingAccount(w.baseAcc(ctx, w.addrs[i]), ov.coins(), start, prs)
		pva.DelegatedVesting, pva.DelegatedFree = sdk.Coins{}, sdk.Coins{}
		must(pva.Validate())
		ak.SetAccount(ctx, pva)
		w.fund(ctx, w.addrs[i], ov.add(vec{r.Range(0, 10), 0, r.Range(0, 10)}).coins())
		add("periodic", w.addrs[i])
	}
	lock := vec{r.Range(1, 50), 0, r.Range(1, 50)}.coins()
	cva := vestingtypes.NewContinuousVestingAccount(w.baseAcc(ctx, w.addrs[4]), lock, now-10, now+100)
	ak.SetAccount(ctx, cva)
	w.fund(ctx, w.addrs[4], lock)
	add("continuous", w.addrs[4])
	dva := vestingtypes.NewDelayedVestingAccount(w.baseAcc(ctx, w.addrs[5]), lock, now+100)
	ak.SetAccount(ctx, dva)
	w.fund(ctx, w.addrs[5], lock)
	add("delayed", w.addrs[5])
	pla := vestingtypes.NewPermanentLockedAccount(w.baseAcc(ctx, w.addrs[6]), lock)
	ak.SetAccount(ctx, pla)
	w.fund(ctx, w.addrs[6], lock)
	add("permanent", w.addrs[6])
	for _, b := range []bool{true, false} {
		if name, ok := w.mods[b]; ok {
			add("module", ak.GetModuleAccount(ctx, name).GetAddress())
		}
	}
	eth := etherminttypes.ProtoAccount()
	must(eth.SetAddress(w.addrs[7]))
	must(eth.SetAccountNumber(ak.NextAccountNumber(ctx)))
	ak.SetAccount(ctx, eth)
	add("other", w.addrs[7])
	add("none", w.addrs[8])
	return ps
}

func (w *world) seqSend(out *c.Out, seq int, r *c.Rng) {
	ctx, _ := w.base.CacheContext()
	ak := w.tApp.GetAccountKeeper()
	bk := w.tApp.GetBankKeeper()
	k := w.tApp.GetIncentiveKeeper()
	now := kapp.GenTime.Unix() + r.Range(0, 40*86400)
	ctx = ctx.WithBlockTime(at(now))

	ps := w.mkParties(ctx, r, now)

	// the incentive module account: sometimes rich, sometimes nearly empty
	var pot vec
	for d := range pot {
		switch r.Intn(8) {
		case 0:
			pot[d] = r.Range(0, 60)
		default:
			pot[d] = r.Range(1500, 6000)
		}
	}
	if !pot.isZero() {
		must(bk.MintCoins(ctx, incentivetypes.IncentiveMacc, pot.coins()))
	}

	getPva := func(cx sdk.Context, p *party) *vestingtypes.PeriodicVestingAccount {
		if a, ok := ak.GetAccount(cx, p.addr).(*vestingtypes.PeriodicVestingAccount); ok {
			return a
		}
		return nil
	}
	delegate := func(p *party) {
		a := getPva(ctx, p)
		if a == nil {
			return
		}
		bal := bk.GetBalance(ctx, p.addr, "ukava").Amount.Int64()
		if p.delegated > 0 && r.Chance(35) {
			amt := r.Range(1, p.delegated)
			if r.Chance(40) {
				amt = p.delegated
			}
			cls, _ := kapp.Exec(ctx, func(cx sdk.Context) error {
				return bk.UndelegateCoinsFromModuleToAccount(cx, stakingtypes.NotBondedPoolName, p.addr, sdk.NewCoins(sdk.NewInt64Coin("ukava", amt)))
			})
			if cls == kapp.OK {
				p.delegated -= amt
				out.Note("undelegate")
			}
			return
		}
		if bal <= 0 {
			return
		}
		amt := r.Range(1, bal)
		if r.Chance(50) {
			amt = bal
		}
		cls, _ := kapp.Exec(ctx, func(cx sdk.Context) error {
			return bk.DelegateCoinsFromAccountToModule(cx, p.addr, stakingtypes.NotBondedPoolName, sdk.NewCoins(sdk.NewInt64Coin("ukava", amt)))
		})
		if cls == kapp.OK {
			p.delegated += amt
			out.Note("delegate")
		}
	}
	staker := r.Chance(45) && !noDelegation // this history stakes locked coins early (leads to DelegatedVesting > vesting later)
	if staker {
		delegate(ps[2])
		if r.Chance(50) {
			delegate(ps[3])
		}
	}

	nops := tierPick(40, 120)
	for i := 0; i < nops; i++ {
		// pick the recipient: mostly the lockable kinds
		var p *party
		if i < 6 && r.Chance(50) {
			p = ps[3] // while it has (probably) not started
		} else if r.Chance(65) {
			p = ps[r.Intn(4)]
		} else {
			p = ps[r.Intn(len(ps))]
		}
		// advance the block time, biased to the recipient's period boundaries
		if a := getPva(ctx, p); a != nil && a.StartTime > now && r.Chance(70) {
			now += r.Range(0, 2) // stay before the start
		} else if a != nil && r.Chance(50) {
			nn, _ := phaseTime(r, a)
			if nn > now {
				now = nn
			} else {
				now += r.Range(0, 3)
			}
		} else {
			switch r.Intn(4) {
			case 0:
			case 1:
				now += 1
			default:
				now += r.Range(1, 30)
			}
		}
		ctx = ctx.WithBlockTime(time.Unix(now, r.Range(0, 999999999)).UTC())
		if !noDelegation && ((staker && r.Chance(12)) || r.Chance(3)) {
			delegate(ps[2+r.Intn(2)])
			if r.Chance(50) {
				delegate(ps[r.Intn(2)])
			}
		}

		// now and then the incentive account runs completely out of one or two denoms (all of it is sent to a
		// sink) and is not refilled in this block: the next payout meets a denom that is absent from the
		// paying account while the other denoms are amply covered
		drained := false
		if r.Chance(10) {
			cur := vecOf(bk.GetAllBalances(ctx, w.macc))
			var gone vec
			gone[r.Intn(3)] = 1
			if r.Chance(30) {
				gone[r.Intn(3)] = 1
			}
			for d := range gone {
				gone[d] *= cur[d]
			}
			if !gone.isZero() {
				must(bk.SendCoinsFromModuleToAccount(ctx, incentivetypes.IncentiveMacc, w.addrs[9], gone.coins()))
				drained = true
				out.Note("pot-denom-drained")
			}
		}
		// kavadist mints into the incentive account every block: top the pot up most of the time
		if cur := vecOf(bk.GetAllBalances(ctx, w.macc)); !drained && r.Chance(80) {
			var top vec
			for d := range cur {
				if cur[d] < 200 {
					top[d] = r.Range(200, 3000)
				}
			}
			if !top.isZero() {
				must(bk.MintCoins(ctx, incentivetypes.IncentiveMacc, top.coins()))
			}
		}
		preAcc := ak.GetAccount(ctx, p.addr)
		preKind := kindOf(preAcc)
		prePva := getPva(ctx, p)
		modBal := vecOf(bk.GetAllBalances(ctx, w.macc))
		bal := vecOf(bk.GetAllBalances(ctx, p.addr))
		blocked := bk.BlockedAddr(p.addr)
		preAll := w.allState(ctx, p.addr)

		// amount: mostly affordable, sometimes the whole pot, sometimes one unit too much
		amt := randAmt(r)
		for d := range amt {
			if amt[d] > modBal[d] && r.Chance(70) {
				amt[d] = modBal[d]
			}
		}
		if drained && r.Chance(60) { // a multi-denom payout that includes a denom the pot has run out of
			for d := range amt {
				if amt[d] == 0 && (modBal[d] == 0 || r.Chance(50)) {
					amt[d] = r.Range(1, 50)
				}
			}
		}
		switch r.Intn(16) {
		case 0:
			amt = modBal
		case 1:
			d := r.Intn(3)
			amt[d] = modBal[d] + 1
		}
		// lock-up: relative to the schedule, or a real pay-day length, or none
		var length int64
		genLen := "rel"
		switch r.Intn(10) {
		case 0:
			length, genLen = 0, "zero"
		case 1:
			length, genLen = k.GetPeriodLength(ctx.BlockTime(), r.Range(1, 13)), "payday"
		default:
			length = lockup(r, now, prePva)
		}

		cctx, write := ctx.CacheContext()
		var err error
		panicked, pmsg := c.Recover(func() {
			err = k.SendTimeLockedCoinsToAccount(cctx, incentivetypes.IncentiveMacc, p.addr, amt.coins(), length)
		})
		cls := "ok"
		raw := "-"
		switch {
		case panicked:
			cls = "panic"
			out.Note("panic: " + pmsg)
		case err != nil:
			cls = "err"
			// what the keeper left behind in its own context when it refused (no rollback yet)
			same := accStr(ak.GetAccount(cctx, p.addr)) == accStr(preAcc)
			raw = fmt.Sprintf("%s|%s|%s|%s", vecOf(bk.GetAllBalances(cctx, w.macc)), vecOf(bk.GetAllBalances(cctx, p.addr)), c.B(same),
				c.B(w.allState(cctx, p.addr) == preAll))
			e := err.Error()
			for _, key := range []string{"insufficient", "account not found", "invalid account type", "not allowed to receive"} {
				if strings.Contains(e, key) {
					e = key
				}
			}
			if len(e) > 40 {
				e = e[:40]
			}
			out.Note("err: " + e)
		}
		postCtx := ctx
		if cls == "ok" {
			postCtx = cctx
		}
		postAcc := ak.GetAccount(postCtx, p.addr)
		postKind := kindOf(postAcc)
		postPva := getPva(postCtx, p)
		var xs []smp
		obsPanic := ""
		if cls == "ok" && (preKind == "base" || preKind == "periodic") {
			for _, t := range sampleTimes(r, now, length, prePva, postPva) {
				x := smp{t: t}
				pc, qc := ctx.WithBlockTime(at(t)), postCtx.WithBlockTime(at(t))
				// every call into the real SDK is an observation: a panic there is a verdict, not a crash
				pnk, m := c.Recover(func() {
					if va, ok := preAcc.(vestexported.VestingAccount); ok {
						x.v = vecOf(va.GetVestingCoins(at(t)))
					}
					if va, ok := postAcc.(vestexported.VestingAccount); ok {
						x.v2 = vecOf(va.GetVestingCoins(at(t)))
					}
					x.l, x.l2 = vecOf(bk.LockedCoins(pc, p.addr)), vecOf(bk.LockedCoins(qc, p.addr))
					x.s, x.s2 = vecOf(bk.SpendableCoins(pc, p.addr)), vecOf(bk.SpendableCoins(qc, p.addr))
				})
				if pnk {
					if obsPanic == "" {
						obsPanic = fmt.Sprintf("GetVestingCoins/LockedCoins/SpendableCoins t=%d: %s", t, m)
					}
					continue
				}
				xs = append(xs, x)
			}
		}
		valid := "-"
		if cls == "ok" && postPva != nil {
			valid = validStr(postPva)
		}
		over := false
		if prePva != nil {
			c.Recover(func() {
				v := vecOf(prePva.GetVestingCoins(at(now)))
				dv := vecOf(prePva.DelegatedVesting)
				for d := range v {
					over = over || dv[d] > v[d]
				}
			})
		}
		sig := fmt.Sprintf("%s|%s|len=%s|blocked=%v", preKind, cls, genLen, blocked)
		if cls == "ok" && prePva != nil && length > 0 {
			sig += "|" + branchSig(now, length, prePva) + fmt.Sprintf("|overdelegated=%v", over)
		}
		f := []string{strconv.FormatInt(now, 10), preKind, c.B(blocked), modBal.String(), bal.String()}
		if prePva != nil {
			f = append(f, pvaFields(prePva)...)
		} else {
			f = append(f, noPva...)
		}
		f = append(f, amt.String(), strconv.FormatInt(length, 10), "=>", cls, postKind,
			vecOf(bk.GetAllBalances(postCtx, w.macc)).String(), vecOf(bk.GetAllBalances(postCtx, p.addr)).String())
		if postPva != nil {
			f = append(f, pvaFields(postPva)...)
		} else {
			f = append(f, noPva...)
		}
		f = append(f, obsStr(out, xs, true, obsPanic), raw, valid)
		out.Case(sig, "c20.send", f...)
		if cls == "ok" {
			write()
		}
	}
}

// ------------------------------------------------------------------------------------------ c20.guard

// balance class of one denom of the paying module account relative to the payout
const (
	clsNone   = iota // the denom is not part of the payout
	clsAbsent        // part of the payout, the module account holds none of it
	clsShort         // part of the payout, held but not enough
	clsExact         // held exactly
	clsAmple         // held with room to spare
)

var clsName = []string{"-", "absent", "short", "exact", "ample"}

type pattern [3]int

// every assignment of a class to the three denoms with at least one denom in the payout (124)
func allPatterns() []pattern {
	var ps []pattern
	for a := 0; a < 5; a++ {
		for b := 0; b < 5; b++ {
			for d := 0; d < 5; d++ {
				if a+b+d > 0 {
					ps = append(ps, pattern{a, b, d})
				}
			}
		}
	}
	return ps
}

// shape: number of payout denoms and the first denom (in sdk.Coins order) the module account cannot cover
func (p pattern) shape() string {
	n, pos := 0, 0
	first := "covered"
	for _, cl := range p {
		if cl == clsNone {
			continue
		}
		if first == "covered" && (cl == clsAbsent || cl == clsShort) {
			first = fmt.Sprintf("%s@%d", clsName[cl], pos)
		}
		pos++
		n++
	}
	return fmt.Sprintf("n=%d|%s", n, first)
}

// seqGuard: the refusal clause at keeper level. Every case is ONE call of SendTimeLockedCoinsToAccount made
// directly on a context of its own; everything the driver judges is read from that same context after the
// call returned, so a refusal that has already moved coins (which a transaction rollback would hide) is
// seen. Per sequence: recipients of every kind, then all 124 per-denom balance patterns (absent / short /
// exact / ample, 1-3 payout denoms) once against a lockable recipient (base / periodic, rotating) and once
// against one of the other kinds, with lock-up lengths incl. 0, periodic recipients in every schedule phase.
func (w *world) seqGuard(out *c.Out, seq int, r *c.Rng) {
	ctx, _ := w.base.CacheContext()
	ak := w.tApp.GetAccountKeeper()
	bk := w.tApp.GetBankKeeper()
	k := w.tApp.GetIncentiveKeeper()
	now := kapp.GenTime.Unix() + r.Range(0, 40*86400)
	ctx = ctx.WithBlockTime(at(now))
	ps := w.mkParties(ctx, r, now)
	// some payout history first: schedules that were produced by the keeper itself, a base account that may
	// already have been converted
	for _, p := range ps[1:4] {
		for j := r.Range(0, 2); j > 0; j-- {
			a := randAmt(r)
			if a.isZero() {
				continue
			}
			must(bk.MintCoins(ctx, incentivetypes.IncentiveMacc, a.coins()))
			pva, _ := ak.GetAccount(ctx, p.addr).(*vestingtypes.PeriodicVestingAccount)
			l := lockup(r, now, pva)
			kapp.Exec(ctx, func(cx sdk.Context) error {
				return k.SendTimeLockedCoinsToAccount(cx, incentivetypes.IncentiveMacc, p.addr, a.coins(), l)
			})
		}
	}
	if cur := bk.GetAllBalances(ctx, w.macc); !cur.IsZero() { // every case starts from an empty pot
		must(bk.SendCoinsFromModuleToAccount(ctx, incentivetypes.IncentiveMacc, w.addrs[9], cur))
	}
	pats := allPatterns()
	for pi, pat := range pats {
		w.guardCase(out, r, ctx, now, ps[(pi+seq)%4], pat, true)
		w.guardCase(out, r, ctx, now, ps[4+r.Intn(len(ps)-4)], pat, false)
	}
}

func (w *world) guardCase(out *c.Out, r *c.Rng, seqCtx sdk.Context, seqNow int64, p *party, pat pattern, lockable bool) {
	ak := w.tApp.GetAccountKeeper()
	bk := w.tApp.GetBankKeeper()
	k := w.tApp.GetIncentiveKeeper()
	ctx, _ := seqCtx.CacheContext() // this case's own context: set-up, the call and every observation use it

	// block time: periodic recipients in a chosen phase of their schedule
	now := seqNow + r.Range(0, 30)
	prePva, _ := ak.GetAccount(ctx, p.addr).(*vestingtypes.PeriodicVestingAccount)
	if prePva != nil {
		var phase string
		now, phase = phaseTime(r, prePva)
		out.Note("guard-phase:" + phase)
	}
	ctx = ctx.WithBlockTime(time.Unix(now, r.Range(0, 999999999)).UTC())

	// the payout and the pot, denom by denom
	var amt, pot vec
	for d, cl := range pat {
		if cl == clsNone {
			if r.Chance(50) {
				pot[d] = r.Range(1, 3000)
			}
			continue
		}
		amt[d] = r.Range(1, 50)
		if cl == clsShort && amt[d] < 2 {
			amt[d] = 2
		}
		switch cl {
		case clsShort:
			pot[d] = r.Range(1, amt[d]-1)
			if r.Chance(30) {
				pot[d] = amt[d] - 1
			}
		case clsExact:
			pot[d] = amt[d]
		case clsAmple:
			pot[d] = amt[d] + r.Range(1, 3000)
			if r.Chance(20) {
				pot[d] = amt[d] + 1
			}
		}
	}
	if !pot.isZero() {
		must(bk.MintCoins(ctx, incentivetypes.IncentiveMacc, pot.coins()))
	}
	// the coin set as the claim code builds it (sorted, positive); a few deliberately malformed encodings
	cs := amt.coins()
	coinsValid := true
	switch {
	case len(cs) >= 2 && r.Chance(5): // not sorted
		cs[0], cs[len(cs)-1] = cs[len(cs)-1], cs[0]
		coinsValid = false
		out.Note("guard-coins-unsorted")
	case r.Chance(2): // a denom twice
		i := r.Intn(len(cs))
		dup := append(sdk.Coins{}, cs[:i+1]...)
		cs = append(dup, cs[i:]...)
		amt[indexOf(cs[i].Denom)] *= 2
		coinsValid = false
		out.Note("guard-coins-duplicate")
	}
	// lock-up length
	var length int64
	genLen := "rel"
	pz := 20
	if !lockable {
		pz = 50
	}
	switch x := r.Intn(100); {
	case x < pz:
		length, genLen = 0, "zero"
	case x < pz+10:
		length, genLen = 1, "one"
	case x < pz+25:
		length, genLen = k.GetPeriodLength(ctx.BlockTime(), r.Range(1, 13)), "payday"
	default:
		length = lockup(r, now, prePva)
	}

	type obs struct {
		acc                       authtypes.AccountI
		kind                      string
		pva                       *vestingtypes.PeriodicVestingAccount
		modBal, bal, sup          vec
		maccS, balS, supS, accStr string
	}
	observe := func() obs {
		var o obs
		o.acc = ak.GetAccount(ctx, p.addr)
		o.kind = kindOf(o.acc)
		o.pva, _ = o.acc.(*vestingtypes.PeriodicVestingAccount)
		mb, rb := bk.GetAllBalances(ctx, w.macc), bk.GetAllBalances(ctx, p.addr)
		o.modBal, o.bal = vecOf(mb), vecOf(rb)
		for d, dn := range denoms {
			o.sup[d] = bk.GetSupply(ctx, dn).Amount.Int64()
		}
		sup, _, err := bk.GetPaginatedTotalSupply(ctx, &query.PageRequest{Limit: 1000})
		must(err)
		o.maccS, o.balS, o.supS, o.accStr = mb.String(), rb.String(), sup.String(), accStr(o.acc)
		return o
	}
	pre := observe()
	blocked := bk.BlockedAddr(p.addr)

	var err error
	panicked, pmsg := c.Recover(func() {
		err = k.SendTimeLockedCoinsToAccount(ctx, incentivetypes.IncentiveMacc, p.addr, cs, length)
	})
	cls := "ok"
	switch {
	case panicked:
		cls = "panic"
		out.Note("panic: " + pmsg)
	case err != nil:
		cls = "err"
	}
	post := observe() // the same context, nothing rolled back
	same := c.B(pre.maccS == post.maccS) + c.B(pre.balS == post.balS) + c.B(pre.supS == post.supS) + c.B(pre.accStr == post.accStr)
	valid := "-"
	if cls == "ok" && post.pva != nil {
		valid = validStr(post.pva)
	}
	pvaF := func(a *vestingtypes.PeriodicVestingAccount) []string {
		if a != nil {
			return pvaFields(a)
		}
		return noPva
	}
	sig := fmt.Sprintf("%s|%s|len=%s|blocked=%v|%s|coins=%v", pre.kind, cls, genLen, blocked, pat.shape(), coinsValid)
	f := []string{strconv.FormatInt(now, 10), pre.kind, c.B(blocked), pre.modBal.String(), pre.bal.String()}
	f = append(f, pvaF(pre.pva)...)
	f = append(f, amt.String(), strconv.FormatInt(length, 10), c.B(coinsValid), pre.sup.String(), "=>",
		cls, post.kind, post.modBal.String(), post.bal.String())
	f = append(f, pvaF(post.pva)...)
	f = append(f, post.sup.String(), same, valid)
	out.Case(sig, "c20.guard", f...)
}

func indexOf(denom string) int {
	for i, d := range denoms {
		if d == denom {
			return i
		}
	}
	panic("unknown denom " + denom)
}

// allState: every balance (all denoms) of the paying module account and of the recipient, and the bank's
// total supply, as one comparable string
func (w *world) allState(ctx sdk.Context, addr sdk.AccAddress) string {
	bk := w.tApp.GetBankKeeper()
	sup, _, err := bk.GetPaginatedTotalSupply(ctx, &query.PageRequest{Limit: 1000})
	must(err)
	return bk.GetAllBalances(ctx, w.macc).String() + "|" + bk.GetAllBalances(ctx, addr).String() + "|" + sup.String()
}

// tierPick: per-sequence length by tier (not amplified; amplification multiplies the number of sequences)
func tierPick(quick, thorough int) int {
	if c.Tier() == "thorough" {
		return thorough
	}
	return quick
}

// noDelegation (CLI argument "nodelegation") switches the delegate/undelegate operations of the send
// stream off; the default exercises them (they are reachable through MsgDelegate / MsgUndelegate).
var noDelegation bool

func main() {
	for _, a := range os.Args[2:] {
		if a == "nodelegation" {
			noDelegation = true
		}
	}
	out := c.NewOut(c.OutPath())
	defer out.Close()
	r := c.NewRng(c.Seed())
	runCal(out, r.Fork(1000003))
	nSched := c.Budget(160, 1200)
	nSend := c.Budget(200, 1500)
	nGuard := c.Budget(20, 160)
	kapp.RunSeqs(nSched+nSend+nGuard, c.Workers(), r.Fork(1000005), mkWorld, func(w *world, seq int, r *c.Rng) {
		switch {
		case seq < nSched:
			w.seqSched(out, seq, r)
		case seq < nSched+nSend:
			w.seqSend(out, seq, r)
		default:
			w.seqGuard(out, seq, r)
		}
	})
}
