// c19: correspondence harness for property C19 (emissions).
//
// Pure function streams (through the add-only hooks in /repo, build tag `verif`):
//
//	c19.calc      x/community calculateStakingRewards on one block
//	c19.part      the same function threaded over a whole partition of [t0,tn] (state as the keeper threads it)
//	c19.periods   x/kavadist mintIncentivePeriods / mintInfrastructurePeriods with a recording bank keeper:
//	              which period is minted for how many seconds
//	c19.kdhist    the same over a history of blocks (previous block time threaded as MintPeriodInflation does)
//	c19.mintamt   x/kavadist mintInflationaryCoins amounts; c19.relpow sdkmath.RelativePow
//
// Keeper-level stream on the repository's own test app, whole-app BeginBlocker (real module order):
//
//	c19.fullblock fee-collector / community-pool / kavadist balances, ukava supply and the community,
//	              mint, kavadist, distribution params before and after every block
package main

import (
	"fmt"
	"math/big"
	"os"
	"strings"
	"time"

	sdkmath "cosmossdk.io/math"
	"github.com/cometbft/cometbft/libs/log"
	tmproto "github.com/cometbft/cometbft/proto/tendermint/types"
	storetypes "github.com/cosmos/cosmos-sdk/store/types"
	sdk "github.com/cosmos/cosmos-sdk/types"
	paramtypes "github.com/cosmos/cosmos-sdk/x/params/types"

	"github.com/kava-labs/kava/app"
	communitykeeper "github.com/kava-labs/kava/x/community/keeper"
	kavadistkeeper "github.com/kava-labs/kava/x/kavadist/keeper"
	kavadisttypes "github.com/kava-labs/kava/x/kavadist/types"

	c "kavaverif/harness/common"
)

var (
	P   = new(big.Int).Exp(big.NewInt(10), big.NewInt(18), nil)
	NS  = int64(1_000_000_000)
	T0  = int64(1_700_000_000) * NS // 2023-11-14, base of all generated times
	Day = 86400 * NS
)

func tm(ns int64) time.Time { return time.Unix(0, ns).UTC() }

func dec(m *big.Int) sdkmath.LegacyDec { return sdkmath.LegacyNewDecFromBigIntWithPrec(m, 18) }

func bi(x int64) *big.Int { return big.NewInt(x) }

// ---------------------------------------------------------------- generators

// gap returns a block gap in nanoseconds, from 1 ns to 30 days, and its class name.
func gap(r *c.Rng) (int64, string) {
	switch r.Intn(12) {
	case 0:
		return 1, "1ns"
	case 1:
		return r.Range(2, NS-1), "subsec"
	case 2:
		return NS, "1s"
	case 3:
		return NS + r.Range(-1, 1), "1s±1ns"
	case 4, 5:
		return 6*NS + r.Range(-NS/2, NS/2), "6s"
	case 6:
		return r.Range(1, 3600) * NS, "minutes"
	case 7:
		return r.Range(3600, 86400)*NS + r.Range(0, NS-1), "hours"
	case 8:
		return r.Range(1, 30)*Day + r.Range(0, NS-1), "days"
	case 9:
		return 30 * Day, "30d"
	case 10:
		return 0, "0"
	default:
		return r.Range(1, 30*Day), "random"
	}
}

// rate returns a per-second staking rate mantissa (18 decimals) and its class.
func rate(r *c.Rng) (*big.Int, string) {
	switch r.Intn(9) {
	case 0:
		return bi(0), "zero"
	case 1:
		return bi(1), "1ulp"
	case 2:
		return r.BigBelow(P), "frac18"
	case 3:
		x, _ := new(big.Int).SetString("1234567890123456789", 10)
		return x, "1.23…"
	case 4: // whole units
		return new(big.Int).Mul(bi(r.Range(1, 1000)), P), "integer"
	case 5: // large with 18 decimals
		return new(big.Int).Add(new(big.Int).Mul(bi(r.Range(1, 1_000_000)), P), r.BigBelow(P)), "large18"
	case 6: // kava mainnet order of magnitude: 744191 ukava / s
		x, _ := new(big.Int).SetString("744191000000000000000000", 10)
		return x.Add(x, r.BigBelow(P)), "mainnet"
	case 7: // exactly 1e9 multiples: no QuoInt64 truncation for whole-ns durations
		return new(big.Int).Mul(bi(r.Range(1, 5000)), bi(NS)), "ns-exact"
	default:
		return r.BigBelow(new(big.Int).Mul(bi(20), P)), "small18"
	}
}

func errTerm(r *c.Rng) *big.Int {
	switch r.Intn(5) {
	case 0, 1:
		return bi(0)
	case 2:
		return bi(1)
	case 3:
		return new(big.Int).Sub(P, bi(1))
	default:
		return r.BigBelow(P)
	}
}

// ---------------------------------------------------------------- c19.calc

func calc(now, last int64, errM, rateM, poolM *big.Int) (paid *big.Int, newErr *big.Int, panicked bool) {
	panicked, _ = c.Recover(func() {
		p, e := communitykeeper.VerifCalculateStakingRewards(tm(now), tm(last), dec(errM), dec(rateM), dec(poolM))
		paid, newErr = p.BigInt(), e.BigInt()
	})
	return
}

func expectedAccrual(d int64, rateM, errM *big.Int) *big.Int {
	x := new(big.Int).Mul(bi(d), rateM)
	x.Quo(x, bi(NS))
	return x.Add(x, errM)
}

func runCalc(out *c.Out, r *c.Rng, n int) {
	for i := 0; i < n; i++ {
		g, gc := gap(r)
		last := T0 + r.Range(0, 400*Day)
		now := last + g
		rt, rc := rate(r)
		e := errTerm(r)
		malformed := ""
		if r.Chance(4) { // malformed stream: time going backwards, error ≥ 1, negative rate
			switch r.Intn(3) {
			case 0:
				now, last = last, now
				malformed = "backwards"
			case 1:
				e = new(big.Int).Add(P, r.BigBelow(P))
				malformed = "err>=1"
			default:
				rt = new(big.Int).Neg(rt)
				malformed = "neg-rate"
			}
		}
		acc := expectedAccrual(now-last, rt, e)
		accUnits := new(big.Int).Quo(acc, P)
		var pool *big.Int
		pc := ""
		switch r.Intn(8) {
		case 0:
			pool, pc = bi(0), "pool0"
		case 1:
			pool, pc = bi(r.Range(1, 5)), "tiny"
		case 2: // exactly the whole units accrued, ±1
			pool, pc = new(big.Int).Add(accUnits, bi(r.Range(-1, 1))), "at-accrual"
		case 3:
			pool, pc = new(big.Int).Add(accUnits, bi(1)), "accrual+1"
		default:
			pool, pc = new(big.Int).Add(new(big.Int).Mul(accUnits, bi(2)), bi(r.Range(1, 1_000_000))), "ample"
		}
		if pool.Sign() < 0 {
			pool = bi(0)
		}
		poolM := new(big.Int).Mul(pool, P)
		if r.Chance(3) { // a fractional Dec pool (the keeper never passes one; model comparison only)
			poolM.Add(poolM, r.BigBelow(P))
			pc = "fractional"
		}
		paid, ne, pan := calc(now, last, e, rt, poolM)
		if pan {
			out.Note("calc-panic")
			continue
		}
		sig := ""
		if malformed != "" {
			sig = "malformed:" + malformed
		} else {
			capped := poolM.Cmp(acc) < 0
			sig = fmt.Sprintf("gap=%s rate=%s pool=%s capped=%v paid0=%v err0=%v", gc, rc, pc, capped, paid.Sign() == 0, ne.Sign() == 0)
		}
		out.Case(sig, "c19.calc", fmt.Sprint(now), fmt.Sprint(last), e.String(), rt.String(), poolM.String(), "=>", paid.String(), ne.String())
	}
}

// ---------------------------------------------------------------- c19.part

func runPart(out *c.Out, r *c.Rng, n int) {
	huge := new(big.Int).Mul(new(big.Int).Exp(bi(10), bi(40), nil), P)
	for i := 0; i < n; i++ {
		rt, rc := rate(r)
		t0 := T0 + r.Range(0, 400*Day)
		e0 := bi(0)
		if r.Chance(20) {
			e0 = errTerm(r)
		}
		nb := int(r.Range(1, 40))
		style := r.Intn(4) // 0 mixed gaps, 1 all sub-second, 2 all 6 s, 3 long gaps
		var pool *big.Int
		poolClass := ""
		switch r.Intn(4) {
		case 0:
			pool, poolClass = bi(r.Range(0, 3)), "tiny"
		case 1:
			pool, poolClass = bi(r.Range(4, 2000)), "small"
		default:
			pool, poolClass = new(big.Int).Exp(bi(10), bi(30), nil), "ample"
		}
		var times, pools, paids []string
		last, e := t0, new(big.Int).Set(e0)
		capped := false
		ok := true
		for b := 0; b < nb; b++ {
			var g int64
			switch style {
			case 1:
				g = r.Range(1, NS-1)
			case 2:
				g = 6*NS + r.Range(-NS/10, NS/10)
			case 3:
				g = r.Range(1, 30)*Day + r.Range(0, NS)
			default:
				g, _ = gap(r)
			}
			now := last + g
			poolM := new(big.Int).Mul(pool, P)
			if poolM.Cmp(expectedAccrual(now-last, rt, e)) < 0 {
				capped = true
			}
			paid, ne, pan := calc(now, last, e, rt, poolM)
			if pan {
				ok = false
				break
			}
			times = append(times, fmt.Sprint(now))
			pools = append(pools, pool.String())
			paids = append(paids, paid.String())
			// the keeper: pool pays, state advances; somebody may deposit between blocks
			pool = new(big.Int).Sub(pool, paid)
			if pool.Sign() < 0 {
				pool = bi(0)
			}
			if r.Chance(15) {
				pool.Add(pool, bi(r.Range(1, 50)))
			}
			last, e = now, ne
		}
		if !ok {
			out.Note("part-panic")
			continue
		}
		// the same interval as ONE block with an ample pool
		whole := "-"
		if w, _, pan := calc(last, t0, e0, rt, huge); !pan {
			whole = w.String()
		}
		sig := fmt.Sprintf("style=%d rate=%s pool=%s capped=%v n=%s e0=%v", style, rc, poolClass, capped, bucket(nb), e0.Sign() != 0)
		out.Case(sig, "c19.part", rt.String(), fmt.Sprint(t0), e0.String(), strings.Join(times, ","), strings.Join(pools, ","),
			"=>", strings.Join(paids, ","), e.String(), whole)
	}
}

func bucket(n int) string {
	switch {
	case n <= 1:
		return "1"
	case n <= 5:
		return "2-5"
	case n <= 20:
		return "6-20"
	default:
		return ">20"
	}
}

// ---------------------------------------------------------------- recording bank keeper for x/kavadist

type mintCall struct{ minted *big.Int }

// recBank implements kavadisttypes.BankKeeper: a constant (or growing) supply and a log of the
// GetSupply → MintCoins pairs mintInflationaryCoins makes.
type recBank struct {
	supply *big.Int
	grow   bool
	calls  []mintCall
}

func (b *recBank) GetAllBalances(ctx sdk.Context, addr sdk.AccAddress) sdk.Coins { return nil }
func (b *recBank) MintCoins(ctx sdk.Context, moduleName string, amounts sdk.Coins) error {
	a := amounts.AmountOf("ukava").BigInt()
	b.calls[len(b.calls)-1].minted = a
	if b.grow {
		b.supply = new(big.Int).Add(b.supply, a)
	}
	return nil
}
func (b *recBank) GetSupply(ctx sdk.Context, denom string) sdk.Coin {
	b.calls = append(b.calls, mintCall{minted: bi(0)})
	return sdk.NewCoin(denom, sdkmath.NewIntFromBigInt(b.supply))
}
func (b *recBank) SendCoinsFromModuleToAccount(ctx sdk.Context, senderModule string, recipientAddr sdk.AccAddress, amt sdk.Coins) error {
	return nil
}

var encCfg = app.MakeEncodingConfig()

func recKeeper(b *recBank) kavadistkeeper.Keeper {
	key := storetypes.NewKVStoreKey(kavadisttypes.StoreKey)
	tkey := storetypes.NewTransientStoreKey("transient_kavadist_verif")
	ss := paramtypes.NewSubspace(encCfg.Marshaler, encCfg.Amino, key, tkey, kavadisttypes.ModuleName)
	return kavadistkeeper.NewKeeper(encCfg.Marshaler, key, ss, b, nil, nil, nil)
}

func pureCtx(now int64) sdk.Context {
	return sdk.NewContext(nil, tmproto.Header{Time: tm(now), Height: 1}, false, log.NewNopLogger())
}

// secondsRate: with supply 10^18 and this rate mintInflationaryCoins mints exactly `timeElapsed` coins
// (RelativePow(10^18+1, n, 10^18) = 10^18 + n for n < 7·10^8), which makes the seconds observable.
var secondsRate = sdkmath.LegacyNewDecWithPrec(1_000_000_000_000_000_001, 18)

type period struct {
	start, end int64
	rateM      *big.Int
}

func periodsStr(ps []period) string {
	if len(ps) == 0 {
		return "-"
	}
	s := make([]string, len(ps))
	for i, p := range ps {
		s[i] = fmt.Sprintf("%d:%d:%s", p.start, p.end, p.rateM)
	}
	return strings.Join(s, ";")
}

func toKd(ps []period, rt sdkmath.LegacyDec) kavadisttypes.Periods {
	var out kavadisttypes.Periods
	for _, p := range ps {
		out = append(out, kavadisttypes.NewPeriod(tm(p.start), tm(p.end), rt))
	}
	return out
}

type obsMint struct {
	idx  int
	secs *big.Int
}

// observePeriods runs the real period function on every prefix of the list: the call made by the
// last period of a prefix is the one the shorter prefix did not make.
func observePeriods(infra bool, now, prev int64, ps []period) (mints []obsMint, te string, ok bool) {
	kps := toKd(ps, secondsRate)
	prevCalls := 0
	te = "-"
	for j := 1; j <= len(ps); j++ {
		b := &recBank{supply: new(big.Int).Set(P)}
		k := recKeeper(b)
		var err error
		pan, _ := c.Recover(func() {
			if infra {
				var t sdkmath.Int
				_, t, err = k.VerifMintInfrastructurePeriods(pureCtx(now), kps[:j], tm(prev))
				if err == nil && j == len(ps) {
					te = t.String()
				}
			} else {
				err = k.VerifMintIncentivePeriods(pureCtx(now), kps[:j], tm(prev))
			}
		})
		if pan || err != nil {
			return nil, "", false
		}
		if len(b.calls) > prevCalls {
			mints = append(mints, obsMint{j - 1, b.calls[len(b.calls)-1].minted})
		}
		prevCalls = len(b.calls)
	}
	if infra && len(ps) == 0 {
		te = "0"
	}
	return mints, te, true
}

func mintsStr(ms []obsMint, sep, kv string) string {
	if len(ms) == 0 {
		return "-"
	}
	s := make([]string, len(ms))
	for i, m := range ms {
		s[i] = fmt.Sprintf("%d%s%s", m.idx, kv, m.secs)
	}
	return strings.Join(s, sep)
}

// genPeriods: mostly valid (chronological, non-overlapping, start ≤ end) period lists with durations
// from sub-second to a year; a few malformed ones. Returns the list and all boundary times.
func genPeriods(r *c.Rng) ([]period, []int64, string) {
	n := int(r.Range(1, 4))
	t := T0 + r.Range(0, 10*Day)
	var ps []period
	var bounds []int64
	class := "valid"
	for i := 0; i < n; i++ {
		if r.Chance(50) { // gap before the period
			g, _ := gap(r)
			t += g
		}
		var d int64
		switch r.Intn(7) {
		case 0:
			d = r.Range(1, NS-1) // shorter than a second
		case 1:
			d = 3600 * NS // one hour (the property's example)
		case 2:
			d = r.Range(1, 60) * NS
		case 3:
			d = r.Range(1, 20) * Day
		case 4:
			d = 365 * Day
		case 5:
			d = 0
		default:
			d, _ = gap(r)
		}
		p := period{start: t, end: t + d, rateM: new(big.Int).Add(P, bi(1))}
		ps = append(ps, p)
		bounds = append(bounds, p.start, p.end)
		t += d
	}
	if r.Chance(6) { // malformed: reversed period, overlap, or out of order
		class = "malformed"
		switch r.Intn(3) {
		case 0:
			i := r.Intn(len(ps))
			ps[i].start, ps[i].end = ps[i].end, ps[i].start
		case 1:
			if len(ps) > 1 {
				ps[1].start = ps[0].start + (ps[0].end-ps[0].start)/2
			}
		default:
			if len(ps) > 1 {
				ps[0], ps[len(ps)-1] = ps[len(ps)-1], ps[0]
			}
		}
	}
	return ps, bounds, class
}

// boundaryTime picks a time on, just around, or between the period boundaries.
func boundaryTime(r *c.Rng, bounds []int64) int64 {
	b := bounds[r.Intn(len(bounds))]
	switch r.Intn(8) {
	case 0, 1:
		return b
	case 2:
		return b + r.Range(-1, 1)
	case 3:
		return b + r.Range(-1, 1)*NS
	case 4:
		g, _ := gap(r)
		return b - g
	case 5:
		g, _ := gap(r)
		return b + g
	default:
		lo, hi := bounds[0]-5*Day, bounds[len(bounds)-1]+5*Day
		return r.Range(lo, hi)
	}
}

func classifyPeriods(ps []period, prev, now int64) string {
	var s []string
	for _, p := range ps {
		switch {
		case p.end < prev:
			s = append(s, "expired")
		case p.end > prev && p.end <= now:
			if p.start > prev {
				s = append(s, "ended-started-after-prev")
			} else {
				s = append(s, "ended")
			}
		case p.start <= prev && p.end > now:
			s = append(s, "ongoing")
		case p.start >= now:
			s = append(s, "notstarted")
		default:
			s = append(s, "nomatch")
		}
	}
	return strings.Join(s, ",")
}

func runPeriods(out *c.Out, r *c.Rng, n int) {
	for i := 0; i < n; i++ {
		ps, bounds, class := genPeriods(r)
		prev := boundaryTime(r, bounds)
		now := boundaryTime(r, bounds)
		if now < prev {
			prev, now = now, prev
		}
		if r.Chance(40) { // realistic block: now = prev + gap
			g, _ := gap(r)
			now = prev + g
		}
		if r.Chance(2) {
			prev, now = now, prev // malformed: previous block time after now
			if prev != now {
				class = "malformed"
			}
		}
		infra := r.Bool()
		kind := "inc"
		if infra {
			kind = "infra"
		}
		ms, te, ok := observePeriods(infra, now, prev, ps)
		sig := kind + " " + class + " " + classifyPeriods(ps, prev, now)
		if class == "malformed" {
			sig = kind + " malformed"
		}
		if !ok { // the real function panicked or returned an error
			out.Note("periods-error-or-panic:" + kind + ":" + class)
			out.Case(sig+" panic", "c19.periods", kind, fmt.Sprint(now), fmt.Sprint(prev), periodsStr(ps), "=>", "panic", "-")
			continue
		}
		out.Case(sig, "c19.periods", kind, fmt.Sprint(now), fmt.Sprint(prev), periodsStr(ps), "=>", mintsStr(ms, ";", ":"), te)
	}
}

func runKdHist(out *c.Out, r *c.Rng, n int) {
	for i := 0; i < n; i++ {
		ps, bounds, class := genPeriods(r)
		if class != "valid" {
			continue
		}
		prev0 := bounds[0] - r.Range(0, 3)*Day - r.Range(0, NS)
		prev := prev0
		nb := int(r.Range(3, 30))
		var blocks []string
		ok := true
		now := prev0
		sigs := map[string]bool{}
		inactiveRun := 0
		for b := 0; b < nb && ok; b++ {
			if r.Chance(35) {
				t := boundaryTime(r, bounds)
				if t >= now {
					now = t
				}
			} else {
				g, _ := gap(r)
				now += g
			}
			active := true
			if inactiveRun > 0 || r.Chance(8) { // kavadist switched off for a while: previous block time not advanced
				active = false
				if inactiveRun == 0 {
					inactiveRun = int(r.Range(1, 4))
				}
				inactiveRun--
			}
			if !active {
				blocks = append(blocks, fmt.Sprintf("%d:0:-", now))
				sigs["inactive"] = true
				continue
			}
			ms, _, good := observePeriods(false, now, prev, ps)
			if !good {
				ok = false
				break
			}
			for _, cl := range strings.Split(classifyPeriods(ps, prev, now), ",") {
				sigs[cl] = true
			}
			blocks = append(blocks, fmt.Sprintf("%d:1:%s", now, mintsStr(ms, ",", "=")))
			prev = now
		}
		if !ok {
			out.Note("kdhist-error")
			continue
		}
		out.Case("hist "+strings.Join(c.SortedKeys(sigs), ","), "c19.kdhist", fmt.Sprint(prev0), periodsStr(ps), strings.Join(blocks, ";"), "=>", "-")
	}
}

// ---------------------------------------------------------------- c19.mintamt / c19.relpow

func kdRate(r *c.Rng) (*big.Int, string) {
	switch r.Intn(8) {
	case 0:
		return new(big.Int).Set(P), "one"
	case 1:
		return new(big.Int).Add(P, bi(r.Range(1, 30))), "1+ulps"
	case 2:
		x, _ := new(big.Int).SetString("1000000003022265980", 10) // 10 % APR
		return x, "10%apr"
	case 3:
		x, _ := new(big.Int).SetString("1000000014802701072", 10) // 59.5 % APR
		return x, "59.5%apr"
	case 4:
		return new(big.Int).Add(P, bi(r.Range(1_000_000, 100_000_000_000))), "realistic"
	case 5:
		return new(big.Int).Add(P, bi(r.Range(1, 1_000_000))), "tiny"
	case 6:
		return new(big.Int).Sub(P, bi(r.Range(1, 1_000_000_000))), "below-one"
	default:
		return bi(0), "zero"
	}
}

func secsClass(r *c.Rng) int64 {
	switch r.Intn(7) {
	case 0:
		return 0
	case 1:
		return 1
	case 2:
		return r.Range(2, 10)
	case 3:
		return 3600
	case 4:
		return r.Range(1, 30) * 86400
	case 5:
		return 365 * 86400
	default:
		return r.Range(0, 40_000_000)
	}
}

func runAmounts(out *c.Out, r *c.Rng, n int) {
	for i := 0; i < n; i++ {
		x, xc := kdRate(r)
		n1 := secsClass(r)
		n2 := n1 + []int64{0, 1, 2, r.Range(0, 100), r.Range(0, 3_000_000)}[r.Intn(5)]
		var z1, z2 *big.Int
		pan, _ := c.Recover(func() {
			z1 = sdkmath.RelativePow(sdkmath.NewUintFromBigInt(x), sdkmath.NewUint(uint64(n1)), sdkmath.NewUintFromBigInt(P)).BigInt()
			z2 = sdkmath.RelativePow(sdkmath.NewUintFromBigInt(x), sdkmath.NewUint(uint64(n2)), sdkmath.NewUintFromBigInt(P)).BigInt()
		})
		if pan {
			out.Note("relpow-panic")
			continue
		}
		sig := ""
		if i < 3000 {
			sig = fmt.Sprintf("x=%s n1=0:%v same=%v", xc, n1 == 0, n1 == n2)
		}
		out.Case(sig, "c19.relpow", x.String(), fmt.Sprint(n1), fmt.Sprint(n2), "=>", z1.String(), z2.String())

		// mintInflationaryCoins on a recording bank with an arbitrary supply
		var supply *big.Int
		switch r.Intn(4) {
		case 0:
			supply = bi(r.Range(0, 1000))
		case 1:
			supply = new(big.Int).Set(P)
		default:
			supply = r.BigBits(90)
		}
		if x.Sign() == 0 && r.Chance(50) {
			continue
		}
		b := &recBank{supply: supply}
		k := recKeeper(b)
		var err error
		pan, _ = c.Recover(func() {
			_, err = k.VerifMintInflationaryCoins(pureCtx(T0), dec(x), sdkmath.NewInt(n1), "ukava")
		})
		if pan || err != nil {
			out.Note("mintamt-panic-or-error")
			continue
		}
		amt := bi(0)
		if len(b.calls) == 1 {
			amt = b.calls[0].minted
		}
		sig = ""
		if i < 3000 {
			sig = fmt.Sprintf("x=%s zero=%v", xc, amt.Sign() == 0)
		}
		out.Case(sig, "c19.mintamt", supply.String(), x.String(), fmt.Sprint(n1), "=>", amt.String())
	}
}

// selfCheck: the seconds decoding used by c19.periods really is exact on this build of cosmossdk.io/math.
func selfCheck() {
	for _, n := range []int64{0, 1, 2, 3, 59, 3600, 435600, 2592000, 31536000, 400_000_000} {
		b := &recBank{supply: new(big.Int).Set(P)}
		k := recKeeper(b)
		if _, err := k.VerifMintInflationaryCoins(pureCtx(T0), secondsRate, sdkmath.NewInt(n), "ukava"); err != nil {
			fmt.Fprintln(os.Stderr, "c19: self check failed:", err)
			os.Exit(2)
		}
		if len(b.calls) != 1 || b.calls[0].minted.Cmp(bi(n)) != 0 {
			fmt.Fprintf(os.Stderr, "c19: seconds decoding is not exact for n=%d (got %v)\n", n, b.calls)
			os.Exit(2)
		}
	}
}

func main() {
	out := c.NewOut(c.OutPath())
	defer out.Close()
	selfCheck()
	r := c.NewRng(c.Seed())
	runCalc(out, r.Fork(1), c.Budget(10000, 600000))
	runPart(out, r.Fork(2), c.Budget(3000, 150000))
	runPeriods(out, r.Fork(3), c.Budget(10000, 600000))
	runKdHist(out, r.Fork(4), c.Budget(1000, 60000))
	runAmounts(out, r.Fork(5), c.Budget(4000, 250000))
	runFull(out, r.Fork(6), c.Budget(300, 15000))
}
