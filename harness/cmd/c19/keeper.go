package main

// c19.fullblock: the repository's own test app, whole-app BeginBlocker (all modules, in the order
// app.go registers), one case per block: observed state before, block time, result class, observed
// state after.  Every sequence runs in its own cache context branched from genesis; state is only
// ever produced by real operations (param changes through the keepers, deposits through x/bank and
// x/distribution, blocks through BeginBlocker).

import (
	"fmt"
	"math/big"
	"sort"
	"strings"

	sdkmath "cosmossdk.io/math"
	abci "github.com/cometbft/cometbft/abci/types"
	sdk "github.com/cosmos/cosmos-sdk/types"
	authtypes "github.com/cosmos/cosmos-sdk/x/auth/types"
	govtypes "github.com/cosmos/cosmos-sdk/x/gov/types"
	distrtypes "github.com/cosmos/cosmos-sdk/x/distribution/types"
	"github.com/cosmos/cosmos-sdk/x/mint"
	minttypes "github.com/cosmos/cosmos-sdk/x/mint/types"

	"github.com/kava-labs/kava/app"
	"github.com/kava-labs/kava/x/community"
	communitykeeper "github.com/kava-labs/kava/x/community/keeper"
	communitytypes "github.com/kava-labs/kava/x/community/types"
	kavadisttypes "github.com/kava-labs/kava/x/kavadist/types"

	c "kavaverif/harness/common"
	"kavaverif/harness/kapp"
)

type world struct {
	tApp app.TestApp
	base sdk.Context
	user sdk.AccAddress
}

func mkWorld() *world {
	_, addrs := app.GeneratePrivKeyAddressPairs(1)
	cdc := encCfg.Marshaler
	mintGen := minttypes.DefaultGenesisState()
	mintGen.Params.MintDenom = "ukava"
	mintGen.Params.InflationMin = sdk.NewDecWithPrec(10, 2)
	mintGen.Params.InflationMax = sdk.NewDecWithPrec(10, 2)
	mintGen.Minter.Inflation = sdk.NewDecWithPrec(10, 2)
	distrGen := distrtypes.DefaultGenesisState()
	distrGen.Params.CommunityTax = sdk.MustNewDecFromStr("0.75")
	// total ukava supply ≈ 10^14 (an order of magnitude typical of the chain)
	coins := sdk.NewCoins(sdk.NewCoin("ukava", sdkmath.NewInt(100_000_000_000_000)), sdk.NewCoin("usdx", sdkmath.NewInt(1_000_000)))
	tApp, ctx := kapp.NewApp(
		app.GenesisState{minttypes.ModuleName: cdc.MustMarshalJSON(mintGen)},
		app.GenesisState{distrtypes.ModuleName: cdc.MustMarshalJSON(distrGen)},
	)
	must(tApp.FundAccount(ctx, addrs[0], coins))
	return &world{tApp: tApp, base: ctx, user: addrs[0]}
}

func optTime(ns *int64) string {
	if ns == nil {
		return "none"
	}
	return fmt.Sprint(*ns)
}

type fullObs struct {
	fields []string // the 14 observation fields in driver order (without periods)
	kdPrev *int64
	pool   *big.Int
}

func (w *world) observe(ctx sdk.Context) fullObs {
	ck := w.tApp.GetCommunityKeeper()
	p, found := ck.GetParams(ctx)
	if !found {
		panic("community params not found")
	}
	mp := w.tApp.GetMintKeeper().GetParams(ctx)
	var kp kavadisttypes.Params
	kapp.ReadParams(w.tApp, ctx, "kavadist", &kp)
	dp := w.tApp.GetDistrKeeper().GetParams(ctx)
	st := ck.GetStakingRewardsState(ctx)
	bk := w.tApp.GetBankKeeper()
	ak := w.tApp.GetAccountKeeper()
	bal := func(mod string) *big.Int {
		return bk.GetBalance(ctx, ak.GetModuleAddress(mod), "ukava").Amount.BigInt()
	}
	tOpt := func(t interface {
		IsZero() bool
		UnixNano() int64
	}) string {
		if t.IsZero() {
			return "none"
		}
		return fmt.Sprint(t.UnixNano())
	}
	var kdPrev *int64
	kdPrevS := "none"
	if t, ok := w.tApp.GetKavadistKeeper().GetPreviousBlockTime(ctx); ok {
		v := t.UnixNano()
		kdPrev = &v
		kdPrevS = fmt.Sprint(v)
	}
	pool := bal(communitytypes.ModuleAccountName)
	return fullObs{
		fields: []string{
			tOpt(p.UpgradeTimeDisableInflation), p.StakingRewardsPerSecond.BigInt().String(), p.UpgradeTimeSetStakingRewardsPerSecond.BigInt().String(),
			mp.InflationMin.BigInt().String(), mp.InflationMax.BigInt().String(), c.B(kp.Active), dp.CommunityTax.BigInt().String(),
			tOpt(st.LastAccumulationTime), st.LastTruncationError.BigInt().String(), pool.String(), bal(authtypes.FeeCollectorName).String(),
			kdPrevS, bk.GetSupply(ctx, "ukava").Amount.String(), bal(kavadisttypes.KavaDistMacc).String(),
		},
		kdPrev: kdPrev, pool: pool,
	}
}

func toKdRates(ps []period) kavadisttypes.Periods {
	var out kavadisttypes.Periods
	for _, p := range ps {
		out = append(out, kavadisttypes.NewPeriod(tm(p.start), tm(p.end), dec(p.rateM)))
	}
	return out
}

func runFull(out *c.Out, r *c.Rng, nSeq int) {
	kapp.RunSeqs(nSeq, c.Workers(), r, mkWorld, func(w *world, seq int, r *c.Rng) {
		ctx, _ := w.base.CacheContext() // discarded at the end of the sequence
		ck := w.tApp.GetCommunityKeeper()
		kk := w.tApp.GetKavadistKeeper()
		// block times never run backwards: start after the genesis block time
		t0 := kapp.GenTime.UnixNano() + r.Range(1, 100*Day)
		ctx = ctx.WithBlockTime(tm(t0)).WithBlockHeight(1)

		// ---- block times of this sequence first; the configuration is placed relative to them
		nb := int(r.Range(8, 40))
		times := make([]int64, nb)
		{
			t := t0
			for b := range times {
				g, _ := gap(r)
				if b > 0 && r.Chance(10) {
					g = r.Range(1, 3) * NS // a few blocks in quick succession
				}
				t += g
				times[b] = t
			}
		}
		pickT := func(from int) int64 {
			i := from + r.Intn(nb-from)
			t := times[i]
			next := t + Day
			if i+1 < nb {
				next = times[i+1]
			}
			switch r.Intn(8) {
			case 0, 1:
				return t // exactly on a block
			case 2:
				return t + r.Range(-1, 1)
			case 3:
				return t + r.Range(-1, 1)*NS
			case 4:
				return t + (next-t)/2
			default:
				return r.Range(t, next)
			}
		}
		genKd := func(infra bool) []period {
			n := int(r.Range(0, 3))
			var ts []int64
			for i := 0; i < 2*n; i++ {
				if r.Chance(15) {
					ts = append(ts, t0-r.Range(0, 2*Day))
				} else {
					ts = append(ts, pickT(0))
				}
			}
			sort.Slice(ts, func(a, b int) bool { return ts[a] < ts[b] })
			var ps []period
			for i := 0; i+1 < len(ts); i += 2 {
				rt, _ := kdRate(r)
				for rt.Cmp(P) < 0 { // keeper-level run: rates ≥ 1 only
					rt, _ = kdRate(r)
				}
				if infra && r.Chance(75) { // mostly realistic rates: a zero mint halts the chain (finding)
					rt, _ = new(big.Int).SetString([]string{"1000000003022265980", "1000000014802701072"}[r.Intn(2)], 10)
				}
				ps = append(ps, period{start: ts[i], end: ts[i+1], rateM: rt})
			}
			return ps
		}

		// ---- configuration of this sequence (as a genesis / governance would set it)
		var upgrade *int64
		switch r.Intn(8) {
		case 0, 1: // never
		case 2: // already passed at the first block
			v := t0 - r.Range(0, Day)
			upgrade = &v
		default:
			v := pickT(nb / 4)
			upgrade = &v
		}
		preRate := bi(0)
		if r.Chance(40) {
			preRate, _ = rate(r)
		}
		upRate, _ := rate(r)
		cp := communitytypes.Params{StakingRewardsPerSecond: dec(preRate), UpgradeTimeSetStakingRewardsPerSecond: dec(upRate)}
		if upgrade != nil {
			cp.UpgradeTimeDisableInflation = tm(*upgrade)
		}
		ck.SetParams(ctx, cp)
		switch r.Intn(3) {
		case 0: // as after a software upgrade that adds the module: state not initialised
			ck.SetStakingRewardsState(ctx, communitytypes.DefaultStakingRewardsState())
		case 1:
			ck.SetStakingRewardsState(ctx, communitytypes.NewStakingRewardsState(tm(t0-r.Range(0, 10)*NS), sdkmath.LegacyZeroDec()))
		}
		ps := genKd(false)
		infra := genKd(true)
		kdActive := r.Chance(90)
		kdp := kavadisttypes.NewParams(kdActive, toKdRates(ps), kavadisttypes.NewInfraParams(toKdRates(infra), nil, nil))
		kapp.SetParams(w.tApp, ctx, "kavadist", &kdp, func() { kk.SetParams(ctx, kdp) })
		if r.Chance(75) {
			kk.SetPreviousBlockTime(ctx, tm(t0-r.Range(0, 10)*NS))
		}
		// community pool (small: the cap must bind sometimes) and x/distribution community pool (the inflow)
		poolClass := r.Intn(3)
		fund := []int64{r.Range(0, 5), r.Range(5, 5000), 1_000_000_000_000}[poolClass]
		if fund > 0 {
			must(ck.FundCommunityPool(ctx, w.user, sdk.NewCoins(sdk.NewInt64Coin("ukava", fund))))
		}
		if r.Chance(70) {
			must(w.tApp.GetDistrKeeper().FundCommunityPool(ctx, sdk.NewCoins(sdk.NewInt64Coin("ukava", r.Range(1, 1_000_000))), w.user))
		}
		if r.Chance(30) { // something for the consolidation to move out of kavadist (not ukava)
			must(w.tApp.GetBankKeeper().SendCoinsFromAccountToModule(ctx, w.user, kavadisttypes.KavaDistMacc, sdk.NewCoins(sdk.NewInt64Coin("usdx", 1000))))
		}

		// the harness's own log for the staking predicates: reference time of the next block (the
		// accumulation time the history starts with, then the previous block time) and, per block,
		// (block time, rate in force, amount paid)
		start := w.observe(ctx)
		refT := start.fields[7] // LastAccumulationTime the history was configured with ("none" = not initialised)
		ref0, e0 := refT, start.fields[8]
		var stakeLog []string
		zeroRun, switches := 0, map[string]bool{}
		for b := 0; b < nb; b++ {
			now := times[b]
			// ---- things other actors do between blocks
			if r.Chance(10) {
				must(ck.FundCommunityPool(ctx, w.user, sdk.NewCoins(sdk.NewInt64Coin("ukava", r.Range(1, 100)))))
			}
			if b == 0 && r.Chance(6) { // a params update before the first block of the history (keeper route)
				p, _ := ck.GetParams(ctx)
				nr, _ := rate(r)
				p.StakingRewardsPerSecond = dec(nr)
				ck.SetParams(ctx, p)
			}
			if r.Chance(4) { // governance toggles kavadist (never back on after the switch-over fired)
				p, _ := ck.GetParams(ctx)
				kp := kk.GetParams(ctx)
				if !p.UpgradeTimeDisableInflation.IsZero() || upgrade == nil {
					kp.Active = !kp.Active
					kapp.SetParams(w.tApp, ctx, "kavadist", &kp, func() { kk.SetParams(ctx, kp) })
				}
			}
			bctx := ctx.WithBlockTime(tm(now)).WithBlockHeight(1)
			pre := w.observe(bctx)
			inflow := w.tApp.GetDistrKeeper().GetFeePoolCommunityCoins(bctx).AmountOf("ukava").TruncateInt()
			mintProv := w.dryRunMintProvision(bctx)
			cls, err := kapp.Exec(bctx, func(cx sdk.Context) error {
				w.tApp.BeginBlocker(cx, abci.RequestBeginBlock{Header: cx.BlockHeader()})
				return nil
			})
			post := w.observe(bctx)
			if cls != kapp.OK {
				out.Note("begin-block-" + string(cls) + ": " + firstWords(err.Error(), 8))
			}
			// signature: what happened in this block
			fired := pre.fields[0] != "none" && post.fields[0] == "none"
			paid := new(big.Int).Sub(pre.pool, post.pool)
			kdM := post.fields[13] != pre.fields[13]
			after := pre.fields[0] == "none" && pre.fields[3] == "0"
			kdClass := "-"
			if pre.kdPrev != nil && pre.fields[5] == "1" {
				kdClass = classifyPeriods(append(append([]period{}, ps...), infra...), *pre.kdPrev, now)
			}
			sig := fmt.Sprintf("fired=%v after=%v init=%v paid=%v pool=%d kdActive=%s kdMinted=%v kd=%s", fired, after,
				pre.fields[7] != "none", paid.Sign() != 0, poolClass, pre.fields[5], kdM, kdClass)
			fields := []string{fmt.Sprint(now), inflow.String(), mintProv.String(), refT}
			fields = append(fields, pre.fields[:12]...)
			fields = append(fields, periodsStr(ps), periodsStr(infra), pre.fields[12], pre.fields[13], "=>", string(cls))
			fields = append(fields, post.fields...)
			out.Case(sig, "c19.fullblock", fields...)
			if cls != kapp.OK {
				break
			}
			// log: rate in force in this block = the rate after the switch-over of this block
			poolIn := new(big.Int).Set(pre.pool)
			if fired {
				poolIn.Add(poolIn, inflow.BigInt())
			}
			stakeLog = append(stakeLog, fmt.Sprintf("%d:%s:%s:%s", now, post.fields[1], new(big.Int).Sub(poolIn, post.pool), poolIn))
			if post.fields[1] == "0" {
				zeroRun++
			} else {
				if zeroRun >= 2 {
					if fired {
						switches["upgrade-after-zero-run"] = true
					} else {
						switches["params-after-zero-run"] = true
					}
				}
				zeroRun = 0
			}
			refT = fmt.Sprint(now)
			// ---- a community params update IN this block: messages execute after the begin blocker of their
			// block, so the new rate is first in force for the interval that ends with the NEXT block
			if r.Chance(14) || (zeroRun >= 2 && r.Chance(25)) {
				var futureT *int64
				if b+1 < nb {
					v := pickT(b + 1)
					futureT = &v
				}
				kind, setUpgrade := w.paramsUpdate(out, r, bctx, futureT)
				switches["upd:"+kind] = true
				if setUpgrade {
					upgrade = futureT // from now on a switch-over is configured for this history
				}
			}
		}
		if len(stakeLog) > 0 {
			out.Case("stakehist "+strings.Join(c.SortedKeys(switches), ","), "c19.stakehist", ref0, e0, strings.Join(stakeLog, ";"), "=>", "-")
		}
	})
}

// paramsUpdate changes the community params inside a block (ctx carries the block's time; its begin blocker
// has run).  Most updates go through the REAL governance message: MsgUpdateParams handled by the community msg
// server with the x/gov module account as authority (baseapp semantics: cache context, written only on success);
// the rest through the keeper.  Some messages carry a wrong authority or invalid params and must fail and change
// nothing.  One c19.paramsmsg case per update: observation before, the message, result class, observation
// after, and the observation the keeper route (ck.SetParams on a discarded branch of the same state) gives.
// Returns the kind of update and whether it configured a switch-over time where none was pending.
func (w *world) paramsUpdate(out *c.Out, r *c.Rng, ctx sdk.Context, futureT *int64) (kind string, setUpgrade bool) {
	ck := w.tApp.GetCommunityKeeper()
	cur, _ := ck.GetParams(ctx)
	np := cur
	curRate := cur.StakingRewardsPerSecond.BigInt()
	newRate := func(pred func(x *big.Int) bool) *big.Int {
		for i := 0; i < 64; i++ {
			if x, _ := rate(r); pred(x) {
				return x
			}
		}
		return new(big.Int).Add(curRate, P)
	}
	switch k := r.Intn(10); {
	case curRate.Sign() == 0 && k < 6:
		kind = "rate-from-zero"
		np.StakingRewardsPerSecond = dec(newRate(func(x *big.Int) bool { return x.Sign() > 0 }))
	case k == 0 || k == 1:
		kind = "rate-to-zero"
		np.StakingRewardsPerSecond = dec(bi(0))
	case k == 2 || k == 3:
		kind = "rate-up"
		np.StakingRewardsPerSecond = dec(newRate(func(x *big.Int) bool { return x.Cmp(curRate) > 0 }))
	case k == 4 || k == 5:
		kind = "rate-down"
		switch r.Intn(3) {
		case 0:
			np.StakingRewardsPerSecond = dec(new(big.Int).Sub(curRate, bi(1))) // one ulp less
		case 1:
			np.StakingRewardsPerSecond = dec(new(big.Int).Rsh(curRate, 1))
		default:
			np.StakingRewardsPerSecond = dec(r.BigBelow(curRate))
		}
	case k == 6: // the rate stays, the rate the switch-over will copy changes
		kind = "upgrade-rate"
		x, _ := rate(r)
		np.UpgradeTimeSetStakingRewardsPerSecond = dec(x)
	case k == 7: // the rate stays, the switch-over time is moved / cleared / set
		switch {
		case !cur.UpgradeTimeDisableInflation.IsZero() && (futureT == nil || r.Chance(30)):
			kind = "upgrade-time-cleared"
			np.UpgradeTimeDisableInflation = communitytypes.Params{}.UpgradeTimeDisableInflation
		case futureT != nil:
			kind = "upgrade-time-moved"
			if cur.UpgradeTimeDisableInflation.IsZero() {
				kind = "upgrade-time-set"
				setUpgrade = true
			}
			np.UpgradeTimeDisableInflation = tm(*futureT)
		default:
			kind = "same"
		}
	case k == 8: // everything at once
		kind = "rate-and-upgrade-rate"
		np.StakingRewardsPerSecond = dec(newRate(func(x *big.Int) bool { return x.Cmp(curRate) != 0 }))
		x, _ := rate(r)
		np.UpgradeTimeSetStakingRewardsPerSecond = dec(x)
	default: // the very same params again
		kind = "same"
	}
	route, auth, authOK := "msg", authtypes.NewModuleAddress(govtypes.ModuleName), true
	switch q := r.Intn(20); {
	case q < 5:
		route = "keeper"
	case q < 8: // not the governance account: the user, another module account, the community account itself
		authOK = false
		auth = []sdk.AccAddress{w.user, authtypes.NewModuleAddress(authtypes.FeeCollectorName), authtypes.NewModuleAddress(communitytypes.ModuleAccountName)}[r.Intn(3)]
		kind += "/bad-authority"
	case q < 10: // right authority, params that Validate rejects
		if r.Chance(50) {
			np.StakingRewardsPerSecond = dec(big.NewInt(-r.Range(1, 1_000_000_000)))
		} else {
			np.UpgradeTimeSetStakingRewardsPerSecond = dec(big.NewInt(-r.Range(1, 1_000_000_000)))
		}
		kind += "/invalid"
	}
	if !authOK || strings.HasSuffix(kind, "/invalid") {
		setUpgrade = false
	}
	pre := w.observe(ctx)
	// what the keeper route gives on the same state (discarded)
	var viaKeeper fullObs
	{
		cx, _ := ctx.CacheContext()
		c.Recover(func() { ck.SetParams(cx, np) })
		viaKeeper = w.observe(cx)
	}
	cls := kapp.OK
	if route == "keeper" {
		ck.SetParams(ctx, np)
	} else {
		var err error
		cls, err = kapp.Exec(ctx, func(cx sdk.Context) error {
			_, e := communitykeeper.NewMsgServerImpl(ck).UpdateParams(sdk.WrapSDKContext(cx), &communitytypes.MsgUpdateParams{Authority: auth.String(), Params: np})
			return e
		})
		if cls == kapp.Panic {
			out.Note("params-msg-panic: " + firstWords(err.Error(), 8))
		}
	}
	post := w.observe(ctx)
	upS := "none"
	if !np.UpgradeTimeDisableInflation.IsZero() {
		upS = fmt.Sprint(np.UpgradeTimeDisableInflation.UnixNano())
	}
	fields := []string{fmt.Sprint(ctx.BlockTime().UnixNano()), route, c.B(authOK), upS,
		np.StakingRewardsPerSecond.BigInt().String(), np.UpgradeTimeSetStakingRewardsPerSecond.BigInt().String()}
	fields = append(fields, pre.fields...)
	fields = append(fields, "=>", string(cls))
	fields = append(fields, post.fields...)
	fields = append(fields, viaKeeper.fields...)
	out.Case(fmt.Sprintf("%s %s init=%v err=%v", route, kind, pre.fields[7] != "none", pre.fields[8] != "0"), "c19.paramsmsg", fields...)
	return kind, setUpgrade && cls == kapp.OK
}

// dryRunMintProvision: what x/mint's begin blocker provisions in this block, measured in a discarded
// cache context after x/community's begin blocker (the only module before it that touches its params).
func (w *world) dryRunMintProvision(ctx sdk.Context) (prov *big.Int) {
	prov = bi(0)
	cx, _ := ctx.CacheContext()
	c.Recover(func() {
		community.BeginBlocker(cx, w.tApp.GetCommunityKeeper())
		before := w.tApp.GetBankKeeper().GetSupply(cx, "ukava").Amount
		mint.BeginBlocker(cx, w.tApp.GetMintKeeper(), minttypes.DefaultInflationCalculationFn)
		prov = w.tApp.GetBankKeeper().GetSupply(cx, "ukava").Amount.Sub(before).BigInt()
	})
	return prov
}

func firstWords(s string, n int) string {
	f := strings.Fields(s)
	if len(f) > n {
		f = f[:n]
	}
	return strings.Join(f, " ")
}

func must(err error) {
	if err != nil {
		panic(err)
	}
}
