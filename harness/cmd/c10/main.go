// c10: correspondence harness for x/evmutil conversions (property C10).
//
// Drives the real app: the four conversion messages go through Msg.ValidateBasic + the real msg
// server (which calls the real EVM keeper and the repository's own ERC20 contracts), interleaved with
// plain ERC20 `transfer`s, bank sends, external ERC20 mints and parameter changes. One self-contained
// case per operation: observed pre-state, operation, result class, observed post-state. Observation:
// the keeper's own QueryERC20BalanceOf / QueryERC20TotalSupply, bank balances and supply.
//
// Parties (one index space for bank and EVM: the EVM address is the 20 bytes of the bank address):
//
//	0 module (evmutil module account / types.ModuleEVMAddress)   1 the zero address
//	2,3,4 users                                                  5 a blocked module account (x/evm)
//
// Contracts: x0,x1 = the repository's ERC20MintableBurnable test contract deployed twice (EVM-native
// pair contracts, paired with erc20/usdc and the bep3 denom bnb); d<k> = k-th contract the module
// deployed for a cosmos coin in this sequence.
package main

import (
	"encoding/json"
	"fmt"
	"math/big"
	"sort"
	"strconv"
	"strings"
	"sync"
	"time"

	sdkmath "cosmossdk.io/math"
	tmproto "github.com/cometbft/cometbft/proto/tendermint/types"
	sdk "github.com/cosmos/cosmos-sdk/types"
	authtypes "github.com/cosmos/cosmos-sdk/x/auth/types"
	banktypes "github.com/cosmos/cosmos-sdk/x/bank/types"
	"github.com/ethereum/go-ethereum/common"
	"github.com/ethereum/go-ethereum/common/hexutil"
	evmtypes "github.com/evmos/ethermint/x/evm/types"
	feemarkettypes "github.com/evmos/ethermint/x/feemarket/types"

	"github.com/kava-labs/kava/app"
	evmutilkeeper "github.com/kava-labs/kava/x/evmutil/keeper"
	"github.com/kava-labs/kava/x/evmutil/types"

	c "kavaverif/harness/common"
	"kavaverif/harness/kapp"
)

const nParties = 6

// the last two are impostors: bank denominations are case sensitive, so they are DIFFERENT coins from the allowed
// "cosmo" / "ibc/atom"; they are never on the allow list, users hold them, and converting them must be refused
var denoms = []string{"erc20/usdc", "bnb", "cosmo", "ibc/atom", "Cosmo", "ibc/ATOM"}

var tokenMeta = map[string]types.AllowedCosmosCoinERC20Token{
	"erc20/usdc": types.NewAllowedCosmosCoinERC20Token("erc20/usdc", "Wrapped USDC coin", "WUSDC", 6),
	"bnb":        types.NewAllowedCosmosCoinERC20Token("bnb", "Wrapped BNB coin", "WBNB", 8),
	"cosmo":      types.NewAllowedCosmosCoinERC20Token("cosmo", "Kava EVM Cosmo", "COSMO", 6),
	"ibc/atom":   types.NewAllowedCosmosCoinERC20Token("ibc/atom", "Kava EVM Atom", "ATOM", 6),
}

var F = new(big.Int).Exp(big.NewInt(10), big.NewInt(10), nil) // only used to aim amounts at the boundaries

type world struct {
	tApp  app.TestApp
	base  sdk.Context
	k     evmutilkeeper.Keeper
	ms    types.MsgServer
	bankA []sdk.AccAddress
	evmA  []types.InternalEVMAddress
	ext   []types.InternalEVMAddress // x0, x1
	uni   []pair                     // the pair universe U
	block []bool
}

type pair struct {
	c string // contract tag
	d string // denom
}

// per-sequence view of the contracts
type seqState struct {
	tags  []string // contract tags in observation order: x0,x1,d0,...
	addrs map[string]types.InternalEVMAddress
}

func must(err error) {
	if err != nil {
		panic(err)
	}
}

var cfgOnce sync.Once

func mkWorld() *world {
	cfgOnce.Do(func() { app.SetSDKConfig() })
	_, users := app.GeneratePrivKeyAddressPairs(3)
	evmGenesis := evmtypes.DefaultGenesisState()
	evmGenesis.Params.EvmDenom = "akava"
	feemarketGenesis := feemarkettypes.DefaultGenesisState()
	feemarketGenesis.Params.EnableHeight = 1
	feemarketGenesis.Params.NoBaseFee = false

	cdc := app.MakeEncodingConfig().Marshaler
	authGS := app.NewFundedGenStateWithSameCoins(cdc, sdk.NewCoins(sdk.NewInt64Coin("ukava", 1_000_000_000_000)), users)
	gs := app.GenesisState{
		evmtypes.ModuleName:       cdc.MustMarshalJSON(evmGenesis),
		feemarkettypes.ModuleName: cdc.MustMarshalJSON(feemarketGenesis),
	}
	tApp, ctx := kapp.NewApp(authGS, gs)

	// the EVM looks up the block proposer's validator: use the genesis validator
	vals := tApp.GetStakingKeeper().GetAllValidators(ctx)
	if len(vals) == 0 {
		panic("c10: no genesis validator")
	}
	cons, err := vals[0].GetConsAddr()
	must(err)
	hdr := ctx.BlockHeader()
	hdr.ProposerAddress = cons.Bytes()
	ctx = ctx.WithBlockHeader(hdr)

	w := &world{tApp: tApp, k: tApp.GetEvmutilKeeper()}
	w.ms = evmutilkeeper.NewMsgServerImpl(w.k)
	ak := tApp.GetAccountKeeper()
	// make sure the module account exists (as the repository's test suite does)
	must(tApp.FundModuleAccount(ctx, types.ModuleName, sdk.NewCoins(sdk.NewCoin("ukava", sdkmath.ZeroInt()))))
	modAddr := ak.GetModuleAddress(types.ModuleName)
	evmMod := ak.GetModuleAddress(evmtypes.ModuleName)
	w.bankA = []sdk.AccAddress{modAddr, sdk.AccAddress(make([]byte, 20)), users[0], users[1], users[2], evmMod}
	for _, a := range w.bankA {
		w.evmA = append(w.evmA, types.NewInternalEVMAddress(common.BytesToAddress(a.Bytes())))
		w.block = append(w.block, tApp.GetBankKeeper().BlockedAddr(a))
	}
	if w.evmA[0].Address != types.ModuleEVMAddress {
		panic("c10: module EVM address is not the module account's bytes")
	}
	// two EVM-native ERC20 contracts: the repository's own test contract
	for _, sym := range []string{"USDC", "BNB"} {
		a, err := w.k.DeployTestMintableERC20Contract(ctx, sym, sym, 18)
		must(err)
		w.ext = append(w.ext, a)
	}
	w.uni = []pair{{"x0", "erc20/usdc"}, {"x1", "bnb"}}
	w.k.SetParams(ctx, types.NewParams(types.NewConversionPairs(), types.NewAllowedCosmosCoinERC20Tokens()))
	w.base = ctx
	return w
}

// ---------------------------------------------------------------- observation

type obs struct {
	tags    []string
	pairs   []pair   // enabled, in params order
	allowed []string // in params order
	reg     []pair   // c = tag, d = cosmos denom; in store order
	bank    [][]*big.Int
	supply  []*big.Int
	ebal    [][]*big.Int
	total   []*big.Int
}

func (w *world) tagOf(ss *seqState, a types.InternalEVMAddress) string {
	for t, x := range ss.addrs {
		if x.Address == a.Address {
			return t
		}
	}
	return "?" + a.Hex()
}

// ethCall is the EVM keeper's own eth_call query (one execution, nothing committed).
func (w *world) ethCall(ctx sdk.Context, contract types.InternalEVMAddress, method string, args ...interface{}) *big.Int {
	data, err := types.ERC20MintableBurnableContract.ABI.Pack(method, args...)
	must(err)
	from := types.ModuleEVMAddress
	targs, err := json.Marshal(evmtypes.TransactionArgs{From: &from, To: &contract.Address, Data: (*hexutil.Bytes)(&data)})
	must(err)
	res, err := w.tApp.GetEvmKeeper().EthCall(sdk.WrapSDKContext(ctx), &evmtypes.EthCallRequest{Args: targs, GasCap: 2_000_000})
	must(err)
	if res.Failed() {
		panic("c10: eth_call failed: " + res.VmError)
	}
	outs, err := types.ERC20MintableBurnableContract.ABI.Unpack(method, res.Ret)
	must(err)
	return outs[0].(*big.Int)
}

// touched = cells (contract tag, party) that must additionally be read through the keeper's own
// QueryERC20BalanceOf / QueryERC20TotalSupply (CallEVM: gas estimation + committed call); every cell
// is read by eth_call. The two must agree. full = read every cell both ways (first observation of a
// sequence; every 8th operation in the thorough tier).
func (w *world) observe(ctx sdk.Context, ss *seqState, touched map[string][]int, full bool) obs {
	// keeper queries go through CallEVM (they bump the module nonce): observe in a throw-away branch
	ctx, _ = ctx.CacheContext()
	bk := w.tApp.GetBankKeeper()
	var o obs
	// registry first: newly deployed contracts get the next d<k> tag
	w.k.IterateAllDeployedCosmosCoinContracts(ctx, func(dc types.DeployedCosmosCoinContract) bool {
		t := w.tagOf(ss, *dc.Address)
		if strings.HasPrefix(t, "?") {
			t = "d" + strconv.Itoa(len(ss.tags)-len(w.ext))
			ss.tags = append(ss.tags, t)
			ss.addrs[t] = *dc.Address
		}
		o.reg = append(o.reg, pair{t, dc.CosmosDenom})
		return false
	})
	o.tags = append([]string{}, ss.tags...)
	var p types.Params
	kapp.ReadParams(w.tApp, ctx, "evmutil", &p) // what the store holds, not what the keeper reports
	for _, cp := range p.EnabledConversionPairs {
		o.pairs = append(o.pairs, pair{w.tagOf(ss, cp.GetAddress()), cp.Denom})
	}
	for _, t := range p.AllowedCosmosDenoms {
		o.allowed = append(o.allowed, t.CosmosDenom)
	}
	for _, d := range denoms {
		row := make([]*big.Int, nParties)
		for i, a := range w.bankA {
			row[i] = bk.GetBalance(ctx, a, d).Amount.BigInt()
		}
		o.bank = append(o.bank, row)
		o.supply = append(o.supply, bk.GetSupply(ctx, d).Amount.BigInt())
	}
	full = full || touched == nil
	for _, t := range o.tags {
		ca := ss.addrs[t]
		row := make([]*big.Int, nParties)
		for i, a := range w.evmA {
			row[i] = w.ethCall(ctx, ca, "balanceOf", a.Address)
		}
		o.ebal = append(o.ebal, row)
		o.total = append(o.total, w.ethCall(ctx, ca, "totalSupply"))
		// the keeper's own queries on the touched cells (all cells on the first observation / thorough tier)
		cells, isTouched := touched[t]
		if full {
			cells = []int{0, 1, 2, 3, 4, 5}
		}
		for _, i := range cells {
			b, err := w.k.QueryERC20BalanceOf(ctx, ca, w.evmA[i])
			must(err)
			if b.Cmp(row[i]) != 0 {
				panic(fmt.Sprintf("c10: QueryERC20BalanceOf %v != eth_call %v", b, row[i]))
			}
		}
		if full || isTouched {
			ts, err := w.k.QueryERC20TotalSupply(ctx, ca)
			must(err)
			if ts.Cmp(o.total[len(o.total)-1]) != 0 {
				panic(fmt.Sprintf("c10: QueryERC20TotalSupply %v != eth_call %v", ts, o.total[len(o.total)-1]))
			}
		}
	}
	return o
}

func pairsStr(ps []pair) string {
	if len(ps) == 0 {
		return "-"
	}
	s := make([]string, len(ps))
	for i, p := range ps {
		s[i] = p.c + "=" + p.d
	}
	return strings.Join(s, ",")
}

func rows(m [][]*big.Int) string {
	if len(m) == 0 {
		return "-"
	}
	s := make([]string, len(m))
	for i, r := range m {
		s[i] = c.Ints(r)
	}
	return strings.Join(s, ";")
}

func (o obs) fields() []string {
	return []string{c.Strs(o.tags), pairsStr(o.pairs), c.Strs(o.allowed), pairsStr(o.reg),
		rows(o.bank), c.Ints(o.supply), rows(o.ebal), c.Ints(o.total)}
}

// ---------------------------------------------------------------- generators

func bi(x int64) *big.Int { return big.NewInt(x) }

// amount pool around a balance: 0, dust, dust±1, multiples of 10^10 ±1, balance, balance±1
// (the 10^10 cases only for 18-decimal bep3 ERC20 amounts: big = true)
func amount(r *c.Rng, bal *big.Int, big10 bool) *big.Int {
	pick := func(xs ...*big.Int) *big.Int { return new(big.Int).Set(xs[r.Intn(len(xs))]) }
	var x *big.Int
	k := r.Intn(16)
	if !big10 && (k == 1 || k == 2 || k == 5) {
		k = 7 + r.Intn(9)
	}
	switch k {
	case 0:
		x = bi(0)
	case 1: // dust
		x = pick(bi(1), bi(2), new(big.Int).Sub(F, bi(1)), new(big.Int).Sub(F, bi(2)), r.BigBelow(F))
	case 2: // multiples of 10^10, ±1
		x = new(big.Int).Add(new(big.Int).Mul(bi(r.Range(1, 4)), F), bi(r.Range(-1, 1)))
	case 3, 4: // whole balance, ±1
		x = new(big.Int).Add(bal, bi(r.Range(-1, 1)))
	case 5: // the part of the balance that is whole sdk units / the dust of the balance
		q, m := new(big.Int).DivMod(bal, F, new(big.Int))
		x = pick(new(big.Int).Mul(q, F), m, new(big.Int).Add(m, bi(1)))
	case 6:
		x = bi(r.Range(1, 50))
	default:
		x = r.BigBelow(new(big.Int).Add(bal, bi(2)))
	}
	if x.Sign() < 0 {
		x = bi(0)
	}
	if x.Sign() == 0 && bal.Sign() > 0 && r.Chance(80) { // an accidental zero: take part of the balance instead
		x = new(big.Int).Add(r.BigBelow(bal), bi(1))
	}
	return x
}

func idx(xs []string, s string) int {
	for i, x := range xs {
		if x == s {
			return i
		}
	}
	return -1
}

func errClass(err error) string {
	s := err.Error()
	for _, k := range []string{"insufficient funds", "is not allowed to receive", "not enabled to convert", "transfer amount exceeds balance",
		"burn amount exceeds balance", "zero address", "less than 1 native unit", "invalid token balance", "no erc20 contract found",
		"cannot be zero", "invalid coins", "unauthorized", "does not exist", "panic"} {
		if strings.Contains(s, k) {
			return k
		}
	}
	return "other:" + firstN(s, 60)
}

func firstN(s string, n int) string {
	if len(s) > n {
		return s[:n]
	}
	return s
}

func (w *world) setPairs(ctx sdk.Context, ss *seqState, ps []pair) {
	p := w.k.GetParams(ctx)
	cps := types.ConversionPairs{}
	for _, x := range ps {
		cps = append(cps, types.NewConversionPair(ss.addrs[x.c], x.d))
	}
	p.EnabledConversionPairs = cps
	kapp.SetParams(w.tApp, ctx, "evmutil", &p, func() { w.k.SetParams(ctx, p) })
}

func (w *world) setAllowed(ctx sdk.Context, ds []string) {
	p := w.k.GetParams(ctx)
	ts := types.AllowedCosmosCoinERC20Tokens{}
	for _, d := range ds {
		ts = append(ts, tokenMeta[d])
	}
	p.AllowedCosmosDenoms = ts
	kapp.SetParams(w.tApp, ctx, "evmutil", &p, func() { w.k.SetParams(ctx, p) })
}

func subset(r *c.Rng, n int) []int {
	var out []int
	for i := 0; i < n; i++ {
		if r.Chance(65) {
			out = append(out, i)
		}
	}
	if r.Bool() { // order matters for the first-match lookup
		sort.Sort(sort.Reverse(sort.IntSlice(out)))
	}
	return out
}

var tTotal, tObs time.Duration

func (w *world) seq(out *c.Out, seq int, r *c.Rng) {
	ctx, _ := w.base.CacheContext()
	bk := w.tApp.GetBankKeeper()
	ss := &seqState{tags: []string{"x0", "x1"}, addrs: map[string]types.InternalEVMAddress{"x0": w.ext[0], "x1": w.ext[1]}}

	// ---- reachable start state: funding through the real keepers only
	for u := 2; u <= 4; u++ {
		for _, d := range []string{"cosmo", "ibc/atom", "Cosmo", "ibc/ATOM"} {
			if r.Chance(80) {
				must(w.tApp.FundAccount(ctx, w.bankA[u], sdk.NewCoins(sdk.NewCoin(d, sdkmath.NewInt(r.Range(1, 2000))))))
			}
		}
		for xi, ca := range w.ext {
			if r.Chance(80) {
				amt := bi(r.Range(1, 3000))
				if xi == 1 { // 18-decimal bep3 token: a few sdk units plus dust
					amt = new(big.Int).Add(new(big.Int).Mul(bi(r.Range(0, 6)), F), r.BigBelow(F))
				}
				must(w.k.MintERC20(ctx, ca, w.evmA[u], amt))
			}
		}
	}
	if r.Chance(30) { // somebody sent pair tokens straight to the module's EVM address (slack in `≤`)
		must(w.k.MintERC20(ctx, w.ext[r.Intn(2)], w.evmA[0], r.BigBelow(new(big.Int).Mul(bi(3), F))))
	}
	// initial parameters
	var ps []pair
	for _, i := range subset(r, len(w.uni)) {
		ps = append(ps, w.uni[i])
	}
	if r.Chance(60) {
		ps = append([]pair{}, w.uni...)
	}
	w.setPairs(ctx, ss, ps)
	if r.Chance(70) {
		w.setAllowed(ctx, []string{"cosmo", "ibc/atom"})
	} else {
		w.setAllowed(ctx, []string{"cosmo", "ibc/atom"}[:r.Range(0, 1)])
	}

	nops := c.Budget(40, 80)
	t0 := time.Now()
	pre := w.observe(ctx, ss, nil, true)
	tObs += time.Since(t0)
	var fo *forcedOp
	for i := 0; i < nops; i++ {
		kind := c.Pick(r, []string{"c2e", "c2e", "c2e", "e2c", "e2c", "e2c", "e2c", "cc2e", "cc2e", "cc2e", "e2cc", "e2cc", "e2cc",
			"xfer", "xfer", "xfer", "send", "send", "send", "xmint", "xmint", "pairs", "allow",
			"c2e", "e2c", "cc2e", "e2cc", "e2c", "e2cc"})
		if kind == "e2cc" && len(pre.reg) == 0 && r.Chance(85) {
			kind = "cc2e" // nothing to convert back yet
		}
		a := int(r.Range(2, 4)) // initiator: a user (nobody can sign for the module account)
		if r.Chance(5) {
			a = 1
		}
		b := r.Intn(nParties) // receiver: anybody, including the module, the zero address, a blocked account
		if r.Chance(50) {
			b = int(r.Range(2, 4))
		}
		if r.Chance(15) {
			b = a
		}
		x := ""      // denom or contract tag or list
		amt := bi(0) // amount
		var nlPairs []pair
		var nlAllow []string
		// ---- choose the operand, then (mostly) an initiator who holds it, then the amount
		holder := func(row []*big.Int) {
			if r.Chance(85) {
				var hs []int
				for u := 2; u <= 4; u++ {
					if row[u].Sign() > 0 {
						hs = append(hs, u)
					}
				}
				if len(hs) > 0 {
					if a == b { // keep a self conversion a self conversion
						a = hs[r.Intn(len(hs))]
						b = a
					} else {
						a = hs[r.Intn(len(hs))]
					}
				}
			}
		}
		zeroRow := make([]*big.Int, nParties)
		for j := range zeroRow {
			zeroRow[j] = bi(0)
		}
		switch kind {
		case "c2e":
			x = c.Pick(r, denoms)
			if r.Chance(85) {
				x = denoms[r.Intn(2)]
				if y := denoms[r.Intn(2)]; !held(pre.bank[idx(denoms, x)]) && held(pre.bank[idx(denoms, y)]) {
					x = y
				}
			}
			holder(pre.bank[idx(denoms, x)])
			amt = amount(r, pre.bank[idx(denoms, x)][a], false)
			if r.Chance(10) { // aim at the module's locked ERC20 (unlock must fail just above it)
				for _, p := range w.uni {
					if p.d == x {
						lock := pre.ebal[idx(pre.tags, p.c)][0]
						if x == "bnb" {
							lock = new(big.Int).Div(lock, F)
						}
						amt = new(big.Int).Add(lock, bi(r.Range(0, 1)))
					}
				}
			}
		case "e2c":
			x = c.Pick(r, pre.tags)
			if r.Chance(88) {
				x = pre.tags[r.Intn(2)]
			}
			holder(pre.ebal[idx(pre.tags, x)])
			amt = amount(r, pre.ebal[idx(pre.tags, x)][a], x == "x1")
		case "cc2e":
			x = c.Pick(r, denoms)
			if r.Chance(80) {
				x = denoms[2+r.Intn(2)]
			} else if r.Chance(50) {
				x = denoms[4+r.Intn(2)] // a look-alike of an allowed denomination
			}
			holder(pre.bank[idx(denoms, x)])
			amt = amount(r, pre.bank[idx(denoms, x)][a], false)
		case "e2cc":
			x = c.Pick(r, denoms)
			if len(pre.reg) > 0 && r.Chance(88) {
				x = pre.reg[r.Intn(len(pre.reg))].d
				if y := pre.reg[r.Intn(len(pre.reg))]; !held(pre.ebal[idx(pre.tags, regOf(pre, x))]) && held(pre.ebal[idx(pre.tags, y.c)]) {
					x = y.d
				}
			}
			row := zeroRow
			if t := regOf(pre, x); t != "" {
				row = pre.ebal[idx(pre.tags, t)]
			}
			holder(row)
			amt = amount(r, row[a], false)
		case "xfer":
			x = c.Pick(r, pre.tags)
			holder(pre.ebal[idx(pre.tags, x)])
			amt = amount(r, pre.ebal[idx(pre.tags, x)][a], x == "x1")
		case "send":
			x = c.Pick(r, denoms)
			holder(pre.bank[idx(denoms, x)])
			amt = amount(r, pre.bank[idx(denoms, x)][a], false)
		case "xmint":
			x = pre.tags[r.Intn(2)]
			a = 0
			amt = amount(r, new(big.Int).Mul(bi(2), F), x == "x1")
			if x == "x0" {
				amt = bi(r.Range(0, 500))
			}
		case "pairs":
			a, b = 0, 0
			for _, i := range subset(r, len(w.uni)) {
				nlPairs = append(nlPairs, w.uni[i])
			}
			if r.Chance(50) {
				nlPairs = append([]pair{}, w.uni...)
			}
			x = pairsStr(nlPairs)
		case "allow":
			a, b = 0, 0
			for _, i := range subset(r, len(denoms)) {
				if i >= 4 {
					continue // impostor denominations are never allowed
				}
				if i >= 2 || r.Chance(15) { // rarely a pair denom is also an allowed cosmos denom
					nlAllow = append(nlAllow, denoms[i])
				}
			}
			if r.Chance(40) {
				nlAllow = []string{"cosmo", "ibc/atom"}
			}
			x = c.Strs(nlAllow)
		}
		rt := fo
		if fo != nil { // second half of a round trip
			kind, a, b, x, amt = fo.kind, fo.a, fo.b, fo.x, fo.amt
			fo = nil
		}
		// ---- build the real call
		var run func(cx sdk.Context) error
		sigExtra := ""
		switch kind {
		case "c2e":
			msg := types.NewMsgConvertCoinToERC20(w.bankA[a].String(), w.evmA[b].Hex(), sdk.Coin{Denom: x, Amount: sdkmath.NewIntFromBigInt(amt)})
			run = func(cx sdk.Context) error {
				if err := msg.ValidateBasic(); err != nil {
					return err
				}
				_, err := w.ms.ConvertCoinToERC20(sdk.WrapSDKContext(cx), &msg)
				return err
			}
		case "e2c":
			msg := types.NewMsgConvertERC20ToCoin(w.evmA[a], w.bankA[b], ss.addrs[x], sdkmath.NewIntFromBigInt(amt))
			run = func(cx sdk.Context) error {
				if err := msg.ValidateBasic(); err != nil {
					return err
				}
				_, err := w.ms.ConvertERC20ToCoin(sdk.WrapSDKContext(cx), &msg)
				return err
			}
			sigExtra = fmt.Sprintf("|%s|dust=%v|sub1=%v", x, new(big.Int).Mod(amt, F).Sign() != 0, amt.Cmp(F) < 0)
		case "cc2e":
			msg := types.NewMsgConvertCosmosCoinToERC20(w.bankA[a].String(), w.evmA[b].Hex(), sdk.Coin{Denom: x, Amount: sdkmath.NewIntFromBigInt(amt)})
			run = func(cx sdk.Context) error {
				if err := msg.ValidateBasic(); err != nil {
					return err
				}
				_, err := w.ms.ConvertCosmosCoinToERC20(sdk.WrapSDKContext(cx), &msg)
				return err
			}
			sigExtra = fmt.Sprintf("|deploy=%v", regOf(pre, x) == "")
		case "e2cc":
			msg := types.NewMsgConvertCosmosCoinFromERC20(w.evmA[a].Hex(), w.bankA[b].String(), sdk.Coin{Denom: x, Amount: sdkmath.NewIntFromBigInt(amt)})
			run = func(cx sdk.Context) error {
				if err := msg.ValidateBasic(); err != nil {
					return err
				}
				_, err := w.ms.ConvertCosmosCoinFromERC20(sdk.WrapSDKContext(cx), &msg)
				return err
			}
			sigExtra = fmt.Sprintf("|allowed=%v", idx(pre.allowed, x) >= 0)
		case "xfer": // ordinary ERC20 transfer by a user
			ca := ss.addrs[x]
			run = func(cx sdk.Context) error {
				_, err := w.k.CallEVM(cx, types.ERC20MintableBurnableContract.ABI, w.evmA[a].Address, ca, "transfer", w.evmA[b].Address, amt)
				return err
			}
		case "send": // ordinary bank MsgSend through the app's message router
			msg := banktypes.NewMsgSend(w.bankA[a], w.bankA[b], sdk.Coins{sdk.Coin{Denom: x, Amount: sdkmath.NewIntFromBigInt(amt)}})
			run = func(cx sdk.Context) error {
				if err := msg.ValidateBasic(); err != nil {
					return err
				}
				_, err := w.tApp.MsgServiceRouter().Handler(msg)(cx, msg)
				return err
			}
		case "xmint": // the external token's own minter issues tokens to somebody
			ca := ss.addrs[x]
			run = func(cx sdk.Context) error { return w.k.MintERC20(cx, ca, w.evmA[b], amt) }
		case "pairs":
			run = func(cx sdk.Context) error { w.setPairs(cx, ss, nlPairs); return nil }
		case "allow":
			run = func(cx sdk.Context) error { w.setAllowed(cx, nlAllow); return nil }
		}
		cls, err := kapp.Exec(ctx, run)
		t1 := time.Now()
		post := w.observe(ctx, ss, w.touched(pre, kind, a, b, x), c.Tier() == "thorough" && i%8 == 7)
		tObs += time.Since(t1)
		ec := ""
		if err != nil {
			ec = errClass(err)
			out.Note("err:" + kind + ":" + ec)
			if c.EnvInt("VERIF_DEBUG", 0) > 1 {
				fmt.Println("ERR", kind, a, b, x, amt, err)
			}
		}
		sig := fmt.Sprintf("%s|%s|%s|self=%v|recv=%d%s", kind, cls, ec, a == b, recvClass(b), sigExtra)
		if kind == "pairs" || kind == "allow" {
			sig = kind
		}
		bl := make([]string, nParties)
		for i, v := range w.block {
			bl[i] = c.B(v)
		}
		head := []string{c.Strs(denoms), pairsStr(w.uni), strings.Join(bl, ",")}
		fields := append([]string{kind}, head...)
		fields = append(fields, pre.fields()...)
		fields = append(fields, strconv.Itoa(a), strconv.Itoa(b), x, amt.String(), "=>", string(cls))
		fields = append(fields, post.fields()...)
		out.Case(sig, "c10.op", fields...)

		// ---- round trips: convert the proceeds straight back
		if rt != nil && cls == kapp.OK {
			f := append([]string{rt.rtKind}, head...)
			f = append(f, rt.rtPre.fields()...)
			f = append(f, strconv.Itoa(rt.rtA), strconv.Itoa(rt.rtB), rt.rtX, rt.rtAmt.String(), "=>")
			f = append(f, post.fields()...)
			out.Case("rt|"+rt.rtKind+"|"+rt.rtX, "c10.rt", f...)
		} else if rt != nil {
			out.Note("round-trip-second-half-failed:" + ec)
		}
		if rt == nil && cls == kapp.OK && a >= 2 && a <= 4 && b >= 2 && b <= 4 && r.Chance(20) {
			switch kind {
			case "e2c":
				d := ""
				for _, p := range pre.pairs {
					if p.c == x {
						d = p.d
						break
					}
				}
				di := idx(denoms, d)
				if di < 0 {
					// the conversion succeeded although the parameters in the store enable no pair for this
					// contract (the case line above carries the same fact to the driver's C10_disabled_refused)
					out.Violation(fmt.Sprintf("C10 conversion of a pair that the stored parameters do not enable succeeded seq=%d op=%d kind=%s contract=%s", seq, i, kind, x))
					break
				}
				got := new(big.Int).Sub(post.bank[di][b], pre.bank[di][b])
				fo = &forcedOp{kind: "c2e", a: b, b: a, x: d, amt: got, rtPre: pre, rtKind: "native", rtA: a, rtB: b, rtX: x, rtAmt: amt}
			case "cc2e":
				fo = &forcedOp{kind: "e2cc", a: b, b: a, x: x, amt: amt, rtPre: pre, rtKind: "cosmos", rtA: a, rtB: b, rtX: x, rtAmt: amt}
			}
		}

		// the module's own invariants on the real state: the registered routes (crisis) and the
		// written-but-unregistered backing invariant
		if cls == kapp.OK && (c.Tier() == "thorough" || i%4 == 3 || i == nops-1) {
			w.invariants(out, ctx, bk, fmt.Sprintf("seq=%d op=%d %s", seq, i, kind))
		}
		pre = post
	}
	tTotal += time.Since(t0)
}

// touched: the ERC20 cells an operation is expected to touch (plus the module's), by contract tag.
// A contract deployed by this very operation is not known yet: it is read in full.
func (w *world) touched(pre obs, kind string, a, b int, x string) map[string][]int {
	m := map[string][]int{}
	switch kind {
	case "c2e":
		for _, p := range w.uni {
			if p.d == x {
				m[p.c] = []int{0, a, b}
			}
		}
	case "e2c", "xfer", "xmint":
		m[x] = []int{0, a, b}
	case "cc2e", "e2cc":
		if t := regOf(pre, x); t != "" {
			m[t] = []int{0, a, b}
		} else {
			m["d"+strconv.Itoa(len(pre.tags)-len(w.ext))] = []int{0, 1, 2, 3, 4, 5}
		}
	}
	return m
}

type forcedOp struct {
	kind   string
	a, b   int
	x      string
	amt    *big.Int
	rtPre  obs
	rtKind string
	rtA    int
	rtB    int
	rtX    string
	rtAmt  *big.Int
}

// held: some user holds the asset
func held(row []*big.Int) bool {
	for u := 2; u <= 4; u++ {
		if row[u].Sign() > 0 {
			return true
		}
	}
	return false
}

func regOf(o obs, d string) string {
	for _, p := range o.reg {
		if p.d == d {
			return p.c
		}
	}
	return ""
}

func recvClass(b int) int {
	if b >= 2 && b <= 4 {
		return 2
	}
	return b
}

func (w *world) invariants(out *c.Out, ctx sdk.Context, bk evmutilBank, where string) {
	cctx, _ := ctx.CacheContext()
	n := 0
	ck := w.tApp.GetCrisisKeeper()
	for _, rt := range ck.Routes() {
		if rt.ModuleName != types.ModuleName {
			continue
		}
		n++
		if msg, broken := rt.Invar(cctx); broken {
			out.Violation(fmt.Sprintf("%s: registered invariant %s broken: %s", where, rt.FullRoute(), msg))
		}
	}
	out.NoteN("registered-evmutil-invariant-routes-run", n)
	if msg, broken := evmutilkeeper.BackedCoinsInvariant(bk, w.k)(cctx); broken {
		out.Violation(fmt.Sprintf("%s: unregistered invariant backed-conversion-coins broken: %s", where, msg))
	}
	if msg, broken := evmutilkeeper.CosmosCoinsFullyBackedInvariant(bk, w.k)(cctx); broken {
		out.Violation(fmt.Sprintf("%s: invariant cosmos-coins-fully-backed broken: %s", where, msg))
	}
}

type evmutilBank = types.BankKeeper

// pure: the unexported bep3 amount helpers through the verif hook (no EVM needed): amounts of every
// size up to 2^255, biased to multiples of 10^10 and their neighbours.
func pure(out *c.Out, r *c.Rng) {
	n := c.Budget(6000, 200000)
	for i := 0; i < n; i++ {
		var a *big.Int
		switch r.Intn(6) {
		case 0:
			a = r.BigBelow(new(big.Int).Mul(bi(3), F))
		case 1, 2: // k·10^10 + {-1,0,1}
			a = new(big.Int).Add(new(big.Int).Mul(r.BigBits(200), F), bi(r.Range(-1, 1)))
		case 3:
			a = bi(r.Range(0, 3))
		default:
			a = r.BigBits(255)
		}
		if a.Sign() < 0 {
			a = bi(0)
		}
		mint, lock, err := evmutilkeeper.VerifBep3ERC20AmountToCoinMintAndERC20LockAmount(new(big.Int).Set(a))
		res, ms, ls := "ok", "0", "0"
		if err != nil {
			res = "err"
		} else {
			ms, ls = mint.String(), lock.String()
		}
		coin := r.BigBits(200)
		back := evmutilkeeper.VerifConvertBep3CoinAmountToERC20Amount(new(big.Int).Set(coin))
		sig := ""
		if i < 4 || a.Cmp(F) < 0 || new(big.Int).Mod(a, F).Sign() == 0 {
			sig = fmt.Sprintf("bep3|%s|sub1=%v|exact=%v", res, a.Cmp(F) < 0, new(big.Int).Mod(a, F).Sign() == 0)
		}
		out.Case(sig, "c10.bep3", a.String(), "=>", res, ms, ls, coin.String(), back.String())
	}
	// the denom set
	for _, d := range []string{"bnb", "btcb", "busd", "xrpb", "ukava", "erc20/usdc", "cosmo", "ibc/atom", "BNB", "bnb2", ""} {
		out.Case("isbep3|"+d, "c10.isbep3", d, "=>", c.B(evmutilkeeper.VerifIsBep3Asset(d)))
	}
}

func main() {
	out := c.NewOut(c.OutPath())
	defer out.Close()
	r := c.NewRng(c.Seed())
	n := c.Budget(120, 1200)
	kapp.RunSeqs(n, c.Workers(), r, mkWorld, func(w *world, seq int, r *c.Rng) { w.seq(out, seq, r) })
	pure(out, r.Fork(1<<40))
	if c.EnvInt("VERIF_DEBUG", 0) > 0 {
		fmt.Println("time in sequences", tTotal, "of which observation", tObs)
	}
	_ = authtypes.ModuleName
	_ = tmproto.Header{}
}
