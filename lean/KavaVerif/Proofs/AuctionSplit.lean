/-
  Helper lemmas for C06, part 1: finite sums and the largest-remainder split. Core Lean only.
-/
import KavaVerif.Model.Auction
set_option linter.unusedSimpArgs false
set_option linter.unusedVariables false

namespace KV.Auc

/-! ### `sumTo` -/

theorem sumTo_congr (n : Nat) (f g : Nat → Int) (h : ∀ i, i < n → f i = g i) : sumTo n f = sumTo n g := by
  induction n with
  | zero => rfl
  | succ k ih =>
    simp only [sumTo]
    rw [ih (fun i hi => h i (by omega)), h k (by omega)]

theorem sumTo_le (n : Nat) (f g : Nat → Int) (h : ∀ i, i < n → f i ≤ g i) : sumTo n f ≤ sumTo n g := by
  induction n with
  | zero => exact Int.le_refl _
  | succ k ih =>
    simp only [sumTo]
    have := ih (fun i hi => h i (by omega))
    have := h k (by omega)
    omega

theorem sumTo_add (n : Nat) (f g : Nat → Int) : sumTo n (fun i => f i + g i) = sumTo n f + sumTo n g := by
  induction n with
  | zero => rfl
  | succ k ih => simp only [sumTo]; rw [ih]; omega

theorem sumTo_sub (n : Nat) (f g : Nat → Int) : sumTo n (fun i => f i - g i) = sumTo n f - sumTo n g := by
  induction n with
  | zero => rfl
  | succ k ih => simp only [sumTo]; rw [ih]; omega

theorem sumTo_mul_right (n : Nat) (f : Nat → Int) (c : Int) : sumTo n (fun i => f i * c) = sumTo n f * c := by
  induction n with
  | zero => simp [sumTo]
  | succ k ih => simp only [sumTo]; rw [ih, Int.add_mul]

theorem sumTo_mul_left (n : Nat) (f : Nat → Int) (c : Int) : sumTo n (fun i => c * f i) = c * sumTo n f := by
  induction n with
  | zero => simp [sumTo]
  | succ k ih => simp only [sumTo]; rw [ih, Int.mul_add]

theorem sumTo_zero (n : Nat) : sumTo n (fun _ => 0) = 0 := by
  induction n with
  | zero => rfl
  | succ k ih => simp only [sumTo]; rw [ih]; rfl

theorem sumTo_const (n : Nat) (c : Int) : sumTo n (fun _ => c) = n * c := by
  induction n with
  | zero => simp [sumTo]
  | succ k ih =>
    simp only [sumTo]; rw [ih]
    have : ((k + 1 : Nat) : Int) * c = (k : Int) * c + c := by
      rw [Int.natCast_succ, Int.add_mul, Int.one_mul]
    omega

theorem sumTo_nonneg (n : Nat) (f : Nat → Int) (h : ∀ i, i < n → 0 ≤ f i) : 0 ≤ sumTo n f := by
  have := sumTo_le n (fun _ => 0) f h
  rw [sumTo_zero] at this; exact this

theorem sumTo_ge_term (n : Nat) (f : Nat → Int) (h : ∀ i, i < n → 0 ≤ f i) (i : Nat) (hi : i < n) :
    f i ≤ sumTo n f := by
  induction n with
  | zero => omega
  | succ k ih =>
    simp only [sumTo]
    by_cases hik : i = k
    · subst hik
      have := sumTo_nonneg i f (fun j hj => h j (by omega))
      omega
    · have := ih (fun j hj => h j (by omega)) (by omega)
      have := h k (by omega)
      omega

theorem sumTo_succ_front (n : Nat) (f : Nat → Int) :
    sumTo (n + 1) f = f 0 + sumTo n (fun i => f (i + 1)) := by
  induction n with
  | zero => simp [sumTo]
  | succ k ih =>
    have e : sumTo (k + 1 + 1) f = sumTo (k + 1) f + f (k + 1) := rfl
    rw [e, ih]
    simp only [sumTo]
    omega

theorem sumL_eq_sumTo (l : List Int) : sumL l = sumTo l.length (fun i => l.getD i 0) := by
  induction l with
  | nil => rfl
  | cons x xs ih =>
    simp only [sumL, List.length_cons]
    rw [sumTo_succ_front, ih]
    simp

/-- sum of a point indicator -/
theorem sumTo_point (n x : Nat) (hx : x < n) : sumTo n (fun i => if i = x then 1 else 0) = 1 := by
  induction n with
  | zero => omega
  | succ k ih =>
    simp only [sumTo]
    by_cases hk : k = x
    · subst hk
      have : sumTo k (fun i => if i = k then (1:Int) else 0) = 0 := by
        rw [sumTo_congr k _ (fun _ => 0) (fun i hi => by simp; omega), sumTo_zero]
      rw [this]; simp
    · rw [ih (by omega)]; simp [hk]

/-- the indicator of a duplicate-free list of indices below `n` sums to its length -/
theorem sumTo_indicator (n : Nat) (E : List Nat) (hn : E.Nodup) (hlt : ∀ i, i ∈ E → i < n) :
    sumTo n (fun i => if i ∈ E then 1 else 0) = E.length := by
  induction E with
  | nil => simp [sumTo_zero]
  | cons x xs ih =>
    have hnd := List.nodup_cons.mp hn
    have h1 : sumTo n (fun i => if i ∈ x :: xs then (1:Int) else 0)
        = sumTo n (fun i => (if i = x then 1 else 0) + (if i ∈ xs then 1 else 0)) := by
      apply sumTo_congr; intro i _
      by_cases hix : i = x
      · subst hix; simp [hnd.1]
      · simp [hix]
    rw [h1, sumTo_add, sumTo_point n x (hlt x (by simp)),
      ih hnd.2 (fun i hi => hlt i (by simp [hi]))]
    simp only [List.length_cons, Int.natCast_succ]; omega

/-! ### quotients, remainders, leftover -/

def qF (a : Int) (ws : List Int) (i : Nat) : Int := a * ws.getD i 0 / sumL ws
def rF (a : Int) (ws : List Int) (i : Nat) : Int := a * ws.getD i 0 % sumL ws
/-- `leftToAllocate` -/
def leftover (a : Int) (ws : List Int) : Int := a - sumTo ws.length (qF a ws)

theorem isLRSplit_iff (a : Int) (ws parts : List Int) :
    IsLRSplit a ws parts ↔
      (parts.length = ws.length ∧
       (∀ i, i < ws.length → parts.getD i 0 - qF a ws i = 0 ∨ parts.getD i 0 - qF a ws i = 1) ∧
       sumTo ws.length (fun i => parts.getD i 0) = a ∧
       (∀ i, i < ws.length → ∀ j, j < ws.length → parts.getD i 0 - qF a ws i = 1 →
          parts.getD j 0 - qF a ws j = 0 → rF a ws j ≤ rF a ws i)) := Iff.rfl

theorem qr_identity (a : Int) (ws : List Int) (i : Nat) :
    qF a ws i * sumL ws + rF a ws i = a * ws.getD i 0 := by
  unfold qF rF; exact Int.ediv_mul_add_emod _ _

/-- `Σ qᵢ · W + Σ rᵢ = a · W` -/
theorem split_identity (a : Int) (ws : List Int) :
    sumTo ws.length (qF a ws) * sumL ws + sumTo ws.length (rF a ws) = a * sumL ws := by
  have h1 : sumTo ws.length (fun i => qF a ws i * sumL ws + rF a ws i)
      = sumTo ws.length (fun i => a * ws.getD i 0) :=
    sumTo_congr _ _ _ (fun i _ => qr_identity a ws i)
  rw [sumTo_add, sumTo_mul_right, sumTo_mul_left, ← sumL_eq_sumTo] at h1
  exact h1

/-- `leftover · W = Σ rᵢ` -/
theorem leftover_mul (a : Int) (ws : List Int) :
    leftover a ws * sumL ws = sumTo ws.length (rF a ws) := by
  have := split_identity a ws
  unfold leftover; rw [Int.sub_mul]; omega

theorem rF_bounds (a : Int) (ws : List Int) (hW : 0 < sumL ws) (i : Nat) :
    0 ≤ rF a ws i ∧ rF a ws i < sumL ws := by
  unfold rF
  exact ⟨Int.emod_nonneg _ (by omega), Int.emod_lt_of_pos _ hW⟩

theorem leftover_bounds (a : Int) (ws : List Int) (hW : 0 < sumL ws) :
    0 ≤ leftover a ws ∧ leftover a ws ≤ ws.length ∧ (0 < ws.length → leftover a ws < ws.length) := by
  have hm := leftover_mul a ws
  have h0 : 0 ≤ sumTo ws.length (rF a ws) := sumTo_nonneg _ _ (fun i _ => (rF_bounds a ws hW i).1)
  have h1 : sumTo ws.length (rF a ws) ≤ sumTo ws.length (fun _ => sumL ws - 1) :=
    sumTo_le _ _ _ (fun i _ => by have := (rF_bounds a ws hW i).2; omega)
  rw [sumTo_const, Int.mul_sub, Int.mul_one] at h1
  refine ⟨?_, ?_, ?_⟩
  · -- L < 0 → L·W ≤ −W < 0
    apply Decidable.byContradiction; intro hneg
    have : leftover a ws * sumL ws ≤ (-1) * sumL ws :=
      Int.mul_le_mul_of_nonneg_right (by omega) (by omega)
    omega
  · apply Decidable.byContradiction; intro hgt
    have : ((ws.length : Int) + 1) * sumL ws ≤ leftover a ws * sumL ws :=
      Int.mul_le_mul_of_nonneg_right (by omega) (by omega)
    rw [Int.add_mul, Int.one_mul] at this
    have hn : 0 ≤ (ws.length : Int) := Int.natCast_nonneg _
    omega
  · intro hpos
    apply Decidable.byContradiction; intro hge
    have : (ws.length : Int) * sumL ws ≤ leftover a ws * sumL ws :=
      Int.mul_le_mul_of_nonneg_right (by omega) (by omega)
    have hn : 0 < (ws.length : Int) := by omega
    omega

/-! ### consequences of the predicate (what is certified for every Go output that passes it) -/

section pred
variable (a : Int) (ws parts : List Int)

theorem lr_extras_sum (h : IsLRSplit a ws parts) :
    sumTo ws.length (fun i => parts.getD i 0 - qF a ws i) = leftover a ws := by
  obtain ⟨_, _, hs, _⟩ := (isLRSplit_iff a ws parts).mp h
  rw [sumTo_sub, hs]; rfl

/-- a bucket that got the extra unit has a positive remainder -/
theorem lr_extra_pos_rem (hW : 0 < sumL ws) (h : IsLRSplit a ws parts) (i : Nat) (hi : i < ws.length)
    (he : parts.getD i 0 - qF a ws i = 1) : 0 < rF a ws i := by
  obtain ⟨_, h01, hs, hlr⟩ := (isLRSplit_iff a ws parts).mp h
  apply Decidable.byContradiction; intro hnp
  have hri : rF a ws i = 0 := by have := (rF_bounds a ws hW i).1; omega
  let e := fun j => parts.getD j 0 - qF a ws j
  -- Σ r = Σ e·r
  have s1 : sumTo ws.length (rF a ws) = sumTo ws.length (fun j => e j * rF a ws j) := by
    apply sumTo_congr; intro j hj
    rcases h01 j hj with h0 | h1
    · have := hlr i hi j hj he h0
      have := (rF_bounds a ws hW j).1
      have hz : rF a ws j = 0 := by omega
      show rF a ws j = (parts.getD j 0 - qF a ws j) * rF a ws j
      rw [hz]; simp
    · show rF a ws j = (parts.getD j 0 - qF a ws j) * rF a ws j
      rw [h1]; simp
  -- Σ e·r ≤ Σ (e·W − e)
  have s2 : sumTo ws.length (fun j => e j * rF a ws j) ≤ sumTo ws.length (fun j => e j * sumL ws - e j) := by
    apply sumTo_le; intro j hj
    show (parts.getD j 0 - qF a ws j) * rF a ws j ≤ (parts.getD j 0 - qF a ws j) * sumL ws - (parts.getD j 0 - qF a ws j)
    rcases h01 j hj with h0 | h1
    · rw [h0]; simp
    · rw [h1]; have := (rF_bounds a ws hW j).2; simp; omega
  rw [sumTo_sub, sumTo_mul_right] at s2
  have hL : sumTo ws.length e = leftover a ws := lr_extras_sum a ws parts h
  have hm := leftover_mul a ws
  have hge : e i ≤ sumTo ws.length e :=
    sumTo_ge_term _ e (fun j hj => by
      show 0 ≤ parts.getD j 0 - qF a ws j
      rcases h01 j hj with h0 | h1 <;> omega) i hi
  have hei : e i = 1 := he
  rw [hL] at s2 hge
  omega

theorem lr_part_eq (i : Nat) :
    parts.getD i 0 * sumL ws - a * ws.getD i 0
      = (parts.getD i 0 - qF a ws i) * sumL ws - rF a ws i := by
  have := qr_identity a ws i
  rw [Int.sub_mul]; omega

/-- each part is within one unit of the exact pro-rata share `a·wᵢ/W` (strictly) -/
theorem lr_within_one (hW : 0 < sumL ws) (h : IsLRSplit a ws parts) (i : Nat) (hi : i < ws.length) :
    -(sumL ws) < parts.getD i 0 * sumL ws - a * ws.getD i 0 ∧
    parts.getD i 0 * sumL ws - a * ws.getD i 0 < sumL ws := by
  obtain ⟨_, h01, _, _⟩ := (isLRSplit_iff a ws parts).mp h
  rw [lr_part_eq]
  have hb := rF_bounds a ws hW i
  rcases h01 i hi with h0 | h1
  · rw [h0]; simp; omega
  · have := lr_extra_pos_rem a ws parts hW h i hi h1
    rw [h1]; simp; omega

/-- a zero weight gets nothing -/
theorem lr_zero_weight (hW : 0 < sumL ws) (h : IsLRSplit a ws parts) (i : Nat) (hi : i < ws.length)
    (hw : ws.getD i 0 = 0) : parts.getD i 0 = 0 := by
  obtain ⟨_, h01, _, _⟩ := (isLRSplit_iff a ws parts).mp h
  have hq : qF a ws i = 0 := by unfold qF; rw [hw]; simp
  have hr : rF a ws i = 0 := by unfold rF; rw [hw]; simp
  rcases h01 i hi with h0 | h1
  · omega
  · have := lr_extra_pos_rem a ws parts hW h i hi h1
    omega

/-- every part is non-negative (for a non-negative amount and non-negative weights) -/
theorem lr_part_nonneg (ha : 0 ≤ a) (hws : ∀ i, i < ws.length → 0 ≤ ws.getD i 0) (hW : 0 < sumL ws)
    (h : IsLRSplit a ws parts) (i : Nat) (hi : i < ws.length) : 0 ≤ parts.getD i 0 := by
  obtain ⟨_, h01, _, _⟩ := (isLRSplit_iff a ws parts).mp h
  have hq : 0 ≤ qF a ws i := by
    unfold qF
    exact Int.ediv_nonneg (Int.mul_nonneg ha (hws i hi)) (by omega)
  rcases h01 i hi with h0 | h1 <;> omega

end pred

/-! ### the algorithm satisfies the predicate, for every admissible order -/

theorem insDesc_perm (rf : Nat → Int) (x : Nat) (l : List Nat) : (insDesc rf x l).Perm (x :: l) := by
  induction l with
  | nil => exact List.Perm.refl _
  | cons y ys ih =>
    unfold insDesc
    split
    · exact (List.Perm.cons y ih).trans (List.Perm.swap x y ys)
    · exact List.Perm.refl _

theorem sortIdx_perm (rf : Nat → Int) (l : List Nat) : (sortIdx rf l).Perm l := by
  induction l with
  | nil => exact List.Perm.refl _
  | cons x xs ih => exact (insDesc_perm rf x _).trans (List.Perm.cons x ih)

theorem insDesc_pairwise (rf : Nat → Int) (x : Nat) (l : List Nat)
    (h : l.Pairwise (fun i j => rf j ≤ rf i)) : (insDesc rf x l).Pairwise (fun i j => rf j ≤ rf i) := by
  induction l with
  | nil => simp [insDesc]
  | cons y ys ih =>
    have hp := List.pairwise_cons.mp h
    unfold insDesc
    split
    · rename_i hgt
      refine List.pairwise_cons.mpr ⟨?_, ih hp.2⟩
      intro z hz
      have := (insDesc_perm rf x ys).mem_iff.mp hz
      rcases List.mem_cons.mp this with rfl | hz'
      · omega
      · exact hp.1 z hz'
    · rename_i hle
      refine List.pairwise_cons.mpr ⟨?_, h⟩
      intro z hz
      rcases List.mem_cons.mp hz with rfl | hz'
      · omega
      · have := hp.1 z hz'; omega

theorem sortIdx_pairwise (rf : Nat → Int) (l : List Nat) :
    (sortIdx rf l).Pairwise (fun i j => rf j ≤ rf i) := by
  induction l with
  | nil => simp [sortIdx]
  | cons x xs ih => exact insDesc_pairwise rf x _ ih

theorem allocIdx_zero (σ : List Nat) : allocIdx 0 σ = [] := by
  induction σ with
  | nil => rfl
  | cons x xs ih => simp [allocIdx, ih]

theorem allocIdx_mem (L : Int) (σ : List Nat) : ∀ i, i ∈ allocIdx L σ → i ∈ σ := by
  induction σ generalizing L with
  | nil => intro i hi; simp [allocIdx] at hi
  | cons x xs ih =>
    intro i hi
    unfold allocIdx at hi
    split at hi
    · rcases List.mem_cons.mp hi with rfl | h
      · simp
      · exact List.mem_cons_of_mem _ (ih _ i h)
    · exact List.mem_cons_of_mem _ (ih _ i hi)

theorem allocIdx_nodup (L : Int) (σ : List Nat) (h : σ.Nodup) : (allocIdx L σ).Nodup := by
  induction σ generalizing L with
  | nil => simp [allocIdx]
  | cons x xs ih =>
    have hn := List.nodup_cons.mp h
    unfold allocIdx
    split
    · exact List.nodup_cons.mpr ⟨fun hx => hn.1 (allocIdx_mem _ _ x hx), ih _ hn.2⟩
    · exact ih _ hn.2

theorem allocIdx_length (L : Int) (σ : List Nat) (h0 : 0 ≤ L) (h1 : L ≤ σ.length) :
    ((allocIdx L σ).length : Int) = L := by
  induction σ generalizing L with
  | nil => simp at h1; simp [allocIdx]; omega
  | cons x xs ih =>
    unfold allocIdx
    split
    · rename_i hne
      simp only [List.length_cons, Int.natCast_succ] at h1 ⊢
      have := ih (L - 1) (by omega) (by omega)
      omega
    · rename_i he
      have : L = 0 := by omega
      subst this
      rw [allocIdx_zero]; rfl

/-- every bucket that gets the extra unit comes, in the order `σ`, before every bucket that does not -/
theorem allocIdx_lr (R : Nat → Nat → Prop) (L : Int) (σ : List Nat) (hp : σ.Pairwise R) :
    ∀ i, i ∈ allocIdx L σ → ∀ j, j ∈ σ → j ∉ allocIdx L σ → R i j := by
  induction σ generalizing L with
  | nil => intro i hi; simp [allocIdx] at hi
  | cons x xs ih =>
    have hc := List.pairwise_cons.mp hp
    intro i hi j hj hnj
    unfold allocIdx at hi hnj
    split at hi
    · rename_i hne
      simp only [hne, ite_true, List.mem_cons, not_or, ne_eq, not_false_eq_true] at hnj
      have hjx : j ∈ xs := by
        rcases List.mem_cons.mp hj with rfl | h
        · exact absurd rfl hnj.1
        · exact h
      rcases List.mem_cons.mp hi with rfl | hi'
      · exact hc.1 j hjx
      · exact ih (L - 1) hc.2 i hi' j hjx hnj.2
    · rename_i he
      have : L = 0 := by omega
      subst this
      rw [allocIdx_zero] at hi; simp at hi

theorem partsOf_length (n : Nat) (q : Nat → Int) (E : List Nat) : (partsOf n q E).length = n := by
  simp [partsOf]

theorem partsOf_getD (n : Nat) (q : Nat → Int) (E : List Nat) (i : Nat) (hi : i < n) :
    (partsOf n q E).getD i 0 = q i + (if i ∈ E then 1 else 0) := by
  simp [partsOf, List.getD_eq_getElem?_getD, List.getElem?_map, List.getElem?_range', hi]

/-- an order the apportioning loop may see: all buckets once, non-increasing remainder -/
def Admissible (a : Int) (ws : List Int) (σ : List Nat) : Prop :=
  σ.Perm (List.range' 0 ws.length) ∧ σ.Pairwise (fun i j => rF a ws j ≤ rF a ws i)

theorem splitWith_eq (σ : List Nat) (a : Int) (ws : List Int) :
    splitWith σ a ws = partsOf ws.length (qF a ws) (allocIdx (leftover a ws) σ) := rfl

/-- The transcription of the Go algorithm satisfies `IsLRSplit` whatever admissible order the
    (unstable) sort produced. -/
theorem splitWith_isLRSplit (σ : List Nat) (a : Int) (ws : List Int) (hW : 0 < sumL ws)
    (hσ : Admissible a ws σ) : IsLRSplit a ws (splitWith σ a ws) := by
  obtain ⟨hperm, hpw⟩ := hσ
  have hmem : ∀ i, i ∈ σ ↔ i < ws.length := by
    intro i; rw [hperm.mem_iff, List.mem_range'_1]; omega
  have hnd : σ.Nodup := hperm.nodup_iff.mpr List.nodup_range'
  have hlen : σ.length = ws.length := by rw [hperm.length_eq]; simp
  obtain ⟨hL0, hL1, _⟩ := leftover_bounds a ws hW
  let E := allocIdx (leftover a ws) σ
  have hEn : E.Nodup := allocIdx_nodup _ _ hnd
  have hElt : ∀ i, i ∈ E → i < ws.length := fun i hi => (hmem i).mp (allocIdx_mem _ _ i hi)
  have hElen : (E.length : Int) = leftover a ws := allocIdx_length _ _ hL0 (by rw [hlen]; exact hL1)
  rw [isLRSplit_iff, splitWith_eq]
  have hget : ∀ i, i < ws.length →
      (partsOf ws.length (qF a ws) E).getD i 0 - qF a ws i = if i ∈ E then 1 else 0 := by
    intro i hi; rw [partsOf_getD _ _ _ i hi]; omega
  refine ⟨partsOf_length _ _ _, ?_, ?_, ?_⟩
  · intro i hi; rw [hget i hi]; by_cases h : i ∈ E <;> simp [h]
  · rw [sumTo_congr _ _ (fun i => qF a ws i + (if i ∈ E then 1 else 0))
        (fun i hi => partsOf_getD _ _ _ i hi), sumTo_add, sumTo_indicator _ E hEn hElt, hElen]
    unfold leftover; omega
  · intro i hi j hj hei hej
    rw [hget i hi] at hei; rw [hget j hj] at hej
    have hiE : i ∈ E := by by_cases h : i ∈ E; exact h; simp [h] at hei
    have hjE : j ∉ E := by intro h; simp [h] at hej
    exact allocIdx_lr (fun i j => rF a ws j ≤ rF a ws i) _ σ hpw i hiE j ((hmem j).mpr hj) hjE

theorem sortIdx_admissible (a : Int) (ws : List Int) :
    Admissible a ws (sortIdx (fun i => a * ws.getD i 0 % sumL ws) (List.range' 0 ws.length)) :=
  ⟨sortIdx_perm _ _, sortIdx_pairwise _ _⟩

theorem any_neg_false (ws : List Int) (h : ws.any (· < 0) = false) :
    ∀ i, i < ws.length → 0 ≤ ws.getD i 0 := by
  intro i hi
  have hm : ws.getD i 0 ∈ ws := by
    rw [List.getD_eq_getElem?_getD, List.getElem?_eq_getElem hi]; simp
  have := List.any_eq_false.mp h _ hm
  simpa using this

/-- what a successful `lrSplit` says about its input and output -/
theorem lrSplit_some (a : Int) (ws parts : List Int) (h : lrSplit a ws = some parts) :
    SplitInput a ws ∧ IsLRSplit a ws parts := by
  unfold lrSplit at h
  split at h; · cases h
  split at h; · cases h
  split at h; · cases h
  split at h; · cases h
  split at h; · cases h
  split at h; · cases h
  rename_i ha _ hneg _ hW _
  have hW' : 0 < sumL ws := by simpa using hW
  cases h
  refine ⟨⟨by omega, any_neg_false ws (by simpa using hneg), hW'⟩, ?_⟩
  exact splitWith_isLRSplit _ a ws hW' (sortIdx_admissible a ws)

end KV.Auc
