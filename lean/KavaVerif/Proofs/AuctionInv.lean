/-
  Helper lemmas for C06, part 4: every operation of the keeper preserves the invariant
  (well-formed store ∧ custody ∧ exact index). Core Lean only.
-/
import KavaVerif.Proofs.AuctionKeeper
set_option linter.unusedSimpArgs false
set_option linter.unusedVariables false

namespace KV.Auc

theorem modCoins_surplus (a : Auction) (d : Denom) (h : a.kind = .surplus) :
    modCoins a d = ind (a.lotD = d) a.lot := by unfold modCoins ind; rw [h]
theorem modCoins_debt (a : Auction) (d : Denom) (h : a.kind = .debt) :
    modCoins a d = ind (a.debtD = d) a.debt := by unfold modCoins ind; rw [h]
theorem modCoins_collateral (a : Auction) (d : Denom) (h : a.kind = .collateral) :
    modCoins a d = ind (a.lotD = d) a.lot + ind (a.debtD = d) a.debt := by unfold modCoins ind; rw [h]

theorem ind_self_and (M : Addr) (e d : Denom) (n : Int) : ind (M = M ∧ e = d) n = ind (d = e) n := by
  unfold ind; by_cases h : e = d
  · subst h; simp
  · have : ¬ d = e := fun h' => h h'.symm
    simp [h, this]

theorem ind_sub (c : Prop) [Decidable c] (x y : Int) : ind c (x - y) = ind c x - ind c y := by
  unfold ind; split <;> omega

theorem ind_flip (e d : Denom) (n : Int) : ind (e = d) n = ind (d = e) n := by
  unfold ind; by_cases h : e = d
  · subst h; simp
  · have : ¬ d = e := fun h' => h h'.symm
    simp [h, this]

/-- a blocked address receives nothing in the payout loop -/
theorem payAll_credit_blocked (env : Env) (d : Denom) (b b' : Bal) (xs : List Addr) (ns : List Int)
    (h : payAll env d b xs ns = some b') (z : Addr) (hz : env.blocked z = true) : credit z xs ns = 0 := by
  induction xs generalizing b ns with
  | nil => simp [credit]
  | cons x xs ih =>
    cases ns with
    | nil => simp [credit]
    | cons n ns =>
      unfold payAll at h
      by_cases hpos : 0 < n
      · simp only [hpos, ite_true] at h
        cases h1 : sendM2A env b env.M x d n with
        | none => simp only [h1] at h; cases h
        | some b1 =>
          simp only [h1] at h
          obtain ⟨hbx, _⟩ := sendM2A_eff env b b1 env.M x d n h1
          have hxz : ¬ (x = z) := by intro hx; rw [hx, hz] at hbx; cases hbx
          simp only [credit, hxz, and_false, ite_false, ih b1 ns h]; rfl
      · simp only [hpos, ite_false] at h
        simp only [credit, hpos, false_and, ite_false, ih b ns h]; rfl

theorem mem_of_getD_nonneg (ns : List Int) (h : ∀ i, i < ns.length → 0 ≤ ns.getD i 0) :
    ∀ n, n ∈ ns → 0 ≤ n := by
  intro n hn
  obtain ⟨i, hi, rfl⟩ := List.mem_iff_getElem.mp hn
  have := h i hi
  rw [List.getD_eq_getElem?_getD, List.getElem?_eq_getElem hi] at this
  simpa using this

theorem weightsValid_len (addrs : List Addr) (ws : List Int) (h : weightsValid addrs ws = true) :
    addrs.length = ws.length := by
  unfold weightsValid at h
  simp only [Bool.and_eq_true, decide_eq_true_eq] at h
  exact h.1.1.2

/-- what leaves the module in a reverse bid is exactly `lot − lot′` -/
theorem paid_split (env : Env) (a : Auction) (amt : Int) (parts : List Int)
    (hw : weightsValid a.retAddrs a.retW = true)
    (hsp : lrSplit (a.lot - amt) a.retW = some parts) : paid a.retAddrs parts = a.lot - amt := by
  obtain ⟨⟨ha, hws, hW⟩, hlr⟩ := lrSplit_some _ _ _ hsp
  have hlr' := (isLRSplit_iff _ _ _).mp hlr
  have hlen : a.retAddrs.length = parts.length := by rw [weightsValid_len _ _ hw, hlr'.1]
  have hnn : ∀ n, n ∈ parts → 0 ≤ n := by
    apply mem_of_getD_nonneg
    intro i hi
    exact lr_part_nonneg _ _ _ ha hws hW hlr i (by rw [← hlr'.1]; exact hi)
  rw [paid_eq_sum _ _ hlen hnn, sumL_eq_sumTo, hlr'.1]
  exact hlr'.2.2.1

theorem ind_true_and (e d : Denom) (n : Int) : ind (True ∧ e = d) n = ind (d = e) n := by
  unfold ind; by_cases h : e = d
  · subst h; simp
  · have : ¬ d = e := fun h' => h h'.symm
    simp [h, this]

theorem ind_left_false {p q : Prop} [Decidable p] [Decidable q] (h : ¬ p) (n : Int) : ind (p ∧ q) n = 0 :=
  ind_neg _ (fun hh => h hh.1)

/-! ### a bid preserves well-formedness and moves exactly the coins the record accounts for -/

theorem bidDispatch_inv (env : Env) (hE : EnvOk env) (p : Params) (now : Int) (b b' : Bal) (a a' : Auction)
    (bidder : Addr) (denom : Denom) (amt : Int) (hA : AWF env a) (hbM : bidder ≠ env.M)
    (h : bidDispatch env p now b a bidder denom amt = .ok b' a') :
    a'.id = a.id ∧ AWF env a' ∧ (∀ d, b' env.M d = b env.M d + modCoins a' d - modCoins a d) := by
  obtain ⟨hlot, hbid, hdebt, hend, hini, hcol⟩ := hA
  have hMb : ¬ (env.M = bidder) := fun h => hbM h.symm
  have hMi : ¬ (env.M = a.initiator) := fun h => hini h.symm
  have unblockedNeM : env.blocked a.bidder = false → ¬ (env.M = a.bidder) := by
    intro hob hx; rw [← hx, hE] at hob; cases hob
  unfold bidDispatch at h
  cases hk : a.kind with
  | surplus =>
    simp only [hk] at h
    obtain ⟨_, hmin, rfl, hblk, hflow⟩ := bidSurplus_spec env p now b b' a a' bidder denom amt h
    have hinc := incOf_pos a.bid p.incS
    unfold minBidSurplus at hmin
    refine ⟨rfl, ⟨hlot, by show 0 ≤ amt; omega, hdebt, touch_end_le _ _ _ _, hini, ?_⟩, ?_⟩
    · intro hc
      have : (touch p now p.fwdDur { a with bidder := bidder, bid := amt }).kind = a.kind := rfl
      rw [this, hk] at hc; cases hc
    · intro d
      have hf := hflow env.M d
      simp only [ind_left_false hMb] at hf
      have hk' : ({ a with bidder := bidder, bid := amt } : Auction).kind = .surplus := hk
      rw [touch_modCoins, modCoins_surplus _ _ hk', modCoins_surplus _ _ hk]
      dsimp only
      by_cases hR : bidder ≠ a.bidder ∧ a.bid ≠ 0
      · have hMo := unblockedNeM (hblk hR)
        simp only [ind_left_false hMo] at hf; omega
      · simp only [hR, ite_false, ind_zero] at hf; omega
  | debt =>
    simp only [hk] at h
    obtain ⟨_, hmax, hnn, rfl, hblk, hflow⟩ := bidDebt_spec env p now b b' a a' bidder denom amt h
    have hret : 0 ≤ debtReturn a ∧ debtReturn a ≤ a.debt := by
      unfold debtReturn; split <;> (try split) <;> omega
    refine ⟨rfl, ⟨hnn, hbid, by show 0 ≤ a.debt - debtReturn a; omega, touch_end_le _ _ _ _, hini, ?_⟩, ?_⟩
    · intro hc
      have : (touch p now p.fwdDur { a with debt := a.debt - debtReturn a, bidder := bidder, lot := amt }).kind
            = a.kind := rfl
      rw [this, hk] at hc; cases hc
    · intro d
      have hf := hflow env.M d
      simp only [ind_left_false hMb, ind_left_false hMi, ind_self_and, ind_true_and] at hf
      have hk' : ({ a with debt := a.debt - debtReturn a, bidder := bidder, lot := amt } : Auction).kind = .debt := hk
      rw [touch_modCoins, modCoins_debt _ _ hk', modCoins_debt _ _ hk]
      dsimp only
      rw [ind_sub]
      by_cases hc : bidder ≠ a.bidder
      · by_cases hi : a.bidder = a.initiator
        · have hMo : ¬ (env.M = a.bidder) := fun hx => hMi (hx.trans hi)
          simp only [ind_left_false hMo] at hf; omega
        · have hMo := unblockedNeM (hblk hc hi)
          simp only [ind_left_false hMo] at hf; omega
      · simp only [hc, ite_false, ind_zero] at hf; omega
  | collateral =>
    simp only [hk] at h
    obtain ⟨hle, hwv⟩ := hcol hk
    by_cases hph : a.bid = a.maxBid
    · -- reverse phase
      rw [if_neg (fun hn : a.bid ≠ a.maxBid => hn hph)] at h
      obtain ⟨_, _, hmax, hnn, rfl, hblk, parts, hsp, ⟨b1, hpay⟩, hflow⟩ :=
        bidCollateralRev_spec env hE p now b b' a a' bidder denom amt h
      refine ⟨rfl, ⟨hnn, hbid, hdebt, touch_end_le _ _ _ _, hini, fun _ => ⟨hle, hwv⟩⟩, ?_⟩
      intro d
      have hf := hflow env.M d
      have hcr := payAll_credit_blocked env a.lotD b1 b' _ _ hpay env.M hE
      have hpd := paid_split env a amt parts hwv hsp
      simp only [ind_left_false hMb, ind_self_and, ind_true_and, hcr, ind_zero, hpd] at hf
      have hk' : ({ a with bidder := bidder, lot := amt } : Auction).kind = .collateral := hk
      rw [touch_modCoins, modCoins_collateral _ _ hk', modCoins_collateral _ _ hk]
      dsimp only
      rw [ind_sub] at hf
      by_cases hc : bidder ≠ a.bidder
      · have hMo := unblockedNeM (hblk hc)
        simp only [ind_left_false hMo] at hf; omega
      · simp only [hc, ite_false, ind_zero] at hf; omega
    · -- forward phase
      rw [if_pos (show a.bid ≠ a.maxBid from hph)] at h
      obtain ⟨_, _, hmin, hmaxb, rfl, hblk, hflow⟩ :=
        bidCollateralFwd_spec env p now b b' a a' bidder denom amt h
      have hinc := incOf_pos a.bid p.incC
      have hamt : a.bid < amt := by
        unfold minBidCollateral at hmin; simp only at hmin; split at hmin <;> omega
      have hret : 0 ≤ fwdDebtReturn a amt ∧ fwdDebtReturn a amt ≤ a.debt := by
        unfold fwdDebtReturn
        split <;> (try split) <;> omega
      refine ⟨rfl, ⟨hlot, by show 0 ≤ amt; omega, by show 0 ≤ a.debt - fwdDebtReturn a amt; omega,
        touch_end_le _ _ _ _, hini, fun _ => ⟨hmaxb, hwv⟩⟩, ?_⟩
      intro d
      have hf := hflow env.M d
      simp only [ind_left_false hMb, ind_left_false hMi, ind_self_and, ind_true_and] at hf
      have hk' : ({ a with debt := a.debt - fwdDebtReturn a amt, bidder := bidder, bid := amt } : Auction).kind
          = .collateral := hk
      rw [touch_modCoins, modCoins_collateral _ _ hk', modCoins_collateral _ _ hk]
      dsimp only
      rw [ind_sub]
      by_cases hR : bidder ≠ a.bidder ∧ a.bid ≠ 0
      · have hMo := unblockedNeM (hblk hR)
        simp only [ind_left_false hMo] at hf; omega
      · simp only [hR, ite_false, ind_zero] at hf; omega

/-! ### the operations preserve the invariant -/

theorem placeBid_inv (env : Env) (hE : EnvOk env) (p : Params) (now : Int) (s s' : St) (id : Nat)
    (bidder : Addr) (denom : Denom) (amt : Int) (hI : Inv env s) (hbM : bidder ≠ env.M)
    (h : placeBid env p now s id bidder denom amt = .ok s') : Inv env s' := by
  obtain ⟨hwf, hcu, hix⟩ := hI
  unfold placeBid at h
  cases hex : s.auc id with
  | none => simp only [hex] at h; cases h
  | some a =>
    simp only [hex] at h
    by_cases hexp : now > a.endT
    · simp only [hexp, ite_true] at h; cases h
    simp only [hexp, ite_false] at h
    cases hb : bidDispatch env p now s.bal a bidder denom amt with
    | err => simp only [hb] at h; cases h
    | panic => simp only [hb] at h; cases h
    | ok b a' =>
      simp only [hb] at h
      cases h
      obtain ⟨haid, hlt, hawf⟩ := hwf id a hex
      obtain ⟨hid', hawf', hdelta⟩ := bidDispatch_inv env hE p now s.bal b a a' bidder denom amt hawf hbM hb
      have hkey : a'.id = id := hid'.trans haid
      refine ⟨?_, ?_, ?_⟩
      · intro i x hx
        rw [setAuction_auc] at hx
        unfold updA at hx
        by_cases hi : i = a'.id
        · simp only [hi, ite_true] at hx
          cases hx
          exact ⟨hi.symm, by rw [hi, hkey]; exact hlt, hawf'⟩
        · simp only [hi, ite_false] at hx
          exact hwf i x hx
      · intro d
        rw [setAuction_bal, totalCoins_set _ _ (by rw [hkey]; exact hlt)]
        show b env.M d = totalCoins s d - modCoinsO (s.auc a'.id) d + modCoins a' d
        rw [hkey, hex, hdelta d, hcu d]
        simp only [modCoinsO]; omega
      · apply setAuction_index
        · intro ex hx
          have hx' : s.auc a'.id = some ex := hx
          rw [hkey] at hx'
          rw [hkey]; exact (hwf id ex hx').1
        · exact hix

theorem newAuction_inv (env : Env) (s : St) (b : Bal) (a : Auction) (hI : Inv env s) (ha : AWF env a)
    (hb : ∀ d, b env.M d = s.bal env.M d + modCoins a d) : Inv env (storeNew { s with bal := b } a) := by
  obtain ⟨hwf, hcu, hix⟩ := hI
  have hwf1 : WF env { s with bal := b } := hwf
  have hix1 : IndexExact { s with bal := b } := hix
  obtain ⟨h1, h2, h3, h4⟩ := storeNew_inv env { s with bal := b } a hwf1 hix1 ha
  refine ⟨h1, ?_, h2⟩
  intro d
  rw [h4, h3 d]
  show b env.M d = totalCoins s d + modCoins a d
  rw [hb d, hcu d]

theorem startSurplus_inv (env : Env) (s s' : St) (seller : Addr) (lotD : Denom) (lot : Int) (bidD : Denom)
    (hI : Inv env s) (hs : seller ≠ env.M)
    (h : startSurplus env s seller lotD lot bidD = .ok s') : Inv env s' := by
  unfold startSurplus at h
  by_cases hl : lot < 0
  · simp only [hl, ite_true] at h; cases h
  simp only [hl, ite_false] at h
  cases h1 : send s.bal seller env.M lotD lot with
  | none => simp only [h1] at h; cases h
  | some b =>
    simp only [h1] at h; cases h
    apply newAuction_inv env s b _ hI
    · exact ⟨by show 0 ≤ lot; omega, Int.le_refl _, Int.le_refl _, Int.le_refl _, hs, fun hc => by cases hc⟩
    · intro d
      have := send_eff s.bal b seller env.M lotD lot h1 env.M d
      have hMs : ¬ (env.M = seller) := fun h => hs h.symm
      simp only [ind_left_false hMs, ind_self_and, ind_true_and] at this
      rw [modCoins_surplus _ _ rfl]
      show b env.M d = s.bal env.M d + ind (lotD = d) lot
      omega

theorem startDebt_inv (env : Env) (s s' : St) (buyer : Addr) (bidD : Denom) (bid : Int) (lotD : Denom)
    (lot : Int) (debtD : Denom) (debt : Int) (hI : Inv env s) (hs : buyer ≠ env.M) (hbid : 0 ≤ bid)
    (hlot : 0 ≤ lot) (h : startDebt env s buyer bidD bid lotD lot debtD debt = .ok s') : Inv env s' := by
  unfold startDebt at h
  by_cases hm : env.minter buyer = true
  case neg => simp only [hm, not_false_eq_true, ite_true] at h; cases h
  simp only [hm, not_true_eq_false, ite_false] at h
  by_cases hl : debt < 0
  · simp only [hl, ite_true] at h; cases h
  simp only [hl, ite_false] at h
  cases h1 : send s.bal buyer env.M debtD debt with
  | none => simp only [h1] at h; cases h
  | some b =>
    simp only [h1] at h; cases h
    apply newAuction_inv env s b _ hI
    · exact ⟨hlot, hbid, by show 0 ≤ debt; omega, Int.le_refl _, hs, fun hc => by cases hc⟩
    · intro d
      have := send_eff s.bal b buyer env.M debtD debt h1 env.M d
      have hMs : ¬ (env.M = buyer) := fun h => hs h.symm
      simp only [ind_left_false hMs, ind_self_and, ind_true_and] at this
      rw [modCoins_debt _ _ rfl]
      show b env.M d = s.bal env.M d + ind (debtD = d) debt
      omega

theorem startCollateral_inv (env : Env) (s s' : St) (seller : Addr) (lotD : Denom) (lot : Int) (bidD : Denom)
    (maxBid : Int) (addrs : List Addr) (ws : List Int) (debtD : Denom) (debt : Int)
    (hI : Inv env s) (hs : seller ≠ env.M) (hmb : 0 ≤ maxBid)
    (h : startCollateral env s seller lotD lot bidD maxBid addrs ws debtD debt = .ok s') : Inv env s' := by
  unfold startCollateral at h
  by_cases hw : weightsValid addrs ws = true
  case neg => simp only [hw, not_false_eq_true, ite_true] at h; cases h
  simp only [hw, not_true_eq_false, ite_false] at h
  by_cases hl : lot < 0
  · simp only [hl, ite_true] at h; cases h
  simp only [hl, ite_false] at h
  cases h1 : send s.bal seller env.M lotD lot with
  | none => simp only [h1] at h; cases h
  | some b1 =>
    simp only [h1] at h
    by_cases hd : debt < 0
    · simp only [hd, ite_true] at h; cases h
    simp only [hd, ite_false] at h
    cases h2 : send b1 seller env.M debtD debt with
    | none => simp only [h2] at h; cases h
    | some b2 =>
      simp only [h2] at h; cases h
      apply newAuction_inv env s b2 _ hI
      · exact ⟨by show 0 ≤ lot; omega, Int.le_refl _, by show 0 ≤ debt; omega, Int.le_refl _, hs,
          fun _ => ⟨hmb, hw⟩⟩
      · intro d
        have e1 := send_eff s.bal b1 seller env.M lotD lot h1 env.M d
        have e2 := send_eff b1 b2 seller env.M debtD debt h2 env.M d
        have hMs : ¬ (env.M = seller) := fun h => hs h.symm
        simp only [ind_left_false hMs, ind_self_and, ind_true_and] at e1 e2
        rw [modCoins_collateral _ _ rfl]
        show b2 env.M d = s.bal env.M d + (ind (lotD = d) lot + ind (debtD = d) debt)
        omega

/-- complete coin flow of the three `Payout…Auction` functions -/
theorem payout_spec (env : Env) (b b' : Bal) (a : Auction) (hd : 0 ≤ a.debt)
    (h : payout env b a = some (some b')) :
    env.blocked a.bidder = false ∧ (a.kind = .debt → env.minter a.initiator = true) ∧
    ∀ z e, b' z e = b z e
      + ind (z = a.initiator ∧ e = a.lotD) (if a.kind = .debt then a.lot else 0)
      - ind (z = a.initiator ∧ e = a.lotD) (if a.kind = .debt then a.lot else 0)
      - ind (z = env.M ∧ e = a.lotD) (if a.kind = .debt then 0 else a.lot)
      + ind (z = a.bidder ∧ e = a.lotD) a.lot
      - ind (z = env.M ∧ e = a.debtD) (if a.kind = .surplus then 0 else a.debt)
      + ind (z = a.initiator ∧ e = a.debtD) (if a.kind = .surplus then 0 else a.debt) := by
  unfold payout at h
  cases hk : a.kind with
  | surplus =>
    simp only [hk] at h
    have h' : sendM2A env b env.M a.bidder a.lotD a.lot = some b' := by
      cases hh : sendM2A env b env.M a.bidder a.lotD a.lot with
      | none => rw [hh] at h; cases h
      | some x => rw [hh] at h; cases h; rfl
    obtain ⟨hb, e1⟩ := sendM2A_eff env b b' env.M a.bidder a.lotD a.lot h'
    refine ⟨hb, (fun hc => by cases hc), ?_⟩
    intro z e
    have := e1 z e
    simp only [ite_true, ite_false, ind_zero, reduceCtorEq]
    omega
  | debt =>
    simp only [hk] at h
    by_cases hm : env.minter a.initiator = true
    case neg => simp only [hm, not_false_eq_true, ite_true] at h; cases h
    simp only [hm, not_true_eq_false, ite_false] at h
    cases h1 : sendM2A env (mintTo b a.initiator a.lotD a.lot) a.initiator a.bidder a.lotD a.lot with
    | none => simp only [h1] at h; cases h
    | some b2 =>
      simp only [h1] at h
      obtain ⟨hb, e1⟩ := sendM2A_eff env _ b2 a.initiator a.bidder a.lotD a.lot h1
      refine ⟨hb, fun _ => hm, ?_⟩
      intro z e
      have := e1 z e
      have := mint_eff b a.initiator a.lotD a.lot z e
      by_cases hpos : 0 < a.debt
      · simp only [hpos, not_true_eq_false, ite_false] at h
        have h3 : send b2 env.M a.initiator a.debtD a.debt = some b' := by
          cases hh : send b2 env.M a.initiator a.debtD a.debt with
          | none => rw [hh] at h; cases h
          | some x => rw [hh] at h; cases h; rfl
        have := send_eff b2 b' env.M a.initiator a.debtD a.debt h3 z e
        simp only [ite_true, ite_false, ind_zero, reduceCtorEq]
        omega
      · simp only [hpos, not_false_eq_true, ite_true] at h
        cases h
        have : a.debt = 0 := by omega
        simp only [ite_true, ite_false, ind_zero, reduceCtorEq, this]
        omega
  | collateral =>
    simp only [hk] at h
    cases h1 : sendM2A env b env.M a.bidder a.lotD a.lot with
    | none => simp only [h1] at h; cases h
    | some b1 =>
      simp only [h1] at h
      obtain ⟨hb, e1⟩ := sendM2A_eff env b b1 env.M a.bidder a.lotD a.lot h1
      refine ⟨hb, (fun hc => by cases hc), ?_⟩
      intro z e
      have := e1 z e
      by_cases hpos : 0 < a.debt
      · simp only [hpos, not_true_eq_false, ite_false] at h
        have h3 : send b1 env.M a.initiator a.debtD a.debt = some b' := by
          cases hh : send b1 env.M a.initiator a.debtD a.debt with
          | none => rw [hh] at h; cases h
          | some x => rw [hh] at h; cases h; rfl
        have := send_eff b1 b' env.M a.initiator a.debtD a.debt h3 z e
        simp only [ite_true, ite_false, ind_zero, reduceCtorEq]
        omega
      · simp only [hpos, not_false_eq_true, ite_true] at h
        cases h
        have : a.debt = 0 := by omega
        simp only [ite_true, ite_false, ind_zero, reduceCtorEq, this]
        omega

theorem payout_custody (env : Env) (hE : EnvOk env) (b b' : Bal) (a : Auction) (hA : AWF env a)
    (h : payout env b a = some (some b')) (d : Denom) : b' env.M d = b env.M d - modCoins a d := by
  obtain ⟨_, _, hdebt, _, hini, _⟩ := hA
  obtain ⟨hb, _, hf⟩ := payout_spec env b b' a hdebt h
  have hMi : ¬ (env.M = a.initiator) := fun h => hini h.symm
  have hMo : ¬ (env.M = a.bidder) := by intro hx; rw [← hx, hE] at hb; cases hb
  have := hf env.M d
  simp only [ind_left_false hMi, ind_left_false hMo, ind_self_and, ind_true_and] at this
  cases hk : a.kind with
  | surplus =>
    rw [modCoins_surplus _ _ hk]; simp only [hk, ite_true, ite_false, ind_zero, reduceCtorEq] at this; omega
  | debt =>
    rw [modCoins_debt _ _ hk]; simp only [hk, ite_true, ite_false, ind_zero, reduceCtorEq] at this; omega
  | collateral =>
    rw [modCoins_collateral _ _ hk]; simp only [hk, ite_true, ite_false, ind_zero, reduceCtorEq] at this; omega

theorem closeAuction_inv (env : Env) (hE : EnvOk env) (now : Int) (s s' : St) (id : Nat) (hI : Inv env s)
    (h : closeAuction env now s id = .ok s') : Inv env s' := by
  obtain ⟨hwf, hcu, hix⟩ := hI
  unfold closeAuction at h
  cases hex : s.auc id with
  | none => simp only [hex] at h; cases h
  | some a =>
    simp only [hex] at h
    by_cases hexp : now < a.endT
    · simp only [hexp, ite_true] at h; cases h
    simp only [hexp, ite_false] at h
    cases hp : payout env s.bal a with
    | none => simp only [hp] at h; cases h
    | some r =>
      cases r with
      | none => simp only [hp] at h; cases h
      | some b =>
        simp only [hp] at h; cases h
        obtain ⟨haid, hlt, hawf⟩ := hwf id a hex
        refine ⟨?_, ?_, ?_⟩
        · intro i x hx
          rw [deleteAuction_auc] at hx
          unfold updA at hx
          by_cases hi : i = id
          · simp only [hi, ite_true] at hx; cases hx
          · simp only [hi, ite_false] at hx; exact hwf i x hx
        · intro d
          rw [deleteAuction_bal, totalCoins_delete { s with bal := b } id hlt]
          show b env.M d = totalCoins s d - modCoinsO (s.auc id) d
          rw [hex, payout_custody env hE s.bal b a hawf hp d, hcu d]
          rfl
        · exact deleteAuction_index _ _ hix

theorem closeAll_inv (env : Env) (hE : EnvOk env) (now : Int) (ids : List Nat) (s s' : St) (hI : Inv env s)
    (h : closeAll env now s ids = .ok s') : Inv env s' := by
  induction ids generalizing s with
  | nil => unfold closeAll at h; cases h; exact hI
  | cons id ids ih =>
    unfold closeAll at h
    cases hc : closeAuction env now s id with
    | ok s1 => simp only [hc] at h; exact ih s1 (closeAuction_inv env hE now s s1 id hI hc) h
    | notFound => simp only [hc] at h; exact ih s hI h
    | err => simp only [hc] at h; cases h
    | panic => simp only [hc] at h; cases h

theorem beginBlock_inv (env : Env) (hE : EnvOk env) (now : Int) (s s' : St) (hI : Inv env s)
    (h : beginBlock env now s = .ok s') : Inv env s' := by
  unfold beginBlock at h
  cases hc : closeAll env now s ((s.index.filter (fun k => decide (k.1 ≤ now))).map (·.2)) with
  | ok s1 => simp only [hc] at h; cases h; exact closeAll_inv env hE now _ s _ hI hc
  | notFound => simp only [hc] at h; cases h
  | err => simp only [hc] at h; cases h
  | panic => simp only [hc] at h; cases h

/-- side conditions on an operation that the keeper does not check itself but every caller meets:
    the auction module account is never a seller or a bidder (it cannot sign and no module starts an
    auction in its name), and the starting bid / lot / max bid handed in by cdp and hard are not negative -/
def OpOk (env : Env) : Op → Prop
  | .startSurplus seller _ _ _ => seller ≠ env.M
  | .startDebt buyer _ bid _ lot _ _ => buyer ≠ env.M ∧ 0 ≤ bid ∧ 0 ≤ lot
  | .startCollateral seller _ _ _ maxBid _ _ _ _ => seller ≠ env.M ∧ 0 ≤ maxBid
  | .placeBid _ bidder _ _ => bidder ≠ env.M
  | _ => True

theorem step_inv (env : Env) (hE : EnvOk env) (p : Params) (now : Int) (s s' : St) (op : Op)
    (hI : Inv env s) (hop : OpOk env op) (h : step env p now s op = .ok s') : Inv env s' := by
  cases op with
  | startSurplus seller lotD lot bidD => exact startSurplus_inv env s s' seller lotD lot bidD hI hop h
  | startDebt buyer bidD bid lotD lot debtD debt =>
    exact startDebt_inv env s s' buyer bidD bid lotD lot debtD debt hI hop.1 hop.2.1 hop.2.2 h
  | startCollateral seller lotD lot bidD maxBid addrs ws debtD debt =>
    exact startCollateral_inv env s s' seller lotD lot bidD maxBid addrs ws debtD debt hI hop.1 hop.2 h
  | placeBid id bidder denom amt => exact placeBid_inv env hE p now s s' id bidder denom amt hI hop h
  | close id => exact closeAuction_inv env hE now s s' id hI h
  | beginBlock => exact beginBlock_inv env hE now s s' hI h
  | xfer frm to d n =>
    unfold step at h
    by_cases hm : frm = env.M ∨ to = env.M
    · simp only [hm, ite_true] at h; cases h
    simp only [hm, ite_false] at h
    cases h1 : send s.bal frm to d n with
    | none => simp only [h1] at h; cases h
    | some b =>
      simp only [h1] at h; cases h
      obtain ⟨hwf, hcu, hix⟩ := hI
      refine ⟨hwf, ?_, hix⟩
      intro d'
      have := send_eff s.bal b frm to d n h1 env.M d'
      have h1' : ¬ (env.M = frm) := fun hx => hm (Or.inl hx.symm)
      have h2' : ¬ (env.M = to) := fun hx => hm (Or.inr hx.symm)
      simp only [ind_left_false h1', ind_left_false h2'] at this
      show b env.M d' = totalCoins s d'
      rw [← hcu d']; omega

theorem run_inv (env : Env) (hE : EnvOk env) (p : Params) (ops : List (Int × Op)) (s : St) (hI : Inv env s)
    (hops : ∀ x, x ∈ ops → OpOk env x.2) : Inv env (run env p s ops) := by
  induction ops generalizing s with
  | nil => exact hI
  | cons x rest ih =>
    obtain ⟨now, op⟩ := x
    unfold run
    cases hs : step env p now s op with
    | ok s1 =>
      simp only
      exact ih s1 (step_inv env hE p now s s1 op hI (hops (now, op) (by simp)) hs)
        (fun y hy => hops y (by simp [hy]))
    | err => simp only; exact ih s hI (fun y hy => hops y (by simp [hy]))
    | notFound => simp only; exact ih s hI (fun y hy => hops y (by simp [hy]))
    | panic => simp only; exact ih s hI (fun y hy => hops y (by simp [hy]))

/-- the invariant over histories whose parameters change between operations -/
theorem runP_inv (env : Env) (hE : EnvOk env) (ops : List (Params × Int × Op)) (s : St) (hI : Inv env s)
    (hops : ∀ x, x ∈ ops → OpOk env x.2.2) : Inv env (runP env s ops) := by
  induction ops generalizing s with
  | nil => exact hI
  | cons x rest ih =>
    obtain ⟨p, now, op⟩ := x
    unfold runP
    cases hs : step env p now s op with
    | ok s1 =>
      simp only
      exact ih s1 (step_inv env hE p now s s1 op hI (hops (p, now, op) (by simp)) hs)
        (fun y hy => hops y (by simp [hy]))
    | err => simp only; exact ih s hI (fun y hy => hops y (by simp [hy]))
    | notFound => simp only; exact ih s hI (fun y hy => hops y (by simp [hy]))
    | panic => simp only; exact ih s hI (fun y hy => hops y (by simp [hy]))

/-- the empty module: no auction, nothing held -/
def emptySt (nextId : Nat) (bal : Bal) : St := { auc := fun _ => none, nextId := nextId, index := [], bal := bal }

theorem sumTo_zero' (n : Nat) (f : Nat → Int) (h : ∀ i, f i = 0) : sumTo n f = 0 := by
  rw [sumTo_congr n f (fun _ => 0) (fun i _ => h i), sumTo_zero]

theorem empty_inv (env : Env) (nextId : Nat) (bal : Bal) (h : ∀ d, bal env.M d = 0) :
    Inv env (emptySt nextId bal) := by
  refine ⟨?_, ?_, ?_⟩
  · intro i a ha; cases ha
  · intro d
    show bal env.M d = sumTo nextId (fun i => modCoinsO none d)
    rw [h d]; exact (sumTo_zero' nextId _ (fun _ => rfl)).symm
  · refine ⟨List.Pairwise.nil, ?_⟩
    intro e i
    constructor
    · intro hm; cases hm
    · rintro ⟨a, ha, _⟩; cases ha

end KV.Auc
