/-
  Helper lemmas for C20 (schedule part): the SDK's periodic `GetVestedCoins` loop and the incentive
  module's `addCoinsToVestingSchedule`, by induction on the period list.  Core Lean only.
-/
import KavaVerif.Model.Vesting
set_option linter.unusedSimpArgs false
set_option linter.unusedVariables false
namespace KV.Vest

theorem allPos_totalLen_nonneg : ∀ ps : List Period, allPos ps → 0 ≤ totalLen ps
  | [], _ => by simp [totalLen]
  | p :: ps, h => by
    have := allPos_totalLen_nonneg ps h.2
    have := h.1
    simp only [totalLen]; omega

theorem totalLen_append (ps qs : List Period) : totalLen (ps ++ qs) = totalLen ps + totalLen qs := by
  induction ps with
  | nil => simp [totalLen]
  | cons p ps ih => simp only [List.cons_append, totalLen, ih]; omega

theorem totalAmt_append (ps qs : List Period) (d : Denom) :
    totalAmt (ps ++ qs) d = totalAmt ps d + totalAmt qs d := by
  induction ps with
  | nil => simp [totalAmt]
  | cons p ps ih => simp only [List.cons_append, totalAmt, ih]; omega

theorem allPos_append (ps qs : List Period) : allPos (ps ++ qs) ↔ allPos ps ∧ allPos qs := by
  induction ps with
  | nil => simp [allPos]
  | cons p ps ih => simp only [List.cons_append, allPos, ih, and_assoc]

/-- nothing has vested at or before the start of the first period -/
theorem vestedFrom_before (cur : Int) (ps : List Period) (t : Int) (d : Denom)
    (hp : allPos ps) (ht : t ≤ cur) : vestedFrom cur ps t d = 0 := by
  cases ps with
  | nil => rfl
  | cons p ps =>
    have := hp.1
    simp only [vestedFrom]
    split
    · rfl
    · omega

/-- everything has vested once the last period is over -/
theorem vestedFrom_full : ∀ (ps : List Period) (cur t : Int) (d : Denom),
    allPos ps → cur + totalLen ps ≤ t → vestedFrom cur ps t d = totalAmt ps d
  | [], _, _, _, _, _ => rfl
  | p :: ps, cur, t, d, hp, ht => by
    have h0 := allPos_totalLen_nonneg ps hp.2
    simp only [totalLen] at ht
    have ih := vestedFrom_full ps (cur + p.length) t d hp.2 (by omega)
    simp only [vestedFrom, totalAmt]
    split
    · omega
    · rw [ih]

/-- appending one period `(l, x)` adds `x` exactly from `cur + totalLen ps + l` on -/
theorem vestedFrom_append (l : Int) (x : Coins) (hl : 0 ≤ l) : ∀ (ps : List Period) (cur t : Int) (d : Denom),
    allPos ps →
    vestedFrom cur (ps ++ [⟨l, x⟩]) t d =
      vestedFrom cur ps t d + (if t - (cur + totalLen ps) < l then 0 else x d)
  | [], cur, t, d, _ => by
    simp only [List.nil_append, vestedFrom, totalLen]
    by_cases h1 : t - cur < l
    · have h2 : t - (cur + 0) < l := by omega
      simp only [h1, h2, ite_true]; omega
    · have h2 : ¬ t - (cur + 0) < l := by omega
      simp only [h1, h2, ite_false]; omega
  | p :: ps, cur, t, d, hp => by
    have h0 := allPos_totalLen_nonneg ps hp.2
    have hp1 := hp.1
    have ih := vestedFrom_append l x hl ps (cur + p.length) t d hp.2
    simp only [List.cons_append, vestedFrom, totalLen]
    by_cases h1 : t - cur < p.length
    · have h2 : t - (cur + (p.length + totalLen ps)) < l := by omega
      simp only [h1, h2, ite_true]; omega
    · simp only [h1, ite_false]
      rw [ih]
      by_cases h2 : t - (cur + (p.length + totalLen ps)) < l
      · have h3 : t - (cur + p.length + totalLen ps) < l := by omega
        simp only [h2, h3, ite_true]; omega
      · have h3 : ¬ t - (cur + p.length + totalLen ps) < l := by omega
        simp only [h2, h3, ite_false]; omega

/-! ### the insertion loop -/

/-- `ins` adds `amt` exactly from `start + target` on and moves no other unlock time.
    (`cnt` = length consumed so far; the loop is only run when `target ≤ total length`.) -/
theorem ins_vested (start target : Int) (amt : Coins) (d : Denom) :
    ∀ (ps : List Period) (cnt : Int), allPos ps → cnt < target → target ≤ cnt + totalLen ps →
    ∀ t, vestedFrom (start + cnt) (ins cnt target amt ps) t d =
         vestedFrom (start + cnt) ps t d + (if t - start < target then 0 else amt d)
  | [], cnt, _, h1, h2 => by simp only [totalLen] at h2; omega
  | p :: ps, cnt, hp, h1, h2 => by
    intro t
    obtain ⟨hl, hps⟩ := hp
    simp only [totalLen] at h2
    simp only [ins]
    by_cases hlt : cnt + p.length < target
    · simp only [hlt, ite_true]
      have ih := ins_vested start target amt d ps (cnt + p.length) hps hlt (by omega) t
      have e : start + (cnt + p.length) = start + cnt + p.length := by omega
      rw [e] at ih
      simp only [vestedFrom]
      by_cases h3 : t - (start + cnt) < p.length
      · have h4 : t - start < target := by omega
        simp only [h3, h4, ite_true]; omega
      · simp only [h3, ite_false]; rw [ih]; omega
    · simp only [hlt, ite_false]
      by_cases heq : cnt + p.length = target
      · simp only [heq, ite_true]
        simp only [vestedFrom, Coins.add]
        by_cases h3 : t - (start + cnt) < p.length
        · have h4 : t - start < target := by omega
          simp only [h3, h4, ite_true]; omega
        · have h4 : ¬ t - start < target := by omega
          simp only [h3, h4, ite_false]; omega
      · simp only [heq, ite_false]
        simp only [vestedFrom]
        have e : start + cnt + (target - cnt) = start + target := by omega
        have e2 : start + target + (p.length - (target - cnt)) = start + cnt + p.length := by omega
        rw [e, e2]
        by_cases h4 : t - start < target
        · have h5 : t - (start + cnt) < target - cnt := by omega
          have h6 : t - (start + cnt) < p.length := by omega
          simp only [h4, h5, h6, ite_true]; omega
        · have h5 : ¬ t - (start + cnt) < target - cnt := by omega
          simp only [h4, h5, ite_false]
          by_cases h6 : t - (start + cnt) < p.length
          · have h7 : t - (start + target) < p.length - (target - cnt) := by omega
            simp only [h6, h7, ite_true]; omega
          · have h7 : ¬ t - (start + target) < p.length - (target - cnt) := by omega
            simp only [h6, h7, ite_false]; omega

theorem ins_totalLen (target : Int) (amt : Coins) :
    ∀ (ps : List Period) (cnt : Int), totalLen (ins cnt target amt ps) = totalLen ps
  | [], _ => rfl
  | p :: ps, cnt => by
    simp only [ins]
    split
    · simp only [totalLen, ins_totalLen target amt ps (cnt + p.length)]
    · split <;> simp only [totalLen] <;> omega

theorem ins_totalAmt (target : Int) (amt : Coins) (d : Denom) :
    ∀ (ps : List Period) (cnt : Int), cnt < target → target ≤ cnt + totalLen ps →
      totalAmt (ins cnt target amt ps) d = totalAmt ps d + amt d
  | [], cnt, h1, h2 => by simp only [totalLen] at h2; omega
  | p :: ps, cnt, h1, h2 => by
    simp only [totalLen] at h2
    simp only [ins]
    split
    · rename_i hlt
      simp only [totalAmt, ins_totalAmt target amt d ps (cnt + p.length) hlt (by omega)]; omega
    · split <;> simp only [totalAmt, Coins.add] <;> omega

theorem ins_allPos (target : Int) (amt : Coins) :
    ∀ (ps : List Period) (cnt : Int), allPos ps → cnt < target → allPos (ins cnt target amt ps)
  | [], _, _, _ => trivial
  | p :: ps, cnt, hp, h1 => by
    obtain ⟨hl, hps⟩ := hp
    simp only [ins]
    split
    · rename_i hlt
      exact ⟨hl, ins_allPos target amt ps (cnt + p.length) hps hlt⟩
    · split
      · exact ⟨hl, hps⟩
      · refine ⟨?_, ?_, hps⟩ <;> (show (0:Int) < _) <;> simp only [] <;> omega

/-! ### "edge case two": start in the future -/

theorem bumpFirst_totalLen (k : Int) (ps : List Period) (hne : ps ≠ []) :
    totalLen (bumpFirst k ps) = totalLen ps + k := by
  cases ps with
  | nil => exact absurd rfl hne
  | cons p ps => simp only [bumpFirst, totalLen]; omega

theorem bumpFirst_totalAmt (k : Int) (ps : List Period) (d : Denom) :
    totalAmt (bumpFirst k ps) d = totalAmt ps d := by
  cases ps with
  | nil => rfl
  | cons p ps => simp only [bumpFirst, totalAmt]

theorem bumpFirst_allPos (k : Int) (ps : List Period) (hk : 0 ≤ k) (hp : allPos ps) :
    allPos (bumpFirst k ps) := by
  cases ps with
  | nil => trivial
  | cons p ps =>
    have := hp.1
    exact ⟨by show (0:Int) < k + p.length; omega, hp.2⟩

/-- moving the start from `S` back to `S - k` while lengthening the first period by `k` moves no unlock time -/
theorem bumpFirst_vested (k S : Int) (ps : List Period) (t : Int) (d : Denom) :
    vestedFrom (S - k) (bumpFirst k ps) t d = vestedFrom S ps t d := by
  cases ps with
  | nil => rfl
  | cons p ps =>
    simp only [bumpFirst, vestedFrom]
    have e : S - k + (k + p.length) = S + p.length := by omega
    rw [e]
    by_cases h : t - S < p.length
    · have h2 : t - (S - k) < k + p.length := by omega
      simp only [h, h2, ite_true]
    · have h2 : ¬ t - (S - k) < k + p.length := by omega
      simp only [h, h2, ite_false]

/-! ### addCoinsToVestingSchedule, branch by branch -/

theorem WF.ne_nil {a : PVA} (h : WF a) : a.periods ≠ [] := by
  intro e
  have := h.lenSum
  have := h.startLtEnd
  rw [e] at *
  simp only [totalLen] at *
  omega

/-- "edge case two" as an account transformation -/
def normStart (now : Int) (a : PVA) : PVA :=
  if a.start > now then { a with start := now, periods := bumpFirst (a.start - now) a.periods } else a

theorem normStart_WF (now : Int) (a : PVA) (h : WF a) : WF (normStart now a) := by
  unfold normStart
  split
  · rename_i hs
    have hne := h.ne_nil
    have h1 := h.startLtEnd
    have h3 := h.lenSum
    refine ⟨?_, ?_, ?_, ?_⟩
    · show now < a.endT; omega
    · exact bumpFirst_allPos _ _ (by omega) h.pos
    · show totalLen (bumpFirst (a.start - now) a.periods) = a.endT - now
      rw [bumpFirst_totalLen _ _ hne]; omega
    · intro d
      show totalAmt (bumpFirst (a.start - now) a.periods) d = a.ov d
      rw [bumpFirst_totalAmt]; exact h.amtSum d
  · exact h

theorem normStart_start_le (now : Int) (a : PVA) : (normStart now a).start ≤ now := by
  unfold normStart
  split
  · show now ≤ now; omega
  · omega

theorem normStart_end (now : Int) (a : PVA) : (normStart now a).endT = a.endT := by
  unfold normStart; split <;> rfl
theorem normStart_ov (now : Int) (a : PVA) : (normStart now a).ov = a.ov := by
  unfold normStart; split <;> rfl
theorem normStart_dv (now : Int) (a : PVA) : (normStart now a).dv = a.dv := by
  unfold normStart; split <;> rfl

/-- moving the start to `now` changes no vested amount at any time -/
theorem normStart_vested (now : Int) (a : PVA) (h : WF a) (t : Int) (d : Denom) :
    vested (normStart now a) t d = vested a t d := by
  unfold normStart
  split
  · rename_i hs
    unfold vested
    simp only []
    by_cases h1 : t ≤ now
    · have h2 : t ≤ a.start := by omega
      simp only [h1, h2, ite_true]
    · simp only [h1, ite_false]
      by_cases h3 : t ≥ a.endT
      · have h2 : ¬ t ≤ a.start := by have := h.startLtEnd; omega
        simp only [h3, h2, ite_true, ite_false]
      · simp only [h3, ite_false]
        have e := bumpFirst_vested (a.start - now) a.start a.periods t d
        have e2 : a.start - (a.start - now) = now := by omega
        rw [e2] at e
        rw [e]
        by_cases h2 : t ≤ a.start
        · simp only [h2, ite_true]
          exact vestedFrom_before _ _ _ _ h.pos h2
        · simp only [h2, ite_false]
  · rfl

theorem addCoins_past (now : Int) (a : PVA) (amt : Coins) (length : Int) (h : a.endT < now) :
    addCoins now a amt length =
      { a with ov := Coins.add a.ov amt, periods := a.periods ++ [⟨(now - a.endT) + length, amt⟩],
               endT := now + length } := by
  unfold addCoins
  simp only [h, ite_true]

theorem addCoins_live (now : Int) (a : PVA) (amt : Coins) (length : Int) (h : ¬ a.endT < now) :
    addCoins now a amt length =
      (let b := normStart now a
       if b.endT - now < length then
         { b with ov := Coins.add b.ov amt, periods := b.periods ++ [⟨length - (b.endT - now), amt⟩],
                  endT := now + length }
       else { b with ov := Coins.add b.ov amt, periods := ins 0 (now - b.start + length) amt b.periods }) := by
  unfold addCoins normStart
  simp only [h, ite_false]
  by_cases hs : a.start > now <;> simp only [hs, ite_true, ite_false]

/-- the account after a payout is well formed again, with exactly `amt` more original vesting -/
theorem addCoins_WF (now : Int) (a : PVA) (amt : Coins) (length : Int) (h : WF a) (hl : 0 < length) :
    WF (addCoins now a amt length) := by
  by_cases hp : a.endT < now
  · rw [addCoins_past now a amt length hp]
    have h1 := h.startLtEnd
    have h3 := h.lenSum
    refine ⟨?_, ?_, ?_, ?_⟩
    · show a.start < now + length; omega
    · show allPos (a.periods ++ _)
      rw [allPos_append]
      exact ⟨h.pos, by show (0:Int) < now - a.endT + length; omega, trivial⟩
    · show totalLen (a.periods ++ _) = now + length - a.start
      rw [totalLen_append, h3]; simp only [totalLen]; omega
    · intro d
      show totalAmt (a.periods ++ _) d = Coins.add a.ov amt d
      rw [totalAmt_append, h.amtSum d]; simp only [totalAmt, Coins.add]; omega
  · rw [addCoins_live now a amt length hp]
    have hb := normStart_WF now a h
    have hs := normStart_start_le now a
    have he := normStart_end now a
    generalize normStart now a = b at hb hs he
    have h1 := hb.startLtEnd
    have h3 := hb.lenSum
    simp only []
    split
    · rename_i hr
      refine ⟨?_, ?_, ?_, ?_⟩
      · show b.start < now + length; omega
      · show allPos (b.periods ++ _)
        rw [allPos_append]
        exact ⟨hb.pos, by show (0:Int) < length - (b.endT - now); omega, trivial⟩
      · show totalLen (b.periods ++ _) = now + length - b.start
        rw [totalLen_append, h3]; simp only [totalLen]; omega
      · intro d
        show totalAmt (b.periods ++ _) d = Coins.add b.ov amt d
        rw [totalAmt_append, hb.amtSum d]; simp only [totalAmt, Coins.add]; omega
    · rename_i hr
      refine ⟨?_, ?_, ?_, ?_⟩
      · exact h1
      · exact ins_allPos _ _ _ _ hb.pos (by omega)
      · show totalLen (ins 0 _ amt b.periods) = b.endT - b.start
        rw [ins_totalLen]; exact h3
      · intro d
        show totalAmt (ins 0 _ amt b.periods) d = Coins.add b.ov amt d
        rw [ins_totalAmt _ _ _ _ _ (by omega) (by omega), hb.amtSum d]; rfl

theorem addCoins_ov (now : Int) (a : PVA) (amt : Coins) (length : Int) :
    (addCoins now a amt length).ov = Coins.add a.ov amt := by
  by_cases hp : a.endT < now
  · rw [addCoins_past now a amt length hp]
  · rw [addCoins_live now a amt length hp]
    simp only [normStart_ov]
    split <;> rfl

theorem addCoins_dv (now : Int) (a : PVA) (amt : Coins) (length : Int) :
    (addCoins now a amt length).dv = a.dv := by
  by_cases hp : a.endT < now
  · rw [addCoins_past now a amt length hp]
  · rw [addCoins_live now a amt length hp]
    simp only []
    split <;> exact normStart_dv now a

/-- vested coins after a payout: for every `t ≥ now` exactly the old ones plus `amt` from `now + length` on -/
theorem addCoins_vested (now : Int) (a : PVA) (amt : Coins) (length : Int) (h : WF a) (hl : 0 < length)
    (t : Int) (ht : now ≤ t) (d : Denom) :
    vested (addCoins now a amt length) t d =
      vested a t d + (if t < now + length then 0 else amt d) := by
  by_cases hp : a.endT < now
  · -- edge case one: everything had vested already
    rw [addCoins_past now a amt length hp]
    have h1 := h.startLtEnd
    have h3 := h.lenSum
    unfold vested
    simp only []
    have n1 : ¬ t ≤ a.start := by omega
    have n2 : t ≥ a.endT := by omega
    simp only [n1, n2, ite_true, ite_false]
    by_cases h4 : t < now + length
    · have n3 : ¬ t ≥ now + length := by omega
      simp only [h4, n3, ite_true, ite_false]
      rw [vestedFrom_append _ _ (by omega) _ _ _ _ h.pos]
      have n4 : t - (a.start + totalLen a.periods) < now - a.endT + length := by omega
      simp only [n4, ite_true]
      rw [vestedFrom_full _ _ _ _ h.pos (by omega), h.amtSum d]
    · have n3 : t ≥ now + length := by omega
      simp only [h4, n3, ite_true, ite_false, Coins.add]
  · rw [addCoins_live now a amt length hp, ← normStart_vested now a h t d]
    have hb := normStart_WF now a h
    have hs := normStart_start_le now a
    have he := normStart_end now a
    generalize normStart now a = b at hb hs he
    have h1 := hb.startLtEnd
    have h3 := hb.lenSum
    simp only []
    split
    · -- the lock-up ends after the current schedule: append
      rename_i hr
      unfold vested
      simp only []
      by_cases c1 : t ≤ b.start
      · have c2 : t < now + length := by omega
        simp only [c1, c2, ite_true]; omega
      · simp only [c1, ite_false]
        by_cases c2 : t < now + length
        · have c3 : ¬ t ≥ now + length := by omega
          simp only [c2, c3, ite_true, ite_false]
          rw [vestedFrom_append _ _ (by omega) _ _ _ _ hb.pos]
          have n4 : t - (b.start + totalLen b.periods) < length - (b.endT - now) := by omega
          simp only [n4, ite_true]
          by_cases c4 : t ≥ b.endT
          · simp only [c4, ite_true]
            rw [vestedFrom_full _ _ _ _ hb.pos (by omega), hb.amtSum d]
          · simp only [c4, ite_false]
        · have c3 : t ≥ now + length := by omega
          have c4 : t ≥ b.endT := by omega
          simp only [c2, c3, c4, ite_true, ite_false, Coins.add]
    · -- the lock-up ends inside the current schedule: insert
      rename_i hr
      unfold vested
      simp only []
      by_cases c1 : t ≤ b.start
      · have c2 : t < now + length := by omega
        simp only [c1, c2, ite_true]; omega
      · simp only [c1, ite_false]
        by_cases c4 : t ≥ b.endT
        · have c2 : ¬ t < now + length := by omega
          simp only [c4, c2, ite_true, ite_false, Coins.add]
        · simp only [c4, ite_false]
          have e := ins_vested b.start (now - b.start + length) amt d b.periods 0 hb.pos (by omega) (by omega) t
          have e0 : b.start + 0 = b.start := by omega
          rw [e0] at e
          rw [e]
          by_cases c2 : t < now + length
          · have c5 : t - b.start < now - b.start + length := by omega
            simp only [c2, c5, ite_true]
          · have c5 : ¬ t - b.start < now - b.start + length := by omega
            simp only [c2, c5, ite_false]

/-- the schedule-level unlock theorem: still-vesting coins after the payout -/
theorem addCoins_vesting (now : Int) (a : PVA) (amt : Coins) (length : Int) (h : WF a) (hl : 0 < length)
    (t : Int) (ht : now ≤ t) (d : Denom) :
    vesting (addCoins now a amt length) t d =
      vesting a t d + (if t < now + length then amt d else 0) := by
  unfold vesting
  rw [addCoins_vested now a amt length h hl t ht d, addCoins_ov]
  simp only [Coins.add]
  split <;> omega

/-! ### histories of payouts -/

theorem applyClaims_WF : ∀ (cs : List Claim) (a : PVA), WF a → (∀ c ∈ cs, 0 < c.length) → WF (applyClaims a cs)
  | [], a, h, _ => h
  | c :: cs, a, h, hc => by
    simp only [applyClaims]
    exact applyClaims_WF cs _ (addCoins_WF c.now a c.amt c.length h (hc c (List.mem_cons_self)))
      (fun c' hm => hc c' (List.mem_cons_of_mem _ hm))

theorem applyClaims_vesting : ∀ (cs : List Claim) (a : PVA), WF a → (∀ c ∈ cs, 0 < c.length) →
    ∀ (t : Int), (∀ c ∈ cs, c.now ≤ t) → ∀ d,
    vesting (applyClaims a cs) t d = vesting a t d + stillLocked t cs d
  | [], a, _, _, t, _, d => by simp only [applyClaims, stillLocked]; omega
  | c :: cs, a, h, hc, t, ht, d => by
    simp only [applyClaims, stillLocked]
    have hl := hc c (List.mem_cons_self)
    have h' := addCoins_WF c.now a c.amt c.length h hl
    rw [applyClaims_vesting cs _ h' (fun c' hm => hc c' (List.mem_cons_of_mem _ hm)) t
          (fun c' hm => ht c' (List.mem_cons_of_mem _ hm)) d,
        addCoins_vesting c.now a c.amt c.length h hl t (ht c (List.mem_cons_self)) d]
    omega

theorem applyClaims_ov : ∀ (cs : List Claim) (a : PVA) (d : Denom),
    (applyClaims a cs).ov d = a.ov d + (cs.map (fun c => c.amt d)).sum
  | [], a, d => by simp [applyClaims]
  | c :: cs, a, d => by
    simp only [applyClaims, List.map_cons, List.sum_cons]
    rw [applyClaims_ov cs _ d, addCoins_ov]
    simp only [Coins.add]; omega

/-! ### bank-level lock (`LockedCoins`) and spendable coins -/

theorem locked_eq (a : PVA) (t : Int) (d : Denom) :
    locked a t d = if vesting a t d ≤ a.dv d then 0 else vesting a t d - a.dv d := by
  unfold locked Coins.min
  split <;> omega

/-- `LockedCoins` after a payout, in general: the delegated-vesting allowance absorbs new vesting coins -/
theorem addCoins_locked_general (now : Int) (a : PVA) (amt : Coins) (length : Int) (h : WF a) (hl : 0 < length)
    (t : Int) (ht : now ≤ t) (d : Denom) :
    locked (addCoins now a amt length) t d =
      (let v' := vesting a t d + (if t < now + length then amt d else 0)
       if v' ≤ a.dv d then 0 else v' - a.dv d) := by
  rw [locked_eq, addCoins_vesting now a amt length h hl t ht d, addCoins_dv]

/-- if no more than the still-vesting coins are delegated (`DelegatedVesting ≤ vesting(t)`), the bank-level
    lock grows by exactly the claimed coins until `now + length` -/
theorem addCoins_locked_exact (now : Int) (a : PVA) (amt : Coins) (length : Int) (h : WF a) (hl : 0 < length)
    (t : Int) (ht : now ≤ t) (d : Denom) (hamt : 0 ≤ amt d) (hdv : a.dv d ≤ vesting a t d) :
    locked (addCoins now a amt length) t d =
      locked a t d + (if t < now + length then amt d else 0) := by
  rw [addCoins_locked_general now a amt length h hl t ht d, locked_eq a t d]
  simp only []
  split <;> split <;> split <;> omega

/-- in every case: no previously locked coin is released and at most the claimed coins are added -/
theorem addCoins_locked_bounds (now : Int) (a : PVA) (amt : Coins) (length : Int) (h : WF a) (hl : 0 < length)
    (t : Int) (ht : now ≤ t) (d : Denom) (hamt : 0 ≤ amt d) :
    locked a t d ≤ locked (addCoins now a amt length) t d ∧
    locked (addCoins now a amt length) t d ≤ locked a t d + (if t < now + length then amt d else 0) := by
  rw [addCoins_locked_general now a amt length h hl t ht d, locked_eq a t d]
  simp only []
  split <;> split <;> split <;> omega

theorem spendable_noNeg (bal lockedC : Coins) (h : ∀ e, lockedC e ≤ bal e) (d : Denom) :
    spendable bal lockedC d = bal d - lockedC d := by
  unfold spendable
  have hf : (List.range ND).any (fun e => decide (bal e < lockedC e)) = false := by
    rw [List.any_eq_false]
    intro e _
    have := h e
    simp only [decide_eq_true_eq]; omega
  simp only [hf, Bool.false_eq_true, ite_false]

/-! ### the freshly converted base account -/

theorem newPVA_WF (now : Int) (amt : Coins) (length : Int) (hl : 0 < length) : WF (newPVA now amt length) := by
  refine ⟨?_, ?_, ?_, ?_⟩
  · show now < now + length; omega
  · exact ⟨hl, trivial⟩
  · show totalLen [⟨length, amt⟩] = now + length - now; simp only [totalLen]; omega
  · intro d; show totalAmt [⟨length, amt⟩] d = amt d; simp only [totalAmt]; omega

theorem newPVA_vesting (now : Int) (amt : Coins) (length : Int) (hl : 0 < length) (t : Int) (d : Denom) :
    vesting (newPVA now amt length) t d = if t < now + length then amt d else 0 := by
  unfold vesting vested newPVA
  simp only [vestedFrom]
  by_cases c1 : t ≤ now
  · have c2 : t < now + length := by omega
    simp only [c1, c2, ite_true]; omega
  · by_cases c2 : t < now + length
    · have c3 : ¬ t ≥ now + length := by omega
      have c4 : t - now < length := by omega
      simp only [c1, c2, c3, c4, ite_true, ite_false]; omega
    · have c3 : t ≥ now + length := by omega
      simp only [c1, c2, c3, ite_true, ite_false]; omega

theorem newPVA_locked (now : Int) (amt : Coins) (length : Int) (hl : 0 < length) (t : Int) (d : Denom)
    (hamt : 0 ≤ amt d) :
    locked (newPVA now amt length) t d = if t < now + length then amt d else 0 := by
  rw [locked_eq, newPVA_vesting now amt length hl t d]
  show (if _ ≤ (0:Int) then _ else _ - (0:Int)) = _
  split <;> split <;> omega

/-! ### SendTimeLockedCoinsToAccount -/

theorem bankSend_ok (w : World) (amt : Coins) (hb : w.blocked = false) (hs : isAllGTE w.modBal amt = true) :
    bankSend w amt = .ok { w with modBal := Coins.sub w.modBal amt, bal := Coins.add w.bal amt } := by
  unfold bankSend
  simp only [hb, hs, Bool.false_eq_true, ite_false, Bool.not_true]

theorem bankSend_blocked (w : World) (amt : Coins) (hb : w.blocked = true) : bankSend w amt = .err := by
  unfold bankSend
  simp only [hb, ite_true]

/-- insufficient module balance is refused before anything else is looked at -/
theorem sendTimeLocked_insufficient (now : Int) (w : World) (amt : Coins) (length : Int)
    (h : isAllGTE w.modBal amt = false) : sendTimeLocked now w amt length = .err := by
  unfold sendTimeLocked
  simp only [h, Bool.not_false, ite_true]

/-- with a lock-up, every recipient that is not a base or periodic vesting account is refused -/
theorem sendTimeLocked_refused_kind (now : Int) (w : World) (amt : Coins) (length : Int)
    (hl : length ≠ 0) (hk : w.acct.lockable = false) : sendTimeLocked now w amt length = .err := by
  unfold sendTimeLocked
  have h3 : ¬ length = 0 := hl
  cases hs : isAllGTE w.modBal amt <;> cases h2 : w.acct.isNone <;>
    simp only [Bool.not_true, Bool.not_false, Bool.false_eq_true, ite_true, ite_false, h3]
  cases hacct : w.acct <;> rw [hacct] at hk <;> simp only [Acct.lockable] at hk <;>
    first
    | rfl
    | exact absurd hk (by decide)

theorem sendTimeLocked_blocked (now : Int) (w : World) (amt : Coins) (length : Int)
    (hb : w.blocked = true) : sendTimeLocked now w amt length = .err := by
  unfold sendTimeLocked
  have hb' := bankSend_blocked w amt hb
  cases hs : isAllGTE w.modBal amt <;> cases h2 : w.acct.isNone <;>
    simp only [Bool.not_true, Bool.not_false, Bool.false_eq_true, ite_true, ite_false]
  by_cases h3 : length = 0
  · simp only [h3, ite_true, hb']
  · simp only [h3, ite_false]
    cases hacct : w.acct <;> simp only [hb']

/-- exact characterisation of success and of its effect -/
theorem sendTimeLocked_lock_ok (now : Int) (w : World) (amt : Coins) (length : Int)
    (hl : length ≠ 0) (hs : isAllGTE w.modBal amt = true) (hb : w.blocked = false)
    (hk : w.acct.lockable = true) :
    sendTimeLocked now w amt length =
      .ok { w with modBal := Coins.sub w.modBal amt, bal := Coins.add w.bal amt,
                   acct := w.acct.after now amt length } := by
  unfold sendTimeLocked
  have h3 : ¬ length = 0 := hl
  simp only [hs, Bool.not_true, Bool.false_eq_true, ite_false, h3]
  have hb' := bankSend_ok w amt hb hs
  cases hacct : w.acct <;> rw [hacct] at hk <;> simp only [Acct.lockable] at hk <;>
    first
    | exact absurd hk (by decide)
    | simp only [Acct.isNone, Bool.false_eq_true, ite_false, hb', Acct.after]

theorem sendTimeLocked_nolock_ok (now : Int) (w : World) (amt : Coins)
    (hs : isAllGTE w.modBal amt = true) (hb : w.blocked = false) (hn : w.acct.isNone = false) :
    sendTimeLocked now w amt 0 =
      .ok { w with modBal := Coins.sub w.modBal amt, bal := Coins.add w.bal amt } := by
  unfold sendTimeLocked
  simp only [hs, hn, Bool.not_true, Bool.false_eq_true, ite_false, ite_true, bankSend_ok w amt hb hs]

/-! ### The keeper's own context after the call (no rollback) -/

theorem isAllGTE_iff (a b : Coins) : isAllGTE a b = true ↔ ∀ d, d < ND → b d ≤ a d := by
  unfold isAllGTE
  simp only [List.all_eq_true, List.mem_range, decide_eq_true_eq]

theorem isAllGTE_false_of_lt (a b : Coins) (d : Denom) (hd : d < ND) (h : a d < b d) :
    isAllGTE a b = false := by
  cases hs : isAllGTE a b
  · rfl
  · have := (isAllGTE_iff a b).1 hs d hd
    omega

/-- a fully covered debit runs to its end and subtracts exactly the visited denoms -/
theorem subUnlockedFrom_ok (amt : Coins) : ∀ (n : Nat) (d : Nat) (bal : Coins),
    (∀ e, d ≤ e → e < d + n → amt e ≤ bal e) →
    subUnlockedFrom amt d n bal = (fun e => if d ≤ e ∧ e < d + n then bal e - amt e else bal e, true) := by
  intro n
  induction n with
  | zero =>
    intro d bal _
    show (bal, true) = _
    congr 1
    funext e
    unfold Denom at *
    have : ¬ (d ≤ e ∧ e < d + 0) := by omega
    simp only [this, ite_false]
  | succ n ih =>
    intro d bal h
    have hd : ¬ bal d < amt d := by have := h d (Nat.le_refl d) (by omega); omega
    show (if bal d < amt d then (bal, false) else subUnlockedFrom amt (d + 1) n (bal.set d (bal d - amt d))) = _
    simp only [hd, ite_false]
    rw [ih (d + 1) (bal.set d (bal d - amt d))]
    · congr 1
      funext e
      unfold Denom at *
      unfold Coins.set
      by_cases h1 : e = d
      · subst h1
        have c1 : ¬ (e + 1 ≤ e ∧ e < e + 1 + n) := by omega
        have c2 : e ≤ e ∧ e < e + (n + 1) := by omega
        simp only [c1, c2, ite_true, ite_false, and_self]
      · by_cases h2 : d + 1 ≤ e ∧ e < d + 1 + n
        · have c2 : d ≤ e ∧ e < d + (n + 1) := by omega
          simp only [h1, h2, c2, ite_true, ite_false, and_self]
        · have c2 : ¬ (d ≤ e ∧ e < d + (n + 1)) := by omega
          simp only [h1, h2, c2, ite_false]
    · intro e he1 he2
      unfold Denom at *
      unfold Coins.set
      have h1 : ¬ e = d := by omega
      simp only [h1, ite_false]
      exact h e (by omega) (by omega)

/-- behind the guard over all denoms the bank can only refuse a blocked recipient, before touching anything -/
theorem bankSendK_guarded (w : World) (amt : Coins) (hs : isAllGTE w.modBal amt = true) :
    bankSendK w amt =
      if w.blocked then (w, false)
      else ({ w with modBal := fun e => if e < ND then w.modBal e - amt e else w.modBal e,
                     bal := Coins.add w.bal amt }, true) := by
  unfold bankSendK
  have h := (isAllGTE_iff w.modBal amt).1 hs
  rw [subUnlockedFrom_ok amt ND 0 w.modBal (fun e _ he => h e (by omega))]
  have e1 : (fun e => if 0 ≤ e ∧ e < 0 + ND then w.modBal e - amt e else w.modBal e) =
      (fun e => if e < ND then w.modBal e - amt e else w.modBal e) := by
    funext e
    unfold Denom at *
    by_cases c : e < ND
    · have c2 : 0 ≤ e ∧ e < 0 + ND := by omega
      simp only [c, c2, ite_true, and_self]
    · have c2 : ¬ (0 ≤ e ∧ e < 0 + ND) := by omega
      simp only [c, c2, ite_false]
  simp only [e1, ite_true]

/-- every refusal of `SendTimeLockedCoinsToAccount` leaves the keeper's own context as it was -/
theorem sendTimeLockedK_refused_unchanged (now : Int) (w : World) (amt : Coins) (length : Int)
    (h : (sendTimeLockedK now w amt length).2 = false) : (sendTimeLockedK now w amt length).1 = w := by
  unfold sendTimeLockedK at h ⊢
  cases hs : isAllGTE w.modBal amt
  · simp only [Bool.not_false, ite_true]
  · have hb := bankSendK_guarded w amt hs
    simp only [hs, Bool.not_true, Bool.false_eq_true, ite_false] at h ⊢
    cases h2 : w.acct.isNone
    · simp only [h2, Bool.false_eq_true, ite_false] at h ⊢
      by_cases h3 : length = 0
      · simp only [h3, ite_true, hb] at h ⊢
        cases hbl : w.blocked
        · simp only [hbl, Bool.false_eq_true, ite_false] at h
          exact absurd h (by decide)
        · simp only [ite_true]
      · simp only [h3, ite_false] at h ⊢
        cases hacct : w.acct <;> simp only [hacct, hb] at h ⊢ <;>
          (cases hbl : w.blocked <;> simp only [hbl, Bool.false_eq_true, ite_false, ite_true] at h ⊢) <;>
          first
          | exact absurd h (by decide)
          | rfl
    · simp only [ite_true]

/-- exceeding the module balance in any one denom is refused, nothing moved -/
theorem sendTimeLockedK_exceeds (now : Int) (w : World) (amt : Coins) (length : Int)
    (d : Denom) (hd : d < ND) (h : w.modBal d < amt d) : sendTimeLockedK now w amt length = (w, false) := by
  unfold sendTimeLockedK
  simp only [isAllGTE_false_of_lt w.modBal amt d hd h, Bool.not_false, ite_true]

/-- the rollback-free semantics refines `sendTimeLocked`: same verdict, same post-state on success
    (amounts live in the denom universe) -/
theorem sendTimeLockedK_refines (now : Int) (w : World) (amt : Coins) (length : Int)
    (hsupp : ∀ d, ND ≤ d → amt d = 0) :
    sendTimeLocked now w amt length =
      if (sendTimeLockedK now w amt length).2 then .ok (sendTimeLockedK now w amt length).1 else .err := by
  unfold sendTimeLocked sendTimeLockedK
  cases hs : isAllGTE w.modBal amt
  · simp only [Bool.not_false, ite_true, Bool.false_eq_true, ite_false]
  · have hb := bankSendK_guarded w amt hs
    have e1 : (fun e => if e < ND then w.modBal e - amt e else w.modBal e) = Coins.sub w.modBal amt := by
      funext e
      unfold Denom at *
      unfold Coins.sub
      by_cases c : e < ND
      · simp only [c, ite_true]
      · have := hsupp e (by omega)
        simp only [c, ite_false, this]; omega
    rw [e1] at hb
    simp only [Bool.not_true, Bool.false_eq_true, ite_false]
    cases h2 : w.acct.isNone
    · simp only [Bool.false_eq_true, ite_false]
      cases hbl : w.blocked
      · have hb2 := bankSend_ok w amt hbl hs
        simp only [hbl, Bool.false_eq_true, ite_false] at hb
        by_cases h3 : length = 0
        · simp only [h3, ite_true, hb, hb2, hbl]
        · simp only [h3, ite_false]
          cases hacct : w.acct <;> simp only [hb, hb2, hbl, ite_true, Bool.false_eq_true, ite_false]
      · have hb2 := bankSend_blocked w amt hbl
        simp only [hbl, ite_true] at hb
        by_cases h3 : length = 0
        · simp only [h3, ite_true, hb, hb2, Bool.false_eq_true, ite_false]
        · simp only [h3, ite_false]
          cases hacct : w.acct <;> simp only [hb, hb2, Bool.false_eq_true, ite_false]
    · simp only [ite_true, Bool.false_eq_true, ite_false]

end KV.Vest
