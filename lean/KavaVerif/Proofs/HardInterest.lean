/-
  Helper lemmas for C08 (x/hard), interest part: monotonicity of the Dec operations behind the sync
  formulas, the effect of `AccrueInterest` on the two indexes.
-/
import KavaVerif.Proofs.Hard
set_option linter.unusedSimpArgs false
set_option linter.unusedVariables false
namespace KV.Hard
open KV

/-! ### monotonicity of the Dec operations used by the interest formulas -/

theorem tquo_P_mono (x y : Int) (h : x ≤ y) : tquo x P ≤ tquo y P := by
  unfold tquo
  simp only [show (0:Int) ≤ P by decide, ite_true, P_val]
  split <;> split <;> omega

theorem truncateInt_mono (a b : Dec) (h : a.m ≤ b.m) : a.truncateInt ≤ b.truncateInt := by
  unfold Dec.truncateInt chopTrunc; exact tquo_P_mono _ _ h

theorem tquo_P_nonneg (x : Int) (h : 0 ≤ x) : 0 ≤ tquo x P := by
  have := tquo_P_mono 0 x h
  have h0 : tquo 0 P = 0 := by decide
  omega

theorem tquo_P_mulP (x : Int) : tquo (x * P) P = x := by
  unfold tquo
  simp only [show (0:Int) ≤ P by decide, ite_true]
  split
  · exact Int.mul_ediv_cancel x (by decide)
  · have : -(x * P) = (-x) * P := by ring
    rw [this, Int.mul_ediv_cancel _ (by decide : P ≠ 0)]; omega

/-- `Dec.mul` is monotone in the second factor when the first is non-negative -/
theorem mul_mono_right (q : Dec) (g g' : Int) (hq : 0 ≤ q.m) (h : g ≤ g') : (Dec.mul q ⟨g⟩).m ≤ (Dec.mul q ⟨g'⟩).m := by
  unfold Dec.mul
  exact chopRound_mono _ _ (Int.mul_le_mul_of_nonneg_left h hq)

theorem tquo_nonneg_pos_mono (x y c : Int) (hx : 0 ≤ x) (hc : 0 < c) (h : x ≤ y) : tquo x c ≤ tquo y c := by
  rw [tquo_nonneg_eq x c hx (by omega), tquo_nonneg_eq y c (by omega) (by omega)]
  exact Int.ediv_le_ediv hc h

theorem tquo_nonneg_pos_nonneg (x c : Int) (hx : 0 ≤ x) (hc : 0 < c) : 0 ≤ tquo x c := by
  rw [tquo_nonneg_eq x c hx (by omega)]
  exact Int.ediv_nonneg hx (by omega)

/-- `Dec.quo` is monotone in the numerator for non-negative numerators and a positive divisor -/
theorem quo_mono_left (x y c : Dec) (hx : 0 ≤ x.m) (hc : 0 < c.m) (h : x.m ≤ y.m) : (Dec.quo x c).m ≤ (Dec.quo y c).m := by
  unfold Dec.quo
  apply chopRound_mono
  have hP := P_pos
  have h1 : x.m * P * P ≤ y.m * P * P :=
    Int.mul_le_mul_of_nonneg_right (Int.mul_le_mul_of_nonneg_right h (by omega)) (by omega)
  have h0 : 0 ≤ x.m * P * P := Int.mul_nonneg (Int.mul_nonneg hx (by omega)) (by omega)
  exact tquo_nonneg_pos_mono _ _ _ h0 hc h1

theorem quo_nonneg (x c : Dec) (hx : 0 ≤ x.m) (hc : 0 < c.m) : 0 ≤ (Dec.quo x c).m := by
  unfold Dec.quo
  apply chopRound_nonneg
  have hP := P_pos
  exact tquo_nonneg_pos_nonneg _ _ (Int.mul_nonneg (Int.mul_nonneg hx (by omega)) (by omega)) hc

/-! ### synced amounts are monotone in the global index -/

theorem interestQM_mono (a ui g g' : Int) (ha : 0 ≤ a) (hui : 0 < ui) (h : g ≤ g') :
    interestQM a ui g ≤ interestQM a ui g' := by
  unfold interestQM
  apply truncateInt_mono
  unfold Dec.sub
  simp only
  have hq : 0 ≤ ((Dec.ofInt a).quo ⟨ui⟩).m := by
    exact quo_nonneg _ _ (by unfold Dec.ofInt; exact Int.mul_nonneg ha (by decide)) hui
  have := mul_mono_right _ g g' hq h
  omega

theorem interestMQ_mono (a ui g g' : Int) (ha : 0 ≤ a) (hui : 0 < ui) (hg : 0 ≤ g) (h : g ≤ g') :
    interestMQ a ui g ≤ interestMQ a ui g' := by
  unfold interestMQ
  apply truncateInt_mono
  unfold Dec.sub
  simp only
  have haP : 0 ≤ (Dec.ofInt a).m := by unfold Dec.ofInt; exact Int.mul_nonneg ha (by decide)
  have h1 := mul_mono_right (Dec.ofInt a) g g' haP h
  have h0 : 0 ≤ (Dec.mul (Dec.ofInt a) ⟨g⟩).m := by
    unfold Dec.mul; exact chopRound_nonneg _ (Int.mul_nonneg haP hg)
  have := quo_mono_left _ _ ⟨ui⟩ h0 hui h1
  omega

theorem syncBorAmt_mono (a : Int) (ui : Option Int) (g g' : Int) (ha : 0 ≤ a) (hui : ∀ v, ui = some v → 0 < v)
    (h : g ≤ g') : syncBorAmt a ui g ≤ syncBorAmt a ui g' := by
  unfold syncBorAmt
  cases ui with
  | none => exact Int.le_refl _
  | some v =>
    have := interestQM_mono a v g g' ha (hui v rfl) h
    simp only; omega

theorem syncSupAmt_mono (a : Int) (ui : Option Int) (g g' : Int) (ha : 0 ≤ a) (hui : ∀ v, ui = some v → 0 < v)
    (hg : 0 ≤ g) (h : g ≤ g') : syncSupAmt a ui g ≤ syncSupAmt a ui g' := by
  unfold syncSupAmt
  cases ui with
  | none => exact Int.le_refl _
  | some v =>
    have := interestMQ_mono a v g g' ha (hui v rfl) hg h
    simp only
    split <;> split <;> omega

/-- the stored amount is a lower bound of the supply-side sync whatever the index does -/
theorem syncSupAmt_ge (a : Int) (ui : Option Int) (g : Int) : a ≤ syncSupAmt a ui g := by
  unfold syncSupAmt
  cases ui with
  | none => exact Int.le_refl _
  | some v => simp only; split <;> omega

/-- query-side (`GetSyncedBorrow` / `GetSyncedDeposit`): when both evaluations succeed the later one is not smaller -/
theorem loadSyncedAmt_mono (a : Int) (ui : Option Int) (g g' : Int) (ha : 0 ≤ a) (hui : ∀ v, ui = some v → 0 < v)
    (h : g ≤ g') (x y : Int) (hx : loadSyncedAmt a ui (some g) = .ok x) (hy : loadSyncedAmt a ui (some g') = .ok y) :
    x ≤ y := by
  unfold loadSyncedAmt at hx hy
  cases ui with
  | none => simp only at hx hy; cases hx; cases hy; exact Int.le_refl _
  | some v =>
    simp only at hx hy
    have := interestQM_mono a v g g' ha (hui v rfl) h
    split at hx
    · cases hx
    split at hx
    · cases hx
    split at hy
    · cases hy
    split at hy
    · cases hy
    cases hx; cases hy; omega

/-- … and a query that succeeded keeps succeeding while the index does not decrease -/
theorem loadSyncedAmt_ok_mono (a : Int) (ui : Option Int) (g g' : Int) (ha : 0 ≤ a) (hui : ∀ v, ui = some v → 0 < v)
    (h : g ≤ g') (x : Int) (hx : loadSyncedAmt a ui (some g) = .ok x) :
    ∃ y, loadSyncedAmt a ui (some g') = .ok y := by
  unfold loadSyncedAmt at hx ⊢
  cases ui with
  | none => exact ⟨a, rfl⟩
  | some v =>
    simp only at hx ⊢
    have := interestQM_mono a v g g' ha (hui v rfl) h
    split at hx
    · cases hx
    rename_i hv
    split at hx
    · cases hx
    rename_i hi
    simp only [hv, ite_false]
    have : ¬ interestQM a v g' < 0 := by omega
    simp only [this, ite_false]
    exact ⟨_, rfl⟩

/-! ### AccrueInterest -/

theorem upd_same {α : Type} (f : Nat → α) (k : Nat) (v : α) : upd f k v k = v := by unfold upd; simp
theorem upd_other {α : Type} (f : Nat → α) (k x : Nat) (v : α) (h : x ≠ k) : upd f k v x = f x := by
  unfold upd; simp [h]

/-- `AccrueInterest` never lowers the borrow index when the per-second factor is ≥ 1 -/
theorem accrue_brwIdx (cfg : Cfg) (s s' : St) (d : Denom) (now : Int) (phi : Dec) (apyPos : Bool)
    (hphi : P ≤ phi.m) (h0 : ∀ v, s.brwIdx d = some v → 0 ≤ v)
    (h : accrue cfg s d now phi apyPos = .ok s') :
    (∀ e, e ≠ d → s'.brwIdx e = s.brwIdx e) ∧
    (s.brwIdx d).getD P ≤ (s'.brwIdx d).getD P ∧ (s.brwIdx d).getD 0 ≤ (s'.brwIdx d).getD 0 := by
  have hb : 0 ≤ (s.brwIdx d).getD P := by
    cases hv : s.brwIdx d with
    | none => simp [P_val]
    | some v => simpa using h0 v hv
  have hb0 : (s.brwIdx d).getD 0 ≤ (s.brwIdx d).getD P := by
    cases hv : s.brwIdx d with
    | none => simp [P_val]
    | some v => simp
  unfold accrue at h
  split at h
  · cases h; exact ⟨fun _ _ => rfl, Int.le_refl _, Int.le_refl _⟩
  split at h
  · cases h; exact ⟨fun _ _ => rfl, Int.le_refl _, Int.le_refl _⟩
  split at h
  · cases h; exact ⟨fun _ _ => rfl, Int.le_refl _, Int.le_refl _⟩
  simp only at h
  split at h
  · cases h
    refine ⟨fun e he => upd_other _ _ _ _ he, ?_, ?_⟩
    · simp only [upd_same, Option.getD_some]; exact Int.le_refl _
    · simp only [upd_same, Option.getD_some]; exact hb0
  split at h
  · cases h
  cases h
  have hge : (s.brwIdx d).getD P ≤ (Dec.mul ⟨(s.brwIdx d).getD P⟩ phi).m := by
    unfold Dec.mul; exact chopRound_mul_ge_of_one_le _ phi.m hb hphi
  refine ⟨fun e he => upd_other _ _ _ _ he, ?_, ?_⟩
  · simp only [upd_same, Option.getD_some]; exact hge
  · simp only [upd_same, Option.getD_some]; omega

theorem supplyFactor_ge_one (newInterest cash borrows reserves : Int) (hi : 0 ≤ newInterest) :
    P ≤ (supplyFactor newInterest cash borrows reserves).m := by
  unfold supplyFactor
  simp only
  split
  · simp [Dec.one]
  · rename_i hne
    have ht : 0 < (((Dec.ofInt cash).add (Dec.ofInt borrows)).sub (Dec.ofInt reserves)).m := by omega
    have hq := quo_nonneg (Dec.ofInt newInterest) _ (by unfold Dec.ofInt; exact Int.mul_nonneg hi (by decide)) ht
    have hadd : ∀ x : Dec, (x.add Dec.one).m = x.m + P := fun x => rfl
    rw [hadd]; omega

/-- `AccrueInterest` does not lower the supply index -/
theorem accrue_supIdx (cfg : Cfg) (s s' : St) (d : Denom) (now : Int) (phi : Dec) (apyPos : Bool)
    (h0 : ∀ v, s.supIdx d = some v → 0 ≤ v)
    (h : accrue cfg s d now phi apyPos = .ok s') :
    (∀ e, e ≠ d → s'.supIdx e = s.supIdx e) ∧
    (s.supIdx d).getD P ≤ (s'.supIdx d).getD P ∧ (s.supIdx d).getD 0 ≤ (s'.supIdx d).getD 0 := by
  have hb : 0 ≤ (s.supIdx d).getD P := by
    cases hv : s.supIdx d with
    | none => simp [P_val]
    | some v => simpa using h0 v hv
  have hb0 : (s.supIdx d).getD 0 ≤ (s.supIdx d).getD P := by
    cases hv : s.supIdx d with
    | none => simp [P_val]
    | some v => simp
  unfold accrue at h
  split at h
  · cases h; exact ⟨fun _ _ => rfl, Int.le_refl _, Int.le_refl _⟩
  split at h
  · cases h; exact ⟨fun _ _ => rfl, Int.le_refl _, Int.le_refl _⟩
  split at h
  · cases h; exact ⟨fun _ _ => rfl, Int.le_refl _, Int.le_refl _⟩
  simp only at h
  split at h
  · cases h
    refine ⟨fun e he => upd_other _ _ _ _ he, ?_, ?_⟩
    · simp only [upd_same, Option.getD_some]; exact Int.le_refl _
    · simp only [upd_same, Option.getD_some]; exact hb0
  split at h
  · cases h
  rename_i hneg
  cases h
  have hsn : 0 ≤ (phi.mul (Dec.ofInt (s.borrowed d))).truncateInt - s.borrowed d -
      ((Dec.ofInt ((phi.mul (Dec.ofInt (s.borrowed d))).truncateInt - s.borrowed d)).mul (cfg.mkt d).reserveFactor).truncateInt := by
    omega
  have hf := supplyFactor_ge_one _ (s.cash d) (s.borrowed d) (s.reserves d) hsn
  have hge : ∀ f : Dec, P ≤ f.m → (s.supIdx d).getD P ≤ (Dec.mul ⟨(s.supIdx d).getD P⟩ f).m := by
    intro f hf; unfold Dec.mul; exact chopRound_mul_ge_of_one_le _ _ hb hf
  have hge' := hge _ hf
  refine ⟨fun e he => upd_other _ _ _ _ he, ?_, ?_⟩
  · simp only [upd_same, Option.getD_some]; exact hge'
  · simp only [upd_same, Option.getD_some]; omega

/-- `AccrueInterest` touches no user record, no balance and starts no auction -/
theorem accrue_frame (cfg : Cfg) (s s' : St) (d : Denom) (now : Int) (phi : Dec) (apyPos : Bool)
    (h : accrue cfg s d now phi apyPos = .ok s') :
    s'.dep = s.dep ∧ s'.depIdx = s.depIdx ∧ s'.bor = s.bor ∧ s'.borIdx = s.borIdx ∧ s'.cash = s.cash ∧
    s'.bal = s.bal ∧ s'.aucs = s.aucs := by
  unfold accrue at h
  split at h
  · cases h; exact ⟨rfl, rfl, rfl, rfl, rfl, rfl, rfl⟩
  split at h
  · cases h; exact ⟨rfl, rfl, rfl, rfl, rfl, rfl, rfl⟩
  split at h
  · cases h; exact ⟨rfl, rfl, rfl, rfl, rfl, rfl, rfl⟩
  simp only at h
  split at h
  · cases h; exact ⟨rfl, rfl, rfl, rfl, rfl, rfl, rfl⟩
  split at h
  · cases h
  cases h; exact ⟨rfl, rfl, rfl, rfl, rfl, rfl, rfl⟩

theorem interest_nonneg (phi : Dec) (b : Int) (hphi : P ≤ phi.m) (hb : 0 ≤ b) :
    0 ≤ (phi.mul (Dec.ofInt b)).truncateInt - b := by
  have h1 : b * P ≤ (phi.mul (Dec.ofInt b)).m := by
    unfold Dec.mul Dec.ofInt
    simp only
    rw [Int.mul_comm phi.m (b * P)]
    exact chopRound_mul_ge_of_one_le (b * P) phi.m (Int.mul_nonneg hb (by decide)) hphi
  have h2 := tquo_P_mono _ _ h1
  rw [tquo_P_mulP] at h2
  unfold Dec.truncateInt chopTrunc
  omega

theorem reservesNew_bounds (i : Int) (rf : Dec) (hi : 0 ≤ i) (h0 : 0 ≤ rf.m) (h1 : rf.m ≤ P) :
    0 ≤ ((Dec.ofInt i).mul rf).truncateInt ∧ ((Dec.ofInt i).mul rf).truncateInt ≤ i := by
  have hiP : 0 ≤ i * P := Int.mul_nonneg hi (by decide)
  have hlo : 0 ≤ ((Dec.ofInt i).mul rf).m := by
    unfold Dec.mul Dec.ofInt; simp only
    exact chopRound_nonneg _ (Int.mul_nonneg hiP h0)
  have hhi : ((Dec.ofInt i).mul rf).m ≤ i * P := by
    unfold Dec.mul Dec.ofInt; simp only
    have := chopRound_mono _ _ (Int.mul_le_mul_of_nonneg_left h1 hiP)
    rw [chopRound_mul_P] at this; exact this
  unfold Dec.truncateInt chopTrunc
  have a := tquo_P_mono _ _ hlo
  have b := tquo_P_mono _ _ hhi
  rw [tquo_P_mulP] at b
  have h00 : tquo 0 P = 0 := by decide
  omega

/-- `AccrueInterest` cannot panic (factor ≥ 1, reserve factor in [0,1], borrowed total not negative) -/
theorem accrue_no_panic (cfg : Cfg) (s : St) (d : Denom) (now : Int) (phi : Dec) (apyPos : Bool)
    (hphi : P ≤ phi.m) (hb : 0 ≤ s.borrowed d) (hrf0 : 0 ≤ (cfg.mkt d).reserveFactor.m)
    (hrf1 : (cfg.mkt d).reserveFactor.m ≤ P) :
    accrue cfg s d now phi apyPos ≠ .panic := by
  intro h
  unfold accrue at h
  split at h
  · cases h
  split at h
  · cases h
  split at h
  · cases h
  simp only at h
  split at h
  · cases h
  split at h
  · rename_i hneg
    have hi := interest_nonneg phi (s.borrowed d) hphi hb
    have hr := reservesNew_bounds _ (cfg.mkt d).reserveFactor hi hrf0 hrf1
    omega
  · cases h

/-! ### sync frames and caps -/

/-- everything outside the deposit/borrow records is the same in both states -/
def SameGlobals (s s' : St) : Prop :=
  s'.supIdx = s.supIdx ∧ s'.brwIdx = s.brwIdx ∧ s'.supplied = s.supplied ∧ s'.borrowed = s.borrowed ∧
  s'.reserves = s.reserves ∧ s'.cash = s.cash ∧ s'.bal = s.bal ∧ s'.accr = s.accr ∧ s'.aucs = s.aucs

theorem any_false_of_mem {l : List Denom} {p : Denom → Bool} (h : l.any p = false) (d : Denom) (hd : d ∈ l) : p d = false := by
  rw [List.any_eq_false] at h
  have := h d hd
  simpa using this

/-- `SyncBorrowInterest`: only the user's borrow record changes; amounts never decrease -/
theorem syncBorrow_spec (cfg : Cfg) (s s1 : St) (u : User) (h : syncBorrow cfg s u = .ok s1) :
    s1.dep = s.dep ∧ s1.depIdx = s.depIdx ∧ SameGlobals s s1 ∧
    (∀ v, v ≠ u → s1.bor v = s.bor v ∧ s1.borIdx v = s.borIdx v) ∧
    (∀ d, d ∈ cfg.ds → s.bor u d ≤ s1.bor u d) ∧
    (∀ d, d ∈ cfg.ds → s1.bor u d = if 0 < s.bor u d then syncBorAmt (s.bor u d) (s.borIdx u d) ((s.brwIdx d).getD 0) else s.bor u d) := by
  unfold syncBorrow at h
  simp only at h
  split at h
  · cases h
    refine ⟨rfl, rfl, ⟨rfl, rfl, rfl, rfl, rfl, rfl, rfl, rfl, rfl⟩, fun _ _ => ⟨rfl, rfl⟩, fun _ _ => Int.le_refl _, ?_⟩
    rename_i hemp
    intro d hd
    split
    · rename_i hpos
      have hm : d ∈ supp cfg.ds (s.bor u) := (mem_supp _ _ _).mpr ⟨hd, hpos⟩
      rw [List.isEmpty_iff] at hemp
      rw [hemp] at hm; cases hm
    · rfl
  split at h
  · cases h
  rename_i hne hnp
  cases h
  refine ⟨rfl, rfl, ⟨rfl, rfl, rfl, rfl, rfl, rfl, rfl, rfl, rfl⟩, ?_, ?_, ?_⟩
  · intro v hv; exact ⟨upd_other _ _ _ _ hv, upd_other _ _ _ _ hv⟩
  · intro d hd
    simp only [upd_same]
    split
    · rename_i hpos
      have hm : d ∈ supp cfg.ds (s.bor u) := (mem_supp _ _ _).mpr ⟨hd, hpos⟩
      have hnp' := any_false_of_mem (by simpa using hnp) d hm
      unfold syncBorPanics at hnp'
      unfold syncBorAmt
      cases hi : s.borIdx u d with
      | none => simp
      | some v =>
        simp only [hi] at hnp' ⊢
        have : ¬ interestQM (s.bor u d) v ((s.brwIdx d).getD 0) < 0 := by
          intro hlt; simp [hlt] at hnp'
        omega
    · exact Int.le_refl _
  · intro d _; simp only [upd_same]


/-- `SyncSupplyInterest`: only the user's deposit record changes; amounts never decrease -/
theorem syncSupply_spec (cfg : Cfg) (s s1 : St) (u : User) (h : syncSupply cfg s u = .ok s1) :
    s1.bor = s.bor ∧ s1.borIdx = s.borIdx ∧ SameGlobals s s1 ∧
    (∀ v, v ≠ u → s1.dep v = s.dep v ∧ s1.depIdx v = s.depIdx v) ∧
    (∀ d, s.dep u d ≤ s1.dep u d) ∧
    (∀ d, d ∈ cfg.ds → s1.dep u d = if 0 < s.dep u d then syncSupAmt (s.dep u d) (s.depIdx u d) ((s.supIdx d).getD 0) else s.dep u d) := by
  unfold syncSupply at h
  simp only at h
  split at h
  · cases h
    refine ⟨rfl, rfl, ⟨rfl, rfl, rfl, rfl, rfl, rfl, rfl, rfl, rfl⟩, fun _ _ => ⟨rfl, rfl⟩, fun _ => Int.le_refl _, ?_⟩
    rename_i hemp
    intro d hd
    split
    · rename_i hpos
      have hm : d ∈ supp cfg.ds (s.dep u) := (mem_supp _ _ _).mpr ⟨hd, hpos⟩
      rw [List.isEmpty_iff] at hemp
      rw [hemp] at hm; cases hm
    · rfl
  split at h
  · cases h
  cases h
  refine ⟨rfl, rfl, ⟨rfl, rfl, rfl, rfl, rfl, rfl, rfl, rfl, rfl⟩, ?_, ?_, ?_⟩
  · intro v hv; exact ⟨upd_other _ _ _ _ hv, upd_other _ _ _ _ hv⟩
  · intro d
    simp only [upd_same]
    split
    · exact syncSupAmt_ge _ _ _
    · exact Int.le_refl _
  · intro d _; simp only [upd_same]

theorem capAmount_le_avail (avail req : Coins) (d : Denom) (h : 0 ≤ avail d) : capAmount avail req d ≤ avail d := by
  unfold capAmount; split <;> (try split) <;> omega

theorem capAmount_le_req (avail req : Coins) (d : Denom) (h : 0 ≤ req d) : capAmount avail req d ≤ req d := by
  unfold capAmount; split <;> (try split) <;> omega

/-- what a successful `Withdraw` pays out: the request capped by the *synced* deposit -/
theorem withdraw_caps (cfg : Cfg) (s s' : St) (u : User) (coins : Coins) (h : withdraw cfg s u coins = .ok s') :
    ∃ s1 s2, syncBorrow cfg s u = .ok s1 ∧ syncSupply cfg s1 u = .ok s2 ∧
      ∀ d, s'.bal u d = s.bal u d + capAmount (s2.dep u) coins d ∧
           s'.cash d = s.cash d - capAmount (s2.dep u) coins d ∧
           s'.dep u d = s2.dep u d - capAmount (s2.dep u) coins d := by
  unfold withdraw at h
  split at h
  · cases h
  split at h
  · cases h
  · cases h
  rename_i s1 h1
  split at h
  · cases h
  · cases h
  rename_i s2 h2
  simp only at h
  split at h
  · cases h
  split at h
  · cases h
  · cases h
  · cases h
  · split at h
    · cases h
    split at h
    · cases h
    split at h
    · cases h
    cases h
    obtain ⟨-, -, g1, -, -, -⟩ := syncBorrow_spec cfg s s1 u h1
    obtain ⟨-, -, g2, -, -, -⟩ := syncSupply_spec cfg s1 s2 u h2
    obtain ⟨-, -, -, -, -, c1, b1, -, -⟩ := g1
    obtain ⟨-, -, -, -, -, c2, b2, -, -⟩ := g2
    refine ⟨s1, s2, h1, h2, ?_⟩
    intro d
    simp only [upd_same, addC, subC, b2, b1, c2, c1, and_self]

/-- what a successful `Repay` takes from the sender: the request capped by the *synced* borrow -/
theorem repay_caps (cfg : Cfg) (s s' : St) (sender owner : User) (coins : Coins)
    (h : repay cfg s sender owner coins = .ok s') :
    ∃ s1, syncBorrow cfg s owner = .ok s1 ∧
      ∀ d, s'.bal sender d = s.bal sender d - capAmount (s1.bor owner) coins d ∧
           s'.cash d = s.cash d + capAmount (s1.bor owner) coins d ∧
           s'.bor owner d = s1.bor owner d - capAmount (s1.bor owner) coins d := by
  unfold repay at h
  split at h
  · cases h
  split at h
  · cases h
  · cases h
  rename_i s1 h1
  simp only at h
  split at h
  · cases h
  split at h
  · cases h
  · cases h
  · split at h
    · cases h
    split at h
    · cases h
    split at h
    · cases h
    cases h
    obtain ⟨-, -, g1, -, -, -⟩ := syncBorrow_spec cfg s s1 owner h1
    obtain ⟨-, -, -, -, -, c1, b1, -, -⟩ := g1
    refine ⟨s1, h1, ?_⟩
    intro d
    simp only [upd_same, addC, subC, b1, c1, and_self]


/-! ### witnesses for the interest counterexamples -/
namespace W

/-- denom 0 after bad debt: nothing in cash, 10 still borrowed, reserves 100 (> cash + borrows) -/
def stF4 : St :=
  { st with borrowed := fun d => if d = 0 then 10 else 0, cash := zeroC,
            reserves := fun d => if d = 0 then 100 else 0, brwIdx := fun _ => some P }

/-- cash + borrows = reserves with borrows > 0 -/
def stDiv0 : St :=
  { st with borrowed := fun d => if d = 0 then 1 else 0, cash := zeroC,
            reserves := fun d => if d = 0 then 1 else 0, brwIdx := fun _ => some P }

end W

/-- decidable reading of "the supply index did not decrease" for one accrual -/
def supplyIdxKept (cfg : Cfg) (s : St) (d : Denom) (now : Int) (phi : Dec) (apyPos : Bool) : Bool :=
  match accrue cfg s d now phi apyPos with
  | .ok s' => decide ((s.supIdx d).getD P ≤ (s'.supIdx d).getD P)
  | _ => true

def isPanic {α : Type} : Res α → Bool
  | .panic => true
  | _ => false

end KV.Hard
