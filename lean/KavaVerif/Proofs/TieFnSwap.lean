/-
  Source tie ("tie 1b") for x/swap/types/base_pool.go: the Lean definitions REGENERATED from the Go source on
  every run (Generated/FnSwap.lean, tools/extract/fn*.go) equal the hand-written model functions of
  Model/Swap.lean that the C07 theorems are about.  An edit of a Go function changes the generated definition
  and its equality proof stops checking.

  Encoding: `sdkmath.Int` / `big.Int` = `Int`, `sdk.Dec` = `KV.Dec`, `*BasePool` = the generated structure
  `GoFn.Swap.BasePool` (fields reservesA, reservesB, totalShares) = `swPool` of the model's `Pool`.  A method
  that assigns fields of its pointer receiver returns the receiver after the call as first component.
  The model writes a Go panic as `none` (`R.ofOption`), and the `error` of the two constructors as `none`.
-/
import KavaVerif.Generated.FnSwap
import KavaVerif.Model.Swap
import KavaVerif.Proofs.TieFnBase

namespace KV.TieFn
open KV KV.Go KV.SW

/-- model pool ↔ translated `BasePool` -/
def swPool (p : Pool) : GoFn.Swap.BasePool := ⟨p.a, p.b, p.s⟩

theorem isqrtAux_eq : ∀ (f n : Nat), Go.isqrtAux f n = SW.isqrtAux f n := by
  intro f
  induction f with
  | zero => intro n; rfl
  | succ k ih => intro n; simp only [Go.isqrtAux, SW.isqrtAux, ih]

theorem swap_calculateInitialShares (a b : Int) (h : 0 ≤ a * b) :
    GoFn.Swap.calculateInitialShares_translated = true ∧
    GoFn.Swap.calculateInitialShares a b = R.ok (initialShares a b) := by
  refine ⟨rfl, ?_⟩
  have h' : ¬ a * b < 0 := by omega
  simp only [GoFn.Swap.calculateInitialShares, Go.bigSqrt, initialShares, isqrt, isqrtAux_eq, h', if_false]

theorem swap_NewBasePool (a b : Int) :
    GoFn.Swap.NewBasePool_translated = true ∧
    GoFn.Swap.NewBasePool a b = (match newBasePool a b with | none => R.err | some p => R.ok (swPool p)) := by
  refine ⟨rfl, ?_⟩
  simp only [GoFn.Swap.NewBasePool, newBasePool]
  tie_norm
  tie_case h : a ≤ 0 ∨ b ≤ 0
  have hm : 0 ≤ a * b := Int.mul_nonneg (by omega) (by omega)
  simp only [(swap_calculateInitialShares a b hm).2]
  tie_norm
  rfl

theorem swap_NewBasePoolWithExistingShares (a b s : Int) :
    GoFn.Swap.NewBasePoolWithExistingShares_translated = true ∧
    GoFn.Swap.NewBasePoolWithExistingShares a b s
      = (match newBasePoolWithShares a b s with | none => R.err | some p => R.ok (swPool p)) := by
  refine ⟨rfl, ?_⟩
  simp only [GoFn.Swap.NewBasePoolWithExistingShares, newBasePoolWithShares]
  tie_norm
  tie_case h : a ≤ 0 ∨ b ≤ 0
  tie_case h2 : s ≤ 0
  rfl

theorem swap_ShareValue (p : Pool) (sh : Int) :
    GoFn.Swap.ShareValue_translated = true ∧
    GoFn.Swap.ShareValue (swPool p) sh = R.ofOption (shareValue p sh) := by
  refine ⟨rfl, ?_⟩
  obtain ⟨a, b, s⟩ := p
  show GoFn.Swap.ShareValue ⟨a, b, s⟩ sh = _
  simp only [GoFn.Swap.ShareValue, GoFn.Swap.assertSharesArePositive, GoFn.Swap.assertSharesAreLessThanTotal,
    shareValue, Go.bigQuo]
  tie_norm
  tie_case h1 : 0 < sh
  tie_case h2 : s < sh
  have hs : s ≠ 0 := by omega
  simp only [hs, if_false]
  tie_norm

theorem swap_AddLiquidity (p : Pool) (da db : Int) :
    GoFn.Swap.AddLiquidity_translated = true ∧
    GoFn.Swap.AddLiquidity (swPool p) da db
      = R.ofOption ((addLiquidity p da db).map fun r => (swPool r.1, r.2.1, r.2.2.1, r.2.2.2)) := by
  refine ⟨rfl, ?_⟩
  obtain ⟨a, b, s⟩ := p
  show GoFn.Swap.AddLiquidity ⟨a, b, s⟩ da db = _
  simp only [GoFn.Swap.AddLiquidity, GoFn.Swap.assertDepositsArePositive, GoFn.Swap.IsEmpty,
    GoFn.Swap.assertReservesArePositive, GoFn.Swap.ReservesA, GoFn.Swap.ReservesB, GoFn.Swap.TotalShares,
    addLiquidity, Go.bigQuo, swPool]
  tie_norm
  tie_case h1 : 0 < da
  tie_case h2 : 0 < db
  by_cases h3 : a = 0 ∧ b = 0
  · have hm : 0 ≤ da * db := Int.mul_nonneg (by omega) (by omega)
    simp only [h3, and_self, if_true, (swap_calculateInitialShares da db hm).2]
    tie_norm
  · simp only [h3, if_false]
    tie_case h4 : 0 < a
    tie_case h5 : 0 < b
    have ha : a ≠ 0 := by omega
    have hb : b ≠ 0 := by omega
    simp only [ha, hb, if_false]
    tie_norm
    tie_case h6 : b * da ≤ a * db
    all_goals (split <;> rfl)

theorem swap_RemoveLiquidity (p : Pool) (sh : Int) :
    GoFn.Swap.RemoveLiquidity_translated = true ∧
    GoFn.Swap.RemoveLiquidity (swPool p) sh
      = R.ofOption ((removeLiquidity p sh).map fun r => (swPool r.1, r.2.1, r.2.2)) := by
  refine ⟨rfl, ?_⟩
  simp only [GoFn.Swap.RemoveLiquidity, (swap_ShareValue p sh).2, removeLiquidity]
  cases hv : shareValue p sh with
  | none => tie_norm
  | some w =>
    obtain ⟨wa, wb⟩ := w
    obtain ⟨a, b, s⟩ := p
    simp only [GoFn.Swap.assertReservesAreNotNegative, swPool]
    tie_norm
    tie_case h1 : a - wa < 0
    tie_case h2 : b - wb < 0

theorem swap_calculateOutputForExactInput (g : GoFn.Swap.BasePool) (x inR outR : Int) (fee : Dec) :
    GoFn.Swap.calculateOutputForExactInput_translated = true ∧
    GoFn.Swap.calculateOutputForExactInput g x inR outR fee = R.ofOption (outputForExactInput x inR outR fee) := by
  refine ⟨rfl, ?_⟩
  simp only [GoFn.Swap.calculateOutputForExactInput, GoFn.Swap.assertSwapInputIsValid, GoFn.Swap.assertFeeIsValid,
    outputForExactInput, pquo, Go.bigQuo]
  dsimp only [Dec.isNegative, Dec.le, Dec.one]
  tie_norm
  tie_case h1 : 0 < x
  tie_case h2 : fee.m < 0 ∨ P ≤ fee.m
  by_cases h3 : inR + ((Dec.ofInt x).mul (Dec.sub ⟨P⟩ fee)).truncateInt = 0 <;>
    simp only [h3, if_true, if_false] <;> rfl

theorem swap_calculateInputForExactOutput (g : GoFn.Swap.BasePool) (out outR inR : Int) (fee : Dec) :
    GoFn.Swap.calculateInputForExactOutput_translated = true ∧
    GoFn.Swap.calculateInputForExactOutput g out outR inR fee = R.ofOption (inputForExactOutput out outR inR fee) := by
  refine ⟨rfl, ?_⟩
  simp only [GoFn.Swap.calculateInputForExactOutput, GoFn.Swap.assertSwapOutputIsValid, GoFn.Swap.assertFeeIsValid,
    inputForExactOutput, Go.bigQuoRem, Go.decQuo]
  dsimp only [Dec.isNegative, Dec.le, Dec.one, Dec.sub]
  tie_norm
  tie_case h1 : 0 < out
  tie_case h2 : outR ≤ out
  tie_case h3 : fee.m < 0 ∨ P ≤ fee.m
  have hn : outR - out ≠ 0 := by omega
  have hf : P - fee.m ≠ 0 := by omega
  simp only [hn, hf, if_false]
  tie_norm
  have hr : inR * out - (outR - out) * tquo (inR * out) (outR - out)
      = inR * out - tquo (inR * out) (outR - out) * (outR - out) := by rw [Int.mul_comm (outR - out)]
  rw [hr]
  split <;> rfl

theorem swap_assertInvariantAndUpdateReserves (p : Pool) (newA feeA newB feeB : Int) :
    GoFn.Swap.assertInvariantAndUpdateReserves_translated = true ∧
    GoFn.Swap.assertInvariantAndUpdateReserves (swPool p) newA feeA newB feeB
      = R.ofOption ((assertInvariantAndUpdate p newA feeA newB feeB).map swPool) := by
  refine ⟨rfl, ?_⟩
  obtain ⟨a, b, s⟩ := p
  show GoFn.Swap.assertInvariantAndUpdateReserves ⟨a, b, s⟩ newA feeA newB feeB = _
  simp only [GoFn.Swap.assertInvariantAndUpdateReserves, GoFn.Swap.assertInvariant, assertInvariantAndUpdate]
  tie_norm
  tie_case h : (newA - feeA) * (newB - feeB) < a * b
  rfl

theorem swap_SwapExactAForB (p : Pool) (x : Int) (fee : Dec) :
    GoFn.Swap.SwapExactAForB_translated = true ∧
    GoFn.Swap.SwapExactAForB (swPool p) x fee
      = R.ofOption ((swapExactAForB p x fee).map fun r => (swPool r.1, r.2.1, r.2.2)) := by
  refine ⟨rfl, ?_⟩
  simp only [GoFn.Swap.SwapExactAForB, swapExactAForB, (swap_calculateOutputForExactInput _ _ _ _ _).2]
  show (R.ofOption (outputForExactInput x p.a p.b fee) >>= _) = _
  cases outputForExactInput x p.a p.b fee with
  | none => rfl
  | some w =>
    obtain ⟨o, fv⟩ := w
    tie_norm
    show (GoFn.Swap.assertInvariantAndUpdateReserves (swPool p) (p.a + x) fv (p.b - o) 0 >>= _) = _
    rw [(swap_assertInvariantAndUpdateReserves p (p.a + x) fv (p.b - o) 0).2]
    cases assertInvariantAndUpdate p (p.a + x) fv (p.b - o) 0 <;> rfl

theorem swap_SwapExactBForA (p : Pool) (x : Int) (fee : Dec) :
    GoFn.Swap.SwapExactBForA_translated = true ∧
    GoFn.Swap.SwapExactBForA (swPool p) x fee
      = R.ofOption ((swapExactBForA p x fee).map fun r => (swPool r.1, r.2.1, r.2.2)) := by
  refine ⟨rfl, ?_⟩
  simp only [GoFn.Swap.SwapExactBForA, swapExactBForA, (swap_calculateOutputForExactInput _ _ _ _ _).2]
  show (R.ofOption (outputForExactInput x p.b p.a fee) >>= _) = _
  cases outputForExactInput x p.b p.a fee with
  | none => rfl
  | some w =>
    obtain ⟨o, fv⟩ := w
    tie_norm
    show (GoFn.Swap.assertInvariantAndUpdateReserves (swPool p) (p.a - o) 0 (p.b + x) fv >>= _) = _
    rw [(swap_assertInvariantAndUpdateReserves p (p.a - o) 0 (p.b + x) fv).2]
    cases assertInvariantAndUpdate p (p.a - o) 0 (p.b + x) fv <;> rfl

theorem swap_SwapAForExactB (p : Pool) (x : Int) (fee : Dec) :
    GoFn.Swap.SwapAForExactB_translated = true ∧
    GoFn.Swap.SwapAForExactB (swPool p) x fee
      = R.ofOption ((swapAForExactB p x fee).map fun r => (swPool r.1, r.2.1, r.2.2)) := by
  refine ⟨rfl, ?_⟩
  simp only [GoFn.Swap.SwapAForExactB, swapAForExactB, (swap_calculateInputForExactOutput _ _ _ _ _).2]
  show (R.ofOption (inputForExactOutput x p.b p.a fee) >>= _) = _
  cases inputForExactOutput x p.b p.a fee with
  | none => rfl
  | some w =>
    obtain ⟨o, fv⟩ := w
    tie_norm
    show (GoFn.Swap.assertInvariantAndUpdateReserves (swPool p) (p.a + o) fv (p.b - x) 0 >>= _) = _
    rw [(swap_assertInvariantAndUpdateReserves p (p.a + o) fv (p.b - x) 0).2]
    cases assertInvariantAndUpdate p (p.a + o) fv (p.b - x) 0 <;> rfl

theorem swap_SwapBForExactA (p : Pool) (x : Int) (fee : Dec) :
    GoFn.Swap.SwapBForExactA_translated = true ∧
    GoFn.Swap.SwapBForExactA (swPool p) x fee
      = R.ofOption ((swapBForExactA p x fee).map fun r => (swPool r.1, r.2.1, r.2.2)) := by
  refine ⟨rfl, ?_⟩
  simp only [GoFn.Swap.SwapBForExactA, swapBForExactA, (swap_calculateInputForExactOutput _ _ _ _ _).2]
  show (R.ofOption (inputForExactOutput x p.a p.b fee) >>= _) = _
  cases inputForExactOutput x p.a p.b fee with
  | none => rfl
  | some w =>
    obtain ⟨o, fv⟩ := w
    tie_norm
    show (GoFn.Swap.assertInvariantAndUpdateReserves (swPool p) (p.a - x) 0 (p.b + o) fv >>= _) = _
    rw [(swap_assertInvariantAndUpdateReserves p (p.a - x) 0 (p.b + o) fv).2]
    cases assertInvariantAndUpdate p (p.a - x) 0 (p.b + o) fv <;> rfl

/-- `assertSlippageWithinLimit` (x/swap/keeper/swap.go): error iff `¬ slippageOk` -/
theorem swap_assertSlippageWithinLimit (priceChange slip : Dec) :
    GoFn.Swap.assertSlippageWithinLimit_translated = true ∧
    GoFn.Swap.assertSlippageWithinLimit priceChange slip
      = (if KV.SW.slippageOk priceChange slip then R.ok () else R.err) := by
  refine ⟨rfl, ?_⟩
  simp only [GoFn.Swap.assertSlippageWithinLimit, KV.SW.slippageOk]
  dsimp only [Dec.lt]
  tie_norm

end KV.TieFn
