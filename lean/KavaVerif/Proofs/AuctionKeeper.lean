/-
  Helper lemmas for C06, part 3: the keeper state machine — invariant definitions, store lemmas,
  one specification lemma per bid function (validation, record update, complete coin flow).
  Core Lean only.
-/
import KavaVerif.Proofs.AuctionBank
set_option linter.unusedSimpArgs false
set_option linter.unusedVariables false

namespace KV.Auc

/-! ### invariants -/

/-- the auction module account is a blocked address of x/bank (app.go: every module account except
    five named ones); the harness asserts it on the real app -/
def EnvOk (env : Env) : Prop := env.blocked env.M = true

/-- well-formedness of one stored auction -/
def AWF (env : Env) (a : Auction) : Prop :=
  0 ≤ a.lot ∧ 0 ≤ a.bid ∧ 0 ≤ a.debt ∧ a.endT ≤ a.maxEnd ∧ a.initiator ≠ env.M ∧
  (a.kind = .collateral → a.bid ≤ a.maxBid ∧ weightsValid a.retAddrs a.retW = true)

def WF (env : Env) (s : St) : Prop :=
  ∀ i a, s.auc i = some a → a.id = i ∧ i < s.nextId ∧ AWF env a

/-- "The auction module account always holds exactly the coins its open auctions account for" -/
def Custody (env : Env) (s : St) : Prop := ∀ d, s.bal env.M d = totalCoins s d

/-- "every stored auction appears in the expiry index exactly once": the index is strictly sorted
    (hence duplicate free) and holds exactly the keys (end time, id) of the stored auctions -/
def IndexExact (s : St) : Prop :=
  Sorted s.index ∧ ∀ e i, (e, i) ∈ s.index ↔ ∃ a, s.auc i = some a ∧ a.endT = e

def Inv (env : Env) (s : St) : Prop := WF env s ∧ Custody env s ∧ IndexExact s

/-! ### store lemmas -/

theorem setAuction_bal (s : St) (a : Auction) : (setAuction s a).bal = s.bal := rfl
theorem setAuction_nextId (s : St) (a : Auction) : (setAuction s a).nextId = s.nextId := rfl
theorem setAuction_auc (s : St) (a : Auction) : (setAuction s a).auc = updA s.auc a.id (some a) := rfl
theorem deleteAuction_bal (s : St) (i : Nat) : (deleteAuction s i).bal = s.bal := rfl
theorem deleteAuction_nextId (s : St) (i : Nat) : (deleteAuction s i).nextId = s.nextId := rfl
theorem deleteAuction_auc (s : St) (i : Nat) : (deleteAuction s i).auc = updA s.auc i none := rfl

theorem setAuction_index (s : St) (a : Auction) (hkey : ∀ ex, s.auc a.id = some ex → ex.id = a.id)
    (h : IndexExact s) : IndexExact (setAuction s a) := by
  obtain ⟨hs, hm⟩ := h
  unfold IndexExact setAuction
  simp only
  cases hex : s.auc a.id with
  | none =>
    simp only
    refine ⟨idxInsert_sorted _ _ hs, ?_⟩
    intro e i
    rw [idxInsert_mem, hm e i]
    unfold updA
    by_cases hi : i = a.id
    · subst hi
      simp only [ite_true, hex]
      constructor
      · intro h
        rcases h with h | ⟨x, hx, _⟩
        · have := (Prod.mk.injEq _ _ _ _ ▸ h : e = a.endT ∧ a.id = a.id)
          exact ⟨a, rfl, this.1.symm⟩
        · cases hx
      · rintro ⟨x, hx, hxe⟩
        cases hx; left; rw [hxe]
    · simp only [hi, ite_false]
      constructor
      · intro h
        rcases h with h | h
        · have := (Prod.mk.injEq _ _ _ _ ▸ h : e = a.endT ∧ i = a.id)
          exact absurd this.2 hi
        · exact h
      · intro h; right; exact h
  | some ex =>
    simp only
    have hexid := hkey ex hex
    refine ⟨idxInsert_sorted _ _ (idxRemove_sorted _ _ hs), ?_⟩
    intro e i
    rw [idxInsert_mem, idxRemove_mem, hm e i]
    unfold updA
    by_cases hi : i = a.id
    · subst hi
      simp only [ite_true, hex]
      constructor
      · intro h
        rcases h with h | ⟨⟨x, hx, hxe⟩, hne⟩
        · have := (Prod.mk.injEq _ _ _ _ ▸ h : e = a.endT ∧ a.id = a.id)
          exact ⟨a, rfl, this.1.symm⟩
        · cases hx
          exfalso; apply hne; rw [hxe, hexid]
      · rintro ⟨x, hx, hxe⟩
        cases hx; left; rw [hxe]
    · simp only [hi, ite_false]
      constructor
      · intro h
        rcases h with h | ⟨h, _⟩
        · have := (Prod.mk.injEq _ _ _ _ ▸ h : e = a.endT ∧ i = a.id)
          exact absurd this.2 hi
        · exact h
      · intro h; right
        refine ⟨h, ?_⟩
        intro heq
        have := (Prod.mk.injEq _ _ _ _ ▸ heq : e = ex.endT ∧ i = ex.id)
        exact hi (this.2.trans hexid)

theorem deleteAuction_index (s : St) (i0 : Nat) (h : IndexExact s) : IndexExact (deleteAuction s i0) := by
  obtain ⟨hs, hm⟩ := h
  unfold IndexExact deleteAuction
  simp only
  cases hex : s.auc i0 with
  | none =>
    simp only
    refine ⟨hs, ?_⟩
    intro e i
    rw [hm e i]
    unfold updA
    by_cases hi : i = i0
    · subst hi
      simp only [ite_true, hex]
    · simp only [hi, ite_false]
  | some ex =>
    simp only
    refine ⟨idxRemove_sorted _ _ hs, ?_⟩
    intro e i
    rw [idxRemove_mem, hm e i]
    unfold updA
    by_cases hi : i = i0
    · subst hi
      simp only [ite_true, hex]
      constructor
      · rintro ⟨⟨x, hx, hxe⟩, hne⟩
        cases hx; exfalso; apply hne; rw [hxe]
      · rintro ⟨x, hx, _⟩; cases hx
    · simp only [hi, ite_false]
      constructor
      · rintro ⟨h1, _⟩; exact h1
      · intro h1
        refine ⟨h1, ?_⟩
        intro heq
        have := (Prod.mk.injEq _ _ _ _ ▸ heq : e = ex.endT ∧ i = i0)
        exact hi this.2

theorem totalCoins_set (s : St) (a : Auction) (hid : a.id < s.nextId) (d : Denom) :
    totalCoins (setAuction s a) d = totalCoins s d - modCoinsO (s.auc a.id) d + modCoins a d := by
  unfold totalCoins
  rw [setAuction_auc, setAuction_nextId, totalCoins_updA, ind_pos _ hid, ind_pos _ hid]
  rfl

theorem totalCoins_delete (s : St) (i : Nat) (hid : i < s.nextId) (d : Denom) :
    totalCoins (deleteAuction s i) d = totalCoins s d - modCoinsO (s.auc i) d := by
  unfold totalCoins
  rw [deleteAuction_auc, deleteAuction_nextId, totalCoins_updA, ind_pos _ hid, ind_pos _ hid]
  simp [modCoinsO]

theorem totalCoins_bal (s : St) (b : Bal) (d : Denom) : totalCoins { s with bal := b } d = totalCoins s d := rfl

/-- `StoreNewAuction` on a well-formed store: the new record gets the fresh id `nextId` -/
theorem storeNew_inv (env : Env) (s : St) (a : Auction) (hwf : WF env s) (hix : IndexExact s)
    (ha : AWF env a) :
    WF env (storeNew s a) ∧ IndexExact (storeNew s a) ∧
    (∀ d, totalCoins (storeNew s a) d = totalCoins s d + modCoins a d) ∧
    (storeNew s a).bal = s.bal := by
  have hnone : s.auc s.nextId = none := by
    cases h : s.auc s.nextId with
    | none => rfl
    | some x => have := (hwf _ _ h).2.1; omega
  refine ⟨?_, ?_, ?_, rfl⟩
  · intro i x hx
    unfold storeNew at hx ⊢
    simp only [setAuction_auc, updA] at hx
    split at hx
    · rename_i hi; cases hx; subst hi
      exact ⟨rfl, by simp [setAuction_nextId], ha⟩
    · obtain ⟨h1, h2, h3⟩ := hwf i x hx
      exact ⟨h1, by simp only [setAuction_nextId]; omega, h3⟩
  · have := setAuction_index s { a with id := s.nextId } (by intro ex hex; simp only at hex; rw [hnone] at hex; cases hex) hix
    exact this
  · intro d
    unfold storeNew totalCoins
    simp only [setAuction_auc, setAuction_nextId]
    simp only [sumTo]
    rw [totalCoins_updA, ind_neg _ (by omega), ind_neg _ (by omega)]
    simp [updA, modCoinsO, modCoins]

/-! ### `touch` -/

theorem endTime_le (now d maxEnd : Int) : endTime now d maxEnd ≤ maxEnd := by
  unfold endTime; split <;> omega

theorem endTime_le_bid (now d maxEnd : Int) : endTime now d maxEnd ≤ now + d := by
  unfold endTime; split <;> omega

theorem touch_fields (p : Params) (now dur : Int) (a : Auction) :
    (touch p now dur a).id = a.id ∧ (touch p now dur a).kind = a.kind ∧
    (touch p now dur a).initiator = a.initiator ∧ (touch p now dur a).lotD = a.lotD ∧
    (touch p now dur a).lot = a.lot ∧ (touch p now dur a).bidder = a.bidder ∧
    (touch p now dur a).bidD = a.bidD ∧ (touch p now dur a).bid = a.bid ∧
    (touch p now dur a).debtD = a.debtD ∧ (touch p now dur a).debt = a.debt ∧
    (touch p now dur a).maxBid = a.maxBid ∧ (touch p now dur a).retAddrs = a.retAddrs ∧
    (touch p now dur a).retW = a.retW ∧ (touch p now dur a).hasBids = true ∧
    (touch p now dur a).maxEnd = (if a.hasBids then a.maxEnd else now + p.maxDur) ∧
    (touch p now dur a).endT = endTime now dur (if a.hasBids then a.maxEnd else now + p.maxDur) :=
  ⟨rfl, rfl, rfl, rfl, rfl, rfl, rfl, rfl, rfl, rfl, rfl, rfl, rfl, rfl, rfl, rfl⟩

theorem touch_end_le (p : Params) (now dur : Int) (a : Auction) :
    (touch p now dur a).endT ≤ (touch p now dur a).maxEnd := endTime_le _ _ _

theorem touch_modCoins (p : Params) (now dur : Int) (a : Auction) (d : Denom) :
    modCoins (touch p now dur a) d = modCoins a d := rfl

/-! ### bid rules -/

theorem incOf_pos (old : Int) (inc : Dec) : 1 ≤ incOf old inc := by
  unfold incOf; simp only; split <;> omega

/-! ### specification lemmas of the four bid functions -/

/-- the refund step `if cond then refund … else some b`, with its flow -/
theorem refundIf_eff (env : Env) (c : Prop) [Decidable c] (b b' : Bal) (bidder old : Addr) (d : Denom)
    (n : Int) (h : (if c then refund env b bidder old d n else some b) = some b') :
    (c → env.blocked old = false) ∧
    ∀ z e, b' z e = b z e - ind (z = bidder ∧ e = d) (if c then n else 0)
                          + ind (z = old ∧ e = d) (if c then n else 0) := by
  by_cases hc : c
  · simp only [hc, ite_true] at h ⊢
    obtain ⟨h1, h2⟩ := refund_eff env b b' bidder old d n h
    exact ⟨fun _ => h1, h2⟩
  · simp only [hc, ite_false] at h ⊢
    cases h
    exact ⟨fun h => h.elim, fun z e => by simp [ind]⟩

theorem sendIf_eff (c : Prop) [Decidable c] (b b' : Bal) (x y : Addr) (d : Denom) (n : Int)
    (h : sendIf c b x y d n = some b') (hn : ¬ c → n = 0) (z : Addr) (e : Denom) :
    b' z e = b z e - ind (z = x ∧ e = d) n + ind (z = y ∧ e = d) n := by
  unfold sendIf at h
  by_cases hc : c
  · simp only [hc, ite_true] at h
    exact send_eff b b' x y d n h z e
  · simp only [hc, ite_false] at h
    cases h
    rw [hn hc]; simp [ind]

theorem refundDebt_eff (env : Env) (b b' : Bal) (a : Auction) (bidder : Addr)
    (h : refundDebt env b a bidder = some b') :
    (bidder ≠ a.bidder → a.bidder ≠ a.initiator → env.blocked a.bidder = false) ∧
    ∀ z e, b' z e = b z e - ind (z = bidder ∧ e = a.bidD) (if bidder ≠ a.bidder then a.bid else 0)
                        + ind (z = a.bidder ∧ e = a.bidD) (if bidder ≠ a.bidder then a.bid else 0) := by
  unfold refundDebt at h
  by_cases hc : bidder = a.bidder
  · simp only [hc, ne_eq, not_true_eq_false, ite_false] at h ⊢
    cases h
    exact ⟨fun h => h.elim, fun z e => by simp [ind]⟩
  · simp only [hc, ne_eq, not_false_eq_true, ite_true] at h ⊢
    cases h0 : send b bidder env.M a.bidD a.bid with
    | none => simp only [h0] at h; cases h
    | some b0 =>
      simp only [h0] at h
      by_cases hi : a.bidder = a.initiator
      · simp only [hi, ite_true] at h
        refine ⟨fun _ hn => absurd hi hn, ?_⟩
        intro z e
        have := send_eff b b0 bidder env.M a.bidD a.bid h0 z e
        have := send_eff b0 b' env.M a.initiator a.bidD a.bid h z e
        rw [hi]; omega
      · simp only [hi, ite_false] at h
        obtain ⟨hb, e2⟩ := sendM2A_eff env b0 b' env.M a.bidder a.bidD a.bid h
        refine ⟨fun _ _ => hb, ?_⟩
        intro z e
        have := send_eff b b0 bidder env.M a.bidD a.bid h0 z e
        have := e2 z e
        omega

theorem bidSurplus_spec (env : Env) (p : Params) (now : Int) (b b' : Bal) (a a' : Auction)
    (bidder : Addr) (denom : Denom) (amt : Int)
    (h : bidSurplus env p now b a bidder denom amt = .ok b' a') :
    denom = a.bidD ∧ minBidSurplus a.bid p.incS ≤ amt ∧
    a' = touch p now p.fwdDur { a with bidder := bidder, bid := amt } ∧
    (bidder ≠ a.bidder ∧ a.bid ≠ 0 → env.blocked a.bidder = false) ∧
    ∀ z e, b' z e = b z e
        - ind (z = bidder ∧ e = a.bidD) (if bidder ≠ a.bidder ∧ a.bid ≠ 0 then a.bid else 0)
        + ind (z = a.bidder ∧ e = a.bidD) (if bidder ≠ a.bidder ∧ a.bid ≠ 0 then a.bid else 0)
        - ind (z = bidder ∧ e = a.bidD) (amt - a.bid) := by
  unfold bidSurplus at h
  by_cases hden : denom = a.bidD
  case neg => simp only [hden, ne_eq, not_false_eq_true, ite_true] at h; cases h
  simp only [hden, ne_eq, not_true_eq_false, ite_false] at h
  by_cases hmin : amt < minBidSurplus a.bid p.incS
  · simp only [hmin, ite_true] at h; cases h
  simp only [hmin, ite_false] at h
  cases h1 : (if bidder ≠ a.bidder ∧ a.bid ≠ 0 then refund env b bidder a.bidder a.bidD a.bid else some b) with
  | none => simp only [ne_eq] at h1; simp only [h1] at h; cases h
  | some b1 =>
    have h1' := h1
    simp only [ne_eq] at h1'
    simp only [h1'] at h
    cases h2 : send b1 bidder a.initiator a.bidD (amt - a.bid) with
    | none => simp only [h2] at h; cases h
    | some b2 =>
      simp only [h2] at h
      by_cases hbr : env.burner a.initiator = true
      case neg => simp only [hbr, not_false_eq_true, ite_true] at h; cases h
      simp only [hbr, not_true_eq_false, ite_false] at h
      cases h3 : burnFrom b2 a.initiator a.bidD (amt - a.bid) with
      | none => simp only [h3] at h; cases h
      | some b3 =>
        simp only [h3] at h
        cases h
        obtain ⟨hblk, e1⟩ := refundIf_eff env _ b b1 bidder a.bidder a.bidD a.bid h1
        refine ⟨hden, by omega, rfl, hblk, ?_⟩
        intro z e
        have := e1 z e
        have := send_eff b1 b2 bidder a.initiator a.bidD (amt - a.bid) h2 z e
        have := burn_eff b2 b' a.initiator a.bidD (amt - a.bid) h3 z e
        omega

theorem bidCollateralFwd_spec (env : Env) (p : Params) (now : Int) (b b' : Bal) (a a' : Auction)
    (bidder : Addr) (denom : Denom) (amt : Int)
    (h : bidCollateralFwd env p now b a bidder denom amt = .ok b' a') :
    denom = a.bidD ∧ a.bid ≠ a.maxBid ∧ minBidCollateral a.bid p.incC a.maxBid ≤ amt ∧ amt ≤ a.maxBid ∧
    a' = touch p now (if amt = a.maxBid then p.revDur else p.fwdDur)
           { a with debt := a.debt - fwdDebtReturn a amt, bidder := bidder, bid := amt } ∧
    (bidder ≠ a.bidder ∧ a.bid ≠ 0 → env.blocked a.bidder = false) ∧
    ∀ z e, b' z e = b z e
        - ind (z = bidder ∧ e = a.bidD) (if bidder ≠ a.bidder ∧ a.bid ≠ 0 then a.bid else 0)
        + ind (z = a.bidder ∧ e = a.bidD) (if bidder ≠ a.bidder ∧ a.bid ≠ 0 then a.bid else 0)
        - ind (z = bidder ∧ e = a.bidD) (amt - a.bid) + ind (z = a.initiator ∧ e = a.bidD) (amt - a.bid)
        - ind (z = env.M ∧ e = a.debtD) (fwdDebtReturn a amt)
        + ind (z = a.initiator ∧ e = a.debtD) (fwdDebtReturn a amt) := by
  unfold bidCollateralFwd at h
  by_cases hden : denom = a.bidD
  case neg => simp only [hden, ne_eq, not_false_eq_true, ite_true] at h; cases h
  simp only [hden, ne_eq, not_true_eq_false, ite_false] at h
  by_cases hph : a.bid = a.maxBid
  · simp only [hph, ite_true] at h; cases h
  simp only [hph, ite_false] at h
  by_cases hmin : amt < minBidCollateral a.bid p.incC a.maxBid
  · simp only [hmin, ite_true] at h; cases h
  simp only [hmin, ite_false] at h
  by_cases hmax : a.maxBid < amt
  · simp only [hmax, ite_true] at h; cases h
  simp only [hmax, ite_false] at h
  cases h1 : (if bidder ≠ a.bidder ∧ a.bid ≠ 0 then refund env b bidder a.bidder a.bidD a.bid else some b) with
  | none => simp only [h1] at h; cases h
  | some b1 =>
    simp only [h1] at h
    cases h2 : send b1 bidder a.initiator a.bidD (amt - a.bid) with
    | none => simp only [h2] at h; cases h
    | some b2 =>
      simp only [h2] at h
      obtain ⟨hblk, e1⟩ := refundIf_eff env _ b b1 bidder a.bidder a.bidD a.bid h1
      cases h3 : sendIf (0 < a.debt) b2 env.M a.initiator a.debtD (fwdDebtReturn a amt) with
      | none => simp only [h3] at h; cases h
      | some b3 =>
        simp only [h3] at h
        cases h
        refine ⟨hden, hph, by omega, by omega, rfl, hblk, ?_⟩
        intro z e
        have := e1 z e
        have := send_eff b1 b2 bidder a.initiator a.bidD (amt - a.bid) h2 z e
        have := sendIf_eff _ b2 b' env.M a.initiator a.debtD _ h3
          (by intro hd; simp only [fwdDebtReturn, hd, ite_false]) z e
        omega

theorem bidCollateralRev_spec (env : Env) (hE : EnvOk env) (p : Params) (now : Int) (b b' : Bal)
    (a a' : Auction) (bidder : Addr) (denom : Denom) (amt : Int)
    (h : bidCollateralRev env p now b a bidder denom amt = .ok b' a') :
    denom = a.lotD ∧ a.bid = a.maxBid ∧ amt ≤ maxLot a.lot p.incC ∧ 0 ≤ amt ∧
    a' = touch p now p.revDur { a with bidder := bidder, lot := amt } ∧
    (bidder ≠ a.bidder → env.blocked a.bidder = false) ∧
    ∃ parts, lrSplit (a.lot - amt) a.retW = some parts ∧
      (∃ b1, payAll env a.lotD b1 a.retAddrs parts = some b') ∧
      ∀ z e, b' z e = b z e
        - ind (z = bidder ∧ e = a.bidD) (if bidder ≠ a.bidder then a.bid else 0)
        + ind (z = a.bidder ∧ e = a.bidD) (if bidder ≠ a.bidder then a.bid else 0)
        - ind (z = env.M ∧ e = a.lotD) (paid a.retAddrs parts)
        + ind (e = a.lotD) (credit z a.retAddrs parts) := by
  unfold bidCollateralRev at h
  by_cases hden : denom = a.lotD
  case neg => simp only [hden, ne_eq, not_false_eq_true, ite_true] at h; cases h
  simp only [hden, ne_eq, not_true_eq_false, ite_false] at h
  by_cases hph : a.bid = a.maxBid
  case neg => simp only [hph, not_false_eq_true, ite_true] at h; cases h
  rw [if_neg (fun hn : ¬ a.bid = a.maxBid => hn hph)] at h
  by_cases hmax : amt > maxLot a.lot p.incC
  · simp only [hmax, ite_true] at h; cases h
  simp only [hmax, ite_false] at h
  by_cases hneg : amt < 0
  · simp only [hneg, ite_true] at h; cases h
  simp only [hneg, ite_false] at h
  cases h1 : (if ¬ bidder = a.bidder then refund env b bidder a.bidder a.bidD a.bid else some b) with
  | none => simp only [h1] at h; cases h
  | some b1 =>
    simp only [h1] at h
    cases hsp : lrSplit (a.lot - amt) a.retW with
    | none => simp only [hsp] at h; cases h
    | some parts =>
      simp only [hsp] at h
      cases h2 : payAll env a.lotD b1 a.retAddrs parts with
      | none => simp only [h2] at h; cases h
      | some b2 =>
        simp only [h2] at h
        cases h
        obtain ⟨hblk, e1⟩ := refundIf_eff env _ b b1 bidder a.bidder a.bidD a.bid h1
        refine ⟨hden, hph, by omega, by omega, rfl, hblk, parts, rfl, ⟨b1, h2⟩, ?_⟩
        intro z e
        have := e1 z e
        have := payAll_eff env hE a.lotD b1 b' a.retAddrs parts h2 z e
        simp only [ne_eq] at *
        omega

theorem bidDebt_spec (env : Env) (p : Params) (now : Int) (b b' : Bal) (a a' : Auction)
    (bidder : Addr) (denom : Denom) (amt : Int)
    (h : bidDebt env p now b a bidder denom amt = .ok b' a') :
    denom = a.lotD ∧ amt ≤ maxLot a.lot p.incD ∧ 0 ≤ amt ∧
    a' = touch p now p.fwdDur { a with debt := a.debt - debtReturn a, bidder := bidder, lot := amt } ∧
    (bidder ≠ a.bidder → a.bidder ≠ a.initiator → env.blocked a.bidder = false) ∧
    ∀ z e, b' z e = b z e
        - ind (z = bidder ∧ e = a.bidD) (if bidder ≠ a.bidder then a.bid else 0)
        + ind (z = a.bidder ∧ e = a.bidD) (if bidder ≠ a.bidder then a.bid else 0)
        - ind (z = env.M ∧ e = a.debtD) (debtReturn a)
        + ind (z = a.initiator ∧ e = a.debtD) (debtReturn a) := by
  unfold bidDebt at h
  by_cases hden : denom = a.lotD
  case neg => simp only [hden, ne_eq, not_false_eq_true, ite_true] at h; cases h
  simp only [hden, ne_eq, not_true_eq_false, ite_false] at h
  by_cases hmax : amt > maxLot a.lot p.incD
  · simp only [hmax, ite_true] at h; cases h
  simp only [hmax, ite_false] at h
  by_cases hneg : amt < 0
  · simp only [hneg, ite_true] at h; cases h
  simp only [hneg, ite_false] at h
  cases h1 : refundDebt env b a bidder with
  | none => simp only [h1] at h; cases h
  | some b1 =>
    simp only [h1] at h
    cases h2 : sendIf (a.bidder = a.initiator) b1 env.M a.initiator a.debtD (debtReturn a) with
    | none => simp only [h2] at h; cases h
    | some b2 =>
      simp only [h2] at h
      cases h
      obtain ⟨hblk, e1⟩ := refundDebt_eff env b b1 a bidder h1
      refine ⟨hden, by omega, by omega, rfl, hblk, ?_⟩
      intro z e
      have := e1 z e
      have := sendIf_eff _ b1 b' env.M a.initiator a.debtD _ h2
        (by intro hd; simp only [debtReturn, hd, ite_false]) z e
      omega

end KV.Auc
