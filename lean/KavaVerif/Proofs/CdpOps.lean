/-
  C04/C05 helper lemmas, part 3: what each keeper step does to the state (frame + effect lemmas) and
  preservation of the invariant by the user operations.  Core Lean only.
-/
import KavaVerif.Proofs.CdpInv
set_option linter.unusedVariables false
set_option linter.unusedSimpArgs false

namespace KV.Cdp
open KV

/-- everything except bank balances and supply is unchanged -/
structure FrameB (s s' : St) : Prop where
  cdp : s'.cdp = s.cdp
  nextId : s'.nextId = s.nextId
  dep : s'.dep = s.dep
  own : s'.own = s.own
  idx : s'.idx = s.idx
  tprin : s'.tprin = s.tprin
  ifac : s'.ifac = s.ifac
  accr : s'.accr = s.accr
  status : s'.status = s.status
  price : s'.price = s.price

theorem FrameB.refl (s : St) : FrameB s s := ⟨rfl, rfl, rfl, rfl, rfl, rfl, rfl, rfl, rfl, rfl⟩

theorem FrameB.trans {a b c : St} (h1 : FrameB a b) (h2 : FrameB b c) : FrameB a c :=
  ⟨h2.cdp.trans h1.cdp, h2.nextId.trans h1.nextId, h2.dep.trans h1.dep, h2.own.trans h1.own, h2.idx.trans h1.idx,
   h2.tprin.trans h1.tprin, h2.ifac.trans h1.ifac, h2.accr.trans h1.accr, h2.status.trans h1.status,
   h2.price.trans h1.price⟩

theorem sendB_frame {s s' : St} {f t : Acct} {d : Denom} {a : Int} (h : sendB s f t d a = some s') :
    FrameB s s' ∧ s'.supply = s.supply := by
  obtain ⟨e, -, -⟩ := sendB_spec h
  rw [e]; exact ⟨⟨rfl, rfl, rfl, rfl, rfl, rfl, rfl, rfl, rfl, rfl⟩, rfl⟩

theorem mintB_frame (s : St) (a : Acct) (d : Denom) (amt : Int) : FrameB s (mintB s a d amt) := by
  obtain ⟨e, -, -⟩ := mintB_spec s a d amt
  rw [e]; exact ⟨rfl, rfl, rfl, rfl, rfl, rfl, rfl, rfl, rfl, rfl⟩

theorem burnB_frame {s s' : St} {a : Acct} {d : Denom} {amt : Int} (h : burnB s a d amt = some s') :
    FrameB s s' := by
  obtain ⟨e, -, -⟩ := burnB_spec h
  rw [e]; exact ⟨rfl, rfl, rfl, rfl, rfl, rfl, rfl, rfl, rfl, rfl⟩

/-! ### `UpdateCdpAndCollateralRatioIndex` -/

theorem updateCdpIdx_spec {E : Env} {s s' : St} {id : Nat} {c : Cdp} {key : Int}
    (h : updateCdpIdx E s id c key = some s') :
    ∃ old, s.cdp id = some old ∧
      s' = { s with cdp := upd s.cdp id (some c),
                    idx := insertKey (c.ty, key, id) (removeKey (old.ty, keyOf E old, id) s.idx) } := by
  unfold updateCdpIdx at h
  split at h
  · cases h
  · rename_i old ho
    cases h
    exact ⟨old, ho, rfl⟩

theorem upd_self {α : Type} (f : Nat → α) (k : Nat) (v : α) (h : f k = v) : upd f k v = f := by
  funext x
  by_cases hx : x = k
  · subst hx; rw [upd_same, h]
  · rw [upd_other _ _ _ _ hx]

theorem upd_upd {α : Type} (f : Nat → α) (k : Nat) (v w : α) : upd (upd f k v) k w = upd f k w := by
  funext x
  by_cases hx : x = k
  · subst hx; simp [upd]
  · simp [upd, hx]

/-! ### `SynchronizeInterest` -/

structure SyncSpec (E : Env) (s s1 : St) (id : Nat) (c c1 : Cdp) : Prop where
  cdp : s1.cdp = upd s.cdp id (some c1)
  owner : c1.owner = c.owner
  ty : c1.ty = c.ty
  coll : c1.coll = c.coll
  prin : c1.prin = c.prin
  fees : c.fees ≤ c1.fees ∨ True
  nextId : s1.nextId = s.nextId
  dep : s1.dep = s.dep
  own : s1.own = s.own
  tprin : s1.tprin = s.tprin
  accr : s1.accr = s.accr
  status : s1.status = s.status
  price : s1.price = s.price
  bal : s1.bal = s.bal
  supply : s1.supply = s.supply
  idx : IdxOk E s.cdp s.idx → IdxOk E s1.cdp s1.idx

theorem keyOf_congr (E : Env) (a b : Cdp) (h1 : a.ty = b.ty) (h2 : a.coll = b.coll) (h3 : a.prin = b.prin)
    (h4 : a.fees = b.fees) : keyOf E a = keyOf E b := by
  unfold keyOf; rw [h1, h2, h3, h4]

theorem syncInterest_spec {E : Env} {now : Int} {s s1 : St} {id : Nat} {c c1 : Cdp}
    (ho : s.cdp id = some c) (h : syncInterest E now s id c = .ok (s1, c1)) : SyncSpec E s s1 id c c1 := by
  unfold syncInterest at h
  split at h
  · -- no global factor yet
    cases h
    exact { cdp := rfl, owner := rfl, ty := rfl, coll := rfl, prin := rfl, fees := Or.inr trivial, nextId := rfl,
            dep := rfl, own := rfl, tprin := rfl, accr := rfl, status := rfl, price := rfl, bal := rfl, supply := rfl,
            idx := fun hI => idx_touch hI ho rfl (keyOf_congr E _ _ rfl rfl rfl rfl) }
  · rename_i g hg
    split at h
    · cases h
    · rename_i acc hacc
      split at h
      · cases h
        exact { cdp := (upd_self _ _ _ ho).symm, owner := rfl, ty := rfl, coll := rfl, prin := rfl,
                fees := Or.inr trivial, nextId := rfl, dep := rfl, own := rfl, tprin := rfl, accr := rfl,
                status := rfl, price := rfl, bal := rfl, supply := rfl, idx := fun hI => hI }
      · rename_i prev hprev
        split at h
        · cases h
          exact { cdp := (upd_self _ _ _ ho).symm, owner := rfl, ty := rfl, coll := rfl, prin := rfl,
                  fees := Or.inr trivial, nextId := rfl, dep := rfl, own := rfl, tprin := rfl, accr := rfl,
                  status := rfl, price := rfl, bal := rfl, supply := rfl, idx := fun hI => hI }
        · split at h
          · -- accumulated interest is zero but the accrual time moved: FeesUpdated is stored first
            rename_i h0
            dsimp only at h
            split at h
            · cases h
            · rename_i s2 hupd
              cases h
              obtain ⟨old, hold, e⟩ := updateCdpIdx_spec hupd
              dsimp only at hold e
              rw [upd_same] at hold; cases hold
              subst e
              refine { cdp := by simp only [upd_upd], owner := rfl, ty := rfl, coll := rfl, prin := rfl,
                       fees := Or.inr trivial, nextId := rfl, dep := rfl, own := rfl, tprin := rfl, accr := rfl,
                       status := rfl, price := rfl, bal := rfl, supply := rfl, idx := ?_ }
              intro hI
              have hI0 : IdxOk E (upd s.cdp id (some { c with updated := prev })) s.idx :=
                idx_touch hI ho rfl (keyOf_congr E _ _ rfl rfl rfl rfl)
              exact idx_update hI0 (upd_same _ _ _)
          · dsimp only at h
            split at h
            · cases h
            · rename_i s2 hupd
              cases h
              obtain ⟨old, hold, e⟩ := updateCdpIdx_spec hupd
              rw [ho] at hold; cases hold
              subst e
              exact { cdp := rfl, owner := rfl, ty := rfl, coll := rfl, prin := rfl,
                      fees := Or.inr trivial, nextId := rfl, dep := rfl, own := rfl, tprin := rfl, accr := rfl,
                      status := rfl, price := rfl, bal := rfl, supply := rfl, idx := fun hI => idx_update hI ho }

/-! ### invariant plumbing -/

theorem inv_sync {E : Env} {g : Int} {s s1 : St} {id : Nat} {c c1 : Cdp}
    (hI : Inv E g s) (ho : s.cdp id = some c) (S : SyncSpec E s s1 id c c1) : Inv E g s1 := by
  refine ⟨S.idx hI.idx, ?_, ?_, ?_⟩
  · rw [S.cdp, S.own]; exact own_touch hI.own ho S.owner
  · rw [S.cdp, S.dep, S.bal, S.nextId]; exact coll_touch hI.coll ho S.ty S.coll
  · have := hI.debt
    unfold DebtOk debtHeld at *
    rw [S.bal, S.supply]; exact this

theorem sync_cdp_id {E : Env} {s s1 : St} {id : Nat} {c c1 : Cdp} (S : SyncSpec E s s1 id c c1) :
    s1.cdp id = some c1 := by rw [S.cdp, upd_same]

/-- the CDP record `id` is replaced through the helper path; collateral and debt clauses are supplied -/
theorem inv_replace {E : Env} {g : Int} {s1 s' : St} {id : Nat} {c1 c2 : Cdp}
    (hI : Inv E g s1) (ho : s1.cdp id = some c1)
    (hcdp : s'.cdp = upd s1.cdp id (some c2))
    (hidx : s'.idx = insertKey (c2.ty, keyOf E c2, id) (removeKey (c1.ty, keyOf E c1, id) s1.idx))
    (hown : s'.own = s1.own) (ho2 : c2.owner = c1.owner)
    (hcoll : CollOk E s'.cdp s'.dep (s'.bal MCDP) s'.nextId) (hdebt : DebtOk g s') : Inv E g s' := by
  refine ⟨?_, ?_, hcoll, hdebt⟩
  · rw [hcdp, hidx]; exact idx_update hI.idx ho
  · rw [hcdp, hown]; exact own_touch hI.own ho ho2

/-! ### deposit -/

theorem deposit_inv {E : Env} {g : Int} {now : Int} {s s' : St} {owner depositor : Acct} {ty : Nat} {c : Int} {cd : Denom}
    (hW : WF E) (hI : Inv E g s) (hd : depositor ∈ E.accts)
    (h : deposit E now s owner depositor ty c cd = .ok s') : Inv E g s' := by
  unfold deposit at h
  split at h
  · cases h
  split at h
  · cases h
  rename_i cp hv
  split at h
  · cases h
  rename_i id c0 hf
  split at h
  · cases h
  split at h
  · cases h
  · cases h
  rename_i s1 c1 hsync
  split at h
  · cases h
  rename_i s2 hsend
  dsimp only at h
  split at h
  · cases h
  rename_i s4 hupd
  cases h
  obtain ⟨ho, hty0, -⟩ := findCdp_spec hf
  obtain ⟨hcp, hden, -, -⟩ := validateCollateral_spec hv
  have S := syncInterest_spec ho hsync
  have hI1 := inv_sync hI ho S
  have ho1 := sync_cdp_id S
  obtain ⟨e2, hb2, -⟩ := sendB_spec hsend
  obtain ⟨F2, hs2⟩ := sendB_frame hsend
  obtain ⟨old, hold, e4⟩ := updateCdpIdx_spec hupd
  dsimp only at hold
  rw [F2.cdp, ho1] at hold; cases hold
  subst e4
  have hdep3 : (3 : Nat) ≤ depositor := hW.users _ hd
  have hcd2 : (2 : Nat) ≤ cd := by rw [← hden]; exact hW.denoms ty cp hcp
  have hden1 : denomOf E c1.ty = cd := by rw [S.ty, hty0, denomOf_eq hcp, hden]
  refine inv_replace (c2 := { c1 with coll := c1.coll + c }) hI1 ho1 (by dsimp only; rw [F2.cdp])
    (by dsimp only; rw [F2.idx]) (by dsimp only; rw [F2.own]) rfl ?_ ?_
  · dsimp only
    rw [F2.cdp, F2.dep, F2.nextId]
    refine coll_change hW.nodup hd hI1.coll ho1 rfl rfl ?_
    intro d hd2
    rw [hb2 MCDP d, hden1]
    have : ¬ (MCDP = depositor ∧ d = cd) := by
      intro hh; have h0 : (0 : Nat) = depositor := hh.1; omega
    simp only [this, ite_false, true_and]
    by_cases hdc : d = cd
    · subst hdc; simp
    · have : ¬ cd = d := fun e => hdc e.symm
      simp [hdc, this]
  · have := hI1.debt
    unfold DebtOk debtHeld at *
    dsimp only
    rw [hs2, hb2 MCDP DEBT, hb2 MLIQ DEBT, hb2 MAUC DEBT]
    have h1 : ¬ ((1 : Nat) = cd) := by omega
    simp only [DEBT, h1, and_false, ite_false] at *
    omega

/-! ### withdraw -/

theorem mem_accts_of_dep {E : Env} {cdp : Nat → Option Cdp} {dep : Nat → Acct → Int} {balC : Denom → Int} {n : Nat}
    (h : CollOk E cdp dep balC n) {id : Nat} {a : Acct} (hne : dep id a ≠ 0) : a ∈ E.accts := by
  by_cases hm : a ∈ E.accts
  · exact hm
  · exact absurd (h.2.2.1 id a hm) hne

theorem withdraw_inv {E : Env} {g : Int} {now : Int} {s s' : St} {owner depositor : Acct} {ty : Nat} {c : Int} {cd : Denom}
    (hW : WF E) (hI : Inv E g s)
    (h : withdraw E now s owner depositor ty c cd = .ok s') : Inv E g s' := by
  unfold withdraw at h
  split at h
  · cases h
  split at h
  · cases h
  rename_i cp hv
  split at h
  · cases h
  rename_i id c0 hf
  split at h
  · cases h
  rename_i hdne
  split at h
  · cases h
  split at h
  · cases h
  · cases h
  rename_i s1 c1 hsync
  split at h
  · cases h
  · cases h
  rename_i r hcr
  split at h
  · cases h
  split at h
  · cases h
  rename_i s2 hsend
  dsimp only at h
  split at h
  · cases h
  rename_i s3 hupd
  cases h
  obtain ⟨ho, hty0, -⟩ := findCdp_spec hf
  obtain ⟨hcp, hden, -, -⟩ := validateCollateral_spec hv
  have S := syncInterest_spec ho hsync
  have hI1 := inv_sync hI ho S
  have ho1 := sync_cdp_id S
  obtain ⟨e2, hb2, -⟩ := sendB_spec hsend
  obtain ⟨F2, hs2⟩ := sendB_frame hsend
  obtain ⟨old, hold, e3⟩ := updateCdpIdx_spec hupd
  rw [F2.cdp, ho1] at hold; cases hold
  subst e3
  have hd : depositor ∈ E.accts := mem_accts_of_dep hI.coll hdne
  have hdep3 : (3 : Nat) ≤ depositor := hW.users _ hd
  have hcd2 : (2 : Nat) ≤ cd := by rw [← hden]; exact hW.denoms ty cp hcp
  have hden1 : denomOf E c1.ty = cd := by rw [S.ty, hty0, denomOf_eq hcp, hden]
  refine inv_replace (c2 := { c1 with coll := c1.coll - c }) hI1 ho1 (by dsimp only; rw [F2.cdp])
    (by dsimp only; rw [F2.idx]) (by dsimp only; rw [F2.own]) rfl ?_ ?_
  · dsimp only
    rw [F2.cdp, F2.dep, F2.nextId]
    have e1 : s1.dep id depositor - c = s1.dep id depositor + -c := by omega
    rw [e1]
    refine coll_change hW.nodup hd hI1.coll ho1 rfl (by dsimp only; omega) ?_
    intro d hd2
    rw [hb2 MCDP d, hden1]
    have : ¬ (MCDP = depositor ∧ d = cd) := by
      intro hh; have h0 : (0 : Nat) = depositor := hh.1; omega
    simp only [this, ite_false, true_and]
    by_cases hdc : d = cd
    · subst hdc; simp; omega
    · have : ¬ cd = d := fun e => hdc e.symm
      simp [hdc, this]
  · have := hI1.debt
    unfold DebtOk debtHeld at *
    dsimp only
    rw [hs2, hb2 MCDP DEBT, hb2 MLIQ DEBT, hb2 MAUC DEBT]
    have h1 : ¬ ((1 : Nat) = cd) := by omega
    simp only [DEBT, h1, and_false, ite_false] at *
    omega

/-! ### minting principal (create, draw) -/

/-- `MintCoins(usdx)`, send to the owner, `MintDebtCoins`: the bank part shared by AddCdp and AddPrincipal -/
theorem mint_principal_spec {s1 s3 : St} {owner : Acct} {p : Int}
    (hsend : sendB (mintB s1 MCDP USDX p) MCDP owner USDX p = some s3) :
    FrameB s1 (mintB s3 MCDP DEBT p) ∧
    (∀ d, 2 ≤ d → (mintB s3 MCDP DEBT p).bal MCDP d = s1.bal MCDP d) ∧
    (mintB s3 MCDP DEBT p).supply USDX = s1.supply USDX + p ∧
    debtHeld (mintB s3 MCDP DEBT p) = debtHeld s1 + p := by
  obtain ⟨-, hb1, hsup1⟩ := mintB_spec s1 MCDP USDX p
  obtain ⟨-, hb3, -⟩ := sendB_spec hsend
  obtain ⟨F3, hs3⟩ := sendB_frame hsend
  obtain ⟨-, hb4, hsup4⟩ := mintB_spec s3 MCDP DEBT p
  refine ⟨((mintB_frame s1 MCDP USDX p).trans F3).trans (mintB_frame s3 MCDP DEBT p), ?_, ?_, ?_⟩
  · intro d hd2
    have hd2' : (2 : Nat) ≤ d := hd2
    rw [hb4, hb3, hb1]
    have a1 : ¬ (d = DEBT) := by intro e; subst e; exact absurd hd2' (by decide)
    have a2 : ¬ (d = USDX) := by intro e; subst e; exact absurd hd2' (by decide)
    simp only [a1, a2, and_false, ite_false]; omega
  · rw [hsup4, hs3, hsup1]; simp [USDX, DEBT]
  · unfold debtHeld
    rw [hb4, hb4, hb4, hb3, hb3, hb3, hb1, hb1, hb1]
    simp [USDX, DEBT, MCDP, MLIQ, MAUC]
    omega

theorem draw_inv {E : Env} {g : Int} {now : Int} {s s' : St} {owner : Acct} {ty : Nat} {p : Int} {pd : Denom}
    (hW : WF E) (hI : Inv E g s)
    (h : draw E now s owner ty p pd = .ok s') : Inv E g s' := by
  unfold draw at h
  split at h
  · cases h
  split at h
  · cases h
  rename_i id c0 hf
  split at h
  · cases h
  rename_i cp hv
  split at h
  · cases h
  split at h
  · cases h
  split at h
  · cases h
  split at h
  · cases h
  · cases h
  rename_i s1 c1 hsync
  split at h
  · cases h
  · cases h
  rename_i r hcr
  split at h
  · cases h
  dsimp only at h
  split at h
  · cases h
  rename_i s3 hsend
  split at h
  · cases h
  rename_i s6 hupd
  cases h
  obtain ⟨ho, hty0, -⟩ := findCdp_spec hf
  have S := syncInterest_spec ho hsync
  have hI1 := inv_sync hI ho S
  have ho1 := sync_cdp_id S
  obtain ⟨F, hbal, hsup, hdebt⟩ := mint_principal_spec hsend
  obtain ⟨old, hold, e6⟩ := updateCdpIdx_spec hupd
  dsimp only at hold
  rw [F.cdp, ho1] at hold; cases hold
  subst e6
  refine inv_replace (c2 := { c1 with prin := c1.prin + p }) hI1 ho1 (by dsimp only; rw [F.cdp])
    (by dsimp only; rw [F.idx]) (by dsimp only; rw [F.own]) rfl ?_ ?_
  · dsimp only
    rw [F.cdp, F.dep, F.nextId]
    exact coll_bal_eq (coll_touch hI1.coll ho1 rfl rfl) hbal
  · have := hI1.debt
    unfold DebtOk debtHeld at *
    dsimp only
    rw [hsup]; omega

/-! ### create -/

theorem create_inv {E : Env} {g : Int} {now : Int} {s s' : St} {owner : Acct} {ty : Nat} {c : Int} {cd : Denom}
    {p : Int} {pd : Denom} (hW : WF E) (hI : Inv E g s) (hown : owner ∈ E.accts)
    (h : create E now s owner ty c cd p pd = .ok s') : Inv E g s' := by
  unfold create at h
  split at h
  · cases h
  split at h
  · cases h
  rename_i cp hv
  split at h
  · cases h
  split at h
  · cases h
  split at h
  · cases h
  split at h
  · cases h
  split at h
  · cases h
  split at h
  · cases h
  split at h
  · cases h
  · cases h
  rename_i r hcr
  split at h
  · cases h
  dsimp only at h
  have F0 : (ensureIfac s ty).cdp = s.cdp ∧ (ensureIfac s ty).nextId = s.nextId ∧ (ensureIfac s ty).dep = s.dep ∧
      (ensureIfac s ty).own = s.own ∧ (ensureIfac s ty).idx = s.idx ∧
      (ensureIfac s ty).bal = s.bal ∧ (ensureIfac s ty).supply = s.supply := by
    unfold ensureIfac; split <;> exact ⟨rfl, rfl, rfl, rfl, rfl, rfl, rfl⟩
  obtain ⟨f0c, f0n, f0d, f0o, f0i, f0b, f0s⟩ := F0
  split at h
  · cases h
  rename_i s1 hsend1
  split at h
  · cases h
  rename_i s3 hsend3
  cases h
  obtain ⟨hcp, hden, -, -⟩ := validateCollateral_spec hv
  obtain ⟨-, hb1, -⟩ := sendB_spec hsend1
  obtain ⟨F1, hs1⟩ := sendB_frame hsend1
  obtain ⟨F, hbal, hsup, hdebt⟩ := mint_principal_spec hsend3
  have hown3 : (3 : Nat) ≤ owner := hW.users _ hown
  have hcd2 : (2 : Nat) ≤ cd := by rw [← hden]; exact hW.denoms ty cp hcp
  have hnone : s.cdp s.nextId = none := hI.coll.2.2.2.2 _ (Nat.le_refl _)
  have hdenT : denomOf E ty = cd := by rw [denomOf_eq hcp, hden]
  refine ⟨?_, ?_, ?_, ?_⟩
  · dsimp only
    rw [F.cdp, F1.cdp, f0c, F.idx, F1.idx, f0i]
    exact idx_new (c := (⟨owner, ty, c, p, 0, now, ifacOrOne s ty⟩ : Cdp)) hI.idx hnone
  · dsimp only
    rw [F.cdp, F1.cdp, f0c, F.own, F1.own, f0o]
    exact own_new (c := (⟨owner, ty, c, p, 0, now, ifacOrOne s ty⟩ : Cdp)) hI.own hnone
  · dsimp only
    rw [F.cdp, F1.cdp, f0c, F.dep, F1.dep, f0d]
    refine coll_new (c := (⟨owner, ty, c, p, 0, now, ifacOrOne s ty⟩ : Cdp)) hW.nodup hown hI.coll ?_
    intro d hd2
    dsimp only
    rw [hbal d hd2, hb1 MCDP d, f0b, hdenT]
    have : ¬ (MCDP = owner ∧ d = cd) := by
      intro hh; have h0 : (0 : Nat) = owner := hh.1; omega
    simp only [this, ite_false, true_and]
    by_cases hdc : d = cd
    · subst hdc; simp
    · have : ¬ cd = d := fun e => hdc e.symm
      simp [hdc, this]
  · have := hI.debt
    unfold DebtOk at *
    have e1 : debtHeld s1 = debtHeld s := by
      unfold debtHeld
      rw [hb1 MCDP DEBT, hb1 MLIQ DEBT, hb1 MAUC DEBT, f0b]
      have h1 : ¬ ((1 : Nat) = cd) := by omega
      simp only [DEBT, h1, and_false, ite_false]; omega
    unfold debtHeld at *
    dsimp only
    rw [hsup, hs1, f0s]; omega

/-! ### the per-deposit send loop (ReturnCollateral / SeizeCollateral) -/

/-- amount received by account `x` from the loop -/
def recv (tgt : Acct → Acct) (x : Acct) : List (Acct × Int) → Int
  | [] => 0
  | (a, v) :: rest => (if tgt a = x then v else 0) + recv tgt x rest

theorem sendDeps_spec (id : Nat) (cd : Denom) (tgt : Acct → Acct) :
    ∀ (l : List (Acct × Int)) (s s' : St), (∀ a v, (a, v) ∈ l → tgt a ≠ MCDP) →
      sendDeps s id cd tgt l = some s' →
      s'.cdp = s.cdp ∧ s'.nextId = s.nextId ∧ s'.own = s.own ∧ s'.idx = s.idx ∧ s'.tprin = s.tprin ∧
      s'.ifac = s.ifac ∧ s'.accr = s.accr ∧ s'.status = s.status ∧ s'.price = s.price ∧ s'.supply = s.supply ∧
      (∀ j, j ≠ id → s'.dep j = s.dep j) ∧
      (∀ a, s'.dep id a = if a ∈ l.map Prod.fst then 0 else s.dep id a) ∧
      (∀ d, s'.bal MCDP d = s.bal MCDP d - (if d = cd then sumDeps l else 0)) ∧
      (∀ x d, d ≠ cd → s'.bal x d = s.bal x d) ∧
      (∀ x, x ≠ MCDP → s'.bal x cd = s.bal x cd + recv tgt x l) := by
  intro l
  induction l with
  | nil =>
    intro s s' _ h
    simp only [sendDeps] at h; cases h
    refine ⟨rfl, rfl, rfl, rfl, rfl, rfl, rfl, rfl, rfl, rfl, fun _ _ => rfl, ?_, ?_, fun _ _ _ => rfl, ?_⟩
    · intro a; simp
    · intro d; simp [sumDeps]
    · intro x _; simp [recv]
  | cons hd tl ih =>
    obtain ⟨a, amt⟩ := hd
    intro s s' htgt h
    simp only [sendDeps] at h
    split at h
    · cases h
    rename_i s1 hsend
    obtain ⟨-, hb1, -⟩ := sendB_spec hsend
    obtain ⟨F1, hs1⟩ := sendB_frame hsend
    have htl : ∀ a' v, (a', v) ∈ tl → tgt a' ≠ MCDP := fun a' v hm => htgt a' v (List.mem_cons_of_mem _ hm)
    obtain ⟨e1, e2, e3, e4, e5, e6, e7, e8, e9, e10, e11, e12, e13, e14, e15⟩ := ih _ s' htl h
    dsimp only at e1 e2 e3 e4 e5 e6 e7 e8 e9 e10 e11 e12 e13 e14 e15
    have hta : tgt a ≠ MCDP := htgt a amt (by simp)
    refine ⟨e1.trans F1.cdp, e2.trans F1.nextId, e3.trans F1.own, e4.trans F1.idx, e5.trans F1.tprin,
      e6.trans F1.ifac, e7.trans F1.accr, e8.trans F1.status, e9.trans F1.price, e10.trans hs1, ?_, ?_, ?_, ?_, ?_⟩
    · intro j hj
      rw [e11 j hj]
      funext b
      rw [upd2_other _ _ _ _ _ _ (by intro hh; exact hj hh.1), F1.dep]
    · intro b
      rw [e12 b]
      simp only [List.map_cons, List.mem_cons]
      by_cases hb : b = a
      · subst hb; simp [upd2]
      · simp only [hb, false_or]
        rw [upd2_other _ _ _ _ _ _ (by intro hh; exact hb hh.2), F1.dep]
    · intro d
      rw [e13 d, hb1 MCDP d]
      have : ¬ (MCDP = tgt a ∧ d = cd) := fun hh => hta hh.1.symm
      simp only [this, ite_false, true_and, sumDeps]
      split <;> omega
    · intro x d hd
      rw [e14 x d hd, hb1 x d]
      simp only [hd, and_false, ite_false]; omega
    · intro x hx
      rw [e15 x hx, hb1 x cd]
      simp only [hx, false_and, ite_false, and_true, recv]
      by_cases hxa : x = tgt a
      · subst hxa; simp only [ite_true]; omega
      · have : ¬ tgt a = x := fun e => hxa e.symm
        simp only [hxa, this, ite_false]; omega

/-! ### repay -/

theorem denomOf_ne_debt {E : Env} (hW : WF E) (ty : Nat) : denomOf E ty ≠ DEBT := by
  unfold denomOf
  split
  · rename_i cp hcp
    have h2 : (2 : Nat) ≤ cp.denom := hW.denoms ty cp hcp
    intro e; rw [e] at h2; exact absurd h2 (by decide)
  · decide

theorem repay_bank_spec {s1 s2 s3 s4 : St} {owner : Acct} {amt x : Int}
    (h2 : sendB s1 owner MCDP USDX amt = some s2) (h3 : burnB s2 MCDP USDX amt = some s3)
    (h4 : burnB s3 MCDP DEBT x = some s4) :
    FrameB s1 s4 ∧ (∀ a d, 2 ≤ d → s4.bal a d = s1.bal a d) ∧
    s4.supply USDX = s1.supply USDX - amt ∧ debtHeld s4 = debtHeld s1 - x := by
  obtain ⟨-, hb2, -⟩ := sendB_spec h2
  obtain ⟨F2, hs2⟩ := sendB_frame h2
  obtain ⟨-, hb3, hs3⟩ := burnB_spec h3
  obtain ⟨-, hb4, hs4⟩ := burnB_spec h4
  refine ⟨(F2.trans (burnB_frame h3)).trans (burnB_frame h4), ?_, ?_, ?_⟩
  · intro a d hd2
    have hd2' : (2 : Nat) ≤ d := hd2
    have a1 : ¬ (d = DEBT) := by intro e; subst e; exact absurd hd2' (by decide)
    have a2 : ¬ (d = USDX) := by intro e; subst e; exact absurd hd2' (by decide)
    rw [hb4, hb3, hb2]
    simp only [a1, a2, and_false, ite_false]; omega
  · rw [hs4, hs3, hs2]; simp [USDX, DEBT]
  · unfold debtHeld
    rw [hb4, hb4, hb4, hb3, hb3, hb3, hb2, hb2, hb2]
    simp [USDX, DEBT, MCDP, MLIQ, MAUC]
    omega

theorem repay_inv {E : Env} {g : Int} {now : Int} {s s' : St} {owner : Acct} {ty : Nat} {pay : Int} {pd : Denom}
    (hW : WF E) (hI : Inv E g s)
    (h : repay E now s owner ty pay pd = .ok s') : Inv E g s' := by
  unfold repay at h
  split at h
  · cases h
  split at h
  · cases h
  split at h
  · cases h
  rename_i id c0 hf
  split at h
  · cases h
  split at h
  · cases h
  split at h
  · cases h
  · cases h
  rename_i s1 c1 hsync
  dsimp only at h
  split at h
  · cases h
  split at h
  · cases h
  rename_i s2 hsend2
  split at h
  · cases h
  rename_i s3 hburn3
  split at h
  · cases h
  rename_i s4 hburn4
  obtain ⟨ho, hty0, -⟩ := findCdp_spec hf
  have S := syncInterest_spec ho hsync
  have hI1 := inv_sync hI ho S
  have ho1 := sync_cdp_id S
  obtain ⟨F, hbal, hsup, hdebt⟩ := repay_bank_spec hsend2 hburn3 hburn4
  have hx : (if (if (calcPayment (c1.prin + c1.fees) c1.fees pay).1 + (calcPayment (c1.prin + c1.fees) c1.fees pay).2 > s3.bal MCDP DEBT
        then s3.bal MCDP DEBT else (calcPayment (c1.prin + c1.fees) c1.fees pay).1 + (calcPayment (c1.prin + c1.fees) c1.fees pay).2) < s3.bal MCDP DEBT
      then (if (calcPayment (c1.prin + c1.fees) c1.fees pay).1 + (calcPayment (c1.prin + c1.fees) c1.fees pay).2 > s3.bal MCDP DEBT
        then s3.bal MCDP DEBT else (calcPayment (c1.prin + c1.fees) c1.fees pay).1 + (calcPayment (c1.prin + c1.fees) c1.fees pay).2)
      else s3.bal MCDP DEBT) ≤ (calcPayment (c1.prin + c1.fees) c1.fees pay).1 + (calcPayment (c1.prin + c1.fees) c1.fees pay).2 := by
    split <;> split <;> omega
  have hD : DebtOk g s4 := by
    have := hI1.debt
    unfold DebtOk at *
    rw [hsup, hdebt]; omega
  split at h
  · -- the debt is fully repaid: collateral goes back, the CDP and its index entries are deleted
    split at h
    · cases h
    rename_i s6 hret
    split at h
    · cases h
    rename_i old hold
    cases h
    unfold returnCollateral at hret
    generalize hL : depositsOf E _ id = L at hret
    have hLmem : ∀ a v, (a, v) ∈ L ↔ a ∈ E.accts ∧ s1.dep id a ≠ 0 ∧ v = s1.dep id a := by
      intro a v; rw [← hL, mem_depositsOf]; dsimp only; rw [F.dep]
    have hLsum : sumDeps L = sumAcc E.accts (s1.dep id) := by
      rw [← hL, sumDeps_depositsOf]; dsimp only; rw [F.dep]
    have htgt : ∀ a v, (a, v) ∈ L → (fun a => a) a ≠ MCDP := by
      intro a v hm
      have ha : (3 : Nat) ≤ a := hW.users a ((hLmem a v).1 hm).1
      intro e; dsimp only at e; rw [e] at ha; exact absurd ha (by decide)
    obtain ⟨e1, e2, e3, e4, -, -, -, -, -, e10, e11, e12, e13, e14, -⟩ := sendDeps_spec id _ _ _ _ _ htgt hret
    dsimp only at e1 e2 e3 e4 e10 e11 e12 e13 e14 hold
    rw [e1, F.cdp, ho1] at hold; cases hold
    refine ⟨?_, ?_, ?_, ?_⟩
    · dsimp only
      rw [e1, e4, F.cdp, F.idx]
      exact idx_delete hI1.idx ho1
    · dsimp only
      rw [e1, e3, F.cdp, F.own]
      exact own_delete hI1.own ho1
    · dsimp only
      rw [e1, e2, F.cdp, F.nextId]
      refine coll_delete (dep' := s6.dep) hI1.coll ho1 ?_ ?_ ?_
      · intro a
        rw [e12 a]
        by_cases hm : a ∈ List.map Prod.fst L
        · simp only [hm, ite_true]
        · simp only [hm, ite_false]
          rw [F.dep]
          by_cases hz : s1.dep id a = 0
          · exact hz
          · exfalso; apply hm
            have hmem : a ∈ E.accts := mem_accts_of_dep hI1.coll hz
            exact List.mem_map.2 ⟨(a, s1.dep id a), (hLmem _ _).2 ⟨hmem, hz, rfl⟩, rfl⟩
      · intro j hj; rw [e11 j hj, F.dep]
      · intro d hd2
        rw [e13 d, hbal MCDP d hd2, hLsum, ← hI1.coll.1 id c1 ho1]
        by_cases hdc : d = denomOf E c1.ty
        · subst hdc; simp
        · have : ¬ denomOf E c1.ty = d := fun e => hdc e.symm
          simp [hdc, this]
    · unfold DebtOk debtHeld at *
      dsimp only
      have hne : DEBT ≠ denomOf E c1.ty := fun e => denomOf_ne_debt hW c1.ty e.symm
      rw [e10, e14 MCDP DEBT hne, e14 MLIQ DEBT hne, e14 MAUC DEBT hne]
      exact hD
  · split at h
    · cases h
    rename_i s6 hupd
    cases h
    obtain ⟨old, hold, e6⟩ := updateCdpIdx_spec hupd
    dsimp only at hold
    rw [F.cdp, ho1] at hold; cases hold
    subst e6
    refine inv_replace (c2 := (⟨c1.owner, c1.ty, c1.coll, c1.prin - (calcPayment (c1.prin + c1.fees) c1.fees pay).2,
        c1.fees - (calcPayment (c1.prin + c1.fees) c1.fees pay).1, c1.updated, c1.ifac⟩ : Cdp)) hI1 ho1 (by dsimp only; rw [F.cdp])
      (by dsimp only; rw [F.idx]) (by dsimp only; rw [F.own]) rfl ?_ ?_
    · dsimp only
      rw [F.cdp, F.dep, F.nextId]
      exact coll_bal_eq (coll_touch hI1.coll ho1 rfl rfl) (fun d hd => hbal MCDP d hd)
    · unfold DebtOk debtHeld at *
      dsimp only
      exact hD

end KV.Cdp
