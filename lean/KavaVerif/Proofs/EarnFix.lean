/-
  The patch proposed in findings/C11-dust-sweep-strands-value.diff, modelled and verified.

  `withdrawFixed` is `Earn.withdraw` with the dust test changed as in the patch: the remaining
  shares are valued against the *post-withdraw* total shares (stored total − withdrawn shares) and
  the post-withdraw strategy value; no remaining shares → nothing to test.
  Proved here, for all operation lists: the invariant of C11 is preserved, no value is ever
  stranded (vault record absent ⇒ strategy value 0), and therefore "deposit then immediately
  withdraw yields no profit" holds in every reachable state of the patched code.
  This file is supporting evidence for the finding; it is not part of the property statements.
-/
import KavaVerif.Proofs.Earn
set_option linter.unusedSimpArgs false
set_option linter.unusedVariables false
namespace KV.Earn
open KV

/-- patched dust valuation of the remaining shares `sh a − w` after paying `paid` -/
def dustFixed (s : St) (a : Addr) (w paid : Int) : R Int :=
  if s.sh a - w = 0 then .ok 0
  else convertToAssets { s with val := s.val - paid, tot := s.tot - w } (s.sh a - w)

/-- `Keeper.Withdraw` with the patched dust test -/
def withdrawFixed (s : St) (a : Addr) (want : Int) (vaultOk stratOk : Bool) : Res :=
  if ¬ vaultOk then .err
  else if want = 0 then .err
  else if ¬ stratOk then .err
  else if ¬ s.found then .err
  else
    match convertToShares s want with
    | .err => .err
    | .panic => .panic
    | .ok w =>
      if s.sh a < w then .err
      else
        match convertToAssets s w with
        | .err => .err
        | .panic => .panic
        | .ok amt =>
          match convertToAssets s (s.sh a) with
          | .err => .err
          | .panic => .panic
          | .ok accVal =>
            if amt > accVal then .err
            else if s.val = 0 then .err
            else if s.loose + stratPaid amt s.val < amt then .err
            else
              match dustFixed s a w (stratPaid amt s.val) with
              | .err => .err
              | .panic => .panic
              | .ok dustVal => withdrawRecords s a (sweep s a w dustVal) amt (stratPaid amt s.val)

def stepF (s : St) : Op → Res
  | .deposit a x v st ac => deposit s a x v st ac
  | .withdraw a w v st => withdrawFixed s a w v st
  | .accrue dv => if dv < 0 ∨ (s.val = 0 ∧ dv ≠ 0) then .err else .ok { s with val := s.val + dv }

def nextF (s : St) (o : Op) : St :=
  match stepF s o with
  | .ok s' => s'
  | _ => s

def runF (s : St) (ops : List Op) : St := ops.foldl nextF s

theorem withdrawFixed_spec (s s' : St) (a : Addr) (want : Int) (vo so : Bool)
    (h : withdrawFixed s a want vo so = .ok s') :
    ∃ w amt accVal dustVal, s.found = true ∧ want ≠ 0 ∧
      convertToShares s want = .ok w ∧ w ≤ s.sh a ∧
      convertToAssets s w = .ok amt ∧ convertToAssets s (s.sh a) = .ok accVal ∧ amt ≤ accVal ∧
      s.val ≠ 0 ∧ amt ≤ s.loose + stratPaid amt s.val ∧
      dustFixed s a w (stratPaid amt s.val) = .ok dustVal ∧
      withdrawRecords s a (sweep s a w dustVal) amt (stratPaid amt s.val) = .ok s' := by
  unfold withdrawFixed at h
  split at h; · cases h
  split at h; · cases h
  split at h; · cases h
  split at h; · cases h
  rename_i hvo hw0 hso hfound
  split at h
  · cases h
  · cases h
  rename_i w hw
  split at h; · cases h
  rename_i hle
  split at h
  · cases h
  · cases h
  rename_i amt hamt
  split at h
  · cases h
  · cases h
  rename_i accVal hacc
  split at h; · cases h
  rename_i hgt
  split at h; · cases h
  rename_i hv0
  split at h; · cases h
  rename_i hl
  split at h
  · cases h
  · cases h
  rename_i dustVal hdust
  exact ⟨w, amt, accVal, dustVal, by simpa using hfound, hw0, hw, by omega, hamt, hacc, by omega, hv0, by omega, hdust, h⟩

/-- a successful patched `Withdraw` in arithmetic terms -/
theorem withdrawFixed_arith (accts : List Addr) (s s' : St) (a : Addr) (want : Int) (vo so : Bool)
    (ha : a ∈ accts) (hinv : Inv accts s) (h : withdrawFixed s a want vo so = .ok s') :
    ∃ w w' amt, 0 < want ∧ s.found = true ∧ 0 < s.tot ∧ 0 < s.val ∧ w = want * s.tot / s.val ∧ 0 < w ∧
      w ≤ s.sh a ∧ s.sh a ≤ s.tot ∧ amt = s.val * w / s.tot ∧ 0 ≤ amt ∧
      amt ≤ s.val * s.sh a / s.tot ∧ amt ≤ s.val ∧ amt ≤ want ∧
      w' = (if s.sh a - w = 0 ∨ (s.val - amt) * (s.sh a - w) / (s.tot - w) = 0 then s.sh a else w) ∧
      w ≤ w' ∧ w' ≤ s.sh a ∧
      s'.found = decide (s.tot - w' ≠ 0) ∧ s'.tot = s.tot - w' ∧ s'.sh = upd s.sh a (s.sh a - w') ∧
      s'.val = s.val - amt ∧ s'.loose = s.loose ∧ s'.bal = upd s.bal a (s.bal a + amt) := by
  obtain ⟨w, amt, accVal, dustVal, hf, hw0, hw, hle, hamt, hacc, hav, hv0, hl, hdust, hrec⟩ :=
    withdrawFixed_spec s s' a want vo so h
  have hT := hinv.tot_pos hf
  have hV : 0 < s.val := by have := hinv.2.2.1; omega
  obtain ⟨hwant, hweq, hwpos⟩ := convertToShares_ok s want w hf (by omega) hV hw
  have hsa : s.sh a ≤ s.tot := by rw [hinv.2.1]; exact le_sumOver accts s.sh hinv.1 a ha
  rw [convertToAssets_found s w hf hT (by omega) (by omega)] at hamt
  rw [convertToAssets_found s (s.sh a) hf hT (by omega) (hinv.1 a)] at hacc
  cases hamt; cases hacc
  have hamt0 : 0 ≤ s.val * w / s.tot := Int.ediv_nonneg (Int.mul_nonneg (by omega) (by omega)) (by omega)
  have hamtV : s.val * w / s.tot ≤ s.val := ediv_le_self_of_le s.val w s.tot (by omega) hT (by omega)
  have hpaid : stratPaid (s.val * w / s.tot) s.val = s.val * w / s.tot := by
    unfold stratPaid; split <;> omega
  rw [hpaid] at hdust hrec
  obtain ⟨r1, r2, r3, r4, r5, r6, r7, r8⟩ := withdrawRecords_spec s s' a _ _ _ hrec
  have hsw : sweep s a w dustVal =
      (if s.sh a - w = 0 ∨ (s.val - s.val * w / s.tot) * (s.sh a - w) / (s.tot - w) = 0 then s.sh a else w) := by
    unfold dustFixed at hdust
    by_cases hr : s.sh a - w = 0
    · simp only [hr, ite_true] at hdust
      cases hdust
      simp only [sweep, hr, true_or, ite_true]
    · simp only [hr, ite_false, false_or] at hdust
      have hf' : ({ s with val := s.val - s.val * w / s.tot, tot := s.tot - w } : St).found = true := hf
      rw [convertToAssets_found _ (s.sh a - w) hf' (by simp only []; omega) (by simp only []; omega) (by omega)] at hdust
      cases hdust
      simp only [sweep, hr, false_or]
  refine ⟨w, sweep s a w dustVal, s.val * w / s.tot,
    hwant, hf, hT, hV, hweq, hwpos, hle, hsa, rfl, hamt0, hav, hamtV, ?_, hsw, ?_, ?_, r3, r4, r5, r6, by omega, r8⟩
  · rw [hweq]; exact roundtrip_le want s.tot s.val hT hV
  · unfold sweep; split <;> omega
  · unfold sweep; split <;> omega

theorem withdrawFixed_inv (accts : List Addr) (hn : accts.Nodup) (s s' : St) (a : Addr) (want : Int)
    (vo so : Bool) (ha : a ∈ accts) (hinv : Inv accts s)
    (h : withdrawFixed s a want vo so = .ok s') : Inv accts s' := by
  obtain ⟨w, w', amt, hwant, hf, hT, hV, hweq, hwpos, hle, hsa, hamt, hamt0, hav, hamtV, hwant', hw', hww', hw'le,
    r1, r2, r3, r4, r5, r6⟩ := withdrawFixed_arith accts s s' a want vo so ha hinv h
  obtain ⟨i1, i2, i3, i4⟩ := hinv
  refine ⟨?_, ?_, by omega, ?_⟩
  · intro b; rw [r3]; unfold upd; split
    · omega
    · exact i1 b
  · rw [r2, r3, sumOver_upd accts s.sh a _ hn ha, i2]; omega
  · rw [r1, r2]; simp

/-- the patched withdrawal never strands value -/
theorem withdrawFixed_noStranded (accts : List Addr) (s s' : St) (a : Addr) (want : Int)
    (vo so : Bool) (ha : a ∈ accts) (hinv : Inv accts s)
    (h : withdrawFixed s a want vo so = .ok s') : NoStranded s' := by
  obtain ⟨w, w', amt, hwant, hf, hT, hV, hweq, hwpos, hle, hsa, hamt, hamt0, hav, hamtV, hwant', hw', hww', hw'le,
    r1, r2, r3, r4, r5, r6⟩ := withdrawFixed_arith accts s s' a want vo so ha hinv h
  intro hf'
  rw [r1] at hf'
  have ht' : s.tot - w' = 0 := by simpa using hf'
  have hwT : w' = s.tot := by omega
  have hsaT : s.sh a = s.tot := by omega
  rw [r4]
  by_cases hr : s.sh a - w = 0
  · -- everything withdrawn: the payout is the whole value
    have : w = s.tot := by omega
    rw [hamt, this, Int.mul_ediv_cancel s.val (by omega : s.tot ≠ 0)]; omega
  · -- a remainder exists and was swept: its value, which is the whole remaining value, is zero
    have hne : w ≠ s.sh a := by omega
    have hd : (s.val - amt) * (s.sh a - w) / (s.tot - w) = 0 := by
      by_cases hd : (s.val - amt) * (s.sh a - w) / (s.tot - w) = 0
      · exact hd
      · exfalso; simp only [hr, hd, or_self, ite_false] at hw'; omega
    rw [hsaT, Int.mul_ediv_cancel (s.val - amt) (by omega : s.tot - w ≠ 0)] at hd
    exact hd

theorem stepF_inv (accts : List Addr) (hn : accts.Nodup) (s s' : St) (o : Op)
    (ha : ∀ a, o.actor = some a → a ∈ accts) (hinv : Inv accts s) (hns : NoStranded s)
    (h : stepF s o = .ok s') : Inv accts s' ∧ NoStranded s' := by
  cases o with
  | deposit a x v st ac =>
    refine ⟨deposit_inv accts hn s s' a x v st ac (ha a rfl) hinv h, ?_⟩
    obtain ⟨_, _, _, _, hf, _⟩ := deposit_spec s s' a x v st ac h
    intro hc; rw [hf] at hc; cases hc
  | withdraw a w v st =>
    exact ⟨withdrawFixed_inv accts hn s s' a w v st (ha a rfl) hinv h,
      withdrawFixed_noStranded accts s s' a w v st (ha a rfl) hinv h⟩
  | accrue dv =>
    simp only [stepF] at h
    split at h
    · cases h
    · rename_i hc
      cases h
      obtain ⟨i1, i2, i3, i4⟩ := hinv
      refine ⟨⟨i1, i2, by simp only []; omega, i4⟩, ?_⟩
      intro hf
      have hv := hns hf
      simp only [] at hf ⊢
      by_cases hd : dv = 0
      · omega
      · exfalso; exact hc (Or.inr ⟨hv, hd⟩)

theorem runF_inv (accts : List Addr) (hn : accts.Nodup) (ops : List Op) :
    ∀ s, (∀ o ∈ ops, ∀ a, o.actor = some a → a ∈ accts) → Inv accts s → NoStranded s →
      Inv accts (runF s ops) ∧ NoStranded (runF s ops) := by
  induction ops with
  | nil => intro s _ h hs; exact ⟨h, hs⟩
  | cons o os ih =>
    intro s ha hinv hns
    unfold runF
    simp only [List.foldl_cons]
    have hstep : Inv accts (nextF s o) ∧ NoStranded (nextF s o) := by
      unfold nextF
      split
      · rename_i s' h; exact stepF_inv accts hn s s' o (ha o List.mem_cons_self) hinv hns h
      · exact ⟨hinv, hns⟩
    exact ih (nextF s o) (fun o' ho' => ha o' (List.mem_cons_of_mem _ ho')) hstep.1 hstep.2

theorem withdrawFixed_pays (accts : List Addr) (s s' : St) (a : Addr) (want : Int) (vo so : Bool)
    (ha : a ∈ accts) (hinv : Inv accts s) (h : withdrawFixed s a want vo so = .ok s') :
    0 ≤ s'.bal a - s.bal a ∧ s'.bal a - s.bal a ≤ redeemable s a := by
  obtain ⟨w, w', amt, hwant, hf, hT, hV, hweq, hwpos, hle, hsa, hamt, hamt0, hav, hamtV, hwant', hw', hww', hw'le,
    r1, r2, r3, r4, r5, r6⟩ := withdrawFixed_arith accts s s' a want vo so ha hinv h
  have hb : s'.bal a = s.bal a + amt := by rw [r6]; simp [upd]
  rw [redeemable_found accts s a hinv hf]
  exact ⟨by omega, by omega⟩

/-- With the patch, in every state reachable from genesis by any list of deposits, withdrawals and
    accruals, depositing `x` and immediately withdrawing leaves the account with at most its
    previous balance plus what it could already redeem: the full C11 statement. -/
theorem fixed_deposit_withdraw_no_profit (accts : List Addr) (hn : accts.Nodup) (ops : List Op)
    (hops : ∀ o ∈ ops, ∀ a, o.actor = some a → a ∈ accts) (s0 : St) (h0 : Inv accts s0)
    (hns0 : NoStranded s0) (a : Addr) (ha : a ∈ accts) (x want : Int) :
    let s := runF s0 ops
    (runF s [.deposit a x true true true, .withdraw a want true true]).bal a ≤ s.bal a + redeemable s a := by
  intro s
  obtain ⟨h, hns⟩ := runF_inv accts hn ops s0 hops h0 hns0
  have hr0 : ∀ t : St, Inv accts t → 0 ≤ redeemable t a := by
    intro t ht
    by_cases hf : t.found = true
    · rw [redeemable_found accts t a ht hf]
      exact Int.ediv_nonneg (Int.mul_nonneg ht.2.2.1 (ht.1 a)) ht.tot_nonneg
    · have hf' : t.found = false := by cases hh : t.found <;> simp_all
      rw [redeemable_notfound t a hf']; omega
  unfold runF
  simp only [List.foldl_cons, List.foldl_nil]
  have key : ∀ s1 : St, Inv accts s1 → s1.bal a ≤ s.bal a + redeemable s a - redeemable s1 a →
      (nextF s1 (.withdraw a want true true)).bal a ≤ s.bal a + redeemable s a := by
    intro s1 h1 hb
    have hr1 := hr0 s1 h1
    unfold nextF
    split
    · rename_i s2 h2
      simp only [stepF] at h2
      have := withdrawFixed_pays accts s1 s2 a want true true ha h1 h2
      omega
    · omega
  cases hd : stepF s (.deposit a x true true true) with
  | ok s1 =>
    have hn1 : nextF s (.deposit a x true true true) = s1 := by unfold nextF; rw [hd]
    rw [hn1]
    have h1 : deposit s a x true true true = .ok s1 := hd
    have hinv1 := deposit_inv accts hn s s1 a x true true true ha h h1
    have hle := deposit_redeemable_le accts s s1 a x true true true ha h hns h1
    obtain ⟨shares, hx, -, -, -, -, hf1, -, -, -, -, r6⟩ := deposit_arith accts s s1 a x true true true h h1
    have hb : s1.bal a = s.bal a - x := by rw [r6]; simp [upd]
    exact key s1 hinv1 (by omega)
  | err =>
    have hn1 : nextF s (.deposit a x true true true) = s := by unfold nextF; rw [hd]
    rw [hn1]; exact key s h (by omega)
  | panic =>
    have hn1 : nextF s (.deposit a x true true true) = s := by unfold nextF; rw [hd]
    rw [hn1]; exact key s h (by omega)

/-- the witness of the finding no longer works on the patched model: account 0 keeps shares worth 999 -/
example : (runF { empty with bal := fun _ => 2000000 }
    [.deposit 0 1000000 true true true, .withdraw 0 999001 true true]).found = true := by decide
example : redeemable (runF { empty with bal := fun _ => 2000000 }
    [.deposit 0 1000000 true true true, .withdraw 0 999001 true true]) 0 = 999 := by decide

end KV.Earn
