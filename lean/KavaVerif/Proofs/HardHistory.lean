/-
  Helper lemmas for C08 (x/hard): the borrow gate on the keeper, idempotence of re-syncing, and histories
  (any interleaving of deposit / withdraw / borrow / repay / liquidate / accrue, each with its own configuration,
  failed messages rolled back): effect of every operation on the two global indexes.
-/
import KavaVerif.Proofs.HardLiq
import Mathlib.Tactic.Linarith
import Mathlib.Tactic.Ring
import Mathlib.Tactic.Positivity
set_option linter.unusedSimpArgs false
set_option linter.unusedVariables false
namespace KV.Hard
open KV

/-! ### the borrow gate on the keeper -/

theorem pricesOk_add' (cfg : Cfg) (a b : Coins) (ha : ∀ d ∈ cfg.ds, 0 ≤ a d) (hb : ∀ d ∈ cfg.ds, 0 ≤ b d)
    (h1 : pricesOk cfg a = true) (h2 : pricesOk cfg b = true) : pricesOk cfg (addC a b) = true := by
  rw [pricesOk_iff] at *
  intro d hd hc
  unfold addC at hc
  by_cases h : 0 < a d
  · exact h1 d hd h
  · have := ha d hd; have := hb d hd
    exact h2 d hd (by omega)

theorem valueOf_add_disjoint' (cfg : Cfg) (a b : Coins) (hdis : ∀ d ∈ cfg.ds, a d = 0 ∨ b d = 0) :
    valueOf cfg (addC a b) = valueOf cfg a + valueOf cfg b := by
  rw [valueOf_eq, valueOf_eq, valueOf_eq, ← sumD_add]
  apply sumD_congr
  intro d hd
  unfold valD addC
  rcases hdis d hd with h | h <;> simp [h]

theorem valueOf_add_le' (cfg : Cfg) (hx : ExactCf cfg) (a b : Coins) (ha : ∀ d ∈ cfg.ds, 0 ≤ a d) (hb : ∀ d ∈ cfg.ds, 0 ≤ b d) :
    valueOf cfg (addC a b) ≤ valueOf cfg a + valueOf cfg b +
      ((cfg.ds.filter (fun d => decide (0 < a d) && decide (0 < b d))).length : Int) := by
  rw [valueOf_eq, valueOf_eq, valueOf_eq, ← sumD_add, ← sumD_indicator_le_length, ← sumD_add]
  apply sumD_le
  intro d hd
  obtain ⟨hcf, hdiv, hp⟩ := hx d hd
  unfold valD addC
  have := ha d hd; have := hb d hd
  by_cases h1 : 0 < a d <;> by_cases h2 : 0 < b d
  · have := usdValue_add_le (cfg.mkt d) (a d) (b d) (ha d hd) (hb d hd) hcf hdiv hp
    have h3 : 0 < a d + b d := by omega
    simp [h1, h2, h3]; omega
  · have e : b d = 0 := by omega
    simp [h1, h2, e]
  · have e : a d = 0 := by omega
    simp [h1, h2, e]
  · have e : b d = 0 := by omega
    have e' : a d = 0 := by omega
    simp [e, e']

/-- what a successful `Borrow` did: it validated the new coins against the position as just synced and stored
    deposit = synced deposit, borrow = synced borrow + new coins -/
theorem borrow_ok_spec (cfg : Cfg) (s s' : St) (u : User) (coins : Coins) (h : borrow cfg s u coins = .ok s') :
    ∃ s2 : St,
      validateBorrow cfg s2.cash s2.reserves s2.borrowed (s2.dep u) (s2.bor u) coins = .ok () ∧
      s'.dep u = s2.dep u ∧ s'.bor u = addC (s2.bor u) coins ∧
      (∀ d ∈ cfg.ds, s.bor u d ≤ s2.bor u d) ∧ (∀ d ∈ cfg.ds, s.bor u d = 0 → s2.bor u d = 0) := by
  unfold borrow at h
  simp only at h
  split at h
  · cases h
  · cases h
  rename_i s1 h1
  split at h
  · cases h
  · cases h
  rename_i s2 h2
  split at h
  · cases h
  · cases h
  rename_i hv
  split at h
  · cases h
  cases h
  obtain ⟨b1, -, -, -, -, -⟩ := syncSupply_spec cfg _ s1 u h1
  obtain ⟨-, -, -, -, ge2, f2⟩ := syncBorrow_spec cfg s1 s2 u h2
  refine ⟨s2, hv, rfl, by simp only [upd_same], ?_, ?_⟩
  · intro d hd; have := ge2 d hd; rw [b1] at this; exact this
  · intro d hd h0
    have := f2 d hd
    rw [b1] at this
    simp only [h0, Int.lt_irrefl, ite_false] at this
    exact this

/-! ### re-syncing -/

theorem tquo_P_eq_zero (x : Int) (h1 : -P < x) (h2 : x < P) : tquo x P = 0 := by
  unfold tquo
  simp only [show (0:Int) ≤ P by decide, ite_true, P_val] at *
  split <;> omega

/-- re-syncing a borrow at the factor it was just synced at adds nothing (factor between 0 and 10^18) -/
theorem interestQM_self (a g : Int) (ha : 0 ≤ a) (hg : 0 < g) (hg2 : g ≤ P * P) : interestQM a g g = 0 := by
  unfold interestQM Dec.truncateInt chopTrunc Dec.sub Dec.mul Dec.quo Dec.ofInt
  simp only
  have hP := P_pos
  have hA : 0 ≤ a * P * P * P := by positivity
  rw [tquo_nonneg_eq _ _ hA (by omega)]
  generalize ht : a * P * P * P / g = t
  have ht0 : 0 ≤ t := by rw [← ht]; exact Int.ediv_nonneg hA (by omega)
  have t1 : t * g ≤ a * P * P * P := by rw [← ht]; exact Int.ediv_mul_le _ (by omega)
  have t2 : a * P * P * P < t * g + g := by
    rw [← ht]
    have := Int.lt_ediv_add_one_mul_self (a * P * P * P) hg
    linarith
  rw [chopRound_nonneg_eq t ht0]
  have bq := chopRoundNonneg_bound t ht0
  generalize hq : chopRoundNonneg t = q at bq
  have hq0 : 0 ≤ q := by rw [← hq]; exact chopRoundNonneg_nonneg t ht0
  have hqg : 0 ≤ q * g := Int.mul_nonneg hq0 (by omega)
  rw [chopRound_nonneg_eq _ hqg]
  have br := chopRoundNonneg_bound (q * g) hqg
  generalize hr : chopRoundNonneg (q * g) = r at br
  have hgP : g * P ≤ P * P * P := by
    have := Int.mul_le_mul_of_nonneg_right hg2 (by omega : (0:Int) ≤ P); linarith
  have hP3 : 3 * (P * P) < P * P * P := by decide
  apply tquo_P_eq_zero
  · -- lower bound
    have h1 : g * (2 * (t - q * P)) ≤ g * P := Int.mul_le_mul_of_nonneg_left bq.2 (by omega)
    have h2 : P * (2 * (q * g - r * P)) ≤ P * P := Int.mul_le_mul_of_nonneg_left br.2 (by omega)
    by_contra hc
    have hc' : r - a * P ≤ -P := by omega
    have h3 : (r - a * P) * (P * P) ≤ -P * (P * P) :=
      Int.mul_le_mul_of_nonneg_right hc' (by positivity)
    nlinarith [h1, h2, h3, t1, t2, hgP, hP3]
  · have h1 : g * (2 * (q * P - t)) ≤ g * P := Int.mul_le_mul_of_nonneg_left bq.1 (by omega)
    have h2 : P * (2 * (r * P - q * g)) ≤ P * P := Int.mul_le_mul_of_nonneg_left br.1 (by omega)
    by_contra hc
    have hc' : P ≤ r - a * P := by omega
    have h3 : P * (P * P) ≤ (r - a * P) * (P * P) :=
      Int.mul_le_mul_of_nonneg_right hc' (by positivity)
    nlinarith [h1, h2, h3, t1, t2, hgP, hP3]

/-! ### histories -/

inductive Op where
  | deposit (u : User) (c : Coins)
  | withdraw (u : User) (c : Coins)
  | borrow (u : User) (c : Coins)
  | repay (sender owner : User) (c : Coins)
  | liquidate (keeper borrower : User)
  | accrue (d : Denom) (now : Int) (phi : Dec) (apyPos : Bool)

def step (cfg : Cfg) (s : St) : Op → Res St
  | .deposit u c => deposit cfg s u c
  | .withdraw u c => withdraw cfg s u c
  | .borrow u c => borrow cfg s u c
  | .repay a b c => repay cfg s a b c
  | .liquidate k b => liquidate cfg s k b
  | .accrue d now phi apyPos => accrue cfg s d now phi apyPos

/-- baseapp: a message that fails leaves no change (configuration — parameters and prices — may differ per step) -/
def applyOp (s : St) (x : Cfg × Op) : St :=
  match step x.1 s x.2 with
  | .ok s' => s'
  | _ => s

def run (s : St) (h : List (Cfg × Op)) : St := h.foldl applyOp s

/-- the two global indexes read the same in both states (a factor first set to 1.0 reads as before) and any stored
    factor is either an old one or 1.0 -/
def IdxSame (s s' : St) : Prop :=
  (∀ d, (s'.brwIdx d).getD P = (s.brwIdx d).getD P) ∧ (∀ d, (s'.supIdx d).getD P = (s.supIdx d).getD P) ∧
  (∀ d v, s'.brwIdx d = some v → v = P ∨ s.brwIdx d = some v) ∧
  (∀ d v, s'.supIdx d = some v → v = P ∨ s.supIdx d = some v)

theorem IdxSame_of_eq (s s' : St) (h1 : s'.brwIdx = s.brwIdx) (h2 : s'.supIdx = s.supIdx) : IdxSame s s' := by
  refine ⟨fun d => by rw [h1], fun d => by rw [h2], fun d v hv => Or.inr (by rw [← h1]; exact hv),
    fun d v hv => Or.inr (by rw [← h2]; exact hv)⟩

theorem initIdx_getD (f : Denom → Option Int) (c : Coins) (d : Denom) :
    (if 0 < c d ∧ (f d).isNone then some P else f d).getD P = (f d).getD P := by
  split
  · rename_i h; cases hf : f d with
    | none => simp
    | some v => simp [hf] at h
  · rfl

theorem initIdx_some (f : Denom → Option Int) (c : Coins) (d : Denom) (v : Int)
    (h : (if 0 < c d ∧ (f d).isNone then some P else f d) = some v) : v = P ∨ f d = some v := by
  split at h
  · cases h; exact Or.inl rfl
  · exact Or.inr h

theorem deposit_idx (cfg : Cfg) (s s' : St) (u : User) (c : Coins) (h : deposit cfg s u c = .ok s') : IdxSame s s' := by
  unfold deposit at h
  simp only at h
  split at h
  · cases h
  · cases h
  rename_i s2 h2
  split at h
  · cases h
  cases h
  obtain ⟨-, -, g, -, -, -⟩ := syncSupply_spec cfg _ s2 u h2
  obtain ⟨ga, gb, -⟩ := g
  refine ⟨fun d => ?_, fun d => ?_, fun d v hv => ?_, fun d v hv => ?_⟩
  · show (s2.brwIdx d).getD P = _; rw [gb]
  · show (s2.supIdx d).getD P = _; rw [ga]; exact initIdx_getD s.supIdx c d
  · have : s2.brwIdx d = some v := hv
    rw [gb] at this; exact Or.inr this
  · have : s2.supIdx d = some v := hv
    rw [ga] at this; exact initIdx_some s.supIdx c d v this

theorem withdraw_idx (cfg : Cfg) (s s' : St) (u : User) (c : Coins) (h : withdraw cfg s u c = .ok s') : IdxSame s s' := by
  unfold withdraw at h
  split at h
  · cases h
  split at h
  · cases h
  · cases h
  rename_i s1 h1
  split at h
  · cases h
  · cases h
  rename_i s2 h2
  simp only at h
  split at h
  · cases h
  split at h
  · cases h
  · cases h
  · cases h
  split at h
  · cases h
  split at h
  · cases h
  split at h
  · cases h
  cases h
  obtain ⟨-, -, g1, -, -, -⟩ := syncBorrow_spec cfg s s1 u h1
  obtain ⟨-, -, g2, -, -, -⟩ := syncSupply_spec cfg s1 s2 u h2
  exact IdxSame_of_eq _ _ (by show s2.brwIdx = _; rw [g2.2.1, g1.2.1]) (by show s2.supIdx = _; rw [g2.1, g1.1])

theorem repay_idx (cfg : Cfg) (s s' : St) (a b : User) (c : Coins) (h : repay cfg s a b c = .ok s') : IdxSame s s' := by
  unfold repay at h
  split at h
  · cases h
  split at h
  · cases h
  · cases h
  rename_i s1 h1
  simp only at h
  split at h
  · cases h
  split at h
  · cases h
  · cases h
  split at h
  · cases h
  split at h
  · cases h
  split at h
  · cases h
  cases h
  obtain ⟨-, -, g1, -, -, -⟩ := syncBorrow_spec cfg s s1 b h1
  exact IdxSame_of_eq _ _ (by show s1.brwIdx = _; rw [g1.2.1]) (by show s1.supIdx = _; rw [g1.1])

theorem borrow_idx (cfg : Cfg) (s s' : St) (u : User) (c : Coins) (h : borrow cfg s u c = .ok s') : IdxSame s s' := by
  unfold borrow at h
  simp only at h
  split at h
  · cases h
  · cases h
  rename_i s1 h1
  split at h
  · cases h
  · cases h
  rename_i s2 h2
  split at h
  · cases h
  · cases h
  split at h
  · cases h
  cases h
  obtain ⟨-, -, g1, -, -, -⟩ := syncSupply_spec cfg _ s1 u h1
  obtain ⟨-, -, g2, -, -, -⟩ := syncBorrow_spec cfg s1 s2 u h2
  refine ⟨fun d => ?_, fun d => ?_, fun d v hv => ?_, fun d v hv => ?_⟩
  · show (s2.brwIdx d).getD P = _; rw [g2.2.1, g1.2.1]; exact initIdx_getD s.brwIdx c d
  · show (s2.supIdx d).getD P = _; rw [g2.1, g1.1]
  · have : s2.brwIdx d = some v := hv
    rw [g2.2.1, g1.2.1] at this; exact initIdx_some s.brwIdx c d v this
  · have : s2.supIdx d = some v := hv
    rw [g2.1, g1.1] at this; exact Or.inr this

theorem liquidate_idx (cfg : Cfg) (s s' : St) (k b : User) (h : liquidate cfg s k b = .ok s') : IdxSame s s' := by
  unfold liquidate at h
  split at h
  · cases h
  split at h
  · cases h
  split at h
  · cases h
  · cases h
  rename_i s1 h1
  split at h
  · cases h
  · cases h
  rename_i s2 h2
  split at h
  · cases h
  · cases h
  · cases h
  split at h
  · cases h
  · cases h
  cases h
  obtain ⟨-, -, g1, -, -, -⟩ := syncBorrow_spec cfg s s1 b h1
  obtain ⟨-, -, g2, -, -, -⟩ := syncSupply_spec cfg s1 s2 b h2
  exact IdxSame_of_eq _ _ (by show s2.brwIdx = _; rw [g2.2.1, g1.2.1]) (by show s2.supIdx = _; rw [g2.1, g1.1])


/-- the monitored assumption on the interest-factor parameter of every accrual of a history -/
def OpOk : Op → Prop
  | .accrue _ _ phi _ => P ≤ phi.m
  | _ => True

theorem step_idxSame (cfg : Cfg) (s s' : St) (op : Op) (hna : ∀ d now phi a, op ≠ .accrue d now phi a)
    (h : step cfg s op = .ok s') : IdxSame s s' := by
  cases op with
  | deposit u c => exact deposit_idx cfg s s' u c h
  | withdraw u c => exact withdraw_idx cfg s s' u c h
  | borrow u c => exact borrow_idx cfg s s' u c h
  | repay a b c => exact repay_idx cfg s s' a b c h
  | liquidate k b => exact liquidate_idx cfg s s' k b h
  | accrue d now phi a => exact absurd rfl (hna d now phi a)

theorem getD_nonneg (o : Option Int) (h : ∀ v, o = some v → 0 ≤ v) : 0 ≤ o.getD P := by
  cases o with
  | none => simp [P_val]
  | some v => simpa using h v rfl

theorem step_brw (cfg : Cfg) (s s' : St) (op : Op) (hop : OpOk op) (hn : ∀ d v, s.brwIdx d = some v → 0 ≤ v)
    (h : step cfg s op = .ok s') :
    (∀ d, (s.brwIdx d).getD P ≤ (s'.brwIdx d).getD P) ∧ (∀ d v, s'.brwIdx d = some v → 0 ≤ v) := by
  cases op with
  | accrue d now phi a =>
    obtain ⟨hoth, hd, -⟩ := accrue_brwIdx cfg s s' d now phi a hop (hn d) h
    constructor
    · intro e
      by_cases he : e = d
      · subst he; exact hd
      · rw [hoth e he]
    · intro e v hv
      by_cases he : e = d
      · subst he
        have := getD_nonneg _ (hn e)
        rw [hv] at hd; simp only [Option.getD_some] at hd; omega
      · rw [hoth e he] at hv; exact hn e v hv
  | deposit u c =>
    obtain ⟨a, -, c1, -⟩ := deposit_idx cfg s s' u c h
    exact ⟨fun d => by rw [a d], fun d v hv => by rcases c1 d v hv with e | e; (· rw [e]; decide); (· exact hn d v e)⟩
  | withdraw u c =>
    obtain ⟨a, -, c1, -⟩ := withdraw_idx cfg s s' u c h
    exact ⟨fun d => by rw [a d], fun d v hv => by rcases c1 d v hv with e | e; (· rw [e]; decide); (· exact hn d v e)⟩
  | borrow u c =>
    obtain ⟨a, -, c1, -⟩ := borrow_idx cfg s s' u c h
    exact ⟨fun d => by rw [a d], fun d v hv => by rcases c1 d v hv with e | e; (· rw [e]; decide); (· exact hn d v e)⟩
  | repay x y c =>
    obtain ⟨a, -, c1, -⟩ := repay_idx cfg s s' x y c h
    exact ⟨fun d => by rw [a d], fun d v hv => by rcases c1 d v hv with e | e; (· rw [e]; decide); (· exact hn d v e)⟩
  | liquidate k b =>
    obtain ⟨a, -, c1, -⟩ := liquidate_idx cfg s s' k b h
    exact ⟨fun d => by rw [a d], fun d v hv => by rcases c1 d v hv with e | e; (· rw [e]; decide); (· exact hn d v e)⟩

theorem step_sup (cfg : Cfg) (s s' : St) (op : Op) (hn : ∀ d v, s.supIdx d = some v → 0 ≤ v)
    (h : step cfg s op = .ok s') :
    (∀ d, (s.supIdx d).getD P ≤ (s'.supIdx d).getD P) ∧ (∀ d v, s'.supIdx d = some v → 0 ≤ v) := by
  cases op with
  | accrue d now phi a =>
    obtain ⟨hoth, hd, -⟩ := accrue_supIdx cfg s s' d now phi a (hn d) h
    constructor
    · intro e
      by_cases he : e = d
      · subst he; exact hd
      · rw [hoth e he]
    · intro e v hv
      by_cases he : e = d
      · subst he
        have := getD_nonneg _ (hn e)
        rw [hv] at hd; simp only [Option.getD_some] at hd; omega
      · rw [hoth e he] at hv; exact hn e v hv
  | deposit u c =>
    obtain ⟨-, a, -, c1⟩ := deposit_idx cfg s s' u c h
    exact ⟨fun d => by rw [a d], fun d v hv => by rcases c1 d v hv with e | e; (· rw [e]; decide); (· exact hn d v e)⟩
  | withdraw u c =>
    obtain ⟨-, a, -, c1⟩ := withdraw_idx cfg s s' u c h
    exact ⟨fun d => by rw [a d], fun d v hv => by rcases c1 d v hv with e | e; (· rw [e]; decide); (· exact hn d v e)⟩
  | borrow u c =>
    obtain ⟨-, a, -, c1⟩ := borrow_idx cfg s s' u c h
    exact ⟨fun d => by rw [a d], fun d v hv => by rcases c1 d v hv with e | e; (· rw [e]; decide); (· exact hn d v e)⟩
  | repay x y c =>
    obtain ⟨-, a, -, c1⟩ := repay_idx cfg s s' x y c h
    exact ⟨fun d => by rw [a d], fun d v hv => by rcases c1 d v hv with e | e; (· rw [e]; decide); (· exact hn d v e)⟩
  | liquidate k b =>
    obtain ⟨-, a, -, c1⟩ := liquidate_idx cfg s s' k b h
    exact ⟨fun d => by rw [a d], fun d v hv => by rcases c1 d v hv with e | e; (· rw [e]; decide); (· exact hn d v e)⟩

theorem run_cons (s : St) (x : Cfg × Op) (t : List (Cfg × Op)) : run s (x :: t) = run (applyOp s x) t := rfl

theorem applyOp_brw (s : St) (x : Cfg × Op) (hx : OpOk x.2) (hn : ∀ d v, s.brwIdx d = some v → 0 ≤ v) :
    (∀ d, (s.brwIdx d).getD P ≤ ((applyOp s x).brwIdx d).getD P) ∧
    (∀ d v, (applyOp s x).brwIdx d = some v → 0 ≤ v) := by
  unfold applyOp
  cases hs : step x.1 s x.2 with
  | ok s' => exact step_brw x.1 s s' x.2 hx hn hs
  | err e => exact ⟨fun d => Int.le_refl _, hn⟩
  | panic => exact ⟨fun d => Int.le_refl _, hn⟩

theorem applyOp_sup (s : St) (x : Cfg × Op) (hn : ∀ d v, s.supIdx d = some v → 0 ≤ v) :
    (∀ d, (s.supIdx d).getD P ≤ ((applyOp s x).supIdx d).getD P) ∧
    (∀ d v, (applyOp s x).supIdx d = some v → 0 ≤ v) := by
  unfold applyOp
  cases hs : step x.1 s x.2 with
  | ok s' => exact step_sup x.1 s s' x.2 hn hs
  | err e => exact ⟨fun d => Int.le_refl _, hn⟩
  | panic => exact ⟨fun d => Int.le_refl _, hn⟩

theorem run_brw (h : List (Cfg × Op)) (s : St) (hops : ∀ x ∈ h, OpOk x.2)
    (hn : ∀ d v, s.brwIdx d = some v → 0 ≤ v) :
    ∀ d, (s.brwIdx d).getD P ≤ ((run s h).brwIdx d).getD P := by
  induction h generalizing s with
  | nil => intro d; exact Int.le_refl _
  | cons x t ih =>
    intro d
    rw [run_cons]
    obtain ⟨m, n⟩ := applyOp_brw s x (hops x List.mem_cons_self) hn
    have := ih (applyOp s x) (fun y hy => hops y (List.mem_cons_of_mem _ hy)) n d
    have := m d
    omega

theorem run_sup (h : List (Cfg × Op)) (s : St) (hn : ∀ d v, s.supIdx d = some v → 0 ≤ v) :
    ∀ d, (s.supIdx d).getD P ≤ ((run s h).supIdx d).getD P := by
  induction h generalizing s with
  | nil => intro d; exact Int.le_refl _
  | cons x t ih =>
    intro d
    rw [run_cons]
    obtain ⟨m, n⟩ := applyOp_sup s x hn
    have := ih (applyOp s x) n d
    have := m d
    omega

/-! ### a position just stored by `Withdraw` cannot be liquidated in the same block -/

theorem interestMQ_self (a g : Int) (hg : 0 < g) (ha : 0 ≤ a) : interestMQ a g g = 0 := by
  unfold interestMQ Dec.truncateInt chopTrunc Dec.sub Dec.mul Dec.quo Dec.ofInt
  simp only
  have e1 : a * P * g = (a * g) * P := by ring
  rw [e1, chopRound_mul_P]
  have hP := P_pos
  have hnn : 0 ≤ a * g * P * P := by positivity
  have e2 : a * g * P * P = (a * P * P) * g := by ring
  rw [tquo_nonneg_eq _ _ hnn (by omega), e2, Int.mul_ediv_cancel _ (by omega)]
  have e3 : a * P * P = (a * P) * P := by ring
  rw [e3, chopRound_mul_P]
  have : a * P - a * P = 0 := by omega
  rw [this]; decide

theorem supp_congr (ds : List Denom) (c c' : Coins) (h : ∀ d ∈ ds, c d = c' d) : supp ds c = supp ds c' := by
  unfold supp
  apply List.filter_congr
  intro d hd
  rw [h d hd]

theorem isWithinLtv_congr (cfg : Cfg) (dep dep' bor bor' : Coins) (hd : ∀ d ∈ cfg.ds, dep d = dep' d)
    (hb : ∀ d ∈ cfg.ds, bor d = bor' d) : isWithinLtv cfg dep bor = isWithinLtv cfg dep' bor' := by
  have e1 : pricesOk cfg bor = pricesOk cfg bor' := by unfold pricesOk; rw [supp_congr _ _ _ hb]
  have e2 : pricesOk cfg dep = pricesOk cfg dep' := by unfold pricesOk; rw [supp_congr _ _ _ hd]
  have e3 : valueOf cfg bor = valueOf cfg bor' := by
    unfold valueOf; rw [supp_congr _ _ _ hb]
    apply sumD_congr; intro d hm
    have := ((mem_supp _ _ _).mp hm).1
    rw [hb d this]
  have e4 : borrowable cfg dep = borrowable cfg dep' := by
    unfold borrowable; rw [supp_congr _ _ _ hd]
    apply sumD_congr; intro d hm
    have := ((mem_supp _ _ _).mp hm).1
    rw [hd d this]
  unfold isWithinLtv
  rw [e1, e2, e3, e4]

/-- after `SyncBorrowInterest` every positive borrow entry carries the current global factor -/
theorem syncBorrow_idx (cfg : Cfg) (s s1 : St) (u : User) (h : syncBorrow cfg s u = .ok s1) :
    ∀ d ∈ cfg.ds, 0 < s1.bor u d → s1.borIdx u d = some ((s.brwIdx d).getD 0) := by
  obtain ⟨-, -, -, -, -, f⟩ := syncBorrow_spec cfg s s1 u h
  unfold syncBorrow at h
  simp only at h
  split at h
  · rename_i hemp
    cases h
    intro d hd hpos
    have hm : d ∈ supp cfg.ds (s.bor u) := (mem_supp _ _ _).mpr ⟨hd, hpos⟩
    rw [List.isEmpty_iff] at hemp
    rw [hemp] at hm; cases hm
  split at h
  · cases h
  cases h
  intro d hd hpos
  have := f d hd
  simp only [upd_same] at hpos ⊢
  by_cases hp : 0 < s.bor u d
  · simp [hp]
  · simp only [hp, ite_false] at hpos

theorem syncSupply_idx (cfg : Cfg) (s s1 : St) (u : User) (h : syncSupply cfg s u = .ok s1) :
    ∀ d ∈ cfg.ds, 0 < s1.dep u d → s1.depIdx u d = some ((s.supIdx d).getD 0) := by
  unfold syncSupply at h
  simp only at h
  split at h
  · rename_i hemp
    cases h
    intro d hd hpos
    have hm : d ∈ supp cfg.ds (s.dep u) := (mem_supp _ _ _).mpr ⟨hd, hpos⟩
    rw [List.isEmpty_iff] at hemp
    rw [hemp] at hm; cases hm
  split at h
  · cases h
  cases h
  intro d hd hpos
  simp only [upd_same] at hpos ⊢
  by_cases hp : 0 < s.dep u d
  · simp [hp]
  · simp only [hp, ite_false] at hpos

/-- the records `Withdraw` stores: borrow = synced borrow with its factors, deposit entries that remain keep the
    synced factors; the global factors are untouched -/
theorem withdraw_records (cfg : Cfg) (s s' : St) (u : User) (coins : Coins) (h : withdraw cfg s u coins = .ok s') :
    ∃ s1 s2, syncBorrow cfg s u = .ok s1 ∧ syncSupply cfg s1 u = .ok s2 ∧
      s'.bor = s2.bor ∧ s'.borIdx = s2.borIdx ∧ s'.brwIdx = s.brwIdx ∧ s'.supIdx = s.supIdx ∧
      (∀ d, 0 < s'.dep u d → 0 < s2.dep u d ∧ s'.depIdx u d = s2.depIdx u d) := by
  unfold withdraw at h
  split at h
  · cases h
  split at h
  · cases h
  · cases h
  rename_i s1 h1
  split at h
  · cases h
  · cases h
  rename_i s2 h2
  simp only at h
  split at h
  · cases h
  split at h
  · cases h
  · cases h
  · cases h
  split at h
  · cases h
  split at h
  · cases h
  split at h
  · cases h
  cases h
  obtain ⟨-, -, g1, -, -, -⟩ := syncBorrow_spec cfg s s1 u h1
  obtain ⟨-, -, g2, -, -, -⟩ := syncSupply_spec cfg s1 s2 u h2
  refine ⟨s1, s2, h1, h2, rfl, rfl, by show s2.brwIdx = _; rw [g2.2.1, g1.2.1], by show s2.supIdx = _; rw [g2.1, g1.1], ?_⟩
  intro d hpos
  simp only [upd_same] at hpos ⊢
  unfold subC capAmount at hpos
  have hs2 : 0 < s2.dep u d := by
    split at hpos
    · split at hpos <;> omega
    · omega
  refine ⟨hs2, ?_⟩
  have : ¬ (0 < s2.dep u d ∧ subC (s2.dep u) (capAmount (s2.dep u) coins) d ≤ 0) := by
    intro hc
    have := hc.2
    unfold subC capAmount at this
    omega
  simp only [this, ite_false]


theorem syncBorrow_nopanic (cfg : Cfg) (s s1 : St) (u : User) (h : syncBorrow cfg s u = .ok s1) :
    ∀ d ∈ cfg.ds, 0 < s.bor u d → syncBorPanics (s.bor u d) (s.borIdx u d) ((s.brwIdx d).getD 0) = false := by
  unfold syncBorrow at h
  simp only at h
  intro d hd hpos
  have hm : d ∈ supp cfg.ds (s.bor u) := (mem_supp _ _ _).mpr ⟨hd, hpos⟩
  split at h
  · rename_i hemp
    rw [List.isEmpty_iff] at hemp
    rw [hemp] at hm; cases hm
  split at h
  · cases h
  rename_i hnp
  exact any_false_of_mem (by simpa using hnp) d hm

theorem syncSupply_nopanic (cfg : Cfg) (s s1 : St) (u : User) (h : syncSupply cfg s u = .ok s1) :
    ∀ d ∈ cfg.ds, 0 < s.dep u d → syncSupPanics (s.depIdx u d) = false := by
  unfold syncSupply at h
  simp only at h
  intro d hd hpos
  have hm : d ∈ supp cfg.ds (s.dep u) := (mem_supp _ _ _).mpr ⟨hd, hpos⟩
  split at h
  · rename_i hemp
    rw [List.isEmpty_iff] at hemp
    rw [hemp] at hm; cases hm
  split at h
  · cases h
  rename_i hnp
  exact any_false_of_mem (by simpa using hnp) d hm

theorem withdraw_then_not_liquidatable (cfg : Cfg) (s s' : St) (u : User) (coins : Coins)
    (hB : ∀ d ∈ cfg.ds, ∀ v, s.brwIdx d = some v → 0 ≤ v ∧ v ≤ P * P)
    (hS : ∀ d ∈ cfg.ds, ∀ v, s.supIdx d = some v → 0 ≤ v)
    (h : withdraw cfg s u coins = .ok s') : ∀ keeper, (liquidate cfg s' keeper u).isOk = false := by
  intro keeper
  cases hl : liquidate cfg s' keeper u with
  | err e => rfl
  | panic => rfl
  | ok s'' =>
    exfalso
    obtain ⟨t1, t2, e1, e2, ew⟩ := liquidate_ok_outside cfg s' s'' keeper u hl
    have hw := withdraw_ok_within cfg s s' u coins h
    obtain ⟨s1, s2, h1, h2, rb, rbi, rgb, rgs, rdep⟩ := withdraw_records cfg s s' u coins h
    obtain ⟨-, -, g1, -, -, -⟩ := syncBorrow_spec cfg s s1 u h1
    obtain ⟨b2, bi2, g2, -, -, -⟩ := syncSupply_spec cfg s1 s2 u h2
    obtain ⟨td1, tdi1, tg1, -, -, tf1⟩ := syncBorrow_spec cfg s' t1 u e1
    obtain ⟨tb2, -, tg2, -, -, tf2⟩ := syncSupply_spec cfg t1 t2 u e2
    have hbor : ∀ d ∈ cfg.ds, t2.bor u d = s'.bor u d := by
      intro d hd
      rw [tb2, tf1 d hd]
      split
      · rename_i hpos
        have hpos1 : 0 < s1.bor u d := by rw [rb, b2] at hpos; exact hpos
        have hidx := syncBorrow_idx cfg s s1 u h1 d hd hpos1
        have hidx' : s'.borIdx u d = some ((s'.brwIdx d).getD 0) := by rw [rbi, bi2, hidx, rgb]
        have hnp := syncBorrow_nopanic cfg s' t1 u e1 d hd hpos
        rw [hidx'] at hnp ⊢
        unfold syncBorPanics at hnp
        unfold syncBorAmt
        simp only at hnp ⊢
        have hg0 : (s'.brwIdx d).getD 0 ≠ 0 := by
          intro e; simp [e] at hnp
        have hgb : 0 ≤ (s'.brwIdx d).getD 0 ∧ (s'.brwIdx d).getD 0 ≤ P * P := by
          rw [rgb]
          cases hv : s.brwIdx d with
          | none => simp; have := P_pos; positivity
          | some v => simpa using hB d hd v hv
        rw [interestQM_self _ _ (by omega) (by omega) hgb.2]; omega
      · rfl
    have hdep : ∀ d ∈ cfg.ds, t2.dep u d = s'.dep u d := by
      intro d hd
      rw [tf2 d hd, td1, tdi1, tg1.1]
      split
      · rename_i hpos
        obtain ⟨hs2, hi⟩ := rdep d hpos
        have hidx := syncSupply_idx cfg s1 s2 u h2 d hd hs2
        have hidx' : s'.depIdx u d = some ((s'.supIdx d).getD 0) := by rw [hi, hidx, g1.1, rgs]
        have hnp := syncSupply_nopanic cfg t1 t2 u e2 d hd (by rw [td1]; exact hpos)
        rw [tdi1, hidx'] at hnp
        rw [hidx']
        unfold syncSupPanics at hnp
        unfold syncSupAmt
        simp only at hnp ⊢
        have hg0 : (s'.supIdx d).getD 0 ≠ 0 := by
          intro e; simp [e] at hnp
        have hgb : 0 ≤ (s'.supIdx d).getD 0 := by
          rw [rgs]
          cases hv : s.supIdx d with
          | none => simp
          | some v => simpa using hS d hd v hv
        rw [interestMQ_self _ _ (by omega) (by omega)]; simp
      · rfl
    rw [isWithinLtv_congr cfg _ _ _ _ hdep hbor, hw] at ew
    cases ew

/-! ### user operations touch only the acting user's records -/

/-- the deposit and borrow records of `v` are the same in both states -/
def SameRecords (s s' : St) (v : User) : Prop :=
  s'.dep v = s.dep v ∧ s'.depIdx v = s.depIdx v ∧ s'.bor v = s.bor v ∧ s'.borIdx v = s.borIdx v

theorem deposit_frame (cfg : Cfg) (s s' : St) (u : User) (c : Coins) (h : deposit cfg s u c = .ok s') :
    ∀ v, v ≠ u → SameRecords s s' v := by
  unfold deposit at h
  simp only at h
  split at h
  · cases h
  · cases h
  rename_i s2 h2
  split at h
  · cases h
  cases h
  obtain ⟨b, bi, -, o, -, -⟩ := syncSupply_spec cfg _ s2 u h2
  intro v hv
  refine ⟨?_, ?_, ?_, ?_⟩
  · show upd s2.dep u _ v = _; rw [upd_other _ _ _ _ hv, (o v hv).1]
  · show upd s2.depIdx u _ v = _; rw [upd_other _ _ _ _ hv, (o v hv).2]
  · show s2.bor v = _; rw [b]
  · show s2.borIdx v = _; rw [bi]

theorem withdraw_frame (cfg : Cfg) (s s' : St) (u : User) (c : Coins) (h : withdraw cfg s u c = .ok s') :
    ∀ v, v ≠ u → SameRecords s s' v := by
  unfold withdraw at h
  split at h
  · cases h
  split at h
  · cases h
  · cases h
  rename_i s1 h1
  split at h
  · cases h
  · cases h
  rename_i s2 h2
  simp only at h
  split at h
  · cases h
  split at h
  · cases h
  · cases h
  · cases h
  split at h
  · cases h
  split at h
  · cases h
  split at h
  · cases h
  cases h
  obtain ⟨d1, di1, -, o1, -, -⟩ := syncBorrow_spec cfg s s1 u h1
  obtain ⟨b2, bi2, -, o2, -, -⟩ := syncSupply_spec cfg s1 s2 u h2
  intro v hv
  refine ⟨?_, ?_, ?_, ?_⟩
  · show upd s2.dep u _ v = _; rw [upd_other _ _ _ _ hv, (o2 v hv).1, d1]
  · show upd s2.depIdx u _ v = _; rw [upd_other _ _ _ _ hv, (o2 v hv).2, di1]
  · show s2.bor v = _; rw [b2, (o1 v hv).1]
  · show s2.borIdx v = _; rw [bi2, (o1 v hv).2]

theorem borrow_frame (cfg : Cfg) (s s' : St) (u : User) (c : Coins) (h : borrow cfg s u c = .ok s') :
    ∀ v, v ≠ u → SameRecords s s' v := by
  unfold borrow at h
  simp only at h
  split at h
  · cases h
  · cases h
  rename_i s1 h1
  split at h
  · cases h
  · cases h
  rename_i s2 h2
  split at h
  · cases h
  · cases h
  split at h
  · cases h
  cases h
  obtain ⟨b1, bi1, -, o1, -, -⟩ := syncSupply_spec cfg _ s1 u h1
  obtain ⟨d2, di2, -, o2, -, -⟩ := syncBorrow_spec cfg s1 s2 u h2
  intro v hv
  refine ⟨?_, ?_, ?_, ?_⟩
  · show s2.dep v = _; rw [d2, (o1 v hv).1]
  · show s2.depIdx v = _; rw [di2, (o1 v hv).2]
  · show upd s2.bor u _ v = _; rw [upd_other _ _ _ _ hv, (o2 v hv).1, b1]
  · show upd s2.borIdx u _ v = _; rw [upd_other _ _ _ _ hv, (o2 v hv).2, bi1]

theorem repay_frame (cfg : Cfg) (s s' : St) (a b : User) (c : Coins) (h : repay cfg s a b c = .ok s') :
    ∀ v, v ≠ b → SameRecords s s' v := by
  unfold repay at h
  split at h
  · cases h
  split at h
  · cases h
  · cases h
  rename_i s1 h1
  simp only at h
  split at h
  · cases h
  split at h
  · cases h
  · cases h
  split at h
  · cases h
  split at h
  · cases h
  split at h
  · cases h
  cases h
  obtain ⟨d1, di1, -, o1, -, -⟩ := syncBorrow_spec cfg s s1 b h1
  intro v hv
  refine ⟨?_, ?_, ?_, ?_⟩
  · show s1.dep v = _; rw [d1]
  · show s1.depIdx v = _; rw [di1]
  · show upd s1.bor b _ v = _; rw [upd_other _ _ _ _ hv, (o1 v hv).1]
  · show upd s1.borIdx b _ v = _; rw [upd_other _ _ _ _ hv, (o1 v hv).2]

/-! ### a position just stored by `Borrow` cannot be liquidated in the same block -/

/-- the records `Borrow` stores -/
theorem borrow_records (cfg : Cfg) (s s' : St) (u : User) (coins : Coins) (hc : ∀ d, 0 ≤ coins d)
    (h : borrow cfg s u coins = .ok s') :
    (∀ d, s'.brwIdx d = if 0 < coins d ∧ (s.brwIdx d).isNone then some P else s.brwIdx d) ∧
    s'.supIdx = s.supIdx ∧
    (∀ d ∈ cfg.ds, 0 < s'.bor u d → s'.borIdx u d = some ((s'.brwIdx d).getD 0)) ∧
    (∀ d ∈ cfg.ds, 0 < s'.dep u d → s'.depIdx u d = some ((s'.supIdx d).getD 0)) := by
  unfold borrow at h
  simp only at h
  split at h
  · cases h
  · cases h
  rename_i s1 h1
  split at h
  · cases h
  · cases h
  rename_i s2 h2
  split at h
  · cases h
  · cases h
  split at h
  · cases h
  cases h
  obtain ⟨b1, bi1, g1, -, -, -⟩ := syncSupply_spec cfg _ s1 u h1
  obtain ⟨d2, di2, g2, -, -, -⟩ := syncBorrow_spec cfg s1 s2 u h2
  have hbrw : ∀ d, s2.brwIdx d = if 0 < coins d ∧ (s.brwIdx d).isNone then some P else s.brwIdx d := by
    intro d; rw [g2.2.1, g1.2.1]
  have hsup : s2.supIdx = s.supIdx := by rw [g2.1, g1.1]
  refine ⟨hbrw, hsup, ?_, ?_⟩
  · intro d hd hpos
    simp only [upd_same] at hpos ⊢
    by_cases hcd : 0 < coins d
    · simp only [hcd, ite_true]
      have := hbrw d
      simp only [hcd, true_and] at this
      cases hv : s.brwIdx d with
      | none => simp [hv] at this; simp [this]
      | some v => simp [hv] at this; simp [this]
    · simp only [hcd, ite_false]
      have hz : coins d = 0 := by have := hc d; omega
      have hpos2 : 0 < s2.bor u d := by unfold addC at hpos; omega
      have := syncBorrow_idx cfg s1 s2 u h2 d hd hpos2
      rw [this, g2.2.1]
  · intro d hd hpos
    have hpos1 : 0 < s1.dep u d := by
      have e : s2.dep u d = s1.dep u d := by rw [d2]
      have hp : 0 < s2.dep u d := hpos
      omega
    have := syncSupply_idx cfg _ s1 u h1 d hd hpos1
    show s2.depIdx u d = some ((s2.supIdx d).getD 0)
    rw [di2, this, hsup]

theorem borrow_then_not_liquidatable (cfg : Cfg) (s s' : St) (u : User) (coins : Coins) (hc : ∀ d, 0 ≤ coins d)
    (hB : ∀ d ∈ cfg.ds, ∀ v, s.brwIdx d = some v → 0 ≤ v ∧ v ≤ P * P)
    (hS : ∀ d ∈ cfg.ds, ∀ v, s.supIdx d = some v → 0 ≤ v)
    (h : borrow cfg s u coins = .ok s') : ∀ keeper, (liquidate cfg s' keeper u).isOk = false := by
  intro keeper
  cases hl : liquidate cfg s' keeper u with
  | err e => rfl
  | panic => rfl
  | ok s'' =>
    exfalso
    obtain ⟨t1, t2, e1, e2, ew⟩ := liquidate_ok_outside cfg s' s'' keeper u hl
    obtain ⟨s2, hv, ed, eb, -, -⟩ := borrow_ok_spec cfg s s' u coins h
    have hw : isWithinLtv cfg (s'.dep u) (s'.bor u) = .ok true := by
      rw [ed, eb]; exact (validateBorrow_ok _ _ _ _ _ _ _ hv).2.2.2.2.2.2
    obtain ⟨rbrw, rsup, rbi, rdi⟩ := borrow_records cfg s s' u coins hc h
    obtain ⟨td1, tdi1, tg1, -, -, tf1⟩ := syncBorrow_spec cfg s' t1 u e1
    obtain ⟨tb2, -, tg2, -, -, tf2⟩ := syncSupply_spec cfg t1 t2 u e2
    have hPP : P ≤ P * P := by decide
    have hbor : ∀ d ∈ cfg.ds, t2.bor u d = s'.bor u d := by
      intro d hd
      rw [tb2, tf1 d hd]
      split
      · rename_i hpos
        have hidx' := rbi d hd hpos
        have hnp := syncBorrow_nopanic cfg s' t1 u e1 d hd hpos
        rw [hidx'] at hnp ⊢
        unfold syncBorPanics at hnp
        unfold syncBorAmt
        simp only at hnp ⊢
        have hg0 : (s'.brwIdx d).getD 0 ≠ 0 := by
          intro e; simp [e] at hnp
        have hgb : 0 ≤ (s'.brwIdx d).getD 0 ∧ (s'.brwIdx d).getD 0 ≤ P * P := by
          rw [rbrw d]
          split
          · simp only [Option.getD_some]; exact ⟨by decide, hPP⟩
          · cases hv' : s.brwIdx d with
            | none => simp; have := P_pos; positivity
            | some v => simpa using hB d hd v hv'
        rw [interestQM_self _ _ (by omega) (by omega) hgb.2]; omega
      · rfl
    have hdep : ∀ d ∈ cfg.ds, t2.dep u d = s'.dep u d := by
      intro d hd
      rw [tf2 d hd, td1, tdi1, tg1.1]
      split
      · rename_i hpos
        have hidx' := rdi d hd hpos
        have hnp := syncSupply_nopanic cfg t1 t2 u e2 d hd (by rw [td1]; exact hpos)
        rw [tdi1, hidx'] at hnp
        rw [hidx']
        unfold syncSupPanics at hnp
        unfold syncSupAmt
        simp only at hnp ⊢
        have hg0 : (s'.supIdx d).getD 0 ≠ 0 := by
          intro e; simp [e] at hnp
        have hgb : 0 ≤ (s'.supIdx d).getD 0 := by
          rw [rsup]
          cases hv' : s.supIdx d with
          | none => simp
          | some v => simpa using hS d hd v hv'
        rw [interestMQ_self _ _ (by omega) (by omega)]; simp
      · rfl
    rw [isWithinLtv_congr cfg _ _ _ _ hdep hbor, hw] at ew
    cases ew

end KV.Hard
