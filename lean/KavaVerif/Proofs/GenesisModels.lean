/-
  Helper lemmas for C14 (genesis round trips of the simple modules). Core Lean only.
-/
import KavaVerif.Model.GenesisModels
set_option linter.unusedSimpArgs false
set_option linter.unusedVariables false

namespace KV.Gx
open List

theorem set_append_of_lt {V : Type} (acc : List (Nat × V)) (k : Nat) (v : V)
    (h : ∀ x ∈ acc, x.1 < k) : set acc k v = acc ++ [(k, v)] := by
  induction acc with
  | nil => rfl
  | cons a r ih =>
    obtain ⟨k', v'⟩ := a
    have hk : k' < k := h (k', v') (by simp)
    have h1 : ¬ k = k' := by omega
    have h2 : ¬ k < k' := by omega
    unfold set
    simp only [h1, h2, ite_false, List.cons_append]
    rw [ih (fun x hx => h x (by simp [hx]))]

theorem foldl_set_sorted {V : Type} (l acc : List (Nat × V)) (h : Sorted (acc ++ l)) :
    l.foldl (fun st kv => set st kv.1 kv.2) acc = acc ++ l := by
  induction l generalizing acc with
  | nil => simp
  | cons x xs ih =>
    simp only [List.foldl_cons]
    have hlt : ∀ y ∈ acc, y.1 < x.1 := by
      intro y hy
      unfold Sorted at h
      rw [List.pairwise_append] at h
      exact h.2.2 y hy x (by simp)
    rw [set_append_of_lt acc x.1 x.2 hlt]
    have : acc ++ [(x.1, x.2)] ++ xs = acc ++ x :: xs := by simp
    rw [ih (acc ++ [(x.1, x.2)]) (by rw [this]; exact h), this]

/-- importing what iterating a store yields rebuilds the same store -/
theorem fromList_sorted {V : Type} (l : List (Nat × V)) (h : Sorted l) : fromList l = l := by
  unfold fromList
  have := foldl_set_sorted l [] (by simpa using h)
  simpa using this

theorem noDup_iff (l : List Nat) : noDup l = true ↔ l.Nodup := by
  induction l with
  | nil => simp [noDup]
  | cons x xs ih =>
    unfold noDup
    simp only [Bool.and_eq_true, Bool.not_eq_true', List.nodup_cons, ih]
    constructor
    · intro ⟨h1, h2⟩
      refine ⟨?_, h2⟩
      intro hm
      have : xs.contains x = true := by simpa using hm
      rw [this] at h1; cases h1
    · intro ⟨h1, h2⟩
      refine ⟨?_, h2⟩
      cases hc : xs.contains x with
      | false => rfl
      | true => exact absurd (by simpa using hc) h1

theorem noDup_of_sorted {V : Type} (l : List (Nat × V)) (h : Sorted l) : noDup (keys l) = true := by
  rw [noDup_iff]
  unfold keys Sorted at *
  rw [List.nodup_iff_pairwise_ne, List.pairwise_map]
  exact h.imp (fun hab => by omega)

theorem all_of_forall {α : Type} (l : List α) (p : α → Bool) (h : ∀ x ∈ l, p x = true) : l.all p = true := by
  rw [List.all_eq_true]; exact h

end KV.Gx
