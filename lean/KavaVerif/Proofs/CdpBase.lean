/-
  C04/C05 helper lemmas, part 1: point updates, the bank steps, the two index lists, sums.
  Core Lean only.
-/
import KavaVerif.Model.Cdp
set_option linter.unusedVariables false
set_option linter.unusedSimpArgs false

namespace KV.Cdp
open KV

/-! ### point updates -/

theorem upd_same {α : Type} (f : Nat → α) (k : Nat) (v : α) : upd f k v k = v := by simp [upd]
theorem upd_other {α : Type} (f : Nat → α) (k : Nat) (v : α) (x : Nat) (h : x ≠ k) : upd f k v x = f x := by
  simp [upd, h]
theorem upd2_same (f : Nat → Nat → Int) (a b : Nat) (v : Int) : upd2 f a b v a b = v := by simp [upd2]
theorem upd2_other (f : Nat → Nat → Int) (a b : Nat) (v : Int) (x y : Nat) (h : ¬ (x = a ∧ y = b)) :
    upd2 f a b v x y = f x y := by simp [upd2, h]

/-! ### bank steps -/

theorem sendB_spec {s s' : St} {f t : Acct} {d : Denom} {a : Int} (h : sendB s f t d a = some s') :
    s' = { s with bal := s'.bal } ∧
    (∀ x y, s'.bal x y = s.bal x y - (if x = f ∧ y = d then a else 0) + (if x = t ∧ y = d then a else 0)) ∧
    (a ≠ 0 → a ≤ s.bal f d) := by
  unfold sendB at h
  split at h
  · rename_i h0; cases h; subst h0
    refine ⟨rfl, ?_, fun h => absurd rfl h⟩
    intro x y; split <;> split <;> omega
  · split at h
    · cases h
    · rename_i h0 h1
      cases h
      refine ⟨rfl, ?_, fun _ => by omega⟩
      intro x y
      simp only [upd2]
      grind

theorem mintB_spec (s : St) (a : Acct) (d : Denom) (amt : Int) :
    mintB s a d amt = { s with bal := (mintB s a d amt).bal, supply := (mintB s a d amt).supply } ∧
    (∀ x y, (mintB s a d amt).bal x y = s.bal x y + (if x = a ∧ y = d then amt else 0)) ∧
    (∀ y, (mintB s a d amt).supply y = s.supply y + (if y = d then amt else 0)) := by
  unfold mintB
  split
  · rename_i h0; subst h0
    refine ⟨rfl, ?_, ?_⟩
    · intro x y; split <;> omega
    · intro y; split <;> omega
  · refine ⟨rfl, ?_, ?_⟩
    · intro x y; simp only [upd2]
      by_cases hc : x = a ∧ y = d
      · obtain ⟨rfl, rfl⟩ := hc; simp only [and_self, ite_true]
      · simp only [hc, ite_false]; omega
    · intro y; simp only [upd]
      by_cases hc : y = d
      · subst hc; simp only [ite_true]
      · simp only [hc, ite_false]; omega

theorem burnB_spec {s s' : St} {a : Acct} {d : Denom} {amt : Int} (h : burnB s a d amt = some s') :
    s' = { s with bal := s'.bal, supply := s'.supply } ∧
    (∀ x y, s'.bal x y = s.bal x y - (if x = a ∧ y = d then amt else 0)) ∧
    (∀ y, s'.supply y = s.supply y - (if y = d then amt else 0)) := by
  unfold burnB at h
  split at h
  · rename_i h0; cases h; subst h0
    refine ⟨rfl, ?_, ?_⟩
    · intro x y; split <;> omega
    · intro y; split <;> omega
  · split at h
    · cases h
    · cases h
      refine ⟨rfl, ?_, ?_⟩
      · intro x y; simp only [upd2]
        by_cases hc : x = a ∧ y = d
        · obtain ⟨rfl, rfl⟩ := hc; simp only [and_self, ite_true]
        · simp only [hc, ite_false]; omega
      · intro y; simp only [upd]
        by_cases hc : y = d
        · subst hc; simp only [ite_true]
        · simp only [hc, ite_false]; omega

/-! ### the ratio index list -/

theorem eLt_iff (a b : Entry) : eLt a b = true ↔
    a.1 < b.1 ∨ (a.1 = b.1 ∧ (a.2.1 < b.2.1 ∨ (a.2.1 = b.2.1 ∧ a.2.2 < b.2.2))) := by
  simp [eLt]

theorem entry_ext (a b : Entry) : a = b ↔ a.1 = b.1 ∧ a.2.1 = b.2.1 ∧ a.2.2 = b.2.2 := by
  obtain ⟨a1, a2, a3⟩ := a; obtain ⟨b1, b2, b3⟩ := b
  simp

theorem eLt_trans (a b c : Entry) (h1 : eLt a b = true) (h2 : eLt b c = true) : eLt a c = true := by
  rw [eLt_iff] at *; omega

theorem eLt_tri (a b : Entry) (h : eLt a b = false) (hne : a ≠ b) : eLt b a = true := by
  have h' : ¬ (eLt a b = true) := by simp [h]
  rw [eLt_iff] at *
  have : ¬ (a.1 = b.1 ∧ a.2.1 = b.2.1 ∧ a.2.2 = b.2.2) := fun e => hne ((entry_ext a b).2 e)
  omega

theorem eLt_irrefl (a : Entry) : eLt a a = false := by
  cases h : eLt a a
  · rfl
  · rw [eLt_iff] at h; omega

def Sorted (l : List Entry) : Prop := List.Pairwise (fun a b => eLt a b = true) l

theorem mem_removeKey (e x : Entry) (l : List Entry) : x ∈ removeKey e l ↔ x ∈ l ∧ x ≠ e := by
  simp [removeKey, List.mem_filter]

theorem nodup_removeKey (e : Entry) (l : List Entry) (h : l.Nodup) : (removeKey e l).Nodup :=
  List.Nodup.sublist List.filter_sublist h

theorem sorted_removeKey (e : Entry) (l : List Entry) (h : Sorted l) : Sorted (removeKey e l) :=
  List.Pairwise.filter _ h

theorem mem_insSorted (e x : Entry) (l : List Entry) : x ∈ insSorted e l ↔ x = e ∨ x ∈ l := by
  induction l with
  | nil => simp [insSorted]
  | cons y ys ih =>
    simp only [insSorted]
    split
    · simp
    · simp only [List.mem_cons, ih]
      constructor
      · rintro (h | h | h)
        · exact Or.inr (Or.inl h)
        · exact Or.inl h
        · exact Or.inr (Or.inr h)
      · rintro (h | h | h)
        · exact Or.inr (Or.inl h)
        · exact Or.inl h
        · exact Or.inr (Or.inr h)

theorem mem_insertKey (e x : Entry) (l : List Entry) : x ∈ insertKey e l ↔ x = e ∨ x ∈ l := by
  unfold insertKey
  split
  · rename_i h
    constructor
    · exact Or.inr
    · rintro (rfl | h') <;> assumption
  · exact mem_insSorted e x l

theorem nodup_insSorted (e : Entry) (l : List Entry) (he : e ∉ l) (h : l.Nodup) : (insSorted e l).Nodup := by
  induction l with
  | nil => simp [insSorted]
  | cons y ys ih =>
    simp only [insSorted]
    have hy : e ≠ y := fun e' => he (by simp [e'])
    have hys : e ∉ ys := fun m => he (List.mem_cons_of_mem _ m)
    rw [List.nodup_cons] at h
    split
    · rw [List.nodup_cons]; exact ⟨he, List.nodup_cons.2 h⟩
    · rw [List.nodup_cons]
      refine ⟨?_, ih hys h.2⟩
      rw [mem_insSorted]
      rintro (h' | h')
      · exact hy h'.symm
      · exact h.1 h'

theorem nodup_insertKey (e : Entry) (l : List Entry) (h : l.Nodup) : (insertKey e l).Nodup := by
  unfold insertKey
  split
  · exact h
  · rename_i he; exact nodup_insSorted e l he h

theorem sorted_insSorted (e : Entry) (l : List Entry) (he : e ∉ l) (h : Sorted l) : Sorted (insSorted e l) := by
  unfold Sorted at *
  induction l with
  | nil => simp [insSorted]
  | cons y ys ih =>
    simp only [insSorted]
    have hy : e ≠ y := fun e' => he (by simp [e'])
    have hys : e ∉ ys := fun m => he (List.mem_cons_of_mem _ m)
    rw [List.pairwise_cons] at h
    split
    · rename_i hlt
      rw [List.pairwise_cons]
      refine ⟨?_, List.pairwise_cons.2 h⟩
      intro a ha
      rcases List.mem_cons.1 ha with rfl | ha
      · exact hlt
      · exact eLt_trans e y a hlt (h.1 a ha)
    · rename_i hlt
      rw [List.pairwise_cons]
      refine ⟨?_, ih hys h.2⟩
      intro a ha
      rcases (mem_insSorted e a ys).1 ha with rfl | ha
      · have : eLt a y = false := by cases h' : eLt a y <;> simp_all
        exact eLt_tri a y this hy
      · exact h.1 a ha

theorem sorted_insertKey (e : Entry) (l : List Entry) (h : Sorted l) : Sorted (insertKey e l) := by
  unfold insertKey
  split
  · exact h
  · rename_i he; exact sorted_insSorted e l he h

/-! ### the owner index list -/

theorem mem_insId (i x : Nat) (l : List Nat) : x ∈ insId i l ↔ x = i ∨ x ∈ l := by
  induction l with
  | nil => simp [insId]
  | cons y ys ih =>
    simp only [insId]
    split
    · simp
    · simp only [List.mem_cons, ih]
      constructor
      · rintro (h | h | h)
        · exact Or.inr (Or.inl h)
        · exact Or.inl h
        · exact Or.inr (Or.inr h)
      · rintro (h | h | h)
        · exact Or.inr (Or.inl h)
        · exact Or.inl h
        · exact Or.inr (Or.inr h)

theorem nodup_insId (i : Nat) (l : List Nat) (hi : i ∉ l) (h : l.Nodup) : (insId i l).Nodup := by
  induction l with
  | nil => simp [insId]
  | cons y ys ih =>
    simp only [insId]
    have hy : i ≠ y := fun e' => hi (by simp [e'])
    have hys : i ∉ ys := fun m => hi (List.mem_cons_of_mem _ m)
    rw [List.nodup_cons] at h
    split
    · rw [List.nodup_cons]; exact ⟨hi, List.nodup_cons.2 h⟩
    · rw [List.nodup_cons]
      refine ⟨?_, ih hys h.2⟩
      rw [mem_insId]
      rintro (h' | h')
      · exact hy h'.symm
      · exact h.1 h'

theorem mem_removeOwnerId (i x : Nat) (l : List Nat) : x ∈ removeOwnerId i l ↔ x ∈ l ∧ x ≠ i := by
  simp [removeOwnerId, List.mem_filter]

theorem nodup_removeOwnerId (i : Nat) (l : List Nat) (h : l.Nodup) : (removeOwnerId i l).Nodup :=
  List.Nodup.sublist List.filter_sublist h

/-! ### sums over a duplicate-free list -/

def sumAcc : List Nat → (Nat → Int) → Int
  | [], _ => 0
  | a :: r, f => f a + sumAcc r f

theorem sumAcc_congr (l : List Nat) (f g : Nat → Int) (h : ∀ a, a ∈ l → f a = g a) : sumAcc l f = sumAcc l g := by
  induction l with
  | nil => rfl
  | cons x xs ih =>
    simp only [sumAcc]
    rw [h x (by simp), ih (fun a ha => h a (List.mem_cons_of_mem _ ha))]

theorem sumAcc_upd_notin (l : List Nat) (f : Nat → Int) (a : Nat) (v : Int) (h : a ∉ l) :
    sumAcc l (upd f a v) = sumAcc l f := by
  apply sumAcc_congr
  intro x hx
  have : x ≠ a := fun e => h (e ▸ hx)
  exact upd_other f a v x this

theorem sumAcc_upd (l : List Nat) (f : Nat → Int) (a : Nat) (v : Int) (hn : l.Nodup) (ha : a ∈ l) :
    sumAcc l (upd f a v) = sumAcc l f - f a + v := by
  induction l with
  | nil => cases ha
  | cons x xs ih =>
    rw [List.nodup_cons] at hn
    simp only [sumAcc]
    by_cases hx : x = a
    · subst hx
      rw [upd_same, sumAcc_upd_notin xs f x v hn.1]; omega
    · have hax : a ∈ xs := by
        rcases List.mem_cons.1 ha with h | h
        · exact absurd h.symm hx
        · exact h
      rw [upd_other f a v x hx, ih hn.2 hax]; omega

theorem sumAcc_append (l1 l2 : List Nat) (f : Nat → Int) : sumAcc (l1 ++ l2) f = sumAcc l1 f + sumAcc l2 f := by
  induction l1 with
  | nil => simp [sumAcc]
  | cons x xs ih => simp only [List.cons_append, sumAcc, ih]; omega

theorem sumAcc_range_succ (n : Nat) (f : Nat → Int) :
    sumAcc (List.range (n + 1)) f = sumAcc (List.range n) f + f n := by
  rw [List.range_succ, sumAcc_append]; simp [sumAcc]

theorem sumAcc_zero (l : List Nat) (f : Nat → Int) (h : ∀ a, a ∈ l → f a = 0) : sumAcc l f = 0 := by
  induction l with
  | nil => rfl
  | cons x xs ih =>
    simp only [sumAcc]
    rw [h x (by simp), ih (fun a ha => h a (List.mem_cons_of_mem _ ha))]; rfl

/-- `GetDeposits` lists exactly the non-zero deposit records, so their sum is the sum over all accounts -/
theorem sumDeps_depositsOf (E : Env) (s : St) (id : Nat) :
    sumDeps (depositsOf E s id) = sumAcc E.accts (s.dep id) := by
  unfold depositsOf
  induction E.accts with
  | nil => rfl
  | cons a r ih =>
    simp only [List.filter_cons]
    by_cases h : s.dep id a = 0
    · simp only [h, ne_eq, not_true_eq_false, decide_false, Bool.false_eq_true, ite_false, sumAcc]
      rw [ih]; omega
    · simp only [h, ne_eq, not_false_eq_true, decide_true, ite_true, List.map_cons, sumDeps, sumAcc]
      rw [ih]

theorem mem_depositsOf (E : Env) (s : St) (id : Nat) (a : Acct) (v : Int) :
    (a, v) ∈ depositsOf E s id ↔ a ∈ E.accts ∧ s.dep id a ≠ 0 ∧ v = s.dep id a := by
  unfold depositsOf
  simp only [List.mem_map, List.mem_filter, decide_eq_true_eq, Prod.mk.injEq]
  constructor
  · rintro ⟨x, ⟨hx, hne⟩, rfl, rfl⟩; exact ⟨hx, hne, rfl⟩
  · rintro ⟨h1, h2, rfl⟩; exact ⟨a, ⟨h1, h2⟩, rfl, rfl⟩

/-! ### lookups -/

theorem findCdp_spec {s : St} {o : Acct} {ty id : Nat} {c : Cdp} (h : findCdp s o ty = some (id, c)) :
    s.cdp id = some c ∧ c.ty = ty ∧ id ∈ s.own o := by
  unfold findCdp at h
  obtain ⟨a, ha, hf⟩ := List.exists_of_findSome?_eq_some h
  split at hf
  · rename_i c' hc
    split at hf
    · rename_i hty
      cases hf
      exact ⟨hc, hty, ha⟩
    · cases hf
  · cases hf

theorem validateCollateral_spec {E : Env} {s : St} {ty : Nat} {cd : Denom} {cp : CollParam}
    (h : validateCollateral E s ty cd = some cp) :
    E.P.colls[ty]? = some cp ∧ cp.denom = cd ∧ s.status cp.spot = true ∧ s.status cp.liq = true := by
  unfold validateCollateral at h
  split at h
  · cases h
  · rename_i cp' hcp
    split at h
    · cases h
    split at h
    · cases h
    · split at h
      · cases h
      · split at h
        · cases h
        · cases h
          rename_i h0 h1 h2 h3
          refine ⟨hcp, ?_, ?_, ?_⟩
          · exact Decidable.of_not_not h1
          · cases hs : s.status cp.spot <;> simp_all
          · cases hs : s.status cp.liq <;> simp_all

/-- `ValidateCollateral` only accepts a type that is listed in the parameters -/
theorem validateCollateral_active {E : Env} {s : St} {ty : Nat} {cd : Denom} {cp : CollParam}
    (h : validateCollateral E s ty cd = some cp) : cp.active = true := by
  unfold validateCollateral at h
  split at h
  · cases h
  · split at h
    · cases h
    · rename_i h0
      have : cp.active = true := by
        split at h
        · cases h
        · split at h
          · cases h
          · split at h
            · cases h
            · cases h; cases ha : cp.active <;> simp_all
      exact this

theorem denomOf_eq {E : Env} {ty : Nat} {cp : CollParam} (h : E.P.colls[ty]? = some cp) : denomOf E ty = cp.denom := by
  simp [denomOf, h]

theorem cfOf_eq {E : Env} {ty : Nat} {cp : CollParam} (h : E.P.colls[ty]? = some cp) : cfOf E ty = cp.cf := by
  simp [cfOf, h]

end KV.Cdp
