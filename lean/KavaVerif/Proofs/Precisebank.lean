/-
  Helper lemmas for C03 (x/precisebank). Core Lean only.
-/
import KavaVerif.Model.Precisebank
set_option linter.unusedSimpArgs false
set_option linter.unusedVariables false

namespace KV.PB

def sumOver (l : List Addr) (f : Addr → Int) : Int := (l.map f).foldr (· + ·) 0

theorem sumOver_upd_notin (l : List Addr) (f : Addr → Int) (a : Addr) (v : Int) (h : a ∉ l) :
    sumOver l (upd f a v) = sumOver l f := by
  induction l with
  | nil => rfl
  | cons x xs ih =>
    simp only [List.mem_cons, not_or] at h
    have hx : x ≠ a := fun e => h.1 e.symm
    have ih' := ih h.2
    unfold sumOver at ih' ⊢
    simp only [List.map_cons, List.foldr_cons, ih']
    simp only [upd, hx, ite_false]

theorem sumOver_upd (l : List Addr) (f : Addr → Int) (a : Addr) (v : Int)
    (hn : l.Nodup) (h : a ∈ l) :
    sumOver l (upd f a v) = sumOver l f - f a + v := by
  induction l with
  | nil => cases h
  | cons x xs ih =>
    have hnd := List.nodup_cons.mp hn
    by_cases hx : x = a
    · subst hx
      have := sumOver_upd_notin xs f x v hnd.1
      simp only [sumOver, List.map_cons, List.foldr_cons] at *
      simp only [upd, ite_true]
      omega
    · have hm : a ∈ xs := by
        cases h with
        | head => exact absurd rfl hx
        | tail _ h' => exact h'
      have := ih hnd.2 hm
      simp only [sumOver, List.map_cons, List.foldr_cons] at *
      simp only [upd, hx, ite_false]
      omega

/-- The state invariant of the property: fractional balances and remainder in range and the
    reserve's ukava backing exactly the fractions plus the remainder. `accts` lists (without
    duplicates) every address that may hold a fractional balance. -/
def Inv (accts : List Addr) (R : Addr) (s : St) : Prop :=
  (∀ a, 0 ≤ s.frac a ∧ s.frac a < C) ∧ 0 ≤ s.rem ∧ s.rem < C ∧
  s.bal R * C = sumOver accts s.frac + s.rem

theorem C_pos : (0:Int) < C := by decide
theorem C_val : C = 1000000000000 := by decide

theorem bankSend_frac (s s' : St) (a b : Addr) (n : Int) (h : bankSend s a b n = some s') :
    s'.frac = s.frac ∧ s'.rem = s.rem ∧ s'.supply = s.supply ∧ s'.locked = s.locked := by
  unfold bankSend at h
  split at h
  · cases h
  · cases h; exact ⟨rfl, rfl, rfl, rfl⟩

theorem bankSend_bal (s s' : St) (a b : Addr) (n : Int) (h : bankSend s a b n = some s') :
    s'.bal = upd (upd s.bal a (s.bal a - n)) b (upd s.bal a (s.bal a - n) b + n) := by
  unfold bankSend at h
  split at h
  · cases h
  · cases h; rfl


theorem bankSend_balAt (s s' : St) (a b r : Addr) (n : Int) (h : bankSend s a b n = some s') :
    s'.bal r = s.bal r - (if r = a then n else 0) + (if r = b then n else 0) := by
  rw [bankSend_bal s s' a b n h]
  unfold upd
  by_cases h1 : r = a <;> by_cases h2 : r = b
  · subst h1; subst h2; simp
  · subst h1; simp [h2]
  · subst h2; simp [h1]
  · simp [h1, h2]

theorem bankSendIf (c : Prop) [Decidable c] (s s' : St) (a b r : Addr) (n : Int)
    (h : sendIf c s a b n = some s') :
    s'.frac = s.frac ∧ s'.rem = s.rem ∧ s'.supply = s.supply ∧
    s'.bal r = s.bal r - (if c ∧ r = a then n else 0) + (if c ∧ r = b then n else 0) := by
  unfold sendIf at h
  by_cases hc : c
  · simp only [hc, ite_true, true_and] at h ⊢
    have := bankSend_frac s s' a b n h
    exact ⟨this.1, this.2.1, this.2.2.1, bankSend_balAt s s' a b r n h⟩
  · simp only [hc, ite_false, false_and] at h ⊢
    cases h; simp

theorem sendExt_inv (accts : List Addr) (hn : accts.Nodup) (R : Addr) (s s' : St) (frm to : Addr) (x : Int)
    (hfR : frm ≠ R) (htR : to ≠ R) (hf : frm ∈ accts) (ht : to ∈ accts)
    (h : Inv accts R s) (hok : sendExt R s frm to x = .ok s') : Inv accts R s' := by
  obtain ⟨hfr, hr0, hr1, hres⟩ := h
  have hsf := hfr frm
  have hrf := hfr to
  have hm0 : 0 ≤ x % C := Int.emod_nonneg x (by decide)
  have hm1 : x % C < C := Int.emod_lt_of_pos x (by decide)
  have hRf : R ≠ frm := fun e => hfR e.symm
  have hRt : R ≠ to := fun e => htR e.symm
  unfold sendExt at hok
  by_cases hne : frm = to
  · simp only [hne, ite_true] at hok
    split at hok
    · cases hok
    · cases hok; exact ⟨hfr, hr0, hr1, hres⟩
  · simp only [hne, ite_false] at hok
    split at hok
    · cases hok
    · rename_i s1 h1
      have e1 := bankSendIf _ s s1 frm to R _ h1
      split at hok
      · cases hok
      · rename_i s2 h2
        have e2 := bankSendIf _ s1 s2 frm R R 1 h2
        split at hok
        · cases hok
        · rename_i s3 h3
          have e3 := bankSendIf _ s2 s3 R to R 1 h3
          cases hok
          obtain ⟨f1, r1, -, b1⟩ := e1
          obtain ⟨f2, r2, -, b2⟩ := e2
          obtain ⟨f3, r3, -, b3⟩ := e3
          simp only [hRf, hRt, and_false, ite_false, and_true, ite_true] at b1 b2 b3
          refine ⟨?_, ?_, ?_, ?_⟩
          · intro a
            simp only [f3, f2, f1, upd, subFrac, addFrac]
            have := hfr a
            split <;> (try split) <;> (try split) <;> omega
          · simp only [r3, r2, r1]; exact hr0
          · simp only [r3, r2, r1]; exact hr1
          · simp only [f3, f2, f1, r3, r2, r1]
            rw [sumOver_upd accts _ to _ hn ht, sumOver_upd accts _ frm _ hn hf]
            simp only [upd, hne, ite_false, b3, b2, b1, subFrac, addFrac]
            have hne' : ¬ to = frm := fun e => hne e.symm
            simp only [hne', ite_false]
            by_cases hb : s.frac frm - x % C < 0 <;> by_cases hc : s.frac to + x % C ≥ C <;>
              simp only [hb, hc, ite_true, ite_false, and_self, and_true, and_false, true_and, false_and,
                not_true_eq_false, not_false_eq_true] <;> (simp only [C_val] at *; omega)


/-- exactness of `sendExtendedCoins` for distinct, non-reserve parties -/
theorem sendExt_exact (R : Addr) (s s' : St) (frm to : Addr) (x : Int)
    (hne : frm ≠ to) (hfR : frm ≠ R) (htR : to ≠ R)
    (hfr : ∀ a, 0 ≤ s.frac a ∧ s.frac a < C) (hx : 0 ≤ x)
    (hok : sendExt R s frm to x = .ok s') :
    ext s' frm = ext s frm - x ∧ ext s' to = ext s to + x ∧
    (∀ a, a ≠ frm → a ≠ to → a ≠ R → s'.bal a = s.bal a ∧ s'.frac a = s.frac a) ∧
    (∀ a, a ≠ frm → a ≠ to → s'.frac a = s.frac a) ∧
    s'.rem = s.rem ∧ s'.supply = s.supply := by
  have hRf : R ≠ frm := fun e => hfR e.symm
  have hRt : R ≠ to := fun e => htR e.symm
  have hne' : ¬ to = frm := fun e => hne e.symm
  have hd0 : 0 ≤ x / C := Int.ediv_nonneg hx (by decide)
  unfold sendExt at hok
  simp only [hne, ite_false] at hok
  split at hok
  · cases hok
  · rename_i s1 h1
    split at hok
    · cases hok
    · rename_i s2 h2
      split at hok
      · cases hok
      · rename_i s3 h3
        cases hok
        have e1f := bankSendIf _ s s1 frm to frm _ h1
        have e2f := bankSendIf _ s1 s2 frm R frm 1 h2
        have e3f := bankSendIf _ s2 s3 R to frm 1 h3
        have e1t := bankSendIf _ s s1 frm to to _ h1
        have e2t := bankSendIf _ s1 s2 frm R to 1 h2
        have e3t := bankSendIf _ s2 s3 R to to 1 h3
        obtain ⟨f1, r1, u1, b1⟩ := e1f
        obtain ⟨f2, r2, u2, b2⟩ := e2f
        obtain ⟨f3, r3, u3, b3⟩ := e3f
        obtain ⟨-, -, -, c1⟩ := e1t
        obtain ⟨-, -, -, c2⟩ := e2t
        obtain ⟨-, -, -, c3⟩ := e3t
        simp only [hne, hne', hfR, htR, hRf, hRt, and_false, and_true, ite_false, ite_true] at b1 b2 b3 c1 c2 c3
        have hsf := hfr frm
        have hrf := hfr to
        have hm0 : 0 ≤ x % C := Int.emod_nonneg x (by decide)
        have hm1 : x % C < C := Int.emod_lt_of_pos x (by decide)
        refine ⟨?_, ?_, ?_, ?_, ?_, ?_⟩
        · simp only [ext, f3, f2, f1, upd, hne, hne', ite_true, ite_false, b3, b2, b1, subFrac]
          by_cases hb : s.frac frm - x % C < 0 <;> by_cases hc : s.frac to + x % C ≥ C <;>
            simp only [hb, hc, ite_true, ite_false, and_self, and_true, and_false, true_and, false_and,
              not_true_eq_false, not_false_eq_true] <;>
            (split <;> simp only [C_val] at * <;> omega)
        · simp only [ext, f3, f2, f1, upd, hne, hne', ite_true, ite_false, c3, c2, c1, addFrac]
          by_cases hb : s.frac frm - x % C < 0 <;> by_cases hc : s.frac to + x % C ≥ C <;>
            simp only [hb, hc, ite_true, ite_false, and_self, and_true, and_false, true_and, false_and,
              not_true_eq_false, not_false_eq_true] <;>
            (split <;> simp only [C_val] at * <;> omega)
        · intro a h1' h2' h3'
          have a1 := bankSendIf _ s s1 frm to a _ h1
          have a2 := bankSendIf _ s1 s2 frm R a 1 h2
          have a3 := bankSendIf _ s2 s3 R to a 1 h3
          simp only [h1', h2', h3', and_false, ite_false] at a1 a2 a3
          refine ⟨by rw [a3.2.2.2, a2.2.2.2, a1.2.2.2]; omega, ?_⟩
          simp only [f3, f2, f1, upd, h1', h2', ite_false]
        · intro a h1' h2'
          simp only [f3, f2, f1, upd, h1', h2', ite_false]
        · simp only [r3, r2, r1]
        · simp only [u3, u2, u1]


@[simp] theorem mintIf_frac (c : Prop) [Decidable c] (s : St) (a : Addr) (n : Int) :
    (mintIf c s a n).frac = s.frac := by unfold mintIf bankMint; split <;> rfl
@[simp] theorem mintIf_rem (c : Prop) [Decidable c] (s : St) (a : Addr) (n : Int) :
    (mintIf c s a n).rem = s.rem := by unfold mintIf bankMint; split <;> rfl
@[simp] theorem mintIf_locked (c : Prop) [Decidable c] (s : St) (a : Addr) (n : Int) :
    (mintIf c s a n).locked = s.locked := by unfold mintIf bankMint; split <;> rfl
theorem mintIf_supply (c : Prop) [Decidable c] (s : St) (a : Addr) (n : Int) :
    (mintIf c s a n).supply = s.supply + (if c then n else 0) := by
  unfold mintIf bankMint; split <;> simp
theorem mintIf_bal (c : Prop) [Decidable c] (s : St) (a r : Addr) (n : Int) :
    (mintIf c s a n).bal r = s.bal r + (if c ∧ r = a then n else 0) := by
  unfold mintIf bankMint upd
  by_cases hc : c <;> by_cases hr : r = a <;> simp [hc, hr]

theorem burnIf_spec (c : Prop) [Decidable c] (s s' : St) (a r : Addr) (n : Int)
    (h : burnIf c s a n = some s') :
    s'.frac = s.frac ∧ s'.rem = s.rem ∧ s'.supply = s.supply - (if c then n else 0) ∧
    s'.bal r = s.bal r - (if c ∧ r = a then n else 0) := by
  unfold burnIf bankBurn at h
  by_cases hc : c
  · simp only [hc, ite_true, true_and] at h ⊢
    split at h
    · cases h
    · cases h
      refine ⟨rfl, rfl, rfl, ?_⟩
      unfold upd; by_cases hr : r = a <;> simp [hr]
  · simp only [hc, ite_false, false_and] at h ⊢
    cases h; simp

/-- effect of a successful `mintExtendedCoin` on the precisebank state and the two bank balances -/
theorem mintExt_spec (R : Addr) (s s' : St) (m : Addr) (x : Int) (hmR : m ≠ R) (hx : 0 ≤ x)
    (hok : mintExt R s m x = .ok s') :
    s'.frac = upd s.frac m (if s.frac m + x % C ≥ C then s.frac m + x % C - C else s.frac m + x % C) ∧
    s'.rem = (if s.rem - x % C < 0 then s.rem - x % C + C else s.rem - x % C) ∧
    s'.bal R = s.bal R - (if s.frac m + x % C ≥ C ∧ ¬ s.rem - x % C < 0 then 1 else 0)
                 + (if s.rem - x % C < 0 ∧ ¬ s.frac m + x % C ≥ C then 1 else 0) ∧
    s'.bal m = s.bal m + (if s.frac m + x % C ≥ C ∧ ¬ s.rem - x % C < 0 then 1 else 0)
                 + (if s.frac m + x % C ≥ C ∧ s.rem - x % C < 0 then x / C + 1 else x / C) ∧
    (∀ a, a ≠ m → a ≠ R → s'.bal a = s.bal a) ∧
    s'.supply = s.supply + (if s.frac m + x % C ≥ C ∧ s.rem - x % C < 0 then x / C + 1 else x / C)
                 + (if s.rem - x % C < 0 ∧ ¬ s.frac m + x % C ≥ C then 1 else 0) := by
  have hRm : R ≠ m := fun e => hmR e.symm
  have hd0 : 0 ≤ x / C := Int.ediv_nonneg hx (by decide)
  unfold mintExt at hok
  dsimp only at hok
  split at hok
  · cases hok
  · rename_i s1 h1
    cases hok
    have eR := bankSendIf _ s s1 R m R 1 h1
    have em := bankSendIf _ s s1 R m m 1 h1
    obtain ⟨f1, r1, u1, bR⟩ := eR
    obtain ⟨-, -, -, bm⟩ := em
    simp only [hmR, hRm, and_false, and_true, ite_false] at bR bm
    refine ⟨?_, ?_, ?_, ?_, ?_, ?_⟩
    · simp only [mintIf_frac, f1]
    · simp only [mintIf_rem, r1]
    · simp only [mintIf_bal, hRm, hmR, and_false, and_true, ite_false, bR]
      by_cases hc : s.frac m + x % C ≥ C <;> by_cases hn : s.rem - x % C < 0 <;>
        simp only [hc, hn, ite_true, ite_false, and_self, and_true, and_false, true_and, false_and,
              not_true_eq_false, not_false_eq_true] <;> split <;> omega
    · simp only [mintIf_bal, hRm, hmR, and_false, and_true, ite_false, bm]
      by_cases hc : s.frac m + x % C ≥ C <;> by_cases hn : s.rem - x % C < 0 <;>
        simp only [hc, hn, ite_true, ite_false, and_self, and_true, and_false, true_and, false_and,
              not_true_eq_false, not_false_eq_true] <;> split <;> omega
    · intro a ha1 ha2
      have ea := bankSendIf _ s s1 R m a 1 h1
      obtain ⟨-, -, -, ba⟩ := ea
      simp only [ha1, ha2, and_false, ite_false] at ba
      simp only [mintIf_bal, ha1, ha2, and_false, ite_false, ba]; omega
    · simp only [mintIf_supply, u1]
      by_cases hc : s.frac m + x % C ≥ C <;> by_cases hn : s.rem - x % C < 0 <;>
        simp only [hc, hn, ite_true, ite_false, and_self, and_true, and_false, true_and, false_and,
              not_true_eq_false, not_false_eq_true] <;> split <;> (try split) <;> omega


/-- effect of a successful `burnExtendedCoin` -/
theorem burnExt_spec (R : Addr) (s s' : St) (m : Addr) (x : Int) (hmR : m ≠ R) (hx : 0 ≤ x)
    (hok : burnExt R s m x = .ok s') :
    s'.frac = upd s.frac m (if s.frac m - x % C < 0 then s.frac m - x % C + C else s.frac m - x % C) ∧
    s'.rem = (if s.rem + x % C ≥ C then s.rem + x % C - C else s.rem + x % C) ∧
    s'.bal R = s.bal R + (if s.frac m - x % C < 0 ∧ ¬ s.rem + x % C ≥ C then 1 else 0)
                 - (if ¬ s.frac m - x % C < 0 ∧ s.rem + x % C ≥ C then 1 else 0) ∧
    s'.bal m = s.bal m - (if s.frac m - x % C < 0 ∧ ¬ s.rem + x % C ≥ C then 1 else 0)
                 - (if s.frac m - x % C < 0 ∧ s.rem + x % C ≥ C then x / C + 1 else x / C) ∧
    (∀ a, a ≠ m → a ≠ R → s'.bal a = s.bal a) ∧
    s'.supply = s.supply - (if s.frac m - x % C < 0 ∧ s.rem + x % C ≥ C then x / C + 1 else x / C)
                 - (if ¬ s.frac m - x % C < 0 ∧ s.rem + x % C ≥ C then 1 else 0) := by
  have hRm : R ≠ m := fun e => hmR e.symm
  have hd0 : 0 ≤ x / C := Int.ediv_nonneg hx (by decide)
  unfold burnExt at hok
  dsimp only at hok
  split at hok
  · cases hok
  · rename_i s1 h1
    split at hok
    · cases hok
    · rename_i s2 h2
      split at hok
      · cases hok
      · rename_i s3 h3
        cases hok
        obtain ⟨f1, r1, u1, bR1⟩ := bankSendIf _ s s1 m R R 1 h1
        obtain ⟨-, -, -, bm1⟩ := bankSendIf _ s s1 m R m 1 h1
        obtain ⟨f2, r2, u2, bR2⟩ := burnIf_spec _ s1 s2 R R 1 h2
        obtain ⟨-, -, -, bm2⟩ := burnIf_spec _ s1 s2 R m 1 h2
        obtain ⟨f3, r3, u3, bR3⟩ := burnIf_spec _ s2 s3 m R _ h3
        obtain ⟨-, -, -, bm3⟩ := burnIf_spec _ s2 s3 m m _ h3
        simp only [hmR, hRm, and_false, and_true, ite_false] at bR1 bm1 bR2 bm2 bR3 bm3
        refine ⟨?_, ?_, ?_, ?_, ?_, ?_⟩
        · simp only [f3, f2, f1]
        · rfl
        · simp only [bR3, bR2, bR1]; omega
        · simp only [bm3, bm2, bm1]
          by_cases hb : s.frac m - x % C < 0 <;> by_cases ho : s.rem + x % C ≥ C <;>
            simp only [hb, ho, ite_true, ite_false, and_self, and_true, and_false, true_and, false_and,
              not_true_eq_false, not_false_eq_true] <;> split <;> omega
        · intro a ha1 ha2
          obtain ⟨-, -, -, a1⟩ := bankSendIf _ s s1 m R a 1 h1
          obtain ⟨-, -, -, a2⟩ := burnIf_spec _ s1 s2 R a 1 h2
          obtain ⟨-, -, -, a3⟩ := burnIf_spec _ s2 s3 m a _ h3
          simp only [ha1, ha2, and_false, ite_false] at a1 a2 a3
          rw [a3, a2, a1]; omega
        · simp only [u3, u2, u1]
          by_cases hb : s.frac m - x % C < 0 <;> by_cases ho : s.rem + x % C ≥ C <;>
            simp only [hb, ho, ite_true, ite_false, and_self, and_true, and_false, true_and, false_and,
              not_true_eq_false, not_false_eq_true] <;> split <;> omega

/-- `mintExtendedCoin` preserves the invariant -/
theorem mintExt_inv (accts : List Addr) (hn : accts.Nodup) (R : Addr) (s s' : St) (m : Addr) (x : Int)
    (hmR : m ≠ R) (hm : m ∈ accts) (hx : 0 ≤ x)
    (h : Inv accts R s) (hok : mintExt R s m x = .ok s') : Inv accts R s' := by
  obtain ⟨hfr, hr0, hr1, hres⟩ := h
  obtain ⟨hf, hr, hbR, -, -, -⟩ := mintExt_spec R s s' m x hmR hx hok
  have hsf := hfr m
  have hm0 : 0 ≤ x % C := Int.emod_nonneg x (by decide)
  have hm1 : x % C < C := Int.emod_lt_of_pos x (by decide)
  refine ⟨?_, ?_, ?_, ?_⟩
  · intro a
    rw [hf]; unfold upd
    have := hfr a
    split <;> (try split) <;> omega
  · rw [hr]; split <;> omega
  · rw [hr]; split <;> omega
  · rw [hf, hr, hbR, sumOver_upd accts _ m _ hn hm]
    by_cases hc : s.frac m + x % C ≥ C <;> by_cases hn' : s.rem - x % C < 0 <;>
      simp only [hc, hn', ite_true, ite_false, and_self, and_true, and_false, true_and, false_and,
        not_true_eq_false, not_false_eq_true] <;> simp only [C_val] at * <;> omega

/-- `burnExtendedCoin` preserves the invariant -/
theorem burnExt_inv (accts : List Addr) (hn : accts.Nodup) (R : Addr) (s s' : St) (m : Addr) (x : Int)
    (hmR : m ≠ R) (hm : m ∈ accts) (hx : 0 ≤ x)
    (h : Inv accts R s) (hok : burnExt R s m x = .ok s') : Inv accts R s' := by
  obtain ⟨hfr, hr0, hr1, hres⟩ := h
  obtain ⟨hf, hr, hbR, -, -, -⟩ := burnExt_spec R s s' m x hmR hx hok
  have hsf := hfr m
  have hm0 : 0 ≤ x % C := Int.emod_nonneg x (by decide)
  have hm1 : x % C < C := Int.emod_lt_of_pos x (by decide)
  refine ⟨?_, ?_, ?_, ?_⟩
  · intro a
    rw [hf]; unfold upd
    have := hfr a
    split <;> (try split) <;> omega
  · rw [hr]; split <;> omega
  · rw [hr]; split <;> omega
  · rw [hf, hr, hbR, sumOver_upd accts _ m _ hn hm]
    by_cases hc : s.frac m - x % C < 0 <;> by_cases hn' : s.rem + x % C ≥ C <;>
      simp only [hc, hn', ite_true, ite_false, and_self, and_true, and_false, true_and, false_and,
        not_true_eq_false, not_false_eq_true] <;> simp only [C_val] at * <;> omega


theorem sumOver_nonneg (l : List Addr) (f : Addr → Int) (h : ∀ a, 0 ≤ f a) : 0 ≤ sumOver l f := by
  induction l with
  | nil => simp [sumOver]
  | cons x xs ih =>
    have := h x
    simp only [sumOver, List.map_cons, List.foldr_cons] at *
    omega

theorem sumOver_ge_one (l : List Addr) (f : Addr → Int) (h : ∀ a, 0 ≤ f a) (a : Addr) (ha : a ∈ l) :
    f a ≤ sumOver l f := by
  induction l with
  | nil => cases ha
  | cons x xs ih =>
    have hx := h x
    have hs := sumOver_nonneg xs f h
    simp only [sumOver, List.map_cons, List.foldr_cons] at *
    cases ha with
    | head => omega
    | tail _ h' => have := ih h'; omega

theorem sumOver_ge_two (l : List Addr) (f : Addr → Int) (h : ∀ a, 0 ≤ f a) (hn : l.Nodup)
    (a b : Addr) (hab : a ≠ b) (ha : a ∈ l) (hb : b ∈ l) : f a + f b ≤ sumOver l f := by
  induction l with
  | nil => cases ha
  | cons x xs ih =>
    have hnd := List.nodup_cons.mp hn
    have hx := h x
    have hs := sumOver_nonneg xs f h
    cases ha with
    | head =>
      cases hb with
      | head => exact absurd rfl hab
      | tail _ hb' =>
        have := sumOver_ge_one xs f h b hb'
        simp only [sumOver, List.map_cons, List.foldr_cons] at *
        omega
    | tail _ ha' =>
      cases hb with
      | head =>
        have := sumOver_ge_one xs f h a ha'
        simp only [sumOver, List.map_cons, List.foldr_cons] at *
        omega
      | tail _ hb' =>
        have := ih hnd.2 ha' hb'
        simp only [sumOver, List.map_cons, List.foldr_cons] at *
        omega

/-- passthrough integer transfer between non-reserve parties keeps the invariant -/
theorem sendIf_inv (accts : List Addr) (R : Addr) (c : Prop) [Decidable c] (s s' : St) (a b : Addr) (n : Int)
    (haR : a ≠ R) (hbR : b ≠ R) (h : Inv accts R s) (hok : sendIf c s a b n = some s') : Inv accts R s' := by
  obtain ⟨f1, r1, -, bR⟩ := bankSendIf c s s' a b R n hok
  have hRa : R ≠ a := fun e => haR e.symm
  have hRb : R ≠ b := fun e => hbR e.symm
  simp only [hRa, hRb, and_false, ite_false] at bR
  obtain ⟨hfr, hr0, hr1, hres⟩ := h
  refine ⟨by rw [f1]; exact hfr, by rw [r1]; exact hr0, by rw [r1]; exact hr1, ?_⟩
  rw [f1, r1, bR]; simp only [Int.sub_zero, Int.add_zero]; exact hres

theorem sendIf_locked (c : Prop) [Decidable c] (s s' : St) (a b : Addr) (n : Int)
    (h : sendIf c s a b n = some s') : s'.locked = s.locked := by
  unfold sendIf at h
  by_cases hc : c
  · simp only [hc, ite_true] at h; exact (bankSend_frac s s' a b n h).2.2.2
  · simp only [hc, ite_false] at h; cases h; rfl

/-- C02 lemma: the reserve→recipient carry in `sendExtendedCoins` can never fail, so the
    `panic` in send.go is unreachable from states satisfying the invariant. -/
theorem sendExt_no_panic (accts : List Addr) (hn : accts.Nodup) (R : Addr) (s : St) (frm to : Addr) (x : Int)
    (hfR : frm ≠ R) (htR : to ≠ R) (hf : frm ∈ accts) (ht : to ∈ accts)
    (hRlock : s.locked R = 0)
    (h : Inv accts R s) : sendExt R s frm to x ≠ .panic := by
  obtain ⟨hfr, hr0, hr1, hres⟩ := h
  have hsf := hfr frm
  have hrf := hfr to
  have hm0 : 0 ≤ x % C := Int.emod_nonneg x (by decide)
  have hm1 : x % C < C := Int.emod_lt_of_pos x (by decide)
  have hRf : R ≠ frm := fun e => hfR e.symm
  have hRt : R ≠ to := fun e => htR e.symm
  unfold sendExt
  by_cases hne : frm = to
  · simp only [hne, ite_true]; split <;> simp
  · simp only [hne, ite_false]
    have hsum := sumOver_ge_two accts s.frac (fun a => (hfr a).1) hn frm to hne hf ht
    split
    · simp
    · rename_i s1 h1
      split
      · simp
      · rename_i s2 h2
        split
        · rename_i h3
          exfalso
          obtain ⟨-, -, -, b1⟩ := bankSendIf _ s s1 frm to R _ h1
          obtain ⟨-, -, -, b2⟩ := bankSendIf _ s1 s2 frm R R 1 h2
          have l1 := sendIf_locked _ s s1 frm to _ h1
          have l2 := sendIf_locked _ s1 s2 frm R 1 h2
          simp only [hRf, hRt, and_false, ite_false, and_true] at b1 b2
          unfold sendIf bankSend at h3
          by_cases hcond : ¬s.frac frm - x % C < 0 ∧ s.frac to + x % C ≥ C
          · have hnb : ¬ (s.frac frm - x % C < 0 ∧ ¬ s.frac to + x % C ≥ C) := by omega
            simp only [hnb, ite_false] at b2
            simp only [hcond, ite_true, and_self, not_false_eq_true, l2, l1, hRlock, b2, b1] at h3
            split at h3
            · rename_i hh
              simp only [C_val] at *
              omega
            · cases h3
          · simp only [hcond, ite_false] at h3; cases h3
        · simp


theorem sendIf_some_of (c : Prop) [Decidable c] (s : St) (a b : Addr) (n : Int)
    (h : ¬ c ∨ (s.locked a ≤ s.bal a ∧ n ≤ s.bal a - s.locked a)) : ∃ s', sendIf c s a b n = some s' := by
  unfold sendIf bankSend
  by_cases hc : c
  · simp only [hc, ite_true]
    cases h with
    | inl h => exact absurd hc h
    | inr h =>
      have : ¬ (s.bal a < s.locked a ∨ s.bal a - s.locked a < n) := by omega
      simp only [this, ite_false]; exact ⟨_, rfl⟩
  · simp only [hc, ite_false]; exact ⟨_, rfl⟩

theorem sendIf_some_imp (c : Prop) [Decidable c] (s s' : St) (a b : Addr) (n : Int)
    (h : sendIf c s a b n = some s') : ¬ c ∨ (s.locked a ≤ s.bal a ∧ n ≤ s.bal a - s.locked a) := by
  unfold sendIf bankSend at h
  by_cases hc : c
  · simp only [hc, ite_true] at h
    split at h
    · cases h
    · right; omega
  · left; exact hc

/-- "An operation fails exactly when bank rules require it": between distinct non-reserve parties,
    from a state satisfying the invariant, `sendExtendedCoins` succeeds iff the sender's spendable
    extended balance covers the amount. -/
theorem sendExt_ok_iff (accts : List Addr) (hn : accts.Nodup) (R : Addr) (s : St) (frm to : Addr) (x : Int)
    (hne : frm ≠ to) (hfR : frm ≠ R) (htR : to ≠ R) (hf : frm ∈ accts) (ht : to ∈ accts) (hx : 0 ≤ x)
    (hlock : s.locked frm ≤ s.bal frm) (hRlock : s.locked R = 0)
    (h : Inv accts R s) :
    (∃ s', sendExt R s frm to x = .ok s') ↔ x ≤ extSpendable R s frm := by
  obtain ⟨hfr, hr0, hr1, hres⟩ := h
  have hsf := hfr frm
  have hrf := hfr to
  have hm0 : 0 ≤ x % C := Int.emod_nonneg x (by decide)
  have hm1 : x % C < C := Int.emod_lt_of_pos x (by decide)
  have hd0 : 0 ≤ x / C := Int.ediv_nonneg hx (by decide)
  have hRf : R ≠ frm := fun e => hfR e.symm
  have hRt : R ≠ to := fun e => htR e.symm
  have hne' : ¬ to = frm := fun e => hne e.symm
  have hsum := sumOver_ge_two accts s.frac (fun a => (hfr a).1) hn frm to hne hf ht
  have hsp : extSpendable R s frm = (s.bal frm - s.locked frm) * C + s.frac frm := by
    unfold extSpendable
    have : ¬ s.bal frm < s.locked frm := by omega
    simp only [hfR, ite_false, this]
  rw [hsp]
  unfold sendExt
  simp only [hne, ite_false]
  constructor
  · -- success ⇒ sufficient funds
    rintro ⟨s', hok⟩
    split at hok
    · cases hok
    · rename_i s1 h1
      split at hok
      · cases hok
      · rename_i s2 h2
        have c1 := sendIf_some_imp _ s s1 frm to _ h1
        have c2 := sendIf_some_imp _ s1 s2 frm R 1 h2
        obtain ⟨-, -, -, b1⟩ := bankSendIf _ s s1 frm to frm _ h1
        have l1 := sendIf_locked _ s s1 frm to _ h1
        simp only [hne, hne', and_false, and_true, ite_false] at b1
        rw [l1, b1] at c2
        by_cases hb : s.frac frm - x % C < 0 <;> by_cases hc : s.frac to + x % C ≥ C <;>
          simp only [hb, hc, ite_true, ite_false, and_self, and_true, and_false, true_and, false_and,
            not_true_eq_false, not_false_eq_true, gt_iff_lt, false_or, true_or, or_false, or_true] at c1 c2 <;>
          simp only [C_val] at * <;> omega
  · -- sufficient funds ⇒ success
    intro hsuff
    have e1 : ∃ s1, sendIf ((if s.frac frm - x % C < 0 ∧ s.frac to + x % C ≥ C then x / C + 1 else x / C) > 0)
        s frm to (if s.frac frm - x % C < 0 ∧ s.frac to + x % C ≥ C then x / C + 1 else x / C) = some s1 := by
      apply sendIf_some_of
      by_cases hb : s.frac frm - x % C < 0 <;> by_cases hc : s.frac to + x % C ≥ C <;>
        simp only [hb, hc, ite_true, ite_false, and_self, and_true, and_false, true_and, false_and,
          not_true_eq_false, not_false_eq_true, gt_iff_lt, false_or, true_or, or_false, or_true] <;>
        simp only [C_val] at * <;> omega
    obtain ⟨s1, h1⟩ := e1
    obtain ⟨-, -, -, b1⟩ := bankSendIf _ s s1 frm to frm _ h1
    obtain ⟨-, -, -, bR1⟩ := bankSendIf _ s s1 frm to R _ h1
    have l1 := sendIf_locked _ s s1 frm to _ h1
    simp only [hne, hne', hRf, hRt, and_false, and_true, ite_false] at b1 bR1
    have e2 : ∃ s2, sendIf (s.frac frm - x % C < 0 ∧ ¬ s.frac to + x % C ≥ C) s1 frm R 1 = some s2 := by
      apply sendIf_some_of
      rw [l1, b1]
      by_cases hb : s.frac frm - x % C < 0 <;> by_cases hc : s.frac to + x % C ≥ C <;>
        simp only [hb, hc, ite_true, ite_false, and_self, and_true, and_false, true_and, false_and,
          not_true_eq_false, not_false_eq_true, gt_iff_lt, false_or, true_or, or_false, or_true] <;>
        simp only [C_val] at * <;> omega
    obtain ⟨s2, h2⟩ := e2
    obtain ⟨-, -, -, bR2⟩ := bankSendIf _ s1 s2 frm R R 1 h2
    have l2 := sendIf_locked _ s1 s2 frm R 1 h2
    simp only [hRf, and_false, and_true, ite_false] at bR2
    have e3 : ∃ s3, sendIf (¬ s.frac frm - x % C < 0 ∧ s.frac to + x % C ≥ C) s2 R to 1 = some s3 := by
      apply sendIf_some_of
      rw [l2, l1, hRlock, bR2, bR1]
      by_cases hb : s.frac frm - x % C < 0 <;> by_cases hc : s.frac to + x % C ≥ C <;>
        simp only [hb, hc, ite_true, ite_false, and_self, and_true, and_false, true_and, false_and,
          not_true_eq_false, not_false_eq_true, gt_iff_lt, false_or, true_or, or_false, or_true] <;>
        simp only [C_val] at * <;> omega
    obtain ⟨s3, h3⟩ := e3
    simp only [h1, h2, h3]
    exact ⟨_, rfl⟩

end KV.PB
