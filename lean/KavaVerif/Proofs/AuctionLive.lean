/-
  Helper lemmas for C06, part 6: an expired auction can always be closed on a state satisfying the
  invariant, hence `BeginBlocker` (which panics on any close error) completes. Core Lean only.
-/
import KavaVerif.Proofs.AuctionSteps
set_option linter.unusedSimpArgs false
set_option linter.unusedVariables false

namespace KV.Auc

theorem ind_nonneg (c : Prop) [Decidable c] (n : Int) (h : 0 ≤ n) : 0 ≤ ind c n := by
  unfold ind; split <;> omega

theorem modCoins_nonneg (env : Env) (a : Auction) (hA : AWF env a) (d : Denom) : 0 ≤ modCoins a d := by
  obtain ⟨hl, _, hd, _, _, _⟩ := hA
  have h1 := ind_nonneg (a.lotD = d) a.lot hl
  have h2 := ind_nonneg (a.debtD = d) a.debt hd
  cases hk : a.kind with
  | surplus => rw [modCoins_surplus _ _ hk]; exact h1
  | debt => rw [modCoins_debt _ _ hk]; exact h2
  | collateral => rw [modCoins_collateral _ _ hk]; omega

/-- under custody the module account covers what each single auction accounts for -/
theorem modCoins_le_bal (env : Env) (s : St) (hI : Inv env s) (i : Nat) (a : Auction) (ha : s.auc i = some a)
    (d : Denom) : modCoins a d ≤ s.bal env.M d := by
  obtain ⟨hwf, hcu, _⟩ := hI
  rw [hcu d]
  have hlt := (hwf i a ha).2.1
  have := sumTo_ge_term s.nextId (fun j => modCoinsO (s.auc j) d) (by
    intro j _
    show 0 ≤ modCoinsO (s.auc j) d
    cases hj : s.auc j with
    | none => simp [modCoinsO]
    | some x => simp only [modCoinsO]; exact modCoins_nonneg env x (hwf j x hj).2.2 d) i hlt
  simp only [ha, modCoinsO] at this
  exact this

/-- all balances are non-negative (an x/bank invariant) -/
def NonNeg (b : Bal) : Prop := ∀ z e, 0 ≤ b z e

theorem send_nonneg (b b' : Bal) (x y : Addr) (d : Denom) (n : Int) (h : send b x y d n = some b')
    (hb : NonNeg b) : NonNeg b' := by
  intro z e
  have hf := send_funds b b' x y d n h
  have he := send_eff b b' x y d n h z e
  have := hb z e
  have hx := hb x d
  rcases hf with h0 | ⟨hp, hle⟩
  · subst h0; simp only [ind_zero] at he; omega
  · by_cases h1 : z = x ∧ e = d
    · obtain ⟨rfl, rfl⟩ := h1
      by_cases h2 : z = y
      · subst h2; simp only [ind, and_self, ite_true] at he; omega
      · simp only [ind, and_self, ite_true, h2, false_and, ite_false] at he; omega
    · rw [ind_neg _ h1] at he
      have := ind_nonneg (z = y ∧ e = d) n (by omega)
      omega

theorem mint_nonneg (b : Bal) (m : Addr) (d : Denom) (n : Int) (hn : 0 ≤ n) (hb : NonNeg b) :
    NonNeg (mintTo b m d n) := by
  intro z e
  rw [mint_eff]
  have := hb z e
  have := ind_nonneg (z = m ∧ e = d) n hn
  omega

/-- every stored auction can be paid out: its bidder is not a blocked address and a debt auction's
    initiator may mint (StartDebtAuction checks the latter; the former holds for every account that
    can sign a bid) -/
def Closable (env : Env) (s : St) : Prop :=
  ∀ i a, s.auc i = some a → env.blocked a.bidder = false ∧ (a.kind = .debt → env.minter a.initiator = true)

theorem payout_ok (env : Env) (hE : EnvOk env) (b : Bal) (a : Auction) (hA : AWF env a)
    (hcov : ∀ d, modCoins a d ≤ b env.M d) (hb : env.blocked a.bidder = false)
    (hm : a.kind = .debt → env.minter a.initiator = true) (hnn : NonNeg b) :
    ∃ b', payout env b a = some (some b') ∧ NonNeg b' := by
  obtain ⟨hlot, _, hdebt, _, hini, _⟩ := hA
  have hoM : ¬ (env.M = a.bidder) := by intro hx; rw [← hx, hE] at hb; cases hb
  have hMi : ¬ (env.M = a.initiator) := fun h => hini h.symm
  unfold payout
  cases hk : a.kind with
  | surplus =>
    simp only
    have hc := hcov a.lotD
    rw [modCoins_surplus _ _ hk, ind_pos _ rfl] at hc
    obtain ⟨b1, h1⟩ := sendM2A_ok env b env.M a.bidder a.lotD a.lot hb hlot hc
    refine ⟨b1, by rw [h1], ?_⟩
    unfold sendM2A at h1; simp only [hb] at h1
    exact send_nonneg _ _ _ _ _ _ h1 hnn
  | debt =>
    simp only [hm hk, not_true_eq_false, ite_false]
    have hn1 := mint_nonneg b a.initiator a.lotD a.lot hlot hnn
    have hfund : a.lot ≤ mintTo b a.initiator a.lotD a.lot a.initiator a.lotD := by
      rw [mint_eff, ind_pos _ (And.intro rfl rfl)]
      have := hnn a.initiator a.lotD; omega
    obtain ⟨b2, h2⟩ := sendM2A_ok env _ a.initiator a.bidder a.lotD a.lot hb hlot hfund
    simp only [h2]
    have h2' := h2
    unfold sendM2A at h2'; simp only [hb] at h2'
    have hn2 := send_nonneg _ _ _ _ _ _ h2' hn1
    by_cases hpos : 0 < a.debt
    · simp only [hpos, not_true_eq_false, ite_false]
      have hc := hcov a.debtD
      rw [modCoins_debt _ _ hk, ind_pos _ rfl] at hc
      have e2 := (sendM2A_eff env _ b2 a.initiator a.bidder a.lotD a.lot h2).2 env.M a.debtD
      rw [mint_eff] at e2
      simp only [ind_left_false hMi, ind_left_false hoM] at e2
      obtain ⟨b3, h3⟩ := send_ok b2 env.M a.initiator a.debtD a.debt hdebt (by omega)
      exact ⟨b3, by rw [h3], send_nonneg _ _ _ _ _ _ h3 hn2⟩
    · simp only [hpos, not_false_eq_true, ite_true]
      exact ⟨b2, rfl, hn2⟩
  | collateral =>
    simp only
    have hc := hcov a.lotD
    rw [modCoins_collateral _ _ hk, ind_pos _ rfl] at hc
    have hd0 := ind_nonneg (a.debtD = a.lotD) a.debt hdebt
    obtain ⟨b1, h1⟩ := sendM2A_ok env b env.M a.bidder a.lotD a.lot hb hlot (by omega)
    simp only [h1]
    have h1' := h1
    unfold sendM2A at h1'; simp only [hb] at h1'
    have hn1 := send_nonneg _ _ _ _ _ _ h1' hnn
    by_cases hpos : 0 < a.debt
    · simp only [hpos, not_true_eq_false, ite_false]
      have hc2 := hcov a.debtD
      rw [modCoins_collateral _ _ hk, ind_pos a.debt rfl] at hc2
      have e1 := (sendM2A_eff env b b1 env.M a.bidder a.lotD a.lot h1).2 env.M a.debtD
      simp only [ind_left_false hoM, ind_self_and, ind_true_and] at e1
      obtain ⟨b3, h3⟩ := send_ok b1 env.M a.initiator a.debtD a.debt hdebt (by omega)
      exact ⟨b3, by rw [h3], send_nonneg _ _ _ _ _ _ h3 hn1⟩
    · simp only [hpos, not_false_eq_true, ite_true]
      exact ⟨b1, rfl, hn1⟩

theorem closeAuction_ok (env : Env) (hE : EnvOk env) (now : Int) (s : St) (id : Nat) (a : Auction)
    (hI : Inv env s) (hc : Closable env s) (hnn : NonNeg s.bal) (ha : s.auc id = some a) (hend : a.endT ≤ now) :
    ∃ s', closeAuction env now s id = .ok s' ∧ NonNeg s'.bal ∧ (∀ j, s'.auc j = if j = id then none else s.auc j) := by
  obtain ⟨hb, hm⟩ := hc id a ha
  obtain ⟨b', hp, hn'⟩ := payout_ok env hE s.bal a (hI.1 id a ha).2.2
    (fun d => modCoins_le_bal env s hI id a ha d) hb hm hnn
  refine ⟨deleteAuction { s with bal := b' } id, ?_, hn', ?_⟩
  · unfold closeAuction
    have : ¬ (now < a.endT) := by omega
    simp only [ha, this, ite_false, hp]
  · intro j; rw [deleteAuction_auc]; rfl

/-- the loop of `CloseExpiredAuctions` never hits an error when every listed id that is still stored
    has expired -/
theorem closeAll_ok (env : Env) (hE : EnvOk env) (now : Int) (ids : List Nat) (s : St) (hI : Inv env s)
    (hc : Closable env s) (hnn : NonNeg s.bal)
    (hexp : ∀ i, i ∈ ids → ∀ a, s.auc i = some a → a.endT ≤ now) :
    ∃ s', closeAll env now s ids = .ok s' := by
  induction ids generalizing s with
  | nil => exact ⟨s, rfl⟩
  | cons id ids ih =>
    unfold closeAll
    cases ha : s.auc id with
    | none =>
      rw [closeAuction_missing env now s id ha]
      exact ih s hI hc hnn (fun i hi a h => hexp i (List.mem_cons_of_mem _ hi) a h)
    | some a =>
      obtain ⟨s1, h1, hn1, hauc⟩ := closeAuction_ok env hE now s id a hI hc hnn ha (hexp id (by simp) a ha)
      rw [h1]
      apply ih s1 (closeAuction_inv env hE now s s1 id hI h1) ?_ hn1 ?_
      · intro i x hx
        rw [hauc i] at hx
        split at hx
        · cases hx
        · exact hc i x hx
      · intro i hi x hx
        rw [hauc i] at hx
        split at hx
        · cases hx
        · exact hexp i (List.mem_cons_of_mem _ hi) x hx

theorem beginBlock_ok (env : Env) (hE : EnvOk env) (now : Int) (s : St) (hI : Inv env s)
    (hc : Closable env s) (hnn : NonNeg s.bal) : ∃ s', beginBlock env now s = .ok s' := by
  have hexp : ∀ i, i ∈ (s.index.filter (fun k => decide (k.1 ≤ now))).map (·.2) →
      ∀ a, s.auc i = some a → a.endT ≤ now := by
    intro i hi a ha
    obtain ⟨k, hk, rfl⟩ := List.mem_map.mp hi
    obtain ⟨hk1, hk2⟩ := List.mem_filter.mp hk
    obtain ⟨x, hx, hxe⟩ := (hI.2.2.2 k.1 k.2).mp hk1
    rw [ha] at hx; cases hx
    have : k.1 ≤ now := by simpa using hk2
    omega
  obtain ⟨s', h⟩ := closeAll_ok env hE now _ s hI hc hnn hexp
  exact ⟨s', by unfold beginBlock; rw [h]⟩

theorem closeAuction_notFound (env : Env) (now : Int) (s : St) (id : Nat)
    (h : closeAuction env now s id = .notFound) : s.auc id = none := by
  unfold closeAuction at h
  cases ha : s.auc id with
  | none => rfl
  | some a =>
    simp only [ha] at h
    by_cases hexp : now < a.endT
    · simp only [hexp, ite_true] at h; cases h
    simp only [hexp, ite_false] at h
    cases hp : payout env s.bal a with
    | none => simp only [hp] at h; cases h
    | some r => cases r with
      | none => simp only [hp] at h; cases h
      | some b => simp only [hp] at h; cases h

/-- what the close loop leaves behind: every listed id is free, every other id is untouched -/
theorem closeAll_result (env : Env) (now : Int) (ids : List Nat) (s s' : St)
    (h : closeAll env now s ids = .ok s') :
    (∀ i, i ∈ ids → s'.auc i = none) ∧ (∀ i, i ∉ ids → s'.auc i = s.auc i) := by
  induction ids generalizing s with
  | nil => unfold closeAll at h; cases h; exact ⟨(fun i hi => by cases hi), (fun _ _ => rfl)⟩
  | cons id ids ih =>
    unfold closeAll at h
    cases hc : closeAuction env now s id with
    | ok s1 =>
      simp only [hc] at h
      obtain ⟨a, b', _, _, _, rfl⟩ := closeAuction_spec env now s s1 id hc
      obtain ⟨h1, h2⟩ := ih _ h
      have hdel : ∀ j, (deleteAuction { s with bal := b' } id).auc j = if j = id then none else s.auc j := by
        intro j; rw [deleteAuction_auc]; rfl
      constructor
      · intro i hi
        rcases List.mem_cons.mp hi with rfl | hi'
        · by_cases hm : i ∈ ids
          · exact h1 i hm
          · rw [h2 i hm, hdel]; simp
        · exact h1 i hi'
      · intro i hi
        have hi1 : i ≠ id := fun hx => hi (by simp [hx])
        have hi2 : i ∉ ids := fun hx => hi (List.mem_cons_of_mem _ hx)
        rw [h2 i hi2, hdel]; simp [hi1]
    | notFound =>
      simp only [hc] at h
      have hnone := closeAuction_notFound env now s id hc
      obtain ⟨h1, h2⟩ := ih s h
      constructor
      · intro i hi
        rcases List.mem_cons.mp hi with rfl | hi'
        · by_cases hm : i ∈ ids
          · exact h1 i hm
          · rw [h2 i hm]; exact hnone
        · exact h1 i hi'
      · intro i hi
        exact h2 i (fun hx => hi (List.mem_cons_of_mem _ hx))
    | err => simp only [hc] at h; cases h
    | panic => simp only [hc] at h; cases h

/-- a completed begin block closed exactly the auctions whose end time is ≤ now -/
theorem beginBlock_result (env : Env) (now : Int) (s s' : St) (hix : IndexExact s)
    (h : beginBlock env now s = .ok s') :
    (∀ i a, s.auc i = some a → a.endT ≤ now → s'.auc i = none) ∧
    (∀ i a, s.auc i = some a → now < a.endT → s'.auc i = some a) ∧
    (∀ i, s.auc i = none → s'.auc i = none) := by
  unfold beginBlock at h
  cases hc : closeAll env now s ((s.index.filter (fun k => decide (k.1 ≤ now))).map (·.2)) with
  | ok s1 =>
    simp only [hc] at h; cases h
    obtain ⟨h1, h2⟩ := closeAll_result env now _ s _ hc
    have hmem : ∀ i, i ∈ (s.index.filter (fun k => decide (k.1 ≤ now))).map (·.2) ↔
        ∃ a, s.auc i = some a ∧ a.endT ≤ now := by
      intro i
      constructor
      · intro hi
        obtain ⟨k, hk, rfl⟩ := List.mem_map.mp hi
        obtain ⟨hk1, hk2⟩ := List.mem_filter.mp hk
        obtain ⟨x, hx, hxe⟩ := (hix.2 k.1 k.2).mp hk1
        exact ⟨x, hx, by have : k.1 ≤ now := by simpa using hk2
                         omega⟩
      · rintro ⟨a, ha, hle⟩
        exact List.mem_map.mpr ⟨(a.endT, i), List.mem_filter.mpr ⟨(hix.2 a.endT i).mpr ⟨a, ha, rfl⟩, by simpa using hle⟩, rfl⟩
    refine ⟨?_, ?_, ?_⟩
    · intro i a ha hle; exact h1 i ((hmem i).mpr ⟨a, ha, hle⟩)
    · intro i a ha hlt
      rw [h2 i (fun hx => by
        obtain ⟨x, hx1, hx2⟩ := (hmem i).mp hx
        rw [ha] at hx1; cases hx1; omega)]
      exact ha
    · intro i hn
      rw [h2 i (fun hx => by
        obtain ⟨x, hx1, _⟩ := (hmem i).mp hx
        rw [hn] at hx1; cases hx1)]
      exact hn
  | notFound => simp only [hc] at h; cases h
  | err => simp only [hc] at h; cases h
  | panic => simp only [hc] at h; cases h

end KV.Auc
