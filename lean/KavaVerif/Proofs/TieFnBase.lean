/-
  Shared tactics of the source-tie proofs (Proofs/TieFn*.lean): the regenerated Go → Lean definitions
  (Generated/Fn*.lean) are `do` blocks in `KV.Go.R`; the hand models are nested `if`s.  Both sides are
  brought to one normal form (monad laws, Bool conditions as Props) and compared branch by branch.
  Core Lean only.
-/
import KavaVerif.Num.GoSem

namespace KV.TieFn
open KV KV.Go

/-- normal form of the translated control flow: monad laws of `R`, Bool conditions as Props -/
macro "tie_norm" : tactic =>
  `(tactic| simp only [R.ok_bind, R.panic_bind, R.err_bind, R.pure_eq, R.ofOption_none, R.ofOption_some,
      Option.map_none, Option.map_some, Bool.not_eq_true', decide_eq_true_eq, decide_eq_false_iff_not,
      Bool.and_eq_true, Bool.or_eq_true, Bool.not_eq_true, gt_iff_lt, ge_iff_le, Go.cmp_le_zero, Go.cmp_eq_one,
      Go.cmp_eq_zero, Go.cmp_lt_zero, Go.cmp_eq_neg_one, Go.cmp_gt_zero, Go.cmp_ge_zero, Go.sign_eq_one,
      Go.sign_eq_neg_one, Go.sign_eq_zero, not_true_eq_false, not_false_eq_true, if_true, if_false, ite_not, and_true, true_and,
      and_false, false_and, or_true, true_or, or_false, false_or, Decidable.not_not, ne_eq])

/-- case split on a condition that occurs literally on both sides -/
macro "tie_case " h:ident " : " c:term : tactic =>
  `(tactic| (by_cases $h : $c <;> simp only [$h:ident, not_true_eq_false, not_false_eq_true, if_true, if_false,
      and_true, true_and, and_false, false_and, or_true, true_or, or_false, false_or] <;> (try tie_norm)))

/-- split every remaining `if` on both sides; close each leaf by `rfl` or linear arithmetic (contradictory
    branch conditions, or equal results up to arithmetic) -/
macro "tie_split" : tactic =>
  `(tactic| ((repeat' (first | rfl | (split <;> (try simp only [R.ok_bind, R.panic_bind, R.err_bind])))) <;>
      (first | rfl | omega |
        (simp only [R.ofOption_some, R.ofOption_none, R.ok.injEq, Prod.mk.injEq, true_and, and_true] <;>
          (repeat' constructor) <;> omega))))

end KV.TieFn
