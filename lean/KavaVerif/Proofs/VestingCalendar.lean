/-
  Helper lemmas for C20 (calendar part): the civil-calendar model used by GetPeriodLength.
  Round trips days ↔ civil date for every day number, month lengths, monotonicity.  Core Lean only.
-/
import KavaVerif.Model.Vesting
set_option linter.unusedSimpArgs false
set_option linter.unusedVariables false
namespace KV.Vest.Cal

theorem divmod_of (a b q r : Int) (hb : 0 < b) (h : r + b * q = a) (h0 : 0 ≤ r) (h1 : r < b) :
    a / b = q ∧ a % b = r := (Int.ediv_emod_unique hb).2 ⟨h, h0, h1⟩

/-! ### one Euclidean step at a time: days ↔ (century, day of century) ↔ (year, day of year) ↔ (month, day) -/

theorem L1 (N : Int) : N = 146097 * ((4 * N + 3) / 146097) / 4 + (4 * N + 3) % 146097 / 4 ∧
    0 ≤ (4 * N + 3) % 146097 / 4 ∧ (4 * N + 3) % 146097 / 4 ≤ 36524 := by omega
theorem L2 (NC : Int) (h0 : 0 ≤ NC) (h1 : NC ≤ 36524) :
    NC = 1461 * ((4 * NC + 3) / 1461) / 4 + (4 * NC + 3) % 1461 / 4 ∧
    0 ≤ (4 * NC + 3) / 1461 ∧ (4 * NC + 3) / 1461 ≤ 99 ∧
    0 ≤ (4 * NC + 3) % 1461 / 4 ∧ (4 * NC + 3) % 1461 / 4 ≤ 365 := by omega
theorem L3 (NY : Int) (h0 : 0 ≤ NY) (h1 : NY ≤ 365) :
    NY = (153 * ((5 * NY + 2) / 153) + 2) / 5 + (5 * NY + 2) % 153 / 5 ∧
    0 ≤ (5 * NY + 2) / 153 ∧ (5 * NY + 2) / 153 ≤ 11 ∧
    0 ≤ (5 * NY + 2) % 153 / 5 ∧ (5 * NY + 2) % 153 / 5 ≤ 30 := by omega

theorem R1 (C NC : Int) (h0 : 0 ≤ NC) (h1 : NC ≤ 36523 + (if C % 4 = 3 then 1 else 0)) :
    (4 * (146097 * C / 4 + NC) + 3) / 146097 = C ∧ (4 * (146097 * C / 4 + NC) + 3) % 146097 / 4 = NC := by
  have key := divmod_of (4 * (146097 * C / 4 + NC) + 3) 146097 C
    (4 * (146097 * C / 4) - 146097 * C + 4 * NC + 3) (by omega) (by omega) (by omega) (by split at h1 <;> omega)
  rw [key.1, key.2]
  omega
theorem R2 (Z NY : Int) (hz0 : 0 ≤ Z) (hz1 : Z ≤ 99) (h0 : 0 ≤ NY) (h1 : NY ≤ 364 + (if Z % 4 = 3 then 1 else 0)) :
    (4 * (1461 * Z / 4 + NY) + 3) / 1461 = Z ∧ (4 * (1461 * Z / 4 + NY) + 3) % 1461 / 4 = NY := by
  have key := divmod_of (4 * (1461 * Z / 4 + NY) + 3) 1461 Z
    (4 * (1461 * Z / 4) - 1461 * Z + 4 * NY + 3) (by omega) (by omega) (by omega) (by split at h1 <;> omega)
  rw [key.1, key.2]
  omega
theorem R3 (mp d0 : Int) (hm0 : 0 ≤ mp) (hm1 : mp ≤ 11) (h0 : 0 ≤ d0)
    (h1 : (153 * mp + 2) / 5 + d0 < (153 * (mp + 1) + 2) / 5) :
    (5 * ((153 * mp + 2) / 5 + d0) + 2) / 153 = mp ∧ (5 * ((153 * mp + 2) / 5 + d0) + 2) % 153 / 5 = d0 := by
  have key := divmod_of (5 * ((153 * mp + 2) / 5 + d0) + 2) 153 mp
    (5 * ((153 * mp + 2) / 5) - 153 * mp + 5 * d0 + 2) (by omega) (by omega) (by omega) (by omega)
  rw [key.1, key.2]
  omega

/-! ### March-based internal coordinates -/

/-- (March-based year, March-based month 0..11, day of month − 1) of the day `N` counted from 0000-03-01 -/
def fromN (N : Int) : Int × Int × Int :=
  let C := (4 * N + 3) / 146097
  let NC := (4 * N + 3) % 146097 / 4
  let Z := (4 * NC + 3) / 1461
  let NY := (4 * NC + 3) % 1461 / 4
  (100 * C + Z, (5 * NY + 2) / 153, (5 * NY + 2) % 153 / 5)

def toN (Y mp d0 : Int) : Int := yearStart Y + monthStart mp + d0

/-- civil (January-based) date of March-based coordinates -/
def toCivil (i : Int × Int × Int) : YMD :=
  let m := if i.2.1 < 10 then i.2.1 + 3 else i.2.1 - 9
  ⟨if m ≤ 2 then i.1 + 1 else i.1, m, i.2.2 + 1⟩

theorem civilFromDays_eq (z : Int) : civilFromDays z = toCivil (fromN (z + 719468)) := rfl

theorem daysFromCivil_toCivil (Y mp d0 : Int) (h0 : 0 ≤ mp) (h1 : mp ≤ 11) :
    daysFromCivil (toCivil (Y, mp, d0)).y (toCivil (Y, mp, d0)).m (toCivil (Y, mp, d0)).d
      = toN Y mp d0 - 719468 := by
  unfold daysFromCivil toCivil toN
  simp only []
  by_cases h : mp < 10
  · have h2 : ¬ mp + 3 ≤ 2 := by omega
    simp only [h, h2, ite_true, ite_false]
    have e : mp + 3 - 3 = mp := by omega
    rw [e]; omega
  · have h2 : mp - 9 ≤ 2 := by omega
    simp only [h, h2, ite_true, ite_false]
    have e : mp - 9 + 9 = mp := by omega
    have e2 : Y + 1 - 1 = Y := by omega
    rw [e, e2]; omega

/-- forward representation: every day number is `toN` of its internal coordinates, which are in range -/
theorem fromN_repr (N : Int) :
    toN (fromN N).1 (fromN N).2.1 (fromN N).2.2 = N ∧
    0 ≤ (fromN N).2.1 ∧ (fromN N).2.1 ≤ 11 ∧ 0 ≤ (fromN N).2.2 ∧ (fromN N).2.2 ≤ 30 := by
  unfold fromN toN yearStart monthStart
  simp only []
  obtain ⟨a1, a2, a3⟩ := L1 N
  generalize (4 * N + 3) / 146097 = C at *
  generalize (4 * N + 3) % 146097 / 4 = NC at *
  obtain ⟨b1, b2, b3, b4, b5⟩ := L2 NC a2 a3
  generalize (4 * NC + 3) / 1461 = Z at *
  generalize (4 * NC + 3) % 1461 / 4 = NY at *
  obtain ⟨c1, c2, c3, c4, c5⟩ := L3 NY b4 b5
  generalize (5 * NY + 2) / 153 = mp at *
  generalize (5 * NY + 2) % 153 / 5 = d0 at *
  have e1 : (100 * C + Z) / 100 = C := by omega
  have e2 : (100 * C + Z) % 100 = Z := by omega
  rw [e1, e2]
  omega

/-- `daysFromCivil ∘ civilFromDays = id` for every day number -/
theorem daysFromCivil_civilFromDays (z : Int) :
    daysFromCivil (civilFromDays z).y (civilFromDays z).m (civilFromDays z).d = z := by
  rw [civilFromDays_eq]
  obtain ⟨r1, r2, r3, r4, r5⟩ := fromN_repr (z + 719468)
  have := daysFromCivil_toCivil (fromN (z + 719468)).1 (fromN (z + 719468)).2.1 (fromN (z + 719468)).2.2 r2 r3
  rw [this, r1]; omega

/-- the March-based year `Y` ends with a 29 February (i.e. civil year `Y+1` is a leap year) -/
abbrev leapMarch (Y : Int) : Prop := (Y % 100) % 4 = 3 ∧ (Y % 100 ≠ 99 ∨ (Y / 100) % 4 = 3)

/-- inverse representation: valid internal coordinates are recovered from their day number -/
theorem fromN_toN (Y mp d0 : Int) (hm0 : 0 ≤ mp) (hm1 : mp ≤ 11) (hd0 : 0 ≤ d0)
    (hd1 : monthStart mp + d0 < monthStart (mp + 1))
    (hd2 : monthStart mp + d0 ≤ 364 + (if leapMarch Y then 1 else 0)) :
    fromN (toN Y mp d0) = (Y, mp, d0) := by
  unfold fromN toN yearStart
  unfold monthStart at hd1 hd2 ⊢
  simp only []
  have hd2' : (leapMarch Y ∧ (153 * mp + 2) / 5 + d0 ≤ 365) ∨ (¬ leapMarch Y ∧ (153 * mp + 2) / 5 + d0 ≤ 364) := by
    by_cases hL : leapMarch Y
    · rw [if_pos hL] at hd2; exact Or.inl ⟨hL, by omega⟩
    · rw [if_neg hL] at hd2; exact Or.inr ⟨hL, by omega⟩
  clear hd2
  unfold leapMarch at hd2'
  have hz0 : 0 ≤ Y % 100 := by omega
  have hz1 : Y % 100 ≤ 99 := by omega
  have hY : 100 * (Y / 100) + Y % 100 = Y := by omega
  have hNY0 : 0 ≤ (153 * mp + 2) / 5 + d0 := by omega
  have hNY : (153 * mp + 2) / 5 + d0 ≤ 364 + (if (Y % 100) % 4 = 3 then 1 else 0) := by
    split <;> omega
  have hNC0 : 0 ≤ 1461 * (Y % 100) / 4 + ((153 * mp + 2) / 5 + d0) := by omega
  have hNC : 1461 * (Y % 100) / 4 + ((153 * mp + 2) / 5 + d0) ≤ 36523 + (if (Y / 100) % 4 = 3 then 1 else 0) := by
    split <;> omega
  have r1 := R1 (Y / 100) (1461 * (Y % 100) / 4 + ((153 * mp + 2) / 5 + d0)) hNC0 hNC
  have e : 146097 * (Y / 100) / 4 + 1461 * (Y % 100) / 4 + (153 * mp + 2) / 5 + d0
      = 146097 * (Y / 100) / 4 + (1461 * (Y % 100) / 4 + ((153 * mp + 2) / 5 + d0)) := by omega
  rw [e, r1.1, r1.2]
  have r2 := R2 (Y % 100) ((153 * mp + 2) / 5 + d0) hz0 hz1 hNY0 hNY
  rw [r2.1, r2.2]
  have r3 := R3 mp d0 hm0 hm1 hd0 hd1
  rw [r3.1, r3.2, hY]

/-- March-based coordinates of a civil date -/
def marchY (y m : Int) : Int := if m ≤ 2 then y - 1 else y
def marchM (m : Int) : Int := if m ≤ 2 then m + 9 else m - 3

theorem daysFromCivil_eq (y m d : Int) :
    daysFromCivil y m d = toN (marchY y m) (marchM m) (d - 1) - 719468 := rfl

theorem toCivil_march (y m d : Int) (h1 : 1 ≤ m) (h2 : m ≤ 12) :
    toCivil (marchY y m, marchM m, d - 1) = ⟨y, m, d⟩ := by
  unfold toCivil marchY marchM
  simp only []
  by_cases h : m ≤ 2
  · have a1 : ¬ m + 9 < 10 := by omega
    have a2 : m + 9 - 9 ≤ 2 := by omega
    simp only [h, a1, a2, ite_true, ite_false]
    congr 1 <;> omega
  · have a1 : m - 3 < 10 := by omega
    have a2 : ¬ m - 3 + 3 ≤ 2 := by omega
    simp only [h, a1, a2, ite_true, ite_false]
    congr 1 <;> omega

theorem leapMarch_iff (y : Int) : leapMarch (y - 1) ↔ isLeap y := by
  unfold leapMarch isLeap
  omega

/-- `civilFromDays ∘ daysFromCivil = id` on every valid civil date -/
theorem civilFromDays_daysFromCivil (y m d : Int) (hm1 : 1 ≤ m) (hm2 : m ≤ 12)
    (hd1 : 1 ≤ d) (hd2 : d ≤ daysInMonth y m) :
    civilFromDays (daysFromCivil y m d) = ⟨y, m, d⟩ := by
  rw [civilFromDays_eq, daysFromCivil_eq]
  have e : toN (marchY y m) (marchM m) (d - 1) - 719468 + 719468 = toN (marchY y m) (marchM m) (d - 1) := by omega
  rw [e]
  have hv : fromN (toN (marchY y m) (marchM m) (d - 1)) = (marchY y m, marchM m, d - 1) := by
    apply fromN_toN
    · unfold marchM; split <;> omega
    · unfold marchM; split <;> omega
    · omega
    · unfold daysInMonth at hd2
      unfold marchM monthStart
      have hc : m = 1 ∨ m = 2 ∨ m = 3 ∨ m = 4 ∨ m = 5 ∨ m = 6 ∨ m = 7 ∨ m = 8 ∨ m = 9 ∨ m = 10 ∨ m = 11 ∨ m = 12 := by omega
      rcases hc with h | h | h | h | h | h | h | h | h | h | h | h <;> subst h <;>
        simp only [Int.reduceLE, Int.reduceEq, Int.reduceAdd, Int.reduceSub, Int.reduceMul, Int.reduceDiv,
          ite_true, ite_false, or_false, false_or, or_true, true_or, reduceIte] at hd2 ⊢ <;>
        (try split at hd2) <;> omega
    · unfold daysInMonth at hd2
      by_cases hf : m = 2
      · subst hf
        have e1 : marchY y 2 = y - 1 := by unfold marchY; rw [if_pos (by decide)]
        have e2 : marchM 2 = 11 := by unfold marchM; rw [if_pos (by decide)]; rfl
        rw [e1, e2]
        unfold monthStart
        simp only [ite_true] at hd2
        by_cases hL : isLeap y
        · rw [if_pos hL] at hd2
          rw [if_pos ((leapMarch_iff y).2 hL)]; omega
        · rw [if_neg hL] at hd2
          rw [if_neg (fun h => hL ((leapMarch_iff y).1 h))]; omega
      · have : monthStart (marchM m) + (d - 1) ≤ 364 := by
          unfold marchM monthStart
          have hc : m = 1 ∨ m = 3 ∨ m = 4 ∨ m = 5 ∨ m = 6 ∨ m = 7 ∨ m = 8 ∨ m = 9 ∨ m = 10 ∨ m = 11 ∨ m = 12 := by omega
          rcases hc with h | h | h | h | h | h | h | h | h | h | h <;> subst h <;>
            simp only [Int.reduceLE, Int.reduceEq, Int.reduceAdd, Int.reduceSub, Int.reduceMul, Int.reduceDiv,
              ite_true, ite_false, or_false, false_or, or_true, true_or, reduceIte] at hd2 ⊢ <;>
            (try split at hd2) <;> omega
        split <;> omega
  rw [hv, toCivil_march y m d hm1 hm2]

/-! ### month starts are strictly increasing (28 … 31 days apart) -/

theorem ys_wrap (C : Int) :
    146097 * (C + 1) / 4 + 1461 * 0 / 4 = 146097 * C / 4 + 1461 * 99 / 4 + 365 + (if C % 4 = 3 then 1 else 0) := by
  have hc : C % 4 = 0 ∨ C % 4 = 1 ∨ C % 4 = 2 ∨ C % 4 = 3 := by omega
  rcases hc with h | h | h | h <;> rw [h] <;> simp only [Int.reduceEq, ite_true, ite_false, reduceIte] <;> omega

theorem ys_step (Z : Int) (h0 : 0 ≤ Z) (h1 : Z < 99) :
    1461 * (Z + 1) / 4 = 1461 * Z / 4 + 365 + (if Z % 4 = 3 then 1 else 0) := by
  have hc : Z % 4 = 0 ∨ Z % 4 = 1 ∨ Z % 4 = 2 ∨ Z % 4 = 3 := by omega
  rcases hc with h | h | h | h <;> rw [h] <;> simp only [Int.reduceEq, ite_true, ite_false, reduceIte] <;> omega

theorem yearStart_succ (Y : Int) :
    yearStart (Y + 1) = yearStart Y + 365 + (if leapMarch Y then 1 else 0) := by
  unfold yearStart
  by_cases h : Y % 100 = 99
  · have e1 : (Y + 1) / 100 = Y / 100 + 1 := by omega
    have e2 : (Y + 1) % 100 = 0 := by omega
    have hl : leapMarch Y ↔ (Y / 100) % 4 = 3 := by unfold leapMarch; rw [h]; omega
    rw [e1, e2]
    have := ys_wrap (Y / 100)
    by_cases c : (Y / 100) % 4 = 3
    · rw [if_pos (hl.2 c)]; rw [if_pos c] at this; rw [h]; exact this
    · rw [if_neg (fun x => c (hl.1 x))]; rw [if_neg c] at this; rw [h]; exact this
  · have e1 : (Y + 1) / 100 = Y / 100 := by omega
    have e2 : (Y + 1) % 100 = Y % 100 + 1 := by omega
    have hl : leapMarch Y ↔ (Y % 100) % 4 = 3 := by unfold leapMarch; omega
    rw [e1, e2]
    have := ys_step (Y % 100) (by omega) (by omega)
    by_cases c : (Y % 100) % 4 = 3
    · rw [if_pos (hl.2 c)]; rw [if_pos c] at this; omega
    · rw [if_neg (fun x => c (hl.1 x))]; rw [if_neg c] at this; omega
/-- day number (from 0000-03-01) of the first day of the month with March-based index `K = 12·Y + mp` -/
def monthDay0 (K : Int) : Int := yearStart (K / 12) + monthStart (K % 12)

theorem monthStart_step (mp : Int) (h0 : 0 ≤ mp) (h1 : mp ≤ 10) :
    monthStart mp + 30 ≤ monthStart (mp + 1) ∧ monthStart (mp + 1) ≤ monthStart mp + 31 := by
  unfold monthStart; omega

theorem monthDay0_succ (K : Int) : monthDay0 K + 28 ≤ monthDay0 (K + 1) ∧ monthDay0 (K + 1) ≤ monthDay0 K + 31 := by
  unfold monthDay0
  by_cases h : K % 12 = 11
  · have e1 : (K + 1) / 12 = K / 12 + 1 := by omega
    have e2 : (K + 1) % 12 = 0 := by omega
    rw [e1, e2, h, yearStart_succ]
    have m0 : monthStart 0 = 0 := by decide
    have m11 : monthStart 11 = 337 := by decide
    rw [m0, m11]
    generalize yearStart (K / 12) = ys
    split <;> omega
  · have e1 : (K + 1) / 12 = K / 12 := by omega
    have e2 : (K + 1) % 12 = K % 12 + 1 := by omega
    rw [e1, e2]
    have := monthStart_step (K % 12) (by omega) (by omega)
    generalize yearStart (K / 12) = ys
    generalize monthStart (K % 12 + 1) = a at *
    generalize monthStart (K % 12) = b at *
    omega

theorem monthDay0_add (K : Int) : ∀ n : Nat, monthDay0 K + 28 * (n : Int) ≤ monthDay0 (K + (n : Int))
  | 0 => by simp
  | n + 1 => by
    have ih := monthDay0_add K n
    have s := (monthDay0_succ (K + (n : Int))).1
    have e : K + ((n + 1 : Nat) : Int) = K + (n : Int) + 1 := by omega
    rw [e]
    generalize monthDay0 (K + (n : Int) + 1) = a at *
    generalize monthDay0 (K + (n : Int)) = b at *
    generalize monthDay0 K = c at *
    omega

theorem monthDay0_mono (K n : Int) (hn : 0 ≤ n) : monthDay0 K + 28 * n ≤ monthDay0 (K + n) := by
  have := monthDay0_add K n.toNat
  have e : (n.toNat : Int) = n := Int.toNat_of_nonneg hn
  rw [e] at this
  exact this

/-! ### GetPeriodLength -/

theorem Mid_val : MidMonth = 15 := by decide
theorem Beg_val : BeginningOfMonth = 1 := by decide
theorem Hour_val : PaymentHour = 14 := by decide

theorem daysInMonth_ge (y m : Int) : 28 ≤ daysInMonth y m := by
  unfold daysInMonth
  split
  · split <;> omega
  · split <;> omega

theorem march_of (y m : Int) (h1 : 1 ≤ m) (h2 : m ≤ 12) :
    12 * marchY y m + marchM m = 12 * y + m - 3 ∧ 0 ≤ marchM m ∧ marchM m ≤ 11 := by
  unfold marchY marchM
  split <;> omega

/-- the month index (12·year + month) of the civil date of March-based coordinates -/
theorem toCivil_index (Y mp d0 : Int) (h0 : 0 ≤ mp) (h1 : mp ≤ 11) :
    12 * (toCivil (Y, mp, d0)).y + (toCivil (Y, mp, d0)).m = 12 * Y + mp + 3 ∧
    1 ≤ (toCivil (Y, mp, d0)).m ∧ (toCivil (Y, mp, d0)).m ≤ 12 ∧ (toCivil (Y, mp, d0)).d = d0 + 1 := by
  unfold toCivil
  simp only []
  by_cases h : mp < 10
  · have h2 : ¬ mp + 3 ≤ 2 := by omega
    simp only [h, h2, ite_true, ite_false, and_true]; omega
  · have h2 : mp - 9 ≤ 2 := by omega
    simp only [h, h2, ite_true, ite_false, and_true]; omega

theorem normMonth_index (y m : Int) :
    12 * (normMonth y m).1 + (normMonth y m).2 = 12 * y + m ∧ 1 ≤ (normMonth y m).2 ∧ (normMonth y m).2 ≤ 12 := by
  unfold normMonth
  simp only []
  omega

/-- day number of the `pd`-th of the month whose (civil) month index is `12·y + m` -/
theorem daysFromCivil_monthDay0 (y m pd : Int) (h1 : 1 ≤ m) (h2 : m ≤ 12) :
    daysFromCivil y m pd = monthDay0 (12 * y + m - 3) + (pd - 1) - 719468 := by
  rw [daysFromCivil_eq]
  obtain ⟨a, b, c⟩ := march_of y m h1 h2
  unfold toN monthDay0
  have e1 : (12 * y + m - 3) / 12 = marchY y m := by omega
  have e2 : (12 * y + m - 3) % 12 = marchM m := by omega
  rw [e1, e2]

/-- internal description of a block time: day number = first of its month + (day − 1) -/
theorem civil_of_day (z : Int) :
    ∃ K d0 : Int, 0 ≤ d0 ∧ d0 ≤ 30 ∧ z = monthDay0 K + d0 - 719468 ∧
      12 * (civilFromDays z).y + (civilFromDays z).m = K + 3 ∧
      1 ≤ (civilFromDays z).m ∧ (civilFromDays z).m ≤ 12 ∧ (civilFromDays z).d = d0 + 1 := by
  obtain ⟨r1, r2, r3, r4, r5⟩ := fromN_repr (z + 719468)
  rw [civilFromDays_eq]
  generalize fromN (z + 719468) = i at *
  obtain ⟨Y, mp, d0⟩ := i
  simp only [] at r1 r2 r3 r4 r5
  obtain ⟨t1, t2, t3, t4⟩ := toCivil_index Y mp d0 r2 r3
  refine ⟨12 * Y + mp, d0, r4, r5, ?_, by omega, t2, t3, t4⟩
  unfold monthDay0
  unfold toN at r1
  have e1 : (12 * Y + mp) / 12 = Y := by omega
  have e2 : (12 * Y + mp) % 12 = mp := by omega
  rw [e1, e2]; omega

theorem payDayOf_cases (now : Int) : payDayOf now = 15 ∨ payDayOf now = 1 := by
  unfold payDayOf; split
  · exact Or.inl Mid_val
  · exact Or.inr Beg_val

/-- `payDate` in closed form: the `payDay`-th of the month `months + offset` months later, 14:00:00 -/
theorem payDate_eq (now months : Int) :
    payDate now months =
      daysFromCivil (payMonthOf now months).1 (payMonthOf now months).2 (payDayOf now) * 86400
        + PaymentHour * 3600 := by
  obtain ⟨K, d0, _, _, _, _, hm1, hm2, _⟩ := civil_of_day (now / 86400)
  have hpd : 1 ≤ payDayOf now ∧ payDayOf now ≤ daysInMonth (civilFromDays (now / 86400)).y (civilFromDays (now / 86400)).m := by
    have := daysInMonth_ge (civilFromDays (now / 86400)).y (civilFromDays (now / 86400)).m
    rcases payDayOf_cases now with h | h <;> rw [h] <;> omega
  have hA := civilFromDays_daysFromCivil (civilFromDays (now / 86400)).y (civilFromDays (now / 86400)).m
    (payDayOf now) hm1 hm2 hpd.1 hpd.2
  unfold payDate
  simp only []
  unfold payDayOf at hA
  unfold payMonthOf payOffOf payDayOf
  rw [hA]

theorem payDate_closed (now : Int) :
    ∃ K d0 : Int, 0 ≤ d0 ∧ d0 ≤ 30 ∧ now / 86400 = monthDay0 K + d0 - 719468 ∧
      (civilFromDays (now / 86400)).d = d0 + 1 ∧
      ∀ months, payDate now months =
        (monthDay0 (K + (months + payOffOf now)) + (payDayOf now - 1) - 719468) * 86400 + 50400 := by
  obtain ⟨K, d0, h0, h1, hz, hidx, hm1, hm2, hd⟩ := civil_of_day (now / 86400)
  refine ⟨K, d0, h0, h1, hz, hd, ?_⟩
  intro months
  rw [payDate_eq]
  obtain ⟨n1, n2, n3⟩ := normMonth_index (civilFromDays (now / 86400)).y
    ((civilFromDays (now / 86400)).m + (months + payOffOf now))
  unfold payMonthOf
  rw [daysFromCivil_monthDay0 _ _ _ n2 n3, Hour_val]
  have e : 12 * (normMonth (civilFromDays (now / 86400)).y
        ((civilFromDays (now / 86400)).m + (months + payOffOf now))).1 +
      (normMonth (civilFromDays (now / 86400)).y
        ((civilFromDays (now / 86400)).m + (months + payOffOf now))).2 - 3 = K + (months + payOffOf now) := by
    omega
  rw [e]
  omega

/-- the pay date is strictly after the block time -/
theorem payDate_after (now months : Int) (hm : 0 < months) : now < payDate now months := by
  obtain ⟨K, d0, h0, h1, hz, hd, he⟩ := payDate_closed now
  rw [he months]
  have hs0 : 0 ≤ now % 86400 := by omega
  have hs1 : now % 86400 < 86400 := by omega
  have hnow : now = (now / 86400) * 86400 + now % 86400 := by omega
  unfold payOffOf payDayOf
  rw [hd]
  by_cases hE : isEarly (d0 + 1) (now % 86400 / 3600) = true
  · simp only [hE, ite_true]
    have mono := monthDay0_mono K (months + 0) (by omega)
    have hd15 : d0 + 1 < 15 ∨ (d0 + 1 = 15 ∧ now % 86400 / 3600 < 14) := by
      unfold isEarly at hE
      simp only [Mid_val, Hour_val, Bool.or_eq_true, Bool.and_eq_true, decide_eq_true_eq] at hE
      exact hE
    rw [Mid_val]
    generalize monthDay0 (K + (months + 0)) = a at *
    generalize monthDay0 K = b at *
    generalize now / 86400 = z at *
    generalize now % 86400 = s at *
    omega
  · simp only [hE, ite_false, Bool.false_eq_true]
    have mono := monthDay0_mono K (months + 1) (by omega)
    rw [Beg_val]
    generalize monthDay0 (K + (months + 1)) = a at *
    generalize monthDay0 K = b at *
    generalize now / 86400 = z at *
    generalize now % 86400 = s at *
    omega

/-- a longer lock-up never pays earlier, and a strictly longer one pays at least 28 days later -/
theorem payDate_mono (now m1 m2 : Int) (h : m1 ≤ m2) :
    payDate now m1 + 28 * 86400 * (m2 - m1) ≤ payDate now m2 := by
  obtain ⟨K, d0, h0, h1, hz, hd, he⟩ := payDate_closed now
  rw [he m1, he m2]
  have mono := monthDay0_mono (K + (m1 + payOffOf now)) (m2 - m1) (by omega)
  have e : K + (m1 + payOffOf now) + (m2 - m1) = K + (m2 + payOffOf now) := by omega
  rw [e] at mono
  generalize monthDay0 (K + (m2 + payOffOf now)) = a at *
  generalize monthDay0 (K + (m1 + payOffOf now)) = b at *
  omega

/-- civil date and time of day of the pay date -/
theorem payDate_civil (now months : Int) :
    civilFromDays (payDate now months / 86400) =
      ⟨(payMonthOf now months).1, (payMonthOf now months).2, payDayOf now⟩ ∧
    payDate now months % 86400 = PaymentHour * 3600 := by
  rw [payDate_eq, Hour_val]
  obtain ⟨n1, n2, n3⟩ := normMonth_index (civilFromDays (now / 86400)).y
    ((civilFromDays (now / 86400)).m + (months + payOffOf now))
  have hpd : 1 ≤ payDayOf now ∧ payDayOf now ≤ daysInMonth (payMonthOf now months).1 (payMonthOf now months).2 := by
    have := daysInMonth_ge (payMonthOf now months).1 (payMonthOf now months).2
    rcases payDayOf_cases now with h | h <;> rw [h] <;> omega
  have hA := civilFromDays_daysFromCivil (payMonthOf now months).1 (payMonthOf now months).2 (payDayOf now)
    n2 n3 hpd.1 hpd.2
  generalize daysFromCivil (payMonthOf now months).1 (payMonthOf now months).2 (payDayOf now) = D at *
  have e1 : (D * 86400 + 14 * 3600) / 86400 = D := by omega
  have e2 : (D * 86400 + 14 * 3600) % 86400 = 14 * 3600 := by omega
  rw [e1, e2]
  exact ⟨hA, rfl⟩

/-! ### the model calendar is the Gregorian calendar -/

theorem epoch : daysFromCivil 1970 1 1 = 0 := by decide

theorem next_day (y m d : Int) : daysFromCivil y m (d + 1) = daysFromCivil y m d + 1 := by
  unfold daysFromCivil; simp only []; omega

/-- the model's months have the Gregorian lengths -/
theorem month_length (y m : Int) (h1 : 1 ≤ m) (h2 : m ≤ 11) :
    daysFromCivil y (m + 1) 1 = daysFromCivil y m 1 + daysInMonth y m := by
  rw [daysFromCivil_eq, daysFromCivil_eq]
  unfold toN daysInMonth
  have hc : m = 1 ∨ m = 2 ∨ m = 3 ∨ m = 4 ∨ m = 5 ∨ m = 6 ∨ m = 7 ∨ m = 8 ∨ m = 9 ∨ m = 10 ∨ m = 11 := by omega
  rcases hc with h | h | h | h | h | h | h | h | h | h | h <;> subst h <;>
    simp only [marchY, marchM, monthStart, Int.reduceLE, Int.reduceEq, Int.reduceAdd, Int.reduceSub, Int.reduceMul,
      Int.reduceDiv, ite_true, ite_false, or_false, false_or, or_true, true_or, reduceIte]
  case inr.inl =>
    -- February: the March-based year changes
    have ys := yearStart_succ (y - 1)
    have e : y - 1 + 1 = y := by omega
    rw [e] at ys
    rw [ys]
    by_cases hL : isLeap y
    · rw [if_pos hL, if_pos ((leapMarch_iff y).2 hL)]; omega
    · rw [if_neg hL, if_neg (fun h => hL ((leapMarch_iff y).1 h))]; omega
  all_goals omega

theorem december_length (y : Int) : daysFromCivil (y + 1) 1 1 = daysFromCivil y 12 1 + 31 := by
  rw [daysFromCivil_eq, daysFromCivil_eq]
  unfold toN
  simp only [marchY, marchM, monthStart, Int.reduceLE, Int.reduceEq, Int.reduceAdd, Int.reduceSub, Int.reduceMul,
      Int.reduceDiv, ite_true, ite_false, reduceIte]
  have e : y + 1 - 1 = y := by omega
  rw [e]
  omega

end KV.Vest.Cal
