/-
  Helper lemmas for C12, part 5: the value of a holder's stake across a conversion at ANY exchange rate.

  `value_core` (LiquidStep.lean) bounds the change by two base units and needs `T·f ≤ S'' − T`: the fraction `f`
  of a share lost to the floor on the minted amount is worth less than one token — true only while one share is
  worth at most one token.  Here the same argument is run with that step generalised: the lost fraction is worth
  at most `X/S'' − T/S''` base units for any `X ≥ max(S'', T·10^18)`, i.e. at most max(1, r') with r' the
  tokens-per-share rate after the operation.  The bound becomes 1 + max(1, r'); a gain never exceeds two units.
-/
import KavaVerif.Proofs.LiquidStep
set_option linter.unusedSimpArgs false
set_option linter.unusedVariables false
namespace KV.Liquid
open KV

/-- the validator's tokens (0 when there is no validator) -/
def tokensOf (c : VSt) : Int := match c.val with | some v => v.tokens | none => 0

/-- |value' − value| ≤ 1 + max(1, r') base units, cross-multiplied: value = stakeNum / shares and
    r' = tokens' · 10^18 / shares' is the tokens-per-share rate after the operation, so that
    (1 + max(1, r')) · S · S' = S·S' + S · max(S', tokens'·10^18).  (What lean/Driver/C12.lean computes as
    `bound` for r' ≤ 1 and as `bound1r` for r' > 1.) -/
def ValueWithinOnePlusRate (c c' : VSt) (a : Addr) : Prop :=
  stakeNum c' a * sharesOf c - stakeNum c a * sharesOf c' ≤
    sharesOf c * sharesOf c' + sharesOf c * max (sharesOf c') (tokensOf c' * P) ∧
  stakeNum c a * sharesOf c' - stakeNum c' a * sharesOf c ≤
    sharesOf c * sharesOf c' + sharesOf c * max (sharesOf c') (tokensOf c' * P)
instance (c c' : VSt) (a : Addr) : Decidable (ValueWithinOnePlusRate c c' a) := by
  unfold ValueWithinOnePlusRate; exact inferInstance

/-- a gain of at most two base units, cross-multiplied -/
def GainWithinTwo (c c' : VSt) (a : Addr) : Prop :=
  stakeNum c' a * sharesOf c - stakeNum c a * sharesOf c' ≤ 2 * sharesOf c * sharesOf c'
instance (c c' : VSt) (a : Addr) : Decidable (GainWithinTwo c c' a) := by unfold GainWithinTwo; exact inferInstance

/-- at a rate of at most one token per share after the operation the two bounds are the same statement -/
theorem valueWithinOnePlusRate_iff_two (c c' : VSt) (a : Addr) (h : tokensOf c' * P ≤ sharesOf c') :
    ValueWithinOnePlusRate c c' a ↔ ValueWithinTwo c c' a := by
  unfold ValueWithinOnePlusRate ValueWithinTwo
  have hm : max (sharesOf c') (tokensOf c' * P) = sharesOf c' := by omega
  rw [hm]
  have e : sharesOf c * sharesOf c' + sharesOf c * sharesOf c' = 2 * sharesOf c * sharesOf c' := by grind
  rw [e]

/-- `value_core` without the rate hypothesis: `X` is any number with `S'' ≤ X` and `T·f ≤ X − T`
    (for a mint: `X = max(S'', T·10^18)`, since f < 10^18).  Loss ≤ S·S'' + S·X, gain ≤ 2·S·S'' (≤ S·S'' + S·X). -/
theorem value_core_rate (T S sh amt r H f X : Int) (hS : 0 < S) (hsh : 0 < sh) (hS' : 1 ≤ S - sh)
    (hamt0 : 0 ≤ amt) (hT' : 1 ≤ T - amt) (hr0 : 0 ≤ r)
    (h_lo : sh * T < (amt + 1) * S) (h_up : 2 * P * (amt * S - sh * T) ≤ S)
    (hr1 : r * (T - amt) ≤ (S - sh) * amt) (hr2 : (S - sh) * amt < (r + 1) * (T - amt))
    (hsane : 2 * (T - amt - 1) < S - sh)
    (hH1 : sh ≤ H) (hH2 : H ≤ S) (hf0 : 0 ≤ f) (hX : S - sh + r ≤ X) (hA : T * f ≤ X - T) :
    H * T * (S - sh + r) - (H - (sh - r) - f) * T * S ≤ S * (S - sh + r) + S * X ∧
    (H - (sh - r) - f) * T * S - H * T * (S - sh + r) ≤ 2 * S * (S - sh + r) ∧
    (H - (sh - r) - f) * T * S - H * T * (S - sh + r) ≤ S * (S - sh + r) + S * X := by
  obtain ⟨T', hT'def⟩ : ∃ T', T' = T - amt := ⟨_, rfl⟩
  obtain ⟨S', hS'def⟩ : ∃ S', S' = S - sh := ⟨_, rfl⟩
  rw [← hT'def] at hT' hr1 hr2 hsane
  rw [← hS'def] at hS' hr1 hr2 hsane
  have hT1 : 1 ≤ T := by omega
  have F1 : (sh - r) * T' ≤ S + T' - 2 := by subst hT'def; subst hS'def; grind
  have F2 : S' * T - T' + 1 ≤ (S' + r) * T' := by subst hT'def; subst hS'def; grind
  have F3 : (r - sh) * T' ≤ S := by
    have hx : amt * S - sh * T ≤ S := by
      rcases Int.lt_or_le 0 (amt * S - sh * T) with hp | hn
      · have : 1 * (amt * S - sh * T) ≤ 2 * P * (amt * S - sh * T) :=
          Int.mul_le_mul_of_nonneg_right (by simp only [P_val]; omega) (by omega)
        omega
      · omega
    subst hT'def; subst hS'def; grind
  have hTf : T * f * S ≤ S * X - S * T := by
    have : S * (T * f) ≤ S * (X - T) := Int.mul_le_mul_of_nonneg_left hA (by omega)
    grind
  have hSX : S * (S' + r) ≤ S * X := Int.mul_le_mul_of_nonneg_left (by subst hS'def; omega) (by omega)
  have hSS : 0 ≤ S * (S' + r) := Int.mul_nonneg (by omega) (by omega)
  have hST : 0 ≤ S * T := Int.mul_nonneg (by omega) (by omega)
  have hTfS : 0 ≤ T * f * S := Int.mul_nonneg (Int.mul_nonneg (by omega) hf0) (by omega)
  have e1 : S - sh + r = S' + r := by omega
  rw [e1]
  have idL : H * T * (S' + r) - (H - (sh - r) - f) * T * S = T * (sh - r) * (S - H) + T * f * S := by
    subst hS'def; grind
  rcases Int.lt_or_le 0 (sh - r) with hd | hd
  · -- δ > 0
    have hB := value_B T S sh r T' S' (by omega) hS hsh hS' hS'def hT' (by omega) hr0 F1 F2 hd
    have hTd : 0 ≤ T * (sh - r) := Int.mul_nonneg (by omega) (by omega)
    have hm : T * (sh - r) * (S - H) ≤ T * (sh - r) * S' := Int.mul_le_mul_of_nonneg_left (by omega) hTd
    have hm0 : 0 ≤ T * (sh - r) * (S - H) := Int.mul_nonneg hTd (by omega)
    refine ⟨?_, ?_, ?_⟩
    · rw [idL]; grind
    · have : (H - (sh - r) - f) * T * S - H * T * (S' + r) = -(T * (sh - r) * (S - H) + T * f * S) := by
        rw [← idL]; omega
      rw [this]; grind
    · have : (H - (sh - r) - f) * T * S - H * T * (S' + r) = -(T * (sh - r) * (S - H) + T * f * S) := by
        rw [← idL]; omega
      rw [this]; grind
  · -- δ ≤ 0
    have hG := value_G T S sh r T' S' hT1 hS hS' hT' hr0 F3 F2 hsane
    have hTd : 0 ≤ T * (r - sh) := Int.mul_nonneg (by omega) (by omega)
    have hm : T * (r - sh) * (S - H) ≤ T * (r - sh) * S' := Int.mul_le_mul_of_nonneg_left (by omega) hTd
    have hm0 : 0 ≤ T * (r - sh) * (S - H) := Int.mul_nonneg hTd (by omega)
    have eneg : T * (sh - r) * (S - H) = -(T * (r - sh) * (S - H)) := by grind
    refine ⟨?_, ?_, ?_⟩
    · rw [idL, eneg]; grind
    · have : (H - (sh - r) - f) * T * S - H * T * (S' + r) = -(T * (sh - r) * (S - H) + T * f * S) := by
        rw [← idL]; omega
      rw [this, eneg]; grind
    · have : (H - (sh - r) - f) * T * S - H * T * (S' + r) = -(T * (sh - r) * (S - H) + T * f * S) := by
        rw [← idL]; omega
      rw [this, eneg]; grind

/-- value of the holder's stake across a mint that mints ⌊received shares⌋ (the repaired code), any rate -/
theorem mint_value_rate (accts : List Addr) (hn : accts.Nodup) (g : Cfg) (hg : g.mintReceived = true) (M : Addr)
    (c c' : VSt) (d : Addr) (amount der : Int) (hM : M ∈ accts) (hd : d ∈ accts) (hne : d ≠ M)
    (hwf : WF accts c) (hrate : SaneRate c) (hTpos : ∀ v, c.val = some v → 0 < v.tokens)
    (hbal : 0 ≤ c.bal d) (hH : dm c d + c.bal d * P ≤ sharesOf c)
    (h : mint g M c d true amount = .ok (c', der)) : ValueWithinOnePlusRate c c' d ∧ GainWithinTwo c c' d := by
  obtain ⟨-, shares, c1, r, -, ht, hder, e1, e2, e3, e4, e5, e6⟩ := mint_effect g M c c' d amount der h
  rw [hg] at hder; simp only [ite_true] at hder
  obtain ⟨v, v3, hv, hv3, t1, t2, hS, hsh, hshd, hdS, hr0, hT, hcase⟩ :=
    transfer_arith accts hn g c c1 d M shares r hd hne hwf hrate hTpos ht
  obtain ⟨-, -, -, -, hdm, -, b1, -, -⟩ := transfer_inv accts hn g c c1 d M shares r hd hM hne hwf ht
  have hd1 : dm c' d = dm c d - shares.m := by
    have : dm c' d = dm c1 d := by unfold dm; rw [e2]
    rw [this, hdm d]; simp only [ite_true]
  have hb1 : c'.bal d = c.bal d + der := by rw [e5, b1]; simp only [updI, ite_true]
  have hv' : c'.val = some v3 := by rw [e1]; exact hv3
  obtain ⟨f0, f1⟩ := trunc_frac r hr0
  rw [← hder] at f0 f1
  have hSc : sharesOf c = v.shares.m := by unfold sharesOf; rw [hv]
  have hSc' : sharesOf c' = v.shares.m - shares.m + r.m := by unfold sharesOf; rw [hv']; exact t2
  have hTc' : tokensOf c' = v.tokens := by unfold tokensOf; rw [hv']; exact t1
  have hN : stakeNum c d = (dm c d + c.bal d * P) * v.tokens := by unfold stakeNum; rw [hv]
  have hN' : stakeNum c' d = (dm c d + c.bal d * P - (shares.m - r.m) - (r.m - der * P)) * v.tokens := by
    unfold stakeNum; rw [hv']; show (dm c' d + c'.bal d * P) * v3.tokens = _; rw [hd1, hb1, t1]; congr 1; grind
  rw [hSc] at hH
  have hbP : 0 ≤ c.bal d * P := Int.mul_nonneg hbal (by decide)
  unfold ValueWithinOnePlusRate GainWithinTwo
  rw [hSc, hSc', hTc', hN, hN']
  have hH1 : shares.m ≤ dm c d + c.bal d * P := by omega
  generalize dm c d + c.bal d * P = H at hH hH1 ⊢
  have hTP : 0 ≤ v.tokens * P := Int.mul_nonneg hT (by decide)
  rcases hcase with ⟨es, er⟩ | ⟨amt, c1', c2', c3', c4', c5', c6', c7', c8'⟩
  · -- all shares of the validator leave and come back at rate one
    have hHS : H = v.shares.m := by omega
    have hf : r.m - der * P = 0 := by
      have : der = v.tokens := by
        rw [hder]; exact truncateInt_mul_P v.tokens r er hT
      rw [er, this]; omega
    rw [hf, es, er, hHS]
    have e : (v.shares.m - (v.shares.m - v.tokens * P) - 0) * v.tokens * v.shares.m
           = v.shares.m * v.tokens * (v.shares.m - v.shares.m + v.tokens * P) := by grind
    have e0 : v.shares.m - v.shares.m + v.tokens * P = v.tokens * P := by omega
    have hnn : 0 ≤ v.shares.m * (v.tokens * P) := Int.mul_nonneg (by omega) hTP
    have hnn2 : 0 ≤ 2 * v.shares.m * (v.tokens * P) := Int.mul_nonneg (by omega) hTP
    rw [e, e0, Int.max_self]
    refine ⟨⟨?_, ?_⟩, ?_⟩ <;> omega
  · obtain ⟨X, hXdef⟩ : ∃ X, X = max (v.shares.m - shares.m + r.m) (v.tokens * P) := ⟨_, rfl⟩
    rw [← hXdef]
    have hA : v.tokens * (r.m - der * P) ≤ X - v.tokens := by
      have : v.tokens * (r.m - der * P) ≤ v.tokens * (P - 1) := Int.mul_le_mul_of_nonneg_left f1 hT
      have e : v.tokens * (P - 1) = v.tokens * P - v.tokens := by grind
      omega
    have := value_core_rate v.tokens v.shares.m shares.m amt r.m H (r.m - der * P) X hS hsh c1' c2' c3' hr0 c4' c5' c6'
      c7' c8' hH1 hH f0 (by omega) hA
    exact ⟨⟨this.2.2, this.1⟩, this.2.1⟩

/-- after a successful transfer one share-ulp is worth at most one token: tokens ≤ shares (mantissa).
    (In the notation of `value_core`: S' ≥ 2T' − 1 and r ≥ amt give S' + r ≥ T.) -/
theorem transfer_post_tokens_le_shares (accts : List Addr) (hn : accts.Nodup) (g : Cfg) (c c2 : VSt) (frm to : Addr)
    (sh r : Dec) (hf : frm ∈ accts) (hne : frm ≠ to) (hwf : WF accts c) (hrate : SaneRate c)
    (hTpos : ∀ v, c.val = some v → 0 < v.tokens)
    (h : transfer g c frm to sh = .ok (c2, r)) : ∀ v', c2.val = some v' → v'.tokens ≤ v'.shares.m := by
  obtain ⟨v, v3, hv, hv3, t1, t2, hS, hsh, hshd, hdS, hr0, hT, hcase⟩ :=
    transfer_arith accts hn g c c2 frm to sh r hf hne hwf hrate hTpos h
  intro v' hv'
  rw [hv3] at hv'; cases hv'
  rw [t1, t2]
  rcases hcase with ⟨es, er⟩ | ⟨amt, c1', c2', c3', c4', c5', c6', c7', c8'⟩
  · have : v.tokens * 1 ≤ v.tokens * P := Int.mul_le_mul_of_nonneg_left (by decide) hT
    omega
  · -- r ≥ amt
    have hra : amt ≤ r.m := by
      rcases Int.lt_or_le r.m amt with hlt | hge
      · exfalso
        have k1 : (r.m + 1) * (v.tokens - amt) ≤ amt * (v.tokens - amt) :=
          Int.mul_le_mul_of_nonneg_right (by omega) (by omega)
        have k2 : amt * (v.tokens - amt) ≤ amt * (v.shares.m - sh.m) :=
          Int.mul_le_mul_of_nonneg_left (by omega) c2'
        have k3 : amt * (v.shares.m - sh.m) = (v.shares.m - sh.m) * amt := Int.mul_comm _ _
        omega
      · exact hge
    omega

/-- value of the holder's stake across a burn: within two base units at ANY rate (nothing is floored on a burn,
    and the token left behind by `RemoveDelShares` is the only loss) -/
theorem burn_value_any_rate (accts : List Addr) (hn : accts.Nodup) (g : Cfg) (M : Addr)
    (c c' : VSt) (d : Addr) (amount : Int) (r : Dec) (hM : M ∈ accts) (hd : d ∈ accts) (hne : d ≠ M)
    (hwf : WF accts c) (hrate : SaneRate c) (hTpos : ∀ v, c.val = some v → 0 < v.tokens)
    (hH : dm c d + c.bal d * P ≤ sharesOf c)
    (h : burn g M c d amount = .ok (c', r)) : ValueWithinTwo c c' d := by
  obtain ⟨h0, hbal, ht⟩ := burn_effect g M c c' d amount r h
  have hwf0 : WF accts { c with bal := updI c.bal d (c.bal d - amount), supply := c.supply - amount } := hwf
  have hrate0 : SaneRate { c with bal := updI c.bal d (c.bal d - amount), supply := c.supply - amount } := hrate
  exact burn_value accts hn g M c c' d amount r hM hd hne hwf hrate hTpos hH
    (transfer_post_tokens_le_shares accts hn g _ c' M d _ r hM (fun e => hne e.symm) hwf0 hrate0 hTpos ht) h

/-- two units imply 1 + max(1, r') units (shares are non-negative) -/
theorem valueWithinOnePlusRate_of_two (c c' : VSt) (a : Addr) (h0 : 0 ≤ sharesOf c) (h : ValueWithinTwo c c' a) :
    ValueWithinOnePlusRate c c' a := by
  unfold ValueWithinOnePlusRate
  unfold ValueWithinTwo at h
  have hm : sharesOf c * sharesOf c' ≤ sharesOf c * max (sharesOf c') (tokensOf c' * P) :=
    Int.mul_le_mul_of_nonneg_left (by omega) h0
  have e : 2 * sharesOf c * sharesOf c' = sharesOf c * sharesOf c' + sharesOf c * sharesOf c' := by grind
  rw [e] at h
  exact ⟨by omega, by omega⟩

end KV.Liquid
