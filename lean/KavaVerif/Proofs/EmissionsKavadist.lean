/-
  Helper lemmas for C19 (kavadist period windows).  Property statements live in Props/C19.lean.
-/
import KavaVerif.Model.Emissions

set_option linter.unusedSimpArgs false
set_option linter.unusedVariables false
namespace KV.Em
open KV

theorem classify_ended (p : Period) (prev now : Int) (h : classify p prev now = .ended) :
    prev < p.end_ ∧ p.end_ ≤ now := by
  unfold classify at h
  split at h
  · cases h
  · split at h
    · rename_i h2; omega
    · split at h
      · cases h
      · split at h <;> cases h

theorem classify_ongoing (p : Period) (prev now : Int) (h : classify p prev now = .ongoing) :
    p.start ≤ prev ∧ now < p.end_ ∧ prev ≤ p.end_ := by
  unfold classify at h
  split at h
  · cases h
  · split at h
    · cases h
    · split at h
      · rename_i h1 _ h3; omega
      · split at h <;> cases h

theorem windowStart_ge (v : Variant) (p : Period) (prev : Int) : prev ≤ windowStart v p prev := by
  cases v <;> simp only [windowStart]
  · omega
  · split <;> omega

theorem windowStart_le_end (v : Variant) (p : Period) (prev : Int) (h : prev < p.end_)
    (hv : v = .current ∨ p.start ≤ p.end_) : windowStart v p prev ≤ p.end_ := by
  cases v <;> simp only [windowStart]
  · omega
  · split
    · cases hv with
      | inl h => cases h
      | inr h => exact h
    · omega

theorem windowStart_fixed_ge_start (p : Period) (prev : Int) : p.start ≤ windowStart .fixed p prev := by
  simp only [windowStart]; split <;> omega

/-- facts about every mint of one call, valid for both variants -/
theorem mints_bounds (v : Variant) (now : Int) :
    ∀ (ps : List Period) (prev : Int) (i : Nat), prev ≤ now →
      ∀ m ∈ mintIncentivePeriods v now ps prev i,
        prev ≤ m.lo ∧ m.hi ≤ now ∧ m.hi ≤ m.period.end_ ∧ i ≤ m.idx ∧
        m.secs = unix m.hi - unix m.lo ∧ m.period ∈ ps ∧
        ((v = .current ∨ m.period.start ≤ m.period.end_) → m.lo ≤ m.hi) ∧
        (v = .fixed → m.period.start ≤ m.lo) := by
  intro ps
  induction ps with
  | nil => intro prev i _ m hm; simp [mintIncentivePeriods] at hm
  | cons p ps ih =>
    intro prev i hpn m hm
    unfold mintIncentivePeriods at hm
    split at hm
    · rename_i hc
      obtain ⟨e1, e2⟩ := classify_ended p prev now hc
      rcases List.mem_cons.mp hm with h | h
      · subst h
        have w1 := windowStart_ge v p prev
        refine ⟨w1, e2, Int.le_refl _, Nat.le_refl _, rfl, List.mem_cons_self .., ?_, ?_⟩
        · intro hv; exact windowStart_le_end v p prev e1 hv
        · intro hv; subst hv; exact windowStart_fixed_ge_start p prev
      · obtain ⟨a1, a2, a3, a4, a5, a6, a7, a8⟩ := ih p.end_ (i + 1) e2 m h
        exact ⟨by omega, a2, a3, by omega, a5, List.mem_cons_of_mem _ a6, a7, a8⟩
    · rename_i hc
      obtain ⟨o1, o2, o3⟩ := classify_ongoing p prev now hc
      rcases List.mem_cons.mp hm with h | h
      · subst h
        refine ⟨Int.le_refl _, Int.le_refl _, by simp only []; omega, Nat.le_refl _, rfl,
          List.mem_cons_self .., fun _ => hpn, fun _ => o1⟩
      · obtain ⟨a1, a2, a3, a4, a5, a6, a7, a8⟩ := ih prev (i + 1) hpn m h
        exact ⟨a1, a2, a3, by omega, a5, List.mem_cons_of_mem _ a6, a7, a8⟩
    · obtain ⟨a1, a2, a3, a4, a5, a6, a7, a8⟩ := ih prev (i + 1) hpn m hm
      exact ⟨a1, a2, a3, by omega, a5, List.mem_cons_of_mem _ a6, a7, a8⟩

/-- within one call every period is minted for at most once (indices strictly increase) -/
theorem mints_pairwise (v : Variant) (now : Int) :
    ∀ (ps : List Period) (prev : Int) (i : Nat), prev ≤ now →
      (mintIncentivePeriods v now ps prev i).Pairwise (fun a b => a.idx < b.idx) := by
  intro ps
  induction ps with
  | nil => intro prev i _; simp [mintIncentivePeriods]
  | cons p ps ih =>
    intro prev i hpn
    unfold mintIncentivePeriods
    split
    · rename_i hc
      obtain ⟨e1, e2⟩ := classify_ended p prev now hc
      refine List.pairwise_cons.mpr ⟨?_, ih p.end_ (i + 1) e2⟩
      intro b hb
      have := (mints_bounds v now ps p.end_ (i + 1) e2 b hb).2.2.2.1
      simp only []; omega
    · refine List.pairwise_cons.mpr ⟨?_, ih prev (i + 1) hpn⟩
      intro b hb
      have := (mints_bounds v now ps prev (i + 1) hpn b hb).2.2.2.1
      simp only []; omega
    · exact ih prev (i + 1) hpn

theorem infra_mints_eq (v : Variant) (now : Int) :
    ∀ (ps : List Period) (prev : Int) (i : Nat) (te : Int),
      (mintInfrastructurePeriods v now ps prev i te).1 = mintIncentivePeriods v now ps prev i := by
  intro ps
  induction ps with
  | nil => intro prev i te; rfl
  | cons p ps ih =>
    intro prev i te
    unfold mintInfrastructurePeriods mintIncentivePeriods
    cases hc : classify p prev now <;> simp only [ih]

theorem sortedTimes_weaken : ∀ (bs : List (Int × Bool)) (t t' : Int), t ≤ t' → sortedTimes t' bs → sortedTimes t bs := by
  intro bs t t' h hs
  cases bs with
  | nil => trivial
  | cons b bs => obtain ⟨n, a⟩ := b; exact ⟨by have := hs.1; omega, hs.2⟩

theorem kdHistory_lo (v : Variant) (ps : List Period) :
    ∀ (bs : List (Int × Bool)) (prev : Int), sortedTimes prev bs →
      ∀ m ∈ kdHistory v ps prev bs, prev ≤ m.lo := by
  intro bs
  induction bs with
  | nil => intro prev _ m hm; simp [kdHistory] at hm
  | cons b bs ih =>
    obtain ⟨now, active⟩ := b
    intro prev hs m hm
    obtain ⟨h1, h2⟩ := hs
    unfold kdHistory at hm
    split at hm
    · rcases List.mem_append.mp hm with h | h
      · exact (mints_bounds v now ps prev 0 h1 m h).1
      · have := ih now h2 m h; omega
    · exact ih prev (sortedTimes_weaken bs prev now h1 h2) m hm

theorem kdHistory_pairwise (v : Variant) (ps : List Period) :
    ∀ (bs : List (Int × Bool)) (prev : Int), sortedTimes prev bs →
      (kdHistory v ps prev bs).Pairwise (fun a b => a.idx = b.idx → a.hi ≤ b.lo) := by
  intro bs
  induction bs with
  | nil => intro prev _; simp [kdHistory]
  | cons b bs ih =>
    obtain ⟨now, active⟩ := b
    intro prev hs
    obtain ⟨h1, h2⟩ := hs
    unfold kdHistory
    split
    · refine List.pairwise_append.mpr ⟨?_, ih now h2, ?_⟩
      · exact (mints_pairwise v now ps prev 0 h1).imp (fun hlt he => by omega)
      · intro a ha b hb _
        have := (mints_bounds v now ps prev 0 h1 a ha).2.1
        have := kdHistory_lo v ps bs now h2 b hb
        omega
    · exact ih prev (sortedTimes_weaken bs prev now h1 h2)
theorem secsFor_append (k : Nat) (l1 l2 : List Mint) : secsFor k (l1 ++ l2) = secsFor k l1 + secsFor k l2 := by
  induction l1 with
  | nil => simp [secsFor]
  | cons a l ih => simp only [List.cons_append, secsFor, ih]; omega

theorem secsFor_zero_of_gt (k : Nat) : ∀ (l : List Mint), (∀ m ∈ l, k < m.idx) → secsFor k l = 0 := by
  intro l
  induction l with
  | nil => intro _; rfl
  | cons a l ih =>
    intro h
    have ha := h a (List.mem_cons_self ..)
    have hne : ¬ a.idx = k := by omega
    simp only [secsFor, hne, ite_false, Int.zero_add]
    exact ih (fun m hm => h m (List.mem_cons_of_mem _ hm))

theorem secsFor_le (k : Nat) (B : Int) (hB : 0 ≤ B) : ∀ (l : List Mint),
    l.Pairwise (fun a b => a.idx < b.idx) → (∀ m ∈ l, 0 ≤ m.secs ∧ m.secs ≤ B) →
    0 ≤ secsFor k l ∧ secsFor k l ≤ B := by
  intro l
  induction l with
  | nil => intro _ _; simp only [secsFor]; omega
  | cons a l ih =>
    intro hp hb
    obtain ⟨hp1, hp2⟩ := List.pairwise_cons.mp hp
    have ha := hb a (List.mem_cons_self ..)
    have hl := ih hp2 (fun m hm => hb m (List.mem_cons_of_mem _ hm))
    by_cases hk : a.idx = k
    · have hz : secsFor k l = 0 := secsFor_zero_of_gt k l (fun m hm => by have := hp1 m hm; omega)
      simp only [secsFor, hk, ite_true, hz]; omega
    · simp only [secsFor, hk, ite_false]; omega

theorem unix_mono (a b : Int) (h : a ≤ b) : unix a ≤ unix b := by
  unfold unix; omega

theorem lastTimeT_ge : ∀ (bs : List (Int × Bool)) (t : Int), sortedTimes t bs → t ≤ lastTimeT t bs := by
  intro bs
  induction bs with
  | nil => intro t _; simp [lastTimeT]
  | cons b bs ih =>
    obtain ⟨n, a⟩ := b
    intro t hs
    have := ih n hs.2
    simp only [lastTimeT]; have := hs.1; omega

/-- over any history the seconds minted for one period never exceed the seconds that elapsed -/
theorem kdHistory_secs (v : Variant) (ps : List Period)
    (hv : v = .current ∨ ∀ p ∈ ps, p.start ≤ p.end_) (k : Nat) :
    ∀ (bs : List (Int × Bool)) (prev : Int), sortedTimes prev bs →
      0 ≤ secsFor k (kdHistory v ps prev bs) ∧
      secsFor k (kdHistory v ps prev bs) ≤ unix (lastTimeT prev bs) - unix prev := by
  intro bs
  induction bs with
  | nil => intro prev _; simp only [kdHistory, secsFor, lastTimeT]; omega
  | cons b bs ih =>
    obtain ⟨now, active⟩ := b
    intro prev hs
    obtain ⟨h1, h2⟩ := hs
    unfold kdHistory
    simp only [lastTimeT]
    split
    · rw [secsFor_append]
      have hrest := ih now h2
      have hu := unix_mono prev now h1
      have hblk := secsFor_le k (unix now - unix prev) (by omega) _ (mints_pairwise v now ps prev 0 h1)
        (by
          intro m hm
          obtain ⟨a1, a2, a3, a4, a5, a6, a7, a8⟩ := mints_bounds v now ps prev 0 h1 m hm
          have hlh : m.lo ≤ m.hi := a7 (by
            cases hv with
            | inl h => exact Or.inl h
            | inr h => exact Or.inr (h _ a6))
          have u1 := unix_mono _ _ hlh
          have u2 := unix_mono _ _ a1
          have u3 := unix_mono _ _ a2
          omega)
      omega
    · have := ih prev (sortedTimes_weaken bs prev now h1 h2)
      have hu := unix_mono prev now h1
      have hl := lastTimeT_ge bs now h2
      have hu2 := unix_mono _ _ hl
      -- lastTimeT prev bs vs lastTimeT now bs
      cases bs with
      | nil => simp only [kdHistory, secsFor, lastTimeT] at *; omega
      | cons c cs => simp only [lastTimeT] at *; exact this
end KV.Em
