/-
  Source tie ("tie 1b") for x/community: the Lean definitions REGENERATED from the Go source on every run
  (Generated/FnCommunity.lean, tools/extract/fn*.go) equal the hand-written model functions the C19
  theorems are about.  An edit of the Go function changes the generated definition and this proof stops
  checking.

  Argument encoding: `time.Time` = unix nanoseconds (`Int`), `sdkmath.LegacyDec` = `KV.Dec`,
  `sdkmath.Int` = `Int`; result `(truncated rewards, truncation error)`.
-/
import KavaVerif.Generated.FnCommunity
import KavaVerif.Model.Emissions

namespace KV.TieFn
open KV KV.Go

/-- `calculateStakingRewards` (x/community/keeper/staking.go) = `Em.calculateStakingRewards`.

    Precondition = the hand model's documented assumption: the two block times are within ±2^63 ns
    (≈ 292 years) of each other, where Go's `time.Time.Sub` does not saturate (the model subtracts
    plainly).  The function never panics there (its only division is by the non-zero constant
    `nanosecondsInOneSecond`, which is also regenerated: `Em.NS`). -/
theorem community_calculateStakingRewards (now last : Int) (err rate pool : Dec)
    (h1 : Go.minDur ≤ now - last) (h2 : now - last ≤ Go.maxDur) :
    GoFn.Community.calculateStakingRewards_translated = true ∧
    GoFn.Community.calculateStakingRewards now last err rate pool
      = R.ok (Em.calculateStakingRewards now last err rate pool) := by
  refine ⟨rfl, ?_⟩
  simp only [GoFn.Community.calculateStakingRewards, Em.calculateStakingRewards, Em.accrued, Em.truncateDec,
    Em.NS, KV.Gen.communityNanosPerSecond, Go.timeSub_eq now last h1 h2, Go.decQuoInt, Go.decTruncateDec, Dec.lt]
  simp
  split <;> simp [*]

end KV.TieFn
