/-
  Helper lemmas for C07 (x/swap keeper): finite sums with a point update, the keeper invariant
  (custody, shares sum, record validity) and its preservation by every message.
  Property statements are in KavaVerif/Props/C07.lean.  Core Lean only.
-/
import KavaVerif.Proofs.Swap
set_option linter.unusedSimpArgs false
set_option linter.unusedVariables false
namespace KV.SW

/-! ### finite sums with a point update -/

def sumL {α : Type} (l : List α) (f : α → Int) : Int := (l.map f).foldr (· + ·) 0

theorem sumL_nil {α : Type} (f : α → Int) : sumL [] f = 0 := rfl
theorem sumL_cons {α : Type} (x : α) (xs : List α) (f : α → Int) : sumL (x :: xs) f = f x + sumL xs f := rfl

theorem sumL_congr {α : Type} (l : List α) (f g : α → Int) (h : ∀ x ∈ l, g x = f x) :
    sumL l g = sumL l f := by
  induction l with
  | nil => rfl
  | cons x xs ih =>
    rw [sumL_cons, sumL_cons, h x (List.mem_cons_self), ih (fun y hy => h y (List.mem_cons_of_mem _ hy))]

theorem sumL_update {α : Type} (l : List α) (f g : α → Int) (a : α) (hn : l.Nodup) (ha : a ∈ l)
    (h : ∀ x, x ≠ a → g x = f x) : sumL l g = sumL l f - f a + g a := by
  induction l with
  | nil => cases ha
  | cons x xs ih =>
    rw [sumL_cons, sumL_cons]
    have hnd := List.nodup_cons.mp hn
    by_cases hx : x = a
    · subst hx
      have : sumL xs g = sumL xs f := sumL_congr xs f g (fun y hy => h y (fun e => hnd.1 (e ▸ hy)))
      omega
    · have hin : a ∈ xs := by
        cases ha with
        | head => exact absurd rfl hx
        | tail _ h' => exact h'
      have := ih hnd.2 hin
      have := h x hx
      omega

/-! ### the keeper invariant -/

/-- reserves of a pool record in denomination `d` -/
def resv (pid : PoolId) (p : Option Pool) (d : Denom) : Int :=
  match p with
  | none => 0
  | some p => (if pid.lo = d then p.a else 0) + (if pid.hi = d then p.b else 0)

def totalShares : Option Pool → Int
  | none => 0
  | some p => p.s

/-- `accts`: the accounts that ever act; `pids`: the pool ids that may ever exist (the allowed pools
    of all parameter sets of the history). -/
structure Inv (M : Addr) (accts : List Addr) (pids : List PoolId) (s : KSt) : Prop where
  /-- the module account holds exactly the sum of all pool reserves, per denomination -/
  custody : ∀ d, s.bal M d = sumL pids (fun pid => resv pid (s.pool pid) d)
  /-- each pool's total shares are the sum of its depositors' shares -/
  shares : ∀ pid, totalShares (s.pool pid) = sumL accts (fun a => s.sh a pid)
  known : ∀ pid, s.pool pid ≠ none → pid ∈ pids
  valid : ∀ pid p, s.pool pid = some p → 0 < p.a ∧ 0 < p.b ∧ 0 < p.s
  shNonneg : ∀ a pid, 0 ≤ s.sh a pid

/-- one keeper message touches one pool record, one share record and the module balance -/
theorem inv_transition (M : Addr) (accts : List Addr) (pids : List PoolId) (s s' : KSt)
    (hnA : accts.Nodup) (hnP : pids.Nodup) (who : Addr) (pid : PoolId)
    (hw : who ∈ accts) (hp : pid ∈ pids) (h : Inv M accts pids s)
    (newPool : Option Pool) (v : Int)
    (hpool : ∀ q, s'.pool q = if q = pid then newPool else s.pool q)
    (hsh : ∀ a q, s'.sh a q = if a = who ∧ q = pid then v else s.sh a q)
    (hv : 0 ≤ v)
    (hvalid : ∀ p, newPool = some p → 0 < p.a ∧ 0 < p.b ∧ 0 < p.s)
    (hbal : ∀ d, s'.bal M d = s.bal M d + resv pid newPool d - resv pid (s.pool pid) d)
    (hshares : totalShares newPool - totalShares (s.pool pid) = v - s.sh who pid) :
    Inv M accts pids s' := by
  refine ⟨?_, ?_, ?_, ?_, ?_⟩
  · intro d
    rw [hbal d, h.custody d]
    have := sumL_update pids (fun q => resv q (s.pool q) d) (fun q => resv q (s'.pool q) d) pid hnP hp
      (by intro x hx; simp only [hpool x, hx, ite_false])
    simp only [hpool pid, ite_true] at this
    omega
  · intro q
    by_cases hq : q = pid
    · subst hq
      have := sumL_update accts (fun a => s.sh a q) (fun a => s'.sh a q) who hnA hw
        (by intro x hx; simp only [hsh x q, hx, false_and, ite_false])
      simp only [hsh who q, and_self, ite_true] at this
      rw [this, hpool q]; simp only [ite_true]
      have := h.shares q
      omega
    · rw [hpool q]; simp only [hq, ite_false]
      rw [h.shares q]
      exact (sumL_congr accts _ _ (by intro x _; simp only [hsh x q, hq, and_false, ite_false])).symm
  · intro q hq
    by_cases hqp : q = pid
    · subst hqp; exact hp
    · rw [hpool q] at hq; simp only [hqp, ite_false] at hq; exact h.known q hq
  · intro q p hq
    by_cases hqp : q = pid
    · subst hqp; rw [hpool q] at hq; simp only [ite_true] at hq; exact hvalid p hq
    · rw [hpool q] at hq; simp only [hqp, ite_false] at hq; exact h.valid q p hq
  · intro a q
    rw [hsh a q]; split
    · exact hv
    · exact h.shNonneg a q

/-! ### effect lemmas of the store / bank steps -/

theorem sendCoin_eff (bal b' : Addr → Denom → Int) (frm to : Addr) (d : Denom) (amt : Int)
    (h : sendCoin bal frm to d amt = some b') :
    amt ≤ bal frm d ∧
    ∀ a e, b' a e = bal a e - (if a = frm ∧ e = d then amt else 0) + (if a = to ∧ e = d then amt else 0) := by
  unfold sendCoin at h
  split at h
  · cases h
  rename_i hc
  cases h
  refine ⟨by omega, ?_⟩
  intro a e
  by_cases h3 : e = d
  · subst h3
    by_cases h1 : a = frm
    · subst h1
      by_cases h2 : a = to
      · subst h2; simp only [upd, ite_true, and_self] <;> omega
      · have h2' : ¬ to = a := fun e => h2 e.symm
        simp only [upd, ite_true, and_self, and_true, h2, ite_false]; omega
    · by_cases h2 : a = to
      · subst h2
        have h1' : ¬ frm = a := fun e => h1 e.symm
        simp only [upd, ite_true, and_self, and_true, h1, ite_false]; omega
      · simp only [upd, h1, h2, ite_false, false_and]; omega
  · by_cases h1 : a = frm
    · subst h1
      by_cases h2 : a = to
      · subst h2; simp only [upd, ite_true, h3, ite_false, and_false]; omega
      · simp only [upd, ite_true, h3, ite_false, and_false, h2]; omega
    · by_cases h2 : a = to
      · subst h2; simp only [upd, ite_true, h3, ite_false, and_false, h1]; omega
      · simp only [upd, h1, h2, ite_false, false_and]; omega

theorem setPool_eff (s s1 : KSt) (pid : PoolId) (p : Pool) (h : setPool s pid p = some s1) :
    s1.sh = s.sh ∧ s1.bal = s.bal ∧ (∀ q, s1.pool q = if q = pid then some p else s.pool q) ∧
    0 < p.a ∧ 0 < p.b ∧ 0 < p.s := by
  unfold setPool at h
  split at h
  · cases h
  rename_i hc
  cases h
  exact ⟨rfl, rfl, fun q => rfl, by omega, by omega, by omega⟩

theorem updatePool_eff (s s1 : KSt) (pid : PoolId) (p : Pool) (h : updatePool s pid p = some s1) :
    s1.sh = s.sh ∧ s1.bal = s.bal ∧
    (∀ q, s1.pool q = if q = pid then (if p.s = 0 then none else some p) else s.pool q) ∧
    (p.s ≠ 0 → 0 < p.a ∧ 0 < p.b ∧ 0 < p.s) := by
  unfold updatePool at h
  split at h
  · rename_i hz
    cases h
    refine ⟨rfl, rfl, ?_, fun hn => absurd hz hn⟩
    intro q; simp only [upd, hz, ite_true]
  · rename_i hz
    obtain ⟨e1, e2, e3, e4⟩ := setPool_eff s s1 pid p h
    refine ⟨e1, e2, ?_, fun _ => e4⟩
    intro q; rw [e3 q]; simp only [hz, ite_false]

theorem updateShares_eff (s s2 : KSt) (who : Addr) (pid : PoolId) (v : Int)
    (h : updateShares s who pid v = some s2) :
    s2.pool = s.pool ∧ s2.bal = s.bal ∧ 0 ≤ v ∧
    (∀ a q, s2.sh a q = if a = who ∧ q = pid then v else s.sh a q) := by
  unfold updateShares at h
  split at h
  · cases h
  rename_i hc
  cases h
  refine ⟨rfl, rfl, by omega, ?_⟩
  intro a q
  by_cases h1 : a = who <;> by_cases h2 : q = pid <;>
    simp only [upd, h1, h2, ite_true, ite_false, and_self, and_true, and_false, true_and, false_and]

theorem loadRecord_some (r p : Pool) (h : loadRecord r = some p) : p = r ∧ 0 < r.a ∧ 0 < r.b ∧ 0 < r.s := by
  unfold loadRecord newBasePoolWithShares at h
  split at h
  · cases h
  split at h
  · cases h
  cases h
  exact ⟨rfl, by omega, by omega, by omega⟩

theorem loadRecord_valid (r : Pool) (ha : 0 < r.a) (hb : 0 < r.b) (hs : 0 < r.s) : loadRecord r = some r := by
  unfold loadRecord newBasePoolWithShares
  rw [if_neg (by omega), if_neg (by omega)]

/-- `types.PoolID` orders the two denominations -/
theorem poolId_cases (x y : Nat) (hne : x ≠ y) :
    (poolId x y).lo ≠ (poolId x y).hi ∧
    ((x = (poolId x y).lo ∧ y = (poolId x y).hi ∧ ¬ y < x) ∨
     (x = (poolId x y).hi ∧ y = (poolId x y).lo ∧ y < x)) := by
  unfold poolId
  by_cases h : y < x
  · rw [if_pos h]; exact ⟨by show y ≠ x; omega, Or.inr ⟨rfl, rfl, h⟩⟩
  · rw [if_neg h]; exact ⟨by show x ≠ y; omega, Or.inl ⟨rfl, rfl, h⟩⟩

theorem poolId_comm (x y : Nat) (hne : x ≠ y) : poolId x y = poolId y x := by
  unfold poolId
  by_cases h : y < x
  · have h' : ¬ x < y := by omega
    simp only [h, h', ite_true, ite_false]
  · have h' : x < y := by omega
    simp only [h, h', ite_true, ite_false]

/-- the record a missing pool stands for -/
def recOr0 (r : Option Pool) : Pool := r.getD ⟨0, 0, 0⟩

theorem resv_some_sub (pid : PoolId) (r : Option Pool) (p' : Pool) (d : Denom) (x y : Int)
    (ha : p'.a = (recOr0 r).a + x) (hb : p'.b = (recOr0 r).b + y) :
    resv pid (some p') d - resv pid r d = (if pid.lo = d then x else 0) + (if pid.hi = d then y else 0) := by
  cases r with
  | none =>
    simp only [recOr0, Option.getD] at ha hb
    simp only [resv, ha, hb]; split <;> split <;> omega
  | some r0 =>
    simp only [recOr0, Option.getD] at ha hb
    simp only [resv, ha, hb]; split <;> split <;> omega

theorem totalShares_eq (r : Option Pool) : totalShares r = (recOr0 r).s := by
  cases r <;> rfl

/-- the pool part of `Deposit` -/
theorem depositPool_spec (prm : Params) (pid : PoolId) (rec : Option Pool) (xLo xHi : Int)
    (p' : Pool) (dLo dHi sh : Int)
    (hv : ∀ r, rec = some r → 0 < r.a ∧ 0 < r.b ∧ 0 < r.s)
    (h : depositPool prm pid rec xLo xHi = .ok (p', dLo, dHi, sh)) :
    p'.a = (recOr0 rec).a + dLo ∧ p'.b = (recOr0 rec).b + dHi ∧ p'.s = (recOr0 rec).s + sh ∧
    0 ≤ sh ∧ 0 ≤ dLo ∧ 0 ≤ dHi ∧ dLo ≤ xLo ∧ dHi ≤ xHi ∧
    (recOr0 rec).a * p'.s ≤ p'.a * (recOr0 rec).s ∧ (recOr0 rec).b * p'.s ≤ p'.b * (recOr0 rec).s ∧
    (rec = none → prm.allowed pid = true) := by
  unfold depositPool at h
  split at h
  · rename_i r
    obtain ⟨ra, rb, rs⟩ := hv r rfl
    rw [loadRecord_valid r ra rb rs] at h
    simp only [] at h
    split at h
    · cases h
    · rename_i v hv'
      cases h
      obtain ⟨e1, e2, e3, -, -, a0, a1, b0, b1, s0, k1, k2⟩ :=
        addLiquidity_spec r p' xLo xHi dLo dHi sh ra rb (by omega) hv'
      obtain ⟨m1, m2⟩ := addLiquidity_monotone r p' xLo xHi dLo dHi sh ra rb (by omega) hv'
      exact ⟨e1, e2, e3, s0, a0, b0, a1, b1, m1, m2, fun hn => by cases hn⟩
  · split at h
    · cases h
    · rename_i hal
      unfold newBasePool at h
      split at h
      · cases h
      · rename_i hpos
        cases h
        split at hpos
        · cases hpos
        · rename_i hp
          cases hpos
          simp only [recOr0, Option.getD]
          have := initialShares_nonneg xLo xHi
          refine ⟨by omega, by omega, by omega, this, by omega, by omega, by omega, by omega,
            by simp, by simp, fun _ => by simpa using hal⟩

/-- everything a successful `Deposit` did, in one statement (the other theorems are read off it) -/
theorem deposit_ok (M : Addr) (prm : Params) (s s' : KSt) (who : Addr) (dA : Denom) (xA : Int)
    (dB : Denom) (xB : Int) (slip : Dec) (hwM : who ≠ M)
    (hvalid : ∀ pid p, s.pool pid = some p → 0 < p.a ∧ 0 < p.b ∧ 0 < p.s)
    (hok : deposit M prm s who dA xA dB xB slip = .ok s') :
    ∃ (p' : Pool) (depLo depHi sh : Int),
      let pid := poolId dA dB
      let old := recOr0 (s.pool pid)
      let depA := if dB < dA then depHi else depLo
      let depB := if dB < dA then depLo else depHi
      dA ≠ dB ∧ 0 < xA ∧ 0 < xB ∧
      p'.a = old.a + depLo ∧ p'.b = old.b + depHi ∧ p'.s = old.s + sh ∧
      0 < sh ∧ 0 < depLo ∧ 0 < depHi ∧ depA ≤ xA ∧ depB ≤ xB ∧
      old.a * p'.s ≤ p'.a * old.s ∧ old.b * p'.s ≤ p'.b * old.s ∧
      (s.pool pid = none → prm.allowed pid = true) ∧
      0 < p'.a ∧ 0 < p'.b ∧ 0 < p'.s ∧
      (Dec.sub (Dec.max (Dec.quo (Dec.ofInt xA) (Dec.ofInt depA)) (Dec.quo (Dec.ofInt xB) (Dec.ofInt depB))) Dec.one).m ≤ slip.m ∧
      (∀ q, s'.pool q = if q = pid then some p' else s.pool q) ∧
      (∀ a q, s'.sh a q = if a = who ∧ q = pid then s.sh who pid + sh else s.sh a q) ∧
      (∀ a e, s'.bal a e = s.bal a e
          - (if a = who ∧ e = pid.lo then depLo else 0) + (if a = M ∧ e = pid.lo then depLo else 0)
          - (if a = who ∧ e = pid.hi then depHi else 0) + (if a = M ∧ e = pid.hi then depHi else 0)) ∧
      depLo ≤ s.bal who pid.lo ∧ depHi ≤ s.bal who pid.hi := by
  unfold deposit at hok
  split at hok
  · cases hok
  rename_i hvb
  have hne : dA ≠ dB := fun e => hvb (Or.inr (Or.inr (Or.inl e)))
  have hxA : 0 < xA := by omega
  have hxB : 0 < xB := by omega
  obtain ⟨hlh, hcase⟩ := poolId_cases dA dB hne
  simp only [] at hok
  split at hok
  · cases hok
  · cases hok
  rename_i p' depLo depHi sh hdp
  obtain ⟨e1, e2, e3, s0, a0, b0, a1, b1, m1, m2, hal⟩ :=
    depositPool_spec prm _ _ _ _ p' depLo depHi sh (hvalid _) hdp
  generalize hdA : (if dB < dA then depHi else depLo) = depA at hok
  generalize hdB : (if dB < dA then depLo else depHi) = depB at hok
  split at hok
  · cases hok
  rename_i hz
  split at hok
  · cases hok
  rename_i hsz
  split at hok
  · cases hok
  rename_i hslip
  split at hok
  · cases hok
  rename_i s1 hup
  split at hok
  · cases hok
  rename_i s2 hus
  split at hok
  · cases hok
  rename_i b1' hc1
  split at hok
  · cases hok
  rename_i b2' hc2
  cases hok
  obtain ⟨u1, u2, u3, u4⟩ := updatePool_eff s s1 _ p' hup
  obtain ⟨v1, v2, v3, v4⟩ := updateShares_eff s1 s2 who _ _ hus
  obtain ⟨c1, c1'⟩ := sendCoin_eff _ _ _ _ _ _ hc1
  obtain ⟨c2, c2'⟩ := sendCoin_eff _ _ _ _ _ _ hc2
  have hold : 0 ≤ (recOr0 (s.pool (poolId dA dB))).s ∧ 0 ≤ (recOr0 (s.pool (poolId dA dB))).a ∧
      0 ≤ (recOr0 (s.pool (poolId dA dB))).b := by
    cases hr : s.pool (poolId dA dB) with
    | none => simp [recOr0]
    | some r => have := hvalid _ r hr; simp only [recOr0, Option.getD]; omega
  have hsh0 : 0 < sh := by omega
  have hps : p'.s ≠ 0 := by omega
  obtain ⟨pa, pb, ps⟩ := u4 hps
  have hdLo : 0 < depLo ∧ 0 < depHi := by
    rcases hcase with ⟨_, _, hc⟩ | ⟨_, _, hc⟩ <;> simp only [hc, ite_true, ite_false] at hdA hdB <;> omega
  refine ⟨p', depLo, depHi, sh, ?_⟩
  simp only [hdA, hdB]
  refine ⟨hne, hxA, hxB, e1, e2, e3, hsh0, hdLo.1, hdLo.2, ?_, ?_, m1, m2, hal,
    pa, pb, ps, by omega, ?_, ?_, ?_, ?_, ?_⟩
  · rcases hcase with ⟨_, _, hc⟩ | ⟨_, _, hc⟩ <;> simp only [hc, ite_true, ite_false] at a1 b1 hdA hdB <;> omega
  · rcases hcase with ⟨_, _, hc⟩ | ⟨_, _, hc⟩ <;> simp only [hc, ite_true, ite_false] at a1 b1 hdA hdB <;> omega
  · intro q; rw [v1, u3 q]; simp only [hps, ite_false]
  · intro a q; rw [v4 a q, u1]
  · intro a e
    rw [c2' a e, c1' a e, v2, u2]
  · rw [v2, u2] at c1; exact c1
  · have := c1' who (poolId dA dB).hi
    rw [v2, u2] at this
    have hh : ¬ (poolId dA dB).hi = (poolId dA dB).lo := fun e => hlh e.symm
    simp only [hh, and_false, ite_false] at this
    omega

theorem deposit_inv (M : Addr) (accts : List Addr) (pids : List PoolId) (prm : Params) (s s' : KSt)
    (who : Addr) (dA : Denom) (xA : Int) (dB : Denom) (xB : Int) (slip : Dec)
    (hnA : accts.Nodup) (hnP : pids.Nodup) (hw : who ∈ accts) (hwM : who ≠ M)
    (hallow : ∀ pid, prm.allowed pid = true → pid ∈ pids)
    (h : Inv M accts pids s) (hok : deposit M prm s who dA xA dB xB slip = .ok s') :
    Inv M accts pids s' := by
  obtain ⟨p', depLo, depHi, sh, hx⟩ := deposit_ok M prm s s' who dA xA dB xB slip hwM h.valid hok
  simp only [] at hx
  obtain ⟨hne, -, -, e1, e2, e3, s0, a0, b0, -, -, -, -, hal, pa, pb, ps, -, hpool, hsh, hbal, -, -⟩ := hx
  have hp : poolId dA dB ∈ pids := by
    cases hr : s.pool (poolId dA dB) with
    | none => exact hallow _ (hal hr)
    | some r => exact h.known _ (by rw [hr]; simp)
  have hMw : ¬ M = who := fun e => hwM e.symm
  refine inv_transition M accts pids s s' hnA hnP who (poolId dA dB) hw hp h (some p')
    (s.sh who (poolId dA dB) + sh) hpool hsh (by have := h.shNonneg who (poolId dA dB); omega)
    (by intro p hp'; cases hp'; exact ⟨pa, pb, ps⟩) ?_ ?_
  · intro d
    have r := resv_some_sub (poolId dA dB) (s.pool (poolId dA dB)) p' d depLo depHi e1 e2
    rw [hbal M d]
    simp only [hMw, false_and, ite_false, true_and]
    have q1 : (d = (poolId dA dB).lo) ↔ ((poolId dA dB).lo = d) := eq_comm
    have q2 : (d = (poolId dA dB).hi) ↔ ((poolId dA dB).hi = d) := eq_comm
    simp only [q1, q2]
    omega
  · rw [totalShares_eq, totalShares_eq]; simp only [recOr0, Option.getD] at e3 ⊢; omega

/-- everything a successful `Withdraw` did -/
theorem withdraw_ok (M : Addr) (s s' : KSt) (who : Addr) (shares : Int) (dA : Denom) (minA : Int)
    (dB : Denom) (minB : Int)
    (hok : withdraw M s who shares dA minA dB minB = .ok s') :
    ∃ (r p' : Pool) (wLo wHi : Int),
      let pid := poolId dA dB
      let wA := if dB < dA then wHi else wLo
      let wB := if dB < dA then wLo else wHi
      dA ≠ dB ∧ s.pool pid = some r ∧ 0 < r.a ∧ 0 < r.b ∧ 0 < r.s ∧
      0 < shares ∧ shares ≤ s.sh who pid ∧
      removeLiquidity r shares = some (p', wLo, wHi) ∧
      wA ≠ 0 ∧ wB ≠ 0 ∧ minA ≤ wA ∧ minB ≤ wB ∧ 0 < minA ∧ 0 < minB ∧
      (∀ q, s'.pool q = if q = pid then (if p'.s = 0 then none else some p') else s.pool q) ∧
      (p'.s ≠ 0 → 0 < p'.a ∧ 0 < p'.b ∧ 0 < p'.s) ∧
      (∀ a q, s'.sh a q = if a = who ∧ q = pid then s.sh who pid - shares else s.sh a q) ∧
      (∀ a e, s'.bal a e = s.bal a e
          - (if a = M ∧ e = pid.lo then wLo else 0) + (if a = who ∧ e = pid.lo then wLo else 0)
          - (if a = M ∧ e = pid.hi then wHi else 0) + (if a = who ∧ e = pid.hi then wHi else 0)) := by
  unfold withdraw at hok
  split at hok
  · cases hok
  rename_i hvb
  have hne : dA ≠ dB := fun e => hvb (Or.inr (Or.inr (Or.inr e)))
  have hs0 : 0 < shares := by omega
  have hmA : 0 < minA := by omega
  have hmB : 0 < minB := by omega
  simp only [] at hok
  split at hok
  · cases hok
  rename_i hown
  split at hok
  · cases hok
  rename_i hle
  split at hok
  · cases hok
  rename_i r hr
  split at hok
  · cases hok
  rename_i p hload
  obtain ⟨rfl, ra, rb, rs⟩ := loadRecord_some r p hload
  split at hok
  · cases hok
  rename_i p' wLo wHi hrem
  generalize hwA : (if dB < dA then wHi else wLo) = wA at hok
  generalize hwB : (if dB < dA then wLo else wHi) = wB at hok
  split at hok
  · cases hok
  rename_i hz
  split at hok
  · cases hok
  rename_i hmin
  split at hok
  · cases hok
  rename_i s1 hup
  split at hok
  · cases hok
  rename_i s2 hus
  split at hok
  · cases hok
  rename_i b1' hc1
  split at hok
  · cases hok
  rename_i b2' hc2
  cases hok
  obtain ⟨u1, u2, u3, u4⟩ := updatePool_eff s s1 _ p' hup
  obtain ⟨v1, v2, v3, v4⟩ := updateShares_eff s1 s2 who _ _ hus
  obtain ⟨c1, c1'⟩ := sendCoin_eff _ _ _ _ _ _ hc1
  obtain ⟨c2, c2'⟩ := sendCoin_eff _ _ _ _ _ _ hc2
  refine ⟨p, p', wLo, wHi, ?_⟩
  simp only [hwA, hwB]
  refine ⟨hne, hr, ra, rb, rs, hs0, by omega, hrem, by omega, by omega, by omega, by omega, hmA, hmB,
    ?_, u4, ?_, ?_⟩
  · intro q; rw [v1, u3 q]
  · intro a q; rw [v4 a q, u1]
  · intro a e; rw [c2' a e, c1' a e, v2, u2]

theorem withdraw_inv (M : Addr) (accts : List Addr) (pids : List PoolId) (s s' : KSt)
    (who : Addr) (shares : Int) (dA : Denom) (minA : Int) (dB : Denom) (minB : Int)
    (hnA : accts.Nodup) (hnP : pids.Nodup) (hw : who ∈ accts) (hwM : who ≠ M)
    (h : Inv M accts pids s) (hok : withdraw M s who shares dA minA dB minB = .ok s') :
    Inv M accts pids s' := by
  obtain ⟨r, p', wLo, wHi, hx⟩ := withdraw_ok M s s' who shares dA minA dB minB hok
  simp only [] at hx
  obtain ⟨hne, hr, ra, rb, rs, hs0, hle, hrem, -, -, -, -, -, -, hpool, hval, hsh, hbal⟩ := hx
  obtain ⟨e1, e2, e3, -, hsle, w0, w1, w2, w3, -, -, -, -⟩ :=
    removeLiquidity_spec r p' shares wLo wHi (by omega) (by omega) hrem
  have hp : poolId dA dB ∈ pids := h.known _ (by rw [hr]; simp)
  have hMw : ¬ M = who := fun e => hwM e.symm
  refine inv_transition M accts pids s s' hnA hnP who (poolId dA dB) hw hp h
    (if p'.s = 0 then none else some p') (s.sh who (poolId dA dB) - shares) hpool hsh (by omega) ?_ ?_ ?_
  · intro p hp'
    split at hp'
    · cases hp'
    · rename_i hz; cases hp'; exact hval hz
  · intro d
    rw [hbal M d, hr]
    simp only [hMw, false_and, ite_false, true_and]
    have q1 : (d = (poolId dA dB).lo) ↔ ((poolId dA dB).lo = d) := eq_comm
    have q2 : (d = (poolId dA dB).hi) ↔ ((poolId dA dB).hi = d) := eq_comm
    simp only [q1, q2]
    by_cases hz : p'.s = 0
    · have hall : shares = r.s := by omega
      subst hall
      obtain ⟨a1, a2, -⟩ := removeLiquidity_all r p' wLo wHi (by omega) (by omega) hrem
      simp only [hz, ite_true, resv]
      split <;> split <;> omega
    · simp only [hz, ite_false, resv]
      split <;> split <;> omega
  · rw [hr]
    by_cases hz : p'.s = 0
    · simp only [hz, ite_true, totalShares]; omega
    · simp only [hz, ite_false, totalShares]; omega

theorem commitSwap_ok (M : Addr) (s s' : KSt) (pid : PoolId) (p' : Pool) (who : Addr)
    (dIn : Denom) (xIn : Int) (dOut : Denom) (xOut : Int)
    (h : commitSwap M s pid p' who dIn xIn dOut xOut = .ok s') :
    0 < p'.a ∧ 0 < p'.b ∧ 0 < p'.s ∧
    (∀ q, s'.pool q = if q = pid then some p' else s.pool q) ∧ s'.sh = s.sh ∧
    (∀ a e, s'.bal a e = s.bal a e
        - (if a = who ∧ e = dIn then xIn else 0) + (if a = M ∧ e = dIn then xIn else 0)
        - (if a = M ∧ e = dOut then xOut else 0) + (if a = who ∧ e = dOut then xOut else 0)) ∧
    xIn ≤ s.bal who dIn := by
  unfold commitSwap at h
  split at h
  · cases h
  rename_i s1 hset
  split at h
  · cases h
  rename_i b1 hc1
  split at h
  · cases h
  rename_i b2 hc2
  cases h
  obtain ⟨u1, u2, u3, pa, pb, ps⟩ := setPool_eff s s1 pid p' hset
  obtain ⟨c1, c1'⟩ := sendCoin_eff _ _ _ _ _ _ hc1
  obtain ⟨c2, c2'⟩ := sendCoin_eff _ _ _ _ _ _ hc2
  refine ⟨pa, pb, ps, u3, u1, ?_, by rw [u2] at c1; exact c1⟩
  intro a e; show b2 a e = _; rw [c2' a e, c1' a e, u2]

/-- the swap a keeper swap message performs, by direction -/
def poolSwapIn (r : Pool) (pid : PoolId) (dIn : Denom) (xIn : Int) (fee : Dec) : Option (Pool × Int × Int) :=
  if dIn = pid.lo then swapExactAForB r xIn fee else swapExactBForA r xIn fee

def poolSwapOut (r : Pool) (pid : PoolId) (dOut : Denom) (xOut : Int) (fee : Dec) : Option (Pool × Int × Int) :=
  if dOut = pid.lo then swapBForExactA r xOut fee else swapAForExactB r xOut fee

/-- everything a successful `SwapExactForTokens` did -/
theorem swapExact_ok (M : Addr) (prm : Params) (s s' : KSt) (who : Addr) (dIn : Denom) (xIn : Int)
    (dOut : Denom) (minOut : Int) (slip : Dec)
    (hok : swapExactForTokens M prm s who dIn xIn dOut minOut slip = .ok s') :
    ∃ (r p' : Pool) (out fv : Int),
      let pid := poolId dIn dOut
      dIn ≠ dOut ∧ 0 < xIn ∧ 0 < minOut ∧ s.pool pid = some r ∧ 0 < r.a ∧ 0 < r.b ∧ 0 < r.s ∧
      poolSwapIn r pid dIn xIn prm.fee = some (p', out, fv) ∧ out ≠ 0 ∧
      slippageOk (Dec.quo (Dec.ofInt out) (Dec.ofInt minOut)) slip = true ∧
      0 < p'.a ∧ 0 < p'.b ∧ 0 < p'.s ∧
      (∀ q, s'.pool q = if q = pid then some p' else s.pool q) ∧ s'.sh = s.sh ∧
      (∀ a e, s'.bal a e = s.bal a e
          - (if a = who ∧ e = dIn then xIn else 0) + (if a = M ∧ e = dIn then xIn else 0)
          - (if a = M ∧ e = dOut then out else 0) + (if a = who ∧ e = dOut then out else 0)) ∧
      xIn ≤ s.bal who dIn := by
  unfold swapExactForTokens at hok
  split at hok
  · cases hok
  rename_i hvb
  have hne : dIn ≠ dOut := fun e => hvb (Or.inr (Or.inr (Or.inl e)))
  simp only [] at hok
  split at hok
  · cases hok
  rename_i r hr
  split at hok
  · cases hok
  rename_i p hload
  obtain ⟨rfl, ra, rb, rs⟩ := loadRecord_some r p hload
  split at hok
  · cases hok
  rename_i p' out fv hsw
  split at hok
  · cases hok
  rename_i hz
  split at hok
  · cases hok
  rename_i hsl
  obtain ⟨pa, pb, ps, hpool, hsh, hbal, hle⟩ := commitSwap_ok _ _ _ _ _ _ _ _ _ _ hok
  refine ⟨p, p', out, fv, hne, by omega, by omega, hr, ra, rb, rs, hsw, hz, by simpa using hsl,
    pa, pb, ps, hpool, hsh, hbal, hle⟩

/-- everything a successful `SwapForExactTokens` did -/
theorem swapForExact_ok (M : Addr) (prm : Params) (s s' : KSt) (who : Addr) (dIn : Denom) (maxIn : Int)
    (dOut : Denom) (xOut : Int) (slip : Dec)
    (hok : swapForExactTokens M prm s who dIn maxIn dOut xOut slip = .ok s') :
    ∃ (r p' : Pool) (inp fv : Int),
      let pid := poolId dIn dOut
      dIn ≠ dOut ∧ 0 < maxIn ∧ 0 < xOut ∧ s.pool pid = some r ∧ 0 < r.a ∧ 0 < r.b ∧ 0 < r.s ∧
      poolSwapOut r pid dOut xOut prm.fee = some (p', inp, fv) ∧
      slippageOk (Dec.quo (Dec.ofInt maxIn) (Dec.ofInt (inp - fv))) slip = true ∧
      0 < p'.a ∧ 0 < p'.b ∧ 0 < p'.s ∧
      (∀ q, s'.pool q = if q = pid then some p' else s.pool q) ∧ s'.sh = s.sh ∧
      (∀ a e, s'.bal a e = s.bal a e
          - (if a = who ∧ e = dIn then inp else 0) + (if a = M ∧ e = dIn then inp else 0)
          - (if a = M ∧ e = dOut then xOut else 0) + (if a = who ∧ e = dOut then xOut else 0)) ∧
      inp ≤ s.bal who dIn := by
  unfold swapForExactTokens at hok
  split at hok
  · cases hok
  rename_i hvb
  have hne : dIn ≠ dOut := fun e => hvb (Or.inr (Or.inr (Or.inl e)))
  simp only [] at hok
  split at hok
  · cases hok
  rename_i r hr
  split at hok
  · cases hok
  rename_i p hload
  obtain ⟨rfl, ra, rb, rs⟩ := loadRecord_some r p hload
  generalize hres : (if dOut = (poolId dIn dOut).lo then p.a else p.b) = rsv at hok
  split at hok
  · cases hok
  rename_i hge
  split at hok
  · cases hok
  rename_i p' inp fv hsw
  split at hok
  · cases hok
  rename_i hsl
  obtain ⟨pa, pb, ps, hpool, hsh, hbal, hle⟩ := commitSwap_ok _ _ _ _ _ _ _ _ _ _ hok
  refine ⟨p, p', inp, fv, hne, by omega, by omega, hr, ra, rb, rs, hsw, by simpa using hsl,
    pa, pb, ps, hpool, hsh, hbal, hle⟩

/-- the accounting and the guarantees of the pool-level swap behind a keeper swap, by direction:
    reserves of the token paid in / paid out before and after -/
def rIn (p : Pool) (pid : PoolId) (dIn : Denom) : Int := if dIn = pid.lo then p.a else p.b
def rOut (p : Pool) (pid : PoolId) (dIn : Denom) : Int := if dIn = pid.lo then p.b else p.a

theorem poolSwapIn_spec (r p' : Pool) (dIn dOut : Nat) (xIn : Int) (fee : Dec) (out fv : Int)
    (hne : dIn ≠ dOut) (ha : 0 < r.a) (hb : 0 < r.b)
    (h : poolSwapIn r (poolId dIn dOut) dIn xIn fee = some (p', out, fv)) :
    SwapSpec (rIn r (poolId dIn dOut) dIn) (rOut r (poolId dIn dOut) dIn)
             (rIn p' (poolId dIn dOut) dIn) (rOut p' (poolId dIn dOut) dIn) xIn out fv fee.m ∧ p'.s = r.s := by
  unfold poolSwapIn at h
  unfold rIn rOut
  split at h
  · rename_i hd; rw [if_pos hd, if_pos hd, if_pos hd, if_pos hd]
    exact swapExactAForB_spec r p' xIn fee out fv ha hb h
  · rename_i hd; rw [if_neg hd, if_neg hd, if_neg hd, if_neg hd]
    exact swapExactBForA_spec r p' xIn fee out fv ha hb h

theorem poolSwapOut_spec (r p' : Pool) (dIn dOut : Nat) (xOut : Int) (fee : Dec) (inp fv : Int)
    (hne : dIn ≠ dOut) (ha : 0 < r.a) (hb : 0 < r.b)
    (h : poolSwapOut r (poolId dIn dOut) dOut xOut fee = some (p', inp, fv)) :
    SwapSpec (rIn r (poolId dIn dOut) dIn) (rOut r (poolId dIn dOut) dIn)
             (rIn p' (poolId dIn dOut) dIn) (rOut p' (poolId dIn dOut) dIn) inp xOut fv fee.m ∧ p'.s = r.s := by
  obtain ⟨hlh, hcase⟩ := poolId_cases dIn dOut hne
  unfold poolSwapOut at h
  unfold rIn rOut
  rcases hcase with ⟨h1, h2, -⟩ | ⟨h1, h2, -⟩
  · have hd : ¬ dOut = (poolId dIn dOut).lo := fun e => hne (h1.trans e.symm)
    rw [if_neg hd] at h
    rw [if_pos h1, if_pos h1, if_pos h1, if_pos h1]
    exact swapAForExactB_spec r p' xOut fee inp fv ha hb h
  · have hd : ¬ dIn = (poolId dIn dOut).lo := fun e => hne (e.trans h2.symm)
    rw [if_pos h2] at h
    rw [if_neg hd, if_neg hd, if_neg hd, if_neg hd]
    exact swapBForExactA_spec r p' xOut fee inp fv ha hb h

theorem swap_inv_core (M : Addr) (accts : List Addr) (pids : List PoolId) (s s' : KSt)
    (who : Addr) (dIn dOut : Nat) (r p' : Pool) (x y fv f : Int)
    (hnA : accts.Nodup) (hnP : pids.Nodup) (hw : who ∈ accts) (hwM : who ≠ M)
    (h : Inv M accts pids s) (hne : dIn ≠ dOut) (hr : s.pool (poolId dIn dOut) = some r)
    (sp : SwapSpec (rIn r (poolId dIn dOut) dIn) (rOut r (poolId dIn dOut) dIn)
                   (rIn p' (poolId dIn dOut) dIn) (rOut p' (poolId dIn dOut) dIn) x y fv f)
    (hs : p'.s = r.s) (pa : 0 < p'.a) (pb : 0 < p'.b) (ps : 0 < p'.s)
    (hpool : ∀ q, s'.pool q = if q = poolId dIn dOut then some p' else s.pool q)
    (hsh : s'.sh = s.sh)
    (hbal : ∀ a e, s'.bal a e = s.bal a e
          - (if a = who ∧ e = dIn then x else 0) + (if a = M ∧ e = dIn then x else 0)
          - (if a = M ∧ e = dOut then y else 0) + (if a = who ∧ e = dOut then y else 0)) :
    Inv M accts pids s' := by
  have hp : poolId dIn dOut ∈ pids := h.known _ (by rw [hr]; simp)
  have hMw : ¬ M = who := fun e => hwM e.symm
  obtain ⟨hlh, hcase⟩ := poolId_cases dIn dOut hne
  refine inv_transition M accts pids s s' hnA hnP who (poolId dIn dOut) hw hp h (some p')
    (s.sh who (poolId dIn dOut)) hpool ?_ (h.shNonneg _ _)
    (by intro p hp'; cases hp'; exact ⟨pa, pb, ps⟩) ?_ ?_
  · intro a q; rw [hsh]; split
    · rename_i hc; rw [hc.1, hc.2]
    · rfl
  · intro d
    rw [hbal M d, hr]
    simp only [hMw, false_and, ite_false, true_and]
    have i1 := sp.in_added
    have i2 := sp.out_taken
    unfold rIn at i1
    unfold rOut at i2
    rcases hcase with ⟨h1, h2, -⟩ | ⟨h1, h2, -⟩
    · rw [if_pos h1, if_pos h1] at i1
      rw [if_pos h1, if_pos h1] at i2
      simp only [resv, ← h1, ← h2]
      have q1 : (d = dIn) ↔ (dIn = d) := eq_comm
      have q2 : (d = dOut) ↔ (dOut = d) := eq_comm
      simp only [q1, q2]
      split <;> split <;> omega
    · have hd : ¬ dIn = (poolId dIn dOut).lo := fun e => hne (e.trans h2.symm)
      rw [if_neg hd, if_neg hd] at i1
      rw [if_neg hd, if_neg hd] at i2
      simp only [resv, ← h1, ← h2]
      have q1 : (d = dIn) ↔ (dIn = d) := eq_comm
      have q2 : (d = dOut) ↔ (dOut = d) := eq_comm
      simp only [q1, q2]
      split <;> split <;> omega
  · rw [hr]; simp only [totalShares]; omega

theorem swapExact_inv (M : Addr) (accts : List Addr) (pids : List PoolId) (prm : Params) (s s' : KSt)
    (who : Addr) (dIn : Denom) (xIn : Int) (dOut : Denom) (minOut : Int) (slip : Dec)
    (hnA : accts.Nodup) (hnP : pids.Nodup) (hw : who ∈ accts) (hwM : who ≠ M)
    (h : Inv M accts pids s) (hok : swapExactForTokens M prm s who dIn xIn dOut minOut slip = .ok s') :
    Inv M accts pids s' := by
  obtain ⟨r, p', out, fv, hx⟩ := swapExact_ok M prm s s' who dIn xIn dOut minOut slip hok
  simp only [] at hx
  obtain ⟨hne, -, -, hr, ra, rb, rs, hsw, -, -, pa, pb, ps, hpool, hsh, hbal, -⟩ := hx
  obtain ⟨sp, hs⟩ := poolSwapIn_spec r p' dIn dOut xIn prm.fee out fv hne ra rb hsw
  exact swap_inv_core M accts pids s s' who dIn dOut r p' xIn out fv prm.fee.m hnA hnP hw hwM h hne hr sp hs
    pa pb ps hpool hsh hbal

theorem swapForExact_inv (M : Addr) (accts : List Addr) (pids : List PoolId) (prm : Params) (s s' : KSt)
    (who : Addr) (dIn : Denom) (maxIn : Int) (dOut : Denom) (xOut : Int) (slip : Dec)
    (hnA : accts.Nodup) (hnP : pids.Nodup) (hw : who ∈ accts) (hwM : who ≠ M)
    (h : Inv M accts pids s) (hok : swapForExactTokens M prm s who dIn maxIn dOut xOut slip = .ok s') :
    Inv M accts pids s' := by
  obtain ⟨r, p', inp, fv, hx⟩ := swapForExact_ok M prm s s' who dIn maxIn dOut xOut slip hok
  simp only [] at hx
  obtain ⟨hne, -, -, hr, ra, rb, rs, hsw, -, pa, pb, ps, hpool, hsh, hbal, -⟩ := hx
  obtain ⟨sp, hs⟩ := poolSwapOut_spec r p' dIn dOut xOut prm.fee inp fv hne ra rb hsw
  exact swap_inv_core M accts pids s s' who dIn dOut r p' inp xOut fv prm.fee.m hnA hnP hw hwM h hne hr sp hs
    pa pb ps hpool hsh hbal

/-- every successful keeper message preserves the invariant -/
theorem kstep_inv (M : Addr) (accts : List Addr) (pids : List PoolId) (prm : Params) (s s' : KSt) (op : Op)
    (hnA : accts.Nodup) (hnP : pids.Nodup) (hw : op.who ∈ accts) (hwM : op.who ≠ M)
    (hallow : ∀ pid, prm.allowed pid = true → pid ∈ pids)
    (h : Inv M accts pids s) (hok : kstep M prm s op = .ok s') : Inv M accts pids s' := by
  cases op with
  | deposit who dA xA dB xB slip => exact deposit_inv M accts pids prm s s' who dA xA dB xB slip hnA hnP hw hwM hallow h hok
  | withdraw who sh dA mA dB mB => exact withdraw_inv M accts pids s s' who sh dA mA dB mB hnA hnP hw hwM h hok
  | swapExact who dI xI dO mO slip => exact swapExact_inv M accts pids prm s s' who dI xI dO mO slip hnA hnP hw hwM h hok
  | swapForExact who dI mI dO xO slip => exact swapForExact_inv M accts pids prm s s' who dI mI dO xO slip hnA hnP hw hwM h hok

/-- … and so does every history -/
theorem runOps_inv (M : Addr) (accts : List Addr) (pids : List PoolId)
    (hnA : accts.Nodup) (hnP : pids.Nodup) (ops : List (Params × Op)) :
    ∀ s, (∀ o ∈ ops, o.2.who ∈ accts ∧ o.2.who ≠ M ∧ ∀ pid, o.1.allowed pid = true → pid ∈ pids) →
      Inv M accts pids s → Inv M accts pids (runOps M s ops) := by
  induction ops with
  | nil => intro s _ h; exact h
  | cons o rest ih =>
    intro s ho h
    obtain ⟨prm, op⟩ := o
    have hrest : ∀ o ∈ rest, o.2.who ∈ accts ∧ o.2.who ≠ M ∧ ∀ pid, o.1.allowed pid = true → pid ∈ pids :=
      fun o ho' => ho o (List.mem_cons_of_mem _ ho')
    obtain ⟨h1, h2, h3⟩ := ho (prm, op) List.mem_cons_self
    unfold runOps
    split
    · rename_i s' hs
      exact ih s' hrest (kstep_inv M accts pids prm s s' op hnA hnP h1 h2 h3 h hs)
    · exact ih s hrest h

/-! ### the keeper's panics are unreachable from states satisfying the invariant -/

theorem sumL_nonneg {α : Type} (l : List α) (f : α → Int) (h : ∀ x, 0 ≤ f x) : 0 ≤ sumL l f := by
  induction l with
  | nil => exact Int.le_refl 0
  | cons x xs ih => rw [sumL_cons]; have := h x; omega

theorem sumL_ge_mem {α : Type} (l : List α) (f : α → Int) (h : ∀ x, 0 ≤ f x) (a : α) (ha : a ∈ l) :
    f a ≤ sumL l f := by
  induction l with
  | nil => cases ha
  | cons x xs ih =>
    rw [sumL_cons]
    cases ha with
    | head => have := sumL_nonneg xs f h; omega
    | tail _ h' => have := ih h'; have := h x; omega

theorem resv_nonneg (s : KSt) (hvalid : ∀ pid p, s.pool pid = some p → 0 < p.a ∧ 0 < p.b ∧ 0 < p.s)
    (d : Denom) (pid : PoolId) : 0 ≤ resv pid (s.pool pid) d := by
  cases hr : s.pool pid with
  | none => simp [resv]
  | some r =>
    obtain ⟨ra, rb, -⟩ := hvalid pid r hr
    simp only [resv]; split <;> split <;> omega

/-- the module account holds at least the reserves of any one pool -/
theorem module_covers (M : Addr) (accts : List Addr) (pids : List PoolId) (s : KSt)
    (h : Inv M accts pids s) (pid : PoolId) (r : Pool) (hr : s.pool pid = some r) (hlh : pid.lo ≠ pid.hi) :
    r.a ≤ s.bal M pid.lo ∧ r.b ≤ s.bal M pid.hi := by
  have hp : pid ∈ pids := h.known pid (by rw [hr]; simp)
  have hhl : ¬ pid.hi = pid.lo := fun e => hlh e.symm
  have h0 : resv pid (s.pool pid) pid.lo = r.a := by rw [hr]; simp [resv, hhl]
  have h1 : resv pid (s.pool pid) pid.hi = r.b := by rw [hr]; simp [resv, hlh]
  constructor
  · rw [h.custody pid.lo, ← h0]
    exact sumL_ge_mem pids (fun q => resv q (s.pool q) pid.lo) (fun q => resv_nonneg s h.valid pid.lo q) pid hp
  · rw [h.custody pid.hi, ← h1]
    exact sumL_ge_mem pids (fun q => resv q (s.pool q) pid.hi) (fun q => resv_nonneg s h.valid pid.hi q) pid hp

/-- a depositor never owns more shares than the pool has, and a pool with a depositor exists -/
theorem owned_le_total (M : Addr) (accts : List Addr) (pids : List PoolId) (s : KSt)
    (h : Inv M accts pids s) (who : Addr) (hw : who ∈ accts) (pid : PoolId) :
    s.sh who pid ≤ totalShares (s.pool pid) := by
  rw [h.shares pid]
  exact sumL_ge_mem accts (fun a => s.sh a pid) (fun a => h.shNonneg a pid) who hw

theorem addLiquidity_total (p : Pool) (da db : Int) (ha : 0 < p.a) (hb : 0 < p.b) (hda : 0 < da)
    (hdb : 0 < db) : ∃ r, addLiquidity p da db = some r := by
  unfold addLiquidity
  rw [if_neg (by omega), if_neg (by omega), if_neg (by omega), if_neg (by omega), if_neg (by omega)]
  exact ⟨_, rfl⟩

theorem removeLiquidity_total (p : Pool) (sh : Int) (ha : 0 ≤ p.a) (hb : 0 ≤ p.b) (hs : 0 < sh)
    (hle : sh ≤ p.s) : ∃ r, removeLiquidity p sh = some r := by
  unfold removeLiquidity shareValue
  rw [if_neg (by omega), if_neg (by omega)]
  simp only []
  have hna : 0 ≤ p.a * sh := Int.mul_nonneg ha (by omega)
  have hnb : 0 ≤ p.b * sh := Int.mul_nonneg hb (by omega)
  rw [tquo_eq _ _ hna (by omega), tquo_eq _ _ hnb (by omega)]
  have h1 : p.a * sh / p.s * p.s ≤ p.a * sh := Int.ediv_mul_le _ (by omega)
  have h2 : p.b * sh / p.s * p.s ≤ p.b * sh := Int.ediv_mul_le _ (by omega)
  have k1 : p.a * sh ≤ p.a * p.s := Int.mul_le_mul_of_nonneg_left hle ha
  have k2 : p.b * sh ≤ p.b * p.s := Int.mul_le_mul_of_nonneg_left hle hb
  have l1 : p.a * sh / p.s ≤ p.a := Int.le_of_mul_le_mul_right (by omega) (show 0 < p.s by omega)
  have l2 : p.b * sh / p.s ≤ p.b := Int.le_of_mul_le_mul_right (by omega) (show 0 < p.s by omega)
  rw [if_neg (by omega), if_neg (by omega)]
  exact ⟨_, rfl⟩

theorem deposit_no_panic (M : Addr) (accts : List Addr) (pids : List PoolId) (prm : Params) (s : KSt)
    (who : Addr) (dA : Denom) (xA : Int) (dB : Denom) (xB : Int) (slip : Dec)
    (h : Inv M accts pids s) : deposit M prm s who dA xA dB xB slip ≠ .panic := by
  intro hp
  unfold deposit at hp
  split at hp
  · cases hp
  rename_i hvb
  have hxA : 0 < xA := by omega
  have hxB : 0 < xB := by omega
  simp only [] at hp
  generalize hxLo : (if dB < dA then xB else xA) = xLo at hp
  generalize hxHi : (if dB < dA then xA else xB) = xHi at hp
  have hLo : 0 < xLo := by rw [← hxLo]; split <;> omega
  have hHi : 0 < xHi := by rw [← hxHi]; split <;> omega
  split at hp
  · cases hp
  · -- depositPool panics only if AddLiquidity does
    rename_i hdp
    unfold depositPool at hdp
    split at hdp
    · rename_i r hr
      obtain ⟨ra, rb, rs⟩ := h.valid _ r hr
      rw [loadRecord_valid r ra rb rs] at hdp
      obtain ⟨v, hv⟩ := addLiquidity_total r xLo xHi ra rb hLo hHi
      simp only [] at hdp
      rw [hv] at hdp
      cases hdp
    · split at hdp
      · cases hdp
      · split at hdp <;> cases hdp
  · rename_i p' depLo depHi sh hdp
    obtain ⟨e1, e2, e3, s0, a0, b0, a1, b1, m1, m2, hal⟩ :=
      depositPool_spec prm _ _ _ _ p' depLo depHi sh (h.valid _) hdp
    have hold : 0 ≤ (recOr0 (s.pool (poolId dA dB))).s ∧ 0 ≤ (recOr0 (s.pool (poolId dA dB))).a ∧
        0 ≤ (recOr0 (s.pool (poolId dA dB))).b := by
      cases hr : s.pool (poolId dA dB) with
      | none => simp [recOr0]
      | some r => have := h.valid _ r hr; simp only [recOr0, Option.getD]; omega
    generalize hdA : (if dB < dA then depHi else depLo) = depA at hp
    generalize hdB : (if dB < dA then depLo else depHi) = depB at hp
    split at hp
    · cases hp
    rename_i hz
    have hd : 0 < depLo ∧ 0 < depHi := by
      rw [← hdA, ← hdB] at hz
      by_cases hc : dB < dA <;> simp only [hc, ite_true, ite_false] at hz <;> omega
    split at hp
    · cases hp
    rename_i hsz
    split at hp
    · cases hp
    split at hp
    · -- updatePool cannot panic: the new record is valid
      rename_i hup
      unfold updatePool setPool at hup
      rw [if_neg (by omega), if_neg (by omega)] at hup
      cases hup
    rename_i s1 hup
    obtain ⟨u1, -, -, -⟩ := updatePool_eff s s1 _ p' hup
    split at hp
    · rename_i hus
      unfold updateShares at hus
      have := h.shNonneg who (poolId dA dB)
      rw [u1, if_neg (by omega)] at hus
      cases hus
    split at hp
    · cases hp
    split at hp <;> cases hp

theorem withdraw_no_panic (M : Addr) (accts : List Addr) (pids : List PoolId) (s : KSt)
    (who : Addr) (shares : Int) (dA : Denom) (minA : Int) (dB : Denom) (minB : Int)
    (hw : who ∈ accts) (hwM : who ≠ M)
    (h : Inv M accts pids s) : withdraw M s who shares dA minA dB minB ≠ .panic := by
  intro hp
  unfold withdraw at hp
  split at hp
  · cases hp
  rename_i hvb
  have hne : dA ≠ dB := fun e => hvb (Or.inr (Or.inr (Or.inr e)))
  obtain ⟨hlh, -⟩ := poolId_cases dA dB hne
  have hs0 : 0 < shares := by omega
  simp only [] at hp
  generalize hpid : poolId dA dB = pid at *
  split at hp
  · cases hp
  rename_i hown
  split at hp
  · cases hp
  rename_i hle
  have hot := owned_le_total M accts pids s h who hw pid
  have hon := h.shNonneg who pid
  split at hp
  · -- the pool of a depositor exists
    rename_i hr; rw [hr] at hot; simp only [totalShares] at hot; omega
  rename_i r hr
  obtain ⟨ra, rb, rs⟩ := h.valid _ r hr
  rw [hr] at hot; simp only [totalShares] at hot
  rw [loadRecord_valid r ra rb rs] at hp
  simp only [] at hp
  obtain ⟨⟨p', wLo, wHi⟩, hrem⟩ := removeLiquidity_total r shares (by omega) (by omega) hs0 (by omega)
  rw [hrem] at hp
  simp only [] at hp
  obtain ⟨e1, e2, e3, -, -, w0, w1, w2, w3, -, -, -, -⟩ :=
    removeLiquidity_spec r p' shares wLo wHi (by omega) (by omega) hrem
  obtain ⟨cA, cB⟩ := module_covers M accts pids s h pid r hr hlh
  generalize hwA : (if dB < dA then wHi else wLo) = wA at hp
  generalize hwB : (if dB < dA then wLo else wHi) = wB at hp
  split at hp
  · cases hp
  split at hp
  · cases hp
  split at hp
  · rename_i hup
    unfold updatePool setPool at hup
    split at hup
    · cases hup
    · rename_i hz
      obtain ⟨pa, pb⟩ := removeLiquidity_partial_pos r p' shares wLo wHi ra rb (by omega) hrem
      rw [if_neg (by omega)] at hup
      cases hup
  rename_i s1 hup
  obtain ⟨u1, u2, -, -⟩ := updatePool_eff s s1 _ p' hup
  split at hp
  · rename_i hus
    unfold updateShares at hus
    rw [if_neg (by omega)] at hus
    cases hus
  rename_i s2 hus
  obtain ⟨-, v2, -, -⟩ := updateShares_eff s1 s2 who _ _ hus
  split at hp
  · -- the module account can pay: custody
    rename_i hc1
    unfold sendCoin at hc1
    rw [v2, u2, if_neg (by omega)] at hc1
    cases hc1
  rename_i b1 hc1
  obtain ⟨-, c1'⟩ := sendCoin_eff _ _ _ _ _ _ hc1
  split at hp
  · rename_i hc2
    unfold sendCoin at hc2
    have := c1' M pid.hi
    have hhl : ¬ pid.hi = pid.lo := fun e => hlh e.symm
    simp only [hhl, and_false, ite_false] at this
    rw [v2, u2] at this
    rw [if_neg (by omega)] at hc2
    cases hc2
  · cases hp

theorem commitSwap_no_panic (M : Addr) (s : KSt) (pid : PoolId) (p' : Pool) (who : Addr)
    (dIn : Denom) (xIn : Int) (dOut : Denom) (xOut : Int)
    (pa : 0 < p'.a) (pb : 0 < p'.b) (ps : 0 < p'.s) (hne : dIn ≠ dOut) (hwM : who ≠ M)
    (hcov : xOut ≤ s.bal M dOut) :
    commitSwap M s pid p' who dIn xIn dOut xOut ≠ .panic := by
  intro hp
  unfold commitSwap at hp
  split at hp
  · rename_i hset
    unfold setPool at hset
    rw [if_neg (by omega)] at hset
    cases hset
  rename_i s1 hset
  obtain ⟨-, u2, -, -, -, -⟩ := setPool_eff s s1 pid p' hset
  split at hp
  · cases hp
  rename_i b1 hc1
  obtain ⟨-, c1'⟩ := sendCoin_eff _ _ _ _ _ _ hc1
  split at hp
  · rename_i hc2
    unfold sendCoin at hc2
    have := c1' M dOut
    have hMw : ¬ M = who := fun e => hwM e.symm
    have hne' : ¬ dOut = dIn := fun e => hne e.symm
    simp only [hMw, hne', and_false, false_and, ite_false] at this
    rw [u2] at this
    rw [if_neg (by omega)] at hc2
    cases hc2
  · cases hp

/-- the reserve of the token paid out is covered by the module account -/
theorem module_covers_out (M : Addr) (accts : List Addr) (pids : List PoolId) (s : KSt)
    (h : Inv M accts pids s) (dIn dOut : Nat) (hne : dIn ≠ dOut) (r : Pool)
    (hr : s.pool (poolId dIn dOut) = some r) : rOut r (poolId dIn dOut) dIn ≤ s.bal M dOut := by
  obtain ⟨hlh, hcase⟩ := poolId_cases dIn dOut hne
  obtain ⟨cA, cB⟩ := module_covers M accts pids s h _ r hr hlh
  unfold rOut
  rcases hcase with ⟨h1, h2, -⟩ | ⟨h1, h2, -⟩
  · rw [if_pos h1]; rw [← h2] at cB; exact cB
  · have hd : ¬ dIn = (poolId dIn dOut).lo := fun e => hne (e.trans h2.symm)
    rw [if_neg hd]; rw [← h2] at cA; exact cA

theorem swap_valid_after (r p' : Pool) (pid : PoolId) (dIn : Denom) (x y fv f : Int)
    (ra : 0 < r.a) (rb : 0 < r.b) (rs : 0 < r.s)
    (sp : SwapSpec (rIn r pid dIn) (rOut r pid dIn) (rIn p' pid dIn) (rOut p' pid dIn) x y fv f)
    (hs : p'.s = r.s) : 0 < p'.a ∧ 0 < p'.b ∧ 0 < p'.s ∧ y < rOut r pid dIn := by
  have i1 := sp.in_added; have i2 := sp.out_taken; have i3 := sp.inp_pos; have i4 := sp.out_left
  unfold rIn at i1
  unfold rOut at i2 i4 ⊢
  by_cases hd : dIn = pid.lo
  · rw [if_pos hd, if_pos hd] at i1 i2
    rw [if_pos hd] at i4 ⊢
    omega
  · rw [if_neg hd, if_neg hd] at i1 i2
    rw [if_neg hd] at i4 ⊢
    omega

theorem swapExact_no_panic (M : Addr) (accts : List Addr) (pids : List PoolId) (prm : Params) (s : KSt)
    (who : Addr) (dIn : Denom) (xIn : Int) (dOut : Denom) (minOut : Int) (slip : Dec)
    (hwM : who ≠ M) (hf0 : 0 ≤ prm.fee.m) (hf1 : prm.fee.m < P)
    (h : Inv M accts pids s) : swapExactForTokens M prm s who dIn xIn dOut minOut slip ≠ .panic := by
  intro hp
  unfold swapExactForTokens at hp
  split at hp
  · cases hp
  rename_i hvb
  have hne : dIn ≠ dOut := fun e => hvb (Or.inr (Or.inr (Or.inl e)))
  have hx : 0 < xIn := by omega
  simp only [] at hp
  split at hp
  · cases hp
  rename_i r hr
  obtain ⟨ra, rb, rs⟩ := h.valid _ r hr
  rw [loadRecord_valid r ra rb rs] at hp
  simp only [] at hp
  have hcov := module_covers_out M accts pids s h dIn dOut hne r hr
  have htot : ∃ v, poolSwapIn r (poolId dIn dOut) dIn xIn prm.fee = some v := by
    unfold poolSwapIn; split
    · exact swapExactAForB_total r xIn prm.fee ra rb hx hf0 hf1
    · exact swapExactBForA_total r xIn prm.fee ra rb hx hf0 hf1
  obtain ⟨⟨p', out, fv⟩, hsw⟩ := htot
  obtain ⟨sp, hs⟩ := poolSwapIn_spec r p' dIn dOut xIn prm.fee out fv hne ra rb hsw
  obtain ⟨pa, pb, ps, hlt⟩ := swap_valid_after r p' _ dIn xIn out fv prm.fee.m ra rb rs sp hs
  unfold poolSwapIn at hsw
  rw [hsw] at hp
  simp only [] at hp
  split at hp
  · cases hp
  split at hp
  · cases hp
  exact commitSwap_no_panic M s _ p' who dIn xIn dOut out pa pb ps hne hwM (by omega) hp

theorem swapForExact_no_panic (M : Addr) (accts : List Addr) (pids : List PoolId) (prm : Params) (s : KSt)
    (who : Addr) (dIn : Denom) (maxIn : Int) (dOut : Denom) (xOut : Int) (slip : Dec)
    (hwM : who ≠ M) (hf0 : 0 ≤ prm.fee.m) (hf1 : prm.fee.m < P)
    (h : Inv M accts pids s) : swapForExactTokens M prm s who dIn maxIn dOut xOut slip ≠ .panic := by
  intro hp
  unfold swapForExactTokens at hp
  split at hp
  · cases hp
  rename_i hvb
  have hne : dIn ≠ dOut := fun e => hvb (Or.inr (Or.inr (Or.inl e)))
  have hx : 0 < xOut := by omega
  simp only [] at hp
  split at hp
  · cases hp
  rename_i r hr
  obtain ⟨ra, rb, rs⟩ := h.valid _ r hr
  rw [loadRecord_valid r ra rb rs] at hp
  simp only [] at hp
  have hcov := module_covers_out M accts pids s h dIn dOut hne r hr
  have htot : xOut < (if dOut = (poolId dIn dOut).lo then r.a else r.b) →
      ∃ v, poolSwapOut r (poolId dIn dOut) dOut xOut prm.fee = some v := by
    intro hge
    unfold poolSwapOut; split
    · rename_i hd; rw [if_pos hd] at hge
      exact swapBForExactA_total r xOut prm.fee ra rb hx (by omega) hf0 hf1
    · rename_i hd; rw [if_neg hd] at hge
      exact swapAForExactB_total r xOut prm.fee ra rb hx (by omega) hf0 hf1
  generalize hrsv : (if dOut = (poolId dIn dOut).lo then r.a else r.b) = rsv at hp htot
  split at hp
  · cases hp
  rename_i hge
  obtain ⟨⟨p', inp, fv⟩, hsw⟩ := htot (by omega)
  obtain ⟨sp, hs⟩ := poolSwapOut_spec r p' dIn dOut xOut prm.fee inp fv hne ra rb hsw
  obtain ⟨pa, pb, ps, hlt⟩ := swap_valid_after r p' _ dIn inp xOut fv prm.fee.m ra rb rs sp hs
  unfold poolSwapOut at hsw
  rw [hsw] at hp
  simp only [] at hp
  split at hp
  · cases hp
  exact commitSwap_no_panic M s _ p' who dIn inp dOut xOut pa pb ps hne hwM (by omega) hp

/-- no keeper message can panic on a state satisfying the invariant -/
theorem kstep_no_panic (M : Addr) (accts : List Addr) (pids : List PoolId) (prm : Params) (s : KSt) (op : Op)
    (hw : op.who ∈ accts) (hwM : op.who ≠ M) (hf0 : 0 ≤ prm.fee.m) (hf1 : prm.fee.m < P)
    (h : Inv M accts pids s) : kstep M prm s op ≠ .panic := by
  cases op with
  | deposit who dA xA dB xB slip => exact deposit_no_panic M accts pids prm s who dA xA dB xB slip h
  | withdraw who sh dA mA dB mB => exact withdraw_no_panic M accts pids s who sh dA mA dB mB hw hwM h
  | swapExact who dI xI dO mO slip => exact swapExact_no_panic M accts pids prm s who dI xI dO mO slip hwM hf0 hf1 h
  | swapForExact who dI mI dO xO slip => exact swapForExact_no_panic M accts pids prm s who dI mI dO xO slip hwM hf0 hf1 h

theorem Dec_max_comm (a b : Dec) : Dec.max a b = Dec.max b a := by
  unfold Dec.max
  by_cases h1 : a.m < b.m
  · have h2 : ¬ b.m < a.m := by omega
    simp only [h1, h2, ite_true, ite_false]
  · by_cases h2 : b.m < a.m
    · simp only [h1, h2, ite_true, ite_false]
    · simp only [h1, h2, ite_false]
      cases a; cases b; simp only [Dec.mk.injEq] at *; omega

/-- the order in which a deposit message names its two coins does not matter -/
theorem deposit_comm (M : Addr) (prm : Params) (s : KSt) (who : Addr) (dA : Nat) (xA : Int)
    (dB : Nat) (xB : Int) (slip : Dec) :
    deposit M prm s who dA xA dB xB slip = deposit M prm s who dB xB dA xA slip := by
  unfold deposit
  by_cases hv : ¬ 0 < xA ∨ ¬ 0 < xB ∨ dA = dB ∨ slip.m < 0
  · have hv' : ¬ 0 < xB ∨ ¬ 0 < xA ∨ dB = dA ∨ slip.m < 0 := by
      rcases hv with h | h | h | h
      · exact Or.inr (Or.inl h)
      · exact Or.inl h
      · exact Or.inr (Or.inr (Or.inl h.symm))
      · exact Or.inr (Or.inr (Or.inr h))
    rw [if_pos hv, if_pos hv']
  · have hv' : ¬ (¬ 0 < xB ∨ ¬ 0 < xA ∨ dB = dA ∨ slip.m < 0) := by
      intro h; apply hv
      rcases h with h | h | h | h
      · exact Or.inr (Or.inl h)
      · exact Or.inl h
      · exact Or.inr (Or.inr (Or.inl h.symm))
      · exact Or.inr (Or.inr (Or.inr h))
    rw [if_neg hv, if_neg hv']
    have hne : dA ≠ dB := fun e => hv (Or.inr (Or.inr (Or.inl e)))
    rw [poolId_comm dB dA (fun e => hne e.symm)]
    by_cases hlt : dB < dA
    · have hlt' : ¬ dA < dB := by omega
      simp only [hlt, hlt', ite_true, ite_false]
      simp only [Dec_max_comm (Dec.quo (Dec.ofInt xB) _)]
      cases hdp : depositPool prm (poolId dA dB) (s.pool (poolId dA dB)) xB xA with
      | err => rfl
      | panic => rfl
      | ok v =>
        obtain ⟨p', depLo, depHi, shares⟩ := v
        simp only []
        by_cases hz : depHi = 0 ∨ depLo = 0
        · have hz' : depLo = 0 ∨ depHi = 0 := hz.symm
          rw [if_pos hz, if_pos hz']
        · have hz' : ¬ (depLo = 0 ∨ depHi = 0) := fun h => hz h.symm
          rw [if_neg hz, if_neg hz']
    · have hlt' : dA < dB := by omega
      simp only [hlt, hlt', ite_true, ite_false]
      simp only [Dec_max_comm (Dec.quo (Dec.ofInt xB) _)]
      cases hdp : depositPool prm (poolId dA dB) (s.pool (poolId dA dB)) xA xB with
      | err => rfl
      | panic => rfl
      | ok v =>
        obtain ⟨p', depLo, depHi, shares⟩ := v
        simp only []
        by_cases hz : depHi = 0 ∨ depLo = 0
        · have hz' : depLo = 0 ∨ depHi = 0 := hz.symm
          rw [if_pos hz, if_pos hz']
        · have hz' : ¬ (depLo = 0 ∨ depHi = 0) := fun h => hz h.symm
          rw [if_neg hz, if_neg hz']

/-- … nor does the order in which a withdraw message names its two minimum coins -/
theorem withdraw_comm (M : Addr) (s : KSt) (who : Addr) (shares : Int) (dA : Nat) (minA : Int)
    (dB : Nat) (minB : Int) :
    withdraw M s who shares dA minA dB minB = withdraw M s who shares dB minB dA minA := by
  unfold withdraw
  by_cases hv : ¬ 0 < shares ∨ ¬ 0 < minA ∨ ¬ 0 < minB ∨ dA = dB
  · have hv' : ¬ 0 < shares ∨ ¬ 0 < minB ∨ ¬ 0 < minA ∨ dB = dA := by
      rcases hv with h | h | h | h
      · exact Or.inl h
      · exact Or.inr (Or.inr (Or.inl h))
      · exact Or.inr (Or.inl h)
      · exact Or.inr (Or.inr (Or.inr h.symm))
    rw [if_pos hv, if_pos hv']
  · have hv' : ¬ (¬ 0 < shares ∨ ¬ 0 < minB ∨ ¬ 0 < minA ∨ dB = dA) := by
      intro h; apply hv
      rcases h with h | h | h | h
      · exact Or.inl h
      · exact Or.inr (Or.inr (Or.inl h))
      · exact Or.inr (Or.inl h)
      · exact Or.inr (Or.inr (Or.inr h.symm))
    rw [if_neg hv, if_neg hv']
    have hne : dA ≠ dB := fun e => hv (Or.inr (Or.inr (Or.inr e)))
    rw [poolId_comm dB dA (fun e => hne e.symm)]
    simp only []
    by_cases h1 : s.sh who (poolId dA dB) = 0
    · rw [if_pos h1, if_pos h1]
    rw [if_neg h1, if_neg h1]
    by_cases h2 : shares > s.sh who (poolId dA dB)
    · rw [if_pos h2, if_pos h2]
    rw [if_neg h2, if_neg h2]
    cases hr : s.pool (poolId dA dB) with
    | none => rfl
    | some r =>
      simp only []
      cases hl : loadRecord r with
      | none => rfl
      | some p =>
        simp only []
        cases hrem : removeLiquidity p shares with
        | none => rfl
        | some v =>
          obtain ⟨p', wLo, wHi⟩ := v
          simp only []
          by_cases hlt : dB < dA
          · have hlt' : ¬ dA < dB := by omega
            simp only [hlt, hlt', ite_true, ite_false]
            by_cases hz : wHi = 0 ∨ wLo = 0
            · have hz' : wLo = 0 ∨ wHi = 0 := hz.symm
              rw [if_pos hz, if_pos hz']
            · have hz' : ¬ (wLo = 0 ∨ wHi = 0) := fun h => hz h.symm
              rw [if_neg hz, if_neg hz']
              by_cases hm : wHi < minA ∨ wLo < minB
              · have hm' : wLo < minB ∨ wHi < minA := hm.symm
                rw [if_pos hm, if_pos hm']
              · have hm' : ¬ (wLo < minB ∨ wHi < minA) := fun h => hm h.symm
                rw [if_neg hm, if_neg hm']
          · have hlt' : dA < dB := by omega
            simp only [hlt, hlt', ite_true, ite_false]
            by_cases hz : wLo = 0 ∨ wHi = 0
            · have hz' : wHi = 0 ∨ wLo = 0 := hz.symm
              rw [if_pos hz, if_pos hz']
            · have hz' : ¬ (wHi = 0 ∨ wLo = 0) := fun h => hz h.symm
              rw [if_neg hz, if_neg hz']
              by_cases hm : wLo < minA ∨ wHi < minB
              · have hm' : wHi < minB ∨ wLo < minA := hm.symm
                rw [if_pos hm, if_pos hm']
              · have hm' : ¬ (wHi < minB ∨ wLo < minA) := fun h => hm h.symm
                rw [if_neg hm, if_neg hm']

/-! ### liquidity providers can always exit (no parameter is consulted by `Withdraw`) -/

/-- On a state satisfying the invariant, a withdrawal of shares the account owns whose share value meets the
    message's own (positive) minimums cannot be refused: the result is `.ok`.  `withdraw` takes no `Params`
    argument at all — in particular the allowed-pools list is not consulted, so de-listing a pool that holds
    liquidity never locks its depositors in. -/
theorem withdraw_available (M : Addr) (accts : List Addr) (pids : List PoolId) (s : KSt)
    (who : Addr) (shares : Int) (dA : Denom) (minA : Int) (dB : Denom) (minB : Int)
    (hw : who ∈ accts) (hwM : who ≠ M) (h : Inv M accts pids s)
    (hne : dA ≠ dB) (hs0 : 0 < shares) (hmA : 0 < minA) (hmB : 0 < minB)
    (hown : shares ≤ s.sh who (poolId dA dB))
    (r : Pool) (hr : s.pool (poolId dA dB) = some r)
    (hvA : minA ≤ (if dB < dA then r.b else r.a) * shares / r.s)
    (hvB : minB ≤ (if dB < dA then r.a else r.b) * shares / r.s) :
    ∃ s', withdraw M s who shares dA minA dB minB = .ok s' := by
  cases hres : withdraw M s who shares dA minA dB minB with
  | ok s' => exact ⟨s', rfl⟩
  | panic => exact absurd hres (withdraw_no_panic M accts pids s who shares dA minA dB minB hw hwM h)
  | err =>
    exfalso
    unfold withdraw at hres
    split at hres
    · rename_i hvb
      rcases hvb with hx | hx | hx | hx
      · exact hx hs0
      · exact hx hmA
      · exact hx hmB
      · exact hne hx
    simp only [] at hres
    generalize hpid : poolId dA dB = pid at *
    split at hres
    · rename_i h0; omega
    split at hres
    · rename_i hgt; omega
    obtain ⟨ra, rb, rs⟩ := h.valid _ r hr
    have hot := owned_le_total M accts pids s h who hw pid
    rw [hr] at hot; simp only [totalShares] at hot
    rw [hr] at hres
    simp only [] at hres
    rw [loadRecord_valid r ra rb rs] at hres
    simp only [] at hres
    obtain ⟨⟨p', wLo, wHi⟩, hrem⟩ := removeLiquidity_total r shares (by omega) (by omega) hs0 (by omega)
    rw [hrem] at hres
    simp only [] at hres
    obtain ⟨-, -, -, -, -, -, -, -, -, -, -, eLo, eHi⟩ :=
      removeLiquidity_spec r p' shares wLo wHi (by omega) (by omega) hrem
    have hA : minA ≤ (if dB < dA then wHi else wLo) := by
      by_cases hc : dB < dA
      · simp only [hc, ite_true] at hvA ⊢; omega
      · simp only [hc, ite_false] at hvA ⊢; omega
    have hB : minB ≤ (if dB < dA then wLo else wHi) := by
      by_cases hc : dB < dA
      · simp only [hc, ite_true] at hvB ⊢; omega
      · simp only [hc, ite_false] at hvB ⊢; omega
    generalize hwA : (if dB < dA then wHi else wLo) = wA at hres hA
    generalize hwB : (if dB < dA then wLo else wHi) = wB at hres hB
    split at hres
    · rename_i hz; omega
    split at hres
    · rename_i hm; omega
    split at hres
    · cases hres
    split at hres
    · cases hres
    split at hres
    · cases hres
    split at hres
    · cases hres
    · cases hres

end KV.SW
