/-
  Helper lemmas for C12, part 4: the governance tally (app/tally_handler.go).
  The total counted power is split per validator; for a validator of the handler's set, what is counted for its
  voting delegators and derivative holders is bounded by the deductions, and what the validator votes with itself is
  its shares minus the deductions, so together at most its tokens (up to half a 10^-18 unit per rounding).
-/
import KavaVerif.Proofs.LiquidStep
set_option linter.unusedSimpArgs false
set_option linter.unusedVariables false
namespace KV.Liquid
open KV

/-! ### sums over validator indices -/

theorem sumTo_bump (n : Nat) (f : Nat → Int) (v : Nat) (d : Int) (h : v < n) : sumTo n (bump f v d) = sumTo n f + d := by
  induction n with
  | zero => omega
  | succ m ih =>
    simp only [sumTo]
    by_cases hv : v = m
    · subst hv
      have : sumTo v (bump f v d) = sumTo v f := by
        clear ih h
        have gen : ∀ k, k ≤ v → sumTo k (bump f v d) = sumTo k f := by
          intro k hk
          induction k with
          | zero => rfl
          | succ j ihj =>
            simp only [sumTo]
            have : ¬ j = v := by omega
            rw [ihj (by omega)]; simp only [bump, this, ite_false]
        exact gen v (Nat.le_refl v)
      rw [this]; simp only [bump, ite_true]; omega
    · have hne : ¬ m = v := fun e => hv e.symm
      rw [ih (by omega)]; simp only [bump, hne, ite_false]; omega

theorem sumTo_le (n : Nat) (f g : Nat → Int) (h : ∀ v, v < n → f v ≤ g v) : sumTo n f ≤ sumTo n g := by
  induction n with
  | zero => simp [sumTo]
  | succ m ih =>
    simp only [sumTo]
    have := ih (fun v hv => h v (by omega))
    have := h m (by omega)
    omega

theorem sumTo_add (n : Nat) (f g : Nat → Int) : sumTo n (fun v => f v + g v) = sumTo n f + sumTo n g := by
  induction n with
  | zero => simp [sumTo]
  | succ m ih => simp only [sumTo, ih]; omega

theorem sumTo_const_one (n : Nat) : sumTo n (fun _ => 1) = n := by
  induction n with
  | zero => simp [sumTo]
  | succ m ih => simp only [sumTo, ih]; omega

theorem sumTo_mul (n : Nat) (f : Nat → Int) (c : Int) : sumTo n (fun v => c * f v) = c * sumTo n f := by
  induction n with
  | zero => simp [sumTo]
  | succ m ih => simp only [sumTo, ih]; rw [Int.mul_add]

theorem tvAt_bonded_lt (vals : List TVal) (v : Nat) (h : (tvAt vals v).bonded = true) : v < vals.length := by
  unfold tvAt at h
  split at h
  · rename_i tv hv
    exact (List.getElem?_eq_some_iff.mp hv).1
  · cases h

/-! ### voting power of shares and of derivative units -/

theorem sharePower_bound (tv : TVal) (sh : Dec) (hsh : 0 ≤ sh.m) (hT : 0 ≤ tv.tokens) (hS : 0 < tv.shares.m) :
    0 ≤ (sharePower tv sh).m ∧ 2 * tv.shares.m * (sharePower tv sh).m ≤ 2 * sh.m * tv.tokens * P + tv.shares.m := by
  unfold sharePower
  have hm : 0 ≤ (sh.mulInt tv.tokens).m := Int.mul_nonneg hsh hT
  rw [quo_m_nonneg _ _ hm hS]
  have e : (sh.mulInt tv.tokens).m = sh.m * tv.tokens := rfl
  rw [e]
  have h1 : 0 ≤ sh.m * tv.tokens * P * P := Int.mul_nonneg (Int.mul_nonneg (Int.mul_nonneg hsh hT) (by decide)) (by decide)
  generalize hN : sh.m * tv.tokens * P * P = N at h1
  have hq0 : 0 ≤ N / tv.shares.m := Int.ediv_nonneg h1 (by omega)
  have hqS : N / tv.shares.m * tv.shares.m ≤ N := Int.ediv_mul_le N (by omega)
  have hb := (chopRoundNonneg_bound (N / tv.shares.m) hq0).1
  have h0 := chopRoundNonneg_nonneg (N / tv.shares.m) hq0
  refine ⟨h0, ?_⟩
  generalize chopRoundNonneg (N / tv.shares.m) = p at *
  generalize N / tv.shares.m = q at *
  generalize tv.shares.m = S at *
  have h3 : (2 * (p * P)) * S ≤ (2 * q + P) * S := Int.mul_le_mul_of_nonneg_right (by omega) (by omega)
  have h4 : P * (2 * S * p) ≤ P * (2 * sh.m * tv.tokens * P + S) := by grind
  exact Int.le_of_mul_le_mul_left h4 (by decide)

theorem stakedTok_bound (tv : TVal) (amt : Int) (ha : 0 ≤ amt) (hT : 0 ≤ tv.tokens) (hS : 0 < tv.shares.m) :
    0 ≤ stakedTok tv amt ∧ tv.shares.m * (stakedTok tv amt * P) ≤ amt * P * tv.tokens * P := by
  unfold stakedTok Dec.truncateInt Dec.quoTruncate Dec.mulInt Dec.ofInt
  simp only []
  have h1 : 0 ≤ amt * P * tv.tokens * P * P :=
    Int.mul_nonneg (Int.mul_nonneg (Int.mul_nonneg (Int.mul_nonneg ha (by decide)) hT) (by decide)) (by decide)
  rw [tquo_nonneg_eq _ _ h1 (by omega)]
  generalize hN : amt * P * tv.tokens * P * P = N at h1
  have hq0 : 0 ≤ N / tv.shares.m := Int.ediv_nonneg h1 (by omega)
  rw [chopTrunc_nonneg_eq _ hq0]
  have hq1 : 0 ≤ N / tv.shares.m / P := Int.ediv_nonneg hq0 (by decide)
  rw [chopTrunc_nonneg_eq _ hq1]
  have hq2 : 0 ≤ N / tv.shares.m / P / P := Int.ediv_nonneg hq1 (by decide)
  refine ⟨hq2, ?_⟩
  have a1 : N / tv.shares.m / P / P * P ≤ N / tv.shares.m / P := Int.ediv_mul_le _ (by decide)
  have a2 : N / tv.shares.m / P * P ≤ N / tv.shares.m := Int.ediv_mul_le _ (by decide)
  have a3 : N / tv.shares.m * tv.shares.m ≤ N := Int.ediv_mul_le _ (by omega)
  generalize N / tv.shares.m / P / P = s at *
  generalize N / tv.shares.m / P = s1 at *
  generalize N / tv.shares.m = s2 at *
  generalize tv.shares.m = S at *
  have b1 : s * P * P ≤ s1 * P := Int.mul_le_mul_of_nonneg_right a1 (by decide)
  have b2 : (s * P * P) * S ≤ s2 * S := Int.mul_le_mul_of_nonneg_right (by omega) (by omega)
  have b3 : P * (S * (s * P)) ≤ P * (amt * P * tv.tokens * P) := by grind
  exact Int.le_of_mul_le_mul_left b3 (by decide)


/-! ### weighted options -/

def resSum (res : Nat → Int) : Int := res 1 + res 2 + res 3 + res 4

def wsum : List (Nat × Dec) → Int
  | [] => 0
  | (_, w) :: t => w.m + wsum t

def mulSum (p : Dec) : List (Nat × Dec) → Int
  | [] => 0
  | (_, w) :: t => (p.mul w).m + mulSum p t

/-- what x/gov's `ValidateBasic` guarantees of a weighted vote: non-negative weights adding up to one,
    no option twice (so at most four entries) -/
def OptsOK (opts : List (Nat × Dec)) : Prop := (∀ ow ∈ opts, 0 ≤ ow.2.m) ∧ wsum opts = P ∧ opts.length ≤ 4

theorem mul_nonneg_m (p w : Dec) (hp : 0 ≤ p.m) (hw : 0 ≤ w.m) : 0 ≤ (p.mul w).m := by
  unfold Dec.mul; exact chopRound_nonneg _ (Int.mul_nonneg hp hw)

theorem resSum_bump (res : Nat → Int) (o : Nat) (d : Int) (hd : 0 ≤ d) : resSum (bump res o d) ≤ resSum res + d := by
  unfold resSum bump
  by_cases h1 : 1 = o <;> by_cases h2 : 2 = o <;> by_cases h3 : 3 = o <;> by_cases h4 : 4 = o <;>
    simp only [h1, h2, h3, h4, ite_true, ite_false] <;> omega

theorem aw_nonneg (p : Dec) (hp : 0 ≤ p.m) (opts : List (Nat × Dec)) :
    ∀ res : Nat → Int, (∀ ow ∈ opts, 0 ≤ ow.2.m) → (∀ o, 0 ≤ res o) → ∀ o, 0 ≤ addWeighted res p opts o := by
  induction opts with
  | nil => intro res _ h o; exact h o
  | cons x t ih =>
    intro res hw h o
    obtain ⟨o', w⟩ := x
    simp only [addWeighted]
    apply ih _ (fun ow hm => hw ow (List.mem_cons_of_mem _ hm))
    intro o''
    unfold bump
    have := mul_nonneg_m p w hp (hw (o', w) List.mem_cons_self)
    have := h o''
    split <;> omega

theorem aw_resSum (p : Dec) (hp : 0 ≤ p.m) (opts : List (Nat × Dec)) :
    ∀ res : Nat → Int, (∀ ow ∈ opts, 0 ≤ ow.2.m) → resSum (addWeighted res p opts) ≤ resSum res + mulSum p opts := by
  induction opts with
  | nil => intro res _; simp [addWeighted, mulSum]
  | cons x t ih =>
    intro res hw
    obtain ⟨o', w⟩ := x
    simp only [addWeighted, mulSum]
    have h1 := ih (bump res o' (p.mul w).m) (fun ow hm => hw ow (List.mem_cons_of_mem _ hm))
    have h2 := resSum_bump res o' (p.mul w).m (mul_nonneg_m p w hp (hw (o', w) List.mem_cons_self))
    omega

theorem mulSum_bound (p : Dec) (hp : 0 ≤ p.m) (opts : List (Nat × Dec)) (hw : ∀ ow ∈ opts, 0 ≤ ow.2.m) :
    2 * P * mulSum p opts ≤ 2 * p.m * wsum opts + opts.length * P := by
  induction opts with
  | nil => simp [mulSum, wsum]
  | cons x t ih =>
    obtain ⟨o', w⟩ := x
    have ih' := ih (fun ow hm => hw ow (List.mem_cons_of_mem _ hm))
    have hw0 : 0 ≤ w.m := hw (o', w) List.mem_cons_self
    simp only [mulSum, wsum, List.length_cons]
    have hx : 0 ≤ p.m * w.m := Int.mul_nonneg hp hw0
    have hb : 2 * ((p.mul w).m * P - p.m * w.m) ≤ P := by
      unfold Dec.mul; simp only []
      rw [chopRound_nonneg_eq _ hx]
      exact (chopRoundNonneg_bound _ hx).1
    have e1 : 2 * P * ((p.mul w).m + mulSum p t) = 2 * ((p.mul w).m * P) + 2 * P * mulSum p t := by grind
    have e2 : 2 * p.m * (w.m + wsum t) = 2 * (p.m * w.m) + 2 * p.m * wsum t := by grind
    have e3 : ((t.length + 1 : Nat) : Int) * P = t.length * P + P := by
      have : ((t.length + 1 : Nat) : Int) = (t.length : Int) + 1 := by omega
      rw [this, Int.add_mul, Int.one_mul]
    rw [e1, e2, e3]; omega

/-- the weighted split of a power `p ≥ 0` adds at most `p` plus half an ulp per option to the results -/
theorem aw_total (p : Dec) (hp : 0 ≤ p.m) (opts : List (Nat × Dec)) (hok : OptsOK opts) (res : Nat → Int) :
    2 * resSum (addWeighted res p opts) ≤ 2 * resSum res + 2 * p.m + 4 := by
  obtain ⟨hw, hs, hl⟩ := hok
  have h1 := aw_resSum p hp opts res hw
  have h2 := mulSum_bound p hp opts hw
  rw [hs] at h2
  have hl' : (opts.length : Int) ≤ 4 := by omega
  have h3 : (opts.length : Int) * P ≤ 4 * P := Int.mul_le_mul_of_nonneg_right hl' (by decide)
  have e1 : P * (2 * mulSum p opts) = 2 * P * mulSum p opts := by rw [← Int.mul_assoc, Int.mul_comm P 2]
  have e2 : P * (2 * p.m + 4) = 2 * p.m * P + 4 * P := by rw [Int.mul_add, Int.mul_comm P (2 * p.m), Int.mul_comm P 4]
  have h4 : P * (2 * mulSum p opts) ≤ P * (2 * p.m + 4) := by rw [e1, e2]; omega
  have := Int.le_of_mul_le_mul_left h4 (by decide)
  omega


/-! ### the invariant of the first loop (over votes) -/

/-- the validators of the handler's set carry non-negative tokens and positive shares -/
def ValsOK (vals : List TVal) : Prop :=
  ∀ v, (tvAt vals v).bonded = true → 0 ≤ (tvAt vals v).tokens ∧ 0 < (tvAt vals v).shares.m

/-- `k` items (delegations, derivative coins) processed so far: the total is split per validator (`pw`), each part
    bounded by the deductions of that validator; `cnt` counts the half-ulp roundings per validator -/
def TInv (vals : List TVal) (a : TAcc) (k : Int) : Prop :=
  ∃ pw cnt : Nat → Int,
    a.total = sumTo vals.length pw ∧ sumTo vals.length cnt ≤ k ∧ (∀ v, 0 ≤ cnt v) ∧
    (∀ v, 0 ≤ pw v ∧ 0 ≤ a.ded v ∧
      (if (tvAt vals v).bonded then
          2 * (tvAt vals v).shares.m * pw v ≤ 2 * a.ded v * (tvAt vals v).tokens * P + cnt v * (tvAt vals v).shares.m
        else pw v = 0)) ∧
    (∀ o, 0 ≤ a.res o) ∧ 2 * resSum a.res ≤ 2 * a.total + 4 * k ∧
    (∀ v, (a.vote v).isEmpty = false → OptsOK (a.vote v))

theorem TInv_init (vals : List TVal) : TInv vals TAcc.init 0 := by
  refine ⟨fun _ => 0, fun _ => 0, ?_, ?_, by intro v; simp, ?_, by intro o; simp [TAcc.init], by simp [TAcc.init, resSum], ?_⟩
  · have : sumTo vals.length (fun _ => (0:Int)) = 0 := by
      have := sumTo_mul vals.length (fun _ => 1) 0
      simp at this; exact this
    simp [TAcc.init, this]
  · have : sumTo vals.length (fun _ => (0:Int)) = 0 := by
      have := sumTo_mul vals.length (fun _ => 1) 0
      simp at this; exact this
    omega
  · intro v; simp only [TAcc.init]
    refine ⟨by omega, by omega, ?_⟩
    split
    · simp
    · trivial
  · intro v h; simp [TAcc.init] at h

theorem delStep_inv (vals : List TVal) (hv : ValsOK vals) (opts : List (Nat × Dec)) (hok : OptsOK opts) (a : TAcc) (k : Int)
    (v : Nat) (sh : Dec) (hsh : 0 ≤ sh.m) (h : TInv vals a k) : TInv vals (delStep vals opts a v sh) (k + 1) := by
  obtain ⟨pw, cnt, h1, h2, h3, h4, h5, h6, h7⟩ := h
  unfold delStep
  by_cases hb : (tvAt vals v).bonded = true
  · rw [if_pos hb]
    obtain ⟨hT, hS⟩ := hv v hb
    have hlt := tvAt_bonded_lt vals v hb
    obtain ⟨hp0, hpb⟩ := sharePower_bound (tvAt vals v) sh hsh hT hS
    refine ⟨bump pw v (sharePower (tvAt vals v) sh).m, bump cnt v 1, ?_, ?_, ?_, ?_, ?_, ?_, h7⟩
    · simp only []; rw [sumTo_bump _ _ _ _ hlt, h1]
    · rw [sumTo_bump _ _ _ _ hlt]; omega
    · intro w; unfold bump; have := h3 w; split <;> omega
    · intro w
      obtain ⟨a1, a2, a3⟩ := h4 w
      simp only []
      by_cases hw : w = v
      · subst hw
        simp only [bump, ite_true, hb]
        rw [if_pos hb] at a3
        refine ⟨by omega, by omega, ?_⟩
        generalize (tvAt vals w).shares.m = S at *
        generalize (tvAt vals w).tokens = T at *
        generalize (sharePower (tvAt vals w) sh).m = p at *
        grind
      · simp only [bump, hw, ite_false]
        exact ⟨a1, a2, a3⟩
    · exact aw_nonneg _ hp0 opts a.res hok.1 h5
    · simp only []
      have := aw_total _ hp0 opts hok a.res
      omega
  · rw [if_neg hb]
    refine ⟨pw, cnt, h1, by omega, h3, h4, h5, by omega, h7⟩

theorem delLoop_inv (vals : List TVal) (hv : ValsOK vals) (opts : List (Nat × Dec)) (hok : OptsOK opts)
    (dels : List (Nat × Dec)) : ∀ (a : TAcc) (k : Int), (∀ x ∈ dels, 0 ≤ x.2.m) → TInv vals a k →
      TInv vals (delLoop vals opts a dels) (k + dels.length) := by
  induction dels with
  | nil => intro a k _ h; simp only [delLoop, List.length_nil]; have : k + ((0:Nat):Int) = k := by omega
           rw [this]; exact h
  | cons x t ih =>
    intro a k hd h
    obtain ⟨v, sh⟩ := x
    simp only [delLoop]
    have h1 := delStep_inv vals hv opts hok a k v sh (hd (v, sh) List.mem_cons_self) h
    have h2 := ih _ (k + 1) (fun y hy => hd y (List.mem_cons_of_mem _ hy)) h1
    have e : k + ((List.length ((v, sh) :: t) : Nat) : Int) = k + 1 + (t.length : Int) := by
      simp only [List.length_cons]; omega
    rw [e]; exact h2


theorem TInv_mono (vals : List TVal) (a : TAcc) (k k' : Int) (hk : k ≤ k') (h : TInv vals a k) : TInv vals a k' := by
  obtain ⟨pw, cnt, h1, h2, h3, h4, h5, h6, h7⟩ := h
  exact ⟨pw, cnt, h1, by omega, h3, h4, h5, by omega, h7⟩

theorem bkStep_inv (g : Cfg) (vals : List TVal) (hv : ValsOK vals) (opts : List (Nat × Dec)) (hok : OptsOK opts)
    (a a' : TAcc) (k : Int) (v : Nat) (amt : Int) (hamt : 0 ≤ amt)
    (hin : (tvAt vals v).bonded = true ∨ g.tallySkipUnbonded = true)
    (h : TInv vals a k) (hs : bkStep g vals opts a v amt = some a') : TInv vals a' (k + 1) := by
  unfold bkStep at hs
  simp only [] at hs
  by_cases hskip : g.tallySkipUnbonded = true ∧ (tvAt vals v).bonded = false
  · rw [if_pos hskip] at hs; cases hs
    exact TInv_mono vals a k (k + 1) (by omega) h
  · rw [if_neg hskip] at hs
    have hb : (tvAt vals v).bonded = true := by
      rcases hin with hb | hg
      · exact hb
      · cases hbb : (tvAt vals v).bonded with
        | true => rfl
        | false => exact absurd ⟨hg, hbb⟩ hskip
    split at hs
    · cases hs
    · split at hs
      · cases hs
      · cases hs
        obtain ⟨pw, cnt, h1, h2, h3, h4, h5, h6, h7⟩ := h
        obtain ⟨hT, hS⟩ := hv v hb
        have hlt := tvAt_bonded_lt vals v hb
        obtain ⟨hs0, hsb⟩ := stakedTok_bound (tvAt vals v) amt hamt hT hS
        have hpm : (Dec.ofInt (stakedTok (tvAt vals v) amt)).m = stakedTok (tvAt vals v) amt * P := rfl
        have hp0 : 0 ≤ (Dec.ofInt (stakedTok (tvAt vals v) amt)).m := by rw [hpm]; exact Int.mul_nonneg hs0 (by decide)
        simp only [hb, ite_true]
        refine ⟨bump pw v (stakedTok (tvAt vals v) amt * P), cnt, ?_, by omega, h3, ?_, ?_, ?_, h7⟩
        · simp only []; rw [sumTo_bump _ _ _ _ hlt, h1, hpm]
        · intro w
          obtain ⟨a1, a2, a3⟩ := h4 w
          simp only []
          by_cases hw : w = v
          · subst hw
            simp only [bump, ite_true, hb]
            rw [if_pos hb] at a3
            have hap : 0 ≤ amt * P := Int.mul_nonneg hamt (by decide)
            refine ⟨by omega, by omega, ?_⟩
            generalize (tvAt vals w).shares.m = S at *
            generalize (tvAt vals w).tokens = T at *
            generalize stakedTok (tvAt vals w) amt = st at *
            grind
          · simp only [bump, hw, ite_false]
            exact ⟨a1, a2, a3⟩
        · exact aw_nonneg _ hp0 opts a.res hok.1 h5
        · simp only []
          have := aw_total _ hp0 opts hok a.res
          rw [hpm] at this ⊢
          omega

theorem bkLoop_inv (g : Cfg) (vals : List TVal) (hv : ValsOK vals) (opts : List (Nat × Dec)) (hok : OptsOK opts)
    (coins : List (Nat × Int)) : ∀ (a a' : TAcc) (k : Int),
      (∀ x ∈ coins, 0 ≤ x.2 ∧ ((tvAt vals x.1).bonded = true ∨ g.tallySkipUnbonded = true)) → TInv vals a k →
      bkLoop g vals opts a coins = some a' → TInv vals a' (k + coins.length) := by
  induction coins with
  | nil => intro a a' k _ h hs; simp only [bkLoop] at hs; cases hs
           simp only [List.length_nil]; have : k + ((0:Nat):Int) = k := by omega
           rw [this]; exact h
  | cons x t ih =>
    intro a a' k hc h hs
    obtain ⟨v, amt⟩ := x
    simp only [bkLoop] at hs
    split at hs
    · cases hs
    · rename_i a1 hs1
      have hx := hc (v, amt) List.mem_cons_self
      have h1 := bkStep_inv g vals hv opts hok a a1 k v amt hx.1 hx.2 h hs1
      have h2 := ih a1 a' (k + 1) (fun y hy => hc y (List.mem_cons_of_mem _ hy)) h1 hs
      have e : k + ((List.length ((v, amt) :: t) : Nat) : Int) = k + 1 + (t.length : Int) := by
        simp only [List.length_cons]; omega
      rw [e]; exact h2


theorem addrBkava_pos (n : Nat) (t : TVote) : ∀ x ∈ addrBkava n t, 0 < x.2 := by
  intro x hx
  unfold addrBkava at hx
  rw [List.mem_filterMap] at hx
  obtain ⟨v, -, hv⟩ := hx
  simp only [] at hv
  split at hv
  · cases hv; assumption
  · cases hv

/-- what the stores guarantee of a vote: options validated by x/gov, non-negative delegation shares; and — the
    hypothesis of the partial theorem, automatic for the repaired code — every derivative the voter holds belongs to
    a validator of the handler's set -/
def VoteOK (g : Cfg) (vals : List TVal) (t : TVote) : Prop :=
  OptsOK t.opts ∧ (∀ x ∈ t.dels, 0 ≤ x.2.m) ∧
  (∀ x ∈ addrBkava vals.length t, (tvAt vals x.1).bonded = true ∨ g.tallySkipUnbonded = true)

/-- number of delegations and derivative coins looked at -/
def itemsOf (vals : List TVal) : List TVote → Int
  | [] => 0
  | t :: ts => (t.dels.length : Int) + ((addrBkava vals.length t).length : Int) + itemsOf vals ts

theorem voteStep_inv (g : Cfg) (vals : List TVal) (hv : ValsOK vals) (a a' : TAcc) (k : Int) (t : TVote)
    (hok : VoteOK g vals t) (h : TInv vals a k) (hs : voteStep g vals a t = some a') :
    TInv vals a' (k + (t.dels.length : Int) + ((addrBkava vals.length t).length : Int)) := by
  obtain ⟨ho, hd, hb⟩ := hok
  unfold voteStep at hs
  simp only [] at hs
  have h1 : TInv vals (match t.oper with
      | some v => if inMap vals v then { a with vote := fun x => if x = v then t.opts else a.vote x } else a
      | none => a) k := by
    split
    · split
      · rename_i v _ hin
        obtain ⟨pw, cnt, c1, c2, c3, c4, c5, c6, c7⟩ := h
        refine ⟨pw, cnt, c1, c2, c3, c4, c5, c6, ?_⟩
        intro w hw
        simp only [] at hw ⊢
        by_cases hwv : w = v
        · simp only [hwv, ite_true] at hw ⊢; exact ho
        · simp only [hwv, ite_false] at hw ⊢; exact c7 w hw
      · exact h
    · exact h
  have h2 := delLoop_inv vals hv t.opts ho t.dels _ k hd h1
  have h3 := bkLoop_inv g vals hv t.opts ho (addrBkava vals.length t) _ a' _
    (fun x hx => ⟨by have := addrBkava_pos vals.length t x hx; omega, hb x hx⟩) h2 hs
  exact h3

theorem voteLoop_inv (g : Cfg) (vals : List TVal) (hv : ValsOK vals) (votes : List TVote) :
    ∀ (a a' : TAcc) (k : Int), (∀ t ∈ votes, VoteOK g vals t) → TInv vals a k →
      voteLoop g vals a votes = some a' → TInv vals a' (k + itemsOf vals votes) := by
  induction votes with
  | nil => intro a a' k _ h hs; simp only [voteLoop] at hs; cases hs
           simp only [itemsOf]; have : k + 0 = k := by omega
           rw [this]; exact h
  | cons t ts ih =>
    intro a a' k hok h hs
    simp only [voteLoop] at hs
    split at hs
    · cases hs
    · rename_i a1 hs1
      have h1 := voteStep_inv g vals hv a a1 k t (hok t List.mem_cons_self) h hs1
      have h2 := ih a1 a' _ (fun y hy => hok y (List.mem_cons_of_mem _ hy)) h1 hs
      simp only [itemsOf]
      have e : k + ((t.dels.length : Int) + ((addrBkava vals.length t).length : Int) + itemsOf vals ts)
             = k + (t.dels.length : Int) + ((addrBkava vals.length t).length : Int) + itemsOf vals ts := by omega
      rw [e]; exact h2


/-! ### the second loop (over the validators) and the totals -/

/-- the power a validator of the set votes with itself: its shares minus the deductions -/
def resid (vals : List TVal) (a : TAcc) (v : Nat) : Int :=
  if (tvAt vals v).bonded ∧ ¬ (a.vote v).isEmpty then
    (sharePower (tvAt vals v) ⟨(tvAt vals v).shares.m - a.ded v⟩).m
  else 0

/-- deductions never exceed the validator's shares (what backing + x/staking's share accounting give) -/
def DedOK (vals : List TVal) (a : TAcc) : Prop :=
  ∀ v, (tvAt vals v).bonded = true → a.ded v ≤ (tvAt vals v).shares.m

theorem resid_nonneg (vals : List TVal) (hv : ValsOK vals) (a : TAcc) (hd : DedOK vals a) (v : Nat) : 0 ≤ resid vals a v := by
  unfold resid
  split
  · rename_i h
    have hb : (tvAt vals v).bonded = true := h.1
    obtain ⟨hT, hS⟩ := hv v hb
    exact (sharePower_bound (tvAt vals v) ⟨(tvAt vals v).shares.m - a.ded v⟩ (by have := hd v hb; show 0 ≤ _ - _; omega) hT hS).1
  · omega

theorem valLoop_inv (vals : List TVal) (hv : ValsOK vals) (a : TAcc) (k : Int) (hd : DedOK vals a)
    (hres : ∀ o, 0 ≤ a.res o) (hsum : 2 * resSum a.res ≤ 2 * a.total + 4 * k)
    (hvote : ∀ v, (a.vote v).isEmpty = false → OptsOK (a.vote v)) (m : Nat) :
    (valLoop vals a m).total = a.total + sumTo m (resid vals a) ∧ (∀ o, 0 ≤ (valLoop vals a m).res o) ∧
    2 * resSum (valLoop vals a m).res ≤ 2 * (valLoop vals a m).total + 4 * (k + m) := by
  induction m with
  | zero => simp only [valLoop, sumTo]; exact ⟨by omega, hres, by omega⟩
  | succ j ih =>
    obtain ⟨i1, i2, i3⟩ := ih
    simp only [valLoop, sumTo]
    unfold valStep
    simp only []
    by_cases hc : (tvAt vals j).bonded ∧ ¬ (a.vote j).isEmpty
    · rw [if_pos hc]
      have hb : (tvAt vals j).bonded = true := hc.1
      obtain ⟨hT, hS⟩ := hv j hb
      have hr : resid vals a j = (sharePower (tvAt vals j) ⟨(tvAt vals j).shares.m - a.ded j⟩).m := by
        unfold resid; rw [if_pos hc]
      have hp0 := resid_nonneg vals hv a hd j
      rw [hr] at hp0
      have hok := hvote j (by simpa using hc.2)
      refine ⟨by simp only []; rw [i1, hr]; omega, ?_, ?_⟩
      · exact aw_nonneg _ hp0 _ _ hok.1 i2
      · simp only []
        have := aw_total _ hp0 _ hok (valLoop vals a j).res
        have e : ((j + 1 : Nat) : Int) = (j : Int) + 1 := by omega
        rw [e]; omega
    · rw [if_neg hc]
      have hr : resid vals a j = 0 := by unfold resid; rw [if_neg hc]
      refine ⟨by rw [i1, hr]; omega, i2, ?_⟩
      have e : ((j + 1 : Nat) : Int) = (j : Int) + 1 := by omega
      rw [e]; omega

/-- per validator: what was counted for its delegators and derivative holders plus what it votes with itself is at
    most its tokens, up to half an ulp per rounding -/
theorem per_val_bound (S T ded cnt pw r : Int) (hS : 0 < S) (hT : 0 ≤ T) (hd0 : 0 ≤ ded) (hdS : ded ≤ S)
    (hA : 2 * S * pw ≤ 2 * ded * T * P + cnt * S) (hr0 : 0 ≤ r)
    (hR : r = 0 ∨ 2 * S * r ≤ 2 * (S - ded) * T * P + S) : 2 * (pw + r) ≤ 2 * (T * P) + cnt + 1 := by
  have hTP : 0 ≤ T * P := Int.mul_nonneg hT (by decide)
  have h1 : 0 ≤ (S - ded) * (T * P) := Int.mul_nonneg (by omega) hTP
  have key : S * (2 * (pw + r)) ≤ S * (2 * (T * P) + cnt + 1) := by
    rcases hR with h0 | hR
    · subst h0; grind
    · grind
  exact Int.le_of_mul_le_mul_left key hS

theorem tally_total_bound (vals : List TVal) (hv : ValsOK vals) (a : TAcc) (k : Int) (h : TInv vals a k)
    (hd : DedOK vals a) :
    2 * (valLoop vals a vals.length).total ≤ 2 * (bondedTotal vals * P) + k + vals.length ∧
    (∀ o, 0 ≤ (valLoop vals a vals.length).res o) ∧
    2 * resSum (valLoop vals a vals.length).res ≤ 2 * (bondedTotal vals * P) + 5 * (k + vals.length) := by
  obtain ⟨pw, cnt, h1, h2, h3, h4, h5, h6, h7⟩ := h
  obtain ⟨t1, t2, t3⟩ := valLoop_inv vals hv a k hd h5 h6 h7 vals.length
  have hpt : ∀ v, v < vals.length →
      2 * (pw v + resid vals a v) ≤ 2 * ((if (tvAt vals v).bonded then (tvAt vals v).tokens else 0) * P) + cnt v + 1 := by
    intro v _
    obtain ⟨a1, a2, a3⟩ := h4 v
    by_cases hb : (tvAt vals v).bonded = true
    · rw [if_pos hb] at a3; rw [if_pos hb]
      obtain ⟨hT, hS⟩ := hv v hb
      have hr0 := resid_nonneg vals hv a hd v
      have hR : resid vals a v = 0 ∨ 2 * (tvAt vals v).shares.m * resid vals a v ≤
          2 * ((tvAt vals v).shares.m - a.ded v) * (tvAt vals v).tokens * P + (tvAt vals v).shares.m := by
        unfold resid
        split
        · right
          exact (sharePower_bound (tvAt vals v) ⟨(tvAt vals v).shares.m - a.ded v⟩
            (by have := hd v hb; show 0 ≤ _ - _; omega) hT hS).2
        · left; rfl
      exact per_val_bound _ _ _ _ _ _ hS hT a2 (hd v hb) a3 hr0 hR
    · have hbf : (tvAt vals v).bonded = false := by simpa using hb
      rw [hbf] at a3; simp only [Bool.false_eq_true, ite_false] at a3
      have hr : resid vals a v = 0 := by unfold resid; simp [hbf]
      rw [hr, a3, hbf]; simp only [Bool.false_eq_true, ite_false]
      have := h3 v; omega
  have hsum : 2 * (a.total + sumTo vals.length (resid vals a)) ≤ 2 * (bondedTotal vals * P) + sumTo vals.length cnt + vals.length := by
    rw [h1, ← sumTo_add, ← sumTo_mul]
    have := sumTo_le vals.length _ _ hpt
    have e : sumTo vals.length (fun v => 2 * ((if (tvAt vals v).bonded then (tvAt vals v).tokens else 0) * P) + cnt v + 1)
        = 2 * (bondedTotal vals * P) + sumTo vals.length cnt + vals.length := by
      have e1 := sumTo_add vals.length (fun v => 2 * ((if (tvAt vals v).bonded then (tvAt vals v).tokens else 0) * P) + cnt v) (fun _ => 1)
      have e2 := sumTo_add vals.length (fun v => 2 * ((if (tvAt vals v).bonded then (tvAt vals v).tokens else 0) * P)) cnt
      have e3 := sumTo_mul vals.length (fun v => (if (tvAt vals v).bonded then (tvAt vals v).tokens else 0) * P) 2
      have e4 : sumTo vals.length (fun v => (if (tvAt vals v).bonded then (tvAt vals v).tokens else 0) * P) = bondedTotal vals * P := by
        have := sumTo_mul vals.length (fun v => (if (tvAt vals v).bonded then (tvAt vals v).tokens else 0)) P
        unfold bondedTotal
        rw [Int.mul_comm _ P, ← this]
        congr 1; funext v; exact Int.mul_comm _ _
      rw [e1, e2, e3, e4, sumTo_const_one]
    rw [e] at this; exact this
  refine ⟨by rw [t1]; omega, t2, ?_⟩
  rw [t1] at t3; omega


theorem chopTrunc_mul_le (x : Int) (h : 0 ≤ x) : chopTrunc x * P ≤ x := by
  rw [chopTrunc_nonneg_eq _ h]; exact Int.ediv_mul_le _ (by decide)

/-- number of Dec roundings a tally can perform, up to the factor 5 -/
def tallyItems (vals : List TVal) (votes : List TVote) : Int := itemsOf vals votes + vals.length

theorem tally_bounds (g : Cfg) (vals : List TVal) (votes : List TVote) (o : TallyOut) (hv : ValsOK vals)
    (hok : ∀ t ∈ votes, VoteOK g vals t)
    (hd : ∀ a, voteLoop g vals TAcc.init votes = some a → DedOK vals a)
    (h : tally g vals votes = some o) :
    2 * o.total ≤ 2 * (bondedTotal vals * P) + tallyItems vals votes ∧
    2 * (o.counted * P) ≤ 2 * (bondedTotal vals * P) + 5 * tallyItems vals votes := by
  unfold tally at h
  split at h
  · cases h
  · rename_i a ha
    cases h
    have hinv := voteLoop_inv g vals hv votes TAcc.init a 0 hok (TInv_init vals) ha
    have e0 : (0 : Int) + itemsOf vals votes = itemsOf vals votes := by omega
    rw [e0] at hinv
    obtain ⟨b1, b2, b3⟩ := tally_total_bound vals hv a _ hinv (hd a ha)
    unfold tallyItems
    refine ⟨by simp only []; omega, ?_⟩
    unfold TallyOut.counted
    simp only []
    have c1 := chopTrunc_mul_le _ (b2 1)
    have c2 := chopTrunc_mul_le _ (b2 2)
    have c3 := chopTrunc_mul_le _ (b2 3)
    have c4 := chopTrunc_mul_le _ (b2 4)
    unfold resSum at b3
    have e : (chopTrunc ((valLoop vals a vals.length).res 1) + chopTrunc ((valLoop vals a vals.length).res 2) +
        chopTrunc ((valLoop vals a vals.length).res 3) + chopTrunc ((valLoop vals a vals.length).res 4)) * P
        = chopTrunc ((valLoop vals a vals.length).res 1) * P + chopTrunc ((valLoop vals a vals.length).res 2) * P +
          chopTrunc ((valLoop vals a vals.length).res 3) * P + chopTrunc ((valLoop vals a vals.length).res 4) * P := by
      rw [Int.add_mul, Int.add_mul, Int.add_mul]
    rw [e]; omega

/-- the integer TallyResult never exceeds the tokens of the handler's validator set (unless a single tally
    performs more than 4·10^17 roundings) -/
theorem tally_counted_le (g : Cfg) (vals : List TVal) (votes : List TVote) (o : TallyOut) (hv : ValsOK vals)
    (hok : ∀ t ∈ votes, VoteOK g vals t)
    (hd : ∀ a, voteLoop g vals TAcc.init votes = some a → DedOK vals a)
    (hsmall : 5 * tallyItems vals votes < 2 * P)
    (h : tally g vals votes = some o) : o.counted ≤ bondedTotal vals := by
  have := (tally_bounds g vals votes o hv hok hd h).2
  rcases Int.lt_or_le (bondedTotal vals) o.counted with hlt | hle
  · have h1 : (bondedTotal vals + 1) * P ≤ o.counted * P := Int.mul_le_mul_of_nonneg_right (by omega) (by decide)
    have e : (bondedTotal vals + 1) * P = bondedTotal vals * P + P := by rw [Int.add_mul, Int.one_mul]
    omega
  · exact hle


/-! ### counted once -/

/-- derivative units of validator `v` the voter holds in wallet + savings + earn -/
def heldOf (t : TVote) (v : Nat) : Int := amountOf t.wallet v + amountOf t.savings v + amountOf t.earn v

theorem addrBkava_fst (l : List Nat) (t : TVote) :
    (l.filterMap fun v => if heldOf t v > 0 then some (v, heldOf t v) else none).map Prod.fst
      = l.filter (fun v => decide (heldOf t v > 0)) := by
  induction l with
  | nil => rfl
  | cons x xs ih =>
    simp only [List.filterMap_cons, List.filter_cons]
    by_cases h : heldOf t x > 0
    · simp only [h, ite_true, List.map_cons, decide_true, ih]
    · simp only [h, ite_false, decide_false, ih]; rfl

/-- `getAddrBkava`: each validator's derivative appears exactly once, with wallet, savings and earn added up -/
theorem addrBkava_spec (n : Nat) (t : TVote) :
    ((addrBkava n t).map Prod.fst).Nodup ∧
    ∀ x, x ∈ addrBkava n t ↔ (x.1 < n ∧ x.2 = heldOf t x.1 ∧ 0 < x.2) := by
  have e : addrBkava n t = (List.range n).filterMap fun v => if heldOf t v > 0 then some (v, heldOf t v) else none := rfl
  constructor
  · rw [e, addrBkava_fst]
    exact List.Nodup.sublist List.filter_sublist List.nodup_range
  · intro x
    rw [e, List.mem_filterMap]
    constructor
    · rintro ⟨v, hv, hx⟩
      split at hx
      · cases hx; exact ⟨List.mem_range.mp hv, rfl, by assumption⟩
      · cases hx
    · rintro ⟨h1, h2, h3⟩
      refine ⟨x.1, List.mem_range.mpr h1, ?_⟩
      have : heldOf t x.1 > 0 := by omega
      rw [if_pos this, ← h2]

/-- one derivative coin of a validator of the set: its truncated token value is added to the total once and the same
    units are deducted from the validator's inherited shares -/
theorem bkStep_effect (g : Cfg) (vals : List TVal) (opts : List (Nat × Dec)) (a : TAcc) (v : Nat) (x : Int)
    (hb : (tvAt vals v).bonded = true) (hS : (tvAt vals v).shares.m ≠ 0) :
    ∃ a', bkStep g vals opts a v x = some a' ∧ a'.total = a.total + stakedTok (tvAt vals v) x * P ∧
      a'.ded = bump a.ded v (x * P) ∧ a'.vote = a.vote ∧
      a'.res = addWeighted a.res (Dec.ofInt (stakedTok (tvAt vals v) x)) opts := by
  have hlt := tvAt_bonded_lt vals v hb
  have hsome : vals[v]?.isNone = false := by
    cases hc : vals[v]? with
    | none => unfold tvAt at hb; rw [hc] at hb; cases hb
    | some _ => rfl
  unfold bkStep
  simp only [hb, hsome, hS, Bool.true_eq_false, and_false, ite_false, ite_true, Bool.false_eq_true]
  exact ⟨_, rfl, rfl, rfl, rfl, rfl⟩
/-! ### the repaired handler cannot panic on a derivative -/

theorem bkStep_some (g : Cfg) (hg : g.tallySkipUnbonded = true) (vals : List TVal) (hv : ValsOK vals)
    (opts : List (Nat × Dec)) (a : TAcc) (v : Nat) (x : Int) : ∃ a', bkStep g vals opts a v x = some a' := by
  cases hb : (tvAt vals v).bonded with
  | false =>
    refine ⟨a, ?_⟩
    unfold bkStep; simp only [hg, hb, and_self, ite_true]
  | true =>
    obtain ⟨a', h, -⟩ := bkStep_effect g vals opts a v x hb (by have := (hv v hb).2; omega)
    exact ⟨a', h⟩

theorem bkLoop_some (g : Cfg) (hg : g.tallySkipUnbonded = true) (vals : List TVal) (hv : ValsOK vals)
    (opts : List (Nat × Dec)) (coins : List (Nat × Int)) : ∀ a, ∃ a', bkLoop g vals opts a coins = some a' := by
  induction coins with
  | nil => intro a; exact ⟨a, rfl⟩
  | cons x t ih =>
    intro a
    obtain ⟨v, amt⟩ := x
    obtain ⟨a1, h1⟩ := bkStep_some g hg vals hv opts a v amt
    obtain ⟨a2, h2⟩ := ih a1
    exact ⟨a2, by simp only [bkLoop, h1, h2]⟩

theorem voteLoop_some (g : Cfg) (hg : g.tallySkipUnbonded = true) (vals : List TVal) (hv : ValsOK vals)
    (votes : List TVote) : ∀ a, ∃ a', voteLoop g vals a votes = some a' := by
  induction votes with
  | nil => intro a; exact ⟨a, rfl⟩
  | cons t ts ih =>
    intro a
    obtain ⟨a1, h1⟩ : ∃ a1, voteStep g vals a t = some a1 := by
      unfold voteStep; exact bkLoop_some g hg vals hv _ _ _
    obtain ⟨a2, h2⟩ := ih a1
    exact ⟨a2, by simp only [voteLoop, h1, h2]⟩

theorem tally_some (g : Cfg) (hg : g.tallySkipUnbonded = true) (vals : List TVal) (hv : ValsOK vals)
    (votes : List TVote) : ∃ o, tally g vals votes = some o := by
  obtain ⟨a, ha⟩ := voteLoop_some g hg vals hv votes TAcc.init
  unfold tally; rw [ha]; exact ⟨_, rfl⟩
end KV.Liquid
