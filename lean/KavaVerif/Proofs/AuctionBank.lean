/-
  Helper lemmas for C06, part 2: effect lemmas of the bank steps, the store and the by-time index.
  Core Lean only.
-/
import KavaVerif.Proofs.AuctionSplit
set_option linter.unusedSimpArgs false
set_option linter.unusedVariables false

namespace KV.Auc

/-- `n` if `c` holds, else 0. Kept opaque to `omega` (an atom), evaluated by `ind_pos`/`ind_neg`. -/
def ind (c : Prop) [Decidable c] (n : Int) : Int := if c then n else 0

theorem ind_pos {c : Prop} [Decidable c] (n : Int) (h : c) : ind c n = n := by simp [ind, h]
theorem ind_neg {c : Prop} [Decidable c] (n : Int) (h : ¬ c) : ind c n = 0 := by simp [ind, h]
theorem ind_zero {c : Prop} [Decidable c] : ind c 0 = 0 := by simp [ind]

/-! ### bank steps -/

theorem send_eff (b b' : Bal) (x y : Addr) (d : Denom) (n : Int) (h : send b x y d n = some b')
    (z : Addr) (e : Denom) :
    b' z e = b z e - ind (z = x ∧ e = d) n + ind (z = y ∧ e = d) n := by
  unfold send at h
  split at h
  · rename_i h0; cases h; subst h0; simp [ind]
  · split at h
    · cases h
    · cases h
      by_cases hx : z = x <;> by_cases hy : z = y <;> by_cases he : e = d <;>
        simp [upd2, ind, hx, hy, he] <;> (try subst_vars) <;> (try simp_all) <;> (try omega)

/-- a successful send of a positive amount was covered by the sender's balance -/
theorem send_funds (b b' : Bal) (x y : Addr) (d : Denom) (n : Int) (h : send b x y d n = some b') :
    n = 0 ∨ (0 < n ∧ n ≤ b x d) := by
  unfold send at h
  split at h
  · left; assumption
  · split at h
    · cases h
    · right; omega

theorem send_ok (b : Bal) (x y : Addr) (d : Denom) (n : Int) (h0 : 0 ≤ n) (h1 : n ≤ b x d) :
    ∃ b', send b x y d n = some b' := by
  unfold send
  by_cases hn : n = 0
  · simp [hn]
  · have : ¬ (n < 0 ∨ b x d < n) := by omega
    simp [hn, this]

theorem sendM2A_eff (env : Env) (b b' : Bal) (x y : Addr) (d : Denom) (n : Int)
    (h : sendM2A env b x y d n = some b') :
    env.blocked y = false ∧ ∀ z e, b' z e = b z e - ind (z = x ∧ e = d) n + ind (z = y ∧ e = d) n := by
  unfold sendM2A at h
  split at h
  · cases h
  · rename_i hb
    exact ⟨by simpa using hb, send_eff b b' x y d n h⟩

theorem sendM2A_ok (env : Env) (b : Bal) (x y : Addr) (d : Denom) (n : Int) (hb : env.blocked y = false)
    (h0 : 0 ≤ n) (h1 : n ≤ b x d) : ∃ b', sendM2A env b x y d n = some b' := by
  unfold sendM2A; simp [hb]; exact send_ok b x y d n h0 h1

theorem burn_eff (b b' : Bal) (m : Addr) (d : Denom) (n : Int) (h : burnFrom b m d n = some b')
    (z : Addr) (e : Denom) : b' z e = b z e - ind (z = m ∧ e = d) n := by
  unfold burnFrom at h
  split at h
  · rename_i h0; cases h; subst h0; simp [ind]
  · split at h
    · cases h
    · cases h
      by_cases hx : z = m <;> by_cases he : e = d <;>
        simp [upd2, ind, hx, he] <;> (try subst_vars) <;> (try simp_all) <;> (try omega)

theorem mint_eff (b : Bal) (m : Addr) (d : Denom) (n : Int) (z : Addr) (e : Denom) :
    mintTo b m d n z e = b z e + ind (z = m ∧ e = d) n := by
  unfold mintTo
  split
  · rename_i h0; subst h0; simp [ind]
  · by_cases hx : z = m <;> by_cases he : e = d <;>
        simp [upd2, ind, hx, he] <;> (try subst_vars) <;> (try simp_all) <;> (try omega)

/-- bidder → module → standing bidder: the module's balance is untouched, the standing bidder is
    not a blocked address -/
theorem refund_eff (env : Env) (b b' : Bal) (bidder old : Addr) (d : Denom) (n : Int)
    (h : refund env b bidder old d n = some b') :
    env.blocked old = false ∧
    ∀ z e, b' z e = b z e - ind (z = bidder ∧ e = d) n + ind (z = old ∧ e = d) n := by
  unfold refund at h
  split at h
  · cases h
  · rename_i b1 h1
    obtain ⟨hb, e2⟩ := sendM2A_eff env b1 b' env.M old d n h
    refine ⟨hb, ?_⟩
    intro z e
    have := send_eff b b1 bidder env.M d n h1 z e
    have := e2 z e
    omega

/-! ### the payout loop of a reverse bid -/

/-- what leaves the module account in `payAll` -/
def paid : List Addr → List Int → Int
  | _ :: xs, n :: ns => (if 0 < n then n else 0) + paid xs ns
  | _, _ => 0

/-- what address `z` receives in `payAll` -/
def credit (z : Addr) : List Addr → List Int → Int
  | x :: xs, n :: ns => (if 0 < n ∧ x = z then n else 0) + credit z xs ns
  | _, _ => 0

theorem payAll_eff (env : Env) (hM : env.blocked env.M = true) (d : Denom) (b b' : Bal)
    (xs : List Addr) (ns : List Int) (h : payAll env d b xs ns = some b') :
    ∀ z e, b' z e = b z e - ind (z = env.M ∧ e = d) (paid xs ns) + ind (e = d) (credit z xs ns) := by
  induction xs generalizing b ns with
  | nil => intro z e; unfold payAll at h; cases h; simp [paid, credit, ind]
  | cons x xs ih =>
    cases ns with
    | nil => intro z e; unfold payAll at h; cases h; simp [paid, credit, ind]
    | cons n ns =>
      intro z e
      unfold payAll at h
      split at h
      · rename_i hpos
        split at h
        · cases h
        · rename_i b1 h1
          obtain ⟨hbx, e1⟩ := sendM2A_eff env b b1 env.M x d n h1
          have hxM : x ≠ env.M := by intro hx; rw [hx, hM] at hbx; cases hbx
          have i1 := ih b1 ns h z e
          have i2 := e1 z e
          simp only [paid, credit, hpos, true_and, ite_true]
          by_cases hzM : z = env.M
          · have hxz : ¬ (x = z) := by rw [hzM]; exact hxM
            have hzx : ¬ (z = x) := fun h => hxz h.symm
            have hMx : ¬ (env.M = x) := fun h => hxM h.symm
            have hxM' : ¬ (x = env.M) := hxM
            by_cases hed : e = d
            · simp only [ind, hzM, hed, hxz, hzx, hMx, hxM', and_true, and_false, true_and, false_and, ite_true, ite_false, and_self] at *
              omega
            · simp only [ind, hzM, hed, hxz, hzx, hMx, hxM', and_true, and_false, true_and, false_and, ite_true, ite_false, and_self] at *
              omega
          · by_cases hed : e = d <;> by_cases hxz : x = z
            · subst hxz
              simp only [ind, hzM, hed, and_true, and_false, true_and, false_and, ite_true, ite_false, and_self] at *
              omega
            · have hzx : ¬ (z = x) := fun h => hxz h.symm
              simp only [ind, hzM, hed, hxz, hzx, and_true, and_false, true_and, false_and, ite_true, ite_false, and_self] at *
              omega
            · subst hxz
              simp only [ind, hzM, hed, and_true, and_false, true_and, false_and, ite_true, ite_false, and_self] at *
              omega
            · have hzx : ¬ (z = x) := fun h => hxz h.symm
              simp only [ind, hzM, hed, hxz, hzx, and_true, and_false, true_and, false_and, ite_true, ite_false, and_self] at *
              omega
      · rename_i hnp
        have := ih b ns h z e
        simp only [paid, credit, hnp, false_and, ite_false, Int.zero_add]
        omega

theorem paid_eq_sum (xs : List Addr) (ns : List Int) (hl : xs.length = ns.length)
    (hnn : ∀ n, n ∈ ns → 0 ≤ n) : paid xs ns = sumL ns := by
  induction xs generalizing ns with
  | nil => cases ns with
    | nil => rfl
    | cons n ns => simp at hl
  | cons x xs ih =>
    cases ns with
    | nil => simp at hl
    | cons n ns =>
      simp only [paid, sumL]
      rw [ih ns (by simpa using hl) (fun m hm => hnn m (by simp [hm]))]
      have := hnn n (by simp)
      split <;> omega

/-! ### store and by-time index -/

theorem sumTo_update (n : Nat) (f : Nat → Int) (i : Nat) (v : Int) :
    sumTo n (fun j => if j = i then v else f j) = sumTo n f - ind (i < n) (f i) + ind (i < n) v := by
  induction n with
  | zero => simp [sumTo, ind]
  | succ k ih =>
    simp only [sumTo]; rw [ih]
    by_cases h1 : i < k
    · have : ¬ (k = i) := by omega
      have h2 : i < k + 1 := by omega
      simp only [ind, h1, h2, this, ite_true, ite_false]; omega
    · by_cases h2 : k = i
      · subst h2; simp [ind]
      · have h3 : ¬ (i < k + 1) := by omega
        simp only [ind, h1, h2, h3, ite_true, ite_false]; omega

theorem totalCoins_updA (s : St) (i : Nat) (v : Option Auction) (d : Denom) (n : Nat) :
    sumTo n (fun j => modCoinsO (updA s.auc i v j) d)
      = sumTo n (fun j => modCoinsO (s.auc j) d) - ind (i < n) (modCoinsO (s.auc i) d) + ind (i < n) (modCoinsO v d) := by
  rw [← sumTo_update n (fun j => modCoinsO (s.auc j) d) i (modCoinsO v d)]
  apply sumTo_congr; intro j _
  unfold updA; split <;> rfl

theorem keyLt_irrefl (x : Int × Nat) : keyLt x x = false := by
  unfold keyLt; simp

theorem keyLt_trans (x y z : Int × Nat) (h1 : keyLt x y = true) (h2 : keyLt y z = true) : keyLt x z = true := by
  unfold keyLt at *
  simp only [Bool.or_eq_true, Bool.and_eq_true, decide_eq_true_eq] at *
  omega

theorem keyLt_total (x y : Int × Nat) (h1 : x ≠ y) (h2 : keyLt x y = false) : keyLt y x = true := by
  unfold keyLt at *
  simp only [Bool.or_eq_false_iff, Bool.and_eq_false_imp, decide_eq_true_eq, decide_eq_false_iff_not,
    Bool.or_eq_true, Bool.and_eq_true] at *
  obtain ⟨a, c⟩ := x; obtain ⟨a', c'⟩ := y
  simp only [ne_eq, Prod.mk.injEq, not_and] at h1
  simp only at h2 ⊢
  by_cases ha : a = a'
  · have := h1 ha; have := h2.2 ha; omega
  · omega

def Sorted (l : List (Int × Nat)) : Prop := l.Pairwise (fun x y => keyLt x y = true)

theorem idxInsert_mem (k x : Int × Nat) (l : List (Int × Nat)) : x ∈ idxInsert k l ↔ x = k ∨ x ∈ l := by
  induction l with
  | nil => simp [idxInsert]
  | cons y ys ih =>
    unfold idxInsert
    split
    · rename_i hk; subst hk; simp
    · split
      · simp
      · simp only [List.mem_cons, ih]
        constructor
        · rintro (h | h | h) <;> simp [h]
        · rintro (h | h | h) <;> simp [h]

theorem idxInsert_sorted (k : Int × Nat) (l : List (Int × Nat)) (h : Sorted l) : Sorted (idxInsert k l) := by
  induction l with
  | nil => simp [idxInsert, Sorted]
  | cons y ys ih =>
    have hp := List.pairwise_cons.mp h
    unfold idxInsert
    split
    · exact h
    · rename_i hne
      split
      · rename_i hlt
        refine List.pairwise_cons.mpr ⟨?_, h⟩
        intro z hz
        rcases List.mem_cons.mp hz with rfl | hz'
        · exact hlt
        · exact keyLt_trans _ _ _ hlt (hp.1 z hz')
      · rename_i hnlt
        refine List.pairwise_cons.mpr ⟨?_, ih hp.2⟩
        intro z hz
        rcases (idxInsert_mem k z ys).mp hz with rfl | hz'
        · exact keyLt_total _ _ hne (by simpa using hnlt)
        · exact hp.1 z hz'

theorem idxRemove_mem (k x : Int × Nat) (l : List (Int × Nat)) : x ∈ idxRemove k l ↔ x ∈ l ∧ x ≠ k := by
  unfold idxRemove; simp [List.mem_filter]

theorem idxRemove_sorted (k : Int × Nat) (l : List (Int × Nat)) (h : Sorted l) : Sorted (idxRemove k l) := by
  unfold idxRemove Sorted; exact List.Pairwise.filter _ h

theorem sorted_nodup (l : List (Int × Nat)) (h : Sorted l) : l.Nodup := by
  unfold Sorted at h
  refine List.Pairwise.imp ?_ h
  intro x y hxy hEq
  subst hEq
  rw [keyLt_irrefl] at hxy; cases hxy

end KV.Auc
