/-
  Helper lemmas for C18, part 2: the raw price store (keying, latest post), the two aggregation
  routines, and the consumer gates.  Core Lean only.
-/
import KavaVerif.Proofs.PricefeedMedian
set_option linter.unusedSimpArgs false
set_option linter.unusedVariables false
namespace KV.PF
open List

/-! ### the raw price store -/

/-- the store is ordered by key and has one entry per key -/
def KeySorted (l : List Post) : Prop := l.Pairwise (fun p q => keyLt p q = true)

def hasKey (m o : Nat) (q : Post) : Bool := q.market == m && q.oracle == o

theorem sameKey_iff (p q : Post) : sameKey p q = true ↔ (p.market = q.market ∧ p.oracle = q.oracle) := by
  unfold sameKey; simp only [Bool.and_eq_true, beq_iff_eq]

theorem keyLt_iff (p q : Post) : keyLt p q = true ↔
    (p.market < q.market ∨ (p.market = q.market ∧ p.oracle < q.oracle)) := by
  unfold keyLt; simp only [Bool.or_eq_true, Bool.and_eq_true, decide_eq_true_eq, beq_iff_eq]

theorem hasKey_iff (m o) (q : Post) : hasKey m o q = true ↔ (q.market = m ∧ q.oracle = o) := by
  unfold hasKey; simp only [Bool.and_eq_true, beq_iff_eq]

theorem hasKey_false_iff (m o) (q : Post) : hasKey m o q = false ↔ ¬ (q.market = m ∧ q.oracle = o) := by
  rw [← hasKey_iff]; cases hasKey m o q <;> simp

theorem keyLt_trans {p q r : Post} (h1 : keyLt p q = true) (h2 : keyLt q r = true) : keyLt p r = true := by
  rw [keyLt_iff] at *; omega

theorem rawSet_mem (p q : Post) (l : List Post) (h : q ∈ rawSet p l) : q = p ∨ q ∈ l := by
  induction l with
  | nil => unfold rawSet at h; simp only [mem_singleton] at h; exact Or.inl h
  | cons a t ih =>
    unfold rawSet at h
    split at h
    · rcases mem_cons.1 h with h | h
      · exact Or.inl h
      · exact Or.inr (mem_cons_of_mem _ h)
    · split at h
      · rcases mem_cons.1 h with h | h
        · exact Or.inl h
        · exact Or.inr h
      · rcases mem_cons.1 h with h | h
        · exact Or.inr (h ▸ mem_cons_self)
        · rcases ih h with h | h
          · exact Or.inl h
          · exact Or.inr (mem_cons_of_mem _ h)

theorem rawSet_sorted (p : Post) (l : List Post) (h : KeySorted l) : KeySorted (rawSet p l) := by
  induction l with
  | nil => unfold rawSet; exact pairwise_singleton _ _
  | cons a t ih =>
    have ha : ∀ r, r ∈ t → keyLt a r = true := fun r hr => rel_of_pairwise_cons h hr
    have ht : KeySorted t := Pairwise.tail h
    unfold rawSet
    split
    · rename_i hs
      refine pairwise_cons.2 ⟨?_, ht⟩
      intro r hr
      have := ha r hr
      rw [sameKey_iff] at hs
      rw [keyLt_iff] at *; omega
    · split
      · rename_i hs hl
        refine pairwise_cons.2 ⟨?_, h⟩
        intro r hr
        rcases mem_cons.1 hr with rfl | hr
        · exact hl
        · exact keyLt_trans hl (ha r hr)
      · rename_i hs hl
        refine pairwise_cons.2 ⟨?_, ih ht⟩
        intro r hr
        rcases rawSet_mem p r t hr with rfl | hr
        · have hs' : ¬ (r.market = a.market ∧ r.oracle = a.oracle) := by
            rw [← sameKey_iff]; exact hs
          have hl' : ¬ (r.market < a.market ∨ (r.market = a.market ∧ r.oracle < a.oracle)) := by
            rw [← keyLt_iff]; exact hl
          rw [keyLt_iff]; omega
        · exact ha r hr

theorem filter_none_of_lt (p : Post) (t : List Post) (h : ∀ r, r ∈ t → keyLt p r = true) :
    t.filter (hasKey p.market p.oracle) = [] := by
  rw [List.filter_eq_nil_iff]
  intro r hr
  have := h r hr
  rw [keyLt_iff] at this
  intro hk
  rw [hasKey_iff] at hk; omega

/-- keying: after a write the slot (market, oracle) holds exactly the new post -/
theorem rawSet_filter_same (p : Post) (l : List Post) (h : KeySorted l) :
    (rawSet p l).filter (hasKey p.market p.oracle) = [p] := by
  have hpp : hasKey p.market p.oracle p = true := by rw [hasKey_iff]; exact ⟨rfl, rfl⟩
  induction l with
  | nil => unfold rawSet; simp only [List.filter_cons, hpp, ite_true, List.filter_nil]
  | cons a t ih =>
    have ha : ∀ r, r ∈ t → keyLt a r = true := fun r hr => rel_of_pairwise_cons h hr
    have ht : KeySorted t := Pairwise.tail h
    unfold rawSet
    split
    · rename_i hs
      rw [List.filter_cons, hpp]; simp only [ite_true]
      rw [filter_none_of_lt p t]
      intro r hr
      have := ha r hr
      rw [sameKey_iff] at hs
      rw [keyLt_iff] at *; omega
    · split
      · rename_i hs hl
        rw [List.filter_cons, hpp]; simp only [ite_true]
        rw [filter_none_of_lt p (a :: t)]
        intro r hr
        rcases mem_cons.1 hr with rfl | hr
        · exact hl
        · exact keyLt_trans hl (ha r hr)
      · rename_i hs hl
        have : hasKey p.market p.oracle a = false := by
          rw [hasKey_false_iff]
          have hs' : ¬ (p.market = a.market ∧ p.oracle = a.oracle) := by
            rw [← sameKey_iff]; exact hs
          omega
        rw [List.filter_cons, this]; simp only [Bool.false_eq_true, ite_false]
        exact ih ht

/-- … and every other slot is untouched -/
theorem rawSet_filter_other (p : Post) (l : List Post) (m o : Nat)
    (hne : ¬ (p.market = m ∧ p.oracle = o)) :
    (rawSet p l).filter (hasKey m o) = l.filter (hasKey m o) := by
  have hp : hasKey m o p = false := by rw [hasKey_false_iff]; exact hne
  induction l with
  | nil => unfold rawSet; simp only [List.filter_cons, hp, Bool.false_eq_true, ite_false]
  | cons a t ih =>
    unfold rawSet
    split
    · rename_i hs
      rw [sameKey_iff] at hs
      have : hasKey m o a = false := by rw [hasKey_false_iff]; omega
      simp only [List.filter_cons, hp, this, Bool.false_eq_true, ite_false]
    · split
      · simp only [List.filter_cons, hp, Bool.false_eq_true, ite_false]
      · rw [List.filter_cons, List.filter_cons (xs := t), ih]

/-- all accepted posts of a history, applied in order -/
def applyPosts (raw : List Post) (h : List Post) : List Post := h.foldl (fun r p => rawSet p r) raw

theorem applyPosts_sorted (raw h : List Post) (hs : KeySorted raw) : KeySorted (applyPosts raw h) := by
  induction h generalizing raw with
  | nil => exact hs
  | cons p t ih => exact ih (rawSet p raw) (rawSet_sorted p raw hs)

/-- the slot of (market, oracle) holds that oracle's *latest* accepted post for the market -/
theorem applyPosts_latest (raw h : List Post) (hs : KeySorted raw) (m o : Nat) :
    (applyPosts raw h).filter (hasKey m o) =
      match h.reverse.find? (hasKey m o) with
      | some p => [p]
      | none => raw.filter (hasKey m o) := by
  induction h generalizing raw with
  | nil => simp only [applyPosts, List.foldl_nil, List.reverse_nil, List.find?_nil]
  | cons p t ih =>
    have := ih (rawSet p raw) (rawSet_sorted p raw hs)
    unfold applyPosts at this ⊢
    rw [List.foldl_cons, this, List.reverse_cons, List.find?_append]
    cases hf : t.reverse.find? (hasKey m o) with
    | some q => simp only [Option.some_or]
    | none =>
      simp only [Option.none_or, List.find?_cons, List.find?_nil]
      by_cases hk : hasKey m o p = true
      · simp only [hk]
        rw [hasKey_iff] at hk
        obtain ⟨h1, h2⟩ := hk
        subst h1; subst h2
        exact rawSet_filter_same p raw hs
      · have hk' : hasKey m o p = false := by cases h' : hasKey m o p <;> simp_all
        simp only [hk']
        rw [hasKey_false_iff] at hk'
        exact rawSet_filter_other p raw m o hk'

/-! ### aggregation -/

theorem livePrices_nil (now : Int) (m : Nat) : livePrices now [] m = [] := rfl

theorem livePrices_cons (now : Int) (p : Post) (t : List Post) (m : Nat) :
    livePrices now (p :: t) m =
      if (p.market == m && live now p) = true then p.price :: livePrices now t m
      else livePrices now t m := by
  unfold livePrices
  by_cases h1 : (p.market == m) = true
  · by_cases h2 : live now p = true
    · simp only [List.filter_cons, h1, h2, ite_true, List.map_cons, Bool.and_self]
    · have h2' : live now p = false := by cases h : live now p <;> simp_all
      simp only [List.filter_cons, h1, h2', ite_true, Bool.and_false, Bool.false_eq_true, ite_false]
  · have h1' : (p.market == m) = false := by cases h : (p.market == m) <;> simp_all
    simp only [List.filter_cons, h1', Bool.false_and, Bool.false_eq_true, ite_false]

/-- expired posts do not enter: filtering them out of the store first changes nothing -/
theorem livePrices_filter_live (now : Int) (raw : List Post) (m : Nat) :
    livePrices now (raw.filter (live now)) m = livePrices now raw m := by
  induction raw with
  | nil => rfl
  | cons p t ih =>
    rw [livePrices_cons]
    by_cases h2 : live now p = true
    · rw [List.filter_cons]; simp only [h2, ite_true]
      rw [livePrices_cons, ih]; simp only [h2]
    · have h2' : live now p = false := by cases h : live now p <;> simp_all
      rw [List.filter_cons]; simp only [h2', Bool.false_eq_true, ite_false, Bool.and_false]
      exact ih

theorem collect_aux (now : Int) (act : List Nat) (raw : List Post) (acc : Nat → List Int) (m : Nat) :
    (raw.foldl (fun acc p =>
      if !act.contains p.market then acc
      else if live now p then updO acc p.market (acc p.market ++ [p.price])
      else acc) acc) m
    = acc m ++ (if act.contains m then livePrices now raw m else []) := by
  induction raw generalizing acc with
  | nil => simp only [List.foldl_nil, livePrices_nil, ite_self, List.append_nil]
  | cons p t ih =>
    rw [List.foldl_cons, ih, livePrices_cons]
    by_cases hm : p.market = m
    · subst hm
      by_cases hc : act.contains p.market = true
      · by_cases hl : live now p = true
        · simp only [hc, hl, Bool.not_true, Bool.false_eq_true, ite_false, ite_true, updO, beq_self_eq_true,
            Bool.and_self, List.append_assoc, List.singleton_append]
        · have hl' : live now p = false := by cases h : live now p <;> simp_all
          simp only [hc, hl', Bool.not_true, Bool.false_eq_true, ite_false, ite_true, Bool.and_false]
      · have hc' : act.contains p.market = false := by cases h : act.contains p.market <;> simp_all
        simp only [hc', Bool.not_false, ite_true, Bool.false_eq_true, ite_false]
    · have hb : (p.market == m) = false := by simp only [beq_eq_false_iff_ne, ne_eq]; exact hm
      have hm' : ¬ m = p.market := fun e => hm e.symm
      simp only [hb, Bool.false_and, Bool.false_eq_true, ite_false]
      by_cases hc : act.contains p.market = true
      · by_cases hl : live now p = true
        · simp only [hc, hl, Bool.not_true, Bool.false_eq_true, ite_false, ite_true, updO, hm']
        · have hl' : live now p = false := by cases h : live now p <;> simp_all
          simp only [hc, hl', Bool.not_true, Bool.false_eq_true, ite_false]
      · have hc' : act.contains p.market = false := by cases h : act.contains p.market <;> simp_all
        simp only [hc', Bool.not_false, ite_true]

/-- the one-pass map of the all-markets routine holds, for every active market, exactly the list the
    per-market routine builds -/
theorem collect_eq (now : Int) (act : List Nat) (raw : List Post) (m : Nat) :
    collect now act raw m = if act.contains m then livePrices now raw m else [] := by
  unfold collect
  rw [collect_aux]; simp only [List.nil_append]

theorem storeAll_eq (byId : Nat → List Int) (act : List Nat) (cur : Nat → Option Int) (m : Nat) :
    storeAll byId act cur m = if m ∈ act then some (aggregate (byId m)) else cur m := by
  unfold storeAll
  induction act generalizing cur with
  | nil => simp only [List.foldl_nil, List.not_mem_nil, ite_false]
  | cons a t ih =>
    rw [List.foldl_cons, ih]
    by_cases h : m ∈ t
    · simp only [h, ite_true, List.mem_cons, or_true]
    · simp only [h, ite_false, List.mem_cons, or_false, updO]
      by_cases e : m = a
      · subst e; simp only [ite_true]
      · simp only [e, ite_false]

/-- what the end blocker leaves in the current-price store -/
theorem setAll_cur (now : Int) (ms : List MarketP) (s : St) (m : Nat) :
    (setAll now ms s).cur m =
      if m ∈ activeIds ms then some (aggregate (livePrices now s.raw m)) else s.cur m := by
  unfold setAll
  simp only
  rw [storeAll_eq, collect_eq]
  by_cases h : m ∈ activeIds ms
  · have : (activeIds ms).contains m = true := List.contains_iff_mem.2 h
    simp only [h, this, ite_true]
  · simp only [h, ite_false]

theorem setAll_raw (now : Int) (ms : List MarketP) (s : St) : (setAll now ms s).raw = s.raw := rfl

theorem findMarket_of_active (ms : List MarketP) (m : Nat) (h : m ∈ activeIds ms) :
    ∃ mk, findMarket ms m = some mk := by
  unfold activeIds at h
  obtain ⟨mk, hmk, hid⟩ := List.mem_map.1 h
  have hmem : mk ∈ ms := (List.mem_filter.1 hmk).1
  unfold findMarket
  cases hf : ms.find? (fun x => x.id == m) with
  | some x => exact ⟨x, rfl⟩
  | none =>
    have := List.find?_eq_none.1 hf mk hmem
    simp only [hid, beq_self_eq_true, not_true_eq_false] at this

theorem aggregate_get (ne : List Int) :
    (if aggregate ne = 0 then (none : Option Int) else some (aggregate ne)) =
      if ne = [] then none else if median ne = 0 then none else some (median ne) := by
  unfold aggregate
  cases ne with
  | nil => simp only [List.length_nil, ite_true]
  | cons a t => simp only [List.length_cons, Nat.add_one_ne_zero, ite_false, reduceCtorEq]

/-! ### consumer gates -/

/-- a status flag tells the truth about its market -/
def Truth (price : Nat → Option Int) (f : Nat → Bool) (m : Nat) : Prop := f m = (price m).isSome

theorem updateStatus_self (price : Nat → Option Int) (f : Nat → Bool) (m : Nat) :
    Truth price (updateStatus price f m).1 m ∧ (updateStatus price f m).2 = (price m).isSome := by
  unfold updateStatus Truth
  cases h : price m <;> simp only [updO, ite_true, Option.isSome_none, Option.isSome_some, and_self]

theorem updateStatus_keeps (price : Nat → Option Int) (f : Nat → Bool) (m k : Nat)
    (h : Truth price f k) : Truth price (updateStatus price f m).1 k := by
  by_cases e : k = m
  · subst e; exact (updateStatus_self price f k).1
  · unfold updateStatus Truth at *
    cases hp : price m <;> simp only [updO, e, ite_false] <;> exact h

theorem beginStep_keeps (price : Nat → Option Int) (f : Nat → Bool) (cp : CP) (k : Nat)
    (h : Truth price f k) : Truth price (beginStep price f cp) k := by
  unfold beginStep
  simp only
  split
  · exact updateStatus_keeps price f cp.spot k h
  · exact updateStatus_keeps price _ cp.liq k (updateStatus_keeps price f cp.spot k h)

theorem beginStep_sets (price : Nat → Option Int) (f : Nat → Bool) (cp : CP) :
    Truth price (beginStep price f cp) cp.spot ∧
    ((price cp.spot).isSome = true → Truth price (beginStep price f cp) cp.liq) := by
  have h1 := updateStatus_self price f cp.spot
  unfold beginStep
  simp only
  split
  · rename_i hd
    refine ⟨h1.1, ?_⟩
    intro hs
    rw [h1.2, hs] at hd
    simp at hd
  · exact ⟨updateStatus_keeps price _ cp.liq cp.spot h1.1,
      fun _ => (updateStatus_self price _ cp.liq).1⟩

theorem beginFlags_keeps (price : Nat → Option Int) (cps : List CP) (f : Nat → Bool) (k : Nat)
    (h : Truth price f k) : Truth price (beginFlags price cps f) k := by
  unfold beginFlags
  induction cps generalizing f with
  | nil => exact h
  | cons c t ih => rw [List.foldl_cons]; exact ih _ (beginStep_keeps price f c k h)

/-- after the cdp begin blocker, for every collateral type: the spot flag is truthful, and so is the
    liquidation flag whenever the spot price is available (otherwise it may be stale) -/
theorem beginFlags_truth (price : Nat → Option Int) (cps : List CP) (f : Nat → Bool) (cp : CP)
    (hcp : cp ∈ cps) :
    Truth price (beginFlags price cps f) cp.spot ∧
    ((price cp.spot).isSome = true → Truth price (beginFlags price cps f) cp.liq) := by
  induction cps generalizing f with
  | nil => simp at hcp
  | cons c t ih =>
    rcases mem_cons.1 hcp with rfl | hmem
    · have hs := beginStep_sets price f cp
      have e : beginFlags price (cp :: t) f = beginFlags price t (beginStep price f cp) := rfl
      rw [e]
      exact ⟨beginFlags_keeps price t _ _ hs.1, fun h => beginFlags_keeps price t _ _ (hs.2 h)⟩
    · have e : beginFlags price (c :: t) f = beginFlags price t (beginStep price f c) := rfl
      rw [e]; exact ih _ hmem

/-- `ValidateCollateral` refuses when either market of the collateral type has no price -/
theorem validateCollateral_refuses (price : Nat → Option Int) (cps : List CP) (f0 : Nat → Bool)
    (cp : CP) (hcp : cp ∈ cps) (found denomOk : Bool)
    (hdown : price cp.spot = none ∨ price cp.liq = none) :
    validateCollateral (beginFlags price cps f0) found denomOk cp = .err := by
  obtain ⟨h1, h2⟩ := beginFlags_truth price cps f0 cp hcp
  unfold Truth at h1 h2
  unfold validateCollateral
  cases found <;> cases denomOk <;> simp only [Bool.not_true, Bool.not_false, ite_true, Bool.false_eq_true, ite_false]
  cases hs : price cp.spot with
  | none => rw [h1, hs]; simp only [Option.isSome_none, Bool.not_false, ite_true]
  | some v =>
    rw [hs] at h1 h2 hdown
    have hl : price cp.liq = none := by
      rcases hdown with h | h
      · cases h
      · exact h
    rw [h1, h2 rfl, hl]
    simp only [Option.isSome_some, Option.isSome_none, Bool.not_true, Bool.not_false, Bool.false_eq_true, ite_false, ite_true]

theorem ratioGate_refuses (price : Nat → Option Int) (m : Nat) (cmp0 : Bool) (cmp : Int → Bool)
    (h : price m = none) : ratioGate price m false cmp0 cmp = .err := by
  unfold ratioGate; simp only [Bool.false_eq_true, ite_false, h]

theorem ratioGate_refuses0 (price : Nat → Option Int) (m : Nat) (cz : Bool) (cmp : Int → Bool)
    (h : price m = none) : ratioGate price m cz false cmp = .err := by
  unfold ratioGate; cases cz <;> simp only [Bool.false_eq_true, ite_false, ite_true, h]

theorem loadPrices_none (price : Nat → Option Int) (mm : Nat → Option Nat) (ds : List Nat) (d : Nat)
    (hd : d ∈ ds) (h : ∀ m, mm d = some m → price m = none) : loadPrices price mm ds = none := by
  induction ds with
  | nil => simp at hd
  | cons a t ih =>
    unfold loadPrices
    rcases mem_cons.1 hd with rfl | hm
    · cases hmm : mm d with
      | none => rfl
      | some m => simp only [h m hmm]
    · cases hmm : mm a with
      | none => rfl
      | some m =>
        cases hp : price m with
        | none => simp only [hp]
        | some p => simp only [hp, ih hm, Option.map_none]

theorem loadPrices_some (price : Nat → Option Int) (mm : Nat → Option Nat) (ds : List Nat)
    (h : ∀ d, d ∈ ds → ∃ m p, mm d = some m ∧ price m = some p) :
    ∃ l, loadPrices price mm ds = some l := by
  induction ds with
  | nil => exact ⟨[], rfl⟩
  | cons a t ih =>
    obtain ⟨m, p, h1, h2⟩ := h a mem_cons_self
    obtain ⟨l, hl⟩ := ih (fun d hd => h d (mem_cons_of_mem _ hd))
    exact ⟨p :: l, by unfold loadPrices; simp only [h1, h2, hl, Option.map_some]⟩

end KV.PF
