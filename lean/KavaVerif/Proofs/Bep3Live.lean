/-
  Helper lemmas for C13 (x/bep3), part 6: a live swap can always be closed (the decrement guards and the
  bank transfers of claim / refund cannot fail in a state satisfying the invariant).  Core Lean only.
-/
import KavaVerif.Proofs.Bep3Trace
set_option linter.unusedSimpArgs false
set_option linter.unusedVariables false

namespace KV.Bep3

theorem sumBy_nonneg (p : Swap → Bool) {l : List Swap} (hpos : ∀ x ∈ l, 0 < x.amt) : 0 ≤ sumBy p l := by
  induction l with
  | nil => exact Int.le_refl 0
  | cons y ys ih =>
    have h1 := hpos y List.mem_cons_self
    have h2 := ih (fun x hx => hpos x (List.mem_cons_of_mem _ hx))
    rw [sumBy_cons]
    unfold val
    split <;> omega

theorem val_le_sumBy (p : Swap → Bool) {l : List Swap} (hpos : ∀ x ∈ l, 0 < x.amt) {x : Swap} (hm : x ∈ l) :
    val p x ≤ sumBy p l := by
  induction l with
  | nil => cases hm
  | cons y ys ih =>
    rw [sumBy_cons]
    have hy := hpos y List.mem_cons_self
    have hys : ∀ z ∈ ys, 0 < z.amt := fun z hz => hpos z (List.mem_cons_of_mem _ hz)
    cases hm with
    | head => have := sumBy_nonneg p hys; omega
    | tail _ hm' =>
      have := ih hys hm'
      have : 0 ≤ val p y := by unfold val; split <;> omega
      omega

/-- the amount of a live swap is covered by its supply counter (and, for outgoing swaps, by the module
    account) -/
theorem live_covered {cfg : Cfg} {hs : Hashes} {s : St} (h : Inv cfg hs s) {sw : Swap} (hm : sw ∈ s.swaps)
    (hst : sw.status ≠ .completed) :
    (sw.dir = .incoming → sw.amt ≤ (s.supply sw.denom).incoming) ∧
    (sw.dir = .outgoing → sw.amt ≤ (s.supply sw.denom).outgoing ∧ sw.amt ≤ s.bal cfg.module sw.denom ∧
        sw.amt ≤ (s.supply sw.denom).current) := by
  constructor
  · intro hd
    have := val_le_sumBy (live .incoming sw.denom) h.pos hm
    rw [val_live hst, ← h.inc] at this
    simpa [hd] using this
  · intro hd
    have := val_le_sumBy (live .outgoing sw.denom) h.pos hm
    rw [val_live hst] at this
    simp only [hd, and_self, ite_true] at this
    have h1 := h.out sw.denom
    have h2 := h.cust sw.denom
    have h3 := h.outle sw.denom
    exact ⟨by omega, by omega, by omega⟩

theorem refund_succeeds {cfg : Cfg} {hs : Hashes} {s : St} (h : Inv cfg hs s) {id : Id} {sw : Swap}
    (hf : findSwap s.swaps id = some sw) (hst : sw.status = .expired) (hb : cfg.blocked sw.sender = false) :
    (refund cfg hs s id).isOk = true := by
  obtain ⟨hm, -⟩ := findSwap_some hf
  have hnc : sw.status ≠ .completed := by rw [hst]; intro e; cases e
  obtain ⟨c1, c2⟩ := live_covered h hm hnc
  unfold refund
  rw [hf]
  simp only [hst, ne_eq, not_true_eq_false, ite_false]
  cases hd : sw.dir with
  | incoming =>
    have := c1 hd
    simp only [decIncoming]
    have hlt : ¬ (s.supply sw.denom).incoming - sw.amt < 0 := by omega
    simp only [hlt, ite_false]
    rfl
  | outgoing =>
    obtain ⟨k1, k2, -⟩ := c2 hd
    simp only [decOutgoing]
    have hlt : ¬ (s.supply sw.denom).outgoing - sw.amt < 0 := by omega
    simp only [hlt, ite_false, hb]
    simp only [bankSend]
    have hlt2 : ¬ s.bal cfg.module sw.denom < sw.amt := by omega
    simp only [hlt2, ite_false]
    rfl

theorem claim_outgoing_succeeds {cfg : Cfg} {hs : Hashes} {s : St} (h : Inv cfg hs s) {id : Id} {sw : Swap} {rn : Nat}
    (hf : findSwap s.swaps id = some sw) (hst : sw.status = .open) (hd : sw.dir = .outgoing)
    (hpre : hs.sid (hs.H rn sw.ts) sw.sender sw.other = hs.sid sw.hash sw.sender sw.other) :
    (claim cfg hs s id rn).isOk = true := by
  obtain ⟨hm, -⟩ := findSwap_some hf
  have hnc : sw.status ≠ .completed := by rw [hst]; intro e; cases e
  obtain ⟨-, c2⟩ := live_covered h hm hnc
  obtain ⟨k1, k2, k3⟩ := c2 hd
  unfold claim
  rw [hf]
  have hpre' : hs.sid (hs.H rn sw.ts) sw.sender sw.other = getSwapID hs sw := hpre
  simp only [hst, ne_eq, not_true_eq_false, ite_false, hpre', hd]
  simp only [decOutgoing]
  have hlt : ¬ (s.supply sw.denom).outgoing - sw.amt < 0 := by omega
  simp only [hlt, ite_false, decCurrent]
  have hlt2 : ¬ (s.supply sw.denom).current - sw.amt < 0 := by omega
  simp only [hlt2, ite_false]
  have hlt3 : ¬ s.bal cfg.module sw.denom < sw.amt := by omega
  simp only [hlt3, ite_false]
  rfl

theorem claim_incoming_succeeds {cfg : Cfg} {hs : Hashes} {s : St} (h : Inv cfg hs s) {id : Id} {sw : Swap} {rn : Nat}
    {a : Asset}
    (hf : findSwap s.swaps id = some sw) (hst : sw.status = .open) (hd : sw.dir = .incoming)
    (hpre : hs.sid (hs.H rn sw.ts) sw.sender sw.other = hs.sid sw.hash sw.sender sw.other)
    (ha : getAsset s.assets sw.denom = some a) (hb : cfg.blocked sw.recipient = false)
    (hlim : (s.supply sw.denom).current + sw.amt ≤ a.limit)
    (htl : a.timeLimited = true → (s.supply sw.denom).tlCurrent + sw.amt ≤ a.tbl) :
    (claim cfg hs s id rn).isOk = true := by
  obtain ⟨hm, -⟩ := findSwap_some hf
  have hnc : sw.status ≠ .completed := by rw [hst]; intro e; cases e
  obtain ⟨c1, -⟩ := live_covered h hm hnc
  have k1 := c1 hd
  have hpos := h.pos sw hm
  unfold claim
  rw [hf]
  have hpre' : hs.sid (hs.H rn sw.ts) sw.sender sw.other = getSwapID hs sw := hpre
  simp only [hst, ne_eq, not_true_eq_false, ite_false, hpre', hd]
  simp only [decIncoming]
  have hlt : ¬ (s.supply sw.denom).incoming - sw.amt < 0 := by omega
  simp only [hlt, ite_false, ha, incCurrent]
  have hlt2 : ¬ a.limit < (s.supply sw.denom).current + sw.amt := by omega
  simp only [hlt2, ite_false]
  cases htlb : a.timeLimited with
  | true =>
    have := htl htlb
    have hlt3 : ¬ a.tbl < (s.supply sw.denom).tlCurrent + sw.amt := by omega
    simp only [ite_true, hlt3, ite_false, hb, Bool.false_eq_true, bankSend, upd2, and_self]
    have hlt4 : ¬ s.bal cfg.module sw.denom + sw.amt < sw.amt := by
      have := h.cust sw.denom
      have := sumBy_nonneg (live .outgoing sw.denom) h.pos
      omega
    simp only [hlt4, ite_false]
    rfl
  | false =>
    simp only [Bool.false_eq_true, ite_false, hb, bankSend, upd2, and_self, ite_true]
    have hlt4 : ¬ s.bal cfg.module sw.denom + sw.amt < sw.amt := by
      have := h.cust sw.denom
      have := sumBy_nonneg (live .outgoing sw.denom) h.pos
      omega
    simp only [hlt4, ite_false]
    rfl

end KV.Bep3
