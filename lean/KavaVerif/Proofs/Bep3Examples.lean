/-
  A concrete configuration and history used by the non-vacuity examples of Props/C13.lean.
-/
import KavaVerif.Proofs.Bep3Period
set_option linter.unusedSimpArgs false
set_option linter.unusedVariables false

namespace KV.Bep3

def exCfg : Cfg := { module := 0, macc := fun a => a == 0 || a == 6, blocked := fun a => a == 0 || a == 6 }
def exHs : Hashes := { H := fun rn ts => rn * 7 + ts.toNat % 1000, sid := fun h a o => h * 100 + a * 10 + o }
def exAsset : Asset :=
  { deputy := 1, limit := 1000, timeLimited := true, period := 3600000000000, tbl := 500, active := true,
    fee := 1, minAmt := 1, maxAmt := 400, minLock := 2, maxLock := 5 }
def exGenesis : St :=
  { height := 1, time := 1700000000000000000, prevTime := 1700000000000000000, assets := [(0, exAsset)],
    supply := fun _ => ⟨0, 0, 0, 0, 0⟩, swaps := [], byBlock := [], longterm := [],
    bal := fun _ _ => 0, bankSupply := fun _ => 0 }
/-- deputy → user 3, 100 coins, secret 42 -/
def exOp1 : Op := .create (exHs.H 42 1700000000) 1700000000 3 1 3 7 [(0, 100)]
def exId1 : Id := exHs.sid (exHs.H 42 1700000000) 1 7
/-- anyone (party 5) claims with the right secret -/
def exOp2 : Op := .claim 5 exId1 42
/-- user 3 → deputy, 50 coins -/
def exOp3 : Op := .create (exHs.H 43 1700000000) 1700000000 2 3 1 7 [(0, 50)]
def exId3 : Id := exHs.sid (exHs.H 43 1700000000) 3 7
/-- two blocks later the outgoing swap has expired -/
def exOp4 : Op := .beginBlock 2 5000000000
def exOp5 : Op := .refund 4 exId3


theorem exAssets (d : Denom) (a : Asset) (ha : getAsset exGenesis.assets d = some a) : a = exAsset := by
  have : getAsset exGenesis.assets d = if 0 = d then some exAsset else none := rfl
  rw [this] at ha
  split at ha
  · cases ha; rfl
  · cases ha

end KV.Bep3
