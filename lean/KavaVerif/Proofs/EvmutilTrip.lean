/-
  Helper lemmas for C10, part 3: progress lemmas (when a conversion succeeds), the round trips, the
  refusals, and the ledger-sum invariant (totalSupply = Σ balances). Core Lean only.
-/
import KavaVerif.Proofs.EvmutilInv
set_option linter.unusedSimpArgs false
set_option linter.unusedVariables false

namespace KV.EU

theorem M_ne_Z : M ≠ Z := by decide

/-! ### progress of the primitives -/

theorem bankSub_ok {b : Bank} {d : Denom} {a : Addr} {n : Int} (h : n ≤ b.bal d a) :
    ∃ b', bankSub b d a n = some b' := by
  unfold bankSub; rw [if_neg (by omega)]; exact ⟨_, rfl⟩

theorem ercSub_ok {e : Ledger} {c : Contract} {a : Addr} {n : Int} (h : n ≤ e.bal c a) :
    ∃ e', ercSub e c a n = some e' := by
  unfold ercSub; rw [if_neg (by omega)]; exact ⟨_, rfl⟩

theorem ercTransfer_ok {e : Ledger} {c : Contract} {f t : Addr} {n : Int} (hf : f ≠ Z) (ht : t ≠ Z)
    (h : n ≤ e.bal c f) : ∃ e', ercTransfer e c f t n = some e' := by
  obtain ⟨e1, h1⟩ := ercSub_ok h
  unfold ercTransfer
  rw [if_neg (by intro x; cases x with | inl x => exact hf x | inr x => exact ht x), h1]
  exact ⟨_, rfl⟩

theorem ercBurn_ok {e : Ledger} {c : Contract} {f : Addr} {n : Int} (hf : f ≠ Z)
    (h : n ≤ e.bal c f) : ∃ e', ercBurn e c f n = some e' := by
  obtain ⟨e1, h1⟩ := ercSub_ok h
  unfold ercBurn
  rw [if_neg hf, h1]
  exact ⟨_, rfl⟩

/-! ### lookups agree on a bijective pair list -/

theorem findByDenom_of_mem {l : List Pair} {p : Pair} (h : p ∈ l) : ∃ q, findByDenom l p.2 = some q := by
  induction l with
  | nil => cases h
  | cons x xs ih =>
    unfold findByDenom
    by_cases hx : x.2 = p.2
    · rw [if_pos hx]; exact ⟨x, rfl⟩
    · rw [if_neg hx]
      cases h with
      | head => exact absurd rfl hx
      | tail _ h' => exact ih h'

theorem findByContract_of_mem {l : List Pair} {p : Pair} (h : p ∈ l) : ∃ q, findByContract l p.1 = some q := by
  induction l with
  | nil => cases h
  | cons x xs ih =>
    unfold findByContract
    by_cases hx : x.1 = p.1
    · rw [if_pos hx]; exact ⟨x, rfl⟩
    · rw [if_neg hx]
      cases h with
      | head => exact absurd rfl hx
      | tail _ h' => exact ih h'

theorem findByDenom_of_contract {U : List Pair} (hU : UWf U) {l : List Pair} (hsub : ∀ p ∈ l, p ∈ U)
    {c : Contract} {d : Denom} (h : findByContract l c = some (c, d)) : findByDenom l d = some (c, d) := by
  have hm : (c, d) ∈ l := (findByContract_some h).2
  obtain ⟨q, hq⟩ := findByDenom_of_mem hm
  obtain ⟨hq2, hql⟩ := findByDenom_some hq
  have : q = (c, d) := (hU q (hsub q hql) (c, d) (hsub _ hm)).2 hq2
  rw [← this]; exact hq

theorem findByDenom_none {l : List Pair} {d : Denom} (h : ∀ p ∈ l, p.2 ≠ d) : findByDenom l d = none := by
  induction l with
  | nil => rfl
  | cons x xs ih =>
    unfold findByDenom
    rw [if_neg (h x List.mem_cons_self)]
    exact ih (fun p hp => h p (List.mem_cons_of_mem _ hp))

theorem findByContract_none {l : List Pair} {c : Contract} (h : ∀ p ∈ l, p.1 ≠ c) : findByContract l c = none := by
  induction l with
  | nil => rfl
  | cons x xs ih =>
    unfold findByContract
    rw [if_neg (h x List.mem_cons_self)]
    exact ih (fun p hp => h p (List.mem_cons_of_mem _ hp))

/-! ### progress of the conversions -/

theorem unlock_scale (d : Denom) (amt : Int) : (if isBep3 d = true then amt * F else amt) = amt * scale d := by
  rcases scale_cases d with ⟨h1, h2⟩ | ⟨h1, h2⟩
  · rw [h2, if_pos h1]
  · rw [h2, if_neg (by rw [h1]; decide), Int.mul_one]

/-- MsgConvertCoinToERC20 succeeds when the pair is enabled, the initiator has the coins and the
    module's EVM account holds the ERC20 to unlock -/
theorem coinToErc_ok {s : St} {ini rcv : Addr} {d : Denom} {amt : Int} {c : Contract}
    (hp : findByDenom s.pairs d = some (c, d)) (hpos : 0 < amt) (hf : amt ≤ s.bank.bal d ini)
    (hM : 0 ≤ s.bank.bal d M) (hini : ini ≠ M) (hz : rcv ≠ Z) (hrm : rcv ≠ M)
    (hl : amt * scale d ≤ s.erc.bal c M) : ∃ s', coinToErc s ini rcv d amt = .ok s' := by
  obtain ⟨b1, h1⟩ := bankSub_ok hf
  obtain ⟨_, hb1, _⟩ := bankSub_eff h1
  have hf2 : amt ≤ (bankAdd b1 d M amt).bal d M := by
    rw [bankAdd_bal, hb1]
    have : ¬ (M = ini) := fun e => hini e.symm
    simp only [this, and_false, ite_false, and_self, ite_true]; omega
  obtain ⟨b2, h2⟩ := bankSub_ok hf2
  obtain ⟨e1, h3⟩ := ercTransfer_ok (t := rcv) M_ne_Z hz hl
  obtain ⟨_, _, _, he1, _⟩ := ercTransfer_eff h3
  unfold coinToErc
  rw [if_neg (by omega), hp]
  dsimp only
  rw [h1]
  dsimp only
  rw [h2]
  dsimp only
  rw [unlock_scale, h3]
  dsimp only
  have hchk : s.erc.bal c rcv + amt * scale d = e1.bal c rcv := by
    rw [he1]
    simp only [hrm, and_false, ite_false, and_self, ite_true]; omega
  rw [if_neg (by intro x; exact x hchk)]
  exact ⟨_, rfl⟩

/-- MsgConvertCosmosCoinFromERC20 succeeds when the denom is registered, the initiator holds the
    wrapped tokens, the receiver may receive and the module account holds the coins -/
theorem cosmosFromErc_ok {blocked : Addr → Bool} {s : St} {ini rcv : Addr} {d : Denom} {amt : Int} {k : Nat}
    (hk : s.reg d = some k) (hpos : 0 < amt) (hf : amt ≤ s.erc.bal (.dep k) ini) (hz : ini ≠ Z)
    (hbl : blocked rcv = false) (hm : amt ≤ s.bank.bal d M) :
    ∃ s', cosmosFromErc blocked s ini rcv d amt = .ok s' := by
  obtain ⟨e1, h1⟩ := ercBurn_ok hz hf
  obtain ⟨b1, h2⟩ := bankSub_ok hm
  unfold cosmosFromErc
  rw [if_neg (by omega), hk]
  dsimp only
  rw [if_neg (by omega), h1]
  dsimp only
  rw [hbl]
  simp only [Bool.false_eq_true, ite_false]
  rw [h2]
  exact ⟨_, rfl⟩

/-! ### round trips -/

/-- ERC20 → coin → ERC20: `a` converts `amt` to `b`, `b` converts the minted coins back to `a`:
    the second message succeeds and every balance, supply and total is as before. -/
theorem round_trip_native {U : List Pair} (hU : UWf U) {blocked : Addr → Bool} {s s1 : St}
    {a b : Addr} {c : Contract} {amt : Int} (hI : Inv U s) (hb : b ≠ M)
    (h1 : ercToCoin blocked s a b c amt = .ok s1) :
    ∃ d s2, findByContract s.pairs c = some (c, d) ∧
      coinToErc s1 b a d (amt / scale d) = .ok s2 ∧
      (∀ d' x, s2.bank.bal d' x = s.bank.bal d' x) ∧ (∀ d', s2.bank.supply d' = s.bank.supply d') ∧
      (∀ c' x, s2.erc.bal c' x = s.erc.bal c' x) ∧ s2.erc.total = s.erc.total ∧
      s2.reg = s.reg ∧ s2.nextC = s.nextC ∧ s2.pairs = s.pairs ∧ s2.allowed = s.allowed := by
  obtain ⟨d, m, hp, hpos, hm, hmpos, hf, hz, him, hbl, hb1, hs1, he1, ht1, hr1, hn1, hpa1, hal1⟩ :=
    ercToCoin_spec h1
  subst hm
  have hp2 : findByDenom s1.pairs d = some (c, d) := by
    rw [hpa1]; exact findByDenom_of_contract hU hI.sub hp
  have hMb : ¬ (M = b) := fun e => hb e.symm
  have hMa : ¬ (M = a) := fun e => him e.symm
  have hfb : amt / scale d ≤ s1.bank.bal d b := by
    rw [hb1]; have := hI.bankNN d b; simp only [and_self, ite_true]; omega
  have hMm : 0 ≤ s1.bank.bal d M := by
    rw [hb1]; have := hI.bankNN d M; simp only [hMb, and_false, ite_false]; omega
  have hl : amt / scale d * scale d ≤ s1.erc.bal c M := by
    rw [he1]; have := hI.ercNN c M; simp only [hMa, and_false, ite_false, and_self, ite_true]; omega
  obtain ⟨s2, h2⟩ := coinToErc_ok hp2 hmpos hfb hMm hb hz him hl
  obtain ⟨c2, hp2', _, _, _, _, _, hb2, hs2, he2, ht2, hr2, hn2, hpa2, hal2⟩ := coinToErc_spec h2
  have hc2 : c2 = c := by rw [hp2] at hp2'; cases hp2'; rfl
  subst hc2
  refine ⟨d, s2, hp, h2, ?_, ?_, ?_, by rw [ht2, ht1], by rw [hr2, hr1], by rw [hn2, hn1],
    by rw [hpa2, hpa1], by rw [hal2, hal1]⟩
  · intro d' x; rw [hb2, hb1]; omega
  · intro d'; rw [hs2, hs1]; omega
  · intro c' x; rw [he2, he1]; omega

/-- coin → wrapped ERC20 → coin: `a` converts `amt` of a cosmos coin to `b`, `b` converts it back to
    `a`: the second message succeeds and every balance, supply and total is as before (the registry may
    have gained the — again empty — contract). -/
theorem round_trip_cosmos {U : List Pair} {blocked : Addr → Bool} {s s1 : St}
    {a b : Addr} {d : Denom} {amt : Int} (hI : Inv U s) (ha : a ≠ M) (hba : blocked a = false)
    (h1 : cosmosToErc s a b d amt = .ok s1) :
    ∃ s2, cosmosFromErc blocked s1 b a d amt = .ok s2 ∧
      (∀ d' x, s2.bank.bal d' x = s.bank.bal d' x) ∧ s2.bank.supply = s.bank.supply ∧
      (∀ c' x, s2.erc.bal c' x = s.erc.bal c' x) ∧ (∀ c', s2.erc.total c' = s.erc.total c') ∧
      s2.pairs = s.pairs ∧ s2.allowed = s.allowed := by
  obtain ⟨k, hpos, hal, hf, hz, hreg, hb1, hs1, he1, ht1, hpa1, hal1⟩ := cosmosToErc_spec h1
  have hk1 : s1.reg d = some k := by
    rcases hreg with ⟨hk, hr, _⟩ | ⟨_, _, hr, _⟩
    · rw [hr]; exact hk
    · rw [hr]; simp only [upd_at, ite_true]
  have hMa : ¬ (M = a) := fun e => ha e.symm
  have hfb : amt ≤ s1.erc.bal (.dep k) b := by
    rw [he1]; have := hI.ercNN (.dep k) b; simp only [and_self, ite_true]; omega
  have hm : amt ≤ s1.bank.bal d M := by
    rw [hb1]; have := hI.bankNN d M; simp only [hMa, and_false, ite_false, and_self, ite_true]; omega
  obtain ⟨s2, h2⟩ := cosmosFromErc_ok hk1 hpos hfb hz hba hm
  obtain ⟨k2, _, hk2, _, _, _, _, hb2, hs2, he2, ht2, _, _, hpa2, hal2⟩ := cosmosFromErc_spec h2
  have hkk : k2 = k := by rw [hk1] at hk2; cases hk2; rfl
  subst hkk
  refine ⟨s2, h2, ?_, by rw [hs2, hs1], ?_, ?_, by rw [hpa2, hpa1], by rw [hal2, hal1]⟩
  · intro d' x; rw [hb2, hb1]; omega
  · intro c' x; rw [he2, he1]; omega
  · intro c'; rw [ht2, ht1]; omega

/-! ### refusals -/

theorem coinToErc_disabled {s : St} {ini rcv : Addr} {d : Denom} {amt : Int}
    (h : ∀ p ∈ s.pairs, p.2 ≠ d) : coinToErc s ini rcv d amt = .err := by
  unfold coinToErc
  split
  · rfl
  · rw [findByDenom_none h]

theorem ercToCoin_disabled {blocked : Addr → Bool} {s : St} {ini rcv : Addr} {c : Contract} {amt : Int}
    (h : ∀ p ∈ s.pairs, p.1 ≠ c) : ercToCoin blocked s ini rcv c amt = .err := by
  unfold ercToCoin
  split
  · rfl
  · rw [findByContract_none h]

theorem cosmosToErc_disabled {s : St} {ini rcv : Addr} {d : Denom} {amt : Int}
    (h : ¬ d ∈ s.allowed) : cosmosToErc s ini rcv d amt = .err := by
  unfold cosmosToErc
  split
  · rfl
  · first | rfl | rw [if_pos h]

theorem cosmosFromErc_unregistered {blocked : Addr → Bool} {s : St} {ini rcv : Addr} {d : Denom} {amt : Int}
    (h : s.reg d = none) : cosmosFromErc blocked s ini rcv d amt = .err := by
  unfold cosmosFromErc
  split
  · rfl
  · rw [h]

/-- less than one sdk unit of an 18-decimal bep3 token is refused -/
theorem ercToCoin_dust_refused {blocked : Addr → Bool} {s : St} {ini rcv : Addr} {c : Contract} {d : Denom}
    {amt : Int} (hp : findByContract s.pairs c = some (c, d)) (hd : amt < scale d) :
    ercToCoin blocked s ini rcv c amt = .err := by
  unfold ercToCoin
  split
  · rfl
  rename_i hpos
  rw [hp]
  dsimp only
  rcases scale_cases d with ⟨h1, h2⟩ | ⟨h1, h2⟩
  · rw [h2, F_val] at hd
    have : amt / F = 0 := by rw [F_val]; omega
    rw [if_pos ⟨h1, this⟩]
  · rw [h2] at hd; omega

/-! ### totalSupply = Σ balances -/

def sumOver (l : List Addr) (f : Addr → Int) : Int := (l.map f).foldr (· + ·) 0

theorem sumOver_congr {l : List Addr} {f g : Addr → Int} (h : ∀ a ∈ l, f a = g a) : sumOver l f = sumOver l g := by
  induction l with
  | nil => rfl
  | cons x xs ih =>
    have := ih (fun a ha => h a (List.mem_cons_of_mem _ ha))
    simp only [sumOver, List.map_cons, List.foldr_cons] at this ⊢
    rw [this, h x List.mem_cons_self]

theorem sumOver_add (l : List Addr) (f g : Addr → Int) :
    sumOver l (fun a => f a + g a) = sumOver l f + sumOver l g := by
  induction l with
  | nil => rfl
  | cons x xs ih =>
    simp only [sumOver, List.map_cons, List.foldr_cons] at ih ⊢
    rw [ih]; omega

theorem sumOver_sub (l : List Addr) (f g : Addr → Int) :
    sumOver l (fun a => f a - g a) = sumOver l f - sumOver l g := by
  induction l with
  | nil => rfl
  | cons x xs ih =>
    simp only [sumOver, List.map_cons, List.foldr_cons] at ih ⊢
    rw [ih]; omega

theorem sumOver_zero (l : List Addr) : sumOver l (fun _ => 0) = 0 := by
  induction l with
  | nil => rfl
  | cons x xs ih =>
    simp only [sumOver, List.map_cons, List.foldr_cons] at ih ⊢
    rw [ih]; rfl

theorem sumOver_ind_notin {l : List Addr} {x : Addr} (n : Int) (h : x ∉ l) :
    sumOver l (fun a => if a = x then n else 0) = 0 := by
  have : sumOver l (fun a => if a = x then n else 0) = sumOver l (fun _ => 0) := by
    apply sumOver_congr
    intro a ha
    have : a ≠ x := fun e => h (e ▸ ha)
    simp only [this, ite_false]
  rw [this, sumOver_zero]

theorem sumOver_ind {l : List Addr} {x : Addr} (n : Int) (hn : l.Nodup) (h : x ∈ l) :
    sumOver l (fun a => if a = x then n else 0) = n := by
  induction l with
  | nil => cases h
  | cons y ys ih =>
    have hnd := List.nodup_cons.mp hn
    simp only [sumOver, List.map_cons, List.foldr_cons]
    by_cases hy : y = x
    · subst hy
      have := sumOver_ind_notin n hnd.1
      simp only [sumOver] at this
      rw [this]; simp only [ite_true]; omega
    · have hm : x ∈ ys := by
        cases h with
        | head => exact absurd rfl hy
        | tail _ h' => exact h'
      have := ih hnd.2 hm
      simp only [sumOver] at this
      rw [this]; simp only [hy, ite_false]; omega

/-- indicator with a contract guard -/
theorem sumOver_ind2 {l : List Addr} {x : Addr} (n : Int) (hn : l.Nodup) (h : x ∈ l) (c' c : Contract) :
    sumOver l (fun a => if c' = c ∧ a = x then n else 0) = if c' = c then n else 0 := by
  by_cases hc : c' = c
  · simp only [hc, true_and, ite_true]; exact sumOver_ind n hn h
  · simp only [hc, false_and, ite_false]; exact sumOver_zero l

/-- the ledger invariant of the trusted ERC20 semantics: totalSupply = Σ balances over `accts`
    (a duplicate-free list of every address that ever holds tokens) -/
def LedgerSum (accts : List Addr) (s : St) : Prop := ∀ c, s.erc.total c = sumOver accts (s.erc.bal c)

/-- the addresses an operation names -/
def opAddrs : Op → List Addr
  | .coinToErc i r _ _ => [i, r]
  | .ercToCoin i r _ _ => [i, r]
  | .cosmosToErc i r _ _ => [i, r]
  | .cosmosFromErc i r _ _ => [i, r]
  | .transfer _ f t _ => [f, t]
  | .send _ f t _ => [f, t]
  | .extMint _ t _ => [t]
  | .setPairs _ => []
  | .setAllowed _ => []

theorem ledger_bal_transfer {accts : List Addr} (hn : accts.Nodup) {s s' : St} {c : Contract} {f t : Addr} {n : Int}
    (hf : f ∈ accts) (ht : t ∈ accts) (hL : LedgerSum accts s)
    (he : ∀ c' a, s'.erc.bal c' a = s.erc.bal c' a - (if c' = c ∧ a = f then n else 0) + (if c' = c ∧ a = t then n else 0))
    (htot : s'.erc.total = s.erc.total) : LedgerSum accts s' := by
  intro c'
  rw [htot, hL c']
  have : sumOver accts (s'.erc.bal c') = sumOver accts (fun a => (s.erc.bal c' a - (if c' = c ∧ a = f then n else 0)) + (if c' = c ∧ a = t then n else 0)) :=
    sumOver_congr (fun a _ => he c' a)
  rw [this, sumOver_add, sumOver_sub, sumOver_ind2 n hn hf, sumOver_ind2 n hn ht]
  omega

theorem ledger_bal_mint {accts : List Addr} (hn : accts.Nodup) {s s' : St} {c : Contract} {t : Addr} {n : Int}
    (ht : t ∈ accts) (hL : LedgerSum accts s)
    (he : ∀ c' a, s'.erc.bal c' a = s.erc.bal c' a + (if c' = c ∧ a = t then n else 0))
    (htot : ∀ c', s'.erc.total c' = s.erc.total c' + (if c' = c then n else 0)) : LedgerSum accts s' := by
  intro c'
  rw [htot, hL c']
  have : sumOver accts (s'.erc.bal c') = sumOver accts (fun a => s.erc.bal c' a + (if c' = c ∧ a = t then n else 0)) :=
    sumOver_congr (fun a _ => he c' a)
  rw [this, sumOver_add, sumOver_ind2 n hn ht]

theorem ledger_bal_burn {accts : List Addr} (hn : accts.Nodup) {s s' : St} {c : Contract} {f : Addr} {n : Int}
    (hf : f ∈ accts) (hL : LedgerSum accts s)
    (he : ∀ c' a, s'.erc.bal c' a = s.erc.bal c' a - (if c' = c ∧ a = f then n else 0))
    (htot : ∀ c', s'.erc.total c' = s.erc.total c' - (if c' = c then n else 0)) : LedgerSum accts s' := by
  intro c'
  rw [htot, hL c']
  have : sumOver accts (s'.erc.bal c') = sumOver accts (fun a => s.erc.bal c' a - (if c' = c ∧ a = f then n else 0)) :=
    sumOver_congr (fun a _ => he c' a)
  rw [this, sumOver_sub, sumOver_ind2 n hn hf]

theorem ledger_step {accts : List Addr} (hn : accts.Nodup) (hM : M ∈ accts) {blocked : Addr → Bool}
    {s s' : St} {op : Op} (hop : ∀ a ∈ opAddrs op, a ∈ accts) (hL : LedgerSum accts s)
    (h : step blocked s op = .ok s') : LedgerSum accts s' := by
  cases op with
  | coinToErc i r d a =>
    obtain ⟨c, _, _, _, _, _, _, _, _, he, ht, _⟩ := coinToErc_spec h
    have hr : r ∈ accts := hop r (by simp [opAddrs])
    refine ledger_bal_transfer hn hM hr hL (c := c) (n := a * scale d) ?_ ht
    intro c' x; rw [he]; omega
  | ercToCoin i r c a =>
    obtain ⟨d, m, _, _, _, _, _, _, _, _, _, _, he, ht, _⟩ := ercToCoin_spec h
    have hi : i ∈ accts := hop i (by simp [opAddrs])
    exact ledger_bal_transfer hn hi hM hL he ht
  | cosmosToErc i r d a =>
    obtain ⟨k, _, _, _, _, _, _, _, he, ht, _⟩ := cosmosToErc_spec h
    have hr : r ∈ accts := hop r (by simp [opAddrs])
    exact ledger_bal_mint hn hr hL he ht
  | cosmosFromErc i r d a =>
    obtain ⟨k, _, _, _, _, _, _, _, _, he, ht, _⟩ := cosmosFromErc_spec h
    have hi : i ∈ accts := hop i (by simp [opAddrs])
    exact ledger_bal_burn hn hi hL he ht
  | transfer c f t a =>
    obtain ⟨_, _, _, _, he, ht, _⟩ := envTransfer_spec h
    exact ledger_bal_transfer hn (hop f (by simp [opAddrs])) (hop t (by simp [opAddrs])) hL he ht
  | send d f t a =>
    obtain ⟨_, _, _, _, _, he, _⟩ := envSend_spec h
    intro c'; rw [he]; exact hL c'
  | extMint c t a =>
    obtain ⟨_, _, _, he, ht, _⟩ := extMint_spec h
    exact ledger_bal_mint hn (hop t (by simp [opAddrs])) hL he ht
  | setPairs l => cases h; exact hL
  | setAllowed l => cases h; exact hL

theorem ledger_run {accts : List Addr} (hn : accts.Nodup) (hM : M ∈ accts) {blocked : Addr → Bool}
    (ops : List Op) : ∀ (s : St), (∀ op ∈ ops, ∀ a ∈ opAddrs op, a ∈ accts) → LedgerSum accts s →
      LedgerSum accts (run blocked s ops) := by
  induction ops with
  | nil => intro s _ hL; exact hL
  | cons op ops ih =>
    intro s hop hL
    show LedgerSum accts (run blocked (apply blocked s op) ops)
    apply ih _ (fun o ho => hop o (List.mem_cons_of_mem _ ho))
    unfold apply
    split
    · rename_i s' h; exact ledger_step hn hM (hop op List.mem_cons_self) hL h
    · exact hL

end KV.EU
