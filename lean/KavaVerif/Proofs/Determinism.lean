/-
  Helper lemmas for C01: permutation invariance of folds and canonicity of sorting. Core Lean only.
-/
import KavaVerif.Model.Determinism
set_option linter.unusedSimpArgs false
set_option linter.unusedVariables false

namespace KV.Det
open List

/-- a right-commutative step function gives a permutation-invariant left fold -/
theorem foldl_perm_of_rcomm {α β : Type} (f : β → α → β) (hc : ∀ z x y, f (f z x) y = f (f z y) x)
    {l l' : List α} (h : l.Perm l') (a : β) : l.foldl f a = l'.foldl f a :=
  h.foldl_eq' (fun x _ y _ z => hc z x y) a

/-- sorting with a total, transitive, antisymmetric order does not depend on the input order -/
theorem sort_perm_canonical {α : Type} (le : α → α → Bool)
    (htrans : ∀ a b c, le a b = true → le b c = true → le a c = true)
    (htotal : ∀ a b, (le a b || le b a) = true)
    (hanti : ∀ a b, le a b = true → le b a = true → a = b)
    {l l' : List α} (h : l.Perm l') : l.mergeSort le = l'.mergeSort le := by
  apply Perm.eq_of_pairwise (le := fun a b => le a b = true)
  · intro a b _ _ hab hba; exact hanti a b hab hba
  · exact pairwise_mergeSort htrans htotal l
  · exact pairwise_mergeSort htrans htotal l'
  · exact (mergeSort_perm l le).trans (h.trans (mergeSort_perm l' le).symm)

theorem sle_trans (a b c : String) : sle a b = true → sle b c = true → sle a c = true := by
  unfold sle; simp only [decide_eq_true_eq]; exact String.le_trans

theorem sle_total (a b : String) : (sle a b || sle b a) = true := by
  unfold sle; simp only [Bool.or_eq_true, decide_eq_true_eq]; exact String.le_total a b

theorem sle_antisymm (a b : String) : sle a b = true → sle b a = true → a = b := by
  unfold sle; simp only [decide_eq_true_eq]; exact String.le_antisymm

theorem str_lt_of_le_of_ne {a b : String} (h : a ≤ b) (hne : a ≠ b) : a < b := by
  apply Classical.byContradiction
  intro hn
  exact hne (String.le_antisymm h (String.not_lt.mp hn))

theorem str_lt_or_gt_of_ne {a b : String} (hne : a ≠ b) : a < b ∨ b < a := by
  rcases String.le_total a b with h | h
  · exact Or.inl (str_lt_of_le_of_ne h hne)
  · exact Or.inr (str_lt_of_le_of_ne h (Ne.symm hne))

theorem selLe_total (a b : String × String) : (selLe a b || selLe b a) = true := by
  unfold selLe
  by_cases h : a.1 = b.1
  · rw [if_pos h, if_pos h.symm]
    simp only [Bool.or_eq_true, decide_eq_true_eq]
    exact String.le_total a.2 b.2
  · have h' : ¬ b.1 = a.1 := fun e => h e.symm
    rw [if_neg h, if_neg h']
    simp only [Bool.or_eq_true, decide_eq_true_eq]
    exact str_lt_or_gt_of_ne h

theorem selLe_antisymm (a b : String × String) : selLe a b = true → selLe b a = true → a = b := by
  unfold selLe
  by_cases h : a.1 = b.1
  · rw [if_pos h, if_pos h.symm]
    simp only [decide_eq_true_eq]
    intro h1 h2
    exact Prod.ext h (String.le_antisymm h1 h2)
  · have h' : ¬ b.1 = a.1 := fun e => h e.symm
    rw [if_neg h, if_neg h']
    simp only [decide_eq_true_eq]
    intro h1 h2
    exact absurd h2 (String.lt_asymm h1)

theorem selLe_trans (a b c : String × String) : selLe a b = true → selLe b c = true → selLe a c = true := by
  unfold selLe
  by_cases hab : a.1 = b.1 <;> by_cases hbc : b.1 = c.1
  · have hac : a.1 = c.1 := hab.trans hbc
    rw [if_pos hab, if_pos hbc, if_pos hac]
    simp only [decide_eq_true_eq]
    exact String.le_trans
  · have hac : ¬ a.1 = c.1 := fun e => hbc (hab.symm.trans e)
    rw [if_pos hab, if_neg hbc, if_neg hac]
    simp only [decide_eq_true_eq]
    intro _ h2; rw [hab]; exact h2
  · have hac : ¬ a.1 = c.1 := fun e => hab (e.trans hbc.symm)
    rw [if_neg hab, if_pos hbc, if_neg hac]
    simp only [decide_eq_true_eq]
    intro h1 _; rw [← hbc]; exact h1
  · rw [if_neg hab, if_neg hbc]
    simp only [decide_eq_true_eq]
    intro h1 h2
    have hlt : a.1 < c.1 := String.lt_trans h1 h2
    have hac : ¬ a.1 = c.1 := String.ne_of_lt hlt
    rw [if_neg hac]
    simp only [decide_eq_true_eq]
    exact hlt

/-- `paramChangesAllowed` is the universal quantifier over the entries -/
theorem paramChangesAllowed_eq_all (allowed : String → Bool) (incoming : String → Option String)
    (l : List (String × String)) :
    paramChangesAllowed allowed incoming l = l.all (fun kv => !(!allowed kv.1 && incoming kv.1 != some kv.2)) := by
  induction l with
  | nil => rfl
  | cons x xs ih =>
    obtain ⟨k, v⟩ := x
    unfold paramChangesAllowed
    simp only [List.all_cons]
    by_cases h : (!allowed k && incoming k != some v) = true
    · simp only [h, ite_true, Bool.not_true, Bool.false_and]
    · simp only [h, Bool.false_eq_true, ite_false, ih]
      simp only [Bool.not_eq_true] at h
      simp only [h, Bool.not_false, Bool.true_and]

theorem keysAllKnown_eq_all (inCurrent : String → Bool) (l : List (String × String)) :
    keysAllKnown inCurrent l = l.all (fun kv => inCurrent kv.1) := by
  induction l with
  | nil => rfl
  | cons x xs ih =>
    obtain ⟨k, v⟩ := x
    unfold keysAllKnown
    simp only [List.all_cons]
    by_cases h : inCurrent k = true
    · simp only [h, Bool.not_true, Bool.false_eq_true, ite_false, ih, Bool.true_and]
    · simp only [Bool.not_eq_true] at h
      simp only [h, Bool.not_false, ite_true, Bool.false_and]

/-- `sharesBroken` is the sticky flag or-ed with the existential quantifier over the entries -/
theorem sharesBroken_eq_any (b0 : Bool) (l : List (String × Int × Int)) :
    sharesBroken b0 l = (l.any (fun e => e.2.1 != e.2.2) || b0) := by
  induction l with
  | nil => simp [sharesBroken]
  | cons x xs ih =>
    obtain ⟨k, t, o⟩ := x
    unfold sharesBroken
    simp only [List.any_cons]
    by_cases h : (t != o) = true
    · simp only [h, ite_true, Bool.true_or]
    · simp only [h, Bool.false_eq_true, ite_false, ih]
      simp only [Bool.not_eq_true] at h
      simp only [h, Bool.false_or]

/-- `swapGenesisCheck` rejects exactly when some entry mismatches -/
theorem swapGenesisCheck_isSome (l : List (String × Int × Int)) :
    (swapGenesisCheck l).isSome = l.any (fun e => e.2.1 != e.2.2) := by
  induction l with
  | nil => rfl
  | cons x xs ih =>
    obtain ⟨k, t, o⟩ := x
    unfold swapGenesisCheck
    simp only [List.any_cons]
    by_cases h : (t != o) = true
    · simp only [h, ite_true, Option.isSome_some, Bool.true_or]
    · simp only [h, Bool.false_eq_true, ite_false, ih]
      simp only [Bool.not_eq_true] at h
      simp only [h, Bool.false_or]

/-- folding an `add` that returns a permutation of `c :: cs` yields a permutation of the input -/
theorem foldl_add_perm (add : List (String × Int) → String × Int → List (String × Int))
    (hadd : ∀ cs c, (add cs c).Perm (c :: cs)) (l : List (String × Int)) (acc : List (String × Int)) :
    (l.foldl add acc).Perm (l ++ acc) := by
  induction l generalizing acc with
  | nil => exact Perm.refl _
  | cons x xs ih =>
    simp only [List.foldl_cons, List.cons_append]
    refine (ih (add acc x)).trans ?_
    refine (perm_append_left_iff xs).mpr (hadd acc x) |>.trans ?_
    exact perm_middle

/-- entries with pairwise distinct keys are determined by their key -/
theorem eq_of_nodup_keys {β : Type} : ∀ {l : List (String × β)}, (l.map (·.1)).Nodup →
    ∀ {a b : String × β}, a ∈ l → b ∈ l → a.1 = b.1 → a = b
  | [], _, _, _, ha, _, _ => by cases ha
  | x :: xs, hk, a, b, ha, hb, h => by
    simp only [List.map_cons, List.nodup_cons, List.mem_map, not_exists, not_and] at hk
    simp only [List.mem_cons] at ha hb
    rcases ha with rfl | ha <;> rcases hb with rfl | hb
    · rfl
    · exact absurd h.symm (hk.1 b hb)
    · exact absurd h (hk.1 a ha)
    · exact eq_of_nodup_keys hk.2 ha hb h

end KV.Det
