/-
  C04/C05 helper lemmas, part 4: seizure, keeper liquidation and the begin blocker.
  Core Lean only.
-/
import KavaVerif.Proofs.CdpOps
import KavaVerif.Proofs.CdpRatio
set_option linter.unusedVariables false
set_option linter.unusedSimpArgs false

namespace KV.Cdp
open KV

/-- total debt handed to auctions by `AuctionCollateral`, starting with `remaining` debt to distribute -/
def sumShares (total debt : Int) : Int → List (Acct × Int) → Int
  | _, [] => 0
  | remaining, (_, v) :: rest =>
    cappedShare (debtCovered v total debt) remaining rest.isEmpty +
      sumShares total debt (remaining - cappedShare (debtCovered v total debt) remaining rest.isEmpty) rest

/-- the shares handed out add up to exactly the debt to distribute (the last deposit takes the remainder) -/
theorem sumShares_exact (total debt : Int) : ∀ (l : List (Acct × Int)) (remaining : Int), l ≠ [] →
    sumShares total debt remaining l = remaining := by
  intro l
  induction l with
  | nil => intro _ h; exact absurd rfl h
  | cons hd tl ih =>
    obtain ⟨a, v⟩ := hd
    intro remaining _
    cases tl with
    | nil => simp [sumShares, cappedShare]
    | cons y r =>
      simp only [sumShares] at ih ⊢
      rw [ih _ (by simp)]; omega

/-- no share exceeds what is left -/
theorem cappedShare_le (share remaining : Int) (isLast : Bool) : cappedShare share remaining isLast ≤ remaining := by
  unfold cappedShare; split <;> omega

theorem cappedShare_nonneg (share remaining : Int) (isLast : Bool) (h1 : 0 ≤ share) (h2 : 0 ≤ remaining) :
    0 ≤ cappedShare share remaining isLast := by
  unfold cappedShare; split <;> omega

theorem auctionDeps_spec (cd : Denom) (total debt : Int) (hcd : cd ≠ DEBT) :
    ∀ (l : List (Acct × Int)) (remaining : Int) (s s' : St), auctionDeps s cd total debt remaining l = .ok s' →
      FrameB s s' ∧ s'.supply = s.supply ∧ (∀ d, s'.bal MCDP d = s.bal MCDP d) ∧ debtHeld s' = debtHeld s ∧
      s'.bal MAUC cd = s.bal MAUC cd + sumDeps l ∧
      s'.bal MAUC DEBT = s.bal MAUC DEBT + sumShares total debt remaining l ∧
      s'.bal MLIQ cd = s.bal MLIQ cd - sumDeps l ∧
      (∀ a v, (a, v) ∈ l → v ≠ 0) := by
  intro l
  induction l with
  | nil =>
    intro remaining s s' h
    simp only [auctionDeps] at h; cases h
    exact ⟨FrameB.refl _, rfl, fun _ => rfl, rfl, by simp [sumDeps], by simp [sumShares], by simp [sumDeps],
      fun _ _ hm => by cases hm⟩
  | cons hd tl ih =>
    obtain ⟨a, amt⟩ := hd
    intro remaining s s' h
    simp only [auctionDeps] at h
    split at h
    · cases h
    split at h
    · cases h
    rename_i hamt
    split at h
    · cases h
    rename_i s1 h1
    split at h
    · cases h
    rename_i s2 h2
    obtain ⟨-, hb1, -⟩ := sendB_spec h1
    obtain ⟨F1, hs1⟩ := sendB_frame h1
    obtain ⟨-, hb2, -⟩ := sendB_spec h2
    obtain ⟨F2, hs2⟩ := sendB_frame h2
    obtain ⟨F, hs, hm, hdh, ha, hdb, hl, hnz⟩ := ih _ s2 s' h
    have hcd' : ¬ (DEBT = cd) := fun e => hcd e.symm
    refine ⟨(F1.trans F2).trans F, by rw [hs, hs2, hs1], ?_, ?_, ?_, ?_, ?_, ?_⟩
    · intro d
      rw [hm d, hb2, hb1]
      simp [MCDP, MLIQ, MAUC]
    · rw [hdh]
      unfold debtHeld
      rw [hb2, hb2, hb2, hb1, hb1, hb1]
      simp only [MCDP, MLIQ, MAUC, hcd', hcd, and_false, and_true, ite_false]
      simp
      omega
    · rw [ha, hb2, hb1]
      simp only [MLIQ, MAUC, hcd, and_false, and_true, ite_false, sumDeps]
      simp
      omega
    · rw [hdb, hb2, hb1]
      simp only [MLIQ, MAUC, hcd', and_false, and_true, ite_false, sumShares]
      simp
      omega
    · rw [hl, hb2, hb1]
      simp only [MLIQ, MAUC, hcd, and_false, and_true, ite_false, sumDeps]
      simp
      omega
    · intro a' v hm'
      rcases List.mem_cons.1 hm' with e | hm'
      · cases e; exact hamt
      · exact hnz a' v hm'

/-! ### `SeizeCollateral` -/

theorem recv_liq_auc (deps : List (Acct × Int)) : recv (fun _ : Acct => MLIQ) MAUC deps = 0 := by
  induction deps with
  | nil => rfl
  | cons hd tl ih => obtain ⟨a, v⟩ := hd; simp only [recv, ih]; simp [MLIQ, MAUC]

structure SeizeSpec (E : Env) (g : Int) (s s' : St) (id : Nat) (c : Cdp) (deps : List (Acct × Int)) : Prop where
  inv : Inv E g s'
  other : ∀ j, j ≠ id → s'.cdp j = s.cdp j
  gone : s'.cdp id = none
  deps0 : ∀ a, s'.dep id a = 0
  nextId : s'.nextId = s.nextId
  price : s'.price = s.price
  status : s'.status = s.status
  ifac : s'.ifac = s.ifac
  accr : s'.accr = s.accr
  supply : s'.supply = s.supply
  /-- collateral entering auctions = the deposit records handed to the seizure -/
  aucColl : s'.bal MAUC (denomOf E c.ty) = s.bal MAUC (denomOf E c.ty) + sumDeps deps
  /-- debt entering auctions = the capped per-deposit shares of min(debt, module debt balance) -/
  aucDebt : s'.bal MAUC DEBT = s.bal MAUC DEBT +
    sumShares (sumDeps deps) (if c.prin + c.fees < s.bal MCDP DEBT then c.prin + c.fees else s.bal MCDP DEBT)
      (if c.prin + c.fees < s.bal MCDP DEBT then c.prin + c.fees else s.bal MCDP DEBT) deps

theorem seize_spec {E : Env} {g : Int} {s s' : St} {id : Nat} {c : Cdp} {deps : List (Acct × Int)}
    (hW : WF E) (hI : Inv E g s) (ho : s.cdp id = some c)
    (hsum : sumDeps deps = sumAcc E.accts (s.dep id))
    (hkeys : ∀ a, s.dep id a ≠ 0 → a ∈ deps.map Prod.fst)
    (h : seize E s id c deps = .ok s') : SeizeSpec E g s s' id c deps := by
  unfold seize at h
  dsimp only at h
  split at h
  · cases h
  rename_i s1 h1
  split at h
  · cases h
  rename_i s2 h2
  split at h
  · cases h
  · cases h
  rename_i s3 h3
  cases h
  have hcd : denomOf E c.ty ≠ DEBT := denomOf_ne_debt hW c.ty
  obtain ⟨-, hb1, -⟩ := sendB_spec h1
  obtain ⟨F1, hs1⟩ := sendB_frame h1
  unfold seizeDeps at h2
  have htgt : ∀ a v, (a, v) ∈ deps → (fun _ : Acct => MLIQ) a ≠ MCDP := by
    intro a v _ e
    have e' : (1 : Nat) = 0 := e
    exact absurd e' (by decide)
  obtain ⟨e1, e2, e3, e4, e5, e6, e7, e8, e9, e10, e11, e12, e13, e14, e15⟩ := sendDeps_spec id _ _ _ _ _ htgt h2
  obtain ⟨F3, hs3, hm3, hdh3, ha3, hdb3, hl3, -⟩ := auctionDeps_spec _ _ _ hcd _ _ _ _ h3
  have hcdp : s3.cdp = s.cdp := by rw [F3.cdp, e1, F1.cdp]
  have hdebtHeld : debtHeld s3 = debtHeld s := by
    rw [hdh3]; unfold debtHeld
    have hne : DEBT ≠ denomOf E c.ty := fun e => hcd e.symm
    rw [e14 MCDP DEBT hne, e14 MLIQ DEBT hne, e14 MAUC DEBT hne, hb1, hb1, hb1]
    simp [MCDP, MLIQ, MAUC, DEBT]
    omega
  refine { inv := ⟨?_, ?_, ?_, ?_⟩, other := ?_, gone := ?_, deps0 := ?_, nextId := ?_, price := ?_, status := ?_,
           ifac := ?_, accr := ?_, supply := ?_, aucColl := ?_, aucDebt := ?_ }
  · dsimp only
    rw [hcdp, F3.idx, e4, F1.idx]
    exact idx_delete hI.idx ho
  · dsimp only
    rw [hcdp, F3.own, e3, F1.own]
    exact own_delete hI.own ho
  · dsimp only
    rw [hcdp, F3.nextId, e2, F1.nextId]
    refine coll_delete (dep' := s3.dep) hI.coll ho ?_ ?_ ?_
    · intro a
      rw [F3.dep, e12 a]
      by_cases hm : a ∈ List.map Prod.fst deps
      · simp only [hm, ite_true]
      · simp only [hm, ite_false]
        rw [F1.dep]
        by_cases hz : s.dep id a = 0
        · exact hz
        · exact absurd (hkeys a hz) hm
    · intro j hj; rw [F3.dep, e11 j hj, F1.dep]
    · intro d hd2
      have hd2' : (2 : Nat) ≤ d := hd2
      have a1 : ¬ (d = DEBT) := by intro e; subst e; exact absurd hd2' (by decide)
      rw [hm3 d, e13 d, hb1 MCDP d, hsum, ← hI.coll.1 id c ho]
      simp only [a1, and_false, ite_false]
      by_cases hdc : d = denomOf E c.ty
      · subst hdc; simp
      · have : ¬ denomOf E c.ty = d := fun e => hdc e.symm
        simp [hdc, this]
  · have := hI.debt
    unfold DebtOk at *
    have e : debtHeld { s3 with
        tprin := upd s3.tprin c.ty (if s3.tprin c.ty - (c.prin + c.fees) < 0 then 0 else s3.tprin c.ty - (c.prin + c.fees)),
        own := upd s3.own c.owner (removeOwnerId id (s3.own c.owner)),
        idx := removeKey (c.ty, keyOf E c, id) s3.idx,
        cdp := upd s3.cdp id none } = debtHeld s3 := rfl
    rw [e, hdebtHeld]
    dsimp only
    rw [hs3, e10, hs1]; exact this
  · intro j hj
    dsimp only
    rw [upd_other _ _ _ _ hj, hcdp]
  · dsimp only; rw [upd_same]
  · intro a
    dsimp only
    rw [F3.dep, e12 a]
    by_cases hm : a ∈ List.map Prod.fst deps
    · simp only [hm, ite_true]
    · simp only [hm, ite_false]
      rw [F1.dep]
      by_cases hz : s.dep id a = 0
      · exact hz
      · exact absurd (hkeys a hz) hm
  · dsimp only; rw [F3.nextId, e2, F1.nextId]
  · dsimp only; rw [F3.price, e9, F1.price]
  · dsimp only; rw [F3.status, e8, F1.status]
  · dsimp only; rw [F3.ifac, e6, F1.ifac]
  · dsimp only; rw [F3.accr, e7, F1.accr]
  · dsimp only; rw [hs3, e10, hs1]
  · dsimp only
    rw [ha3, e15 MAUC (by decide), hb1]
    have hne : ¬ (denomOf E c.ty = DEBT) := hcd
    simp only [hne, and_false, ite_false]
    rw [recv_liq_auc]; omega
  · dsimp only
    have hne : DEBT ≠ denomOf E c.ty := fun e => hcd e.symm
    rw [hdb3, e14 MAUC DEBT hne, hb1]
    simp [MCDP, MLIQ, MAUC]

/-! ### keeper liquidation -/

theorem payReward_spec (reward : Int) : ∀ (l l' : List (Acct × Int)) (a : Acct), payReward reward l = some (a, l') →
    a ∈ l.map Prod.fst ∧ l'.map Prod.fst = l.map Prod.fst ∧ sumDeps l' = sumDeps l - reward := by
  intro l
  induction l with
  | nil => intro l' a h; simp [payReward] at h
  | cons hd tl ih =>
    obtain ⟨b, amt⟩ := hd
    intro l' a h
    simp only [payReward] at h
    split at h
    · cases h
      refine ⟨by simp, by simp, ?_⟩
      simp only [sumDeps]; omega
    · split at h
      · cases h
      · rename_i b' rest' hr
        cases h
        obtain ⟨h1, h2, h3⟩ := ih _ _ hr
        refine ⟨by simp only [List.map_cons, List.mem_cons]; exact Or.inr h1, by simp only [List.map_cons, h2], ?_⟩
        simp only [sumDeps, h3]; omega

theorem liquidate_inv {E : Env} {g : Int} {now : Int} {s s' : St} {keeper owner : Acct} {ty : Nat}
    (hW : WF E) (hI : Inv E g s) (hk : (3 : Nat) ≤ keeper)
    (h : liquidate E now s keeper owner ty = .ok s') : Inv E g s' := by
  unfold liquidate at h
  split at h
  · cases h
  split at h
  · cases h
  rename_i id c0 hf
  split at h
  · cases h
  · cases h
  rename_i s1 c1 hsync
  split at h
  · cases h
  rename_i cp hcp
  split at h
  · cases h
  · cases h
  rename_i r hcr
  split at h
  · cases h
  dsimp only at h
  obtain ⟨ho, hty0, -⟩ := findCdp_spec hf
  have S := syncInterest_spec ho hsync
  have hI1 := inv_sync hI ho S
  have ho1 := sync_cdp_id S
  have hkeys1 : ∀ a, s1.dep id a ≠ 0 → a ∈ (depositsOf E s1 id).map Prod.fst := by
    intro a hz
    exact List.mem_map.2 ⟨(a, s1.dep id a), (mem_depositsOf _ _ _ _ _).2 ⟨mem_accts_of_dep hI1.coll hz, hz, rfl⟩, rfl⟩
  split at h
  · -- no deposit can pay the reward
    exact (seize_spec hW hI1 ho1 (sumDeps_depositsOf E s1 id) hkeys1 h).inv
  · rename_i a deps' hpay
    split at h
    · cases h
    rename_i s3 hsend
    split at h
    · cases h
    rename_i s4 hupd
    obtain ⟨hamem, hmap, hsum⟩ := payReward_spec _ _ _ _ hpay
    have haA : a ∈ E.accts := by
      obtain ⟨⟨a', v⟩, hm, e⟩ := List.mem_map.1 hamem
      cases e; exact ((mem_depositsOf _ _ _ _ _).1 hm).1
    obtain ⟨-, hb3, -⟩ := sendB_spec hsend
    obtain ⟨F3, hs3⟩ := sendB_frame hsend
    obtain ⟨old, hold, e4⟩ := updateCdpIdx_spec hupd
    dsimp only at hold F3 hs3 hb3
    rw [F3.cdp, ho1] at hold; cases hold
    have hden1 : denomOf E c1.ty = cp.denom := by rw [S.ty, hty0, denomOf_eq hcp]
    have hcd2 : (2 : Nat) ≤ cp.denom := hW.denoms ty cp hcp
    have hI4 : Inv E g s4 := by
      subst e4
      refine inv_replace (c2 := (⟨c1.owner, c1.ty, c1.coll - rewardOf c1.coll cp.keeperReward, c1.prin, c1.fees, c1.updated, c1.ifac⟩ : Cdp))
        hI1 ho1 (by dsimp only; rw [F3.cdp]) (by dsimp only; rw [F3.idx]) (by dsimp only; rw [F3.own]) rfl ?_ ?_
      · dsimp only
        rw [F3.cdp, F3.dep, F3.nextId]
        have e1 : s1.dep id a - rewardOf c1.coll cp.keeperReward = s1.dep id a + -(rewardOf c1.coll cp.keeperReward) := by omega
        rw [e1]
        refine coll_change hW.nodup haA hI1.coll ho1 rfl (by dsimp only; omega) ?_
        intro d hd2
        rw [hb3 MCDP d, hden1]
        have : ¬ (MCDP = keeper ∧ d = cp.denom) := by
          intro hh; have h0 : (0 : Nat) = keeper := hh.1; omega
        simp only [this, ite_false, true_and]
        by_cases hdc : d = cp.denom
        · subst hdc; simp; omega
        · have : ¬ cp.denom = d := fun e => hdc e.symm
          simp [hdc, this]
      · have := hI1.debt
        unfold DebtOk debtHeld at *
        dsimp only
        rw [hs3, hb3 MCDP DEBT, hb3 MLIQ DEBT, hb3 MAUC DEBT]
        have h1 : ¬ ((1 : Nat) = cp.denom) := by omega
        simp only [DEBT, h1, and_false, ite_false] at *
        omega
    have ho4 : s4.cdp id = some (⟨c1.owner, c1.ty, c1.coll - rewardOf c1.coll cp.keeperReward, c1.prin, c1.fees, c1.updated, c1.ifac⟩ : Cdp) := by
      rw [e4]; dsimp only; rw [upd_same]
    have hdep4 : s4.dep = upd2 s1.dep id a (s1.dep id a - rewardOf c1.coll cp.keeperReward) := by
      rw [e4]; dsimp only; rw [F3.dep]
    refine (seize_spec hW hI4 ho4 ?_ ?_ h).inv
    · rw [hsum, sumDeps_depositsOf, hdep4]
      have : upd2 s1.dep id a (s1.dep id a - rewardOf c1.coll cp.keeperReward) id
          = upd (s1.dep id) a (s1.dep id a - rewardOf c1.coll cp.keeperReward) := by
        funext x; simp [upd2, upd]
      rw [this, sumAcc_upd _ _ _ _ hW.nodup haA]; omega
    · intro b hb
      rw [hmap]
      by_cases hba : b = a
      · subst hba; exact hamem
      · rw [hdep4, upd2_other _ _ _ _ _ _ (by intro hh; exact hba hh.2)] at hb
        exact hkeys1 b hb

/-! ### begin blocker -/

/-- the invariant only reads the CDP table, the two indexes, the deposits, `nextId`, the module's collateral
    balances, the usdx supply and the debt coins of the three module accounts -/
theorem inv_transport {E : Env} {g : Int} {s s' : St} (hI : Inv E g s)
    (h1 : s'.cdp = s.cdp) (h2 : s'.idx = s.idx) (h3 : s'.own = s.own) (h4 : s'.dep = s.dep)
    (h5 : s'.nextId = s.nextId) (h6 : ∀ d, 2 ≤ d → s'.bal MCDP d = s.bal MCDP d) (h7 : DebtOk g s') : Inv E g s' := by
  refine ⟨by rw [h1, h2]; exact hI.idx, by rw [h1, h3]; exact hI.own, ?_, h7⟩
  rw [h1, h4, h5]; exact coll_bal_eq hI.coll h6

theorem accumulate_inv {E : Env} {g : Int} {now : Int} {s s' : St} {ty : Nat} {cp : CollParam} {f : Dec}
    (hI : Inv E g s) (h : accumulate now s ty cp f = .ok s') :
    Inv E g s' ∧ s'.cdp = s.cdp ∧ s'.price = s.price := by
  have triv : ∀ (s'' : St), s''.cdp = s.cdp → s''.idx = s.idx → s''.own = s.own → s''.dep = s.dep →
      s''.nextId = s.nextId → s''.bal = s.bal → s''.supply = s.supply → s''.price = s.price →
      Inv E g s'' ∧ s''.cdp = s.cdp ∧ s''.price = s.price := by
    intro s'' h1 h2 h3 h4 h5 h6 h7 h8
    refine ⟨inv_transport hI h1 h2 h3 h4 h5 (fun d _ => by rw [h6]) ?_, h1, h8⟩
    have := hI.debt; unfold DebtOk debtHeld at *; rw [h6, h7]; exact this
  unfold accumulate at h
  split at h
  · cases h; exact triv _ rfl rfl rfl rfl rfl rfl rfl rfl
  split at h
  · cases h; exact triv _ rfl rfl rfl rfl rfl rfl rfl rfl
  split at h
  · cases h; exact triv _ rfl rfl rfl rfl rfl rfl rfl rfl
  split at h
  · cases h; exact triv _ rfl rfl rfl rfl rfl rfl rfl rfl
  split at h
  · cases h; exact triv _ rfl rfl rfl rfl rfl rfl rfl rfl
  dsimp only at h
  split at h
  · cases h; exact triv _ rfl rfl rfl rfl rfl rfl rfl rfl
  split at h
  · cases h
  cases h
  generalize hacc : Dec.roundInt (Dec.mul f (Dec.ofInt (s.tprin ty))) - s.tprin ty = acc
  obtain ⟨-, hb1, hs1⟩ := mintB_spec s MCDP DEBT acc
  have F1 := mintB_frame s MCDP DEBT acc
  obtain ⟨-, hb2, hs2⟩ := mintB_spec (mintB s MCDP DEBT acc) MLIQ USDX acc
  have F2 := mintB_frame (mintB s MCDP DEBT acc) MLIQ USDX acc
  have F := F1.trans F2
  refine ⟨inv_transport hI (by dsimp only; rw [F.cdp]) (by dsimp only; rw [F.idx]) (by dsimp only; rw [F.own])
    (by dsimp only; rw [F.dep]) (by dsimp only; rw [F.nextId]) ?_ ?_, by dsimp only; rw [F.cdp], by dsimp only; rw [F.price]⟩
  · intro d hd2
    have hd2' : (2 : Nat) ≤ d := hd2
    have a1 : ¬ (d = DEBT) := by intro e; subst e; exact absurd hd2' (by decide)
    dsimp only
    rw [hb2, hb1]
    simp [MCDP, MLIQ, a1]
  · have := hI.debt
    unfold DebtOk debtHeld at *
    dsimp only
    rw [hs2, hs1, hb2, hb2, hb2, hb1, hb1, hb1]
    simp [MCDP, MLIQ, MAUC, USDX, DEBT] at this ⊢
    omega

theorem keyBulk_eq {E : Env} {cp : CollParam} {c : Cdp} (h : E.P.colls[c.ty]? = some cp) :
    keyBulk E cp c = keyOf E c := by
  unfold keyBulk keyOf
  rw [c2dBulk_eq, cfOf_eq h]

theorem syncOne_inv {E : Env} {g : Int} {s s' : St} {ty : Nat} {cp : CollParam} {gf : Dec} {prev : Int} {id : Nat}
    (hcp : E.P.colls[ty]? = some cp) (hI : Inv E g s) (h : syncOne E s ty cp gf prev id = .ok s') :
    Inv E g s' ∧ s'.price = s.price ∧ s'.accr = s.accr ∧ s'.ifac = s.ifac := by
  unfold syncOne at h
  split at h
  · cases h
  rename_i c ho
  split at h
  · cases h
  rename_i hty
  have hty' : c.ty = ty := Decidable.of_not_not hty
  split at h
  · cases h
  dsimp only at h
  split at h
  · cases h; exact ⟨hI, rfl, rfl, rfl⟩
  cases h
  have hcp' : E.P.colls[c.ty]? = some cp := by rw [hty']; exact hcp
  refine ⟨⟨?_, ?_, ?_, ?_⟩, rfl, rfl, rfl⟩
  · dsimp only
    -- the two hand-computed keys are the helper path's keys of the stored and of the updated CDP
    rw [keyBulk_eq (c := (⟨c.owner, c.ty, c.coll, c.prin, c.fees, (if bulkInterest gf c = 0 then prev else c.updated), c.ifac⟩ : Cdp)) hcp',
      keyBulk_eq (c := (⟨c.owner, c.ty, c.coll, c.prin, c.fees + bulkInterest gf c, prev, gf⟩ : Cdp)) hcp']
    have k1 : keyOf E (⟨c.owner, c.ty, c.coll, c.prin, c.fees, (if bulkInterest gf c = 0 then prev else c.updated), c.ifac⟩ : Cdp)
        = keyOf E c := keyOf_congr E _ _ rfl rfl rfl rfl
    rw [k1, ← hty']
    exact idx_update (c := (⟨c.owner, c.ty, c.coll, c.prin, c.fees + bulkInterest gf c, prev, gf⟩ : Cdp)) hI.idx ho
  · exact own_touch hI.own ho rfl
  · exact coll_touch hI.coll ho rfl rfl
  · exact hI.debt

theorem syncLoop_inv {E : Env} {g : Int} {ty : Nat} {cp : CollParam} {gf : Dec} {prev : Int}
    (hcp : E.P.colls[ty]? = some cp) : ∀ (ids : List Nat) (s s' : St), Inv E g s →
      syncLoop E s ty cp gf prev ids = .ok s' → Inv E g s' ∧ s'.price = s.price ∧ s'.accr = s.accr ∧ s'.ifac = s.ifac := by
  intro ids
  induction ids with
  | nil => intro s s' hI h; simp only [syncLoop] at h; cases h; exact ⟨hI, rfl, rfl, rfl⟩
  | cons id rest ih =>
    intro s s' hI h
    simp only [syncLoop] at h
    split at h
    · rename_i s1 h1
      obtain ⟨hI1, p1, a1, f1⟩ := syncOne_inv hcp hI h1
      obtain ⟨hI2, p2, a2, f2⟩ := ih s1 s' hI1 h
      exact ⟨hI2, p2.trans p1, a2.trans a1, f2.trans f1⟩
    · cases h
    · cases h

theorem syncRisky_inv {E : Env} {g : Int} {s s' : St} {ty : Nat} {cp : CollParam}
    (hcp : E.P.colls[ty]? = some cp) (hI : Inv E g s) (h : syncRisky E s ty cp = .ok s') :
    Inv E g s' ∧ s'.price = s.price := by
  unfold syncRisky at h
  split at h
  · cases h
  split at h
  · cases h
  · obtain ⟨h1, h2, -, -⟩ := syncLoop_inv hcp _ _ _ hI h
    exact ⟨h1, h2⟩

theorem nodup_map_of_inj_on {α β : Type} (f : α → β) : ∀ (l : List α),
    (∀ x, x ∈ l → ∀ y, y ∈ l → f x = f y → x = y) → l.Nodup → (l.map f).Nodup := by
  intro l
  induction l with
  | nil => intro _ _; simp
  | cons a r ih =>
    intro hinj hn
    rw [List.nodup_cons] at hn
    simp only [List.map_cons, List.nodup_cons]
    refine ⟨?_, ih (fun x hx y hy => hinj x (List.mem_cons_of_mem _ hx) y (List.mem_cons_of_mem _ hy)) hn.2⟩
    intro hm
    obtain ⟨y, hy, e⟩ := List.mem_map.1 hm
    have := hinj y (List.mem_cons_of_mem _ hy) a (by simp) e
    subst this; exact hn.1 hy

theorem idx_ids_nodup {E : Env} {cdp : Nat → Option Cdp} {idx sub : List Entry} (h : IdxOk E cdp idx)
    (hs : sub.Sublist idx) : (sub.map (fun e => e.2.2)).Nodup := by
  refine nodup_map_of_inj_on _ sub ?_ (List.Nodup.sublist hs h.2.1)
  intro x hx y hy e
  obtain ⟨c1, hc1, a1, b1⟩ := (h.1 x).1 (hs.subset hx)
  obtain ⟨c2, hc2, a2, b2⟩ := (h.1 y).1 (hs.subset hy)
  rw [e, hc2] at hc1; cases hc1
  exact (entry_ext x y).2 ⟨a1.trans a2.symm, b1.trans b2.symm, e⟩

theorem fetchCdps_spec (s : St) : ∀ (l : List Entry) (cdps : List (Nat × Cdp)), fetchCdps s l = some cdps →
    cdps.map Prod.fst = l.map (fun e => e.2.2) ∧ ∀ id c, (id, c) ∈ cdps → s.cdp id = some c := by
  intro l
  induction l with
  | nil => intro cdps h; simp only [fetchCdps] at h; cases h; exact ⟨rfl, fun _ _ hm => by cases hm⟩
  | cons e rest ih =>
    intro cdps h
    simp only [fetchCdps] at h
    split at h
    · cases h
    rename_i c hc
    split at h
    · cases h
    rename_i l' hl'
    cases h
    obtain ⟨h1, h2⟩ := ih l' hl'
    refine ⟨by simp only [List.map_cons, h1], ?_⟩
    intro id c' hm
    rcases List.mem_cons.1 hm with e' | hm
    · cases e'; exact hc
    · exact h2 id c' hm

theorem seizeLoop_inv {E : Env} {g : Int} (hW : WF E) (price L : Dec) : ∀ (l : List (Nat × Cdp)) (s s' : St), Inv E g s →
    (∀ id c, (id, c) ∈ l → s.cdp id = some c) → (l.map Prod.fst).Nodup →
    seizeLoop E price L s l = .ok s' →
    Inv E g s' ∧ s'.price = s.price ∧
      (∀ id c, (id, c) ∈ l → if blockSkips E c price L = true then s'.cdp id = some c else s'.cdp id = none) ∧
      (∀ j, j ∉ l.map Prod.fst → s'.cdp j = s.cdp j) := by
  intro l
  induction l with
  | nil =>
    intro s s' hI _ _ h
    simp only [seizeLoop] at h; cases h
    exact ⟨hI, rfl, fun _ _ hm => (List.not_mem_nil hm).elim, fun _ _ => rfl⟩
  | cons hd rest ih =>
    obtain ⟨id, c⟩ := hd
    intro s s' hI hst hnd h
    simp only [seizeLoop] at h
    simp only [List.map_cons, List.nodup_cons] at hnd
    have ho : s.cdp id = some c := hst id c (by simp)
    split at h
    · -- re-check: the CDP is at or above the ratio and is left alone
      rename_i hskip
      obtain ⟨hI2, p2, g2, o2⟩ := ih s s' hI (fun j cj hm => hst j cj (List.mem_cons_of_mem _ hm)) hnd.2 h
      refine ⟨hI2, p2, ?_, ?_⟩
      · intro j cj hm
        rcases List.mem_cons.1 hm with e | hm
        · cases e
          simp only [hskip, ite_true]
          rw [o2 id hnd.1]; exact ho
        · exact g2 j cj hm
      · intro j hj
        simp only [List.map_cons, List.mem_cons, not_or] at hj
        exact o2 j hj.2
    · rename_i hskip
      split at h
      · rename_i s1 h1
        have hkeys : ∀ a, s.dep id a ≠ 0 → a ∈ (depositsOf E s id).map Prod.fst := by
          intro a hz
          exact List.mem_map.2 ⟨(a, s.dep id a), (mem_depositsOf _ _ _ _ _).2 ⟨mem_accts_of_dep hI.coll hz, hz, rfl⟩, rfl⟩
        have SP := seize_spec hW hI ho (sumDeps_depositsOf E s id) hkeys h1
        have hst1 : ∀ j cj, (j, cj) ∈ rest → s1.cdp j = some cj := by
          intro j cj hm
          have hne : j ≠ id := by
            intro e; subst e
            exact hnd.1 (List.mem_map.2 ⟨(j, cj), hm, rfl⟩)
          rw [SP.other j hne]; exact hst j cj (List.mem_cons_of_mem _ hm)
        obtain ⟨hI2, p2, g2, o2⟩ := ih s1 s' SP.inv hst1 hnd.2 h
        refine ⟨hI2, p2.trans SP.price, ?_, ?_⟩
        · intro j cj hm
          rcases List.mem_cons.1 hm with e | hm
          · cases e
            simp only [hskip, ite_false]
            rw [o2 id hnd.1]; exact SP.gone
          · exact g2 j cj hm
        · intro j hj
          simp only [List.map_cons, List.mem_cons, not_or] at hj
          rw [o2 j hj.2, SP.other j hj.1]
      · cases h
      · cases h

theorem below_sublist (idx : List Entry) (ty : Nat) (K : Int) : (below idx ty K).Sublist idx :=
  List.filter_sublist

theorem takeCount_sublist {α : Type} (n : Int) (l : List α) : (takeCount n l).Sublist l :=
  List.take_sublist _ _

theorem liquidateBlock_inv {E : Env} {g : Int} {s s' : St} {ty : Nat} {cp : CollParam} {price : Dec}
    (hW : WF E) (hI : Inv E g s) (h : liquidateBlock E s ty cp price = .ok s') :
    Inv E g s' ∧ s'.price = s.price := by
  unfold liquidateBlock at h
  split at h
  · cases h
  rename_i cdps hf
  obtain ⟨hmap, hst⟩ := fetchCdps_spec s _ _ hf
  have hnd : (cdps.map Prod.fst).Nodup := by
    rw [hmap]
    exact idx_ids_nodup hI.idx ((takeCount_sublist _ _).trans (below_sublist _ _ _))
  obtain ⟨h1, h2, -, -⟩ := seizeLoop_inv hW _ _ cdps s s' hI hst hnd h
  exact ⟨h1, h2⟩

theorem bbType_inv {E : Env} {g : Int} {now : Int} {skip : Bool} {s s' : St} {ty : Nat} {cp : CollParam} {f : Dec}
    (hW : WF E) (hcp : E.P.colls[ty]? = some cp) (hI : Inv E g s)
    (h : bbType E now skip s ty cp f = .ok s') : Inv E g s' ∧ s'.price = s.price := by
  have triv : ∀ (s'' : St), s''.cdp = s.cdp → s''.idx = s.idx → s''.own = s.own → s''.dep = s.dep →
      s''.nextId = s.nextId → s''.bal = s.bal → s''.supply = s.supply → Inv E g s'' := by
    intro s'' h1 h2 h3 h4 h5 h6 h7
    refine inv_transport hI h1 h2 h3 h4 h5 (fun d _ => by rw [h6]) ?_
    have := hI.debt; unfold DebtOk debtHeld at *; rw [h6, h7]; exact this
  unfold bbType at h
  split at h
  · cases h; exact ⟨triv _ rfl rfl rfl rfl rfl rfl rfl, rfl⟩
  dsimp only at h
  split at h
  · cases h; exact ⟨triv _ rfl rfl rfl rfl rfl rfl rfl, rfl⟩
  rename_i pl hpl
  split at h
  · cases h
  · cases h
  rename_i s3 hacc
  obtain ⟨hI3, -, p3⟩ := accumulate_inv (by exact triv _ rfl rfl rfl rfl rfl rfl rfl) hacc
  split at h
  · cases h; exact ⟨hI3, p3⟩
  split at h
  · cases h
  · cases h
  rename_i s4 hsync
  obtain ⟨hI4, p4⟩ := syncRisky_inv hcp hI3 hsync
  split at h
  · cases h
  · cases h
  rename_i s5 hliq
  cases h
  obtain ⟨hI5, p5⟩ := liquidateBlock_inv hW hI4 hliq
  exact ⟨hI5, (p5.trans p4).trans p3⟩

theorem zipFrom_mem : ∀ (cps : List CollParam) (facs : List Dec) (i ty : Nat) (cp : CollParam) (f : Dec),
    (ty, cp, f) ∈ zipFrom i cps facs → i ≤ ty ∧ cps[ty - i]? = some cp := by
  intro cps
  induction cps with
  | nil => intro facs i ty cp f h; simp [zipFrom] at h
  | cons c rest ih =>
    intro facs i ty cp f h
    simp only [zipFrom, List.mem_cons] at h
    rcases h with e | h
    · cases e; exact ⟨Nat.le_refl _, by simp⟩
    · obtain ⟨h1, h2⟩ := ih _ _ _ _ _ h
      refine ⟨by omega, ?_⟩
      have : ty - i = (ty - (i + 1)) + 1 := by omega
      rw [this, List.getElem?_cons_succ]; exact h2

theorem bbTypes_inv {E : Env} {g : Int} {now : Int} {skip : Bool} (hW : WF E) :
    ∀ (l : List (Nat × CollParam × Dec)) (s s' : St),
      (∀ ty cp f, (ty, cp, f) ∈ l → E.P.colls[ty]? = some cp) → Inv E g s →
      bbTypes E now skip s l = .ok s' → Inv E g s' ∧ s'.price = s.price := by
  intro l
  induction l with
  | nil => intro s s' _ hI h; simp only [bbTypes] at h; cases h; exact ⟨hI, rfl⟩
  | cons hd rest ih =>
    obtain ⟨ty, cp, f⟩ := hd
    intro s s' hall hI h
    simp only [bbTypes] at h
    split at h
    · rename_i s1 h1
      obtain ⟨hI1, p1⟩ := bbType_inv hW (hall ty cp f (by simp)) hI h1
      obtain ⟨hI2, p2⟩ := ih s1 s' (fun t c f' hm => hall t c f' (List.mem_cons_of_mem _ hm)) hI1 h
      exact ⟨hI2, p2.trans p1⟩
    · cases h
    · cases h

theorem netSurplusAndDebt_inv {E : Env} {g : Int} {s s' : St} (hI : Inv E g s) (h : netSurplusAndDebt s = some s') :
    Inv E g s' ∧ s'.price = s.price := by
  unfold netSurplusAndDebt at h
  dsimp only at h
  split at h
  · cases h; exact ⟨hI, rfl⟩
  split at h
  · cases h
  rename_i s1 hb1
  obtain ⟨-, b1, u1⟩ := burnB_spec hb1
  have F1 := burnB_frame hb1
  obtain ⟨-, b2, u2⟩ := burnB_spec h
  have F2 := burnB_frame h
  have F := F1.trans F2
  refine ⟨inv_transport hI F.cdp F.idx F.own F.dep F.nextId ?_ ?_, F.price⟩
  · intro d hd2
    rw [b2, b1]; simp [MCDP, MLIQ]
  · have := hI.debt
    have e1 : s1.bal MLIQ USDX = s.bal MLIQ USDX := by rw [b1]; simp [USDX, DEBT]
    rw [e1] at b2 u2
    have m1 : minI (s.bal MLIQ USDX) (s.bal MLIQ DEBT) ≤ s.bal MLIQ USDX := by unfold minI; split <;> omega
    have m2 : minI (s.bal MLIQ USDX) (minI (s.bal MLIQ USDX) (s.bal MLIQ DEBT)) = minI (s.bal MLIQ USDX) (s.bal MLIQ DEBT) := by
      by_cases hab : s.bal MLIQ USDX < s.bal MLIQ DEBT
      · simp only [minI, hab, ite_true, Int.lt_irrefl, ite_false]
      · simp only [minI, hab, ite_false]
    rw [m2] at b2 u2
    unfold DebtOk debtHeld at *
    rw [u2, u1, b2 MCDP DEBT, b2 MLIQ DEBT, b2 MAUC DEBT, b1 MCDP DEBT, b1 MLIQ DEBT, b1 MAUC DEBT]
    simp [MCDP, MLIQ, MAUC, USDX, DEBT] at this ⊢
    omega

theorem modsend_inv {E : Env} {g : Int} {s s' : St} {d : Denom} {amt : Int} (hI : Inv E g s) (hd : d = USDX ∨ d = DEBT)
    (h : sendB s MLIQ MAUC d amt = some s') : Inv E g s' ∧ s'.price = s.price := by
  obtain ⟨-, b3, -⟩ := sendB_spec h
  obtain ⟨F3, u3⟩ := sendB_frame h
  refine ⟨inv_transport hI F3.cdp F3.idx F3.own F3.dep F3.nextId ?_ ?_, F3.price⟩
  · intro d hd2; rw [b3]; simp [MCDP, MLIQ, MAUC]
  · have := hI.debt
    unfold DebtOk debtHeld at *
    rw [u3, b3, b3, b3]
    rcases hd with rfl | rfl
    · simp [MCDP, MLIQ, MAUC, USDX, DEBT] at this ⊢; omega
    · simp [MCDP, MLIQ, MAUC, USDX, DEBT] at this ⊢; omega

theorem runAuctions_inv {E : Env} {g : Int} {s s' : St} (hI : Inv E g s) (h : runAuctions E s = .ok s') :
    Inv E g s' ∧ s'.price = s.price := by
  unfold runAuctions at h
  split at h
  · cases h
  rename_i s2 h2
  obtain ⟨hI2, p2⟩ := netSurplusAndDebt_inv hI h2
  split at h
  · cases h
  rename_i s3 h3
  have r3 : Inv E g s3 ∧ s3.price = s2.price := by
    unfold startDebtAuction at h3
    split at h3
    · exact modsend_inv hI2 (Or.inr rfl) h3
    · cases h3; exact ⟨hI2, rfl⟩
  obtain ⟨hI3, p3⟩ := r3
  split at h
  · cases h
  rename_i s4 h4
  have r4 : Inv E g s4 ∧ s4.price = s3.price := by
    unfold startSurplusAuction at h4
    split at h4
    · cases h4; exact ⟨hI3, rfl⟩
    · exact modsend_inv hI3 (Or.inl rfl) h4
  cases h
  exact ⟨r4.1, (r4.2.trans p3).trans p2⟩

/-- the begin blocker only visits listed types, each with its own parameters -/
theorem blockTypes_mem {E : Env} {facs : List Dec} {ty : Nat} {cp : CollParam} {f : Dec}
    (hm : (ty, cp, f) ∈ blockTypes E facs) : E.P.colls[ty]? = some cp ∧ cp.active = true ∧ ty ∈ E.P.order := by
  unfold blockTypes at hm
  obtain ⟨t, ht, he⟩ := List.mem_filterMap.1 hm
  split at he
  · rename_i cp' hcp
    split at he
    · rename_i ha
      cases he
      exact ⟨hcp, ha, ht⟩
    · cases he
  · cases he

theorem beginBlock_inv {E : Env} {g : Int} {now : Int} {skip : Bool} {facs : List Dec} {s s' : St}
    (hW : WF E) (hI : Inv E g s) (h : beginBlock E now skip facs s = .ok s') : Inv E g s' ∧ s'.price = s.price := by
  unfold beginBlock at h
  split at h
  · cases h
  · cases h
  rename_i s1 h1
  have hall : ∀ ty cp f, (ty, cp, f) ∈ blockTypes E facs → E.P.colls[ty]? = some cp :=
    fun ty cp f hm => (blockTypes_mem hm).1
  obtain ⟨hI1, p1⟩ := bbTypes_inv hW _ s s1 hall hI h1
  split at h
  · cases h
  · cases h
  rename_i s2 h2
  cases h
  obtain ⟨hI2, p2⟩ := runAuctions_inv hI1 h2
  exact ⟨hI2, p2.trans p1⟩

/-! ### whole histories -/

/-- the accounts an operation names can hold deposits / are ordinary user accounts -/
def OpOk (E : Env) : Op → Prop
  | .create _ o _ _ _ _ _ => o ∈ E.accts
  | .deposit _ _ d _ _ _ => d ∈ E.accts
  | .liquidate _ k _ _ => (3 : Nat) ≤ k
  | _ => True

theorem step_inv {E : Env} {g : Int} {s s' : St} {op : Op} (hW : WF E) (hI : Inv E g s) (hop : OpOk E op)
    (h : step E s op = .ok s') : Inv E g s' := by
  cases op with
  | create now o ty c cd p pd => exact create_inv hW hI hop h
  | deposit now o d ty c cd => exact deposit_inv hW hI hop h
  | withdraw now o d ty c cd => exact withdraw_inv hW hI h
  | draw now o ty p pd => exact draw_inv hW hI h
  | repay now o ty pay pd => exact repay_inv hW hI h
  | liquidate now k o ty => exact liquidate_inv hW hI hop h
  | beginBlock now skip facs => exact (beginBlock_inv hW hI h).1
  | setPrice m p =>
    simp only [step] at h; cases h
    refine inv_transport hI rfl rfl rfl rfl rfl (fun _ _ => rfl) ?_
    exact hI.debt

theorem apply_inv {E : Env} {g : Int} {s : St} {op : Op} (hW : WF E) (hI : Inv E g s) (hop : OpOk E op) :
    Inv E g (apply E s op) := by
  unfold apply
  split
  · rename_i s' h; exact step_inv hW hI hop h
  · exact hI

theorem run_inv {E : Env} {g : Int} (hW : WF E) : ∀ (ops : List Op) (s : St), Inv E g s →
    (∀ op, op ∈ ops → OpOk E op) → Inv E g (run E s ops) := by
  intro ops
  induction ops with
  | nil => intro s hI _; exact hI
  | cons op rest ih =>
    intro s hI hall
    simp only [run]
    exact ih _ (apply_inv hW hI (hall op (by simp))) (fun o hm => hall o (List.mem_cons_of_mem _ hm))

end KV.Cdp
