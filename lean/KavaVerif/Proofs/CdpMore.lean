/-
  C04/C05 helper lemmas, part 5: closing repay returns the deposits, the block liquidator takes the lowest
  index entries first, single-deposit seizures hand over exactly the debt, interest accrual rounding.
  Core Lean only.
-/
import KavaVerif.Proofs.CdpGate
set_option linter.unusedVariables false
set_option linter.unusedSimpArgs false

namespace KV.Cdp
open KV

/-! ### closing repay -/

theorem recv_id_filter (dep : Acct → Int) (x : Acct) : ∀ (l : List Acct), l.Nodup →
    recv (fun a => a) x ((l.filter (fun a => dep a ≠ 0)).map (fun a => (a, dep a))) = if x ∈ l then dep x else 0 := by
  intro l
  induction l with
  | nil => intro _; simp [recv]
  | cons a r ih =>
    intro hn
    rw [List.nodup_cons] at hn
    simp only [List.filter_cons]
    by_cases hz : dep a = 0
    · simp only [hz, ne_eq, not_true_eq_false, decide_false, Bool.false_eq_true, ite_false]
      rw [ih hn.2]
      by_cases hx : x = a
      · subst hx; simp [hn.1, hz]
      · simp [hx]
    · simp only [hz, ne_eq, not_false_eq_true, decide_true, ite_true, List.map_cons, recv]
      rw [ih hn.2]
      by_cases hx : x = a
      · subst hx; simp [hn.1]
      · have : ¬ a = x := fun e => hx e.symm
        simp [hx, this]

theorem recv_id_depositsOf (E : Env) (s : St) (id : Nat) (x : Acct) (hn : E.accts.Nodup) :
    recv (fun a => a) x (depositsOf E s id) = if x ∈ E.accts then s.dep id x else 0 := by
  unfold depositsOf
  exact recv_id_filter (s.dep id) x E.accts hn

/-- a repay that closes the CDP pays every depositor exactly its recorded deposit -/
theorem repay_close_balances {E : Env} {g : Int} {now : Int} {s s' : St} {owner : Acct} {ty : Nat} {pay : Int} {pd : Denom}
    {id : Nat} {c0 : Cdp} {cp : CollParam}
    (hW : WF E) (hI : Inv E g s) (hcp : E.P.colls[ty]? = some cp) (hf : findCdp s owner ty = some (id, c0))
    (h : repay E now s owner ty pay pd = .ok s') (hgone : s'.cdp id = none) :
    ∀ a, a ∈ E.accts → s'.bal a cp.denom = s.bal a cp.denom + s.dep id a := by
  unfold repay at h
  split at h
  · cases h
  split at h
  · cases h
  split at h
  · cases h
  rename_i id' c0' hf'
  rw [hf] at hf'; cases hf'
  split at h
  · cases h
  split at h
  · cases h
  split at h
  · cases h
  · cases h
  rename_i s1 c1 hsync
  dsimp only at h
  split at h
  · cases h
  split at h
  · cases h
  rename_i s2 hsend2
  split at h
  · cases h
  rename_i s3 hburn3
  split at h
  · cases h
  rename_i s4 hburn4
  obtain ⟨ho, hty0, -⟩ := findCdp_spec hf
  have S := syncInterest_spec ho hsync
  have hI1 := inv_sync hI ho S
  have ho1 := sync_cdp_id S
  obtain ⟨F, hbal, hsup, hdebt⟩ := repay_bank_spec hsend2 hburn3 hburn4
  have hcd2 : (2 : Nat) ≤ cp.denom := hW.denoms ty cp hcp
  have hden1 : denomOf E c1.ty = cp.denom := by rw [S.ty, hty0, denomOf_eq hcp]
  split at h
  · split at h
    · cases h
    rename_i s6 hret
    split at h
    · cases h
    rename_i old hold
    cases h
    unfold returnCollateral at hret
    rw [hden1] at hret
    generalize hL : depositsOf E _ id = L at hret
    have hLmem : ∀ a v, (a, v) ∈ L ↔ a ∈ E.accts ∧ s1.dep id a ≠ 0 ∧ v = s1.dep id a := by
      intro a v; rw [← hL, mem_depositsOf]; dsimp only; rw [F.dep]
    have hLrecv : ∀ x, recv (fun a => a) x L = if x ∈ E.accts then s1.dep id x else 0 := by
      intro x; rw [← hL, recv_id_depositsOf _ _ _ _ hW.nodup]; dsimp only; rw [F.dep]
    have htgt : ∀ a v, (a, v) ∈ L → (fun a => a) a ≠ MCDP := by
      intro a v hm
      have ha : (3 : Nat) ≤ a := hW.users a ((hLmem a v).1 hm).1
      intro e; dsimp only at e; rw [e] at ha; exact absurd ha (by decide)
    obtain ⟨-, -, -, -, -, -, -, -, -, -, -, -, -, -, e15⟩ := sendDeps_spec id _ _ _ _ _ htgt hret
    dsimp only at e15
    intro a ha
    have ha3 : (3 : Nat) ≤ a := hW.users a ha
    have hne : a ≠ MCDP := by intro e; rw [e] at ha3; exact absurd ha3 (by decide)
    rw [e15 a hne, hLrecv a, hbal a cp.denom hcd2, S.bal, S.dep]
    simp [ha]
  · split at h
    · cases h
    rename_i s6 hupd
    cases h
    obtain ⟨old, hold, e6⟩ := updateCdpIdx_spec hupd
    subst e6
    dsimp only at hgone
    rw [upd_same] at hgone; cases hgone

/-! ### lowest first -/

theorem take_lowest (l : List Entry) (hs : Sorted l) (n : Nat) :
    ∀ a, a ∈ l.take n → ∀ b, b ∈ l → b ∉ l.take n → eLt a b = true := by
  intro a ha b hb hnb
  have hsplit : l = l.take n ++ l.drop n := (List.take_append_drop n l).symm
  unfold Sorted at hs
  rw [hsplit, List.pairwise_append] at hs
  have hbd : b ∈ l.drop n := by
    rw [hsplit] at hb
    rcases List.mem_append.1 hb with h | h
    · exact absurd h hnb
    · exact h
  exact hs.2.2 a ha b hbd

theorem sorted_below (idx : List Entry) (ty : Nat) (K : Int) (h : Sorted idx) : Sorted (below idx ty K) :=
  List.Pairwise.filter _ h

/-- the block liquidator walks exactly the first `count` index entries of the type below the normalised
    ratio: each of them is gone afterwards unless the value-ratio re-check skipped it (then it is untouched),
    and every entry below the bound that was not taken comes later in the index -/
theorem liquidateBlock_complete {E : Env} {g : Int} {s s' : St} {ty : Nat} {cp : CollParam} {price : Dec}
    (hW : WF E) (hI : Inv E g s) (h : liquidateBlock E s ty cp price = .ok s') :
    let K := sortKey (normRatio price cp.liqRatio)
    let sel := takeCount cp.checkCount (below s.idx ty K)
    (∀ e, e ∈ sel → ∃ c, s.cdp e.2.2 = some c ∧
        (if blockSkips E c price cp.liqRatio = true then s'.cdp e.2.2 = some c else s'.cdp e.2.2 = none)) ∧
    (∀ e, e ∈ sel → ∀ e', e' ∈ below s.idx ty K → e' ∉ sel → eLt e e' = true) ∧
    sel.length = min (if cp.checkCount ≤ 1 then 1 else cp.checkCount.toNat) (below s.idx ty K).length := by
  intro K sel
  unfold liquidateBlock at h
  split at h
  · cases h
  rename_i cdps hf
  obtain ⟨hmap, hst⟩ := fetchCdps_spec s _ _ hf
  have hnd : (cdps.map Prod.fst).Nodup := by
    rw [hmap]
    exact idx_ids_nodup hI.idx ((takeCount_sublist _ _).trans (below_sublist _ _ _))
  obtain ⟨-, -, hgone, -⟩ := seizeLoop_inv hW _ _ cdps s s' hI hst hnd h
  refine ⟨?_, ?_, ?_⟩
  · intro e he
    have : e.2.2 ∈ cdps.map Prod.fst := by
      rw [hmap]; exact List.mem_map.2 ⟨e, he, rfl⟩
    obtain ⟨⟨j, c⟩, hm, ej⟩ := List.mem_map.1 this
    dsimp only at ej
    rw [← ej]
    exact ⟨c, hst j c hm, hgone j c hm⟩
  · intro e he e' he' hne'
    exact take_lowest _ (sorted_below _ _ _ hI.idx.2.2) _ e he e' he' hne'
  · show (List.take _ _).length = _
    rw [List.length_take]

/-! ### block liquidation only seizes below the ratio -/

/-- function level: a CDP that passes the re-check of `LiquidateCdps` has `CalculateCollateralizationRatio < L`
    at the liquidation price -/
theorem blockSkips_sound (E : Env) (c : Cdp) (price L : Dec) (hL : 0 < L.m)
    (h : blockSkips E c price L = false) (r : Dec)
    (hr : collRatio c.coll (cfOf E c.ty) c.prin c.fees E.P.debtCf price = some r) : r.m < L.m := by
  unfold collRatio at hr
  split at hr
  · cases hr; exact hL
  · dsimp only at hr
    split at hr
    · cases hr
    · rename_i hc0 htot
      cases hr
      have hadd : Dec.add (baseUnits c.prin E.P.debtCf) (baseUnits c.fees E.P.debtCf) = baseUnits (c.prin + c.fees) E.P.debtCf := by
        show (⟨(baseUnits c.prin E.P.debtCf).m + (baseUnits c.fees E.P.debtCf).m⟩ : Dec) = baseUnits (c.prin + c.fees) E.P.debtCf
        rw [baseUnits_add]
      rw [hadd] at htot ⊢
      unfold blockSkips at h
      dsimp only at h
      simp only [htot, ite_false, decide_eq_false_iff_not] at h
      omega

/-- state level: whatever `LiquidateCdps` removes had passed the re-check -/
theorem liquidateBlock_sound {E : Env} {g : Int} {s s' : St} {ty : Nat} {cp : CollParam} {price : Dec}
    (hW : WF E) (hI : Inv E g s) (h : liquidateBlock E s ty cp price = .ok s')
    (id : Nat) (c : Cdp) (ho : s.cdp id = some c) (hgone : s'.cdp id = none) :
    blockSkips E c price cp.liqRatio = false := by
  unfold liquidateBlock at h
  split at h
  · cases h
  rename_i cdps hf
  obtain ⟨hmap, hst⟩ := fetchCdps_spec s _ _ hf
  have hnd : (cdps.map Prod.fst).Nodup := by
    rw [hmap]
    exact idx_ids_nodup hI.idx ((takeCount_sublist _ _).trans (below_sublist _ _ _))
  obtain ⟨-, -, hg, hoth⟩ := seizeLoop_inv hW _ _ cdps s s' hI hst hnd h
  by_cases hm : id ∈ cdps.map Prod.fst
  · obtain ⟨⟨j, c'⟩, hm', ej⟩ := List.mem_map.1 hm
    dsimp only at ej; subst ej
    have := hst j c' hm'
    rw [ho] at this; cases this
    have hh := hg j c hm'
    cases hsk : blockSkips E c price cp.liqRatio
    · rfl
    · simp only [hsk, ite_true] at hh
      rw [hgone] at hh; cases hh
  · rw [hoth id hm, ho] at hgone; cases hgone

/-! ### the debt shares handed to auctions -/

theorem debtCovered_nonneg (v total debt : Int) (hv : 0 ≤ v) (ht : 0 < total) (hd : 0 ≤ debt) :
    0 ≤ debtCovered v total debt := by
  unfold debtCovered
  have hq : 0 ≤ (Dec.quo (Dec.ofInt v) (Dec.ofInt total)).m := by
    obtain ⟨T, -, -, -, -, -, h⟩ := quo_spec (Dec.ofInt v) (Dec.ofInt total)
      (by simp only [Dec.ofInt]; exact Int.mul_nonneg hv (by decide))
      (by simp only [Dec.ofInt]; exact Int.mul_pos ht P_pos)
    exact h
  have hm : 0 ≤ (Dec.quo (Dec.ofInt v) (Dec.ofInt total)).m * (Dec.ofInt debt).m :=
    Int.mul_nonneg hq (by simp only [Dec.ofInt]; exact Int.mul_nonneg hd (by decide))
  obtain ⟨-, -, hnn⟩ := mul_spec _ _ hm
  exact chopRound_nonneg _ hnn

theorem sendB_ok {s : St} {f t : Acct} {d : Denom} {a : Int} (h : a ≤ s.bal f d) : ∃ s', sendB s f t d a = some s' := by
  unfold sendB
  split
  · exact ⟨s, rfl⟩
  · split
    · omega
    · exact ⟨_, rfl⟩

theorem sumDeps_nonneg : ∀ (l : List (Acct × Int)), (∀ a v, (a, v) ∈ l → 0 < v) → 0 ≤ sumDeps l := by
  intro l
  induction l with
  | nil => intro _; simp [sumDeps]
  | cons hd tl ih =>
    obtain ⟨a, v⟩ := hd
    intro h
    have h1 := h a v (by simp)
    have h2 := ih (fun a' v' hm => h a' v' (List.mem_cons_of_mem _ hm))
    simp only [sumDeps]; omega

/-- with the capped shares `AuctionCollateral` can no longer run out of debt coins: if the liquidator account
    holds the deposits' collateral and at least the debt to distribute, every send succeeds -/
theorem auctionDeps_ok (cd : Denom) (total debt : Int) (hcd : cd ≠ DEBT) (ht : 0 < total) (hd : 0 ≤ debt) :
    ∀ (l : List (Acct × Int)) (remaining : Int) (s : St), (∀ a v, (a, v) ∈ l → 0 < v) →
      0 ≤ remaining → remaining ≤ s.bal MLIQ DEBT → sumDeps l ≤ s.bal MLIQ cd →
      ∃ s', auctionDeps s cd total debt remaining l = .ok s' := by
  intro l
  induction l with
  | nil => intro remaining s _ _ _ _; exact ⟨s, rfl⟩
  | cons hd' tl ih =>
    obtain ⟨a, v⟩ := hd'
    intro remaining s hpos hr0 hr1 hc
    have hv : 0 < v := hpos a v (by simp)
    have htl : ∀ a' v', (a', v') ∈ tl → 0 < v' := fun a' v' hm => hpos a' v' (List.mem_cons_of_mem _ hm)
    have hs := sumDeps_nonneg tl htl
    simp only [sumDeps] at hc
    simp only [auctionDeps]
    have h0 : ¬ total = 0 := by omega
    have h1 : ¬ v = 0 := by omega
    simp only [h0, h1, ite_false]
    obtain ⟨s1, e1⟩ := sendB_ok (s := s) (f := MLIQ) (t := MAUC) (d := cd) (a := v) (by omega)
    rw [e1]
    dsimp only
    obtain ⟨-, hb1, -⟩ := sendB_spec e1
    have hsh := debtCovered_nonneg v total debt (by omega) ht hd
    have hle := cappedShare_le (debtCovered v total debt) remaining tl.isEmpty
    have hge := cappedShare_nonneg (debtCovered v total debt) remaining tl.isEmpty hsh hr0
    have hcd' : ¬ (DEBT = cd) := fun e => hcd e.symm
    have hb1d : s1.bal MLIQ DEBT = s.bal MLIQ DEBT := by
      rw [hb1]; simp [MLIQ, MAUC, hcd']
    obtain ⟨s2, e2⟩ := sendB_ok (s := s1) (f := MLIQ) (t := MAUC) (d := DEBT)
      (a := cappedShare (debtCovered v total debt) remaining tl.isEmpty) (by omega)
    rw [e2]
    dsimp only
    obtain ⟨-, hb2, -⟩ := sendB_spec e2
    refine ih _ s2 htl (by omega) ?_ ?_
    · rw [hb2, hb1d]; simp [MLIQ, MAUC] at hr1 ⊢; omega
    · rw [hb2, hb1]; simp [MLIQ, MAUC, hcd] at hc ⊢; omega

/-! ### interest accrual on the total principal -/

theorem accumulate_tprin {now : Int} {s s' : St} {ty : Nat} {cp : CollParam} {f : Dec}
    (hf : P ≤ f.m) (h : accumulate now s ty cp f = .ok s') :
    s'.cdp = s.cdp ∧ s.tprin ty ≤ s'.tprin ty ∧
    (s'.tprin ty = s.tprin ty ∨
      (2 * (s'.tprin ty * P - f.m * s.tprin ty) ≤ P ∧ 2 * (f.m * s.tprin ty - s'.tprin ty * P) ≤ P)) ∧
    (∀ t, t ≠ ty → s'.tprin t = s.tprin t) := by
  unfold accumulate at h
  split at h
  · cases h; exact ⟨rfl, Int.le_refl _, Or.inl rfl, fun _ _ => rfl⟩
  split at h
  · cases h; exact ⟨rfl, Int.le_refl _, Or.inl rfl, fun _ _ => rfl⟩
  split at h
  · cases h; exact ⟨rfl, Int.le_refl _, Or.inl rfl, fun _ _ => rfl⟩
  rename_i hT
  split at h
  · cases h; exact ⟨rfl, Int.le_refl _, Or.inl rfl, fun _ _ => rfl⟩
  split at h
  · cases h; exact ⟨rfl, Int.le_refl _, Or.inl rfl, fun _ _ => rfl⟩
  dsimp only at h
  split at h
  · cases h; exact ⟨rfl, Int.le_refl _, Or.inl rfl, fun _ _ => rfl⟩
  split at h
  · cases h
  cases h
  have hTpos : 0 ≤ s.tprin ty := by omega
  have e1 : Dec.roundInt (Dec.mul f (Dec.ofInt (s.tprin ty))) = chopRound (f.m * s.tprin ty) := by
    simp only [Dec.roundInt, Dec.mul, Dec.ofInt]
    have : f.m * (s.tprin ty * P) = (f.m * s.tprin ty) * P := by rw [Int.mul_assoc]
    rw [this, chopRound_mul_P]
  have hnn : 0 ≤ f.m * s.tprin ty := Int.mul_nonneg (by have := P_pos; omega) hTpos
  have hb := chopRound_nonneg_bound (f.m * s.tprin ty) hnn
  have hge : s.tprin ty ≤ chopRound (s.tprin ty * f.m) := chopRound_mul_ge_of_one_le _ _ hTpos hf
  rw [Int.mul_comm] at hge
  have F1 := mintB_frame s MCDP DEBT (Dec.roundInt (Dec.mul f (Dec.ofInt (s.tprin ty))) - s.tprin ty)
  have F2 := mintB_frame (mintB s MCDP DEBT (Dec.roundInt (Dec.mul f (Dec.ofInt (s.tprin ty))) - s.tprin ty)) MLIQ USDX
    (Dec.roundInt (Dec.mul f (Dec.ofInt (s.tprin ty))) - s.tprin ty)
  have F := F1.trans F2
  refine ⟨by dsimp only; rw [F.cdp], ?_, Or.inr ?_, ?_⟩
  · dsimp only; rw [upd_same, F.tprin, e1]; omega
  · dsimp only; rw [upd_same, F.tprin, e1]
    have : s.tprin ty + (chopRound (f.m * s.tprin ty) - s.tprin ty) = chopRound (f.m * s.tprin ty) := by omega
    rw [this]; exact hb
  · intro t ht; dsimp only; rw [upd_other _ _ _ _ ht, F.tprin]

end KV.Cdp
