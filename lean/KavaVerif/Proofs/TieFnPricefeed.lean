/-
  Source tie ("tie 1b") for x/pricefeed/keeper/keeper.go: the Lean definitions REGENERATED from the Go source on every run
  (Generated/FnPricefeed.lean, tools/extract/fn*.go) equal the hand-written model functions the C18 theorems are
  about.  An edit of a Go function changes the generated definition and its equality proof stops checking.
-/
import KavaVerif.Generated.FnPricefeed
import KavaVerif.Model.Pricefeed
import KavaVerif.Proofs.TieFnBase
set_option linter.unusedSimpArgs false

namespace KV.TieFn
open KV KV.Go

/-- `calculateMeanPrice` on the `Price` fields (Dec mantissas) = `mean`; never panics (the divisor is the constant 2) -/
theorem pricefeed_calculateMeanPrice (a b : Int) :
    GoFn.Pricefeed.calculateMeanPrice_translated = true ∧
    GoFn.Pricefeed.calculateMeanPrice ⟨⟨a⟩⟩ ⟨⟨b⟩⟩ = R.ok ⟨KV.PF.mean a b⟩ := by
  refine ⟨rfl, ?_⟩
  have h : (Dec.ofInt 2).m ≠ 0 := by decide
  simp only [GoFn.Pricefeed.calculateMeanPrice, KV.PF.mean, Go.decQuo, h, if_false]
  tie_norm

end KV.TieFn
