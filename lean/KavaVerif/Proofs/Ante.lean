/-
  Helper lemmas for property C15 (ante gating).  Model: KavaVerif/Model/Ante.lean.
  Only lemmas here; the property statements are in KavaVerif/Props/C15.lean.
-/
import KavaVerif.Model.Ante
set_option linter.unusedSimpArgs false
set_option linter.unusedVariables false
namespace KV.Ante
open KV.Gen

theorem innerFlag_val : c15AuthzInnerFlag = false := rfl
theorem topFlag_val : c15AuthzTopFlag = true := rfl

mutual
theorem checkList_ok_iff (bl : List String) : ∀ (ms : List Msg) (inExec : Bool),
    checkList bl ms (!inExec) = .ok ↔ (reachList bl ms inExec = false ∧ malfList ms = false)
  | [], _ => by simp [checkList, reachList, malfList]
  | m :: ms, inExec => by
    have h1 := checkOne_ok_iff bl m inExec
    have h2 := checkList_ok_iff bl ms inExec
    simp only [checkList, reachList, malfList, Bool.or_eq_false_iff]
    cases h : checkOne bl m (!inExec) <;> simp only [h, true_iff, false_iff, reduceCtorEq] at h1 ⊢
    · rw [h2]; constructor
      · intro ⟨a, b⟩; exact ⟨⟨h1.1, a⟩, ⟨h1.2, b⟩⟩
      · intro ⟨⟨_, a⟩, ⟨_, b⟩⟩; exact ⟨a, b⟩
    · intro ⟨⟨a, _⟩, ⟨b, _⟩⟩; exact h1 ⟨a, b⟩
    · intro ⟨⟨a, _⟩, ⟨b, _⟩⟩; exact h1 ⟨a, b⟩
theorem checkOne_ok_iff (bl : List String) : ∀ (m : Msg) (inExec : Bool),
    checkOne bl m (!inExec) = .ok ↔ (reachOne bl m inExec = false ∧ malfOne m = false)
  | .plain u, inExec => by
    cases inExec <;> simp only [checkOne, reachOne, malfOne] <;>
      cases isDisabled bl u <;> cases (u == c15MsgGrantURL || u == c15MsgExecURL) <;> simp
  | .grant t, inExec => by
    cases inExec <;> simp only [checkOne, reachOne, malfOne] <;>
      cases isDisabled bl c15MsgGrantURL <;> cases isDisabled bl t <;> simp
  | .grantBad, inExec => by simp [checkOne, reachOne, malfOne]
  | .exec ms, inExec => by
    have h := checkList_ok_iff bl ms true
    simp only [Bool.not_true] at h
    cases inExec <;> simp only [checkOne, reachOne, malfOne, innerFlag_val] <;>
      cases isDisabled bl c15MsgExecURL <;> simp [h]
  | .execBad, inExec => by simp [checkOne, reachOne, malfOne]
end

/-! ### decidable reachability ⇔ declarative occurrence -/

theorem InExec.mono {m : Msg} {ms ms' : List Msg} (hsub : ∀ x, x ∈ ms → x ∈ ms') (h : InExec m ms) : InExec m ms' := by
  cases h with
  | child he hm => exact .child (hsub _ he) hm
  | deeper he hi => exact .deeper (hsub _ he) hi

theorem Anywhere.mono {m : Msg} {ms ms' : List Msg} (hsub : ∀ x, x ∈ ms → x ∈ ms') (h : Anywhere m ms) : Anywhere m ms' := by
  cases h with
  | inl h => exact .inl (hsub _ h)
  | inr h => exact .inr (h.mono hsub)

theorem reachList_of_mem (bl : List String) (b : Bool) : ∀ (ms : List Msg) (m : Msg), m ∈ ms →
    reachOne bl m b = true → reachList bl ms b = true
  | [], m, hm, _ => by cases hm
  | x :: xs, m, hm, h => by
    simp only [reachList, Bool.or_eq_true]
    cases hm with
    | head => exact .inl h
    | tail _ hm' => exact .inr (reachList_of_mem bl b xs m hm' h)

theorem reachOne_true_of_url (bl : List String) (m : Msg) (h : isDisabled bl m.url = true) :
    reachOne bl m true = true := by
  cases m <;> simp_all [reachOne, Msg.url]

theorem reachOne_grant (bl : List String) (t : String) (b : Bool) (h : isDisabled bl t = true) :
    reachOne bl (.grant t) b = true := by
  simp [reachOne, h]

theorem reachOne_exec_of (bl : List String) (inner : List Msg) (b : Bool) (h : reachList bl inner true = true) :
    reachOne bl (.exec inner) b = true := by
  simp [reachOne, h]

/-- soundness, part 1: a disabled URL strictly inside an exec is seen by the decidable predicate -/
theorem reach_of_inExec (bl : List String) {m : Msg} {ms : List Msg} (h : InExec m ms)
    (hd : isDisabled bl m.url = true) : ∀ b, reachList bl ms b = true := by
  induction h with
  | child he hm =>
    intro b
    exact reachList_of_mem bl b _ _ he
      (reachOne_exec_of bl _ b (reachList_of_mem bl true _ _ hm (reachOne_true_of_url bl _ hd)))
  | deeper he _ ih =>
    intro b
    exact reachList_of_mem bl b _ _ he (reachOne_exec_of bl _ b (ih true))

/-- soundness, part 2: a grant of a disabled type anywhere is seen by the decidable predicate -/
theorem reach_of_grant (bl : List String) {t : String} {ms : List Msg} (h : Anywhere (.grant t) ms)
    (hd : isDisabled bl t = true) : ∀ b, reachList bl ms b = true := by
  cases h with
  | inl hm => intro b; exact reachList_of_mem bl b _ _ hm (reachOne_grant bl t b hd)
  | inr hi =>
    generalize hg : Msg.grant t = g at hi
    induction hi with
    | child he hm =>
      subst hg
      intro b
      exact reachList_of_mem bl b _ _ he
        (reachOne_exec_of bl _ b (reachList_of_mem bl true _ _ hm (reachOne_grant bl t true hd)))
    | deeper he _ ih =>
      intro b
      exact reachList_of_mem bl b _ _ he (reachOne_exec_of bl _ b (ih true))

/-- what the decidable predicate finds, said declaratively -/
def ReachP (bl : List String) (ms : List Msg) (inExec : Bool) : Prop :=
  (inExec = true ∧ ∃ m, m ∈ ms ∧ isDisabled bl m.url = true) ∨
  (∃ m, InExec m ms ∧ isDisabled bl m.url = true) ∨
  (∃ t, Anywhere (.grant t) ms ∧ isDisabled bl t = true)

theorem ReachP.cons_of_head {bl : List String} {m : Msg} {ms : List Msg} {b : Bool}
    (h : ReachP bl [m] b) : ReachP bl (m :: ms) b := by
  have hsub : ∀ x, x ∈ [m] → x ∈ m :: ms := by
    intro x hx; simp only [List.mem_singleton] at hx; subst hx; exact List.mem_cons_self
  rcases h with ⟨hb, x, hx, hd⟩ | ⟨x, hx, hd⟩ | ⟨t, ht, hd⟩
  · exact .inl ⟨hb, x, hsub x hx, hd⟩
  · exact .inr (.inl ⟨x, hx.mono hsub, hd⟩)
  · exact .inr (.inr ⟨t, ht.mono hsub, hd⟩)

theorem ReachP.cons_of_tail {bl : List String} {m : Msg} {ms : List Msg} {b : Bool}
    (h : ReachP bl ms b) : ReachP bl (m :: ms) b := by
  have hsub : ∀ x, x ∈ ms → x ∈ m :: ms := fun x hx => List.mem_cons_of_mem _ hx
  rcases h with ⟨hb, x, hx, hd⟩ | ⟨x, hx, hd⟩ | ⟨t, ht, hd⟩
  · exact .inl ⟨hb, x, hsub x hx, hd⟩
  · exact .inr (.inl ⟨x, hx.mono hsub, hd⟩)
  · exact .inr (.inr ⟨t, ht.mono hsub, hd⟩)

/-- everything ReachP finds in the content of an exec is found (strictly inside) in `[exec inner]` -/
theorem ReachP.exec_lift {bl : List String} {inner : List Msg} {b : Bool}
    (h : ReachP bl inner true) : ReachP bl [.exec inner] b := by
  have he : Msg.exec inner ∈ [Msg.exec inner] := List.mem_singleton.mpr rfl
  rcases h with ⟨_, x, hx, hd⟩ | ⟨x, hx, hd⟩ | ⟨t, ht, hd⟩
  · exact .inr (.inl ⟨x, .child he hx, hd⟩)
  · exact .inr (.inl ⟨x, .deeper he hx, hd⟩)
  · refine .inr (.inr ⟨t, .inr ?_, hd⟩)
    cases ht with
    | inl hm => exact .child he hm
    | inr hi => exact .deeper he hi

mutual
/-- completeness: the decidable predicate only fires on a declaratively blocked forest -/
theorem reachList_complete (bl : List String) : ∀ (ms : List Msg) (b : Bool),
    reachList bl ms b = true → ReachP bl ms b
  | [], _, h => by simp [reachList] at h
  | m :: ms, b, h => by
    simp only [reachList, Bool.or_eq_true] at h
    cases h with
    | inl h => exact (reachOne_complete bl m b h).cons_of_head
    | inr h => exact (reachList_complete bl ms b h).cons_of_tail
theorem reachOne_complete (bl : List String) : ∀ (m : Msg) (b : Bool),
    reachOne bl m b = true → ReachP bl [m] b
  | .plain u, b, h => by
    simp only [reachOne, Bool.and_eq_true] at h
    exact .inl ⟨h.1, .plain u, List.mem_singleton.mpr rfl, h.2⟩
  | .grant t, b, h => by
    simp only [reachOne, Bool.or_eq_true, Bool.and_eq_true] at h
    cases h with
    | inl h => exact .inl ⟨h.1, .grant t, List.mem_singleton.mpr rfl, h.2⟩
    | inr h => exact .inr (.inr ⟨t, .inl (List.mem_singleton.mpr rfl), h⟩)
  | .grantBad, b, h => by
    simp only [reachOne, Bool.and_eq_true] at h
    exact .inl ⟨h.1, .grantBad, List.mem_singleton.mpr rfl, h.2⟩
  | .exec ms, b, h => by
    simp only [reachOne, Bool.or_eq_true, Bool.and_eq_true] at h
    cases h with
    | inl h => exact .inl ⟨h.1, .exec ms, List.mem_singleton.mpr rfl, h.2⟩
    | inr h => exact (reachList_complete bl ms true h).exec_lift
  | .execBad, b, h => by
    simp only [reachOne, Bool.and_eq_true] at h
    exact .inl ⟨h.1, .execBad, List.mem_singleton.mpr rfl, h.2⟩
end


/-! ### malformed messages -/

theorem malfList_of_mem : ∀ (ms : List Msg) (m : Msg), m ∈ ms → malfOne m = true → malfList ms = true
  | [], m, hm, _ => by cases hm
  | x :: xs, m, hm, h => by
    simp only [malfList, Bool.or_eq_true]
    cases hm with
    | head => exact .inl h
    | tail _ hm' => exact .inr (malfList_of_mem xs m hm' h)

theorem malfOne_of_isMalf {m : Msg} (h : IsMalf m) : malfOne m = true := by
  rcases h with rfl | rfl | ⟨u, rfl, hu⟩
  · simp [malfOne]
  · simp [malfOne]
  · cases hu with
    | inl h => simp [malfOne, h]
    | inr h => simp [malfOne, h]

theorem malf_of_inExec {m : Msg} {ms : List Msg} (h : InExec m ms) (hm : IsMalf m) : malfList ms = true := by
  induction h with
  | child he hmem =>
    exact malfList_of_mem _ _ he (by simp only [malfOne]; exact malfList_of_mem _ _ hmem (malfOne_of_isMalf hm))
  | deeper he _ ih =>
    exact malfList_of_mem _ _ he (by simp only [malfOne]; exact ih)

theorem malf_of_malformed {ms : List Msg} (h : Malformed ms) : malfList ms = true := by
  obtain ⟨m, hany, hm⟩ := h
  cases hany with
  | inl hmem => exact malfList_of_mem _ _ hmem (malfOne_of_isMalf hm)
  | inr hi => exact malf_of_inExec hi hm

theorem Malformed.cons_of_head {m : Msg} {ms : List Msg} (h : Malformed [m]) : Malformed (m :: ms) := by
  obtain ⟨x, hx, hm⟩ := h
  exact ⟨x, hx.mono (by intro y hy; simp only [List.mem_singleton] at hy; subst hy; exact List.mem_cons_self), hm⟩

theorem Malformed.cons_of_tail {m : Msg} {ms : List Msg} (h : Malformed ms) : Malformed (m :: ms) := by
  obtain ⟨x, hx, hm⟩ := h
  exact ⟨x, hx.mono (fun y hy => List.mem_cons_of_mem _ hy), hm⟩

theorem Malformed.exec_lift {inner : List Msg} (h : Malformed inner) : Malformed [.exec inner] := by
  obtain ⟨x, hx, hm⟩ := h
  have he : Msg.exec inner ∈ [Msg.exec inner] := List.mem_singleton.mpr rfl
  refine ⟨x, .inr ?_, hm⟩
  cases hx with
  | inl hmem => exact .child he hmem
  | inr hi => exact .deeper he hi

mutual
theorem malfList_complete : ∀ (ms : List Msg), malfList ms = true → Malformed ms
  | [], h => by simp [malfList] at h
  | m :: ms, h => by
    simp only [malfList, Bool.or_eq_true] at h
    cases h with
    | inl h => exact (malfOne_complete m h).cons_of_head
    | inr h => exact (malfList_complete ms h).cons_of_tail
theorem malfOne_complete : ∀ (m : Msg), malfOne m = true → Malformed [m]
  | .plain u, h => by
    simp only [malfOne, Bool.or_eq_true, beq_iff_eq] at h
    exact ⟨.plain u, .inl (List.mem_singleton.mpr rfl), .inr (.inr ⟨u, rfl, h⟩)⟩
  | .grant t, h => by simp [malfOne] at h
  | .grantBad, _ => ⟨.grantBad, .inl (List.mem_singleton.mpr rfl), .inl rfl⟩
  | .exec ms, h => by
    simp only [malfOne] at h
    exact (malfList_complete ms h).exec_lift
  | .execBad, _ => ⟨.execBad, .inl (List.mem_singleton.mpr rfl), .inr (.inl rfl)⟩
end

/-! ### the decorator, declaratively -/

/-- no blocked type is reachable: nothing strictly inside an exec carries a disabled URL and no grant at any
    depth targets a disabled URL -/
def NoBlocked (bl : List String) (ms : List Msg) : Prop :=
  (∀ m, InExec m ms → isDisabled bl m.url = false) ∧ (∀ t, Anywhere (.grant t) ms → isDisabled bl t = false)

theorem authzLimiter_ok_iff (bl : List String) (ms : List Msg) :
    authzLimiter bl ms = .ok ↔ (NoBlocked bl ms ∧ ¬ Malformed ms) := by
  have h := checkList_ok_iff bl ms false
  simp only [Bool.not_false] at h
  unfold authzLimiter
  rw [topFlag_val, h]
  constructor
  · intro ⟨hr, hm⟩
    refine ⟨⟨?_, ?_⟩, ?_⟩
    · intro m hi
      cases hd : isDisabled bl m.url
      · rfl
      · have := reach_of_inExec bl hi hd false; rw [hr] at this; cases this
    · intro t ha
      cases hd : isDisabled bl t
      · rfl
      · have := reach_of_grant bl ha hd false; rw [hr] at this; cases this
    · intro hmal
      have := malf_of_malformed hmal; rw [hm] at this; cases this
  · intro ⟨⟨h1, h2⟩, hm⟩
    constructor
    · cases hr : reachList bl ms false
      · rfl
      · rcases reachList_complete bl ms false hr with ⟨hb, _⟩ | ⟨m, hi, hd⟩ | ⟨t, ha, hd⟩
        · cases hb
        · rw [h1 m hi] at hd; cases hd
        · rw [h2 t ha] at hd; cases hd
    · cases hml : malfList ms
      · rfl
      · exact absurd (malfList_complete ms hml) hm

/-! ### the classified generated tables -/

theorem cosmosChainK_val : cosmosChainK =
    [(.always, .rejectMsgs), (.always, .other), (.notEIP712, .extOpts), (.hasFetchers, .mempool),
     (.always, .other), (.always, .vesting), (.always, .authz), (.always, .other), (.always, .other),
     (.always, .other), (.always, .other), (.always, .other), (.always, .other), (.always, .other),
     (.always, .other), (.always, .other), (.always, .other), (.always, .other)] := by decide

theorem ethChainK_val : ethChainK =
    [(.always, .other), (.always, .other), (.always, .other), (.always, .ethOnly), (.hasFetchers, .mempool),
     (.always, .other), (.always, .other), (.always, .other), (.always, .other), (.always, .other)] := by decide

theorem extCasesK_val : extCasesK =
    [("/ethermint.evm.v1.ExtensionOptionsEthereumTx", .eth), ("/ethermint.types.v1.ExtensionOptionsWeb3Tx", .cosmos true)] := by
  decide

theorem fallThroughK_val : fallThroughK = .cosmos false := by decide
theorem extOptsMax_val : c15ExtOptsMax = 1 := rfl
theorem extOptsRouteLen_val : c15ExtOptsRouteLen = 1 := rfl
theorem extDefaultRejects_val : c15ExtDefaultRejects = true := rfl
theorem checkerNil_val : c15ExtensionOptionCheckerNil = true := rfl
theorem fetchers_nonempty : decide (c15Fetchers.length > 0) = true := by decide
theorem mempoolGuard_val : c15MempoolGuard = [("ctx.IsCheckTx()", true), ("simulate", false)] := by decide

theorem guard_val (md : Mode) : guardHolds c15MempoolGuard md = (md.isCheckTx && !md.simulate) := by
  rw [mempoolGuard_val]
  cases md with
  | mk a b c => cases a <;> cases b <;> cases c <;> decide

/-- the cosmos chain on the generated table, gate by gate -/
theorem runCosmos_pass_iff (cfg : Cfg) (md : Mode) (e : Bool) (tx : Tx) :
    runChain cfg md e tx cosmosChainK = .pass ↔
      (rejectMsgsDec tx.msgs = true ∧ (e = false → tx.opts = []) ∧
       (hasFetchers cfg = true → mempoolDec md tx.signers cfg.authorised = true) ∧
       vestingDec c15VestingDisabled tx.msgs = true ∧ authzLimiter c15AuthzDisabled tx.msgs = .ok) := by
  rw [cosmosChainK_val]
  simp only [runChain, condHolds, decStep, checkerNil_val, Bool.true_and, ite_true]
  cases h1 : rejectMsgsDec tx.msgs <;> cases e <;> cases ho : tx.opts <;> cases hf : hasFetchers cfg <;>
    cases hm : mempoolDec md tx.signers cfg.authorised <;> cases hv : vestingDec c15VestingDisabled tx.msgs <;>
    cases ha : authzLimiter c15AuthzDisabled tx.msgs <;> simp

theorem runEth_pass_iff (cfg : Cfg) (md : Mode) (tx : Tx) :
    runChain cfg md false tx ethChainK = .pass ↔
      (ethOnlyDec tx.msgs = true ∧ (hasFetchers cfg = true → mempoolDec md tx.signers cfg.authorised = true)) := by
  rw [ethChainK_val]
  simp only [runChain, condHolds, decStep, ite_true]
  cases ethOnlyDec tx.msgs <;> cases hasFetchers cfg <;> cases mempoolDec md tx.signers cfg.authorised <;> simp

/-! ### the router on the generated tables -/

def ethOptURL : String := "/ethermint.evm.v1.ExtensionOptionsEthereumTx"
def web3OptURL : String := "/ethermint.types.v1.ExtensionOptionsWeb3Tx"

theorem route_nil : route [] = .cosmos false := by
  simp [route, extOptsMax_val, extOptsRouteLen_val, fallThroughK_val]

theorem route_single (o : String) :
    route [o] = if o = ethOptURL then .eth else if o = web3OptURL then .cosmos true else .reject "ext-unknown" := by
  simp only [route, extOptsMax_val, extOptsRouteLen_val, extCasesK_val, extDefaultRejects_val, List.length_singleton,
    Nat.lt_irrefl, ite_false, beq_self_eq_true, ite_true, List.lookup, ethOptURL, web3OptURL]
  by_cases h1 : o = "/ethermint.evm.v1.ExtensionOptionsEthereumTx"
  · subst h1; simp
  · by_cases h2 : o = "/ethermint.types.v1.ExtensionOptionsWeb3Tx"
    · subst h2; simp
    · have e1 : (o == "/ethermint.evm.v1.ExtensionOptionsEthereumTx") = false := by simp [h1]
      have e2 : (o == "/ethermint.types.v1.ExtensionOptionsWeb3Tx") = false := by simp [h2]
      simp [e1, e2, h1, h2]

theorem route_many (o1 o2 : String) (rest : List String) : route (o1 :: o2 :: rest) = .reject "ext-too-many" := by
  simp [route, extOptsMax_val]

theorem route_too_many (opts : List String) (h : opts.length > 1) : route opts = .reject "ext-too-many" := by
  match opts, h with
  | o1 :: o2 :: rest, _ => exact route_many o1 o2 rest

theorem route_eth_iff (opts : List String) : route opts = .eth ↔ opts = [ethOptURL] := by
  match opts with
  | [] => simp [route_nil]
  | [o] =>
    rw [route_single]
    by_cases h1 : o = ethOptURL
    · simp [h1]
    · by_cases h2 : o = web3OptURL <;> simp [h1, h2]
  | o1 :: o2 :: rest => simp [route_many]

theorem route_cosmos_opts (opts : List String) (e : Bool) (h : route opts = .cosmos e) :
    (e = false ∧ opts = []) ∨ (e = true ∧ opts = [web3OptURL]) := by
  match opts with
  | [] => rw [route_nil] at h; cases h; exact .inl ⟨rfl, rfl⟩
  | [o] =>
    rw [route_single] at h
    by_cases h1 : o = ethOptURL
    · simp [h1] at h
    · by_cases h2 : o = web3OptURL
      · subst h2; simp [ethOptURL, web3OptURL] at h; exact .inr ⟨h, rfl⟩
      · simp [h1, h2] at h
  | o1 :: o2 :: rest => simp [route_many] at h

/-! ### the message-type tests -/

theorem isType_iff (url : String) (m : Msg) : isType url m = true ↔ m = .plain url := by
  cases m <;> simp [isType]

theorem ethOnly_all {msgs : List Msg} (h : ethOnlyDec msgs = true) : ∀ m, m ∈ msgs → m = .plain c15EthOnlyURL := by
  intro m hm
  simp only [ethOnlyDec, List.all_eq_true] at h
  exact (isType_iff _ _).mp (h m hm)

theorem rejectMsgs_none {msgs : List Msg} (h : rejectMsgsDec msgs = true) : ∀ m, m ∈ msgs → m ≠ .plain c15RejectMsgsURL := by
  intro m hm heq
  simp only [rejectMsgsDec, List.all_eq_true] at h
  have := h m hm
  rw [heq] at this
  simp [isType] at this

theorem no_inExec_of_all_plain {msgs : List Msg} {u : String} (h : ∀ m, m ∈ msgs → m = .plain u) :
    ∀ m, ¬ InExec m msgs := by
  intro m hi
  cases hi with
  | child he _ => have := h _ he; cases this
  | deeper he _ => have := h _ he; cases this

theorem vestingDec_iff (vl : List String) (msgs : List Msg) :
    vestingDec vl msgs = true ↔ ∀ m, m ∈ msgs → m.url ∉ vl := by
  simp [vestingDec]

theorem isDisabled_false_iff (bl : List String) (u : String) : isDisabled bl u = false ↔ u ∉ bl := by
  simp [isDisabled]

theorem noBlocked_iff (bl : List String) (ms : List Msg) :
    NoBlocked bl ms ↔ ((∀ m, InExec m ms → m.url ∉ bl) ∧ (∀ t, Anywhere (.grant t) ms → t ∉ bl)) := by
  simp only [NoBlocked, isDisabled_false_iff]

/-- the composed gate, route by route -/
theorem anteGate_pass_iff (cfg : Cfg) (md : Mode) (tx : Tx) :
    anteGate cfg md tx = .pass ↔
      ((tx.opts = [ethOptURL] ∧ ethOnlyDec tx.msgs = true ∧
        (hasFetchers cfg = true → mempoolDec md tx.signers cfg.authorised = true)) ∨
       ((tx.opts = [] ∨ tx.opts = [web3OptURL]) ∧ rejectMsgsDec tx.msgs = true ∧
        (hasFetchers cfg = true → mempoolDec md tx.signers cfg.authorised = true) ∧
        vestingDec c15VestingDisabled tx.msgs = true ∧ authzLimiter c15AuthzDisabled tx.msgs = .ok)) := by
  unfold anteGate
  cases hr : route tx.opts with
  | reject w =>
    simp only [reduceCtorEq, false_iff, not_or, not_and]
    refine ⟨?_, ?_⟩
    · intro ho; rw [(route_eth_iff _).mpr ho] at hr; cases hr
    · intro ho
      cases ho with
      | inl h => rw [h, route_nil] at hr; cases hr
      | inr h => rw [h, route_single] at hr; simp [web3OptURL, ethOptURL] at hr
  | eth =>
    have ho := (route_eth_iff _).mp hr
    simp only [runEth_pass_iff, ho, true_and]
    constructor
    · intro h; exact .inl h
    · intro h
      cases h with
      | inl h => exact h
      | inr h => rcases h.1 with h' | h' <;> simp [ethOptURL, web3OptURL] at h'
  | cosmos e =>
    simp only [runCosmos_pass_iff]
    rcases route_cosmos_opts _ _ hr with ⟨he, ho⟩ | ⟨he, ho⟩
    · subst he
      simp only [ho, true_implies, forall_const]
      constructor
      · intro ⟨a, _, c⟩; exact .inr ⟨.inl trivial, a, c⟩
      · intro h
        cases h with
        | inl h => simp [ethOptURL] at h
        | inr h => exact ⟨h.2.1, trivial, h.2.2⟩
    · subst he
      simp only [ho]
      constructor
      · intro ⟨a, _, c⟩; exact .inr ⟨.inr trivial, a, c⟩
      · intro h
        cases h with
        | inl h => simp [ethOptURL, web3OptURL] at h
        | inr h => exact ⟨h.2.1, (fun h' => by cases h'), h.2.2⟩

end KV.Ante
