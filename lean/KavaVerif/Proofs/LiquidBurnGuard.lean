/-
  Helper lemmas for C12, part 6: MsgBurnDerivative names a validator AND carries a coin; only the named validator's
  own derivative redeems shares of the module's delegation to it (Model/LiquidBurnGuard.lean).

  * a burn whose coin is not the named validator's derivative is refused (`stepBurn_mismatch_refused`) — refused =
    `.err` = the state is unchanged in every history (`runM_mismatch_skip`);
  * an accepted burn message IS the per-validator burn of Model/Liquid.lean (`stepBurn_ok_is_burn`), so message
    histories are `Op` histories (`runM_eq_run`) and everything proved about `run` (backing, …) holds for them;
  * what the comparison is for: without it (`burnUnguarded`) a holder of validator 0's derivative empties the module's
    delegation to validator 1 and validator 1's derivative is no longer backed (`burnUnguarded_breaks_backing`,
    literal witness `exTwo`).
-/
import KavaVerif.Model.LiquidBurnGuard
import KavaVerif.Proofs.LiquidHist

namespace KV.Liquid

theorem burnMsg_mismatch (g : Cfg) (M : Addr) (c : VSt) (d : Addr) (amount : Int) :
    burnMsg g M c d false amount = .err := rfl

theorem burnMsg_match (g : Cfg) (M : Addr) (c : VSt) (d : Addr) (amount : Int) :
    burnMsg g M c d true amount = burn g M c d amount := rfl

theorem stepBurn_mismatch_refused (g : Cfg) (M : Addr) (s : Chain) (d v : Nat) (dn : CoinDenom) (amount : Int)
    (h : dn ≠ .deriv v) : stepBurn g M s d v dn amount = .err := by
  unfold stepBurn
  split
  · rfl
  · rw [decide_eq_false h, burnMsg_mismatch]; rfl

theorem stepBurn_matched (g : Cfg) (M : Addr) (s : Chain) (d v : Nat) (amount : Int) :
    stepBurn g M s d v (.deriv v) amount = step g M s (.burn d v amount) := by
  unfold stepBurn step
  rw [decide_eq_true rfl, burnMsg_match]

theorem stepBurn_ok_is_burn (g : Cfg) (M : Addr) (s s' : Chain) (d v : Nat) (dn : CoinDenom) (amount : Int)
    (h : stepBurn g M s d v dn amount = .ok s') : dn = .deriv v ∧ step g M s (.burn d v amount) = .ok s' := by
  by_cases hd : dn = .deriv v
  · subst hd; exact ⟨rfl, by rw [← stepBurn_matched]; exact h⟩
  · rw [stepBurn_mismatch_refused g M s d v dn amount hd] at h; cases h

/-- a message and the `Op` it amounts to take the same step; a mismatched burn takes none -/
theorem stepM_toOp (g : Cfg) (M : Addr) (s : Chain) (m : MOp) :
    (∀ op, m.toOp = some op → stepM g M s m = step g M s op) ∧ (m.toOp = none → stepM g M s m = .err) := by
  cases m with
  | plain op => exact ⟨fun op' h => by cases h; rfl, fun h => by cases h⟩
  | burnCoin d v dn a =>
    by_cases hd : dn = .deriv v
    · subst hd
      refine ⟨fun op h => ?_, fun h => ?_⟩
      · simp only [MOp.toOp, ite_true] at h; cases h; exact stepBurn_matched g M s d v a
      · simp only [MOp.toOp, ite_true] at h; cases h
    · refine ⟨fun op h => ?_, fun _ => stepBurn_mismatch_refused g M s d v dn a hd⟩
      simp only [MOp.toOp, if_neg hd] at h; cases h

/-- message histories are `Op` histories: the mismatched burns drop out -/
theorem runM_eq_run (g : Cfg) (M : Addr) (ms : List MOp) : ∀ s : Chain, runM g M s ms = run g M s (ms.filterMap MOp.toOp) := by
  induction ms with
  | nil => intro s; rfl
  | cons m ms ih =>
    intro s
    cases hm : m.toOp with
    | none =>
      have h1 := (stepM_toOp g M s m).2 hm
      simp only [runM, h1, List.filterMap_cons, hm]
      exact ih s
    | some op =>
      have h1 := (stepM_toOp g M s m).1 op hm
      simp only [runM, h1, List.filterMap_cons, hm, run]
      cases step g M s op with
      | ok s' => exact ih s'
      | err => exact ih s
      | panic => rfl

/-- a refused burn in front of a history changes nothing of what follows -/
theorem runM_mismatch_skip (g : Cfg) (M : Addr) (s : Chain) (d v : Nat) (dn : CoinDenom) (amount : Int) (ms : List MOp)
    (h : dn ≠ .deriv v) : runM g M s (.burnCoin d v dn amount :: ms) = runM g M s ms := by
  simp only [runM, stepM, stepBurn_mismatch_refused g M s d v dn amount h]

/-! ### what the comparison is for -/

/-- validator 0: slashed (93 tokens / 100 shares), the module (0) holds 10 shares backing 10 units, 9 of them held by
    account 1.  validator 1: healthy (100 / 100), the module holds 10 shares backing the 10 units of account 3. -/
def exTwo : Chain := fun w =>
  if w = 0 then
    { val := some { tokens := 93, shares := ⟨100 * P⟩, status := .bonded, minSelf := 1, jailed := false, oper := 9 },
      del := fun a => if a = 0 then some ⟨10 * P⟩ else if a = 1 then some ⟨40 * P⟩ else if a = 9 then some ⟨50 * P⟩ else none,
      redel := fun _ => false, ubd := fun _ => 0, bal := fun a => if a = 2 then 1 else if a = 1 then 9 else 0, supply := 10 }
  else if w = 1 then
    { val := some { tokens := 100, shares := ⟨100 * P⟩, status := .bonded, minSelf := 1, jailed := false, oper := 8 },
      del := fun a => if a = 0 then some ⟨10 * P⟩ else if a = 8 then some ⟨90 * P⟩ else none,
      redel := fun _ => false, ubd := fun _ => 0, bal := fun a => if a = 3 then 10 else 0, supply := 10 }
  else { val := none, del := fun _ => none, redel := fun _ => false, ubd := fun _ => 0, bal := fun _ => 0, supply := 0 }

theorem exTwo_backed : Backed 0 (exTwo 0) ∧ Backed 0 (exTwo 1) := by decide

/-- WITHOUT the comparison: account 1 burns 9 units of validator 0's derivative naming validator 1 — accepted, and
    validator 1's derivative (10 units, all held by account 3) is left with one module share behind it; account 1
    has turned 9 slashed shares (8.37 tokens) into 9 full ones. -/
theorem burnUnguarded_breaks_backing :
    (burnUnguarded cfg 0 exTwo 1 0 1 9).okAnd (fun s' => decide (¬ Backed 0 (s' 1) ∧ (s' 1).supply = 10 ∧ (s' 0).supply = 1)) = true := by
  decide

/-- WITH it (the code): the same message is refused, for every state -/
theorem stepBurn_exTwo_refused : (stepBurn cfg 0 exTwo 1 1 (.deriv 0) 9).isErr = true := by
  rw [stepBurn_mismatch_refused _ _ _ _ _ _ _ (by decide)]; rfl

end KV.Liquid
