/-
  Helper lemmas for C12 (x/liquid over the modelled x/staking primitives). Core Lean only.
  Part 1: Dec arithmetic of the share/token conversions, specifications ("effect lemmas") of the
  modelled staking primitives and of TransferDelegation / MintDerivative / BurnDerivative.
-/
import KavaVerif.Model.Liquid
set_option linter.unusedSimpArgs false
set_option linter.unusedVariables false

namespace KV.Liquid
open KV

theorem P_val : P = 1000000000000000000 := by decide
theorem H_val : H = 500000000000000000 := by decide
theorem P_pos : (0:Int) < P := by decide

/-! ### Dec arithmetic on non-negative operands -/

theorem chopRound_nonneg_eq (x : Int) (hx : 0 ≤ x) : chopRound x = chopRoundNonneg x := by
  unfold chopRound; have : ¬ x < 0 := by omega
  simp only [this, ite_false]

theorem quo_m_nonneg (a b : Dec) (ha : 0 ≤ a.m) (hb : 0 < b.m) :
    (a.quo b).m = chopRoundNonneg (a.m * P * P / b.m) := by
  unfold Dec.quo
  have h1 : 0 ≤ a.m * P * P := Int.mul_nonneg (Int.mul_nonneg ha (by decide)) (by decide)
  simp only []
  rw [tquo_nonneg_eq _ _ h1 (by omega)]
  exact chopRound_nonneg_eq _ (Int.ediv_nonneg h1 (by omega))

theorem chopRoundNonneg_mul_P (a : Int) (ha : 0 ≤ a) : chopRoundNonneg (a * P) = a := by
  have := chopRound_mul_P a
  rw [chopRound_nonneg_eq _ (Int.mul_nonneg ha (by decide))] at this
  exact this

/-- tokens handed out by `RemoveDelShares` for `sh` shares (mantissa) of a validator with `T` tokens and
    `S` delegator shares (mantissa): ⌊round₁₈(sh·T/S)⌋ -/
def tokOut (T S sh : Int) : Int := chopRoundNonneg (sh * T * P * P / S) / P

theorem tokOut_nonneg (T S sh : Int) (hT : 0 ≤ T) (hS : 0 < S) (hs : 0 ≤ sh) : 0 ≤ tokOut T S sh := by
  unfold tokOut
  have h1 : 0 ≤ sh * T * P * P := Int.mul_nonneg (Int.mul_nonneg (Int.mul_nonneg hs hT) (by decide)) (by decide)
  exact Int.ediv_nonneg (chopRoundNonneg_nonneg _ (Int.ediv_nonneg h1 (by omega))) (by decide)

/-- upper bound: `tokOut·S ≤ sh·T + S/(2·10^18)` -/
theorem tokOut_upper (T S sh : Int) (hT : 0 ≤ T) (hS : 0 < S) (hs : 0 ≤ sh) :
    2 * P * (tokOut T S sh * S - sh * T) ≤ S := by
  have h1 : 0 ≤ sh * T * P * P := Int.mul_nonneg (Int.mul_nonneg (Int.mul_nonneg hs hT) (by decide)) (by decide)
  generalize hN : sh * T * P * P = N at h1
  have hq0 : 0 ≤ N / S := Int.ediv_nonneg h1 (by omega)
  have hqS : N / S * S ≤ N := Int.ediv_mul_le N (by omega)
  have hb := (chopRoundNonneg_bound (N / S) hq0).1
  have ha : tokOut T S sh * P ≤ chopRoundNonneg (N / S) := by
    unfold tokOut; rw [hN]; exact Int.ediv_mul_le _ (by decide)
  generalize tokOut T S sh = a at *
  generalize chopRoundNonneg (N / S) = r at *
  generalize N / S = q at *
  have h2 : a * P * P ≤ r * P := Int.mul_le_mul_of_nonneg_right ha (by decide)
  have h3 : 2 * (a * P * P) * S ≤ (2 * q + P) * S := Int.mul_le_mul_of_nonneg_right (by omega) (by omega)
  have h4 : P * (2 * P * (a * S - sh * T)) ≤ P * S := by grind
  exact Int.le_of_mul_le_mul_left h4 (by decide)

/-- lower bound: `sh·T < (tokOut+1)·S` (less than one token is left behind) -/
theorem tokOut_lower (T S sh : Int) (hT : 0 ≤ T) (hS : 0 < S) (hs : 0 ≤ sh) :
    sh * T < (tokOut T S sh + 1) * S := by
  have h1 : 0 ≤ sh * T * P * P := Int.mul_nonneg (Int.mul_nonneg (Int.mul_nonneg hs hT) (by decide)) (by decide)
  generalize hN : sh * T * P * P = N at h1
  have hq0 : 0 ≤ N / S := Int.ediv_nonneg h1 (by omega)
  have hqS : N < (N / S + 1) * S := Int.lt_ediv_add_one_mul_self N hS
  have hb := (chopRoundNonneg_bound (N / S) hq0).2
  have ha : chopRoundNonneg (N / S) < (tokOut T S sh + 1) * P := by
    unfold tokOut; rw [hN]; exact Int.lt_ediv_add_one_mul_self _ (by decide)
  generalize tokOut T S sh = a at *
  generalize chopRoundNonneg (N / S) = r at *
  generalize N / S = q at *
  have h2 : r * P ≤ (a * P + P - 1) * P := Int.mul_le_mul_of_nonneg_right (by grind) (by decide)
  have h3 : (2 * q) * S ≤ (2 * (a * P + P - 1) * P + P) * S := Int.mul_le_mul_of_nonneg_right (by grind) (by omega)
  have h4 : P * P * (sh * T) < P * P * ((a + 1) * S) := by
    simp only [P_val] at *
    grind
  exact Int.lt_of_mul_lt_mul_left h4 (by decide)

/-- exchange rate one: `k` whole shares are worth exactly `k` tokens -/
theorem tokOut_rate_one (T k : Int) (hT : 0 < T) (hk : 0 ≤ k) : tokOut T (T * P) (k * P) = k := by
  unfold tokOut
  have e : k * P * T * P * P = (k * P * P) * (T * P) := by grind
  rw [e, Int.mul_ediv_cancel _ (by have := P_pos; have : 0 < T * P := Int.mul_pos hT P_pos; omega)]
  have e2 : k * P * P = (k * P) * P := by grind
  rw [e2, chopRoundNonneg_mul_P _ (Int.mul_nonneg hk (by decide))]
  exact Int.mul_ediv_cancel k (by decide)

theorem tfs_trunc (v : Val) (sh : Dec) (hT : 0 ≤ v.tokens) (hS : 0 < v.shares.m) (hs : 0 ≤ sh.m) :
    (v.tokensFromShares sh).truncateInt = tokOut v.tokens v.shares.m sh.m := by
  unfold Val.tokensFromShares Dec.truncateInt
  have hm : 0 ≤ (sh.mulInt v.tokens).m := by unfold Dec.mulInt; exact Int.mul_nonneg hs hT
  rw [quo_m_nonneg _ _ hm hS]
  have h1 : 0 ≤ sh.m * v.tokens * P * P := Int.mul_nonneg (Int.mul_nonneg (Int.mul_nonneg hs hT) (by decide)) (by decide)
  rw [chopTrunc_nonneg_eq _ (chopRoundNonneg_nonneg _ (Int.ediv_nonneg (by unfold Dec.mulInt; exact h1) (by omega)))]
  rfl

/-- `SharesFromTokens` and `SharesFromTokensTruncated` coincide (nested floor): the cap in
    `ValidateUnbondAmount` is dead code in this SDK version. -/
theorem sft_eq_truncated (v : Val) (amt : Int) (hT : 0 < v.tokens) (hS : 0 ≤ v.shares.m) (ha : 0 ≤ amt) :
    v.sharesFromTokensTruncated amt = v.sharesFromTokens amt := by
  unfold Val.sharesFromTokensTruncated Val.sharesFromTokens
  have hT0 : ¬ v.tokens = 0 := by omega
  simp only [hT0, ite_false]
  congr 1
  unfold Dec.quoTruncate Dec.quoInt Dec.mulInt Dec.ofInt
  simp only []
  have hx : 0 ≤ v.shares.m * amt := Int.mul_nonneg hS ha
  generalize v.shares.m * amt = x at hx
  have hxP : 0 ≤ x * P * P := Int.mul_nonneg (Int.mul_nonneg hx (by decide)) (by decide)
  have hTP : 0 < v.tokens * P := Int.mul_pos hT P_pos
  rw [tquo_nonneg_eq _ _ hxP (by omega), tquo_nonneg_eq _ _ hx (by omega)]
  rw [chopTrunc_nonneg_eq _ (Int.ediv_nonneg hxP (by omega))]
  congr 1
  -- ⌊⌊x·P·P / (T·P)⌋ / P⌋ = ⌊x / T⌋
  have e1 : x * P * P / (v.tokens * P) = x * P / v.tokens := by
    rw [Int.mul_ediv_mul_of_pos_left _ _ P_pos]
  rw [e1, Int.ediv_ediv_of_nonneg (by omega), Int.mul_ediv_mul_of_pos_left _ _ P_pos]

/-- mantissa of a delegation (0 when there is no record) -/
def dm (c : VSt) (a : Addr) : Int := match c.del a with | some d => d.m | none => 0

/-! ### Specifications of the staking primitives -/

theorem removeDelShares_spec (v v2 : Val) (sh : Dec) (amt : Int) (h : v.removeDelShares sh = some (v2, amt)) :
    v2.shares.m = v.shares.m - sh.m ∧ v2.status = v.status ∧ v2.minSelf = v.minSelf ∧ v2.jailed = v.jailed ∧
    v2.oper = v.oper ∧
    ((v2.shares.m = 0 ∧ amt = v.tokens ∧ v2.tokens = 0) ∨
     (v2.shares.m ≠ 0 ∧ v.shares.m ≠ 0 ∧ amt = (v.tokensFromShares sh).truncateInt ∧ v2.tokens = v.tokens - amt ∧
      0 ≤ v2.tokens)) := by
  unfold Val.removeDelShares at h
  simp only [] at h
  by_cases h0 : (v.shares.sub sh).m = 0
  · rw [if_pos h0] at h
    cases h
    exact ⟨rfl, rfl, rfl, rfl, rfl, Or.inl ⟨h0, rfl, rfl⟩⟩
  · rw [if_neg h0] at h
    by_cases hs0 : v.shares.m = 0
    · rw [if_pos hs0] at h; cases h
    · rw [if_neg hs0] at h
      by_cases hneg : v.tokens - (v.tokensFromShares sh).truncateInt < 0
      · rw [if_pos hneg] at h; cases h
      · rw [if_neg hneg] at h
        cases h
        exact ⟨rfl, rfl, rfl, rfl, rfl, Or.inr ⟨h0, hs0, rfl, rfl, by simp only []; omega⟩⟩

theorem addTokensFromDel_spec (v v1 : Val) (amt : Int) (r : Dec) (h : v.addTokensFromDel amt = some (v1, r)) :
    v1.tokens = v.tokens + amt ∧ v1.shares.m = v.shares.m + r.m ∧ v1.status = v.status ∧ v1.minSelf = v.minSelf ∧
    v1.jailed = v.jailed ∧ v1.oper = v.oper ∧
    ((v.shares.m = 0 ∧ r.m = amt * P) ∨ (v.shares.m ≠ 0 ∧ v.tokens ≠ 0 ∧ r.m = tquo (v.shares.m * amt) v.tokens)) := by
  unfold Val.addTokensFromDel at h
  by_cases h0 : v.shares.m = 0
  · rw [if_pos h0] at h
    cases h
    exact ⟨rfl, rfl, rfl, rfl, rfl, rfl, Or.inl ⟨h0, rfl⟩⟩
  · rw [if_neg h0] at h
    unfold Val.sharesFromTokens at h
    by_cases ht : v.tokens = 0
    · rw [if_pos ht] at h; cases h
    · rw [if_neg ht] at h
      cases h
      exact ⟨rfl, rfl, rfl, rfl, rfl, rfl, Or.inr ⟨h0, ht, rfl⟩⟩

/-- the validator as `Unbond` sees it after the self-delegation check -/
def jailAdj (v : Val) (d : Addr) (newDel : Dec) : Val :=
  if d = v.oper ∧ v.jailed = false ∧ v.belowMinSelf newDel = true then { v with jailed := true } else v

theorem unbond_spec (c c1 : VSt) (d : Addr) (sh : Dec) (amt : Int) (h : unbond c d sh = .ok (c1, amt)) :
    ∃ x v v2, c.del d = some x ∧ sh.m ≤ x.m ∧ c.val = some v ∧
      (jailAdj v d (x.sub sh)).removeDelShares sh = some (v2, amt) ∧
      c1.val = (if v2.shares.m = 0 ∧ v2.status = .unbonded then none else some v2) ∧
      c1.del = (if (x.sub sh).m = 0 then updD c.del d none else updD c.del d (some (x.sub sh))) ∧
      c1.redel = c.redel ∧ c1.ubd = c.ubd ∧ c1.bal = c.bal ∧ c1.supply = c.supply := by
  unfold unbond at h
  split at h
  · cases h
  · rename_i x hx
    split at h
    · cases h
    split at h
    · cases h
    · rename_i hle
      split at h
      · cases h
      · rename_i v hv
        simp only [] at h
        split at h
        · cases h
        · rename_i v2 amt' hr
          cases h
          exact ⟨x, v, v2, hx, by omega, hv, hr, rfl, rfl, rfl, rfl, rfl, rfl⟩

theorem delegate_spec (c c2 : VSt) (d : Addr) (amt : Int) (r : Dec) (h : delegate c d amt = .ok (c2, r)) :
    ∃ v v1, c.val = some v ∧ v.invalidExRate = false ∧ v.addTokensFromDel amt = some (v1, r) ∧
      c2.val = some v1 ∧
      c2.del = updD c.del d (some ⟨dm c d + r.m⟩) ∧
      c2.redel = c.redel ∧ c2.ubd = c.ubd ∧ c2.bal = c.bal ∧ c2.supply = c.supply := by
  unfold delegate at h
  split at h
  · cases h
  · rename_i v hv
    split at h
    · cases h
    · rename_i hinv
      split at h
      · cases h
      split at h
      · cases h
      · rename_i v1 r' ha
        cases h
        refine ⟨v, v1, hv, by simpa using hinv, ha, rfl, ?_, rfl, rfl, rfl, rfl⟩
        simp only []
        congr 2
        unfold dm
        cases c.del d <;> simp [Dec.add, Dec.zero]

theorem transfer_spec (g : Cfg) (c c2 : VSt) (frm to : Addr) (sh r : Dec)
    (h : transfer g c frm to sh = .ok (c2, r)) :
    c.redel frm = false ∧ 0 < sh.m ∧
    ∃ x v c1 amt, c.del frm = some x ∧ c.val = some v ∧
      ¬ (frm = v.oper ∧ v.belowMinSelf (x.sub sh) = true) ∧
      unbond c frm sh = .ok (c1, amt) ∧
      ((g.skipZeroDelegate = true ∧ amt = 0 ∧ c2 = c1 ∧ r = Dec.zero) ∨
       (¬ (g.skipZeroDelegate = true ∧ amt = 0) ∧ delegate c1 to amt = .ok (c2, r))) := by
  unfold transfer at h
  split at h
  · cases h
  · rename_i hred
    split at h
    · cases h
    · rename_i hneg
      split at h
      · cases h
      · rename_i hz
        split at h
        · cases h
        · rename_i x hx
          split at h
          · cases h
          · rename_i v hv
            split at h
            · cases h
            · rename_i hg
              split at h
              · cases h
              · cases h
              · rename_i c1 amt hu
                split at h
                · rename_i hrz
                  cases h
                  exact ⟨by simpa using hred, by omega, x, v, c2, amt, hx, hv, hg, hu, Or.inl ⟨hrz.1, hrz.2, rfl, rfl⟩⟩
                · rename_i hrz
                  split at h
                  · cases h
                  · cases h
                  · rename_i c2' r' hd
                    cases h
                    exact ⟨by simpa using hred, by omega, x, v, c1, amt, hx, hv, hg, hu, Or.inr ⟨hrz, hd⟩⟩

theorem jailAdj_of_guard (v : Val) (d : Addr) (nd : Dec) (h : ¬ (d = v.oper ∧ v.belowMinSelf nd = true)) :
    jailAdj v d nd = v := by
  unfold jailAdj
  have : ¬ (d = v.oper ∧ v.jailed = false ∧ v.belowMinSelf nd = true) := fun ⟨a, _, b⟩ => h ⟨a, b⟩
  rw [if_neg this]

/-- Everything a successful `TransferDelegation` does.  Last clause: either (repaired code only) nothing was
    unbonded and nothing is re-delegated, or the unbonded tokens are delegated for the recipient. -/
theorem transfer_effect (g : Cfg) (c c2 : VSt) (frm to : Addr) (sh r : Dec) (hne : frm ≠ to)
    (h : transfer g c frm to sh = .ok (c2, r)) :
    ∃ x v v2 amt, c.del frm = some x ∧ c.val = some v ∧ 0 < sh.m ∧ sh.m ≤ x.m ∧ c.redel frm = false ∧
      ¬ (frm = v.oper ∧ v.belowMinSelf (x.sub sh) = true) ∧
      v.removeDelShares sh = some (v2, amt) ∧
      c2.del frm = (if x.m - sh.m = 0 then none else some ⟨x.m - sh.m⟩) ∧
      (∀ a, a ≠ frm → a ≠ to → c2.del a = c.del a) ∧
      c2.redel = c.redel ∧ c2.ubd = c.ubd ∧ c2.bal = c.bal ∧ c2.supply = c.supply ∧
      dm c2 to = dm c to + r.m ∧
      ((g.skipZeroDelegate = true ∧ amt = 0 ∧ r = Dec.zero ∧ c2.del to = c.del to ∧
          c2.val = (if v2.shares.m = 0 ∧ v2.status = .unbonded then none else some v2)) ∨
       (¬ (g.skipZeroDelegate = true ∧ amt = 0) ∧ ∃ v3, v2.invalidExRate = false ∧
          v2.addTokensFromDel amt = some (v3, r) ∧ c2.val = some v3 ∧ c2.del to = some ⟨dm c to + r.m⟩)) := by
  obtain ⟨hred, hpos, x, v, c1, amt, hx, hv, hg, hu, hcase⟩ := transfer_spec g c c2 frm to sh r h
  obtain ⟨x', v', v2, hx', hle, hv', hr, hval1, hdel1, f1, f2, f3, f4⟩ := unbond_spec c c1 frm sh amt hu
  rw [hx] at hx'; cases hx'
  rw [hv] at hv'; cases hv'
  rw [jailAdj_of_guard v frm _ hg] at hr
  have hto1 : c1.del to = c.del to := by
    rw [hdel1]; split <;> simp only [updD, Ne.symm hne, ite_false]
  have hfrm1 : c1.del frm = (if x.m - sh.m = 0 then none else some ⟨x.m - sh.m⟩) := by
    rw [hdel1]
    have e : (x.sub sh).m = x.m - sh.m := rfl
    by_cases h0 : (x.sub sh).m = 0
    · rw [if_pos h0, if_pos (by omega)]; simp only [updD, ite_true]
    · rw [if_neg h0, if_neg (by omega)]; simp only [updD, ite_true]; rfl
  have hoth1 : ∀ a, a ≠ frm → c1.del a = c.del a := by
    intro a h1; rw [hdel1]; split <;> simp only [updD, h1, ite_false]
  rcases hcase with ⟨hs, ha0, hc, hr0⟩ | ⟨hns, hd⟩
  · subst hc; subst hr0
    refine ⟨x, v, v2, amt, hx, hv, hpos, hle, hred, hg, hr, hfrm1, fun a h1 _ => hoth1 a h1, f1, f2, f3, f4, ?_,
      Or.inl ⟨hs, ha0, rfl, hto1, hval1⟩⟩
    have e : dm c2 to = (match c2.del to with | some d => d.m | none => 0) := rfl
    have e' : dm c to = (match c.del to with | some d => d.m | none => 0) := rfl
    rw [e, e', hto1]; simp [Dec.zero]
  · obtain ⟨w, v3, hw, hinv, ha, hval2, hdel2, g1, g2, g3, g4⟩ := delegate_spec c1 c2 to amt r hd
    have hw2 : w = v2 := by
      rw [hval1] at hw
      split at hw
      · cases hw
      · cases hw; rfl
    subst hw2
    have hdm1 : dm c1 to = dm c to := by unfold dm; rw [hto1]
    have hto2 : c2.del to = some ⟨dm c to + r.m⟩ := by
      rw [hdel2]; simp only [updD, ite_true]; rw [hdm1]
    refine ⟨x, v, w, amt, hx, hv, hpos, hle, hred, hg, hr, ?_, ?_, by rw [g1, f1], by rw [g2, f2], by rw [g3, f3],
      by rw [g4, f4], ?_, Or.inr ⟨hns, v3, hinv, ha, hval2, hto2⟩⟩
    · rw [hdel2]; simp only [updD, hne, ite_false]; exact hfrm1
    · intro a h1 h2
      rw [hdel2]; simp only [updD, h2, ite_false]; exact hoth1 a h1
    · have e : dm c2 to = (match c2.del to with | some d => d.m | none => 0) := rfl
      rw [e, hto2]

/-- what unbond-then-delegate does to the validator record -/
theorem xfer_val (v v2 v3 : Val) (sh r : Dec) (amt : Int) (h1 : v.removeDelShares sh = some (v2, amt))
    (h2 : v2.addTokensFromDel amt = some (v3, r)) :
    v3.tokens = v.tokens ∧ v3.shares.m = v.shares.m - sh.m + r.m ∧ v3.status = v.status ∧
    v3.jailed = v.jailed ∧ v3.minSelf = v.minSelf ∧ v3.oper = v.oper := by
  obtain ⟨a1, a2, a3, a4, a5, a6⟩ := removeDelShares_spec v v2 sh amt h1
  obtain ⟨b1, b2, b3, b4, b5, b6, -⟩ := addTokensFromDel_spec v2 v3 amt r h2
  refine ⟨?_, by omega, by rw [b3, a2], by rw [b5, a4], by rw [b4, a3], by rw [b6, a5]⟩
  rcases a6 with ⟨-, e1, e2⟩ | ⟨-, -, -, e2, -⟩ <;> omega

theorem mint_effect (g : Cfg) (M : Addr) (c c' : VSt) (d : Addr) (amount der : Int)
    (h : mint g M c d true amount = .ok (c', der)) :
    0 < amount ∧ ∃ shares c1 r, validateUnbondAmount c d amount = some shares ∧
      transfer g c d M shares = .ok (c1, r) ∧
      der = (if g.mintReceived then r.truncateInt else shares.truncateInt) ∧
      c'.val = c1.val ∧ c'.del = c1.del ∧ c'.redel = c1.redel ∧ c'.ubd = c1.ubd ∧
      c'.bal = updI c1.bal d (c1.bal d + der) ∧ c'.supply = c1.supply + der := by
  unfold mint at h
  simp only [Bool.true_eq_false, ite_false] at h
  split at h
  · cases h
  · rename_i hpos
    split at h
    · cases h
    · rename_i shares hs
      split at h
      · cases h
      · cases h
      · rename_i c1 r ht
        cases h
        exact ⟨by omega, shares, c1, r, hs, ht, rfl, rfl, rfl, rfl, rfl, rfl, rfl⟩


theorem validate_tokens_ne (c : VSt) (d : Addr) (amt : Int) (sh : Dec) (h : validateUnbondAmount c d amt = some sh) :
    ∃ v, c.val = some v ∧ v.tokens ≠ 0 := by
  unfold validateUnbondAmount at h
  split at h
  · cases h
  · rename_i v hv
    split at h
    · cases h
    · split at h
      · cases h
      · rename_i shares hs
        unfold Val.sharesFromTokens at hs
        split at hs
        · cases hs
        · rename_i ht; exact ⟨v, hv, ht⟩

theorem burn_effect (g : Cfg) (M : Addr) (c c' : VSt) (d : Addr) (amount : Int) (r : Dec)
    (h : burn g M c d amount = .ok (c', r)) :
    0 ≤ amount ∧ amount ≤ c.bal d ∧
    transfer g { c with bal := updI c.bal d (c.bal d - amount), supply := c.supply - amount } M d (Dec.ofInt amount)
      = .ok (c', r) := by
  unfold burn at h
  split at h
  · cases h
  · rename_i h0
    split at h
    · cases h
    · rename_i h1
      exact ⟨by omega, by omega, h⟩


/-! ### Predicates of the property and small helpers for literal witnesses -/

def Res.okAnd {α : Type} (r : Res α) (p : α → Bool) : Bool := match r with | .ok a => p a | _ => false

theorem Res.okAnd_elim {α : Type} {r : Res α} {p : α → Bool} (h : r.okAnd p = true) :
    ∃ a, r = .ok a ∧ p a = true := by
  unfold Res.okAnd at h
  split at h
  · exact ⟨_, rfl, h⟩
  · cases h

/-- "the supply of a validator's derivative never exceeds the delegation shares held by the module account" -/
def Backed (M : Addr) (c : VSt) : Prop := c.supply * P ≤ dm c M
instance (M : Addr) (c : VSt) : Decidable (Backed M c) := by unfold Backed; exact inferInstance

/-- "without ever creating an empty delegation" -/
def NoEmptyAt (c : VSt) (a : Addr) : Prop := c.del a ≠ some ⟨0⟩
instance (c : VSt) (a : Addr) : Decidable (NoEmptyAt c a) := by unfold NoEmptyAt; exact inferInstance

/-- the chain's own valuation of an account's stake on this validator, as the numerator of a fraction over the
    validator's shares: (delegation shares + derivative units) × tokens.  Staked value in base units =
    `stakeNum c a / shares`. -/
def stakeNum (c : VSt) (a : Addr) : Int :=
  match c.val with
  | some v => (dm c a + c.bal a * P) * v.tokens
  | none => 0

def sharesOf (c : VSt) : Int := match c.val with | some v => v.shares.m | none => 0

/-- |value' − value| ≤ 2 base units, cross-multiplied: value = stakeNum / shares -/
def ValueWithinTwo (c c' : VSt) (a : Addr) : Prop :=
  stakeNum c' a * sharesOf c - stakeNum c a * sharesOf c' ≤ 2 * sharesOf c * sharesOf c' ∧
  stakeNum c a * sharesOf c' - stakeNum c' a * sharesOf c ≤ 2 * sharesOf c * sharesOf c'
instance (c c' : VSt) (a : Addr) : Decidable (ValueWithinTwo c c' a) := by unfold ValueWithinTwo; exact inferInstance

end KV.Liquid
