/-
  Helper lemmas for C17 (a): the permission checker of x/committee/types/permissions.go versus the
  amino-JSON applier. Core tactics only.
-/
import KavaVerif.Model.Permissions
set_option linter.unusedSimpArgs false
set_option linter.unusedVariables false
namespace KV.Perm

/-! ### `Json.beq` (reflect.DeepEqual on decoded values) implies equality -/

mutual
theorem Json.eq_of_beq : ∀ (a b : Json), Json.beq a b = true → a = b
  | .null, .null, _ => rfl
  | .bool a, .bool b, h => by simp only [Json.beq, beq_iff_eq] at h; rw [h]
  | .num a, .num b, h => by simp only [Json.beq, beq_iff_eq] at h; rw [h]
  | .str a, .str b, h => by simp only [Json.beq, beq_iff_eq] at h; rw [h]
  | .arr a, .arr b, h => by simp only [Json.beq] at h; rw [eq_of_beqList a b h]
  | .obj a, .obj b, h => by simp only [Json.beq] at h; rw [eq_of_beqObj a b h]
  | .null, .bool _, h => by simp [Json.beq] at h
  | .null, .num _, h => by simp [Json.beq] at h
  | .null, .str _, h => by simp [Json.beq] at h
  | .null, .arr _, h => by simp [Json.beq] at h
  | .null, .obj _, h => by simp [Json.beq] at h
  | .bool _, .null, h => by simp [Json.beq] at h
  | .bool _, .num _, h => by simp [Json.beq] at h
  | .bool _, .str _, h => by simp [Json.beq] at h
  | .bool _, .arr _, h => by simp [Json.beq] at h
  | .bool _, .obj _, h => by simp [Json.beq] at h
  | .num _, .null, h => by simp [Json.beq] at h
  | .num _, .bool _, h => by simp [Json.beq] at h
  | .num _, .str _, h => by simp [Json.beq] at h
  | .num _, .arr _, h => by simp [Json.beq] at h
  | .num _, .obj _, h => by simp [Json.beq] at h
  | .str _, .null, h => by simp [Json.beq] at h
  | .str _, .bool _, h => by simp [Json.beq] at h
  | .str _, .num _, h => by simp [Json.beq] at h
  | .str _, .arr _, h => by simp [Json.beq] at h
  | .str _, .obj _, h => by simp [Json.beq] at h
  | .arr _, .null, h => by simp [Json.beq] at h
  | .arr _, .bool _, h => by simp [Json.beq] at h
  | .arr _, .num _, h => by simp [Json.beq] at h
  | .arr _, .str _, h => by simp [Json.beq] at h
  | .arr _, .obj _, h => by simp [Json.beq] at h
  | .obj _, .null, h => by simp [Json.beq] at h
  | .obj _, .bool _, h => by simp [Json.beq] at h
  | .obj _, .num _, h => by simp [Json.beq] at h
  | .obj _, .str _, h => by simp [Json.beq] at h
  | .obj _, .arr _, h => by simp [Json.beq] at h
theorem eq_of_beqList : ∀ (a b : List Json), beqList a b = true → a = b
  | [], [], _ => rfl
  | x :: xs, y :: ys, h => by
    simp only [beqList, Bool.and_eq_true] at h
    rw [Json.eq_of_beq x y h.1, eq_of_beqList xs ys h.2]
  | [], _ :: _, h => by simp [beqList] at h
  | _ :: _, [], h => by simp [beqList] at h
theorem eq_of_beqObj : ∀ (a b : List (String × Json)), beqObj a b = true → a = b
  | [], [], _ => rfl
  | (k, x) :: xs, (l, y) :: ys, h => by
    simp only [beqObj, Bool.and_eq_true, beq_iff_eq] at h
    rw [h.1.1, Json.eq_of_beq x y h.1.2, eq_of_beqObj xs ys h.2]
  | [], _ :: _, h => by simp [beqObj] at h
  | _ :: _, [], h => by simp [beqObj] at h
end

/-! ### association lists -/

theorem lookup_none_of_not_mem_keys (o : Obj) (k : String) (h : k ∉ keys o) : o.lookup k = none := by
  induction o with
  | nil => rfl
  | cons kv rest ih =>
    obtain ⟨l, v⟩ := kv
    simp only [keys, List.map_cons, List.mem_cons, not_or] at h
    have hne : (k == l) = false := by
      simp only [beq_eq_false_iff_ne, ne_eq]; exact h.1
    simp only [List.lookup, hne]
    exact ih h.2

theorem get_null_of_not_mem_keys (o : Obj) (k : String) (h : k ∉ keys o) : get o k = .null := by
  unfold get; rw [lookup_none_of_not_mem_keys o k h]; rfl

theorem get_of_lookup_some (o : Obj) (k : String) (v : Json) (h : o.lookup k = some v) : get o k = v := by
  unfold get; rw [h]; rfl

theorem get_of_lookup_none (o : Obj) (k : String) (h : o.lookup k = none) : get o k = .null := by
  unfold get; rw [h]; rfl

/-! ### validateParamChangesAreAllowed -/

theorem hasKey_iff_mem_keys (o : Obj) (k : String) : hasKey o k = true ↔ k ∈ keys o := by
  unfold hasKey keys
  simp only [List.any_eq_true, beq_iff_eq, List.mem_map]

theorem validate_spec (cur inc : Obj) (allow : List String) (h : validate cur inc allow = true) :
    cur.length = inc.length ∧ (∀ k, k ∈ keys inc → k ∈ keys cur) ∧
    ∀ k, k ∈ keys cur → k ∉ allow → get cur k = get inc k := by
  unfold validate at h
  split at h
  · cases h
  · rename_i hl
    simp only [bne_iff_ne, ne_eq, Decidable.not_not] at hl
    split at h
    · cases h
    · rename_i hsub
      have hsub : (keys inc).all (hasKey cur) = true := by
        cases hx : (keys inc).all (hasKey cur) with
        | true => rfl
        | false => rw [hx] at hsub; simp at hsub
      rw [List.all_eq_true] at hsub
      refine ⟨hl, fun k hk => (hasKey_iff_mem_keys cur k).mp (hsub k hk), ?_⟩
      intro k hk hna
      rw [List.all_eq_true] at h
      have := h k hk
      simp only [Bool.or_eq_true, List.contains_eq_mem, decide_eq_true_eq] at this
      rcases this with h1 | h2
      · exact absurd h1 hna
      · exact Json.eq_of_beq _ _ h2

/-- the single-record fact: after an accepted change every field that is not on the allow-list is read
    back by the applier exactly as the store held it -/
theorem single_protected (sch : Schema) (base : String → Json) (cur inc : Obj) (allow : List String)
    (hb : ∀ k, base k = recOf cur k ∨ base k = .null)
    (h : validate cur inc allow = true) (k : String) (hk : k ∉ allow) :
    applyRec sch base inc k = recOf cur k := by
  obtain ⟨_, hsub, hv⟩ := validate_spec cur inc allow h
  unfold applyRec recOf
  cases hl : inc.lookup k with
  | some v =>
    simp only
    have hin : k ∈ keys inc := by
      by_cases hm : k ∈ keys inc
      · exact hm
      · rw [lookup_none_of_not_mem_keys inc k hm] at hl; cases hl
    rw [hv k (hsub k hin) hk, get_of_lookup_some inc k v hl]
  | none =>
    simp only
    have hcur : get cur k = .null := by
      by_cases hm : k ∈ keys cur
      · rw [hv k hm hk, get_of_lookup_none inc k hl]
      · exact get_null_of_not_mem_keys cur k hm
    split
    · rcases hb k with h1 | h1
      · rw [h1]; rfl
      · rw [h1, hcur]
    · rw [hcur]

/-! ### allowsMultiParamsChange -/

theorem findFree_spec (r : Req) (inc : List Obj) (used : List Nat) (i : Nat)
    (h : findFree r inc used = some i) :
    i < inc.length ∧ i ∉ used ∧ ∃ v, inc[i]? = some v ∧ matchesReq v r = true := by
  unfold findFree at h
  have hm := List.mem_of_find?_eq_some h
  have hp := List.find?_some h
  simp only [List.mem_range] at hm
  simp only [Bool.and_eq_true, Bool.not_eq_true', List.contains_eq_mem, decide_eq_false_iff_not] at hp
  refine ⟨hm, hp.1, ?_⟩
  cases hv : inc[i]? with
  | none => rw [hv] at hp; simp at hp
  | some v => rw [hv] at hp; exact ⟨v, rfl, hp.2⟩

/-- what the loop established for the pair (current record, assigned incoming index) -/
def Pair (reqs : List Req) (inc : List Obj) (c : Obj) (i : Nat) : Prop :=
  ∃ r v, reqs.find? (matchesReq c) = some r ∧ inc[i]? = some v ∧ matchesReq v r = true ∧
    validate c v r.allowed = true

theorem assign_spec (reqs : List Req) (inc : List Obj) (cur : List Obj) :
    ∀ (used idxs : List Nat), assign reqs inc used cur = some idxs →
      idxs.length = cur.length ∧ (∀ i, i ∈ idxs → i < inc.length ∧ i ∉ used) ∧ idxs.Nodup ∧
      ∀ p, p ∈ cur.zip idxs → Pair reqs inc p.1 p.2 := by
  induction cur with
  | nil =>
    intro used idxs h
    simp only [assign, Option.some.injEq] at h
    subst h
    exact ⟨rfl, by simp, List.nodup_nil, by simp⟩
  | cons c cs ih =>
    intro used idxs h
    unfold assign at h
    split at h
    · cases h
    · rename_i r hr
      split at h
      · cases h
      · rename_i i hi
        split at h
        · cases h
        · rename_i v hv
          split at h
          · rename_i hval
            cases hrest : assign reqs inc (i :: used) cs with
            | none => rw [hrest] at h; cases h
            | some rest =>
              rw [hrest] at h
              simp only [Option.map_some, Option.some.injEq] at h
              subst h
              obtain ⟨hlen, hbound, hnd, hpairs⟩ := ih (i :: used) rest hrest
              obtain ⟨hilt, hiu, v', hv', hmv⟩ := findFree_spec r inc used i hi
              rw [hv] at hv'; cases hv'
              refine ⟨by simp [hlen], ?_, ?_, ?_⟩
              · intro j hj
                rcases List.mem_cons.mp hj with e | hj
                · subst e; exact ⟨hilt, hiu⟩
                · obtain ⟨h1, h2⟩ := hbound j hj
                  exact ⟨h1, fun hu => h2 (List.mem_cons_of_mem _ hu)⟩
              · rw [List.nodup_cons]
                refine ⟨?_, hnd⟩
                intro hm
                exact (hbound i hm).2 List.mem_cons_self
              · intro p hp
                simp only [List.zip_cons_cons, List.mem_cons] at hp
                rcases hp with e | hp
                · subst e; exact ⟨r, v, hr, hv, hmv, hval⟩
                · exact hpairs p hp
          · cases h

theorem allowsMulti_spec (reqs : List Req) (cur inc : List Obj) (h : allowsMulti reqs cur inc = true) :
    cur.length = inc.length ∧ ∃ idxs, assign reqs inc [] cur = some idxs := by
  unfold allowsMulti at h
  split at h
  · cases h
  · rename_i hl
    simp only [bne_iff_ne, ne_eq, Decidable.not_not] at hl
    cases ha : assign reqs inc [] cur with
    | none => rw [ha] at h; cases h
    | some idxs => exact ⟨hl, idxs, rfl⟩

/-! ### pigeonhole on index lists (core Lean has no ready-made form) -/

theorem pigeonhole : ∀ (n : Nat) (l : List Nat), l.Nodup → (∀ x, x ∈ l → x < n) → l.length = n →
    ∀ j, j < n → j ∈ l := by
  intro n
  induction n with
  | zero => intro l _ _ _ j hj; omega
  | succ n ih =>
    intro l hnd hlt hlen j hj
    -- remove `n` from l (it must be there, otherwise l fits in n and is too long)
    by_cases hn : n ∈ l
    · have hnd' : (l.erase n).Nodup := hnd.erase n
      have hlen' : (l.erase n).length = n := by
        rw [List.length_erase_of_mem hn, hlen]; rfl
      have hlt' : ∀ x, x ∈ l.erase n → x < n := by
        intro x hx
        have hxl : x ∈ l := List.mem_of_mem_erase hx
        have hxn : x ≠ n := by
          intro e; subst e
          exact (List.Nodup.not_mem_erase hnd) hx
        have := hlt x hxl
        omega
      by_cases hjn : j = n
      · subst hjn; exact hn
      · have : j ∈ l.erase n := ih (l.erase n) hnd' hlt' hlen' j (by omega)
        exact List.mem_of_mem_erase this
    · -- all elements < n, nodup, length n+1: impossible
      exfalso
      have hlt' : ∀ x, x ∈ l → x < n := by
        intro x hx
        have := hlt x hx
        have hxn : x ≠ n := fun e => hn (e ▸ hx)
        omega
      match l, hnd, hlen, hlt' with
      | [], _, hlen, _ => simp at hlen
      | a :: t, hnd, hlen, hlt' =>
        have hndt : t.Nodup := (List.nodup_cons.mp hnd).2
        have hat : a ∉ t := (List.nodup_cons.mp hnd).1
        have hlent : t.length = n := by simpa using hlen
        have ha : a < n := hlt' a (List.mem_cons_self)
        have : a ∈ t := ih t hndt (fun x hx => hlt' x (List.mem_cons_of_mem a hx)) hlent a ha
        exact hat this

/-! ### filter / Allows -/

theorem anyAllows_nil_no (st : Store) (c : Change) : anyAllows st c [] = .no := rfl

theorem filter_empty_of_unlisted (apcs : List APC) (c : Change)
    (h : ∀ a, a ∈ apcs → ¬ (a.subspace = c.subspace ∧ a.key = c.key)) : filterByParamChange apcs c = [] := by
  unfold filterByParamChange
  rw [List.filter_eq_nil_iff]
  intro a ha hp
  simp only [Bool.and_eq_true, beq_iff_eq] at hp
  exact h a ha ⟨hp.1.symm, hp.2.symm⟩

theorem allowsChanges_unlisted (apcs : List APC) (st : Store) (cs : List Change) (c : Change) (hc : c ∈ cs)
    (h : ∀ a, a ∈ apcs → ¬ (a.subspace = c.subspace ∧ a.key = c.key)) : allowsChanges apcs st cs ≠ .yes := by
  induction cs with
  | nil => cases hc
  | cons d ds ih =>
    unfold allowsChanges
    rcases List.mem_cons.mp hc with e | hin
    · subst e
      rw [filter_empty_of_unlisted apcs c h, anyAllows_nil_no]
      simp
    · split
      · exact ih hin
      · rename_i v hv
        intro e
        exact hv e


/-! ### duplicate keys: Go map semantics of `decodeObj` -/

/-- the decoded value of the LAST occurrence of key `k` in a raw JSON object -/
def lastValue : List (String × Json) → String → Option Json
  | [], _ => none
  | (k, v) :: rest, k' =>
    match lastValue rest k' with
    | some x => some x
    | none => if k == k' then some (decode v) else none

theorem hasKey_iff_lookup (o : Obj) (k : String) : hasKey o k = (o.lookup k).isSome := by
  induction o with
  | nil => rfl
  | cons kv rest ih =>
    obtain ⟨l, w⟩ := kv
    simp only [hasKey, List.any_cons, List.lookup] at ih ⊢
    by_cases h : l = k
    · subst h; simp
    · have h1 : (l == k) = false := by simpa using h
      have h2 : (k == l) = false := by simpa using (fun e : k = l => h e.symm)
      simp only [h1, h2, Bool.false_or]
      exact ih

theorem lookup_insertSorted (k : String) (v : Json) (o : Obj) (hk : o.lookup k = none) (k' : String) :
    (insertSorted k v o).lookup k' = if k' == k then some v else o.lookup k' := by
  induction o with
  | nil =>
    simp only [insertSorted, List.lookup]
    split <;> simp_all
  | cons lw rest ih =>
    obtain ⟨l, w⟩ := lw
    have hne : (k == l) = false := by
      cases h : (k == l) with
      | false => rfl
      | true => simp [List.lookup, h] at hk
    have hrest : rest.lookup k = none := by
      simpa [List.lookup, hne] using hk
    simp only [insertSorted]
    split
    · -- inserted in front
      simp only [List.lookup]
      cases h1 : (k' == k) with
      | true => simp
      | false => simp
    · simp only [List.lookup]
      cases h2 : (k' == l) with
      | true =>
        have : (k' == k) = false := by
          have e1 : k' = l := by simpa using h2
          have e2 : ¬ k = l := by simpa using hne
          simp only [beq_eq_false_iff_ne, ne_eq]
          intro e; exact e2 (e ▸ e1)
        simp [this]
      | false =>
        simp only []
        exact ih hrest

/-- Go map semantics of duplicate keys: the decoded object maps each key to its last occurrence -/
theorem decodeObj_lookup (kvs : List (String × Json)) (k' : String) :
    (decodeObj kvs).lookup k' = lastValue kvs k' := by
  induction kvs generalizing k' with
  | nil => rfl
  | cons kv rest ih =>
    obtain ⟨k, v⟩ := kv
    simp only [decodeObj, lastValue]
    split
    · rename_i hh
      rw [hasKey_iff_lookup, ih k] at hh
      rw [ih k']
      cases h : lastValue rest k' with
      | some x => rfl
      | none =>
        simp only []
        split
        · rename_i e
          have : k = k' := by simpa using e
          subst this
          rw [h] at hh; cases hh
        · rfl
    · rename_i hh
      have hnone : (decodeObj rest).lookup k = none := by
        rw [hasKey_iff_lookup] at hh
        cases h : (decodeObj rest).lookup k with
        | none => rfl
        | some x => rw [h] at hh; simp at hh
      rw [lookup_insertSorted k (decode v) _ hnone k', ih k']
      cases h : lastValue rest k' with
      | some x =>
        simp only []
        split
        · rename_i e
          have : k' = k := by simpa using e
          subst this
          rw [ih k', h] at hnone; cases hnone
        · rfl
      | none =>
        simp only []
        by_cases e : k' = k
        · subst e; simp
        · have e1 : (k' == k) = false := by simpa using e
          have e2 : (k == k') = false := by simpa using (fun x : k = k' => e x.symm)
          simp [e1, e2]

end KV.Perm
