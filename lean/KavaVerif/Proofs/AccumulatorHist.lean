/-
  Helper lemmas for C09, part 2: operation histories.
  `Op` / `gstep` / `grun` run the model over ANY list of operations while accumulating ghost quantities
  (emission counted by the module, number of synchronisations, claimed amounts, each user's time
  integral).  Two potentials are shown monotone along every step:
    `Phi`         → C09_no_over_distribution
    `Dv` ∓ `Bv`   → C09_integral
-/
import KavaVerif.Proofs.Accumulator
set_option linter.unusedSimpArgs false
set_option linter.unusedVariables false
namespace KV.Acc
open KV

/-! ### sums over the participant list -/

def sumOver (l : List Addr) (f : Addr → Int) : Int := (l.map f).foldr (· + ·) 0

theorem sumOver_nil (f : Addr → Int) : sumOver [] f = 0 := rfl
theorem sumOver_cons (x : Addr) (xs : List Addr) (f : Addr → Int) :
    sumOver (x :: xs) f = f x + sumOver xs f := rfl

theorem sumOver_congr (l : List Addr) (f g : Addr → Int) (h : ∀ a ∈ l, f a = g a) :
    sumOver l f = sumOver l g := by
  induction l with
  | nil => rfl
  | cons x xs ih =>
    rw [sumOver_cons, sumOver_cons, h x (List.mem_cons_self ..),
      ih (fun a ha => h a (List.mem_cons_of_mem _ ha))]

theorem sumOver_add_mul (l : List Addr) (f g : Addr → Int) (c : Int) :
    sumOver l (fun a => f a + c * g a) = sumOver l f + c * sumOver l g := by
  induction l with
  | nil => simp [sumOver]
  | cons x xs ih => rw [sumOver_cons, sumOver_cons, sumOver_cons, ih]; ring

/-- changing the summand at one listed point -/
theorem sumOver_point (l : List Addr) (f g : Addr → Int) (a : Addr) (hn : l.Nodup) (ha : a ∈ l)
    (h : ∀ x, x ≠ a → g x = f x) : sumOver l g = sumOver l f - f a + g a := by
  induction l with
  | nil => cases ha
  | cons x xs ih =>
    have hnd := List.nodup_cons.mp hn
    rw [sumOver_cons, sumOver_cons]
    by_cases hx : x = a
    · subst hx
      have : sumOver xs g = sumOver xs f :=
        sumOver_congr xs g f (fun y hy => h y (fun e => hnd.1 (e ▸ hy)))
      rw [this]; omega
    · have hm : a ∈ xs := by
        cases ha with
        | head => exact absurd rfl hx
        | tail _ h' => exact h'
      rw [ih hnd.2 hm, h x hx]; omega

theorem sumOver_le (l : List Addr) (f g : Addr → Int) (h : ∀ a ∈ l, f a ≤ g a) :
    sumOver l f ≤ sumOver l g := by
  induction l with
  | nil => simp [sumOver]
  | cons x xs ih =>
    rw [sumOver_cons, sumOver_cons]
    have := h x (List.mem_cons_self ..)
    have := ih (fun a ha => h a (List.mem_cons_of_mem _ ha))
    omega

theorem sumOver_const (l : List Addr) (c : Int) : sumOver l (fun _ => c) = l.length * c := by
  induction l with
  | nil => simp [sumOver]
  | cons x xs ih => rw [sumOver_cons, ih]; simp only [List.length_cons]; push_cast; ring

/-! ### pre-rounding worth of a state -/

/-- pending reward before the two roundings, units 10^-36: (I − i)·s -/
def pend2 (σ : St) (a : Addr) : Int := (σ.I - (σ.u a).i) * (σ.u a).s

/-- accrued reward plus exact pending reward of one user, units 10^-36 -/
def worth (σ : St) (a : Addr) : Int := (σ.u a).r * P * P + pend2 σ a

def W (us : List Addr) (σ : St) : Int := sumOver us (worth σ)

def shares (us : List Addr) (σ : St) : Int := sumOver us (fun a => (σ.u a).s)

/-! ### operation histories with ghost accounting -/

inductive Op where
  | acc (now : Int)
  | sync (a : Addr)
  | change (a : Addr) (s' : Int)
  | claim (a : Addr) (factor now claimEnd macc : Int)
  | rawWrite (a : Addr) (s' : Int)   -- a share write with no hook: what `Gen.shareWrites` excludes
deriving Repr, DecidableEq

/-- every share change goes through `change` (hook, then write) -/
def Op.hooked : Op → Bool
  | .rawWrite _ _ => false
  | _ => true

/-- the operation acts on a listed participant and writes non-negative shares -/
def Op.okFor (us : List Addr) : Op → Prop
  | .acc _ => True
  | .sync a => a ∈ us
  | .change a s' => a ∈ us ∧ 0 ≤ s'
  | .claim a _ _ _ _ => a ∈ us
  | .rawWrite a s' => a ∈ us ∧ 0 ≤ s'

instance (us : List Addr) (o : Op) : Decidable (o.okFor us) := by
  cases o <;> unfold Op.okFor <;> infer_instance

/-- ghost quantities the theorems speak about (none of them is stored by the code) -/
structure Ghost where
  emitted : Int          -- Σ_b (2·rate·secs_b·P + T_b) over accruing blocks; units ½·10^-36
  nsync : Int            -- synchronisations performed
  claimed : Int          -- Σ accrued amounts deducted by claims
  flo : Addr → Int       -- per user Σ_b ⌊rate·secs_b·P·s_u(b) / T_b⌋: the time integral, units 10^-36
  slack : Addr → Int     -- per user Σ_b ((P+2)·s_u(b) + P)
  nsyncU : Addr → Int    -- per user synchronisations
  claimedU : Addr → Int  -- per user claimed

def Ghost.zero : Ghost := ⟨0, 0, 0, fun _ => 0, fun _ => 0, fun _ => 0, fun _ => 0⟩

def bump (f : Addr → Int) (a : Addr) (v : Int) : Addr → Int := fun x => if x = a then f x + v else f x

def Ghost.synced (g : Ghost) (a : Addr) : Ghost :=
  { g with nsync := g.nsync + 1, nsyncU := bump g.nsyncU a 1 }

/-- one operation; a failed or panicking operation changes nothing (baseapp discards its writes) -/
def gstep (p : Period) (x : St × Ghost) : Op → St × Ghost
  | .acc now =>
    match accumulate p x.1 now with
    | .ok σ' =>
      let secs := accSecs p x.1 now
      if 0 < x.1.T ∧ 0 < secs then
        (σ', { x.2 with emitted := x.2.emitted + (2 * p.rate * secs * P + x.1.T),
                        flo := fun a => x.2.flo a + p.rate * secs * P * (x.1.u a).s / x.1.T,
                        slack := fun a => x.2.slack a + ((P + 2) * (x.1.u a).s + P) })
      else (σ', x.2)
    | _ => x
  | .sync a =>
    match sync x.1 a with
    | .ok σ' => (σ', x.2.synced a)
    | _ => x
  | .change a s' =>
    match change x.1 a s' with
    | .ok σ' => (σ', x.2.synced a)
    | _ => x
  | .claim a f now ce macc =>
    match claim x.1 a f now ce macc with
    | .ok (σ', _) =>
      let amt := (x.1.u a).r + pending x.1 a
      (σ', { (x.2.synced a) with claimed := x.2.claimed + amt, claimedU := bump x.2.claimedU a amt })
    | _ => x
  | .rawWrite a s' => (write x.1 a s', x.2)

def grun (p : Period) (x : St × Ghost) (ops : List Op) : St × Ghost := ops.foldl (gstep p) x

theorem grun_cons (p : Period) (x : St × Ghost) (o : Op) (ops : List Op) :
    grun p x (o :: ops) = grun p (gstep p x o) ops := rfl

/-! ### worth under each operation -/

theorem worth_sync (σ σ' : St) (a : Addr) (h : sync σ a = .ok σ') :
    σ'.I = σ.I ∧ σ'.T = σ.T ∧ σ'.prev = σ.prev ∧ (∀ y, y ≠ a → σ'.u y = σ.u y) ∧
    (σ'.u a).s = (σ.u a).s ∧ (σ'.u a).i = σ.I ∧ (σ'.u a).r = (σ.u a).r + pending σ a ∧
    (σ.u a).i ≤ σ.I ∧
    2 * (worth σ' a - worth σ a) ≤ P * P + P ∧ 2 * (worth σ a - worth σ' a) ≤ P * P + P := by
  have hp := sync_pending σ σ' a h
  obtain ⟨x, hx, rfl⟩ := sync_ok σ σ' a h
  obtain ⟨b0, b1, b2⟩ := singleReward_bound _ _ _ _ hx
  have hpx : pending σ a = x := by unfold pending; simp only [hx, Option.getD_some]
  refine ⟨rfl, rfl, rfl, ?_, ?_, ?_, hp, by omega, ?_, ?_⟩
  · intro y hy; simp only [upd, hy, ite_false]
  · simp only [upd, ite_true]
  · simp only [upd, ite_true]
  · simp only [worth, pend2, upd, ite_true, Int.sub_self, Int.zero_mul]
    have : ((σ.u a).r + x) * P * P = (σ.u a).r * P * P + x * P * P := by ring
    omega
  · simp only [worth, pend2, upd, ite_true, Int.sub_self, Int.zero_mul]
    have : ((σ.u a).r + x) * P * P = (σ.u a).r * P * P + x * P * P := by ring
    omega

theorem worth_other (σ σ' : St) (y : Addr) (hI : σ'.I = σ.I) (hu : σ'.u y = σ.u y) :
    worth σ' y = worth σ y := by
  simp only [worth, pend2, hI, hu]


theorem indexIncrement_zero (rate T secs : Int) (h : ¬ (0 < T ∧ 0 < secs)) : indexIncrement rate T secs = 0 := by
  unfold indexIncrement
  by_cases hT : T ≤ 0
  · simp only [hT, ite_true]
  · have : secs ≤ 0 := by omega
    simp only [hT, this, ite_true, ite_false]

theorem W_accumulate (us : List Addr) (σ σ' : St) (inc : Int) (hI : σ'.I = σ.I + inc) (hu : σ'.u = σ.u) :
    W us σ' = W us σ + inc * shares us σ := by
  unfold W shares
  rw [← sumOver_add_mul]
  apply sumOver_congr
  intro a _
  simp only [worth, pend2, hI, hu]; ring

theorem shares_point (us : List Addr) (σ σ' : St) (a : Addr) (hn : us.Nodup) (ha : a ∈ us)
    (h : ∀ y, y ≠ a → σ'.u y = σ.u y) :
    shares us σ' = shares us σ - (σ.u a).s + (σ'.u a).s := by
  unfold shares
  exact sumOver_point us _ _ a hn ha (fun y hy => by simp only [h y hy])

theorem W_point (us : List Addr) (σ σ' : St) (a : Addr) (hn : us.Nodup) (ha : a ∈ us) (hI : σ'.I = σ.I)
    (h : ∀ y, y ≠ a → σ'.u y = σ.u y) :
    W us σ' = W us σ - worth σ a + worth σ' a := by
  unfold W
  exact sumOver_point us _ _ a hn ha (fun y hy => worth_other σ σ' y hI (h y hy))

/-- the write of a position change, after the hook has set `i := I` -/
theorem worth_write (σ : St) (a : Addr) (s' : Int) (hi : (σ.u a).i = σ.I) :
    (write σ a s').I = σ.I ∧ (∀ y, y ≠ a → (write σ a s').u y = σ.u y) ∧
    worth (write σ a s') a = worth σ a ∧ ((write σ a s').u a).s = s' ∧
    (write σ a s').T = σ.T - (σ.u a).s + s' ∧ ((write σ a s').u a).r = (σ.u a).r ∧
    ((write σ a s').u a).i = (σ.u a).i := by
  refine ⟨rfl, ?_, ?_, ?_, rfl, ?_, ?_⟩
  · intro y hy; simp only [write, upd, hy, ite_false]
  · simp only [worth, pend2, write, upd, ite_true, hi, Int.sub_self, Int.zero_mul]
  · simp only [write, upd, ite_true]
  · simp only [write, upd, ite_true]
  · simp only [write, upd, ite_true]

/-- potential of the no-over-distribution bound -/
def Phi (us : List Addr) (x : St × Ghost) : Int :=
  2 * (W us x.1 + x.2.claimed * P * P) - x.2.emitted - x.2.nsync * (P * P + P)

theorem gstep_phi (p : Period) (us : List Addr) (x : St × Ghost) (o : Op)
    (hr : 0 ≤ p.rate) (hn : us.Nodup) (hs : shares us x.1 ≤ x.1.T) (hh : o.hooked = true)
    (ho : o.okFor us) :
    Phi us (gstep p x o) ≤ Phi us x ∧ shares us (gstep p x o).1 ≤ (gstep p x o).1.T := by
  obtain ⟨σ, g⟩ := x
  simp only [] at hs
  cases o with
  | acc now =>
    simp only [gstep]
    cases h : accumulate p σ now with
    | err => exact ⟨Int.le_refl _, hs⟩
    | panic => exact ⟨Int.le_refl _, hs⟩
    | ok σ' =>
      obtain ⟨hI, hT, hu, -⟩ := accumulate_ok p σ σ' now h
      have hW := W_accumulate us σ σ' _ hI hu
      have hsh : shares us σ' = shares us σ := by unfold shares; rw [hu]
      simp only []
      by_cases hc : 0 < σ.T ∧ 0 < accSecs p σ now
      · simp only [hc, and_self, ite_true]
        refine ⟨?_, by rw [hsh, hT]; exact hs⟩
        have := indexIncrement_le p.rate σ.T (accSecs p σ now) hr hc.1 hc.2
        have hinc := indexIncrement_nonneg p.rate σ.T (accSecs p σ now) hr
        have hle : indexIncrement p.rate σ.T (accSecs p σ now) * shares us σ ≤
            indexIncrement p.rate σ.T (accSecs p σ now) * σ.T := Int.mul_le_mul_of_nonneg_left hs hinc
        simp only [Phi, hW]
        nlinarith
      · simp only [hc, ite_false]
        refine ⟨?_, by rw [hsh, hT]; exact hs⟩
        have := indexIncrement_zero p.rate σ.T (accSecs p σ now) hc
        simp only [Phi, hW, this, Int.zero_mul, Int.add_zero]
        exact Int.le_refl _
  | sync a =>
    simp only [gstep]
    cases h : sync σ a with
    | err => exact ⟨Int.le_refl _, hs⟩
    | panic => exact ⟨Int.le_refl _, hs⟩
    | ok σ' =>
      obtain ⟨hI, hT, -, hoth, hsa, -, -, -, hb, -⟩ := worth_sync σ σ' a h
      have hW := W_point us σ σ' a hn ho hI hoth
      have hsh := shares_point us σ σ' a hn ho hoth
      simp only []
      refine ⟨?_, by rw [hsh, hT, hsa]; omega⟩
      simp only [Phi, Ghost.synced, hW]
      nlinarith
  | change a s' =>
    simp only [gstep]
    cases h : change σ a s' with
    | err => exact ⟨Int.le_refl _, hs⟩
    | panic => exact ⟨Int.le_refl _, hs⟩
    | ok σ' =>
      obtain ⟨σ1, h1, rfl⟩ := change_ok σ σ' a s' h
      obtain ⟨hI, hT, -, hoth, hsa, hia, -, -, hb, -⟩ := worth_sync σ σ1 a h1
      obtain ⟨wI, woth, ww, ws, wT, -, -⟩ := worth_write σ1 a s' (by rw [hia, hI])
      have hW1 := W_point us σ σ1 a hn ho.1 hI hoth
      have hW2 := W_point us σ1 (write σ1 a s') a hn ho.1 wI woth
      have hsh1 := shares_point us σ σ1 a hn ho.1 hoth
      have hsh2 := shares_point us σ1 (write σ1 a s') a hn ho.1 woth
      simp only []
      refine ⟨?_, by rw [hsh2, hsh1, wT, hT, ws, hsa]; omega⟩
      simp only [Phi, Ghost.synced, hW2, hW1, ww]
      nlinarith
  | claim a f now ce macc =>
    simp only [gstep]
    cases h : claim σ a f now ce macc with
    | err => exact ⟨Int.le_refl _, hs⟩
    | panic => exact ⟨Int.le_refl _, hs⟩
    | ok r =>
      obtain ⟨σ', pay⟩ := r
      obtain ⟨-, σ1, h1, -, -, -, rfl⟩ := claim_ok σ σ' a f now ce macc pay h
      obtain ⟨hI, hT, -, hoth, hsa, hia, hra, -, hb, -⟩ := worth_sync σ σ1 a h1
      have hW1 := W_point us σ σ1 a hn ho hI hoth
      let σ2 : St := { σ1 with u := upd σ1.u a { (σ1.u a) with r := 0 } }
      have h2oth : ∀ y, y ≠ a → σ2.u y = σ1.u y := by
        intro y hy; simp only [σ2, upd, hy, ite_false]
      have hW2 := W_point us σ1 σ2 a hn ho rfl h2oth
      have hw2 : worth σ2 a = worth σ1 a - (σ1.u a).r * P * P := by
        simp only [σ2, worth, pend2, upd, ite_true]; ring
      have hsh1 := shares_point us σ σ1 a hn ho hoth
      have hsh2 := shares_point us σ1 σ2 a hn ho h2oth
      have hs2 : (σ2.u a).s = (σ1.u a).s := by simp only [σ2, upd, ite_true]
      simp only []
      refine ⟨?_, ?_⟩
      · show Phi us (σ2, _) ≤ _
        simp only [Phi, Ghost.synced, hW2, hW1, hw2, hra]
        nlinarith
      · show shares us σ2 ≤ σ2.T
        rw [hsh2, hsh1, hs2, hsa]
        show _ ≤ σ1.T
        rw [hT]; omega
  | rawWrite a s' => cases hh


theorem grun_phi (p : Period) (us : List Addr) (ops : List Op) (x : St × Ghost)
    (hr : 0 ≤ p.rate) (hn : us.Nodup) (hs : shares us x.1 ≤ x.1.T)
    (hh : ∀ o ∈ ops, o.hooked = true) (ho : ∀ o ∈ ops, o.okFor us) :
    Phi us (grun p x ops) ≤ Phi us x ∧ shares us (grun p x ops).1 ≤ (grun p x ops).1.T := by
  induction ops generalizing x with
  | nil => exact ⟨Int.le_refl _, hs⟩
  | cons o os ih =>
    rw [grun_cons]
    obtain ⟨h1, h2⟩ := gstep_phi p us x o hr hn hs (hh o (List.mem_cons_self ..)) (ho o (List.mem_cons_self ..))
    obtain ⟨h3, h4⟩ := ih (gstep p x o) h2 (fun o' h' => hh o' (List.mem_cons_of_mem _ h'))
      (fun o' h' => ho o' (List.mem_cons_of_mem _ h'))
    exact ⟨Int.le_trans h3 h1, h4⟩

/-! ### the stored index never exceeds the global index -/

def IdxLe (σ : St) : Prop := ∀ a, (σ.u a).i ≤ σ.I

theorem gstep_idxLe (p : Period) (x : St × Ghost) (o : Op) (hr : 0 ≤ p.rate) (h : IdxLe x.1) :
    IdxLe (gstep p x o).1 := by
  obtain ⟨σ, g⟩ := x
  simp only [] at h
  cases o with
  | acc now =>
    simp only [gstep]
    cases h1 : accumulate p σ now with
    | err => exact h
    | panic => exact h
    | ok σ' =>
      obtain ⟨hI, -, hu, -⟩ := accumulate_ok p σ σ' now h1
      have hinc := indexIncrement_nonneg p.rate σ.T (accSecs p σ now) hr
      have : IdxLe σ' := by intro a; rw [hu, hI]; have := h a; omega
      simp only []; split <;> exact this
  | sync a =>
    simp only [gstep]
    cases h1 : sync σ a with
    | err => exact h
    | panic => exact h
    | ok σ' =>
      obtain ⟨hI, -, -, hoth, -, hia, -, -, -, -⟩ := worth_sync σ σ' a h1
      intro y
      by_cases hy : y = a
      · subst hy; simp only []; rw [hia, hI]
      · simp only []; rw [hoth y hy, hI]; exact h y
  | change a s' =>
    simp only [gstep]
    cases h1 : change σ a s' with
    | err => exact h
    | panic => exact h
    | ok σ' =>
      obtain ⟨σ1, h2, rfl⟩ := change_ok σ σ' a s' h1
      obtain ⟨hI, -, -, hoth, -, hia, -, -, -, -⟩ := worth_sync σ σ1 a h2
      obtain ⟨wI, woth, -, -, -, -, wi⟩ := worth_write σ1 a s' (by rw [hia, hI])
      intro y
      by_cases hy : y = a
      · subst hy; simp only []; rw [wi, wI, hia, hI]
      · simp only []; rw [woth y hy, wI, hoth y hy, hI]; exact h y
  | claim a f now ce macc =>
    simp only [gstep]
    cases h1 : claim σ a f now ce macc with
    | err => exact h
    | panic => exact h
    | ok r =>
      obtain ⟨σ', pay⟩ := r
      obtain ⟨-, σ1, h2, -, -, -, rfl⟩ := claim_ok σ σ' a f now ce macc pay h1
      obtain ⟨hI, -, -, hoth, -, hia, -, -, -, -⟩ := worth_sync σ σ1 a h2
      intro y
      by_cases hy : y = a
      · subst hy; simp only [upd, ite_true]; rw [hia, hI]
      · simp only [upd, hy, ite_false]; rw [hoth y hy, hI]; exact h y
  | rawWrite a s' =>
    simp only [gstep]
    intro y
    by_cases hy : y = a
    · subst hy; simp only [write, upd, ite_true]; exact h y
    · simp only [write, upd, hy, ite_false]; exact h y

theorem grun_idxLe (p : Period) (ops : List Op) (x : St × Ghost) (hr : 0 ≤ p.rate) (h : IdxLe x.1) :
    IdxLe (grun p x ops).1 := by
  induction ops generalizing x with
  | nil => exact h
  | cons o os ih => rw [grun_cons]; exact ih _ (gstep_idxLe p x o hr h)

/-- the rounded pending reward against the exact one -/
theorem pending_bound (σ : St) (a : Addr) (h : (σ.u a).i ≤ σ.I) :
    2 * (((σ.u a).r + pending σ a) * P * P - worth σ a) ≤ P * P + P ∧
    2 * (worth σ a - ((σ.u a).r + pending σ a) * P * P) ≤ P * P + P := by
  unfold pending
  cases hx : singleReward (σ.u a).i σ.I (σ.u a).s with
  | none =>
    unfold singleReward at hx
    have : ¬ σ.I - (σ.u a).i < 0 := by omega
    simp only [this, ite_false] at hx
    cases hx
  | some x =>
    obtain ⟨-, b1, b2⟩ := singleReward_bound _ _ _ _ hx
    simp only [Option.getD_some, worth, pend2]
    have : ((σ.u a).r + x) * P * P = (σ.u a).r * P * P + x * P * P := by ring
    omega

/-- total credited after synchronising everybody, against the pre-rounding worth -/
theorem credited_le_W (us : List Addr) (σ : St) (h : IdxLe σ) :
    2 * (sumOver us (fun a => (σ.u a).r + pending σ a) * P * P) ≤ 2 * W us σ + us.length * (P * P + P) := by
  have h1 : sumOver us (fun a => 2 * (((σ.u a).r + pending σ a) * P * P)) ≤
      sumOver us (fun a => 2 * worth σ a + (P * P + P)) :=
    sumOver_le us _ _ (fun a _ => by have := (pending_bound σ a (h a)).1; omega)
  have e1 : sumOver us (fun a => 2 * (((σ.u a).r + pending σ a) * P * P)) =
      2 * (sumOver us (fun a => (σ.u a).r + pending σ a) * P * P) := by
    have := sumOver_add_mul us (fun _ => 0) (fun a => (σ.u a).r + pending σ a) (2 * P * P)
    have z : sumOver us (fun _ => (0:Int)) = 0 := by rw [sumOver_const]; ring
    rw [z] at this
    have e : (fun a => 2 * (((σ.u a).r + pending σ a) * P * P)) =
        (fun a => 0 + 2 * P * P * ((σ.u a).r + pending σ a)) := by funext a; ring
    rw [e, this]; ring
  have e2 : sumOver us (fun a => 2 * worth σ a + (P * P + P)) = 2 * W us σ + us.length * (P * P + P) := by
    have := sumOver_add_mul us (fun _ => P * P + P) (worth σ) 2
    have z := sumOver_const us (P * P + P)
    have e : (fun a => 2 * worth σ a + (P * P + P)) = (fun a => (P * P + P) + 2 * worth σ a) := by funext a; ring
    rw [e, this, z]; unfold W; ring
  rw [e1, e2] at h1; exact h1


/-! ### one user's accrual against the time integral -/

/-- accrued + claimed + exact pending of user `a`, minus the time integral so far; units 10^-36 -/
def Dv (a : Addr) (x : St × Ghost) : Int :=
  worth x.1 a + x.2.claimedU a * P * P - x.2.flo a

/-- the allowance: P·(P²+P) per synchronisation of `a` plus (P+2)·s_a(b) + P per accruing block;
    units 1/(2P)·10^-36 -/
def Bv (a : Addr) (x : St × Ghost) : Int :=
  P * x.2.nsyncU a * (P * P + P) + x.2.slack a

def NonnegShares (σ : St) : Prop := ∀ a, 0 ≤ (σ.u a).s

theorem gstep_integral (p : Period) (us : List Addr) (x : St × Ghost) (o : Op) (a : Addr)
    (hr : 0 ≤ p.rate) (hs : NonnegShares x.1) (hh : o.hooked = true) (ho : o.okFor us) :
    (2 * P * Dv a (gstep p x o) - Bv a (gstep p x o) ≤ 2 * P * Dv a x - Bv a x) ∧
    (2 * P * Dv a x + Bv a x ≤ 2 * P * Dv a (gstep p x o) + Bv a (gstep p x o)) ∧
    NonnegShares (gstep p x o).1 := by
  obtain ⟨σ, g⟩ := x
  simp only [] at hs
  have hP := P_pos
  cases o with
  | acc now =>
    simp only [gstep]
    cases h : accumulate p σ now with
    | err => exact ⟨Int.le_refl _, Int.le_refl _, hs⟩
    | panic => exact ⟨Int.le_refl _, Int.le_refl _, hs⟩
    | ok σ' =>
      obtain ⟨hI, hT, hu, -⟩ := accumulate_ok p σ σ' now h
      have hw : worth σ' a = worth σ a + indexIncrement p.rate σ.T (accSecs p σ now) * (σ.u a).s := by
        simp only [worth, pend2, hI, hu]; ring
      have hns : NonnegShares σ' := by intro y; rw [hu]; exact hs y
      simp only []
      by_cases hc : 0 < σ.T ∧ 0 < accSecs p σ now
      · simp only [hc, and_self, ite_true]
        obtain ⟨b1, b2⟩ := increment_share_bound p.rate σ.T (accSecs p σ now) (σ.u a).s hr hc.1 hc.2 (hs a)
        have hsa := hs a
        refine ⟨?_, ?_, hns⟩
        · simp only [Dv, Bv, hw]; nlinarith
        · simp only [Dv, Bv, hw]; nlinarith
      · simp only [hc, ite_false]
        have := indexIncrement_zero p.rate σ.T (accSecs p σ now) hc
        simp only [Dv, Bv, hw, this, Int.zero_mul, Int.add_zero]
        exact ⟨Int.le_refl _, Int.le_refl _, hns⟩
  | sync b =>
    simp only [gstep]
    cases h : sync σ b with
    | err => exact ⟨Int.le_refl _, Int.le_refl _, hs⟩
    | panic => exact ⟨Int.le_refl _, Int.le_refl _, hs⟩
    | ok σ' =>
      obtain ⟨hI, -, -, hoth, hsb, -, -, -, b1, b2⟩ := worth_sync σ σ' b h
      have hns : NonnegShares σ' := by
        intro y; by_cases hy : y = b
        · subst hy; rw [hsb]; exact hs y
        · rw [hoth y hy]; exact hs y
      simp only []
      by_cases hab : a = b
      · subst hab
        simp only [Dv, Bv, Ghost.synced, bump, ite_true]
        refine ⟨?_, ?_, hns⟩ <;> nlinarith
      · have := worth_other σ σ' a hI (hoth a hab)
        simp only [Dv, Bv, Ghost.synced, bump, hab, ite_false, this]
        exact ⟨Int.le_refl _, Int.le_refl _, hns⟩
  | change b s' =>
    simp only [gstep]
    cases h : change σ b s' with
    | err => exact ⟨Int.le_refl _, Int.le_refl _, hs⟩
    | panic => exact ⟨Int.le_refl _, Int.le_refl _, hs⟩
    | ok σ' =>
      obtain ⟨σ1, h1, rfl⟩ := change_ok σ σ' b s' h
      obtain ⟨hI, -, -, hoth, hsb, hib, -, -, b1, b2⟩ := worth_sync σ σ1 b h1
      obtain ⟨wI, woth, ww, ws, -, -, -⟩ := worth_write σ1 b s' (by rw [hib, hI])
      have hns : NonnegShares (write σ1 b s') := by
        intro y; by_cases hy : y = b
        · subst hy; rw [ws]; exact ho.2
        · rw [woth y hy, hoth y hy]; exact hs y
      simp only []
      by_cases hab : a = b
      · subst hab
        simp only [Dv, Bv, Ghost.synced, bump, ite_true, ww]
        refine ⟨?_, ?_, hns⟩ <;> nlinarith
      · have e1 := worth_other σ σ1 a hI (hoth a hab)
        have e2 := worth_other σ1 (write σ1 b s') a wI (woth a hab)
        simp only [Dv, Bv, Ghost.synced, bump, hab, ite_false, e2, e1]
        exact ⟨Int.le_refl _, Int.le_refl _, hns⟩
  | claim b f now ce macc =>
    simp only [gstep]
    cases h : claim σ b f now ce macc with
    | err => exact ⟨Int.le_refl _, Int.le_refl _, hs⟩
    | panic => exact ⟨Int.le_refl _, Int.le_refl _, hs⟩
    | ok r =>
      obtain ⟨σ', pay⟩ := r
      obtain ⟨-, σ1, h1, -, -, -, rfl⟩ := claim_ok σ σ' b f now ce macc pay h
      obtain ⟨hI, -, -, hoth, hsb, hib, hrb, -, b1, b2⟩ := worth_sync σ σ1 b h1
      let σ2 : St := { σ1 with u := upd σ1.u b { (σ1.u b) with r := 0 } }
      have h2oth : ∀ y, y ≠ b → σ2.u y = σ1.u y := by
        intro y hy; simp only [σ2, upd, hy, ite_false]
      have hw2 : worth σ2 b = worth σ1 b - (σ1.u b).r * P * P := by
        simp only [σ2, worth, pend2, upd, ite_true]; ring
      have hs2 : (σ2.u b).s = (σ1.u b).s := by simp only [σ2, upd, ite_true]
      have hns : NonnegShares σ2 := by
        intro y; by_cases hy : y = b
        · subst hy; rw [hs2, hsb]; exact hs y
        · rw [h2oth y hy, hoth y hy]; exact hs y
      simp only []
      by_cases hab : a = b
      · subst hab
        refine ⟨?_, ?_, hns⟩
        · show 2 * P * Dv a (σ2, _) - Bv a (σ2, _) ≤ _
          simp only [Dv, Bv, Ghost.synced, bump, ite_true, hw2, hrb]; nlinarith
        · show _ ≤ 2 * P * Dv a (σ2, _) + Bv a (σ2, _)
          simp only [Dv, Bv, Ghost.synced, bump, ite_true, hw2, hrb]; nlinarith
      · have e1 := worth_other σ σ1 a hI (hoth a hab)
        have e2 : worth σ2 a = worth σ1 a := worth_other σ1 σ2 a rfl (h2oth a hab)
        refine ⟨?_, ?_, hns⟩
        · show 2 * P * Dv a (σ2, _) - Bv a (σ2, _) ≤ _
          simp only [Dv, Bv, Ghost.synced, bump, hab, ite_false, e2, e1]; exact Int.le_refl _
        · show _ ≤ 2 * P * Dv a (σ2, _) + Bv a (σ2, _)
          simp only [Dv, Bv, Ghost.synced, bump, hab, ite_false, e2, e1]; exact Int.le_refl _
  | rawWrite b s' => cases hh

theorem grun_integral (p : Period) (us : List Addr) (ops : List Op) (x : St × Ghost) (a : Addr)
    (hr : 0 ≤ p.rate) (hs : NonnegShares x.1)
    (hh : ∀ o ∈ ops, o.hooked = true) (ho : ∀ o ∈ ops, o.okFor us) :
    (2 * P * Dv a (grun p x ops) - Bv a (grun p x ops) ≤ 2 * P * Dv a x - Bv a x) ∧
    (2 * P * Dv a x + Bv a x ≤ 2 * P * Dv a (grun p x ops) + Bv a (grun p x ops)) := by
  induction ops generalizing x with
  | nil => exact ⟨Int.le_refl _, Int.le_refl _⟩
  | cons o os ih =>
    rw [grun_cons]
    obtain ⟨h1, h2, h3⟩ := gstep_integral p us x o a hr hs (hh o (List.mem_cons_self ..)) (ho o (List.mem_cons_self ..))
    obtain ⟨h4, h5⟩ := ih (gstep p x o) h3 (fun o' h' => hh o' (List.mem_cons_of_mem _ h'))
      (fun o' h' => ho o' (List.mem_cons_of_mem _ h'))
    exact ⟨Int.le_trans h4 h1, Int.le_trans h2 h5⟩

/-! ### the windows counted along a history -/

/-- block times of a history -/
def accTimes : List Op → List Int
  | [] => []
  | .acc now :: os => now :: accTimes os
  | _ :: os => accTimes os

/-- block times never decrease, starting from `τ` -/
def Chain : Int → List Int → Prop
  | _, [] => True
  | τ, t :: ts => τ ≤ t ∧ Chain t ts

instance instDecidableChain : (τ : Int) → (ts : List Int) → Decidable (Chain τ ts)
  | _, [] => isTrue trivial
  | τ, t :: ts =>
    match (inferInstance : Decidable (τ ≤ t)), instDecidableChain t ts with
    | isTrue h1, isTrue h2 => isTrue ⟨h1, h2⟩
    | isFalse h1, _ => isFalse (fun h => h1 h.1)
    | _, isFalse h2 => isFalse (fun h => h2 h.2)

/-- consecutive pieces of the period cut by the block times -/
def pieces (p : Period) : Int → List Int → List Int
  | _, [] => []
  | τ, t :: ts => (clip p t - clip p τ) :: pieces p t ts

/-- the nanosecond windows the model counts at the `acc` operations of a history -/
def histWindows (p : Period) : St × Ghost → List Op → List Int
  | _, [] => []
  | x, .acc now :: os => (elapsed x.1.prev now p.start p.stop).getD 0 :: histWindows p (gstep p x (.acc now)) os
  | x, .sync a :: os => histWindows p (gstep p x (.sync a)) os
  | x, .change a s :: os => histWindows p (gstep p x (.change a s)) os
  | x, .claim a f n c m :: os => histWindows p (gstep p x (.claim a f n c m)) os
  | x, .rawWrite a s :: os => histWindows p (gstep p x (.rawWrite a s)) os

def lastD (τ : Int) : List Int → Int
  | [] => τ
  | t :: ts => lastD t ts

def sumL : List Int → Int
  | [] => 0
  | x :: xs => x + sumL xs

theorem gstep_prev (p : Period) (x : St × Ghost) (o : Op) (h : ∀ now, o ≠ .acc now) :
    (gstep p x o).1.prev = x.1.prev := by
  obtain ⟨σ, g⟩ := x
  cases o with
  | acc now => exact absurd rfl (h now)
  | sync a =>
    simp only [gstep]
    cases h1 : sync σ a with
    | err => rfl
    | panic => rfl
    | ok σ' => obtain ⟨-, -, hp, -⟩ := worth_sync σ σ' a h1; exact hp
  | change a s' =>
    simp only [gstep]
    cases h1 : change σ a s' with
    | err => rfl
    | panic => rfl
    | ok σ' =>
      obtain ⟨σ1, h2, rfl⟩ := change_ok σ σ' a s' h1
      obtain ⟨-, -, hp, -⟩ := worth_sync σ σ1 a h2; exact hp
  | claim a f now ce macc =>
    simp only [gstep]
    cases h1 : claim σ a f now ce macc with
    | err => rfl
    | panic => rfl
    | ok r =>
      obtain ⟨σ', pay⟩ := r
      obtain ⟨-, σ1, h2, -, -, -, rfl⟩ := claim_ok σ σ' a f now ce macc pay h1
      obtain ⟨-, -, hp, -⟩ := worth_sync σ σ1 a h2; exact hp
  | rawWrite a s' => rfl

theorem gstep_acc_prev (p : Period) (x : St × Ghost) (now : Int) (h1 : x.1.prev ≤ now) (h2 : p.start ≤ p.stop) :
    (gstep p x (.acc now)).1.prev = min p.stop now := by
  obtain ⟨σ, g⟩ := x
  simp only [gstep]
  have hok := accumulate_isOk p σ now h1 h2
  cases h : accumulate p σ now with
  | err => rw [h] at hok; cases hok
  | panic => rw [h] at hok; cases hok
  | ok σ' =>
    obtain ⟨-, -, -, hp⟩ := accumulate_ok p σ σ' now h
    simp only []; split <;> exact hp

/-- along ANY history the counted windows are the consecutive pieces `[clip t_{b−1}, clip t_b]` of the
    period: nothing outside `[start, stop]`, no instant twice, none skipped -/
theorem histWindows_eq (p : Period) (ops : List Op) (x : St × Ghost) (τ : Int)
    (h2 : p.start ≤ p.stop) (h3 : p.stop - p.start ≤ maxDur)
    (hp : x.1.prev ≤ τ ∧ clip p x.1.prev = clip p τ) (hc : Chain τ (accTimes ops)) :
    histWindows p x ops = pieces p τ (accTimes ops) := by
  induction ops generalizing x τ with
  | nil => rfl
  | cons o os ih =>
    cases o with
    | acc now =>
      simp only [accTimes, Chain] at hc
      simp only [histWindows, accTimes, pieces]
      have hle : x.1.prev ≤ now := by omega
      rw [elapsed_eq p x.1.prev now hle h2 h3, Option.getD_some, hp.2]
      congr 1
      apply ih _ now _ hc.2
      rw [gstep_acc_prev p x now hle h2]
      exact ⟨by omega, clip_min_stop p now h2⟩
    | sync a =>
      simp only [histWindows, accTimes] at hc ⊢
      apply ih _ τ _ hc
      rw [gstep_prev p x _ (fun _ h => by cases h)]; exact hp
    | change a s =>
      simp only [histWindows, accTimes] at hc ⊢
      apply ih _ τ _ hc
      rw [gstep_prev p x _ (fun _ h => by cases h)]; exact hp
    | claim a f n c m =>
      simp only [histWindows, accTimes] at hc ⊢
      apply ih _ τ _ hc
      rw [gstep_prev p x _ (fun _ h => by cases h)]; exact hp
    | rawWrite a s =>
      simp only [histWindows, accTimes] at hc ⊢
      apply ih _ τ _ hc
      rw [gstep_prev p x _ (fun _ h => by cases h)]; exact hp

theorem pieces_sum (p : Period) (ts : List Int) (τ : Int) :
    sumL (pieces p τ ts) = clip p (lastD τ ts) - clip p τ := by
  induction ts generalizing τ with
  | nil => simp [pieces, sumL, lastD]
  | cons t ts ih => simp only [pieces, sumL, lastD, ih]; omega

theorem pieces_nonneg (p : Period) (ts : List Int) (τ : Int) (hc : Chain τ ts) :
    ∀ d ∈ pieces p τ ts, 0 ≤ d := by
  induction ts generalizing τ with
  | nil => intro d hd; cases hd
  | cons t ts ih =>
    intro d hd
    simp only [pieces, List.mem_cons] at hd
    cases hd with
    | inl h => have := clip_mono p τ t hc.1; omega
    | inr h => exact ih t hc.2 d h


end KV.Acc
