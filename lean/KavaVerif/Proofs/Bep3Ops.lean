/-
  Helper lemmas for C13 (x/bep3), part 3: what each operation does when it succeeds (spec lemmas,
  obtained by walking through the code's branches) and preservation of the invariant by each operation.
  Core Lean only.
-/
import KavaVerif.Proofs.Bep3Inv
set_option linter.unusedSimpArgs false
set_option linter.unusedVariables false

namespace KV.Bep3

/-! ### x/bank and asset.go effect lemmas -/

theorem bankSend_some {bal bal' : Addr → Denom → Int} {frm to : Addr} {d : Denom} {amt : Int}
    (h : bankSend bal frm to d amt = some bal') :
    amt ≤ bal frm d ∧ ∀ x y, bal' x y =
      bal x y - (if x = frm ∧ y = d then amt else 0) + (if x = to ∧ y = d then amt else 0) := by
  unfold bankSend at h
  split at h
  · cases h
  · rename_i hlt
    cases h
    refine ⟨by omega, ?_⟩
    intro x y
    simp only [upd2]
    by_cases hy : y = d
    · subst hy
      by_cases h1 : x = frm <;> by_cases h2 : x = to
      · subst h1; subst h2; simp
      · subst h1
        have h2' : ¬ to = x := fun e => h2 e.symm
        simp [h2, h2']
      · subst h2
        have h1' : ¬ frm = x := fun e => h1 e.symm
        simp [h1, h1']
      · simp [h1, h2]
    · simp [hy]

theorem decIncoming_some {sup sup' : Supply} {amt : Int} (h : decIncoming sup amt = some sup') :
    amt ≤ sup.incoming ∧ sup' = { sup with incoming := sup.incoming - amt } := by
  unfold decIncoming at h
  split at h
  · cases h
  · cases h; exact ⟨by omega, rfl⟩

theorem decOutgoing_some {sup sup' : Supply} {amt : Int} (h : decOutgoing sup amt = some sup') :
    amt ≤ sup.outgoing ∧ sup' = { sup with outgoing := sup.outgoing - amt } := by
  unfold decOutgoing at h
  split at h
  · cases h
  · cases h; exact ⟨by omega, rfl⟩

theorem decCurrent_some {sup sup' : Supply} {amt : Int} (h : decCurrent sup amt = some sup') :
    amt ≤ sup.current ∧ sup' = { sup with current := sup.current - amt } := by
  unfold decCurrent at h
  split at h
  · cases h
  · cases h; exact ⟨by omega, rfl⟩

theorem incIncoming_some {a : Asset} {sup sup' : Supply} {amt : Int} (h : incIncoming a sup amt = some sup') :
    sup.current + sup.incoming + amt ≤ a.limit ∧
    (a.timeLimited = true → sup.tlCurrent + sup.incoming + amt ≤ a.tbl) ∧
    sup' = { sup with incoming := sup.incoming + amt } := by
  unfold incIncoming at h
  split at h
  · cases h
  · split at h
    · cases h
    · rename_i h1 h2
      cases h
      refine ⟨by omega, ?_, rfl⟩
      intro htl
      simp only [htl, true_and] at h2
      omega

theorem incOutgoing_some {sup sup' : Supply} {amt : Int} (h : incOutgoing sup amt = some sup') :
    sup.outgoing + amt ≤ sup.current ∧ sup' = { sup with outgoing := sup.outgoing + amt } := by
  unfold incOutgoing at h
  split at h
  · cases h
  · cases h; exact ⟨by omega, rfl⟩

theorem incCurrent_some {a : Asset} {sup sup' : Supply} {amt : Int} (h : incCurrent a sup amt = some sup') :
    sup.current + amt ≤ a.limit ∧ sup'.current = sup.current + amt ∧ sup'.incoming = sup.incoming ∧
    sup'.outgoing = sup.outgoing ∧ sup'.elapsed = sup.elapsed ∧
    (a.timeLimited = true → sup.tlCurrent + amt ≤ a.tbl ∧ sup'.tlCurrent = sup.tlCurrent + amt) ∧
    (a.timeLimited = false → sup'.tlCurrent = sup.tlCurrent) := by
  unfold incCurrent at h
  split at h
  · cases h
  · split at h
    · rename_i htl
      split at h
      · cases h
      · cases h
        refine ⟨by omega, rfl, rfl, rfl, rfl, fun _ => ⟨by omega, rfl⟩, fun hf => ?_⟩
        rw [htl] at hf; cases hf
    · rename_i htl
      cases h
      refine ⟨by omega, rfl, rfl, rfl, rfl, fun ht => absurd ht htl, fun _ => rfl⟩

theorem upd_same {α : Type} (f : Nat → α) (a : Nat) (v : α) : upd f a v a = v := by simp [upd]
theorem upd_other {α : Type} (f : Nat → α) {a b : Nat} (v : α) (h : b ≠ a) : upd f a v b = f b := by
  simp [upd, h]

/-- `val (live dir d) sw` spelled out for a swap that is not completed -/
theorem val_live {dir : Dir} {d : Denom} {sw : Swap} (hst : sw.status ≠ .completed) :
    val (live dir d) sw = if sw.dir = dir ∧ sw.denom = d then sw.amt else 0 := by
  simp [val, live, hst]

/-! ### the store tails -/

theorem storeNew_fields {hs : Hashes} {s : St} {hash : Hash} {ts : Int} {span : Nat} {sender recipient : Addr}
    {other : Nat} {d : Denom} {amt : Int} {dir : Dir} {sup : Supply} {bal : Addr → Denom → Int}
    (hnew : findSwap s.swaps (hs.sid hash sender other) = none) :
    (storeNew hs s (newSwap hs s hash ts span sender recipient other d amt dir) sup bal).swaps =
      newSwap hs s hash ts span sender recipient other d amt dir :: s.swaps ∧
    (storeNew hs s (newSwap hs s hash ts span sender recipient other d amt dir) sup bal).byBlock =
      insKey s.byBlock ((newSwap hs s hash ts span sender recipient other d amt dir).expire, hs.sid hash sender other) ∧
    (storeNew hs s (newSwap hs s hash ts span sender recipient other d amt dir) sup bal).longterm = s.longterm ∧
    (storeNew hs s (newSwap hs s hash ts span sender recipient other d amt dir) sup bal).height = s.height ∧
    (storeNew hs s (newSwap hs s hash ts span sender recipient other d amt dir) sup bal).assets = s.assets ∧
    (storeNew hs s (newSwap hs s hash ts span sender recipient other d amt dir) sup bal).supply = upd s.supply d sup ∧
    (storeNew hs s (newSwap hs s hash ts span sender recipient other d amt dir) sup bal).bal = bal ∧
    (storeNew hs s (newSwap hs s hash ts span sender recipient other d amt dir) sup bal).bankSupply = s.bankSupply ∧
    (storeNew hs s (newSwap hs s hash ts span sender recipient other d amt dir) sup bal).time = s.time ∧
    (storeNew hs s (newSwap hs s hash ts span sender recipient other d amt dir) sup bal).prevTime = s.prevTime := by
  have hk : keyed hs (newSwap hs s hash ts span sender recipient other d amt dir) =
      newSwap hs s hash ts span sender recipient other d amt dir := rfl
  refine ⟨?_, rfl, rfl, rfl, rfl, rfl, rfl, rfl, rfl, rfl⟩
  show setSwap s.swaps (keyed hs _) = _
  rw [hk]; exact setSwap_new hnew

theorem closeSwap_fields {hs : Hashes} {s0 : St} {sw : Swap} {rm : Bool}
    (hid : sw.id = getSwapID hs sw) (hf : findSwap s0.swaps sw.id = some sw) :
    (closeSwap hs s0 sw rm).swaps = replaceSwap s0.swaps (done s0.height sw) ∧
    (closeSwap hs s0 sw rm).byBlock = (if rm then delKey s0.byBlock (sw.expire, sw.id) else s0.byBlock) ∧
    (closeSwap hs s0 sw rm).longterm = insKey s0.longterm (s0.height + horizon, sw.id) ∧
    (closeSwap hs s0 sw rm).height = s0.height ∧ (closeSwap hs s0 sw rm).assets = s0.assets ∧
    (closeSwap hs s0 sw rm).supply = s0.supply ∧ (closeSwap hs s0 sw rm).bal = s0.bal ∧
    (closeSwap hs s0 sw rm).bankSupply = s0.bankSupply ∧ (closeSwap hs s0 sw rm).time = s0.time ∧
    (closeSwap hs s0 sw rm).prevTime = s0.prevTime := by
  have hg : getSwapID hs { sw with status := .completed, closed := s0.height } = sw.id := hid.symm
  have hk : keyed hs { sw with status := .completed, closed := s0.height } = done s0.height sw := by
    unfold keyed; rw [hg]; rfl
  refine ⟨?_, ?_, ?_, rfl, rfl, rfl, rfl, rfl, rfl, rfl⟩
  · show setSwap s0.swaps (keyed hs _) = _
    rw [hk]; exact setSwap_found (old := sw) hf
  · show (if rm then delKey s0.byBlock (_, getSwapID hs _) else s0.byBlock) = _
    rw [hg]
  · show insKey s0.longterm (_, getSwapID hs _) = _
    rw [hg]

/-! ### spec lemmas: what a successful operation did -/

theorem create_spec {cfg : Cfg} {hs : Hashes} {s s' : St} {hash : Hash} {ts : Int} {span : Nat}
    {sender recipient : Addr} {other : Nat} {coins : List (Denom × Int)}
    (hok : create cfg hs s hash ts span sender recipient other coins = .ok s') :
    ∃ d amt a dir sup bal',
      coins = [(d, amt)] ∧ findSwap s.swaps (hs.sid hash sender other) = none ∧ cfg.macc recipient = false ∧
      getAsset s.assets d = some a ∧ a.active = true ∧ a.minAmt ≤ amt ∧ amt ≤ a.maxAmt ∧
      unixSec (s.time + pastOffset) ≤ ts ∧ ts < unixSec (s.time + futureOffset) ∧
      ((dir = .incoming ∧ sender = a.deputy ∧ recipient ≠ a.deputy ∧
          incIncoming a (s.supply d) amt = some sup ∧ bal' = s.bal) ∨
       (dir = .outgoing ∧ sender ≠ a.deputy ∧ recipient = a.deputy ∧ a.minLock ≤ span ∧ span ≤ a.maxLock ∧
          a.fee + a.minAmt < amt ∧ incOutgoing (s.supply d) amt = some sup ∧
          bankSend s.bal sender cfg.module d amt = some bal')) ∧
      s' = storeNew hs s (newSwap hs s hash ts span sender recipient other d amt dir) sup bal' := by
  unfold create at hok
  split at hok
  · cases hok
  · rename_i hnone
    split at hok
    · cases hok
    · rename_i hmacc
      split at hok
      · rename_i d amt
        split at hok
        · cases hok
        · rename_i a ha
          split at hok
          · cases hok
          · rename_i hact
            split at hok
            · cases hok
            · rename_i hamt
              split at hok
              · cases hok
              · rename_i hts
                split at hok
                · rename_i hdep
                  split at hok
                  · cases hok
                  · rename_i hrec
                    split at hok
                    · cases hok
                    · rename_i sup hsup
                      cases hok
                      refine ⟨d, amt, a, .incoming, sup, s.bal, rfl, hnone, by simpa using hmacc, ha, by simpa using hact,
                        by omega, by omega, by omega, by omega, Or.inl ⟨rfl, hdep, hrec, hsup, rfl⟩, rfl⟩
                · rename_i hdep
                  split at hok
                  · cases hok
                  · rename_i hrec
                    split at hok
                    · cases hok
                    · rename_i hspan
                      split at hok
                      · cases hok
                      · rename_i hfee
                        split at hok
                        · cases hok
                        · rename_i sup hsup
                          split at hok
                          · cases hok
                          · rename_i bal' hbal
                            cases hok
                            refine ⟨d, amt, a, .outgoing, sup, bal', rfl, hnone, by simpa using hmacc, ha, by simpa using hact,
                              by omega, by omega, by omega, by omega,
                              Or.inr ⟨rfl, hdep, by simpa using hrec, by omega, by omega, by omega, hsup, hbal⟩, rfl⟩
      · cases hok

/-- the state handed to `closeSwap` by a successful claim of an incoming swap -/
def claimInPre (cfg : Cfg) (s : St) (sw : Swap) (sup2 : Supply) (bal2 : Addr → Denom → Int) : St :=
  { s with supply := upd s.supply sw.denom sup2, bal := bal2,
           bankSupply := upd s.bankSupply sw.denom (s.bankSupply sw.denom + sw.amt) }

/-- the state handed to `closeSwap` by a successful claim of an outgoing swap -/
def claimOutPre (cfg : Cfg) (s : St) (sw : Swap) (sup2 : Supply) : St :=
  { s with supply := upd s.supply sw.denom sup2,
           bal := upd2 s.bal cfg.module sw.denom (s.bal cfg.module sw.denom - sw.amt),
           bankSupply := upd s.bankSupply sw.denom (s.bankSupply sw.denom - sw.amt) }

theorem claim_spec {cfg : Cfg} {hs : Hashes} {s s' : St} {id : Id} {rn : Nat}
    (hok : claim cfg hs s id rn = .ok s') :
    ∃ sw, findSwap s.swaps id = some sw ∧ sw.status = .open ∧
      hs.sid (hs.H rn sw.ts) sw.sender sw.other = getSwapID hs sw ∧
      ((sw.dir = .incoming ∧ ∃ a sup1 sup2 bal2,
          decIncoming (s.supply sw.denom) sw.amt = some sup1 ∧ getAsset s.assets sw.denom = some a ∧
          incCurrent a sup1 sw.amt = some sup2 ∧ cfg.blocked sw.recipient = false ∧
          bankSend (upd2 s.bal cfg.module sw.denom (s.bal cfg.module sw.denom + sw.amt))
            cfg.module sw.recipient sw.denom sw.amt = some bal2 ∧
          s' = closeSwap hs (claimInPre cfg s sw sup2 bal2) sw true) ∨
       (sw.dir = .outgoing ∧ ∃ sup1 sup2,
          decOutgoing (s.supply sw.denom) sw.amt = some sup1 ∧ decCurrent sup1 sw.amt = some sup2 ∧
          sw.amt ≤ s.bal cfg.module sw.denom ∧
          s' = closeSwap hs (claimOutPre cfg s sw sup2) sw true)) := by
  unfold claim at hok
  split at hok
  · cases hok
  · rename_i sw hf
    split at hok
    · cases hok
    · rename_i hst
      split at hok
      · cases hok
      · rename_i hpre
        refine ⟨sw, hf, by simpa using hst, by simpa using hpre, ?_⟩
        split at hok
        · rename_i hdir
          split at hok
          · cases hok
          · rename_i sup1 h1
            split at hok
            · cases hok
            · rename_i a ha
              split at hok
              · cases hok
              · rename_i sup2 h2
                split at hok
                · cases hok
                · rename_i hbl
                  dsimp only at hok
                  split at hok
                  · cases hok
                  · rename_i bal2 hb
                    cases hok
                    exact Or.inl ⟨hdir, a, sup1, sup2, bal2, h1, ha, h2, by simpa using hbl, hb, rfl⟩
        · rename_i hdir
          split at hok
          · cases hok
          · rename_i sup1 h1
            split at hok
            · cases hok
            · rename_i sup2 h2
              split at hok
              · cases hok
              · rename_i hb
                cases hok
                exact Or.inr ⟨hdir, sup1, sup2, h1, h2, by omega, rfl⟩

theorem refund_spec {cfg : Cfg} {hs : Hashes} {s s' : St} {id : Id}
    (hok : refund cfg hs s id = .ok s') :
    ∃ sw, findSwap s.swaps id = some sw ∧ sw.status = .expired ∧
      ((sw.dir = .incoming ∧ ∃ sup1, decIncoming (s.supply sw.denom) sw.amt = some sup1 ∧
          s' = closeSwap hs { s with supply := upd s.supply sw.denom sup1 } sw false) ∨
       (sw.dir = .outgoing ∧ ∃ sup1 bal',
          decOutgoing (s.supply sw.denom) sw.amt = some sup1 ∧ cfg.blocked sw.sender = false ∧
          bankSend s.bal cfg.module sw.sender sw.denom sw.amt = some bal' ∧
          s' = closeSwap hs { s with supply := upd s.supply sw.denom sup1, bal := bal' } sw false)) := by
  unfold refund at hok
  split at hok
  · cases hok
  · rename_i sw hf
    split at hok
    · cases hok
    · rename_i hst
      refine ⟨sw, hf, by simpa using hst, ?_⟩
      split at hok
      · rename_i hdir
        split at hok
        · cases hok
        · rename_i sup1 h1
          cases hok
          exact Or.inl ⟨hdir, sup1, h1, rfl⟩
      · rename_i hdir
        split at hok
        · cases hok
        · rename_i sup1 h1
          split at hok
          · cases hok
          · rename_i hbl
            split at hok
            · cases hok
            · rename_i bal' hb
              cases hok
              exact Or.inr ⟨hdir, sup1, bal', h1, by simpa using hbl, hb, rfl⟩

/-! ### the invariant is preserved by create / claim / refund -/

theorem create_inv {cfg : Cfg} {hs : Hashes} {s s' : St} (h : Inv cfg hs s) {hash : Hash} {ts : Int} {span : Nat}
    {sender recipient : Addr} {other : Nat} {coins : List (Denom × Int)} (hsm : sender ≠ cfg.module)
    (hok : create cfg hs s hash ts span sender recipient other coins = .ok s') : Inv cfg hs s' := by
  obtain ⟨d, amt, a, dir, sup, bal', rfl, hnew, hmacc, ha, -, hmin, -, -, -, hcase, rfl⟩ := create_spec hok
  obtain ⟨f1, f2, f3, f4, f5, f6, f7, -, -, -⟩ :=
    storeNew_fields (hs := hs) (s := s) (hash := hash) (ts := ts) (span := span) (sender := sender)
      (recipient := recipient) (other := other) (d := d) (amt := amt) (dir := dir) (sup := sup) (bal := bal') hnew
  have hpos : 0 < amt := by have := h.pmin d a ha; omega
  have hopen : (newSwap hs s hash ts span sender recipient other d amt dir).status ≠ .completed := by
    simp [newSwap]
  apply inv_add h (newSwap hs s hash ts span sender recipient other d amt dir) _ hnew rfl rfl f1 f2 f3 f4 f5 hpos hmacc hsm
  · intro d'; rw [f6, val_live hopen]
    rcases hcase with ⟨rfl, -, -, hs1, -⟩ | ⟨rfl, -, -, -, -, -, hs1, -⟩
    · obtain ⟨-, -, rfl⟩ := incIncoming_some hs1
      by_cases hd : d' = d
      · subst hd; simp [upd, newSwap]
      · have hd' : ¬ d = d' := fun e => hd e.symm
        simp [upd, newSwap, hd, hd']
    · obtain ⟨-, rfl⟩ := incOutgoing_some hs1
      by_cases hd : d' = d
      · subst hd; simp [upd, newSwap]
      · simp [upd, newSwap, hd]
  · intro d'; rw [f6, val_live hopen]
    rcases hcase with ⟨rfl, -, -, hs1, -⟩ | ⟨rfl, -, -, -, -, -, hs1, -⟩
    · obtain ⟨-, -, rfl⟩ := incIncoming_some hs1
      by_cases hd : d' = d
      · subst hd; simp [upd, newSwap]
      · simp [upd, newSwap, hd]
    · obtain ⟨-, rfl⟩ := incOutgoing_some hs1
      by_cases hd : d' = d
      · subst hd; simp [upd, newSwap]
      · have hd' : ¬ d = d' := fun e => hd e.symm
        simp [upd, newSwap, hd, hd']
  · intro d'; rw [f7, val_live hopen]
    rcases hcase with ⟨rfl, -, -, -, rfl⟩ | ⟨rfl, -, -, -, -, -, -, hb⟩
    · simp [newSwap]
    · obtain ⟨-, hb'⟩ := bankSend_some hb
      rw [hb' cfg.module d']
      have hms : ¬ cfg.module = sender := fun e => hsm e.symm
      by_cases hd : d' = d
      · subst hd; simp [newSwap, hms]
      · have hd' : ¬ d = d' := fun e => hd e.symm
        simp [newSwap, hms, hd, hd']
  · intro d'; rw [f6]
    rcases hcase with ⟨rfl, -, -, hs1, -⟩ | ⟨rfl, -, -, -, -, -, hs1, -⟩
    · obtain ⟨-, -, rfl⟩ := incIncoming_some hs1
      by_cases hd : d' = d
      · subst hd; simp only [upd_same]; exact h.outle d'
      · rw [upd_other _ _ hd]; exact h.outle d'
    · obtain ⟨hle, rfl⟩ := incOutgoing_some hs1
      by_cases hd : d' = d
      · subst hd; simp only [upd_same]; exact hle
      · rw [upd_other _ _ hd]; exact h.outle d'

theorem claim_inv {cfg : Cfg} {hs : Hashes} {s s' : St} (h : Inv cfg hs s) (hcfg : cfg.macc cfg.module = true)
    {id : Id} {rn : Nat}
    (hok : claim cfg hs s id rn = .ok s') : Inv cfg hs s' := by
  obtain ⟨sw, hf, hst, -, hcase⟩ := claim_spec hok
  obtain ⟨hm, hid'⟩ := findSwap_some hf
  subst hid'
  have hidok := h.idok sw hm
  have hnc : sw.status ≠ .completed := by rw [hst]; intro e; cases e
  have hpos := h.pos sw hm
  rcases hcase with ⟨hdir, a, sup1, sup2, bal2, h1, ha, h2, -, hb, rfl⟩ | ⟨hdir, sup1, sup2, h1, h2, hb, rfl⟩
  · obtain ⟨g1, g2, g3, g4, g5, g6, g7, -, -, -⟩ :=
      closeSwap_fields (hs := hs) (s0 := claimInPre cfg s sw sup2 bal2) (sw := sw) (rm := true) hidok hf
    obtain ⟨-, rfl⟩ := decIncoming_some h1
    obtain ⟨-, c1, c2, c3, -, -, -⟩ := incCurrent_some h2
    obtain ⟨-, hb'⟩ := bankSend_some hb
    apply inv_close h hm hnc _ g1 (by rw [g2]; rfl) g3 g4 g5
    · intro d; rw [g6, val_live hnc]
      show (upd s.supply sw.denom sup2 d).incoming = _
      by_cases hd : d = sw.denom
      · subst hd; rw [upd_same, c2]; simp [hdir]
      · have hd' : ¬ sw.denom = d := fun e => hd e.symm
        rw [upd_other _ _ hd]; simp [hd']
    · intro d; rw [g6, val_live hnc]
      show (upd s.supply sw.denom sup2 d).outgoing = _
      by_cases hd : d = sw.denom
      · subst hd; rw [upd_same, c3]; simp [hdir]
      · rw [upd_other _ _ hd]; simp [hdir]
    · intro d; rw [g7, val_live hnc]
      show bal2 cfg.module d = _
      rw [hb' cfg.module d]
      -- the recipient is not the module account (no swap pays out to a module account)
      have hmr : ¬ cfg.module = sw.recipient := by
        intro e
        have := h.rcp sw hm
        rw [← e, hcfg] at this; cases this
      simp only [upd2, hdir]
      by_cases hd : d = sw.denom
      · subst hd; simp [hmr]
      · simp [hd]
    · intro d; rw [g6]
      show (upd s.supply sw.denom sup2 d).outgoing ≤ (upd s.supply sw.denom sup2 d).current
      by_cases hd : d = sw.denom
      · subst hd; rw [upd_same]
        have c1' : sup2.current = (s.supply sw.denom).current + sw.amt := c1
        have c3' : sup2.outgoing = (s.supply sw.denom).outgoing := c3
        have := h.outle sw.denom
        omega
      · rw [upd_other _ _ hd]; exact h.outle d
  · obtain ⟨g1, g2, g3, g4, g5, g6, g7, -, -, -⟩ :=
      closeSwap_fields (hs := hs) (s0 := claimOutPre cfg s sw sup2) (sw := sw) (rm := true) hidok hf
    obtain ⟨-, rfl⟩ := decOutgoing_some h1
    obtain ⟨-, rfl⟩ := decCurrent_some h2
    apply inv_close h hm hnc _ g1 (by rw [g2]; rfl) g3 g4 g5
    · intro d; rw [g6, val_live hnc]
      show (upd s.supply sw.denom _ d).incoming = _
      by_cases hd : d = sw.denom
      · subst hd; rw [upd_same]; simp [hdir]
      · rw [upd_other _ _ hd]; simp [hdir]
    · intro d; rw [g6, val_live hnc]
      show (upd s.supply sw.denom _ d).outgoing = _
      by_cases hd : d = sw.denom
      · subst hd; rw [upd_same]; simp [hdir]
      · have hd' : ¬ sw.denom = d := fun e => hd e.symm
        rw [upd_other _ _ hd]; simp [hd']
    · intro d; rw [g7, val_live hnc]
      show upd2 s.bal cfg.module sw.denom (s.bal cfg.module sw.denom - sw.amt) cfg.module d = _
      by_cases hd : d = sw.denom
      · subst hd; simp [upd2, hdir]
      · have hd' : ¬ sw.denom = d := fun e => hd e.symm
        simp [upd2, hd, hd']
    · intro d; rw [g6]
      show (upd s.supply sw.denom _ d).outgoing ≤ (upd s.supply sw.denom _ d).current
      by_cases hd : d = sw.denom
      · subst hd; rw [upd_same]
        have := h.outle sw.denom
        show (s.supply sw.denom).outgoing - sw.amt ≤ (s.supply sw.denom).current - sw.amt
        omega
      · rw [upd_other _ _ hd]; exact h.outle d

theorem refund_inv {cfg : Cfg} {hs : Hashes} {s s' : St} (h : Inv cfg hs s) {id : Id}
    (hok : refund cfg hs s id = .ok s') : Inv cfg hs s' := by
  obtain ⟨sw, hf, hst, hcase⟩ := refund_spec hok
  obtain ⟨hm, hid'⟩ := findSwap_some hf
  subst hid'
  have hidok := h.idok sw hm
  have hnc : sw.status ≠ .completed := by rw [hst]; intro e; cases e
  have hkey : (sw.expire, sw.id) ∉ s.byBlock := by
    rw [bbkey_mem h hm, hst]; intro e; cases e
  rcases hcase with ⟨hdir, sup1, h1, rfl⟩ | ⟨hdir, sup1, bal', h1, -, hb, rfl⟩
  · obtain ⟨g1, g2, g3, g4, g5, g6, g7, -, -, -⟩ :=
      closeSwap_fields (hs := hs) (s0 := { s with supply := upd s.supply sw.denom sup1 }) (sw := sw) (rm := false) hidok hf
    obtain ⟨-, rfl⟩ := decIncoming_some h1
    apply inv_close h hm hnc _ g1 (by rw [g2]; exact (delKey_of_not_mem hkey).symm) g3 g4 g5
    · intro d; rw [g6, val_live hnc]
      show (upd s.supply sw.denom _ d).incoming = _
      by_cases hd : d = sw.denom
      · subst hd; rw [upd_same]; simp [hdir]
      · have hd' : ¬ sw.denom = d := fun e => hd e.symm
        rw [upd_other _ _ hd]; simp [hd']
    · intro d; rw [g6, val_live hnc]
      show (upd s.supply sw.denom _ d).outgoing = _
      by_cases hd : d = sw.denom
      · subst hd; rw [upd_same]; simp [hdir]
      · rw [upd_other _ _ hd]; simp [hdir]
    · intro d; rw [g7, val_live hnc]
      show s.bal cfg.module d = _
      simp [hdir]
    · intro d; rw [g6]
      show (upd s.supply sw.denom _ d).outgoing ≤ (upd s.supply sw.denom _ d).current
      by_cases hd : d = sw.denom
      · subst hd; rw [upd_same]; exact h.outle sw.denom
      · rw [upd_other _ _ hd]; exact h.outle d
  · obtain ⟨g1, g2, g3, g4, g5, g6, g7, -, -, -⟩ :=
      closeSwap_fields (hs := hs) (s0 := { s with supply := upd s.supply sw.denom sup1, bal := bal' }) (sw := sw) (rm := false) hidok hf
    obtain ⟨-, rfl⟩ := decOutgoing_some h1
    obtain ⟨-, hb'⟩ := bankSend_some hb
    have hpos := h.pos sw hm
    apply inv_close h hm hnc _ g1 (by rw [g2]; exact (delKey_of_not_mem hkey).symm) g3 g4 g5
    · intro d; rw [g6, val_live hnc]
      show (upd s.supply sw.denom _ d).incoming = _
      by_cases hd : d = sw.denom
      · subst hd; rw [upd_same]; simp [hdir]
      · rw [upd_other _ _ hd]; simp [hdir]
    · intro d; rw [g6, val_live hnc]
      show (upd s.supply sw.denom _ d).outgoing = _
      by_cases hd : d = sw.denom
      · subst hd; rw [upd_same]; simp [hdir]
      · have hd' : ¬ sw.denom = d := fun e => hd e.symm
        rw [upd_other _ _ hd]; simp [hd']
    · intro d; rw [g7, val_live hnc]
      show bal' cfg.module d = _
      rw [hb' cfg.module d]
      have hms : ¬ cfg.module = sw.sender := fun e => h.snd sw hm e.symm
      by_cases hd : d = sw.denom
      · subst hd; simp [hdir, hms]
      · have hd' : ¬ sw.denom = d := fun e => hd e.symm
        simp [hd, hd', hms]
    · intro d; rw [g6]
      show (upd s.supply sw.denom _ d).outgoing ≤ (upd s.supply sw.denom _ d).current
      by_cases hd : d = sw.denom
      · subst hd; rw [upd_same]
        have := h.outle sw.denom
        show (s.supply sw.denom).outgoing - sw.amt ≤ (s.supply sw.denom).current
        omega
      · rw [upd_other _ _ hd]; exact h.outle d

end KV.Bep3
