/-
  Helper lemmas for property C16 (Model/Authz.lean).
  1. What each regenerated guard shape denotes (closed by `decide` on the generated table: if the source
     comparison is inverted or dropped these lemmas — and everything built on them — stop checking).
  2. List / coin / balance frame lemmas.
-/
import KavaVerif.Model.Authz
set_option linter.unusedSimpArgs false
set_option linter.unusedVariables false

namespace KV.Authz
open KV.Gen.C16

/-! ### denotation of the generated guards -/

theorem passes_gPostPrice (b : Bool) : passes gPostPrice b = b := by cases b <;> decide
theorem passes_gIssue (b : Bool) : passes gIssue b = b := by cases b <;> decide
theorem passes_gRedeem (b : Bool) : passes gRedeem b = b := by cases b <;> decide
theorem passes_gBlock (b : Bool) : passes gBlock b = b := by cases b <;> decide
theorem passes_gUnblock (b : Bool) : passes gUnblock b = b := by cases b <;> decide
theorem passes_gPause (b : Bool) : passes gPause b = b := by cases b <;> decide
theorem passes_gSubmit (b : Bool) : passes gSubmit b = b := by cases b <;> decide
theorem passes_gVote (b : Bool) : passes gVote b = b := by cases b <;> decide
theorem passes_gCommunity (b : Bool) : passes gCommunity b = b := by cases b <;> decide
theorem passes_gCdpDraw (b : Bool) : passes gCdpDraw b = b := by cases b <;> decide
theorem passes_gCdpRepay (b : Bool) : passes gCdpRepay b = b := by cases b <;> decide
theorem passes_gCdpWdDep (b : Bool) : passes gCdpWdDep b = b := by cases b <;> decide
theorem passes_gCdpWdCdp (b : Bool) : passes gCdpWdCdp b = b := by cases b <;> decide
theorem passes_gHard (b : Bool) : passes gHard b = b := by cases b <;> decide
theorem passes_gSwap (b : Bool) : passes gSwap b = b := by cases b <;> decide
theorem passes_gEarn (b : Bool) : passes gEarn b = b := by cases b <;> decide
theorem passes_gSavings (b : Bool) : passes gSavings b = b := by cases b <;> decide
/-- the cap guards reject when the tested excess holds -/
theorem passes_gCdpWdCap (b : Bool) : passes gCdpWdCap b = !b := by cases b <;> decide
theorem passes_gSwapCap (b : Bool) : passes gSwapCap b = !b := by cases b <;> decide
theorem passes_gEarnCap (b : Bool) : passes gEarnCap b = !b := by cases b <;> decide
/-- branch selectors -/
theorem cond_gBep3 (b : Bool) : condTrue gBep3 b = b := by cases b <;> decide
theorem cond_gHardCap (b : Bool) : condTrue gHardCap b = b := by cases b <;> decide
theorem cond_gSavingsCap (b : Bool) : condTrue gSavingsCap b = b := by cases b <;> decide
theorem cond_gGetOracle (b : Bool) : condTrue gGetOracle b = b := by cases b <;> decide
theorem cond_gHasMember (b : Bool) : condTrue gHasMember b = b := by cases b <;> decide
theorem exits_gGetOracle : gGetOracle.exits = true := by decide
theorem exits_gHasMember : gHasMember.exits = true := by decide

section
variable {α : Type} [DecidableEq α]

theorem any_eq_mem (l : List α) (v : α) : l.any (fun x => decide (x = v)) = decide (v ∈ l) := by
  induction l with
  | nil => simp
  | cons a t ih =>
    simp only [List.any_cons, ih, List.mem_cons]
    by_cases h : a = v
    · subst h; simp
    · have h' : ¬ v = a := fun e => h e.symm
      simp [h, h']

theorem searchHit_gGetOracle (l : List α) (v : α) : searchHit gGetOracle l v = decide (v ∈ l) := by
  unfold searchHit
  simp only [exits_gGetOracle, cond_gGetOracle, Bool.true_and]
  exact any_eq_mem l v

theorem searchHit_gHasMember (l : List α) (v : α) : searchHit gHasMember l v = decide (v ∈ l) := by
  unfold searchHit
  simp only [exits_gHasMember, cond_gHasMember, Bool.true_and]
  exact any_eq_mem l v

theorem hasMember_iff (c : Committee α) (a : α) : hasMember c a = true ↔ a ∈ c.members := by
  unfold hasMember; rw [searchHit_gHasMember]; simp

theorem getOracle_iff (s : PF α) (m : Nat) (a : α) :
    getOracle s m a = true ↔ ∃ os, getOracles s m = some os ∧ a ∈ os := by
  unfold getOracle
  cases h : getOracles s m with
  | none => simp
  | some os => simp [searchHit_gGetOracle]

/-! ### results -/

theorem after_not_ok {σ : Type} (s : σ) (r : Res σ) (h : r.isOk = false) : after s r = s := by
  cases r <;> simp_all [after, Res.isOk]

theorem isOk_false_of_ne_ok {σ : Type} (r : Res σ) (h : ∀ s', r ≠ .ok s') : r.isOk = false := by
  cases r with
  | ok s' => exact absurd rfl (h s')
  | err => rfl
  | panic => rfl

/-! ### coins and balances -/

theorem credit_other (b : Bal α) (a a' : α) (cs : Coins) (d : Nat) (h : a' ≠ a) :
    credit b a cs d a' = b d a' := by
  unfold credit
  induction cs generalizing b with
  | nil => rfl
  | cons c t ih =>
    simp only [List.foldl_cons]
    rw [ih]
    simp [h]

/-- every coin of `CalculateWithdrawAmount`'s result is at most the recorded amount of its denomination -/
theorem calcWithdraw_capped (g : Guard) (hg : ∀ b, condTrue g b = b) (avail req amt : Coins)
    (h : calcWithdraw g avail req = some amt) : ∀ c ∈ amt, c.2 ≤ amountOf avail c.1 := by
  unfold calcWithdraw at h
  split at h
  · cases h
  · cases h
    intro c hc
    simp only [List.mem_map] at hc
    obtain ⟨r, _, rfl⟩ := hc
    rw [hg]
    by_cases hgt : r.2 > amountOf avail r.1
    · simp [hgt]
    · simp only [hgt, decide_false, Bool.false_eq_true, ite_false]
      omega

/-- and never more than what was asked for -/
theorem calcWithdraw_le_request (g : Guard) (hg : ∀ b, condTrue g b = b) (avail req amt : Coins)
    (h : calcWithdraw g avail req = some amt) : amt.length = req.length := by
  unfold calcWithdraw at h
  split at h
  · cases h
  · cases h; simp

theorem refund_other (coll : α → Int) (deps : List (α × Int)) (a : α)
    (h : ∀ d ∈ deps, d.1 ≠ a) : refund coll deps a = coll a := by
  unfold refund
  induction deps generalizing coll with
  | nil => rfl
  | cons d t ih =>
    simp only [List.foldl_cons]
    rw [ih]
    · have : a ≠ d.1 := fun e => h d (List.mem_cons_self) e.symm
      simp [upd, this]
    · intro d' hd'; exact h d' (List.mem_cons_of_mem _ hd')

theorem find_filter_other (l : List (α × Int)) (a b : α) (h : b ≠ a) :
    (l.filter (fun d => !decide (d.1 = a))).find? (fun d => decide (d.1 = b)) =
      l.find? (fun d => decide (d.1 = b)) := by
  have hab : ¬ a = b := fun e => h e.symm
  induction l with
  | nil => rfl
  | cons d t ih =>
    by_cases hd : d.1 = a
    · have hdb : ¬ d.1 = b := fun e => h (e.symm.trans hd)
      simp only [List.filter_cons, hd, decide_true, Bool.not_true, Bool.false_eq_true, ite_false,
        List.find?_cons, hab, decide_false, ih]
    · by_cases hb : d.1 = b
      · have hba : ¬ b = a := h
        simp [List.filter_cons, List.find?_cons, hd, hb, hba]
      · simp only [List.filter_cons, hd, decide_false, Bool.not_false, ite_true, List.find?_cons, hb, ih]

theorem find_map_other (l : List (α × Int)) (a b : α) (v : Int) (h : b ≠ a) :
    ((l.map (fun d => if d.1 = a then (a, v) else d)).find? (fun d => decide (d.1 = b))).map (·.2) =
      (l.find? (fun d => decide (d.1 = b))).map (·.2) := by
  have hab : ¬ a = b := fun e => h e.symm
  induction l with
  | nil => rfl
  | cons d t ih =>
    by_cases hd : d.1 = a
    · have hdb : ¬ d.1 = b := fun e => h (e.symm.trans hd)
      simp only [List.map_cons, hd, ite_true, List.find?_cons, hab, decide_false, hdb]
      exact ih
    · by_cases hb : d.1 = b
      · have hba : ¬ b = a := h
        simp [List.map_cons, List.find?_cons, hd, hb, hba]
      · simp only [List.map_cons, hd, ite_false, List.find?_cons, hb, decide_false]
        exact ih

theorem depositOf_setDeposit_other (c : Cdp α) (a b : α) (v : Int) (h : b ≠ a) :
    depositOf (setDeposit c a v) b = depositOf c b := by
  unfold depositOf setDeposit
  simp only
  split
  · rw [find_filter_other _ a b h]
  · exact find_map_other _ a b v h

end

theorem incSupply_frame {α : Type} (s s1 : Iss α) (a : Asset α) (amt : Int) (h : incSupply s a amt = some s1) :
    s1.assets = s.assets ∧ s1.bal = s.bal ∧ s1.total = s.total ∧ s1.bankBlocked = s.bankBlocked := by
  unfold incSupply at h
  split at h
  · cases h
  · by_cases hr : a.rlActive = true
    · simp only [hr, ite_true] at h
      split at h
      · cases h
      · cases h; exact ⟨rfl, rfl, rfl, rfl⟩
    · simp only [hr] at h
      cases h; exact ⟨rfl, rfl, rfl, rfl⟩

end KV.Authz
