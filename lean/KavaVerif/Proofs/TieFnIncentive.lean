/-
  Source tie ("tie 1b") for x/incentive/types/accumulator.go: the Lean definitions REGENERATED from the Go source on every run
  (Generated/FnIncentive.lean, tools/extract/fn*.go) equal the hand-written model functions the C09 theorems are
  about.  An edit of a Go function changes the generated definition and its equality proof stops checking.
  Encoding: `time.Time` = unix nanoseconds, `time.Duration` = nanoseconds (`Int`); a Go panic = the model's `none`.
-/
import KavaVerif.Generated.FnIncentive
import KavaVerif.Model.Accumulator
import KavaVerif.Proofs.TieFnBase
set_option linter.unusedSimpArgs false

namespace KV.TieFn
open KV KV.Go

theorem incentive_getTimeElapsedWithinLimits (prev now start stop : Int) :
    GoFn.Incentive.getTimeElapsedWithinLimits_translated = true ∧
    GoFn.Incentive.getTimeElapsedWithinLimits prev now start stop = R.ofOption (KV.Acc.elapsed prev now start stop) := by
  refine ⟨rfl, ?_⟩
  simp only [GoFn.Incentive.getTimeElapsedWithinLimits, GoFn.Incentive.minTime, GoFn.Incentive.maxTime,
    KV.Acc.elapsed, Go.timeSub, Int.min_def, Int.max_def]
  unfold Go.maxDur Go.minDur KV.Acc.maxDur
  tie_norm
  tie_split

/-- `CalculateSingleReward` (x/incentive/keeper/rewards_borrow.go) on Dec mantissas = `singleReward`; the model's `none`
    is the Go error `ErrDecreasingRewardFactor` -/
theorem incentive_CalculateSingleReward (old new shares : Int) :
    GoFn.Incentive.CalculateSingleReward_translated = true ∧
    GoFn.Incentive.CalculateSingleReward ⟨old⟩ ⟨new⟩ ⟨shares⟩
      = (match KV.Acc.singleReward old new shares with | none => R.err | some x => R.ok x) := by
  refine ⟨rfl, ?_⟩
  simp only [GoFn.Incentive.CalculateSingleReward, KV.Acc.singleReward]
  dsimp only [Dec.isNegative, Dec.sub]
  tie_norm
  split <;> rfl

end KV.TieFn
