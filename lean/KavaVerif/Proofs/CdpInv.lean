/-
  C04 helper lemmas, part 2: the components of the invariant `Inv4` as predicates on plain data
  (CDP table, index lists, deposit table, module balance) and their preservation by point updates.
  Core Lean only.
-/
import KavaVerif.Proofs.CdpBase
set_option linter.unusedVariables false
set_option linter.unusedSimpArgs false

namespace KV.Cdp
open KV

/-! ### ratio index -/

/-- the ratio index *is* the image of the CDP table under `cdp ↦ (type, key(cdp), id)`:
    every CDP is indexed exactly once, under its current ratio, and the list is in store order -/
def IdxOk (E : Env) (cdp : Nat → Option Cdp) (idx : List Entry) : Prop :=
  (∀ e : Entry, e ∈ idx ↔ ∃ c, cdp e.2.2 = some c ∧ e.1 = c.ty ∧ e.2.1 = keyOf E c) ∧ idx.Nodup ∧ Sorted idx

theorem idx_update {E : Env} {cdp : Nat → Option Cdp} {idx : List Entry} {id : Nat} {old c : Cdp}
    (h : IdxOk E cdp idx) (ho : cdp id = some old) :
    IdxOk E (upd cdp id (some c)) (insertKey (c.ty, keyOf E c, id) (removeKey (old.ty, keyOf E old, id) idx)) := by
  obtain ⟨hm, hn, hs⟩ := h
  refine ⟨?_, nodup_insertKey _ _ (nodup_removeKey _ _ hn), sorted_insertKey _ _ (sorted_removeKey _ _ hs)⟩
  intro e
  rw [mem_insertKey, mem_removeKey]
  constructor
  · rintro (rfl | ⟨hin, hne⟩)
    · exact ⟨c, upd_same _ _ _, rfl, rfl⟩
    · obtain ⟨c', hc', h1, h2⟩ := (hm e).1 hin
      have hid : e.2.2 ≠ id := by
        intro hid
        rw [hid, ho] at hc'; cases hc'
        exact hne ((entry_ext _ _).2 ⟨h1, h2, hid⟩)
      exact ⟨c', by rw [upd_other _ _ _ _ hid]; exact hc', h1, h2⟩
  · rintro ⟨c', hc', h1, h2⟩
    by_cases hid : e.2.2 = id
    · rw [hid, upd_same] at hc'; cases hc'
      exact Or.inl ((entry_ext _ _).2 ⟨h1, h2, hid⟩)
    · rw [upd_other _ _ _ _ hid] at hc'
      refine Or.inr ⟨(hm e).2 ⟨c', hc', h1, h2⟩, ?_⟩
      intro he; rw [he] at hid; exact hid rfl

theorem idx_new {E : Env} {cdp : Nat → Option Cdp} {idx : List Entry} {id : Nat} {c : Cdp}
    (h : IdxOk E cdp idx) (ho : cdp id = none) :
    IdxOk E (upd cdp id (some c)) (insertKey (c.ty, keyOf E c, id) idx) := by
  obtain ⟨hm, hn, hs⟩ := h
  refine ⟨?_, nodup_insertKey _ _ hn, sorted_insertKey _ _ hs⟩
  intro e
  rw [mem_insertKey]
  constructor
  · rintro (rfl | hin)
    · exact ⟨c, upd_same _ _ _, rfl, rfl⟩
    · obtain ⟨c', hc', h1, h2⟩ := (hm e).1 hin
      have hid : e.2.2 ≠ id := by
        intro hid; rw [hid, ho] at hc'; cases hc'
      exact ⟨c', by rw [upd_other _ _ _ _ hid]; exact hc', h1, h2⟩
  · rintro ⟨c', hc', h1, h2⟩
    by_cases hid : e.2.2 = id
    · rw [hid, upd_same] at hc'; cases hc'
      exact Or.inl ((entry_ext _ _).2 ⟨h1, h2, hid⟩)
    · rw [upd_other _ _ _ _ hid] at hc'
      exact Or.inr ((hm e).2 ⟨c', hc', h1, h2⟩)

theorem idx_delete {E : Env} {cdp : Nat → Option Cdp} {idx : List Entry} {id : Nat} {old : Cdp}
    (h : IdxOk E cdp idx) (ho : cdp id = some old) :
    IdxOk E (upd cdp id none) (removeKey (old.ty, keyOf E old, id) idx) := by
  obtain ⟨hm, hn, hs⟩ := h
  refine ⟨?_, nodup_removeKey _ _ hn, sorted_removeKey _ _ hs⟩
  intro e
  rw [mem_removeKey]
  constructor
  · rintro ⟨hin, hne⟩
    obtain ⟨c', hc', h1, h2⟩ := (hm e).1 hin
    have hid : e.2.2 ≠ id := by
      intro hid
      rw [hid, ho] at hc'; cases hc'
      exact hne ((entry_ext _ _).2 ⟨h1, h2, hid⟩)
    exact ⟨c', by rw [upd_other _ _ _ _ hid]; exact hc', h1, h2⟩
  · rintro ⟨c', hc', h1, h2⟩
    by_cases hid : e.2.2 = id
    · rw [hid, upd_same] at hc'; cases hc'
    · rw [upd_other _ _ _ _ hid] at hc'
      refine ⟨(hm e).2 ⟨c', hc', h1, h2⟩, ?_⟩
      intro he; rw [he] at hid; exact hid rfl

theorem idx_touch {E : Env} {cdp : Nat → Option Cdp} {idx : List Entry} {id : Nat} {old c : Cdp}
    (h : IdxOk E cdp idx) (ho : cdp id = some old) (hty : c.ty = old.ty) (hk : keyOf E c = keyOf E old) :
    IdxOk E (upd cdp id (some c)) idx := by
  obtain ⟨hm, hn, hs⟩ := h
  refine ⟨?_, hn, hs⟩
  intro e
  rw [hm e]
  constructor
  · rintro ⟨c', hc', h1, h2⟩
    by_cases hid : e.2.2 = id
    · rw [hid, ho] at hc'; cases hc'
      exact ⟨c, by rw [hid, upd_same], by rw [hty]; exact h1, by rw [hk]; exact h2⟩
    · exact ⟨c', by rw [upd_other _ _ _ _ hid]; exact hc', h1, h2⟩
  · rintro ⟨c', hc', h1, h2⟩
    by_cases hid : e.2.2 = id
    · rw [hid, upd_same] at hc'; cases hc'
      exact ⟨old, by rw [hid]; exact ho, by rw [← hty]; exact h1, by rw [← hk]; exact h2⟩
    · rw [upd_other _ _ _ _ hid] at hc'
      exact ⟨c', hc', h1, h2⟩

/-- a key that is already the stored one: remove + insert gives back the same membership (helper path
    when nothing about the ratio changed) -/
theorem idx_entry_of_cdp {E : Env} {cdp : Nat → Option Cdp} {idx : List Entry} {id : Nat} {c : Cdp}
    (h : IdxOk E cdp idx) (ho : cdp id = some c) : (c.ty, keyOf E c, id) ∈ idx :=
  (h.1 (c.ty, keyOf E c, id)).2 ⟨c, ho, rfl, rfl⟩

/-! ### owner index -/

def OwnOk (cdp : Nat → Option Cdp) (own : Acct → List Nat) : Prop :=
  (∀ o id, id ∈ own o ↔ ∃ c, cdp id = some c ∧ c.owner = o) ∧ ∀ o, (own o).Nodup

theorem own_touch {cdp : Nat → Option Cdp} {own : Acct → List Nat} {id : Nat} {old c : Cdp}
    (h : OwnOk cdp own) (ho : cdp id = some old) (hown : c.owner = old.owner) :
    OwnOk (upd cdp id (some c)) own := by
  obtain ⟨hm, hn⟩ := h
  refine ⟨?_, hn⟩
  intro o j
  rw [hm o j]
  by_cases hj : j = id
  · subst hj
    rw [upd_same, ho]
    constructor
    · rintro ⟨c', hc', h1⟩; cases hc'; exact ⟨c, rfl, by rw [hown]; exact h1⟩
    · rintro ⟨c', hc', h1⟩; cases hc'; exact ⟨old, rfl, by rw [← hown]; exact h1⟩
  · rw [upd_other _ _ _ _ hj]

theorem own_new {cdp : Nat → Option Cdp} {own : Acct → List Nat} {id : Nat} {c : Cdp}
    (h : OwnOk cdp own) (ho : cdp id = none) :
    OwnOk (upd cdp id (some c)) (upd own c.owner (addOwnerId id (own c.owner))) := by
  obtain ⟨hm, hn⟩ := h
  have hfresh : ∀ o, id ∉ own o := by
    intro o hin
    obtain ⟨c', hc', -⟩ := (hm o id).1 hin
    rw [ho] at hc'; cases hc'
  constructor
  · intro o j
    by_cases hoo : o = c.owner
    · subst hoo
      rw [upd_same]; unfold addOwnerId; rw [mem_insId]
      by_cases hj : j = id
      · subst hj; rw [upd_same]
        exact ⟨fun _ => ⟨c, rfl, rfl⟩, fun _ => Or.inl rfl⟩
      · rw [upd_other _ _ _ _ hj, ← hm]
        exact ⟨fun h => h.resolve_left hj, Or.inr⟩
    · rw [upd_other _ _ _ _ hoo]
      by_cases hj : j = id
      · subst hj; rw [upd_same]
        constructor
        · intro hin; exact absurd hin (hfresh o)
        · rintro ⟨c', hc', h1⟩; cases hc'; exact absurd h1.symm hoo
      · rw [upd_other _ _ _ _ hj]; exact hm o j
  · intro o
    by_cases hoo : o = c.owner
    · subst hoo; rw [upd_same]; exact nodup_insId _ _ (hfresh _) (hn _)
    · rw [upd_other _ _ _ _ hoo]; exact hn o

theorem own_delete {cdp : Nat → Option Cdp} {own : Acct → List Nat} {id : Nat} {old : Cdp}
    (h : OwnOk cdp own) (ho : cdp id = some old) :
    OwnOk (upd cdp id none) (upd own old.owner (removeOwnerId id (own old.owner))) := by
  obtain ⟨hm, hn⟩ := h
  constructor
  · intro o j
    by_cases hj : j = id
    · subst hj; rw [upd_same]
      constructor
      · intro hin
        by_cases hoo : o = old.owner
        · subst hoo; rw [upd_same, mem_removeOwnerId] at hin; exact absurd rfl hin.2
        · rw [upd_other _ _ _ _ hoo] at hin
          obtain ⟨c', hc', h1⟩ := (hm o j).1 hin
          rw [ho] at hc'; cases hc'; exact absurd h1.symm hoo
      · rintro ⟨c', hc', -⟩; cases hc'
    · rw [upd_other _ _ _ _ hj, ← hm o j]
      by_cases hoo : o = old.owner
      · subst hoo; rw [upd_same, mem_removeOwnerId]
        exact ⟨fun h => h.1, fun h => ⟨h, hj⟩⟩
      · rw [upd_other _ _ _ _ hoo]
  · intro o
    by_cases hoo : o = old.owner
    · subst hoo; rw [upd_same]; exact nodup_removeOwnerId _ _ (hn _)
    · rw [upd_other _ _ _ _ hoo]; exact hn o

/-! ### collateral custody -/

/-- collateral of CDP `id` if it is held in denom `d` -/
def collOf (E : Env) (cdp : Nat → Option Cdp) (d : Denom) (id : Nat) : Int :=
  match cdp id with
  | some c => if denomOf E c.ty = d then c.coll else 0
  | none => 0

/-- (a) each CDP's collateral is the sum of its deposits, (b,c) there are no deposit records without a CDP or
    outside the account universe, (d) the cdp module account holds, per collateral denom, the sum of the
    collateral of all CDPs (hence of all deposits), (e) ids are allocated below `nextId` -/
def CollOk (E : Env) (cdp : Nat → Option Cdp) (dep : Nat → Acct → Int) (balC : Denom → Int) (nextId : Nat) : Prop :=
  (∀ id c, cdp id = some c → c.coll = sumAcc E.accts (dep id)) ∧
  (∀ id, cdp id = none → ∀ a, dep id a = 0) ∧
  (∀ id a, a ∉ E.accts → dep id a = 0) ∧
  (∀ d, 2 ≤ d → balC d = sumAcc (List.range nextId) (collOf E cdp d)) ∧
  (∀ id, nextId ≤ id → cdp id = none)

theorem collOf_upd (E : Env) (cdp : Nat → Option Cdp) (d : Denom) (id : Nat) (v : Option Cdp) :
    collOf E (upd cdp id v) d = upd (collOf E cdp d) id (collOf E (fun _ => v) d 0) := by
  funext x
  by_cases hx : x = id
  · subst hx; simp only [collOf, upd_same]
  · simp only [collOf, upd_other _ _ _ _ hx]

theorem lt_nextId {E : Env} {cdp : Nat → Option Cdp} {dep : Nat → Acct → Int} {balC : Denom → Int} {n id : Nat} {c : Cdp}
    (h : CollOk E cdp dep balC n) (ho : cdp id = some c) : id < n := by
  rcases Nat.lt_or_ge id n with h1 | h1
  · exact h1
  · have := h.2.2.2.2 id h1; rw [ho] at this; cases this

theorem coll_touch {E : Env} {cdp : Nat → Option Cdp} {dep : Nat → Acct → Int} {balC : Denom → Int} {n id : Nat}
    {old c : Cdp} (h : CollOk E cdp dep balC n) (ho : cdp id = some old) (hty : c.ty = old.ty) (hc : c.coll = old.coll) :
    CollOk E (upd cdp id (some c)) dep balC n := by
  have hlt := lt_nextId h ho
  obtain ⟨ha, hb, hcc, hd, he⟩ := h
  refine ⟨?_, ?_, hcc, ?_, ?_⟩
  · intro j c' hj
    by_cases hji : j = id
    · subst hji; rw [upd_same] at hj; cases hj; rw [hc]; exact ha j old ho
    · rw [upd_other _ _ _ _ hji] at hj; exact ha j c' hj
  · intro j hj
    by_cases hji : j = id
    · subst hji; rw [upd_same] at hj; cases hj
    · rw [upd_other _ _ _ _ hji] at hj; exact hb j hj
  · intro d hd2
    rw [hd d hd2]
    apply sumAcc_congr
    intro x _
    by_cases hx : x = id
    · subst hx; simp only [collOf, upd_same, ho, hty, hc]
    · simp only [collOf, upd_other _ _ _ _ hx]
  · intro j hj
    have : j ≠ id := by omega
    rw [upd_other _ _ _ _ this]; exact he j hj

/-- collateral of one CDP changes by `δ` together with one deposit record and the module balance -/
theorem coll_change {E : Env} {cdp : Nat → Option Cdp} {dep : Nat → Acct → Int} {balC balC' : Denom → Int} {n id : Nat}
    {old c : Cdp} {a : Acct} {δ : Int} (hnd : E.accts.Nodup) (ha : a ∈ E.accts)
    (h : CollOk E cdp dep balC n) (ho : cdp id = some old) (hty : c.ty = old.ty) (hc : c.coll = old.coll + δ)
    (hbal : ∀ d, 2 ≤ d → balC' d = balC d + (if denomOf E old.ty = d then δ else 0)) :
    CollOk E (upd cdp id (some c)) (upd2 dep id a (dep id a + δ)) balC' n := by
  have hlt := lt_nextId h ho
  obtain ⟨h1, h2, h3, h4, h5⟩ := h
  refine ⟨?_, ?_, ?_, ?_, ?_⟩
  · intro j c' hj
    by_cases hji : j = id
    · subst hji; rw [upd_same] at hj; cases hj
      have : upd2 dep j a (dep j a + δ) j = upd (dep j) a (dep j a + δ) := by
        funext x; simp [upd2, upd]
      rw [this, sumAcc_upd _ _ _ _ hnd ha, hc, h1 j old ho]; omega
    · rw [upd_other _ _ _ _ hji] at hj
      have : upd2 dep id a (dep id a + δ) j = dep j := by
        funext x; simp [upd2, hji]
      rw [this]; exact h1 j c' hj
  · intro j hj b
    by_cases hji : j = id
    · subst hji; rw [upd_same] at hj; cases hj
    · rw [upd_other _ _ _ _ hji] at hj
      rw [upd2_other _ _ _ _ _ _ (by intro hh; exact hji hh.1)]; exact h2 j hj b
  · intro j b hb
    have : b ≠ a := fun e => hb (e ▸ ha)
    rw [upd2_other _ _ _ _ _ _ (by intro hh; exact this hh.2)]; exact h3 j b hb
  · intro d hd2
    rw [hbal d hd2, h4 d hd2, collOf_upd, sumAcc_upd _ _ _ _ List.nodup_range (List.mem_range.2 hlt)]
    simp only [collOf, ho, hty, hc]
    split <;> omega
  · intro j hj
    have : j ≠ id := by omega
    rw [upd_other _ _ _ _ this]; exact h5 j hj

theorem coll_new {E : Env} {cdp : Nat → Option Cdp} {dep : Nat → Acct → Int} {balC balC' : Denom → Int} {n : Nat}
    {c : Cdp} {a : Acct} (hnd : E.accts.Nodup) (ha : a ∈ E.accts)
    (h : CollOk E cdp dep balC n)
    (hbal : ∀ d, 2 ≤ d → balC' d = balC d + (if denomOf E c.ty = d then c.coll else 0)) :
    CollOk E (upd cdp n (some c)) (upd2 dep n a c.coll) balC' (n + 1) := by
  obtain ⟨h1, h2, h3, h4, h5⟩ := h
  have hnone : cdp n = none := h5 n (Nat.le_refl n)
  refine ⟨?_, ?_, ?_, ?_, ?_⟩
  · intro j c' hj
    by_cases hji : j = n
    · subst hji; rw [upd_same] at hj; cases hj
      have : upd2 dep j a c.coll j = upd (dep j) a c.coll := by
        funext x; simp [upd2, upd]
      rw [this, sumAcc_upd _ _ _ _ hnd ha, h2 j hnone a]
      have : sumAcc E.accts (dep j) = 0 := sumAcc_zero _ _ (fun x _ => h2 j hnone x)
      omega
    · rw [upd_other _ _ _ _ hji] at hj
      have : upd2 dep n a c.coll j = dep j := by
        funext x; simp [upd2, hji]
      rw [this]; exact h1 j c' hj
  · intro j hj b
    by_cases hji : j = n
    · subst hji; rw [upd_same] at hj; cases hj
    · rw [upd_other _ _ _ _ hji] at hj
      rw [upd2_other _ _ _ _ _ _ (by intro hh; exact hji hh.1)]; exact h2 j hj b
  · intro j b hb
    have : b ≠ a := fun e => hb (e ▸ ha)
    rw [upd2_other _ _ _ _ _ _ (by intro hh; exact this hh.2)]; exact h3 j b hb
  · intro d hd2
    rw [hbal d hd2, h4 d hd2, sumAcc_range_succ]
    have e1 : sumAcc (List.range n) (collOf E (upd cdp n (some c)) d) = sumAcc (List.range n) (collOf E cdp d) := by
      apply sumAcc_congr
      intro x hx
      have : x ≠ n := by have := List.mem_range.1 hx; omega
      simp only [collOf, upd_other _ _ _ _ this]
    rw [e1]
    simp only [collOf, upd_same]
  · intro j hj
    have : j ≠ n := by omega
    rw [upd_other _ _ _ _ this]; exact h5 j (by omega)

/-- the CDP disappears, all its deposit records are gone, its collateral has left the module account -/
theorem coll_delete {E : Env} {cdp : Nat → Option Cdp} {dep dep' : Nat → Acct → Int} {balC balC' : Denom → Int} {n id : Nat}
    {old : Cdp} (h : CollOk E cdp dep balC n) (ho : cdp id = some old)
    (hdep0 : ∀ a, dep' id a = 0) (hdep : ∀ j, j ≠ id → dep' j = dep j)
    (hbal : ∀ d, 2 ≤ d → balC' d = balC d - (if denomOf E old.ty = d then old.coll else 0)) :
    CollOk E (upd cdp id none) dep' balC' n := by
  have hlt := lt_nextId h ho
  obtain ⟨h1, h2, h3, h4, h5⟩ := h
  refine ⟨?_, ?_, ?_, ?_, ?_⟩
  · intro j c' hj
    by_cases hji : j = id
    · subst hji; rw [upd_same] at hj; cases hj
    · rw [upd_other _ _ _ _ hji] at hj; rw [hdep j hji]; exact h1 j c' hj
  · intro j hj b
    by_cases hji : j = id
    · subst hji; exact hdep0 b
    · rw [upd_other _ _ _ _ hji] at hj; rw [hdep j hji]; exact h2 j hj b
  · intro j b hb
    by_cases hji : j = id
    · subst hji; exact hdep0 b
    · rw [hdep j hji]; exact h3 j b hb
  · intro d hd2
    rw [hbal d hd2, h4 d hd2, collOf_upd, sumAcc_upd _ _ _ _ List.nodup_range (List.mem_range.2 hlt)]
    simp only [collOf, ho]
    split <;> omega
  · intro j hj
    by_cases hji : j = id
    · subst hji; exact upd_same _ _ _
    · rw [upd_other _ _ _ _ hji]; exact h5 j hj

/-- only the module balance moves in denoms that are not collateral of anything touched -/
theorem coll_bal_eq {E : Env} {cdp : Nat → Option Cdp} {dep : Nat → Acct → Int} {balC balC' : Denom → Int} {n : Nat}
    (h : CollOk E cdp dep balC n) (hbal : ∀ d, 2 ≤ d → balC' d = balC d) : CollOk E cdp dep balC' n := by
  obtain ⟨h1, h2, h3, h4, h5⟩ := h
  exact ⟨h1, h2, h3, fun d hd => by rw [hbal d hd]; exact h4 d hd, h5⟩

/-! ### stable coin issued vs debt coin held -/

def debtHeld (s : St) : Int := s.bal MCDP DEBT + s.bal MLIQ DEBT + s.bal MAUC DEBT

/-- usdx issued by the module (supply minus the genesis supply `g`) never exceeds the debt coins held by the
    cdp, liquidator and auction module accounts -/
def DebtOk (g : Int) (s : St) : Prop := s.supply USDX - g ≤ debtHeld s

/-! ### the invariant -/

/-- well-formed environment: accounts that can deposit are distinct user accounts; collateral denoms are
    neither usdx nor the debt coin -/
structure WF (E : Env) : Prop where
  nodup : E.accts.Nodup
  users : ∀ a, a ∈ E.accts → 3 ≤ a
  denoms : ∀ (ty : Nat) (cp : CollParam), E.P.colls[ty]? = some cp → 2 ≤ cp.denom

structure Inv (E : Env) (g : Int) (s : St) : Prop where
  idx : IdxOk E s.cdp s.idx
  own : OwnOk s.cdp s.own
  coll : CollOk E s.cdp s.dep (s.bal MCDP) s.nextId
  debt : DebtOk g s

end KV.Cdp
