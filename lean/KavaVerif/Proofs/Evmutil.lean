/-
  Helper lemmas for C10 (x/evmutil conversions), part 1: effect lemmas of the bank / ERC20 ledger
  primitives and one *spec lemma* per operation (what a successful operation did to every field,
  in pointwise "delta" form). Core Lean only.
-/
import KavaVerif.Model.Evmutil
set_option linter.unusedSimpArgs false
set_option linter.unusedVariables false
namespace KV.EU

theorem F_val : F = 10000000000 := by decide
theorem F_pos : (0:Int) < F := by decide

theorem scale_cases (d : Denom) : (isBep3 d = true ∧ scale d = F) ∨ (isBep3 d = false ∧ scale d = 1) := by
  unfold scale; cases h : isBep3 d <;> simp

theorem mul_scale_pos (d : Denom) {n : Int} (h : 0 < n) : 0 < n * scale d := by
  rcases scale_cases d with ⟨_, h2⟩ | ⟨_, h2⟩
  · rw [h2, F_val]; omega
  · rw [h2]; omega

theorem upd2_at {α β : Type} [DecidableEq α] [DecidableEq β] (f : α → β → Int) (a : α) (b : β) (v : Int) (x : α) (y : β) :
    upd2 f a b v x y = if x = a ∧ y = b then v else f x y := rfl

theorem upd_at {α : Type} [DecidableEq α] {β : Type} (f : α → β) (a : α) (v : β) (x : α) :
    upd f a v x = if x = a then v else f x := rfl

/-! effect lemmas: bank -/

theorem bankSub_eff {b b' : Bank} {d : Denom} {a : Addr} {n : Int} (h : bankSub b d a n = some b') :
    n ≤ b.bal d a ∧ (∀ d' a', b'.bal d' a' = b.bal d' a' - (if d' = d ∧ a' = a then n else 0)) ∧
    b'.supply = b.supply := by
  unfold bankSub at h; split at h
  · cases h
  · cases h
    refine ⟨by omega, ?_, rfl⟩
    intro d' a'
    simp only [upd2_at]
    split
    · rename_i hc; rw [hc.1, hc.2]
    · omega

theorem bankAdd_bal (b : Bank) (d : Denom) (a : Addr) (n : Int) (d' : Denom) (a' : Addr) :
    (bankAdd b d a n).bal d' a' = b.bal d' a' + (if d' = d ∧ a' = a then n else 0) := by
  simp only [bankAdd, upd2_at]
  split
  · rename_i hc; rw [hc.1, hc.2]
  · omega

theorem bankAdd_supply (b : Bank) (d : Denom) (a : Addr) (n : Int) : (bankAdd b d a n).supply = b.supply := rfl

theorem supplyAdd_bal (b : Bank) (d : Denom) (n : Int) : (supplyAdd b d n).bal = b.bal := rfl

theorem supplyAdd_supply (b : Bank) (d : Denom) (n : Int) (d' : Denom) :
    (supplyAdd b d n).supply d' = b.supply d' + (if d' = d then n else 0) := by
  simp only [supplyAdd, upd_at]
  split
  · rename_i hc; rw [hc]
  · omega

theorem supplyAdd_supply_neg (b : Bank) (d : Denom) (n : Int) (d' : Denom) :
    (supplyAdd b d (-n)).supply d' = b.supply d' - (if d' = d then n else 0) := by
  rw [supplyAdd_supply]; split <;> omega

/-! effect lemmas: ERC20 ledger -/

theorem ercSub_eff {e e' : Ledger} {c : Contract} {a : Addr} {n : Int} (h : ercSub e c a n = some e') :
    n ≤ e.bal c a ∧ (∀ c' a', e'.bal c' a' = e.bal c' a' - (if c' = c ∧ a' = a then n else 0)) ∧
    e'.total = e.total := by
  unfold ercSub at h; split at h
  · cases h
  · cases h
    refine ⟨by omega, ?_, rfl⟩
    intro c' a'
    simp only [upd2_at]
    split
    · rename_i hc; rw [hc.1, hc.2]
    · omega

theorem ercAdd_bal (e : Ledger) (c : Contract) (a : Addr) (n : Int) (c' : Contract) (a' : Addr) :
    (ercAdd e c a n).bal c' a' = e.bal c' a' + (if c' = c ∧ a' = a then n else 0) := by
  simp only [ercAdd, upd2_at]
  split
  · rename_i hc; rw [hc.1, hc.2]
  · omega

theorem ercAdd_total (e : Ledger) (c : Contract) (a : Addr) (n : Int) : (ercAdd e c a n).total = e.total := rfl

theorem totalAdd_bal (e : Ledger) (c : Contract) (n : Int) : (totalAdd e c n).bal = e.bal := rfl

theorem totalAdd_total (e : Ledger) (c : Contract) (n : Int) (c' : Contract) :
    (totalAdd e c n).total c' = e.total c' + (if c' = c then n else 0) := by
  simp only [totalAdd, upd_at]
  split
  · rename_i hc; rw [hc]
  · omega

theorem ercTransfer_eff {e e' : Ledger} {c : Contract} {f t : Addr} {n : Int} (h : ercTransfer e c f t n = some e') :
    f ≠ Z ∧ t ≠ Z ∧ n ≤ e.bal c f ∧
    (∀ c' a', e'.bal c' a' = e.bal c' a' - (if c' = c ∧ a' = f then n else 0) + (if c' = c ∧ a' = t then n else 0)) ∧
    e'.total = e.total := by
  unfold ercTransfer at h; split at h
  · cases h
  · rename_i hz
    split at h
    · cases h
    · rename_i e1 h1
      obtain ⟨h2, h3, h4⟩ := ercSub_eff h1
      cases h
      refine ⟨fun x => hz (Or.inl x), fun x => hz (Or.inr x), h2, ?_, by rw [ercAdd_total, h4]⟩
      intro c' a'
      rw [ercAdd_bal, h3]

theorem ercMint_eff {e e' : Ledger} {c : Contract} {t : Addr} {n : Int} (h : ercMint e c t n = some e') :
    t ≠ Z ∧ (∀ c' a', e'.bal c' a' = e.bal c' a' + (if c' = c ∧ a' = t then n else 0)) ∧
    (∀ c', e'.total c' = e.total c' + (if c' = c then n else 0)) := by
  unfold ercMint at h; split at h
  · cases h
  · rename_i hz
    cases h
    refine ⟨hz, ?_, ?_⟩
    · intro c' a'; rw [ercAdd_bal, totalAdd_bal]
    · intro c'; rw [ercAdd_total, totalAdd_total]

theorem ercBurn_eff {e e' : Ledger} {c : Contract} {f : Addr} {n : Int} (h : ercBurn e c f n = some e') :
    f ≠ Z ∧ n ≤ e.bal c f ∧ (∀ c' a', e'.bal c' a' = e.bal c' a' - (if c' = c ∧ a' = f then n else 0)) ∧
    (∀ c', e'.total c' = e.total c' - (if c' = c then n else 0)) := by
  unfold ercBurn at h; split at h
  · cases h
  · rename_i hz
    split at h
    · cases h
    · rename_i e1 h1
      obtain ⟨h2, h3, h4⟩ := ercSub_eff h1
      cases h
      refine ⟨hz, h2, ?_, ?_⟩
      · intro c' a'; rw [totalAdd_bal, h3]
      · intro c'; rw [totalAdd_total, h4]; split <;> omega

theorem findByDenom_some {l : List Pair} {d : Denom} {p : Pair} (h : findByDenom l d = some p) : p.2 = d ∧ p ∈ l := by
  induction l with
  | nil => cases h
  | cons q qs ih =>
    unfold findByDenom at h
    split at h
    · cases h; rename_i hq; exact ⟨hq, List.mem_cons_self⟩
    · have := ih h; exact ⟨this.1, List.mem_cons_of_mem _ this.2⟩

theorem findByContract_some {l : List Pair} {c : Contract} {p : Pair} (h : findByContract l c = some p) : p.1 = c ∧ p ∈ l := by
  induction l with
  | nil => cases h
  | cons q qs ih =>
    unfold findByContract at h
    split at h
    · cases h; rename_i hq; exact ⟨hq, List.mem_cons_self⟩
    · have := ih h; exact ⟨this.1, List.mem_cons_of_mem _ this.2⟩

/-- what a successful MsgConvertCoinToERC20 did -/
theorem coinToErc_spec {s s' : St} {ini rcv : Addr} {d : Denom} {amt : Int}
    (h : coinToErc s ini rcv d amt = .ok s') :
    ∃ c, findByDenom s.pairs d = some (c, d) ∧ 0 < amt ∧ amt ≤ s.bank.bal d ini ∧ rcv ≠ Z ∧ rcv ≠ M ∧
      amt * scale d ≤ s.erc.bal c M ∧
      (∀ d' a, s'.bank.bal d' a = s.bank.bal d' a - (if d' = d ∧ a = ini then amt else 0)) ∧
      (∀ d', s'.bank.supply d' = s.bank.supply d' - (if d' = d then amt else 0)) ∧
      (∀ c' a, s'.erc.bal c' a = s.erc.bal c' a + (if c' = c ∧ a = rcv then amt * scale d else 0)
                 - (if c' = c ∧ a = M then amt * scale d else 0)) ∧
      s'.erc.total = s.erc.total ∧ s'.reg = s.reg ∧ s'.nextC = s.nextC ∧ s'.pairs = s.pairs ∧
      s'.allowed = s.allowed := by
  unfold coinToErc at h
  split at h
  · cases h
  rename_i hpos
  split at h
  · cases h
  rename_i p hp
  obtain ⟨hpd, hpm⟩ := findByDenom_some hp
  obtain ⟨c, d0⟩ := p
  simp only at hpd
  subst hpd
  split at h
  · cases h
  rename_i b1 h1
  obtain ⟨hf, hb1, hs1⟩ := bankSub_eff h1
  split at h
  · cases h
  rename_i b2 h2
  obtain ⟨hf2, hb2, hs2⟩ := bankSub_eff h2
  dsimp only at h
  have hu : (if isBep3 d0 = true then amt * F else amt) = amt * scale d0 := by
    rcases scale_cases d0 with ⟨h1, h2⟩ | ⟨h1, h2⟩
    · rw [h2, if_pos h1]
    · rw [h2, if_neg (by rw [h1]; decide), Int.mul_one]
  rw [hu] at h
  split at h
  · cases h
  rename_i e1 h4
  obtain ⟨_, hz, hl, he1, ht1⟩ := ercTransfer_eff h4
  split at h
  · cases h
  rename_i hchk
  cases h
  have hrm : rcv ≠ M := by
    intro e
    have := he1 c rcv
    subst e
    simp only [true_and, ite_true] at this
    have hp : 0 < amt * scale d0 := mul_scale_pos d0 (by omega)
    omega
  refine ⟨c, hp, by omega, hf, hz, hrm, hl, ?_, ?_, ?_, ht1, rfl, rfl, rfl, rfl⟩
  · intro d' a
    show (supplyAdd b2 d0 (-amt)).bal d' a = _
    rw [supplyAdd_bal, hb2, bankAdd_bal, hb1]
    omega
  · intro d'
    show (supplyAdd b2 d0 (-amt)).supply d' = _
    rw [supplyAdd_supply_neg, hs2, bankAdd_supply, hs1]
  · intro c' a
    show e1.bal c' a = _
    rw [he1]; omega

/-- the bep3 amounts of conversion_evm_native_bep3.go, uniformly via `scale` -/
theorem mint_lock_scale (d : Denom) (amt : Int) :
    (if isBep3 d = true then amt / F else amt) = amt / scale d ∧
    (if isBep3 d = true then amt / F * F else amt) = amt / scale d * scale d := by
  rcases scale_cases d with ⟨h1, h2⟩ | ⟨h1, h2⟩
  · rw [h2, if_pos h1, if_pos h1]; exact ⟨rfl, rfl⟩
  · rw [h2, if_neg (by rw [h1]; decide), if_neg (by rw [h1]; decide), Int.ediv_one, Int.mul_one]
    exact ⟨rfl, rfl⟩

/-- `⌊a/scale⌋·scale ≤ a < (⌊a/scale⌋+1)·scale` -/
theorem div_scale_bounds (d : Denom) (amt : Int) :
    amt / scale d * scale d ≤ amt ∧ amt - amt / scale d * scale d < scale d ∧
    amt - amt / scale d * scale d = amt % scale d := by
  rcases scale_cases d with ⟨_, h2⟩ | ⟨_, h2⟩
  · rw [h2, F_val]; omega
  · rw [h2]; omega

/-- what a successful MsgConvertERC20ToCoin did (`m` = coins minted, `m·scale` = ERC20 locked) -/
theorem ercToCoin_spec {blocked : Addr → Bool} {s s' : St} {ini rcv : Addr} {c : Contract} {amt : Int}
    (h : ercToCoin blocked s ini rcv c amt = .ok s') :
    ∃ d m, findByContract s.pairs c = some (c, d) ∧ 0 < amt ∧ m = amt / scale d ∧ 0 < m ∧
      m * scale d ≤ s.erc.bal c ini ∧ ini ≠ Z ∧ ini ≠ M ∧ blocked rcv = false ∧
      (∀ d' a, s'.bank.bal d' a = s.bank.bal d' a + (if d' = d ∧ a = rcv then m else 0)) ∧
      (∀ d', s'.bank.supply d' = s.bank.supply d' + (if d' = d then m else 0)) ∧
      (∀ c' a, s'.erc.bal c' a = s.erc.bal c' a - (if c' = c ∧ a = ini then m * scale d else 0)
                 + (if c' = c ∧ a = M then m * scale d else 0)) ∧
      s'.erc.total = s.erc.total ∧ s'.reg = s.reg ∧ s'.nextC = s.nextC ∧ s'.pairs = s.pairs ∧
      s'.allowed = s.allowed := by
  unfold ercToCoin at h
  split at h
  · cases h
  rename_i hpos
  split at h
  · cases h
  rename_i p hp
  obtain ⟨hpc, hpm⟩ := findByContract_some hp
  obtain ⟨c0, d⟩ := p
  simp only at hpc
  subst hpc
  dsimp only at h
  obtain ⟨hm, hl⟩ := mint_lock_scale d amt
  rw [hm, hl] at h
  split at h
  · cases h
  rename_i hdust
  split at h
  · cases h
  rename_i e1 h1
  obtain ⟨hiz, _, hfunds, he1, ht1⟩ := ercTransfer_eff h1
  split at h
  · cases h
  rename_i hchk
  split at h
  · cases h
  rename_i hbl
  split at h
  · cases h
  rename_i b1 h2
  obtain ⟨_, hb1, hs1⟩ := bankSub_eff h2
  cases h
  have hbnd := div_scale_bounds d amt
  have hmpos : 0 < amt / scale d := by
    rcases scale_cases d with ⟨h1', h2'⟩ | ⟨h1', h2'⟩
    · rw [h2']
      have : ¬ amt / F = 0 := fun e => hdust ⟨h1', e⟩
      have : 0 ≤ amt / F := Int.ediv_nonneg (by omega) (by decide)
      omega
    · rw [h2', Int.ediv_one]; omega
  have hlpos : 0 < amt / scale d * scale d := mul_scale_pos d hmpos
  have him : ini ≠ M := by
    intro e
    have := he1 c0 ini
    subst e
    simp only [true_and, ite_true] at this
    omega
  refine ⟨d, amt / scale d, hp, by omega, rfl, hmpos, hfunds, hiz, him, by simpa using hbl, ?_, ?_, ?_, ht1, rfl, rfl, rfl, rfl⟩
  · intro d' a
    show (bankAdd b1 d rcv (amt / scale d)).bal d' a = _
    rw [bankAdd_bal, hb1, bankAdd_bal, supplyAdd_bal]
    omega
  · intro d'
    show (bankAdd b1 d rcv (amt / scale d)).supply d' = _
    rw [bankAdd_supply, hs1, bankAdd_supply, supplyAdd_supply]
  · intro c' a
    show e1.bal c' a = _
    rw [he1]

/-- what a successful MsgConvertCosmosCoinToERC20 did (`k` = index of the wrapped-coin contract) -/
theorem cosmosToErc_spec {s s' : St} {ini rcv : Addr} {d : Denom} {amt : Int}
    (h : cosmosToErc s ini rcv d amt = .ok s') :
    ∃ k, 0 < amt ∧ d ∈ s.allowed ∧ amt ≤ s.bank.bal d ini ∧ rcv ≠ Z ∧
      ((s.reg d = some k ∧ s'.reg = s.reg ∧ s'.nextC = s.nextC) ∨
       (s.reg d = none ∧ k = s.nextC ∧ s'.reg = upd s.reg d (some k) ∧ s'.nextC = s.nextC + 1)) ∧
      (∀ d' a, s'.bank.bal d' a = s.bank.bal d' a - (if d' = d ∧ a = ini then amt else 0)
                 + (if d' = d ∧ a = M then amt else 0)) ∧
      s'.bank.supply = s.bank.supply ∧
      (∀ c' a, s'.erc.bal c' a = s.erc.bal c' a + (if c' = .dep k ∧ a = rcv then amt else 0)) ∧
      (∀ c', s'.erc.total c' = s.erc.total c' + (if c' = .dep k then amt else 0)) ∧
      s'.pairs = s.pairs ∧ s'.allowed = s.allowed := by
  unfold cosmosToErc at h
  split at h
  · cases h
  rename_i hpos
  split at h
  · cases h
  rename_i hal
  split at h
  · cases h
  rename_i b1 h1
  obtain ⟨hf, hb1, hs1⟩ := bankSub_eff h1
  have hbank : ∀ d' a, (bankAdd b1 d M amt).bal d' a = s.bank.bal d' a - (if d' = d ∧ a = ini then amt else 0)
      + (if d' = d ∧ a = M then amt else 0) := by
    intro d' a; rw [bankAdd_bal, hb1]
  have hsup : (bankAdd b1 d M amt).supply = s.bank.supply := by rw [bankAdd_supply, hs1]
  have hal' : d ∈ s.allowed := Decidable.not_not.mp hal
  split at h
  · rename_i k hk
    split at h
    · cases h
    rename_i e1 h2
    obtain ⟨hz, he1, ht1⟩ := ercMint_eff h2
    cases h
    exact ⟨k, by omega, hal', hf, hz, Or.inl ⟨hk, rfl, rfl⟩, hbank, hsup, he1, ht1, rfl, rfl⟩
  · rename_i hk
    split at h
    · cases h
    rename_i e1 h2
    obtain ⟨hz, he1, ht1⟩ := ercMint_eff h2
    cases h
    exact ⟨s.nextC, by omega, hal', hf, hz, Or.inr ⟨hk, rfl, rfl, rfl⟩, hbank, hsup, he1, ht1, rfl, rfl⟩

/-- what a successful MsgConvertCosmosCoinFromERC20 did -/
theorem cosmosFromErc_spec {blocked : Addr → Bool} {s s' : St} {ini rcv : Addr} {d : Denom} {amt : Int}
    (h : cosmosFromErc blocked s ini rcv d amt = .ok s') :
    ∃ k, 0 < amt ∧ s.reg d = some k ∧ amt ≤ s.erc.bal (.dep k) ini ∧ ini ≠ Z ∧ blocked rcv = false ∧
      amt ≤ s.bank.bal d M ∧
      (∀ d' a, s'.bank.bal d' a = s.bank.bal d' a - (if d' = d ∧ a = M then amt else 0)
                 + (if d' = d ∧ a = rcv then amt else 0)) ∧
      s'.bank.supply = s.bank.supply ∧
      (∀ c' a, s'.erc.bal c' a = s.erc.bal c' a - (if c' = .dep k ∧ a = ini then amt else 0)) ∧
      (∀ c', s'.erc.total c' = s.erc.total c' - (if c' = .dep k then amt else 0)) ∧
      s'.reg = s.reg ∧ s'.nextC = s.nextC ∧ s'.pairs = s.pairs ∧ s'.allowed = s.allowed := by
  unfold cosmosFromErc at h
  split at h
  · cases h
  rename_i hpos
  split at h
  · cases h
  rename_i k hk
  split at h
  · cases h
  rename_i hbal
  split at h
  · cases h
  rename_i e1 h1
  obtain ⟨hz, hf, he1, ht1⟩ := ercBurn_eff h1
  split at h
  · cases h
  rename_i hbl
  split at h
  · cases h
  rename_i b1 h2
  obtain ⟨hfm, hb1, hs1⟩ := bankSub_eff h2
  cases h
  refine ⟨k, by omega, hk, hf, hz, by simpa using hbl, hfm, ?_, ?_, he1, ht1, rfl, rfl, rfl, rfl⟩
  · intro d' a
    show (bankAdd b1 d rcv amt).bal d' a = _
    rw [bankAdd_bal, hb1]
  · show (bankAdd b1 d rcv amt).supply = _
    rw [bankAdd_supply, hs1]

/-- a successful ordinary ERC20 transfer -/
theorem envTransfer_spec {s s' : St} {c : Contract} {f t : Addr} {amt : Int}
    (h : envTransfer s c f t amt = .ok s') :
    0 ≤ amt ∧ f ≠ Z ∧ t ≠ Z ∧ amt ≤ s.erc.bal c f ∧
      (∀ c' a, s'.erc.bal c' a = s.erc.bal c' a - (if c' = c ∧ a = f then amt else 0)
                 + (if c' = c ∧ a = t then amt else 0)) ∧
      s'.erc.total = s.erc.total ∧ s'.bank = s.bank ∧ s'.reg = s.reg ∧ s'.nextC = s.nextC ∧
      s'.pairs = s.pairs ∧ s'.allowed = s.allowed := by
  unfold envTransfer at h
  split at h
  · cases h
  rename_i hpos
  split at h
  · cases h
  rename_i e1 h1
  obtain ⟨hz1, hz2, hf, he1, ht1⟩ := ercTransfer_eff h1
  cases h
  exact ⟨by omega, hz1, hz2, hf, he1, ht1, rfl, rfl, rfl, rfl, rfl⟩

/-- a successful ordinary bank send -/
theorem envSend_spec {blocked : Addr → Bool} {s s' : St} {d : Denom} {f t : Addr} {amt : Int}
    (h : envSend blocked s d f t amt = .ok s') :
    0 < amt ∧ blocked t = false ∧ amt ≤ s.bank.bal d f ∧
      (∀ d' a, s'.bank.bal d' a = s.bank.bal d' a - (if d' = d ∧ a = f then amt else 0)
                 + (if d' = d ∧ a = t then amt else 0)) ∧
      s'.bank.supply = s.bank.supply ∧ s'.erc = s.erc ∧ s'.reg = s.reg ∧ s'.nextC = s.nextC ∧
      s'.pairs = s.pairs ∧ s'.allowed = s.allowed := by
  unfold envSend at h
  split at h
  · cases h
  rename_i hpos
  split at h
  · cases h
  rename_i hbl
  split at h
  · cases h
  rename_i b1 h1
  obtain ⟨hf, hb1, hs1⟩ := bankSub_eff h1
  cases h
  refine ⟨by omega, by simpa using hbl, hf, ?_, ?_, rfl, rfl, rfl, rfl, rfl⟩
  · intro d' a
    show (bankAdd b1 d t amt).bal d' a = _
    rw [bankAdd_bal, hb1]
  · show (bankAdd b1 d t amt).supply = _
    rw [bankAdd_supply, hs1]

/-- a successful mint by an external token's own minter -/
theorem extMint_spec {s s' : St} {c : Contract} {t : Addr} {amt : Int}
    (h : extMint s c t amt = .ok s') :
    (∃ n, c = .ext n) ∧ 0 ≤ amt ∧ t ≠ Z ∧
      (∀ c' a, s'.erc.bal c' a = s.erc.bal c' a + (if c' = c ∧ a = t then amt else 0)) ∧
      (∀ c', s'.erc.total c' = s.erc.total c' + (if c' = c then amt else 0)) ∧
      s'.bank = s.bank ∧ s'.reg = s.reg ∧ s'.nextC = s.nextC ∧ s'.pairs = s.pairs ∧
      s'.allowed = s.allowed := by
  unfold extMint at h
  split at h
  · cases h
  rename_i n
  split at h
  · cases h
  rename_i hpos
  split at h
  · cases h
  rename_i e1 h1
  obtain ⟨hz, he1, ht1⟩ := ercMint_eff h1
  cases h
  exact ⟨⟨n, rfl⟩, by omega, hz, he1, ht1, rfl, rfl, rfl, rfl, rfl⟩

end KV.EU
