/-
  Helper lemmas for C11 (savings): coin-list lemmas (`AmountOf` of the capped request), the savings
  invariant, effect lemmas of Deposit / Withdraw, preservation along operation lists, frame.
  Property statements live in KavaVerif/Props/C11.lean.
-/
import KavaVerif.Model.Savings
import KavaVerif.Proofs.Earn
set_option linter.unusedSimpArgs false
set_option linter.unusedVariables false
namespace KV.Savings
open KV

theorem lookup_mem (cs : Coins) (d : Denom) (n : Int) (h : cs.lookup d = some n) : (d, n) ∈ cs := by
  induction cs with
  | nil => simp [List.lookup] at h
  | cons c t ih =>
    obtain ⟨k, v⟩ := c
    simp only [List.lookup] at h
    split at h
    · rename_i heq
      have : d = k := by simpa using heq
      cases h; subst this; exact List.mem_cons_self
    · exact List.mem_cons_of_mem _ (ih h)

/-- `AmountOf` of the capped request: the cap is applied to the requested coin of that denom -/
theorem amountOf_calcWithdraw (avail : Denom → Int) (cs : Coins) (d : Denom) :
    amountOf (calcWithdraw avail cs) d =
      match cs.lookup d with
      | some n => if n > avail d then avail d else n
      | none => 0 := by
  unfold amountOf calcWithdraw
  induction cs with
  | nil => simp [List.lookup]
  | cons c t ih =>
    obtain ⟨k, v⟩ := c
    simp only [List.map_cons, List.lookup]
    by_cases hk : d == k
    · have : d = k := by simpa using hk
      subst this
      simp only [hk]
    · simp only [hk]
      exact ih

/-- the amount of denom `d` a withdrawal of `cs` pays from a record holding `avail` -/
def paid (avail : Denom → Int) (cs : Coins) (d : Denom) : Int :=
  match cs.lookup d with
  | some n => if n > avail d then avail d else n
  | none => 0

theorem validCoins_pos (cs : Coins) (h : validCoins cs = true) : ∀ c ∈ cs, 0 < c.2 := by
  unfold validCoins at h
  simp only [Bool.and_eq_true, List.all_eq_true, decide_eq_true_eq] at h
  exact h.1

theorem paid_bounds (avail : Denom → Int) (cs : Coins) (d : Denom) (hv : validCoins cs = true)
    (ha : 0 ≤ avail d) : 0 ≤ paid avail cs d ∧ paid avail cs d ≤ avail d ∧ paid avail cs d ≤ amountOf cs d := by
  unfold paid amountOf
  cases hl : cs.lookup d with
  | none => simp only []; omega
  | some n =>
    have := validCoins_pos cs hv _ (lookup_mem cs d n hl)
    simp only [] at this ⊢
    split <;> omega


/-- The savings invariant: recorded amounts are non-negative and live in the denom universe `ds`,
    the module balance of every denom equals the sum of the recorded deposits over `accts`
    (a duplicate-free list of every depositor), and a record exists exactly when it is non-empty. -/
def SInv (accts : List Addr) (ds : List Denom) (s : St) : Prop :=
  (∀ a d, 0 ≤ s.dep a d) ∧
  (∀ d, s.mod d = Earn.sumOver accts (fun a => s.dep a d)) ∧
  (∀ a d, d ∉ ds → s.dep a d = 0) ∧
  (∀ a, s.has a = ds.any (fun d => decide (0 < s.dep a d)))

theorem upd2_col (f : Addr → Denom → Int) (a : Addr) (g : Denom → Int) (d : Denom) :
    (fun x => upd2 f a g x d) = Earn.upd (fun x => f x d) a (g d) := by
  funext x
  unfold upd2 Earn.upd
  split <;> rfl

theorem deposit_spec (sup : Denom → Bool) (s s' : St) (a : Addr) (cs : Coins)
    (h : deposit sup s a cs = .ok s') :
    validCoins cs = true ∧ cs ≠ [] ∧ (∀ c ∈ cs, sup c.1 = true) ∧ (∀ c ∈ cs, c.2 ≤ s.bal a c.1) ∧
    s'.bal = upd2 s.bal a (fun d => s.bal a d - amountOf cs d) ∧
    s'.mod = (fun d => s.mod d + amountOf cs d) ∧
    s'.has = updB s.has a true ∧
    s'.dep = upd2 s.dep a (fun d => s.dep a d + amountOf cs d) := by
  unfold deposit at h
  split at h; · cases h
  rename_i h1
  split at h; · cases h
  rename_i h2
  split at h; · cases h
  rename_i h3
  cases h
  simp only [not_or, Bool.not_eq_true, Bool.not_eq_false, List.isEmpty_eq_false_iff, ne_eq, Decidable.not_not] at h1
  simp only [Decidable.not_not, List.all_eq_true, decide_eq_true_eq] at h2 h3
  refine ⟨?_, ?_, h2, h3, rfl, rfl, rfl, rfl⟩
  · cases hv : validCoins cs <;> simp_all
  · intro e; subst e; simp at h1

theorem withdraw_spec (ds : List Denom) (s s' : St) (a : Addr) (cs : Coins)
    (h : withdraw ds s a cs = .ok s') :
    validCoins cs = true ∧ cs ≠ [] ∧ s.has a = true ∧ (∀ c ∈ cs, 0 < s.dep a c.1) ∧
    (∀ d ∈ ds, 0 ≤ s.dep a d - paid (s.dep a) cs d) ∧
    s'.bal = upd2 s.bal a (fun d => s.bal a d + paid (s.dep a) cs d) ∧
    s'.mod = (fun d => s.mod d - paid (s.dep a) cs d) ∧
    s'.has = updB s.has a (ds.any (fun d => decide (0 < s.dep a d - paid (s.dep a) cs d))) ∧
    s'.dep = upd2 s.dep a (fun d => s.dep a d - paid (s.dep a) cs d) := by
  unfold withdraw at h
  split at h; · cases h
  rename_i h1
  split at h; · cases h
  rename_i h2
  split at h; · cases h
  rename_i h3
  dsimp only at h
  split at h; · cases h
  rename_i h4
  split at h; · cases h
  rename_i h5
  cases h
  have hp : ∀ d, amountOf (calcWithdraw (s.dep a) cs) d = paid (s.dep a) cs d :=
    fun d => amountOf_calcWithdraw (s.dep a) cs d
  simp only [not_or, Bool.not_eq_true, Bool.not_eq_false, List.isEmpty_eq_false_iff, ne_eq, Decidable.not_not] at h1
  simp only [Decidable.not_not, List.all_eq_true, decide_eq_true_eq] at h3
  simp only [hp, List.any_eq_true, decide_eq_true_eq, not_exists, not_and, Int.not_lt] at h5
  refine ⟨?_, ?_, by simpa using h2, h3, h5, by simp only [hp], by simp only [hp], by simp only [hp],
    by simp only [hp]⟩
  · cases hv : validCoins cs <;> simp_all
  · intro e; subst e; simp at h1


theorem amountOf_nonneg (cs : Coins) (d : Denom) (hv : validCoins cs = true) : 0 ≤ amountOf cs d := by
  unfold amountOf
  cases hl : cs.lookup d with
  | none => simp
  | some n => have := validCoins_pos cs hv _ (lookup_mem cs d n hl); simp only [] at this ⊢; omega

theorem amountOf_zero_of_unsupported (sup : Denom → Bool) (cs : Coins) (d : Denom)
    (hs : ∀ c ∈ cs, sup c.1 = true) (hd : sup d = false) : amountOf cs d = 0 := by
  unfold amountOf
  cases hl : cs.lookup d with
  | none => rfl
  | some n => have := hs _ (lookup_mem cs d n hl); simp only [] at this; rw [hd] at this; cases this

theorem upd2_same (f : Addr → Denom → Int) (a : Addr) (g : Denom → Int) : upd2 f a g a = g := by
  unfold upd2; simp

theorem upd2_other (f : Addr → Denom → Int) (a b : Addr) (g : Denom → Int) (h : b ≠ a) :
    upd2 f a g b = f b := by
  unfold upd2; simp [h]

theorem deposit_inv (accts : List Addr) (hn : accts.Nodup) (ds : List Denom) (sup : Denom → Bool)
    (hsup : ∀ d, sup d = true → d ∈ ds) (s s' : St) (a : Addr) (cs : Coins) (ha : a ∈ accts)
    (hinv : SInv accts ds s) (h : deposit sup s a cs = .ok s') : SInv accts ds s' := by
  obtain ⟨hv, hne, hs, hb, r1, r2, r3, r4⟩ := deposit_spec sup s s' a cs h
  obtain ⟨i1, i2, i3, i4⟩ := hinv
  refine ⟨?_, ?_, ?_, ?_⟩
  · intro x d; rw [r4]
    by_cases hx : x = a
    · subst hx; rw [upd2_same]; have := i1 x d; have := amountOf_nonneg cs d hv; omega
    · rw [upd2_other _ _ _ _ hx]; exact i1 x d
  · intro d; rw [r2, r4, upd2_col, Earn.sumOver_upd accts _ a _ hn ha]
    have := i2 d
    simp only []
    omega
  · intro x d hd; rw [r4]
    by_cases hx : x = a
    · subst hx; rw [upd2_same]
      have hsd : sup d = false := by
        cases hh : sup d
        · rfl
        · exact absurd (hsup d hh) hd
      rw [i3 x d hd, amountOf_zero_of_unsupported sup cs d hs hsd]; omega
    · rw [upd2_other _ _ _ _ hx]; exact i3 x d hd
  · intro x; rw [r3, r4]
    by_cases hx : x = a
    · subst hx; rw [upd2_same]
      simp only [updB, ite_true]
      symm
      rw [List.any_eq_true]
      cases cs with
      | nil => exact absurd rfl hne
      | cons c t =>
        obtain ⟨d0, n0⟩ := c
        have hpos : 0 < n0 := validCoins_pos _ hv (d0, n0) List.mem_cons_self
        have hd0 : d0 ∈ ds := hsup d0 (hs (d0, n0) List.mem_cons_self)
        refine ⟨d0, hd0, ?_⟩
        have : amountOf ((d0, n0) :: t) d0 = n0 := by simp [amountOf, List.lookup]
        simp only [this, decide_eq_true_eq]
        have := i1 x d0; omega
    · rw [upd2_other _ _ _ _ hx]; simp only [updB, hx, ite_false]; exact i4 x

theorem withdraw_inv (accts : List Addr) (hn : accts.Nodup) (ds : List Denom)
    (s s' : St) (a : Addr) (cs : Coins) (ha : a ∈ accts)
    (hinv : SInv accts ds s) (h : withdraw ds s a cs = .ok s') : SInv accts ds s' := by
  obtain ⟨hv, hne, hh, hsub, hnn, r1, r2, r3, r4⟩ := withdraw_spec ds s s' a cs h
  obtain ⟨i1, i2, i3, i4⟩ := hinv
  refine ⟨?_, ?_, ?_, ?_⟩
  · intro x d; rw [r4]
    by_cases hx : x = a
    · subst hx; rw [upd2_same]; have := paid_bounds (s.dep x) cs d hv (i1 x d); omega
    · rw [upd2_other _ _ _ _ hx]; exact i1 x d
  · intro d; rw [r2, r4, upd2_col, Earn.sumOver_upd accts _ a _ hn ha]
    have := i2 d
    simp only []
    omega
  · intro x d hd; rw [r4]
    by_cases hx : x = a
    · subst hx; rw [upd2_same]
      have := paid_bounds (s.dep x) cs d hv (i1 x d)
      have := i3 x d hd; omega
    · rw [upd2_other _ _ _ _ hx]; exact i3 x d hd
  · intro x; rw [r3, r4]
    by_cases hx : x = a
    · subst hx; rw [upd2_same]; simp only [updB, ite_true]
    · rw [upd2_other _ _ _ _ hx]; simp only [updB, hx, ite_false]; exact i4 x

theorem next_inv (accts : List Addr) (hn : accts.Nodup) (ds : List Denom) (sup : Denom → Bool)
    (hsup : ∀ d, sup d = true → d ∈ ds) (s : St) (o : Op) (ha : o.actor ∈ accts)
    (hinv : SInv accts ds s) : SInv accts ds (next sup ds s o) := by
  unfold next
  split
  · rename_i s' h
    cases o with
    | deposit a cs => exact deposit_inv accts hn ds sup hsup s s' a cs ha hinv h
    | withdraw a cs => exact withdraw_inv accts hn ds s s' a cs ha hinv h
  · exact hinv

theorem run_inv (accts : List Addr) (hn : accts.Nodup) (ds : List Denom) (sup : Denom → Bool)
    (hsup : ∀ d, sup d = true → d ∈ ds) (ops : List Op) :
    ∀ s, (∀ o ∈ ops, o.actor ∈ accts) → SInv accts ds s → SInv accts ds (run sup ds s ops) := by
  induction ops with
  | nil => intro s _ h; exact h
  | cons o os ih =>
    intro s ha hinv
    unfold run
    simp only [List.foldl_cons]
    exact ih (next sup ds s o) (fun o' ho' => ha o' (List.mem_cons_of_mem _ ho'))
      (next_inv accts hn ds sup hsup s o (ha o List.mem_cons_self) hinv)

theorem empty_inv (accts : List Addr) (ds : List Denom) : SInv accts ds empty := by
  refine ⟨fun _ _ => by simp [empty], fun d => ?_, fun _ _ _ => by simp [empty], fun a => ?_⟩
  · simp only [empty]; exact (Earn.sumOver_const_zero accts).symm
  · simp only [empty]
    symm
    rw [List.any_eq_false]
    intro d _; simp

/-- frame: a successful deposit or withdrawal by `a` leaves every other account's record, record
    flag and bank balance alone -/
theorem next_frame (ds : List Denom) (sup : Denom → Bool) (s : St) (o : Op) (b : Addr)
    (hb : b ≠ o.actor) :
    (next sup ds s o).dep b = s.dep b ∧ (next sup ds s o).bal b = s.bal b ∧
    (next sup ds s o).has b = s.has b := by
  unfold next
  split
  · rename_i s' h
    cases o with
    | deposit a cs =>
      obtain ⟨-, -, -, -, r1, -, r3, r4⟩ := deposit_spec sup s s' a cs h
      have : b ≠ a := hb
      rw [r1, r3, r4, upd2_other _ _ _ _ this, upd2_other _ _ _ _ this]
      simp [updB, this]
    | withdraw a cs =>
      obtain ⟨-, -, -, -, -, r1, -, r3, r4⟩ := withdraw_spec ds s s' a cs h
      have : b ≠ a := hb
      rw [r1, r3, r4, upd2_other _ _ _ _ this, upd2_other _ _ _ _ this]
      simp [updB, this]
  · exact ⟨rfl, rfl, rfl⟩

end KV.Savings
