/-
  Helper lemmas for C13 (x/bep3), part 8: governance rotates the deputy address of an asset.
  A rotation is a frame step (only the asset parameter changes; `setDeputy_inv` in Bep3Block), and closing a
  stored swap — claim or refund — does not depend on who the deputy is now: the stored direction alone
  decides which funds move.  Core Lean only.
-/
import KavaVerif.Proofs.Bep3Trace
set_option linter.unusedSimpArgs false
set_option linter.unusedVariables false

namespace KV.Bep3

/-- the outcome of an operation, with the successor state mapped -/
def Res.map (f : St → St) : Res → Res
  | .ok s => .ok (f s)
  | .err => .err
  | .panic => .panic

theorem Res.map_isOk (f : St → St) (r : Res) : (Res.map f r).isOk = r.isOk := by
  cases r <;> rfl

/-- refund never reads the asset parameters: the same outcome, whoever is the deputy -/
theorem refund_setDeputy (cfg : Cfg) (hs : Hashes) (s : St) (d : Denom) (dep : Addr) (id : Id) :
    refund cfg hs (setDeputy s d dep) id = Res.map (fun t => setDeputy t d dep) (refund cfg hs s id) := by
  have e1 : (setDeputy s d dep).swaps = s.swaps := rfl
  have e2 : (setDeputy s d dep).supply = s.supply := rfl
  have e3 : (setDeputy s d dep).bal = s.bal := rfl
  unfold refund
  rw [e1, e2, e3]
  split
  · rfl
  · split
    · rfl
    · split
      · split
        · rfl
        · rfl
      · split
        · rfl
        · split
          · rfl
          · split
            · rfl
            · rfl

theorem incCurrent_ite_redeputy (c : Prop) [Decidable c] (a : Asset) (dep : Addr) (sup : Supply) (amt : Int) :
    incCurrent (if c then redeputy a dep else a) sup amt = incCurrent a sup amt := by
  split <;> rfl

/-- claim reads the asset only for its supply limit: the same outcome, whoever is the deputy -/
theorem claim_setDeputy (cfg : Cfg) (hs : Hashes) (s : St) (d : Denom) (dep : Addr) (id : Id) (rn : Nat) :
    claim cfg hs (setDeputy s d dep) id rn = Res.map (fun t => setDeputy t d dep) (claim cfg hs s id rn) := by
  have e1 : (setDeputy s d dep).swaps = s.swaps := rfl
  have e2 : (setDeputy s d dep).supply = s.supply := rfl
  have e3 : (setDeputy s d dep).bal = s.bal := rfl
  have e4 : (setDeputy s d dep).bankSupply = s.bankSupply := rfl
  unfold claim
  rw [e1, e2, e3, e4]
  split
  · rfl
  · rename_i sw hf
    split
    · rfl
    · split
      · rfl
      · split
        · -- incoming
          split
          · rfl
          · rename_i sup1 h1
            rw [getAsset_after_setDeputy]
            cases hg : getAsset s.assets sw.denom with
            | none => rfl
            | some a =>
              simp only [Option.map_some, incCurrent_ite_redeputy]
              split
              · rfl
              · split
                · rfl
                · split
                  · rfl
                  · rfl
        · -- outgoing
          split
          · rfl
          · split
            · rfl
            · split
              · rfl
              · rfl

/-- after any number of further rotations the stored swaps are the same -/
theorem setDeputy_frame (s : St) (d : Denom) (dep : Addr) :
    (setDeputy s d dep).swaps = s.swaps ∧ (setDeputy s d dep).byBlock = s.byBlock ∧
    (setDeputy s d dep).longterm = s.longterm ∧ (setDeputy s d dep).supply = s.supply ∧
    (setDeputy s d dep).bal = s.bal ∧ (setDeputy s d dep).bankSupply = s.bankSupply ∧
    (setDeputy s d dep).height = s.height ∧ (setDeputy s d dep).time = s.time ∧
    (setDeputy s d dep).prevTime = s.prevTime :=
  ⟨rfl, rfl, rfl, rfl, rfl, rfl, rfl, rfl, rfl⟩

end KV.Bep3
