/-
  Proofs about the collateral auctions of a seizure (`Model/CdpAuctions.lean`): the lots of one deposit
  (`createAuctions` = `CreateAuctionsFromDeposit`) and of a whole seizure (`auctionLots` = `AuctionCollateral`).
  Core Lean only (`omega`, `grind` for the one polynomial identity).
-/
import KavaVerif.Model.CdpAuctions
import KavaVerif.Proofs.CdpMore
set_option linter.unusedSimpArgs false
set_option linter.unusedVariables false

namespace KV.Cdp
open KV

/-! ### list sums -/

theorem lotSum_append (l m : List Lot) : lotSum (l ++ m) = lotSum l + lotSum m := by
  induction l with
  | nil => simp [lotSum]
  | cons x xs ih => simp only [List.cons_append, lotSum, ih]; omega

theorem lotDebtSum_append (l m : List Lot) : lotDebtSum (l ++ m) = lotDebtSum l + lotDebtSum m := by
  induction l with
  | nil => simp [lotDebtSum]
  | cons x xs ih => simp only [List.cons_append, lotDebtSum, ih]; omega

/-! ### the whole-lot loop -/

theorem wholeLots_length (ret : Acct) (A dpa : Int) (pen : Dec) : ∀ (n : Nat) (un : Int),
    (wholeLots ret A dpa pen n un).1.length = n := by
  intro n
  induction n with
  | zero => intro un; rfl
  | succ k ih => intro un; simp only [wholeLots, List.length_cons, ih]

theorem wholeLots_sumLot (ret : Acct) (A dpa : Int) (pen : Dec) : ∀ (n : Nat) (un : Int),
    lotSum (wholeLots ret A dpa pen n un).1 = n * A := by
  intro n
  induction n with
  | zero => intro un; simp [wholeLots, lotSum]
  | succ k ih =>
    intro un
    simp only [wholeLots, lotSum, ih, mkLot]
    have : ((k + 1 : Nat) : Int) * A = (k : Int) * A + A := by
      rw [Int.natCast_add, Int.add_mul]; simp
    omega

/-- what the loop hands out plus what it leaves over is `n·dpa` plus what it was given -/
theorem wholeLots_sumDebt (ret : Acct) (A dpa : Int) (pen : Dec) : ∀ (n : Nat) (un : Int),
    lotDebtSum (wholeLots ret A dpa pen n un).1 + (wholeLots ret A dpa pen n un).2 = n * dpa + un := by
  intro n
  induction n with
  | zero => intro un; simp [wholeLots, lotDebtSum]
  | succ k ih =>
    intro un
    simp only [wholeLots, lotDebtSum, mkLot]
    have hk : ((k + 1 : Nat) : Int) * dpa = (k : Int) * dpa + dpa := by
      rw [Int.natCast_add, Int.add_mul]; simp
    by_cases hp : 0 < un
    · simp only [hp, if_true]
      have := ih (un - 1)
      omega
    · simp only [hp, if_false]
      have := ih un
      omega

/-- no more units than lots: nothing is left over -/
theorem wholeLots_left (ret : Acct) (A dpa : Int) (pen : Dec) : ∀ (n : Nat) (un : Int), 0 ≤ un → un ≤ n →
    (wholeLots ret A dpa pen n un).2 = 0 := by
  intro n
  induction n with
  | zero => intro un h0 h1; simp only [wholeLots]; omega
  | succ k ih =>
    intro un h0 h1
    simp only [wholeLots]
    apply ih
    · split <;> omega
    · split <;> omega

/-- the extra units go to the FIRST lots created: `un` lots of `dpa + 1`, then `n − un` lots of `dpa` -/
theorem wholeLots_debts (ret : Acct) (A dpa : Int) (pen : Dec) : ∀ (n : Nat) (un : Int), 0 ≤ un → un ≤ n →
    (wholeLots ret A dpa pen n un).1.map (·.debt) =
      List.replicate un.toNat (dpa + 1) ++ List.replicate (n - un.toNat) dpa := by
  intro n
  induction n with
  | zero =>
    intro un h0 h1
    have : un.toNat = 0 := by omega
    simp [wholeLots, this]
  | succ k ih =>
    intro un h0 h1
    simp only [wholeLots, List.map_cons, mkLot]
    by_cases hp : 0 < un
    · simp only [hp, if_true]
      rw [ih (un - 1) (by omega) (by omega)]
      have e1 : un.toNat = (un - 1).toNat + 1 := by omega
      have e2 : k + 1 - un.toNat = k - (un - 1).toNat := by omega
      rw [e1, List.replicate_succ, ← e1, e2]
      simp
    · simp only [hp, if_false]
      have hz : un = 0 := by omega
      subst hz
      rw [ih 0 (by omega) (by omega)]
      simp [List.replicate_succ]

theorem wholeLots_mem (ret : Acct) (A dpa : Int) (pen : Dec) : ∀ (n : Nat) (un : Int) (x : Lot),
    x ∈ (wholeLots ret A dpa pen n un).1 →
    x = mkLot ret A x.debt pen ∧ (x.debt = dpa ∨ x.debt = dpa + 1) := by
  intro n
  induction n with
  | zero => intro un x h; simp [wholeLots] at h
  | succ k ih =>
    intro un x h
    simp only [wholeLots, List.mem_cons] at h
    rcases h with h | h
    · subst h
      refine ⟨by simp [mkLot], ?_⟩
      simp only [mkLot]
      split <;> omega
    · exact ih _ x h

/-! ### the arithmetic of the largest-remainder split -/

/-- `c · unallocatedDebt = n · wholeAuctionError + lastAuctionError` -/
theorem split_identity (c A d n lastC dpa lastD wErr lErr : Int)
    (h1 : c = A * n + lastC) (h2 : d * A = c * dpa + wErr) (h3 : d * lastC = c * lastD + lErr) :
    c * (d - (n * dpa + lastD)) = n * wErr + lErr := by
  grind

theorem split_bounds (c un n wErr lErr : Int) (hc : 0 < c) (hn : 0 ≤ n) (hw0 : 0 ≤ wErr) (hw : wErr < c)
    (hl0 : 0 ≤ lErr) (hl : lErr < c) (h : c * un = n * wErr + lErr) :
    0 ≤ un ∧ un ≤ n ∧ (wErr < lErr → 1 ≤ un) := by
  have hnw : 0 ≤ n * wErr := Int.mul_nonneg hn hw0
  have h0 : 0 ≤ c * un := by omega
  have hun : 0 ≤ un := Int.nonneg_of_mul_nonneg_right h0 hc
  refine ⟨hun, ?_, ?_⟩
  · have h3 : n * wErr ≤ n * c := Int.mul_le_mul_of_nonneg_left (by omega) hn
    have h4 : c * un < c * (n + 1) := by
      have : c * (n + 1) = n * c + c := by grind
      omega
    have := Int.lt_of_mul_lt_mul_left h4 (by omega)
    omega
  · intro hlt
    by_cases hz : un = 0
    · subst hz
      simp at h
      omega
    · omega

/-! ### one deposit -/

/-- What `CreateAuctionsFromDeposit` produces for a deposit `c > 0` of depositor `ret` with debt share `d ≥ 0`,
    auction size `A > 0`, penalty `pen`. -/
structure LotsSpec (ret : Acct) (c d A : Int) (pen : Dec) (L : List Lot) : Prop where
  /-- "exactly its collateral": the lots add up to the deposit -/
  lotSum : lotSum L = c
  /-- "exactly its debt": the corresponding debts add up to the deposit's share of the debt -/
  lotDebtSum : lotDebtSum L = d
  /-- number of auctions = ⌈c / A⌉ -/
  count : (L.length : Int) = (c + A - 1) / A
  /-- `c / A` whole lots of exactly the auction size whose debts are `dpa + 1` for the first `k` created and `dpa`
      for the others (`dpa = ⌊d·A / c⌋`), then — iff `A` does not divide `c` — one smaller lot `c % A` with debt
      `⌊d·(c % A) / c⌋` or that plus one -/
  shape : ∃ (W last : List Lot) (k : Nat), L = W ++ last ∧ (W.length : Int) = c / A ∧ k ≤ W.length ∧
    (∀ x ∈ W, x.lot = A) ∧
    W.map (·.debt) = List.replicate k (d * A / c + 1) ++ List.replicate (W.length - k) (d * A / c) ∧
    ((last = [] ∧ c % A = 0) ∨
     (∃ x, last = [x] ∧ x.lot = c % A ∧ 0 < x.lot ∧ x.lot < A ∧
        (x.debt = d * (c % A) / c ∨ x.debt = d * (c % A) / c + 1)))
  /-- every lot: returned to the depositor, positive, at most the auction size, its debt is its proportional share
      `d · lot / c` rounded down or up, and its max bid is its own debt plus the penalty ON ITS OWN DEBT -/
  each : ∀ x ∈ L, x.ret = ret ∧ 0 < x.lot ∧ x.lot ≤ A ∧ 0 ≤ x.debt ∧
    d * x.lot / c ≤ x.debt ∧ x.debt ≤ d * x.lot / c + 1 ∧ x.maxBid = x.debt + penaltyOf x.debt pen

theorem ceil_count (c A N lc : Int) (hA : 0 < A) (h1 : c = A * N + lc) (h0 : 0 ≤ lc) (h2 : lc < A) :
    (c + A - 1) / A = N + (if 0 < lc then 1 else 0) := by
  have e : c + A - 1 = (lc + A - 1) + A * N := by omega
  rw [e, Int.add_mul_ediv_left _ _ (by omega)]
  by_cases hp : 0 < lc
  · simp only [hp, if_true]
    have e2 : lc + A - 1 = (lc - 1) + A * 1 := by omega
    rw [e2, Int.add_mul_ediv_left _ _ (by omega), Int.ediv_eq_zero_of_lt (by omega) (by omega)]
    omega
  · simp only [hp, if_false]
    rw [Int.ediv_eq_zero_of_lt (by omega) (by omega)]
    omega

theorem createAuctions_spec (ret : Acct) (c d A : Int) (pen : Dec) (hc : 0 < c) (hd : 0 ≤ d) (hA : 0 < A) :
    ∃ L, createAuctions ret c d A pen = .ok L ∧ LotsSpec ret c d A pen L := by
  -- the quantities of the code, as atoms
  have hdA : 0 ≤ d * A := Int.mul_nonneg hd (by omega)
  have hlc0 : 0 ≤ c % A := Int.emod_nonneg c (by omega)
  have hlcA : c % A < A := Int.emod_lt_of_pos c hA
  have hdl : 0 ≤ d * (c % A) := Int.mul_nonneg hd hlc0
  have hN0 : 0 ≤ c / A := Int.ediv_nonneg (by omega) (by omega)
  have hdpa0 : 0 ≤ d * A / c := Int.ediv_nonneg hdA (by omega)
  have hld0 : 0 ≤ d * (c % A) / c := Int.ediv_nonneg hdl (by omega)
  have hw0 : 0 ≤ d * A % c := Int.emod_nonneg _ (by omega)
  have hwc : d * A % c < c := Int.emod_lt_of_pos _ hc
  have hl0 : 0 ≤ d * (c % A) % c := Int.emod_nonneg _ (by omega)
  have hlc : d * (c % A) % c < c := Int.emod_lt_of_pos _ hc
  have h1 : c = A * (c / A) + c % A := (Int.mul_ediv_add_emod c A).symm
  have h2 : d * A = c * (d * A / c) + d * A % c := (Int.mul_ediv_add_emod (d * A) c).symm
  have h3 : d * (c % A) = c * (d * (c % A) / c) + d * (c % A) % c := (Int.mul_ediv_add_emod (d * (c % A)) c).symm
  have hid := split_identity c A d (c / A) (c % A) (d * A / c) (d * (c % A) / c) (d * A % c) (d * (c % A) % c) h1 h2 h3
  obtain ⟨hun0, hunN, hun1⟩ := split_bounds c _ (c / A) _ _ hc hN0 hw0 hwc hl0 hlc hid
  -- unfold the code
  unfold createAuctions
  rw [if_neg (by omega : ¬ A = 0), if_neg (by omega : ¬ c = 0)]
  simp only [emod, tquo_nonneg_eq c A (by omega) (by omega), tquo_nonneg_eq (d * A) c hdA (by omega),
    tquo_nonneg_eq (d * (c % A)) c hdl (by omega)]
  generalize hN : c / A = N at *
  generalize hlcg : c % A = lc at *
  generalize hdpa : d * A / c = dpa at *
  generalize hwe : d * A % c = we at *
  generalize hld : d * lc / c = ld at *
  generalize hle : d * lc % c = le at *
  generalize hung : d - (N * dpa + ld) = un at *
  -- the unallocated debt handed to the loop
  generalize hu1 : (if le > we then un - 1 else un) = un1
  generalize hl1 : (if le > we then ld + 1 else ld) = ld1
  have hu1b : 0 ≤ un1 ∧ un1 ≤ N := by
    subst hu1
    split
    · have := hun1 (by omega); omega
    · omega
  have hsum1 : un1 + ld1 = un + ld := by
    subst hu1; subst hl1
    split <;> omega
  have hld1 : ld1 = ld ∨ ld1 = ld + 1 := by
    subst hl1
    split <;> omega
  have hNn : ((N.toNat : Nat) : Int) = N := by omega
  have hun1n : un1 ≤ (N.toNat : Nat) := by omega
  have hleft := wholeLots_left ret A dpa pen N.toNat un1 hu1b.1 hun1n
  have hlen := wholeLots_length ret A dpa pen N.toNat un1
  have hsl := wholeLots_sumLot ret A dpa pen N.toNat un1
  have hsd := wholeLots_sumDebt ret A dpa pen N.toNat un1
  have hdebts := wholeLots_debts ret A dpa pen N.toNat un1 hu1b.1 hun1n
  have hmem := wholeLots_mem ret A dpa pen N.toNat un1
  rw [hleft] at hsd
  rw [hNn] at hsl hsd
  have hNA : N * A = A * N := Int.mul_comm N A
  have hcount := ceil_count c A N lc hA h1 hlc0 hlcA
  generalize hW : (wholeLots ret A dpa pen N.toNat un1).1 = W at *
  by_cases hp : 0 < lc
  · -- a remainder lot exists
    rw [if_neg (by omega : ¬ ¬ 0 < lc), hleft]
    simp only [Int.lt_irrefl, if_false]
    refine ⟨_, rfl, ?_⟩
    have hdlot : d * lc / c = ld := hld
    refine ⟨?_, ?_, ?_, ?_, ?_⟩
    · rw [lotSum_append]; simp only [lotSum, mkLot]; omega
    · rw [lotDebtSum_append]; simp only [lotDebtSum, mkLot]; omega
    · rw [List.length_append, hlen, hcount]
      simp only [hp, if_true, List.length_singleton]
      omega
    · simp only [hN, hlcg, hdpa, hld]
      refine ⟨W, [mkLot ret lc ld1 pen], un1.toNat, rfl, by omega, by omega, ?_, ?_, ?_⟩
      · intro x hx
        have := (hmem x hx).1
        rw [this]; rfl
      · rw [hdebts, hlen]
      · right
        exact ⟨_, rfl, rfl, hp, hlcA, hld1⟩
    · intro x hx
      rw [List.mem_append] at hx
      rcases hx with hx | hx
      · obtain ⟨he, hd2⟩ := hmem x hx
        have hlot : x.lot = A := by rw [he]; rfl
        have hret : x.ret = ret := by rw [he]; rfl
        have hmb : x.maxBid = x.debt + penaltyOf x.debt pen := by rw [he]; rfl
        rw [hlot, hdpa]
        refine ⟨hret, hA, by omega, by omega, by omega, by omega, hmb⟩
      · simp only [List.mem_singleton] at hx
        subst hx
        simp only [mkLot]
        rw [hld]
        refine ⟨trivial, hp, by omega, by omega, by omega, by omega, trivial⟩
  · -- the auction size divides the deposit
    have hz : lc = 0 := by omega
    rw [if_pos (by omega : ¬ 0 < lc)]
    refine ⟨_, rfl, ?_⟩
    have hld00 : ld = 0 := by
      rw [← hld, hz]; simp
    have hle00 : le = 0 := by
      rw [← hle, hz]; simp
    have hnb : un1 = un := by
      subst hu1
      rw [if_neg (by omega)]
    refine ⟨?_, ?_, ?_, ?_, ?_⟩
    · omega
    · omega
    · rw [hlen, hcount]
      simp only [hp, if_false]
      omega
    · simp only [hN, hlcg, hdpa, hld]
      refine ⟨W, [], un1.toNat, by simp, by omega, by omega, ?_, ?_, ?_⟩
      · intro x hx
        have := (hmem x hx).1
        rw [this]; rfl
      · rw [hdebts, hlen]
      · left
        exact ⟨rfl, hz⟩
    · intro x hx
      obtain ⟨he, hd2⟩ := hmem x hx
      have hlot : x.lot = A := by rw [he]; rfl
      have hret : x.ret = ret := by rw [he]; rfl
      have hmb : x.maxBid = x.debt + penaltyOf x.debt pen := by rw [he]; rfl
      rw [hlot, hdpa]
      refine ⟨hret, hA, by omega, by omega, by omega, by omega, hmb⟩

/-- any two whole-size lots of one deposit carry debts that differ by at most one unit -/
theorem LotsSpec.spread {ret : Acct} {c d A : Int} {pen : Dec} {L : List Lot} (h : LotsSpec ret c d A pen L)
    (x y : Lot) (hx : x ∈ L) (hy : y ∈ L) (hxl : x.lot = A) (hyl : y.lot = A) :
    x.debt - y.debt ≤ 1 ∧ y.debt - x.debt ≤ 1 := by
  have a := h.each x hx
  have b := h.each y hy
  rw [hxl] at a
  rw [hyl] at b
  omega

/-! ### a whole seizure -/

/-- the lots of a seizure are, deposit by deposit in depositor order, the lots `CreateAuctionsFromDeposit` makes of
    that deposit for exactly the share of the debt `AuctionCollateral` hands it — the very amounts the state machine
    of `Model/Cdp.lean` (`auctionDeps`) moves from the liquidator to the auction module for that deposit -/
def LotsOfDeps (A : Int) (pen : Dec) (total debt : Int) : Int → List (Acct × Int) → List Lot → Prop
  | _, [], L => L = []
  | remaining, (a, v) :: rest, L =>
    ∃ l L2, L = l ++ L2 ∧
      LotsSpec a v (cappedShare (debtCovered v total debt) remaining rest.isEmpty) A pen l ∧
      LotsOfDeps A pen total debt (remaining - cappedShare (debtCovered v total debt) remaining rest.isEmpty) rest L2

theorem auctionLots_spec (A : Int) (pen : Dec) (total debt : Int) (hA : 0 < A) (ht : 0 < total) (hd : 0 ≤ debt) :
    ∀ (deps : List (Acct × Int)) (remaining : Int), (∀ a v, (a, v) ∈ deps → 0 < v) → 0 ≤ remaining →
    ∃ L, auctionLots A pen total debt remaining deps = .ok L ∧ LotsOfDeps A pen total debt remaining deps L ∧
      lotSum L = sumDeps deps ∧ lotDebtSum L = sumShares total debt remaining deps ∧
      (∀ x ∈ L, x.ret ∈ deps.map Prod.fst ∧ 0 < x.lot ∧ x.lot ≤ A ∧ 0 ≤ x.debt ∧
        x.maxBid = x.debt + penaltyOf x.debt pen) := by
  intro deps
  induction deps with
  | nil =>
    intro remaining _ _
    exact ⟨[], rfl, rfl, rfl, rfl, by simp⟩
  | cons hd0 tl ih =>
    intro remaining hpos hr0
    obtain ⟨a, v⟩ := hd0
    have hv : 0 < v := hpos a v (by simp)
    have hsh := debtCovered_nonneg v total debt (by omega) ht hd
    have hle := cappedShare_le (debtCovered v total debt) remaining tl.isEmpty
    have hge := cappedShare_nonneg (debtCovered v total debt) remaining tl.isEmpty hsh hr0
    obtain ⟨l, hl, hspec⟩ := createAuctions_spec a v _ A pen hv hge hA
    obtain ⟨L2, hL2, hdeps2, hs1, hs2, hall⟩ := ih (remaining - cappedShare (debtCovered v total debt) remaining tl.isEmpty)
      (fun a' v' hm => hpos a' v' (by simp [hm])) (by omega)
    refine ⟨l ++ L2, ?_, ⟨l, L2, rfl, hspec, hdeps2⟩, ?_, ?_, ?_⟩
    · simp only [auctionLots]
      rw [if_neg (by omega : ¬ total = 0), hl]
      simp only [hL2]
    · rw [lotSum_append, hspec.lotSum, hs1]; simp [sumDeps]
    · rw [lotDebtSum_append, hspec.lotDebtSum, hs2]; simp [sumShares]
    · intro x hx
      rw [List.mem_append] at hx
      rcases hx with hx | hx
      · have e := hspec.each x hx
        refine ⟨by simp [e.1], e.2.1, e.2.2.1, e.2.2.2.1, e.2.2.2.2.2.2⟩
      · have e := hall x hx
        refine ⟨?_, e.2⟩
        simp only [List.map_cons, List.mem_cons]
        exact Or.inr e.1

theorem sumDeps_pos : ∀ (deps : List (Acct × Int)), deps ≠ [] → (∀ a v, (a, v) ∈ deps → 0 < v) → 0 < sumDeps deps := by
  intro deps
  induction deps with
  | nil => intro h; exact absurd rfl h
  | cons hd tl ih =>
    intro _ hpos
    obtain ⟨a, v⟩ := hd
    have hv : 0 < v := hpos a v (by simp)
    simp only [sumDeps]
    by_cases ht : tl = []
    · subst ht; simp only [sumDeps]; omega
    · have := ih ht (fun a' v' hm => hpos a' v' (by simp [hm]))
      omega

/-- the lots of a whole seizure (`SeizeCollateral` → `AuctionCollateral`) -/
theorem seizeLots_spec (A : Int) (pen : Dec) (deps : List (Acct × Int)) (debt : Int) (hA : 0 < A) (hd : 0 ≤ debt)
    (hne : deps ≠ []) (hpos : ∀ a v, (a, v) ∈ deps → 0 < v) :
    ∃ L, seizeLots A pen deps debt = .ok L ∧ LotsOfDeps A pen (sumDeps deps) debt debt deps L ∧
      lotSum L = sumDeps deps ∧ lotDebtSum L = debt ∧
      (∀ x ∈ L, x.ret ∈ deps.map Prod.fst ∧ 0 < x.lot ∧ x.lot ≤ A ∧ 0 ≤ x.debt ∧
        x.maxBid = x.debt + penaltyOf x.debt pen) := by
  obtain ⟨L, h1, h2, h3, h4, h5⟩ := auctionLots_spec A pen (sumDeps deps) debt hA (sumDeps_pos deps hne hpos) hd deps debt hpos hd
  rw [sumShares_exact _ _ deps _ hne] at h4
  exact ⟨L, h1, h2, h3, h4, h5⟩

/-- the keeper reward comes out of exactly one deposit record; the others are handed over unchanged -/
theorem depsAfterReward_sum (r : Int) (deps : List (Acct × Int)) :
    sumDeps (depsAfterReward (some r) deps) = sumDeps deps - r ∨ depsAfterReward (some r) deps = deps := by
  simp only [depsAfterReward]
  cases hp : payReward r deps with
  | none => right; rfl
  | some p =>
    obtain ⟨a, deps'⟩ := p
    left
    have := (payReward_spec r deps deps' a hp).2.2
    simp only
    omega

end KV.Cdp
