/-
  The concrete example world used by the non-vacuity examples and the counterexample theorems of
  Props/C04.lean and Props/C05.lean.  Core Lean only.
-/
import KavaVerif.Proofs.CdpDrift
set_option linter.unusedSimpArgs false
set_option linter.unusedVariables false

namespace KV.Cdp
open KV

/-- one collateral type: conversion factor 8, liquidation ratio 1.5, keeper reward 1 % -/
def exColl : CollParam :=
  { denom := 2, liqRatio := ⟨1500000000000000000⟩, debtLimit := 1000000000000000, feeIsOne := false,
    keeperReward := ⟨10000000000000000⟩, checkCount := 10, cf := 8, spot := 0, liq := 1 }

def exEnv : Env :=
  { P := { colls := [exColl], debtCf := 6, debtFloor := 10000000, globalLimit := 1000000000000000,
           surplusThreshold := 1000000000000000000, surplusLot := 1,
           debtThreshold := 1000000000000000000, debtLot := 1 },
    accts := [3, 4] }

/-- genesis: no CDPs, both prices 0.5, users 3 and 4 hold 100 units of collateral and 100 usdx -/
def exGenesis : St :=
  { cdp := fun _ => none, nextId := 1, dep := fun _ _ => 0, own := fun _ => [], idx := [],
    tprin := fun _ => 0, ifac := fun _ => some Dec.one, accr := fun _ => none, status := fun _ => true,
    price := fun _ => some ⟨500000000000000000⟩,
    bal := fun a d => if (a = 3 ∨ a = 4) ∧ d = 2 then 10000000000 else if (a = 3 ∨ a = 4) ∧ d = 0 then 100000000 else 0,
    supply := fun d => if d = 0 then 200000000 else 0 }

/-- user 3 opens 30 units of collateral / 10 usdx at price 0.5: exactly 150 % -/
def exAtRatio : St := apply exEnv exGenesis (.create 100 3 0 3000000000 2 10000000 0)

theorem exEnv_wf : WF exEnv := by
  refine ⟨by decide, by decide, ?_⟩
  intro ty cp h
  cases ty with
  | zero => simp [exEnv] at h; subst h; decide
  | succ n => simp [exEnv] at h

/-- `exAtRatio` after a further deposit of 30 (CR 300 %), with the liquidation market (only) having lost its
    price and its status flag lowered by the begin blocker — the state of former finding F12 -/
def exLiqDownDeposited : St :=
  let s := apply exEnv exAtRatio (.deposit 100 3 3 0 3000000000 2)
  { s with price := upd s.price 1 none, status := upd s.status 1 false }

/-- the state of former finding F2: user 3 opens 10 units / 10.000003 usdx at price 2.0, user 4 deposits the
    same 10 units (two equal deposits, odd debt), then both prices crash to 0.001 -/
def exTwoDeposits : St :=
  let s0 : St := { exGenesis with price := fun _ => some ⟨2000000000000000000⟩ }
  let s1 := apply exEnv s0 (.create 100 3 0 1000000000 2 10000003 0)
  let s2 := apply exEnv s1 (.deposit 100 3 4 0 1000000000 2)
  { s2 with price := fun _ => some ⟨1000000000000000⟩ }

/-- the history used for non-vacuity: create at the ratio, third-party deposit, draw, a block, partial repay,
    withdraw by the third party -/
def exHistory : List Op :=
  [.create 100 3 0 3000000000 2 10000000 0, .deposit 100 3 4 0 500000000 2, .draw 100 3 0 1000000 0,
   .beginBlock 101 false [Dec.one], .repay 101 3 0 500000 0, .withdraw 101 3 4 0 100000000 2]

/-- all recorded deposits held in denom `d` (over all ids allocated so far and all accounts) -/
def depositsIn (E : Env) (s : St) (d : Denom) : Int :=
  sumAcc (List.range s.nextId) (fun id =>
    match s.cdp id with
    | some c => if denomOf E c.ty = d then sumAcc E.accts (s.dep id) else 0
    | none => 0)

end KV.Cdp
