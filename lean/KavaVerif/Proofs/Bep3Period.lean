/-
  Helper lemmas for C13 (x/bep3), part 7: the period clock of the time-limited allowance.  Each asset's
  elapsed-time counter is advanced by the real time between blocks, independently of every other asset, is
  touched by nothing but the begin blocker, and its allowance is reset only when that counter reaches the
  asset's own period.  Core Lean only.
-/
import KavaVerif.Proofs.Bep3Live
set_option linter.unusedSimpArgs false
set_option linter.unusedVariables false

namespace KV.Bep3

/-- denominations of the asset params -/
def denoms (l : List (Denom × Asset)) : List Denom := l.map (·.1)

theorem resetAll_notin (dt : Int) (l : List (Denom × Asset)) : ∀ (f : Denom → Supply) (d : Denom),
    d ∉ denoms l → resetAll dt l f d = f d := by
  induction l with
  | nil => intro f d _; rfl
  | cons x xs ih =>
    intro f d hd
    obtain ⟨d', a⟩ := x
    simp only [denoms, List.map_cons, List.mem_cons, not_or] at hd
    unfold resetAll
    rw [ih _ d (by simpa [denoms] using hd.2), upd_other _ _ hd.1]

/-- with distinct denominations every asset's record is reset by its own params and its own counters only -/
theorem resetAll_at (dt : Int) (l : List (Denom × Asset)) : ∀ (f : Denom → Supply) (d : Denom) (a : Asset),
    (denoms l).Nodup → getAsset l d = some a → resetAll dt l f d = resetSupply a (f d) dt := by
  induction l with
  | nil => intro f d a _ h; cases h
  | cons x xs ih =>
    intro f d a hn hg
    obtain ⟨d', a'⟩ := x
    have hn' : d' ∉ denoms xs ∧ (denoms xs).Nodup := by
      have : (d' :: denoms xs).Nodup := hn
      exact List.nodup_cons.mp this
    unfold resetAll
    unfold getAsset at hg
    by_cases hd : d' = d
    · subst hd
      simp only [ite_true] at hg
      cases hg
      rw [resetAll_notin dt xs _ d' hn'.1, upd_same]
    · simp only [hd, ite_false] at hg
      have hd' : d ≠ d' := fun e => hd e.symm
      rw [ih _ d a hn'.2 hg, upd_other _ _ hd']

theorem beginBlock_supply {cfg : Cfg} {hs : Hashes} {s : St} (h : Inv cfg hs s) (dh : Nat) (dt : Int) :
    (beginBlock hs s dh dt).supply = (updateTimeLimits (newCtx s dh dt)).supply ∧
    (beginBlock hs s dh dt).prevTime = (updateTimeLimits (newCtx s dh dt)).prevTime := by
  rw [beginBlock_eq]
  have h0 : Inv cfg hs (newCtx s dh dt) :=
    inv_frame h _ rfl rfl rfl (Nat.le_add_right _ _) h.pmin (fun _ => rfl) (fun _ => rfl) (fun _ => rfl) (fun _ => rfl)
  generalize newCtx s dh dt = c at *
  obtain ⟨u1, u2, u3, u4, u5, u6, u7, u8, u9⟩ := updateTimeLimits_fields c
  have h1 : Inv cfg hs (updateTimeLimits c) :=
    inv_frame h0 _ u1 u2 u3 (by rw [u4]; exact Nat.le_refl _) (by rw [u5]; exact h0.pmin)
      (fun d => (u9 d).1) (fun d => (u9 d).2.1) (fun d => (u9 d).2.2.1) (fun d => by rw [u6])
  generalize updateTimeLimits c = t at *
  obtain ⟨x1, -, -, -, -, x6, -, -, -, -, x11⟩ := updateExpired_spec h1
  generalize updateExpired hs t = x at *
  obtain ⟨-, -, -, -, -, p6, -, -, -, -, p11⟩ := deleteClosed_spec x1
  exact ⟨by rw [p6, x6], by rw [p11, x11]⟩

/-- The begin blocker, per asset: with `Δ` the real time since the previous block, the asset's record becomes
    `resetSupply a record Δ`, a function of that asset's params and counters alone. -/
theorem beginBlock_period {cfg : Cfg} {hs : Hashes} {s : St} (h : Inv cfg hs s) (hn : (denoms s.assets).Nodup)
    (dh : Nat) (dt : Int) (d : Denom) (a : Asset) (ha : getAsset s.assets d = some a) :
    (beginBlock hs s dh dt).supply d = resetSupply a (s.supply d) (s.time + dt - s.prevTime) ∧
    (beginBlock hs s dh dt).prevTime = s.time + dt ∧ (beginBlock hs s dh dt).time = s.time + dt := by
  obtain ⟨e1, e2⟩ := beginBlock_supply h dh dt
  obtain ⟨-, -, e3, -⟩ := beginBlock_spec h dh dt
  have hne : ∃ x xs, s.assets = x :: xs := by
    cases hs' : s.assets with
    | nil => rw [hs'] at ha; cases ha
    | cons x xs => exact ⟨x, xs, rfl⟩
  obtain ⟨x, xs, hxs⟩ := hne
  have hu : updateTimeLimits (newCtx s dh dt) =
      { newCtx s dh dt with supply := resetAll (s.time + dt - s.prevTime) s.assets s.supply, prevTime := s.time + dt } := by
    unfold updateTimeLimits
    have : (newCtx s dh dt).assets = x :: xs := hxs
    rw [this]
    simp only []
    rw [← hxs]
    rfl
  rw [e1, e2, hu]
  exact ⟨resetAll_at _ _ _ d a hn ha, rfl, e3⟩

/-- nothing but the begin blocker touches the period clock (elapsed time, previous block time, block time) -/
theorem clock_step {cfg : Cfg} {hs : Hashes} {s : St} (h : Inv cfg hs s) (op : Op)
    (hnb : ∀ dh dt, op ≠ .beginBlock dh dt) (d : Denom) :
    ((step cfg hs s op).supply d).elapsed = (s.supply d).elapsed ∧
    (step cfg hs s op).prevTime = s.prevTime ∧ (step cfg hs s op).time = s.time := by
  rcases step_cases cfg hs s op with e | ⟨hash, ts, span, sender, rcp, other, coins, rfl, hok⟩ |
    ⟨frm, id, rn, rfl, hok⟩ | ⟨frm, id, rfl, hok⟩ | ⟨dh, dt, rfl, e⟩ | ⟨d', l, tl, p, tbl, act, rfl, e⟩ |
    ⟨dq, depq, rfl, e⟩
  · rw [e]; exact ⟨rfl, rfl, rfl⟩
  · obtain ⟨d0, amt, a, dir, sup, bal', rfl, hnew, -, -, -, -, -, -, -, hcase, hs'⟩ := create_spec hok
    rw [hs']
    obtain ⟨-, -, -, -, -, f6, -, -, f9, f10⟩ :=
      storeNew_fields (hs := hs) (s := s) (hash := hash) (ts := ts) (span := span) (sender := sender)
        (recipient := rcp) (other := other) (d := d0) (amt := amt) (dir := dir) (sup := sup) (bal := bal') hnew
    refine ⟨?_, f10, f9⟩
    rw [f6]
    by_cases hd : d = d0
    · subst hd; rw [upd_same]
      rcases hcase with ⟨-, -, -, h1, -⟩ | ⟨-, -, -, -, -, -, h1, -⟩
      · obtain ⟨-, -, rfl⟩ := incIncoming_some h1; rfl
      · obtain ⟨-, rfl⟩ := incOutgoing_some h1; rfl
    · rw [upd_other _ _ hd]
  · obtain ⟨sw, hf, hst, -, hcase⟩ := claim_spec hok
    obtain ⟨hm, hid'⟩ := findSwap_some hf
    subst hid'
    have hidok := h.idok sw hm
    rcases hcase with ⟨-, a, sup1, sup2, bal2, h1, -, h2, -, -, hs'⟩ | ⟨-, sup1, sup2, h1, h2, -, hs'⟩
    · rw [hs']
      obtain ⟨-, -, -, -, -, g6, -, -, g9, g10⟩ :=
        closeSwap_fields (hs := hs) (s0 := claimInPre cfg s sw sup2 bal2) (sw := sw) (rm := true) hidok hf
      refine ⟨?_, g10, g9⟩
      rw [g6]
      show (upd s.supply sw.denom sup2 d).elapsed = _
      by_cases hd : d = sw.denom
      · subst hd; rw [upd_same]
        obtain ⟨-, rfl⟩ := decIncoming_some h1
        obtain ⟨-, -, -, -, c4, -, -⟩ := incCurrent_some h2
        rw [c4]
      · rw [upd_other _ _ hd]
    · rw [hs']
      obtain ⟨-, -, -, -, -, g6, -, -, g9, g10⟩ :=
        closeSwap_fields (hs := hs) (s0 := claimOutPre cfg s sw sup2) (sw := sw) (rm := true) hidok hf
      refine ⟨?_, g10, g9⟩
      rw [g6]
      show (upd s.supply sw.denom sup2 d).elapsed = _
      by_cases hd : d = sw.denom
      · subst hd; rw [upd_same]
        obtain ⟨-, rfl⟩ := decOutgoing_some h1
        obtain ⟨-, rfl⟩ := decCurrent_some h2
        rfl
      · rw [upd_other _ _ hd]
  · obtain ⟨sw, hf, hst, hcase⟩ := refund_spec hok
    obtain ⟨hm, hid'⟩ := findSwap_some hf
    subst hid'
    have hidok := h.idok sw hm
    rcases hcase with ⟨-, sup1, h1, hs'⟩ | ⟨-, sup1, bal', h1, -, -, hs'⟩
    · rw [hs']
      obtain ⟨-, -, -, -, -, g6, -, -, g9, g10⟩ :=
        closeSwap_fields (hs := hs) (s0 := { s with supply := upd s.supply sw.denom sup1 }) (sw := sw) (rm := false) hidok hf
      refine ⟨?_, g10, g9⟩
      rw [g6]
      show (upd s.supply sw.denom sup1 d).elapsed = _
      by_cases hd : d = sw.denom
      · subst hd; rw [upd_same]
        obtain ⟨-, rfl⟩ := decIncoming_some h1
        rfl
      · rw [upd_other _ _ hd]
    · rw [hs']
      obtain ⟨-, -, -, -, -, g6, -, -, g9, g10⟩ :=
        closeSwap_fields (hs := hs) (s0 := { s with supply := upd s.supply sw.denom sup1, bal := bal' }) (sw := sw) (rm := false) hidok hf
      refine ⟨?_, g10, g9⟩
      rw [g6]
      show (upd s.supply sw.denom sup1 d).elapsed = _
      by_cases hd : d = sw.denom
      · subst hd; rw [upd_same]
        obtain ⟨-, rfl⟩ := decOutgoing_some h1
        rfl
      · rw [upd_other _ _ hd]
  · exact absurd rfl (hnb dh dt)
  · rw [e]; exact ⟨rfl, rfl, rfl⟩
  · rw [e]; exact ⟨rfl, rfl, rfl⟩

end KV.Bep3
