/-
  C05 helper lemmas: what a successful user action / keeper liquidation implies about the
  collateralization ratio (formulation (a)), the price-feed gate, and the closing repay.  Core Lean only.
-/
import KavaVerif.Proofs.CdpBlock
set_option linter.unusedVariables false
set_option linter.unusedSimpArgs false

namespace KV.Cdp
open KV

/-- `CR(c) ≥ L` for the CDP record `c` at the spot price of state `s` -/
def GateOk (E : Env) (s : St) (cp : CollParam) (c : Cdp) : Prop :=
  ∃ r, calcCR c.coll cp.cf c.prin c.fees E.P.debtCf (s.price cp.spot) = .ok r ∧ cp.liqRatio.m ≤ r.m

theorem withdraw_gate {E : Env} {now : Int} {s s' : St} {owner depositor : Acct} {ty : Nat} {c : Int} {cd : Denom}
    (h : withdraw E now s owner depositor ty c cd = .ok s') :
    ∃ cp id c0 c2, E.P.colls[ty]? = some cp ∧ findCdp s owner ty = some (id, c0) ∧ s'.cdp id = some c2 ∧
      c2.ty = ty ∧ GateOk E s cp c2 ∧ s.status cp.spot = true ∧ s.status cp.liq = true := by
  unfold withdraw at h
  split at h
  · cases h
  split at h
  · cases h
  rename_i cp hv
  split at h
  · cases h
  rename_i id c0 hf
  split at h
  · cases h
  split at h
  · cases h
  split at h
  · cases h
  · cases h
  rename_i s1 c1 hsync
  split at h
  · cases h
  · cases h
  rename_i r hcr
  split at h
  · cases h
  rename_i hge
  split at h
  · cases h
  rename_i s2 hsend
  dsimp only at h
  split at h
  · cases h
  rename_i s3 hupd
  cases h
  obtain ⟨ho, hty0, -⟩ := findCdp_spec hf
  obtain ⟨hcp, hden, hst1, hst2⟩ := validateCollateral_spec hv
  have S := syncInterest_spec ho hsync
  obtain ⟨old, hold, e3⟩ := updateCdpIdx_spec hupd
  subst e3
  refine ⟨cp, id, c0, _, hcp, hf, by dsimp only; rw [upd_same], by dsimp only; rw [S.ty, hty0], ?_, hst1, hst2⟩
  refine ⟨r, ?_, by omega⟩
  dsimp only
  rw [← S.price]; exact hcr

theorem draw_gate {E : Env} {now : Int} {s s' : St} {owner : Acct} {ty : Nat} {p : Int} {pd : Denom}
    (h : draw E now s owner ty p pd = .ok s') :
    ∃ cp id c0 c2, E.P.colls[ty]? = some cp ∧ findCdp s owner ty = some (id, c0) ∧ s'.cdp id = some c2 ∧
      c2.ty = ty ∧ GateOk E s cp c2 ∧ s.status cp.spot = true ∧ s.status cp.liq = true := by
  unfold draw at h
  split at h
  · cases h
  split at h
  · cases h
  rename_i id c0 hf
  split at h
  · cases h
  rename_i cp hv
  split at h
  · cases h
  split at h
  · cases h
  split at h
  · cases h
  split at h
  · cases h
  · cases h
  rename_i s1 c1 hsync
  split at h
  · cases h
  · cases h
  rename_i r hcr
  split at h
  · cases h
  rename_i hge
  dsimp only at h
  split at h
  · cases h
  rename_i s3 hsend
  split at h
  · cases h
  rename_i s6 hupd
  cases h
  obtain ⟨ho, hty0, -⟩ := findCdp_spec hf
  obtain ⟨hcp, -, hst1, hst2⟩ := validateCollateral_spec hv
  rw [hty0] at hcp
  have S := syncInterest_spec ho hsync
  obtain ⟨old, hold, e6⟩ := updateCdpIdx_spec hupd
  subst e6
  refine ⟨cp, id, c0, _, hcp, hf, by dsimp only; rw [upd_same], by dsimp only; rw [S.ty, hty0], ?_, hst1, hst2⟩
  refine ⟨r, ?_, by omega⟩
  dsimp only
  rw [← S.price]; exact hcr

theorem create_gate {E : Env} {now : Int} {s s' : St} {owner : Acct} {ty : Nat} {c : Int} {cd : Denom}
    {p : Int} {pd : Denom} (h : create E now s owner ty c cd p pd = .ok s') :
    ∃ cp c2, E.P.colls[ty]? = some cp ∧ s'.cdp s.nextId = some c2 ∧ c2.ty = ty ∧ c2.owner = owner ∧
      GateOk E s cp c2 ∧ s.status cp.spot = true ∧ s.status cp.liq = true := by
  unfold create at h
  split at h
  · cases h
  split at h
  · cases h
  rename_i cp hv
  split at h
  · cases h
  split at h
  · cases h
  split at h
  · cases h
  split at h
  · cases h
  split at h
  · cases h
  split at h
  · cases h
  split at h
  · cases h
  · cases h
  rename_i r hcr
  split at h
  · cases h
  rename_i hge
  dsimp only at h
  split at h
  · cases h
  split at h
  · cases h
  cases h
  obtain ⟨hcp, hden, hst1, hst2⟩ := validateCollateral_spec hv
  refine ⟨cp, _, hcp, by dsimp only; rw [upd_same], rfl, rfl, ⟨r, hcr, by omega⟩, hst1, hst2⟩

/-- creation, deposit and withdrawal are refused while either market status flag is down -/
theorem feed_gate_validate {E : Env} {s : St} {ty : Nat} {cd : Denom} {cp : CollParam}
    (hcp : E.P.colls[ty]? = some cp) (hdown : s.status cp.spot = false ∨ s.status cp.liq = false) :
    validateCollateral E s ty cd = none := by
  unfold validateCollateral
  rw [hcp]
  dsimp only
  split
  · rfl
  split
  · rfl
  · rcases hdown with h | h
    · simp [h]
    · split
      · rfl
      · simp [h]

theorem create_feed_gate {E : Env} {now : Int} {s : St} {owner : Acct} {ty : Nat} {c : Int} {cd : Denom}
    {p : Int} {pd : Denom} {cp : CollParam} (hcp : E.P.colls[ty]? = some cp)
    (hdown : s.status cp.spot = false ∨ s.status cp.liq = false) :
    create E now s owner ty c cd p pd = .err := by
  unfold create
  split
  · rfl
  · rw [feed_gate_validate hcp hdown]

theorem deposit_feed_gate {E : Env} {now : Int} {s : St} {owner depositor : Acct} {ty : Nat} {c : Int} {cd : Denom}
    {cp : CollParam} (hcp : E.P.colls[ty]? = some cp)
    (hdown : s.status cp.spot = false ∨ s.status cp.liq = false) :
    deposit E now s owner depositor ty c cd = .err := by
  unfold deposit
  split
  · rfl
  · rw [feed_gate_validate hcp hdown]

theorem withdraw_feed_gate {E : Env} {now : Int} {s : St} {owner depositor : Acct} {ty : Nat} {c : Int} {cd : Denom}
    {cp : CollParam} (hcp : E.P.colls[ty]? = some cp)
    (hdown : s.status cp.spot = false ∨ s.status cp.liq = false) :
    withdraw E now s owner depositor ty c cd = .err := by
  unfold withdraw
  split
  · rfl
  · rw [feed_gate_validate hcp hdown]

theorem draw_feed_gate {E : Env} {now : Int} {s : St} {owner : Acct} {ty : Nat} {p : Int} {pd : Denom}
    {cp : CollParam} (hcp : E.P.colls[ty]? = some cp)
    (hdown : s.status cp.spot = false ∨ s.status cp.liq = false) :
    draw E now s owner ty p pd = .err := by
  unfold draw
  split
  · rfl
  · split
    · rfl
    · rename_i id c0 hf
      obtain ⟨-, hty0, -⟩ := findCdp_spec hf
      rw [hty0, feed_gate_validate hcp hdown]

/-- keeper liquidation: the synchronised CDP is below the ratio at the liquidation price, and the whole
    position is gone afterwards -/
theorem liquidate_sound {E : Env} {g : Int} {now : Int} {s s' : St} {keeper owner : Acct} {ty : Nat}
    (hW : WF E) (hI : Inv E g s) (hk : (3 : Nat) ≤ keeper)
    (h : liquidate E now s keeper owner ty = .ok s') :
    ∃ cp id c0 s1 c1 r, E.P.colls[ty]? = some cp ∧ findCdp s owner ty = some (id, c0) ∧
      syncInterest E now s id c0 = .ok (s1, c1) ∧
      calcCR c1.coll cp.cf c1.prin c1.fees E.P.debtCf (s.price cp.liq) = .ok r ∧ r.m < cp.liqRatio.m ∧
      s'.cdp id = none ∧ (∀ a, s'.dep id a = 0) := by
  unfold liquidate at h
  split at h
  · cases h
  split at h
  · cases h
  rename_i id c0 hf
  split at h
  · cases h
  · cases h
  rename_i s1 c1 hsync
  split at h
  · cases h
  rename_i cp hcp
  split at h
  · cases h
  · cases h
  rename_i r hcr
  split at h
  · cases h
  rename_i hlt
  dsimp only at h
  obtain ⟨ho, hty0, -⟩ := findCdp_spec hf
  have S := syncInterest_spec ho hsync
  have hI1 := inv_sync hI ho S
  have ho1 := sync_cdp_id S
  have hcr' : calcCR c1.coll cp.cf c1.prin c1.fees E.P.debtCf (s.price cp.liq) = .ok r := by rw [← S.price]; exact hcr
  have hkeys1 : ∀ a, s1.dep id a ≠ 0 → a ∈ (depositsOf E s1 id).map Prod.fst := by
    intro a hz
    exact List.mem_map.2 ⟨(a, s1.dep id a), (mem_depositsOf _ _ _ _ _).2 ⟨mem_accts_of_dep hI1.coll hz, hz, rfl⟩, rfl⟩
  split at h
  · have SP := seize_spec hW hI1 ho1 (sumDeps_depositsOf E s1 id) hkeys1 h
    exact ⟨cp, id, c0, s1, c1, r, hcp, hf, hsync, hcr', by omega, SP.gone, SP.deps0⟩
  · rename_i a deps' hpay
    split at h
    · cases h
    rename_i s3 hsend
    split at h
    · cases h
    rename_i s4 hupd
    -- the state handed to the seizure satisfies the invariant (see `liquidate_inv`); only the last step matters here
    obtain ⟨hamem, hmap, hsum⟩ := payReward_spec _ _ _ _ hpay
    have haA : a ∈ E.accts := by
      obtain ⟨⟨a', v⟩, hm, e⟩ := List.mem_map.1 hamem
      cases e; exact ((mem_depositsOf _ _ _ _ _).1 hm).1
    obtain ⟨-, hb3, -⟩ := sendB_spec hsend
    obtain ⟨F3, hs3⟩ := sendB_frame hsend
    obtain ⟨old, hold, e4⟩ := updateCdpIdx_spec hupd
    dsimp only at hold F3 hs3 hb3
    rw [F3.cdp, ho1] at hold; cases hold
    have hden1 : denomOf E c1.ty = cp.denom := by rw [S.ty, hty0, denomOf_eq hcp]
    have hcd2 : (2 : Nat) ≤ cp.denom := hW.denoms ty cp hcp
    have hI4 : Inv E g s4 := by
      subst e4
      refine inv_replace (c2 := (⟨c1.owner, c1.ty, c1.coll - rewardOf c1.coll cp.keeperReward, c1.prin, c1.fees, c1.updated, c1.ifac⟩ : Cdp))
        hI1 ho1 (by dsimp only; rw [F3.cdp]) (by dsimp only; rw [F3.idx]) (by dsimp only; rw [F3.own]) rfl ?_ ?_
      · dsimp only
        rw [F3.cdp, F3.dep, F3.nextId]
        have e1 : s1.dep id a - rewardOf c1.coll cp.keeperReward = s1.dep id a + -(rewardOf c1.coll cp.keeperReward) := by omega
        rw [e1]
        refine coll_change hW.nodup haA hI1.coll ho1 rfl (by dsimp only; omega) ?_
        intro d hd2
        rw [hb3 MCDP d, hden1]
        have : ¬ (MCDP = keeper ∧ d = cp.denom) := by
          intro hh; have h0 : (0 : Nat) = keeper := hh.1; omega
        simp only [this, ite_false, true_and]
        by_cases hdc : d = cp.denom
        · subst hdc; simp; omega
        · have : ¬ cp.denom = d := fun e => hdc e.symm
          simp [hdc, this]
      · have := hI1.debt
        unfold DebtOk debtHeld at *
        dsimp only
        rw [hs3, hb3 MCDP DEBT, hb3 MLIQ DEBT, hb3 MAUC DEBT]
        have h1 : ¬ ((1 : Nat) = cp.denom) := by omega
        simp only [DEBT, h1, and_false, ite_false] at *
        omega
    have ho4 : s4.cdp id = some (⟨c1.owner, c1.ty, c1.coll - rewardOf c1.coll cp.keeperReward, c1.prin, c1.fees, c1.updated, c1.ifac⟩ : Cdp) := by
      rw [e4]; dsimp only; rw [upd_same]
    have hdep4 : s4.dep = upd2 s1.dep id a (s1.dep id a - rewardOf c1.coll cp.keeperReward) := by
      rw [e4]; dsimp only; rw [F3.dep]
    have SP := seize_spec hW hI4 ho4 (by
        rw [hsum, sumDeps_depositsOf, hdep4]
        have : upd2 s1.dep id a (s1.dep id a - rewardOf c1.coll cp.keeperReward) id
            = upd (s1.dep id) a (s1.dep id a - rewardOf c1.coll cp.keeperReward) := by
          funext x; simp [upd2, upd]
        rw [this, sumAcc_upd _ _ _ _ hW.nodup haA]; omega) (by
        intro b hb
        rw [hmap]
        by_cases hba : b = a
        · subst hba; exact hamem
        · rw [hdep4, upd2_other _ _ _ _ _ _ (by intro hh; exact hba hh.2)] at hb
          exact hkeys1 b hb) h
    exact ⟨cp, id, c0, s1, c1, r, hcp, hf, hsync, hcr', by omega, SP.gone, SP.deps0⟩

end KV.Cdp
