/-
  Source tie ("tie 1b") for x/committee/types/committee.go: the Lean definitions REGENERATED from the Go source on every run
  (Generated/FnCommittee.lean, tools/extract/fn*.go) equal the hand-written model functions the C17 theorems are
  about.  An edit of a Go function changes the generated definition and its equality proof stops checking.
-/
import KavaVerif.Generated.FnCommittee
import KavaVerif.Model.Committee
import KavaVerif.Proofs.TieFnBase
set_option linter.unusedSimpArgs false

namespace KV.TieFn
open KV KV.Go

/-- `Proposal.HasExpiredBy(now)` = `now ≥ deadline`, the test the model's `vote` and `closeProposal` paths write inline -/
theorem committee_HasExpiredBy (id cid deadline now : Int) :
    GoFn.Committee.HasExpiredBy_translated = true ∧
    GoFn.Committee.HasExpiredBy ⟨id, cid, deadline⟩ now = R.ok (decide (now ≥ deadline)) := by
  refine ⟨rfl, ?_⟩
  simp only [GoFn.Committee.HasExpiredBy]
  tie_norm
  by_cases h : now < deadline
  · have h' : ¬ deadline ≤ now := by omega
    simp [h, h']
  · have h' : deadline ≤ now := by omega
    simp [h, h']

end KV.TieFn
