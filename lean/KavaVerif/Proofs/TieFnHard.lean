/-
  Source tie ("tie 1b") for x/hard/keeper/interest.go: the Lean definitions REGENERATED from the Go source on every run
  (Generated/FnHard.lean, tools/extract/fn*.go) equal the hand-written model functions the C08 theorems are
  about.  An edit of a Go function changes the generated definition and its equality proof stops checking.
  Encoding: `sdk.Dec` = `KV.Dec`; `types.InterestRateModel` = the generated structure of its four Dec fields.
-/
import KavaVerif.Generated.FnHard
import KavaVerif.Model.Hard
import KavaVerif.Proofs.TieFnBase
set_option linter.unusedSimpArgs false

namespace KV.TieFn
open KV KV.Go

/-- closed form of `CalculateUtilizationRatio` (no hand model in Model/Hard.lean: the borrow rate only enters
    the model through the per-second factor `phi`) -/
def hardUtilization (cash borrows reserves : Dec) : Dec :=
  if borrows.m = 0 then Dec.zero
  else if (cash.m + borrows.m - reserves.m) ≤ 0 then Dec.one
  else Dec.min Dec.one (Dec.quo borrows ⟨cash.m + borrows.m - reserves.m⟩)

/-- closed form of `CalculateBorrowRate` -/
def hardBorrowRate (m : GoFn.Hard.InterestRateModel) (cash borrows reserves : Dec) : Dec :=
  let u := hardUtilization cash borrows reserves
  if u.m ≤ m.Kink.m then Dec.add (Dec.mul u m.BaseMultiplier) m.BaseRateAPY
  else Dec.add (Dec.mul (Dec.sub u m.Kink) m.JumpMultiplier) (Dec.add (Dec.mul m.Kink m.BaseMultiplier) m.BaseRateAPY)

theorem hard_CalculateUtilizationRatio (cash borrows reserves : Dec) :
    GoFn.Hard.CalculateUtilizationRatio_translated = true ∧
    GoFn.Hard.CalculateUtilizationRatio cash borrows reserves = R.ok (hardUtilization cash borrows reserves) := by
  refine ⟨rfl, ?_⟩
  obtain ⟨c⟩ := cash; obtain ⟨b⟩ := borrows; obtain ⟨r⟩ := reserves
  simp only [GoFn.Hard.CalculateUtilizationRatio, hardUtilization, Go.decEq, Go.decQuo, Dec.isPositive, Dec.add, Dec.sub,
    Dec.zero]
  tie_norm
  tie_case h1 : b = 0
  by_cases h2 : 0 < c + b - r
  · have h2' : ¬ (c + b - r ≤ 0) := by omega
    have h3 : c + b - r ≠ 0 := by omega
    simp only [h2, h2', h3, if_true, if_false]
    tie_norm
  · have h2' : c + b - r ≤ 0 := by omega
    simp only [h2, h2', if_true, if_false]
    tie_norm

/-- the utilization ratio lies in [0, 1] whenever borrows are non-negative (so `CalculateBorrowRate` is evaluated
    on a utilization the interest-rate model is meant for) -/
theorem hard_utilization_range (cash borrows reserves : Dec) (hb : 0 ≤ borrows.m) :
    0 ≤ (hardUtilization cash borrows reserves).m ∧ (hardUtilization cash borrows reserves).m ≤ P := by
  unfold hardUtilization
  split
  · exact ⟨by decide, by decide⟩
  · split
    · exact ⟨by decide, by decide⟩
    · rename_i h1 h2
      have hT : 0 ≤ cash.m + borrows.m - reserves.m := by omega
      have hq : 0 ≤ (Dec.quo borrows ⟨cash.m + borrows.m - reserves.m⟩).m := by
        show 0 ≤ chopRound (tquo (borrows.m * P * P) (cash.m + borrows.m - reserves.m))
        apply chopRound_nonneg
        have hn : 0 ≤ borrows.m * P * P :=
          Int.mul_nonneg (Int.mul_nonneg hb (by decide)) (by decide)
        rw [tquo_nonneg_eq _ _ hn hT]
        exact Int.ediv_nonneg hn hT
      unfold Dec.min
      split
      · exact ⟨by decide, by decide⟩
      · rename_i h3
        have : ¬ P < (Dec.quo borrows ⟨cash.m + borrows.m - reserves.m⟩).m := h3
        exact ⟨hq, by omega⟩

theorem hard_CalculateBorrowRate (m : GoFn.Hard.InterestRateModel) (cash borrows reserves : Dec) :
    GoFn.Hard.CalculateBorrowRate_translated = true ∧
    GoFn.Hard.CalculateBorrowRate m cash borrows reserves = R.ok (hardBorrowRate m cash borrows reserves) := by
  refine ⟨rfl, ?_⟩
  simp only [GoFn.Hard.CalculateBorrowRate, (hard_CalculateUtilizationRatio cash borrows reserves).2, hardBorrowRate, Dec.le]
  tie_norm
  split <;> rfl

/-- `CalculateSupplyInterestFactor` on the integer-valued arguments `AccrueInterest` passes (`sdk.NewDecFromInt` of
    the new supply interest, cash, borrowed and reserve amounts) = the model's `Hard.supplyFactor` -/
theorem hard_CalculateSupplyInterestFactor (newInterest cash borrows reserves : Int) :
    GoFn.Hard.CalculateSupplyInterestFactor_translated = true ∧
    GoFn.Hard.CalculateSupplyInterestFactor (Dec.ofInt newInterest) (Dec.ofInt cash) (Dec.ofInt borrows) (Dec.ofInt reserves)
      = R.ok (KV.Hard.supplyFactor newInterest cash borrows reserves) := by
  refine ⟨rfl, ?_⟩
  simp only [GoFn.Hard.CalculateSupplyInterestFactor, KV.Hard.supplyFactor, Go.decQuo, Dec.isPositive, Dec.add, Dec.sub,
    Dec.ofInt]
  tie_norm
  by_cases h2 : 0 < cash * P + borrows * P - reserves * P
  · have h2' : ¬ (cash * P + borrows * P - reserves * P ≤ 0) := by omega
    have h3 : cash * P + borrows * P - reserves * P ≠ 0 := by omega
    simp only [h2, h2', h3, if_true, if_false]
    tie_norm
  · have h2' : cash * P + borrows * P - reserves * P ≤ 0 := by omega
    simp only [h2, h2', if_true, if_false]
    tie_norm

end KV.TieFn
