/-
  Helper lemmas for C07 (x/swap): integer square root, the Dec compositions used by the swap fee,
  the constant-product and share-ratio inequalities of BasePool.  Property statements are in
  KavaVerif/Props/C07.lean.  Core Lean only.
-/
import KavaVerif.Model.Swap
set_option linter.unusedSimpArgs false
set_option linter.unusedVariables false
namespace KV.SW

theorem P_val : P = 1000000000000000000 := by decide
theorem P_pos : 0 < P := by decide
/-! ### integer square root -/
theorem isqrtAux_spec (fuel : Nat) : ∀ n, n ≤ fuel →
    isqrtAux fuel n * isqrtAux fuel n ≤ n ∧ n < (isqrtAux fuel n + 1) * (isqrtAux fuel n + 1) := by
  induction fuel with
  | zero => intro n h; have : n = 0 := by omega
            subst this; simp [isqrtAux]
  | succ k ih =>
    intro n h
    unfold isqrtAux
    by_cases h2 : n < 2
    · simp only [h2, ite_true]
      have : n = 0 ∨ n = 1 := by omega
      rcases this with rfl | rfl <;> simp
    · simp only [h2, ite_false]
      have hq : n / 4 ≤ k := by omega
      obtain ⟨i1, i2⟩ := ih (n / 4) hq
      generalize isqrtAux k (n / 4) = s at *
      have e1 : (2 * s + 1) * (2 * s + 1) = 4 * (s * s) + 4 * s + 1 := by grind
      have e2 : (2 * s) * (2 * s) = 4 * (s * s) := by grind
      have e3 : (2 * s + 1 + 1) * (2 * s + 1 + 1) = 4 * ((s + 1) * (s + 1)) := by grind
      have e4 : (s + 1) * (s + 1) = s * s + 2 * s + 1 := by grind
      by_cases h3 : (2 * s + 1) * (2 * s + 1) ≤ n
      · rw [if_pos h3]
        refine ⟨h3, ?_⟩
        rw [e3]; omega
      · rw [if_neg h3]
        refine ⟨by rw [e2]; omega, by omega⟩

theorem isqrt_spec (n : Nat) : isqrt n * isqrt n ≤ n ∧ n < (isqrt n + 1) * (isqrt n + 1) :=
  isqrtAux_spec n n (Nat.le_refl n)
/-- `NewDecFromInt(x).Mul(1 - fee).TruncateInt()` is ⌊x·(1−fee)⌋ -/
theorem inAfterFee_eq (x f : Int) (hx : 0 ≤ x) (hf : f ≤ P) :
    (Dec.mul (Dec.ofInt x) (Dec.sub Dec.one ⟨f⟩)).truncateInt = x * (P - f) / P := by
  unfold Dec.mul Dec.ofInt Dec.sub Dec.one Dec.truncateInt
  simp only []
  have e : x * P * (P - f) = (x * (P - f)) * P := by grind
  rw [e, chopRound_mul_P]
  have h0 : 0 ≤ x * (P - f) := Int.mul_nonneg hx (by omega)
  exact chopTrunc_nonneg_eq _ h0

theorem tquo_eq (a b : Int) (ha : 0 ≤ a) (hb : 0 ≤ b) : tquo a b = a / b := tquo_nonneg_eq a b ha hb

/-- `TruncateInt(Ceil(d))` for a non-negative mantissa -/
theorem ceil_trunc (m : Int) (hm : 0 ≤ m) :
    (Dec.ceil ⟨m⟩).truncateInt = if m % P = 0 then m / P else m / P + 1 := by
  unfold Dec.ceil Dec.truncateInt Dec.ofInt
  simp only []
  rw [tquo_eq m P hm (by decide)]
  have hq : 0 ≤ m / P := Int.ediv_nonneg hm (by decide)
  have hr : m - m / P * P = m % P := by
    have := Int.emod_def m P; rw [Int.mul_comm] ; omega
  rw [hr]
  have hr0 : 0 ≤ m % P := Int.emod_nonneg m (by decide)
  by_cases h0 : m % P = 0
  · simp only [h0, Int.le_refl, ite_true]
    unfold chopTrunc; rw [tquo_eq _ _ (Int.mul_nonneg hq (by decide)) (by decide)]
    exact Int.mul_ediv_cancel _ (by decide)
  · have : ¬ m % P ≤ 0 := by omega
    simp only [this, h0, ite_false]
    unfold chopTrunc; rw [tquo_eq _ _ (Int.mul_nonneg (by omega) (by decide)) (by decide)]
    exact Int.mul_ediv_cancel _ (by decide)

/-- `NewDecFromInt(w).Quo(1 - fee).Ceil().TruncateInt()` is at least w/(1−fee): the banker's
    rounding inside `Quo` never loses the ceiling. -/
theorem ceilQuo_ge (w g : Int) (hw : 0 ≤ w) (hg : 0 < g) (hgP : g ≤ P) :
    w * P ≤ ((Dec.quo (Dec.ofInt w) ⟨g⟩).ceil).truncateInt * g := by
  unfold Dec.quo Dec.ofInt
  simp only []
  have hnum : 0 ≤ w * P * P * P :=
    Int.mul_nonneg (Int.mul_nonneg (Int.mul_nonneg hw (by decide)) (by decide)) (by decide)
  rw [tquo_eq _ _ hnum (by omega)]
  generalize hq0 : w * P * P * P / g = q0
  have hq0n : 0 ≤ q0 := by rw [← hq0]; exact Int.ediv_nonneg hnum (by omega)
  -- q0·g > w·P³ − g
  have hlt : w * P * P * P < (q0 + 1) * g := by
    rw [← hq0]; exact Int.lt_ediv_add_one_mul_self _ hg
  have hcr : chopRound q0 = chopRoundNonneg q0 := by
    unfold chopRound; simp only [show ¬ q0 < 0 by omega, ite_false]
  rw [hcr]
  obtain ⟨-, hb⟩ := chopRoundNonneg_bound q0 hq0n
  have hmn : 0 ≤ chopRoundNonneg q0 := chopRoundNonneg_nonneg q0 hq0n
  generalize chopRoundNonneg q0 = m at *
  rw [ceil_trunc m hmn]
  generalize hi : (if m % P = 0 then m / P else m / P + 1) = i
  -- m ≤ i·P
  have hmi : m ≤ i * P := by
    have := Int.emod_def m P
    have h1 := Int.emod_lt_of_pos m P_pos
    have h2 := Int.emod_nonneg m (show P ≠ 0 by decide)
    rw [← hi]; split <;> simp only [P_val] at * <;> omega
  -- contradiction argument with products by g as atoms
  by_cases hc : w * P ≤ i * g
  · exact hc
  · exfalso
    have hc' : i * g + 1 ≤ w * P := by omega
    have k1 : m * g ≤ (i * P) * g := Int.mul_le_mul_of_nonneg_right hmi (by omega)
    have k2 : (2 * (q0 - m * P)) * g ≤ P * g := Int.mul_le_mul_of_nonneg_right hb (by omega)
    have e1 : (i * P) * g = P * (i * g) := by grind
    have e2 : (2 * (q0 - m * P)) * g = 2 * (q0 * g) - 2 * (P * (m * g)) := by grind
    have e3 : (q0 + 1) * g = q0 * g + g := by grind
    rw [e1] at k1; rw [e2] at k2; rw [e3] at hlt
    clear hq0 hcr hi hb hmi hnum e1 e2 e3
    simp only [P_val] at *
    omega

theorem pquo_some (x d q : Int) (h : pquo x d = some q) : d ≠ 0 ∧ q = tquo x d := by
  unfold pquo at h
  split at h
  · cases h
  · rename_i hd; cases h; exact ⟨hd, rfl⟩

/-- `calculateOutputForExactInput`: what a successful call guarantees -/
theorem outputForExactInput_spec (x inR outR : Int) (fee : Dec) (out fv : Int)
    (hin : 0 < inR) (hout : 0 < outR)
    (h : outputForExactInput x inR outR fee = some (out, fv)) :
    0 < x ∧ 0 ≤ fee.m ∧ fee.m < P ∧ 0 ≤ fv ∧ fv ≤ x ∧ x * fee.m ≤ fv * P ∧ 0 ≤ out ∧ out < outR ∧
    inR * outR ≤ (inR + x - fv) * (outR - out) := by
  unfold outputForExactInput at h
  split at h
  · cases h
  rename_i hx
  split at h
  · cases h
  rename_i hf
  have hx0 : 0 < x := by omega
  have hf0 : 0 ≤ fee.m := by omega
  have hf1 : fee.m < P := by omega
  have hfe : (Dec.sub Dec.one fee) = ⟨P - fee.m⟩ := rfl
  simp only [hfe] at h
  have hy' : ((Dec.ofInt x).mul { m := P - fee.m }).truncateInt = x * (P - fee.m) / P :=
    inAfterFee_eq x fee.m (by omega) (by omega)
  rw [hy'] at h
  generalize hy : x * (P - fee.m) / P = y at h
  have hnum : 0 ≤ x * (P - fee.m) := Int.mul_nonneg (by omega) (by omega)
  have hy0 : 0 ≤ y := by rw [← hy]; exact Int.ediv_nonneg hnum (by decide)
  have hyP : y * P ≤ x * (P - fee.m) := by rw [← hy]; exact Int.ediv_mul_le _ (by decide)
  have exf : x * (P - fee.m) = x * P - x * fee.m := by grind
  have hxf0 : 0 ≤ x * fee.m := Int.mul_nonneg (by omega) hf0
  split at h
  · cases h
  rename_i q hq
  obtain ⟨hd, rfl⟩ := pquo_some _ _ _ hq
  cases h
  have hprod : 0 ≤ outR * y := Int.mul_nonneg (by omega) hy0
  rw [tquo_eq _ _ hprod (by omega)]
  generalize hq' : outR * y / (inR + y) = q
  have hq0 : 0 ≤ q := by rw [← hq']; exact Int.ediv_nonneg hprod (by omega)
  have hqm : q * (inR + y) ≤ outR * y := by rw [← hq']; exact Int.ediv_mul_le _ (by omega)
  have hlt : outR * y < outR * (inR + y) := Int.mul_lt_mul_of_pos_left (by omega) hout
  have hq_lt : q < outR := by
    have : q * (inR + y) < outR * (inR + y) := by omega
    exact Int.lt_of_mul_lt_mul_right this (by omega)
  refine ⟨hx0, hf0, hf1, ?_, ?_, ?_, hq0, hq_lt, ?_⟩
  · rw [exf] at hyP; simp only [P_val] at *; omega
  · omega
  · rw [exf] at hyP
    have : (x - y) * P = x * P - y * P := by grind
    rw [this]; omega
  · have e : inR + x - (x - y) = inR + y := by omega
    rw [e]
    grind

/-- `calculateInputForExactOutput`: what a successful call guarantees -/
theorem inputForExactOutput_spec (out outR inR : Int) (fee : Dec) (inp fv : Int)
    (hin : 0 < inR) (hout : 0 < outR)
    (h : inputForExactOutput out outR inR fee = some (inp, fv)) :
    0 < out ∧ out < outR ∧ 0 ≤ fee.m ∧ fee.m < P ∧ 0 ≤ fv ∧ fv < inp ∧ inp * fee.m ≤ fv * P ∧
    inR * outR ≤ (inR + inp - fv) * (outR - out) := by
  unfold inputForExactOutput at h
  split at h
  · cases h
  rename_i ho
  split at h
  · cases h
  rename_i ho2
  split at h
  · cases h
  rename_i hf
  have ho0 : 0 < out := by omega
  have hN : 0 < outR - out := by omega
  have hf0 : 0 ≤ fee.m := by omega
  have hf1 : fee.m < P := by omega
  have hfe : (Dec.sub Dec.one fee) = ⟨P - fee.m⟩ := rfl
  simp only [hfe] at h
  have hnum : 0 < inR * out := Int.mul_pos hin ho0
  rw [tquo_eq _ _ (by omega) (by omega)] at h
  generalize hq : inR * out / (outR - out) = q at h
  have hq0 : 0 ≤ q := by rw [← hq]; exact Int.ediv_nonneg (by omega) (by omega)
  have hq1 : q * (outR - out) ≤ inR * out := by rw [← hq]; exact Int.ediv_mul_le _ (by omega)
  have hq2 : inR * out < (q + 1) * (outR - out) := by rw [← hq]; exact Int.lt_ediv_add_one_mul_self _ hN
  have e1 : (q + 1) * (outR - out) = q * (outR - out) + (outR - out) := by grind
  generalize hw : (if inR * out - q * (outR - out) ≠ 0 then q + 1 else q) = w at h
  have hwN : inR * out ≤ w * (outR - out) := by
    rw [← hw]; split
    · omega
    · rename_i hr; omega
  have hw0 : 0 < w := by
    rw [← hw]; split
    · omega
    · rename_i hr
      have : q * (outR - out) = inR * out := by omega
      by_cases hqz : q = 0
      · rw [hqz] at this; omega
      · omega
  cases h
  have hge := ceilQuo_ge w (P - fee.m) (by omega) (by omega) (by omega)
  generalize ((Dec.quo (Dec.ofInt w) ⟨P - fee.m⟩).ceil).truncateInt = i at *
  have e2 : i * (P - fee.m) = i * P - i * fee.m := by grind
  -- i ≥ w
  have hiw : w ≤ i := by
    have h1 : w * (P - fee.m) ≤ w * P := Int.mul_le_mul_of_nonneg_left (by omega) (by omega)
    have : w * (P - fee.m) ≤ i * (P - fee.m) := by omega
    exact Int.le_of_mul_le_mul_right this (by omega)
  refine ⟨ho0, by omega, hf0, hf1, by omega, by omega, ?_, ?_⟩
  · have : (i - w) * P = i * P - w * P := by grind
    rw [this]; omega
  · have e : inR + i - (i - w) = inR + w := by omega
    rw [e]
    grind

/-- What one successful swap guarantees, in terms of the reserves of the token paid in (`rin`) and
    of the token paid out (`rout`), before and after; `inp` includes the fee `fv`; `f` is the fee
    rate's mantissa (rate = f / 10^18). -/
structure SwapSpec (rin rout rin' rout' inp out fv f : Int) : Prop where
  in_added : rin' = rin + inp
  out_taken : rout' = rout - out
  inp_pos : 0 < inp
  out_nonneg : 0 ≤ out
  out_left : 0 < rout'
  fee_nonneg : 0 ≤ fv
  fee_le : fv ≤ inp
  fee_rate : inp * f ≤ fv * P
  product_fee : rin * rout ≤ (rin' - fv) * rout'
  product : rin * rout ≤ rin' * rout'

theorem SwapSpec.mk' (rin rout inp out fv f : Int) (h1 : 0 < inp) (h2 : 0 ≤ out) (h3 : out < rout)
    (h4 : 0 ≤ fv) (h5 : fv ≤ inp) (h6 : inp * f ≤ fv * P)
    (h7 : rin * rout ≤ (rin + inp - fv) * (rout - out)) :
    SwapSpec rin rout (rin + inp) (rout - out) inp out fv f := by
  refine ⟨rfl, rfl, h1, h2, by omega, h4, h5, h6, h7, ?_⟩
  have : (rin + inp - fv) * (rout - out) ≤ (rin + inp) * (rout - out) :=
    Int.mul_le_mul_of_nonneg_right (by omega) (by omega)
  omega

theorem assertInvariant_some (p : Pool) (newA feeA newB feeB : Int) (p' : Pool)
    (h : assertInvariantAndUpdate p newA feeA newB feeB = some p') :
    p' = { p with a := newA, b := newB } ∧ p.a * p.b ≤ (newA - feeA) * (newB - feeB) := by
  unfold assertInvariantAndUpdate at h
  split at h
  · cases h
  · rename_i hc; cases h; exact ⟨rfl, by omega⟩

theorem assertInvariant_of_le (p : Pool) (newA feeA newB feeB : Int)
    (h : p.a * p.b ≤ (newA - feeA) * (newB - feeB)) :
    assertInvariantAndUpdate p newA feeA newB feeB = some { p with a := newA, b := newB } := by
  unfold assertInvariantAndUpdate
  rw [if_neg (by omega)]

theorem swapExactAForB_spec (p p' : Pool) (x : Int) (fee : Dec) (out fv : Int)
    (ha : 0 < p.a) (hb : 0 < p.b) (h : swapExactAForB p x fee = some (p', out, fv)) :
    SwapSpec p.a p.b p'.a p'.b x out fv fee.m ∧ p'.s = p.s := by
  unfold swapExactAForB at h
  split at h
  · cases h
  rename_i b fv' hc
  split at h
  · cases h
  rename_i q hq
  cases h
  obtain ⟨rfl, -⟩ := assertInvariant_some _ _ _ _ _ _ hq
  obtain ⟨h1, -, -, h4, h5, h6, h7, h8, h9⟩ := outputForExactInput_spec _ _ _ _ _ _ ha hb hc
  exact ⟨SwapSpec.mk' _ _ _ _ _ _ h1 h7 h8 h4 h5 h6 h9, rfl⟩

theorem swapExactBForA_spec (p p' : Pool) (x : Int) (fee : Dec) (out fv : Int)
    (ha : 0 < p.a) (hb : 0 < p.b) (h : swapExactBForA p x fee = some (p', out, fv)) :
    SwapSpec p.b p.a p'.b p'.a x out fv fee.m ∧ p'.s = p.s := by
  unfold swapExactBForA at h
  split at h
  · cases h
  rename_i b fv' hc
  split at h
  · cases h
  rename_i q hq
  cases h
  obtain ⟨rfl, -⟩ := assertInvariant_some _ _ _ _ _ _ hq
  obtain ⟨h1, -, -, h4, h5, h6, h7, h8, h9⟩ := outputForExactInput_spec _ _ _ _ _ _ hb ha hc
  exact ⟨SwapSpec.mk' _ _ _ _ _ _ h1 h7 h8 h4 h5 h6 h9, rfl⟩

theorem swapAForExactB_spec (p p' : Pool) (y : Int) (fee : Dec) (inp fv : Int)
    (ha : 0 < p.a) (hb : 0 < p.b) (h : swapAForExactB p y fee = some (p', inp, fv)) :
    SwapSpec p.a p.b p'.a p'.b inp y fv fee.m ∧ p'.s = p.s := by
  unfold swapAForExactB at h
  split at h
  · cases h
  rename_i b fv' hc
  split at h
  · cases h
  rename_i q hq
  cases h
  obtain ⟨rfl, -⟩ := assertInvariant_some _ _ _ _ _ _ hq
  obtain ⟨h1, h2, -, -, h4, h5, h6, h9⟩ := inputForExactOutput_spec _ _ _ _ _ _ ha hb hc
  exact ⟨SwapSpec.mk' _ _ _ _ _ _ (by omega) (by omega) h2 h4 (by omega) h6 h9, rfl⟩

theorem swapBForExactA_spec (p p' : Pool) (y : Int) (fee : Dec) (inp fv : Int)
    (ha : 0 < p.a) (hb : 0 < p.b) (h : swapBForExactA p y fee = some (p', inp, fv)) :
    SwapSpec p.b p.a p'.b p'.a inp y fv fee.m ∧ p'.s = p.s := by
  unfold swapBForExactA at h
  split at h
  · cases h
  rename_i b fv' hc
  split at h
  · cases h
  rename_i q hq
  cases h
  obtain ⟨rfl, -⟩ := assertInvariant_some _ _ _ _ _ _ hq
  obtain ⟨h1, h2, -, -, h4, h5, h6, h9⟩ := inputForExactOutput_spec _ _ _ _ _ _ hb ha hc
  exact ⟨SwapSpec.mk' _ _ _ _ _ _ (by omega) (by omega) h2 h4 (by omega) h6 h9, rfl⟩

/-! totality: with valid inputs the calculation succeeds and the invariant assertion cannot fire -/

theorem outputForExactInput_total (x inR outR : Int) (fee : Dec) (hin : 0 < inR)
    (hx : 0 < x) (hf0 : 0 ≤ fee.m) (hf1 : fee.m < P) :
    ∃ r, outputForExactInput x inR outR fee = some r := by
  unfold outputForExactInput
  rw [if_neg (by omega), if_neg (by omega)]
  have hfe : (Dec.sub Dec.one fee) = ⟨P - fee.m⟩ := rfl
  simp only [hfe]
  have hy' : ((Dec.ofInt x).mul { m := P - fee.m }).truncateInt = x * (P - fee.m) / P :=
    inAfterFee_eq x fee.m (by omega) (by omega)
  rw [hy']
  have hy0 : 0 ≤ x * (P - fee.m) / P :=
    Int.ediv_nonneg (Int.mul_nonneg (by omega) (by omega)) (by decide)
  unfold pquo
  rw [if_neg (by omega)]
  exact ⟨_, rfl⟩

theorem inputForExactOutput_total (out outR inR : Int) (fee : Dec)
    (ho : 0 < out) (ho2 : out < outR) (hf0 : 0 ≤ fee.m) (hf1 : fee.m < P) :
    ∃ r, inputForExactOutput out outR inR fee = some r := by
  unfold inputForExactOutput
  rw [if_neg (by omega), if_neg (by omega), if_neg (by omega)]
  exact ⟨_, rfl⟩

theorem swapExactAForB_total (p : Pool) (x : Int) (fee : Dec) (ha : 0 < p.a) (hb : 0 < p.b)
    (hx : 0 < x) (hf0 : 0 ≤ fee.m) (hf1 : fee.m < P) : ∃ r, swapExactAForB p x fee = some r := by
  obtain ⟨⟨b, fv⟩, hc⟩ := outputForExactInput_total x p.a p.b fee ha hx hf0 hf1
  obtain ⟨-, -, -, -, -, -, -, -, h9⟩ := outputForExactInput_spec _ _ _ _ _ _ ha hb hc
  unfold swapExactAForB
  rw [hc]; simp only []
  rw [assertInvariant_of_le _ _ _ _ _ (by simpa using h9)]
  exact ⟨_, rfl⟩

theorem swapExactBForA_total (p : Pool) (x : Int) (fee : Dec) (ha : 0 < p.a) (hb : 0 < p.b)
    (hx : 0 < x) (hf0 : 0 ≤ fee.m) (hf1 : fee.m < P) : ∃ r, swapExactBForA p x fee = some r := by
  obtain ⟨⟨b, fv⟩, hc⟩ := outputForExactInput_total x p.b p.a fee hb hx hf0 hf1
  obtain ⟨-, -, -, -, -, -, -, -, h9⟩ := outputForExactInput_spec _ _ _ _ _ _ hb ha hc
  unfold swapExactBForA
  rw [hc]; simp only []
  have h9' : p.a * p.b ≤ (p.a - b - 0) * (p.b + x - fv) := by
    rw [Int.sub_zero, Int.mul_comm p.a p.b, Int.mul_comm (p.a - b)]; exact h9
  rw [assertInvariant_of_le _ _ _ _ _ h9']
  exact ⟨_, rfl⟩

theorem swapAForExactB_total (p : Pool) (y : Int) (fee : Dec) (ha : 0 < p.a) (hb : 0 < p.b)
    (hy : 0 < y) (hy2 : y < p.b) (hf0 : 0 ≤ fee.m) (hf1 : fee.m < P) :
    ∃ r, swapAForExactB p y fee = some r := by
  obtain ⟨⟨a, fv⟩, hc⟩ := inputForExactOutput_total y p.b p.a fee hy hy2 hf0 hf1
  obtain ⟨-, -, -, -, -, -, -, h9⟩ := inputForExactOutput_spec _ _ _ _ _ _ ha hb hc
  unfold swapAForExactB
  rw [hc]; simp only []
  rw [assertInvariant_of_le _ _ _ _ _ (by simpa using h9)]
  exact ⟨_, rfl⟩

theorem swapBForExactA_total (p : Pool) (y : Int) (fee : Dec) (ha : 0 < p.a) (hb : 0 < p.b)
    (hy : 0 < y) (hy2 : y < p.a) (hf0 : 0 ≤ fee.m) (hf1 : fee.m < P) :
    ∃ r, swapBForExactA p y fee = some r := by
  obtain ⟨⟨b, fv⟩, hc⟩ := inputForExactOutput_total y p.a p.b fee hy hy2 hf0 hf1
  obtain ⟨-, -, -, -, -, -, -, h9⟩ := inputForExactOutput_spec _ _ _ _ _ _ hb ha hc
  unfold swapBForExactA
  rw [hc]; simp only []
  have h9' : p.a * p.b ≤ (p.a - y - 0) * (p.b + b - fv) := by
    rw [Int.sub_zero, Int.mul_comm p.a p.b, Int.mul_comm (p.a - y)]; exact h9
  rw [assertInvariant_of_le _ _ _ _ _ h9']
  exact ⟨_, rfl⟩

theorem initialShares_nonneg (a b : Int) : 0 ≤ initialShares a b := by
  unfold initialShares; exact Int.natCast_nonneg _

/-- `AddLiquidity` on a non-empty valid pool: what a successful call guarantees -/
theorem addLiquidity_spec (p p' : Pool) (da db actA actB sh : Int)
    (ha : 0 < p.a) (hb : 0 < p.b) (hs : 0 ≤ p.s)
    (h : addLiquidity p da db = some (p', actA, actB, sh)) :
    p'.a = p.a + actA ∧ p'.b = p.b + actB ∧ p'.s = p.s + sh ∧
    0 < da ∧ 0 < db ∧ 0 ≤ actA ∧ actA ≤ da ∧ 0 ≤ actB ∧ actB ≤ db ∧ 0 ≤ sh ∧
    sh * p.a ≤ actA * p.s ∧ sh * p.b ≤ actB * p.s := by
  unfold addLiquidity at h
  split at h
  · cases h
  rename_i hda
  split at h
  · cases h
  rename_i hdb
  split at h
  · rename_i he; omega
  have hda0 : 0 < da := by omega
  have hdb0 : 0 < db := by omega
  have hpa : 0 ≤ p.b * da := Int.mul_nonneg (by omega) (by omega)
  have hpb : 0 ≤ p.a * db := Int.mul_nonneg (by omega) (by omega)
  simp only [] at h
  -- the two deposit amounts
  generalize hA : (if p.b * da ≤ p.a * db then da else tquo (p.a * db) p.b) = xA at h
  generalize hB : (if p.b * da ≤ p.a * db then tquo (p.b * da) p.a else db) = xB at h
  have hxA : 0 ≤ xA ∧ xA ≤ da := by
    rw [← hA]; split
    · omega
    · rename_i hc
      rw [tquo_eq _ _ hpb (by omega)]
      have h1 := Int.ediv_mul_le (p.a * db) (show p.b ≠ 0 by omega)
      have h2 : 0 ≤ p.a * db / p.b := Int.ediv_nonneg hpb (by omega)
      refine ⟨h2, ?_⟩
      have : p.a * db / p.b * p.b < da * p.b := by rw [Int.mul_comm da]; omega
      have := Int.lt_of_mul_lt_mul_right this (by omega)
      omega
  have hxB : 0 ≤ xB ∧ xB ≤ db := by
    rw [← hB]; split
    · rename_i hc
      rw [tquo_eq _ _ hpa (by omega)]
      have h1 := Int.ediv_mul_le (p.b * da) (show p.a ≠ 0 by omega)
      have h2 : 0 ≤ p.b * da / p.a := Int.ediv_nonneg hpa (by omega)
      refine ⟨h2, ?_⟩
      have : p.b * da / p.a * p.a ≤ db * p.a := by rw [Int.mul_comm db]; omega
      exact Int.le_of_mul_le_mul_right this (by omega)
    · omega
  have hnA : 0 ≤ xA * p.s := Int.mul_nonneg hxA.1 hs
  have hnB : 0 ≤ xB * p.s := Int.mul_nonneg hxB.1 hs
  rw [tquo_eq _ _ hnA (by omega), tquo_eq _ _ hnB (by omega)] at h
  have hsA := Int.ediv_mul_le (xA * p.s) (show p.a ≠ 0 by omega)
  have hsB := Int.ediv_mul_le (xB * p.s) (show p.b ≠ 0 by omega)
  have hsA0 : 0 ≤ xA * p.s / p.a := Int.ediv_nonneg hnA (by omega)
  have hsB0 : 0 ≤ xB * p.s / p.b := Int.ediv_nonneg hnB (by omega)
  generalize xA * p.s / p.a = sA at *
  generalize xB * p.s / p.b = sB at *
  cases h
  refine ⟨rfl, rfl, rfl, hda0, hdb0, hxA.1, hxA.2, hxB.1, hxB.2, ?_, ?_, ?_⟩
  · split <;> omega
  · split
    · exact hsA
    · rename_i hc
      have : sB * p.a ≤ sA * p.a := Int.mul_le_mul_of_nonneg_right (by omega) (by omega)
      omega
  · split
    · rename_i hc
      have : sA * p.b ≤ sB * p.b := Int.mul_le_mul_of_nonneg_right hc (by omega)
      omega
    · exact hsB

/-- `AddLiquidity` on the empty pool -/
theorem addLiquidity_empty (da db : Int) (s : Int) (hda : 0 < da) (hdb : 0 < db) :
    addLiquidity ⟨0, 0, s⟩ da db =
      some (⟨da, db, initialShares da db⟩, da, db, initialShares da db) := by
  unfold addLiquidity
  rw [if_neg (by omega), if_neg (by omega)]
  simp

/-- reserves per share never decrease on a deposit (cross-multiplied) -/
theorem addLiquidity_monotone (p p' : Pool) (da db actA actB sh : Int)
    (ha : 0 < p.a) (hb : 0 < p.b) (hs : 0 ≤ p.s)
    (h : addLiquidity p da db = some (p', actA, actB, sh)) :
    p.a * p'.s ≤ p'.a * p.s ∧ p.b * p'.s ≤ p'.b * p.s := by
  obtain ⟨e1, e2, e3, -, -, -, -, -, -, -, h1, h2⟩ := addLiquidity_spec p p' da db actA actB sh ha hb hs h
  rw [e1, e2, e3]
  constructor <;> grind

/-- `RemoveLiquidity`: what a successful call guarantees -/
theorem removeLiquidity_spec (p p' : Pool) (sh wa wb : Int)
    (ha : 0 ≤ p.a) (hb : 0 ≤ p.b)
    (h : removeLiquidity p sh = some (p', wa, wb)) :
    p'.a = p.a - wa ∧ p'.b = p.b - wb ∧ p'.s = p.s - sh ∧ 0 < sh ∧ sh ≤ p.s ∧
    0 ≤ wa ∧ wa ≤ p.a ∧ 0 ≤ wb ∧ wb ≤ p.b ∧ wa * p.s ≤ p.a * sh ∧ wb * p.s ≤ p.b * sh ∧
    wa = p.a * sh / p.s ∧ wb = p.b * sh / p.s := by
  unfold removeLiquidity shareValue at h
  split at h
  · cases h
  rename_i wa' wb' hv
  split at hv
  · cases hv
  rename_i h1
  split at hv
  · cases hv
  rename_i h2
  cases hv
  simp only [] at h
  split at h
  · cases h
  rename_i h3
  split at h
  · cases h
  rename_i h4
  cases h
  have hsh : 0 < sh := by omega
  have hps : 0 < p.s := by omega
  have hna : 0 ≤ p.a * sh := Int.mul_nonneg ha (by omega)
  have hnb : 0 ≤ p.b * sh := Int.mul_nonneg hb (by omega)
  rw [tquo_eq _ _ hna (by omega), tquo_eq _ _ hnb (by omega)] at *
  exact ⟨rfl, rfl, rfl, hsh, by omega, Int.ediv_nonneg hna (by omega), by omega,
    Int.ediv_nonneg hnb (by omega), by omega, Int.ediv_mul_le _ (by omega), Int.ediv_mul_le _ (by omega), rfl, rfl⟩

/-- reserves per share never decrease on a withdrawal (cross-multiplied) -/
theorem removeLiquidity_monotone (p p' : Pool) (sh wa wb : Int) (ha : 0 ≤ p.a) (hb : 0 ≤ p.b)
    (h : removeLiquidity p sh = some (p', wa, wb)) :
    p.a * p'.s ≤ p'.a * p.s ∧ p.b * p'.s ≤ p'.b * p.s := by
  obtain ⟨e1, e2, e3, -, -, -, -, -, -, h1, h2, -, -⟩ := removeLiquidity_spec p p' sh wa wb ha hb h
  rw [e1, e2, e3]
  constructor <;> grind

/-- removing every share returns every reserve -/
theorem removeLiquidity_all (p p' : Pool) (wa wb : Int) (ha : 0 ≤ p.a) (hb : 0 ≤ p.b)
    (h : removeLiquidity p p.s = some (p', wa, wb)) : wa = p.a ∧ wb = p.b ∧ p' = ⟨0, 0, 0⟩ := by
  obtain ⟨e1, e2, e3, h0, -, -, -, -, -, -, -, ea, eb⟩ := removeLiquidity_spec p p' p.s wa wb ha hb h
  have h1 : wa = p.a := by rw [ea]; exact Int.mul_ediv_cancel _ (by omega)
  have h2 : wb = p.b := by rw [eb]; exact Int.mul_ediv_cancel _ (by omega)
  refine ⟨h1, h2, ?_⟩
  cases p'; simp only [Pool.mk.injEq] at *; omega

/-- a partial withdrawal leaves both reserves positive -/
theorem removeLiquidity_partial_pos (p p' : Pool) (sh wa wb : Int) (ha : 0 < p.a) (hb : 0 < p.b)
    (hlt : sh < p.s) (h : removeLiquidity p sh = some (p', wa, wb)) : 0 < p'.a ∧ 0 < p'.b := by
  obtain ⟨e1, e2, e3, h0, -, -, -, -, -, h1, h2, -, -⟩ := removeLiquidity_spec p p' sh wa wb (by omega) (by omega) h
  have k1 : p.a * sh < p.a * p.s := Int.mul_lt_mul_of_pos_left hlt ha
  have k2 : p.b * sh < p.b * p.s := Int.mul_lt_mul_of_pos_left hlt hb
  have l1 : wa < p.a := by
    have : wa * p.s < p.a * p.s := by omega
    exact Int.lt_of_mul_lt_mul_right this (by omega)
  have l2 : wb < p.b := by
    have : wb * p.s < p.b * p.s := by omega
    exact Int.lt_of_mul_lt_mul_right this (by omega)
  omega

/-- deposit then withdraw the shares just issued: never more of either token than was put in -/
theorem roundtrip_no_profit (p p1 p2 : Pool) (da db actA actB sh wa wb : Int)
    (ha : 0 < p.a) (hb : 0 < p.b) (hs : 0 < p.s)
    (h1 : addLiquidity p da db = some (p1, actA, actB, sh))
    (h2 : removeLiquidity p1 sh = some (p2, wa, wb)) : wa ≤ actA ∧ wb ≤ actB := by
  obtain ⟨e1, e2, e3, -, -, a0, -, b0, -, s0, k1, k2⟩ := addLiquidity_spec p p1 da db actA actB sh ha hb (by omega) h1
  obtain ⟨-, -, -, -, -, -, -, -, -, m1, m2, -, -⟩ := removeLiquidity_spec p1 p2 sh wa wb (by omega) (by omega) h2
  rw [e1, e3] at m1; rw [e2, e3] at m2
  have t : 0 < p.s + sh := by omega
  constructor
  · have : wa * (p.s + sh) ≤ actA * (p.s + sh) := by grind
    exact Int.le_of_mul_le_mul_right this t
  · have : wb * (p.s + sh) ≤ actB * (p.s + sh) := by grind
    exact Int.le_of_mul_le_mul_right this t

/-- every successful swap keeps both reserves positive and does not decrease their product -/
theorem applySwap_product (p p' : Pool) (fee : Dec) (op : SwapOp) (r fv : Int)
    (ha : 0 < p.a) (hb : 0 < p.b) (h : applySwap p fee op = some (p', r, fv)) :
    0 < p'.a ∧ 0 < p'.b ∧ p.a * p.b ≤ p'.a * p'.b ∧ p'.s = p.s := by
  cases op with
  | exactAForB x =>
    obtain ⟨sp, hs⟩ := swapExactAForB_spec p p' x fee r fv ha hb h
    exact ⟨by have := sp.in_added; have := sp.inp_pos; omega, sp.out_left, sp.product, hs⟩
  | exactBForA x =>
    obtain ⟨sp, hs⟩ := swapExactBForA_spec p p' x fee r fv ha hb h
    refine ⟨sp.out_left, by have := sp.in_added; have := sp.inp_pos; omega, ?_, hs⟩
    have := sp.product
    rw [Int.mul_comm p.a, Int.mul_comm p'.a]; exact this
  | aForExactB y =>
    obtain ⟨sp, hs⟩ := swapAForExactB_spec p p' y fee r fv ha hb h
    exact ⟨by have := sp.in_added; have := sp.inp_pos; omega, sp.out_left, sp.product, hs⟩
  | bForExactA y =>
    obtain ⟨sp, hs⟩ := swapBForExactA_spec p p' y fee r fv ha hb h
    refine ⟨sp.out_left, by have := sp.in_added; have := sp.inp_pos; omega, ?_, hs⟩
    have := sp.product
    rw [Int.mul_comm p.a, Int.mul_comm p'.a]; exact this

/-- over any sequence of swaps: reserves stay positive, the product never decreases, shares untouched -/
theorem runSwaps_product (ops : List (Dec × SwapOp)) : ∀ (p : Pool), 0 < p.a → 0 < p.b →
    0 < (runSwaps p ops).a ∧ 0 < (runSwaps p ops).b ∧
    p.a * p.b ≤ (runSwaps p ops).a * (runSwaps p ops).b ∧ (runSwaps p ops).s = p.s := by
  induction ops with
  | nil => intro p ha hb; exact ⟨ha, hb, Int.le_refl _, rfl⟩
  | cons o rest ih =>
    intro p ha hb
    obtain ⟨fee, op⟩ := o
    unfold runSwaps
    split
    · exact ih p ha hb
    · rename_i p' r fv hs
      obtain ⟨a1, b1, pr, s1⟩ := applySwap_product p p' fee op r fv ha hb hs
      obtain ⟨a2, b2, pr2, s2⟩ := ih p' a1 b1
      exact ⟨a2, b2, by omega, by omega⟩

/-- with positive reserves and a non-decreasing product, less of one reserve means more of the other -/
theorem product_no_free (a b a' b' : Int) (ha : 0 < a) (hb : 0 < b) (ha' : 0 < a') (hb' : 0 < b')
    (h : a * b ≤ a' * b') (hlt : a' < a) : b < b' := by
  by_cases hc : b < b'
  · exact hc
  · exfalso
    have h1 : a' * b' ≤ a' * b := Int.mul_le_mul_of_nonneg_left (by omega) (by omega)
    have h2 : a' * b < a * b := Int.mul_lt_mul_of_pos_right hlt hb
    omega

/-! ### symmetry: every operation commutes with exchanging the two token names -/

def flipAdd : Option (Pool × Int × Int × Int) → Option (Pool × Int × Int × Int)
  | none => none
  | some (p, a, b, s) => some (p.flip, b, a, s)

def flipRem : Option (Pool × Int × Int) → Option (Pool × Int × Int)
  | none => none
  | some (p, a, b) => some (p.flip, b, a)

def flipSwap : Option (Pool × Int × Int) → Option (Pool × Int × Int)
  | none => none
  | some (p, r, f) => some (p.flip, r, f)

theorem initialShares_comm (a b : Int) : initialShares a b = initialShares b a := by
  unfold initialShares; rw [Int.mul_comm]

theorem swapExactBForA_flip (p : Pool) (x : Int) (fee : Dec) :
    swapExactBForA p.flip x fee = flipSwap (swapExactAForB p x fee) := by
  unfold swapExactBForA swapExactAForB Pool.flip
  simp only []
  cases h : outputForExactInput x p.a p.b fee with
  | none => rfl
  | some r =>
    obtain ⟨b, fv⟩ := r
    simp only []
    unfold assertInvariantAndUpdate
    simp only []
    have e : p.b * p.a = p.a * p.b := Int.mul_comm _ _
    have e2 : (p.b - b - 0) * (p.a + x - fv) = (p.a + x - fv) * (p.b - b - 0) := Int.mul_comm _ _
    rw [e, e2]
    by_cases hc : p.a * p.b > (p.a + x - fv) * (p.b - b - 0)
    · simp only [hc, ite_true, flipSwap]
    · simp only [hc, ite_false, flipSwap, Pool.flip]

theorem swapExactAForB_flip (p : Pool) (x : Int) (fee : Dec) :
    swapExactAForB p.flip x fee = flipSwap (swapExactBForA p x fee) := by
  unfold swapExactBForA swapExactAForB Pool.flip
  simp only []
  cases h : outputForExactInput x p.b p.a fee with
  | none => rfl
  | some r =>
    obtain ⟨b, fv⟩ := r
    simp only []
    unfold assertInvariantAndUpdate
    simp only []
    have e : p.b * p.a = p.a * p.b := Int.mul_comm _ _
    have e2 : (p.b + x - fv) * (p.a - b - 0) = (p.a - b - 0) * (p.b + x - fv) := Int.mul_comm _ _
    rw [e, e2]
    by_cases hc : p.a * p.b > (p.a - b - 0) * (p.b + x - fv)
    · simp only [hc, ite_true, flipSwap]
    · simp only [hc, ite_false, flipSwap, Pool.flip]

theorem swapBForExactA_flip (p : Pool) (y : Int) (fee : Dec) :
    swapBForExactA p.flip y fee = flipSwap (swapAForExactB p y fee) := by
  unfold swapBForExactA swapAForExactB Pool.flip
  simp only []
  cases h : inputForExactOutput y p.b p.a fee with
  | none => rfl
  | some r =>
    obtain ⟨b, fv⟩ := r
    simp only []
    unfold assertInvariantAndUpdate
    simp only []
    have e : p.b * p.a = p.a * p.b := Int.mul_comm _ _
    have e2 : (p.b - y - 0) * (p.a + b - fv) = (p.a + b - fv) * (p.b - y - 0) := Int.mul_comm _ _
    rw [e, e2]
    by_cases hc : p.a * p.b > (p.a + b - fv) * (p.b - y - 0)
    · simp only [hc, ite_true, flipSwap]
    · simp only [hc, ite_false, flipSwap, Pool.flip]

theorem swapAForExactB_flip (p : Pool) (y : Int) (fee : Dec) :
    swapAForExactB p.flip y fee = flipSwap (swapBForExactA p y fee) := by
  unfold swapBForExactA swapAForExactB Pool.flip
  simp only []
  cases h : inputForExactOutput y p.a p.b fee with
  | none => rfl
  | some r =>
    obtain ⟨b, fv⟩ := r
    simp only []
    unfold assertInvariantAndUpdate
    simp only []
    have e : p.b * p.a = p.a * p.b := Int.mul_comm _ _
    have e2 : (p.b + b - fv) * (p.a - y - 0) = (p.a - y - 0) * (p.b + b - fv) := Int.mul_comm _ _
    rw [e, e2]
    by_cases hc : p.a * p.b > (p.a - y - 0) * (p.b + b - fv)
    · simp only [hc, ite_true, flipSwap]
    · simp only [hc, ite_false, flipSwap, Pool.flip]

theorem removeLiquidity_flip (p : Pool) (sh : Int) :
    removeLiquidity p.flip sh = flipRem (removeLiquidity p sh) := by
  unfold removeLiquidity shareValue Pool.flip flipRem
  simp only []
  by_cases h1 : 0 < sh
  case neg => simp only [h1, not_false_eq_true, ite_true]
  case pos =>
    simp only [h1, not_true_eq_false, ite_false]
    by_cases h2 : sh > p.s
    · simp only [h2, ite_true]
    · simp only [h2, ite_false]
      by_cases h3 : p.a - tquo (p.a * sh) p.s < 0 <;> by_cases h4 : p.b - tquo (p.b * sh) p.s < 0 <;>
        simp only [h3, h4, ite_true, ite_false, Pool.flip]

theorem addLiquidity_flip (p : Pool) (da db : Int) :
    addLiquidity p.flip db da = flipAdd (addLiquidity p da db) := by
  unfold addLiquidity Pool.flip flipAdd
  simp only []
  by_cases h1 : 0 < da <;> by_cases h2 : 0 < db <;>
    simp only [h1, h2, not_true_eq_false, not_false_eq_true, ite_true, ite_false]
  by_cases he : p.a = 0 ∧ p.b = 0
  · have he' : p.b = 0 ∧ p.a = 0 := ⟨he.2, he.1⟩
    simp only [he, he', and_self, ite_true, Pool.flip, initialShares_comm db da]
  · have he' : ¬ (p.b = 0 ∧ p.a = 0) := fun h => he ⟨h.2, h.1⟩
    simp only [he, he', ite_false]
    by_cases h3 : 0 < p.a <;> by_cases h4 : 0 < p.b <;>
      simp only [h3, h4, not_true_eq_false, not_false_eq_true, ite_true, ite_false]
    -- the main branch: p.a, p.b, da, db > 0
    have key : ∀ (xA xB : Int),
        (if tquo (xB * p.s) p.b ≤ tquo (xA * p.s) p.a then tquo (xB * p.s) p.b else tquo (xA * p.s) p.a) =
        (if tquo (xA * p.s) p.a ≤ tquo (xB * p.s) p.b then tquo (xA * p.s) p.a else tquo (xB * p.s) p.b) := by
      intro xA xB; split <;> split <;> omega
    rcases Int.lt_trichotomy (p.b * da) (p.a * db) with hlt | heq | hgt
    · have c1 : p.b * da ≤ p.a * db := by omega
      have c2 : ¬ p.a * db ≤ p.b * da := by omega
      simp only [c1, c2, ite_true, ite_false, Pool.flip, key]
    · have c1 : p.b * da ≤ p.a * db := by omega
      have c2 : p.a * db ≤ p.b * da := by omega
      have q1 : tquo (p.b * da) p.a = db := by
        rw [heq, tquo_eq _ _ (Int.mul_nonneg (by omega) (by omega)) (by omega)]
        exact Int.mul_ediv_cancel_left _ (by omega)
      have q2 : tquo (p.a * db) p.b = da := by
        rw [← heq, tquo_eq _ _ (Int.mul_nonneg (by omega) (by omega)) (by omega)]
        exact Int.mul_ediv_cancel_left _ (by omega)
      simp only [c1, c2, ite_true, q1, q2, Pool.flip, key]
    · have c1 : ¬ p.b * da ≤ p.a * db := by omega
      have c2 : p.a * db ≤ p.b * da := by omega
      simp only [c1, c2, ite_true, ite_false, Pool.flip, key]

/-! ### the four swap entry points, uniformly -/

/-- the trader pays token A (and receives B) -/
def SwapOp.paysA : SwapOp → Bool
  | .exactAForB _ => true
  | .aForExactB _ => true
  | _ => false

/-- what the trader pays (fee included), given the amount `r` the pool function returned -/
def SwapOp.paid : SwapOp → Int → Int
  | .exactAForB x, _ => x
  | .exactBForA x, _ => x
  | .aForExactB _, r => r
  | .bForExactA _, r => r

/-- what the trader receives -/
def SwapOp.received : SwapOp → Int → Int
  | .exactAForB _, r => r
  | .exactBForA _, r => r
  | .aForExactB y, _ => y
  | .bForExactA y, _ => y

/-- the documented input guards of a swap: positive amount, fee in [0,1), exact output below reserves -/
def SwapOp.guardsOk (p : Pool) (fee : Dec) : SwapOp → Prop
  | .exactAForB x => 0 < x ∧ 0 ≤ fee.m ∧ fee.m < P
  | .exactBForA x => 0 < x ∧ 0 ≤ fee.m ∧ fee.m < P
  | .aForExactB y => 0 < y ∧ y < p.b ∧ 0 ≤ fee.m ∧ fee.m < P
  | .bForExactA y => 0 < y ∧ y < p.a ∧ 0 ≤ fee.m ∧ fee.m < P

theorem applySwap_spec (p p' : Pool) (fee : Dec) (op : SwapOp) (r fv : Int)
    (ha : 0 < p.a) (hb : 0 < p.b) (h : applySwap p fee op = some (p', r, fv)) :
    SwapSpec (if op.paysA then p.a else p.b) (if op.paysA then p.b else p.a)
             (if op.paysA then p'.a else p'.b) (if op.paysA then p'.b else p'.a)
             (op.paid r) (op.received r) fv fee.m ∧ p'.s = p.s := by
  cases op with
  | exactAForB x => exact swapExactAForB_spec p p' x fee r fv ha hb h
  | exactBForA x => exact swapExactBForA_spec p p' x fee r fv ha hb h
  | aForExactB y => exact swapAForExactB_spec p p' y fee r fv ha hb h
  | bForExactA y => exact swapBForExactA_spec p p' y fee r fv ha hb h

theorem applySwap_total (p : Pool) (fee : Dec) (op : SwapOp) (ha : 0 < p.a) (hb : 0 < p.b)
    (hg : op.guardsOk p fee) : ∃ r, applySwap p fee op = some r := by
  cases op with
  | exactAForB x => exact swapExactAForB_total p x fee ha hb hg.1 hg.2.1 hg.2.2
  | exactBForA x => exact swapExactBForA_total p x fee ha hb hg.1 hg.2.1 hg.2.2
  | aForExactB y => exact swapAForExactB_total p y fee ha hb hg.1 hg.2.1 hg.2.2.1 hg.2.2.2
  | bForExactA y => exact swapBForExactA_total p y fee ha hb hg.1 hg.2.1 hg.2.2.1 hg.2.2.2

/-- the flipped operation -/
def SwapOp.flip : SwapOp → SwapOp
  | .exactAForB x => .exactBForA x
  | .exactBForA x => .exactAForB x
  | .aForExactB y => .bForExactA y
  | .bForExactA y => .aForExactB y

theorem applySwap_flip (p : Pool) (fee : Dec) (op : SwapOp) :
    applySwap p.flip fee op.flip = flipSwap (applySwap p fee op) := by
  cases op with
  | exactAForB x => exact swapExactBForA_flip p x fee
  | exactBForA x => exact swapExactAForB_flip p x fee
  | aForExactB y => exact swapBForExactA_flip p y fee
  | bForExactA y => exact swapAForExactB_flip p y fee

theorem initialShares_spec (a b : Int) (h : 0 ≤ a * b) :
    initialShares a b * initialShares a b ≤ a * b ∧ a * b < (initialShares a b + 1) * (initialShares a b + 1) := by
  unfold initialShares
  obtain ⟨h1, h2⟩ := isqrt_spec (a * b).toNat
  have e : ((a * b).toNat : Int) = a * b := Int.toNat_of_nonneg h
  generalize isqrt (a * b).toNat = s at *
  constructor
  · have : ((s * s : Nat) : Int) ≤ ((a * b).toNat : Int) := Int.ofNat_le.mpr h1
    rw [e] at this; simpa using this
  · have : (((a * b).toNat : Nat) : Int) < (((s + 1) * (s + 1) : Nat) : Int) := Int.ofNat_lt.mpr h2
    rw [e] at this; simpa using this

/-! ### `NewDecFromInt(x).Quo(NewDecFromInt(y))` against the exact ratio x/y -/

/-- the Dec quotient of two integers is within half a unit (10⁻¹⁸/2, plus the inner truncation)
    of the exact ratio: 2·q·y ≤ 2·x·10¹⁸ + y  and  2·x·10³⁶ < (2·q·y + y)·10¹⁸ + 2·y -/
theorem quoInt_bounds (x y : Int) (hx : 0 ≤ x) (hy : 0 < y) :
    0 ≤ (Dec.quo (Dec.ofInt x) (Dec.ofInt y)).m ∧
    2 * ((Dec.quo (Dec.ofInt x) (Dec.ofInt y)).m * y) ≤ 2 * x * P + y ∧
    2 * x * P * P < (2 * ((Dec.quo (Dec.ofInt x) (Dec.ofInt y)).m * y) + y) * P + 2 * y := by
  unfold Dec.quo Dec.ofInt
  simp only []
  have hnum : 0 ≤ x * P * P * P :=
    Int.mul_nonneg (Int.mul_nonneg (Int.mul_nonneg hx (by decide)) (by decide)) (by decide)
  have hden : 0 < y * P := Int.mul_pos hy P_pos
  rw [tquo_eq _ _ hnum (by omega)]
  generalize hq0 : x * P * P * P / (y * P) = q0
  have hq0n : 0 ≤ q0 := by rw [← hq0]; exact Int.ediv_nonneg hnum (by omega)
  have h1 : q0 * (y * P) ≤ x * P * P * P := by rw [← hq0]; exact Int.ediv_mul_le _ (by omega)
  have h2 : x * P * P * P < (q0 + 1) * (y * P) := by rw [← hq0]; exact Int.lt_ediv_add_one_mul_self _ hden
  have hcr : chopRound q0 = chopRoundNonneg q0 := by
    unfold chopRound; simp only [show ¬ q0 < 0 by omega, ite_false]
  rw [hcr]
  obtain ⟨b1, b2⟩ := chopRoundNonneg_bound q0 hq0n
  have hqn : 0 ≤ chopRoundNonneg q0 := chopRoundNonneg_nonneg q0 hq0n
  generalize chopRoundNonneg q0 = q at *
  -- multiply the rounding bounds by y
  have k1 : (2 * (q * P - q0)) * y ≤ P * y := Int.mul_le_mul_of_nonneg_right b1 (by omega)
  have k2 : (2 * (q0 - q * P)) * y ≤ P * y := Int.mul_le_mul_of_nonneg_right b2 (by omega)
  have e1 : (2 * (q * P - q0)) * y = 2 * (P * (q * y)) - 2 * (q0 * y) := by grind
  have e2 : (2 * (q0 - q * P)) * y = 2 * (q0 * y) - 2 * (P * (q * y)) := by grind
  have e3 : q0 * (y * P) = P * (q0 * y) := by grind
  have e4 : (q0 + 1) * (y * P) = P * (q0 * y) + P * y := by grind
  have e5 : (2 * (q * y) + y) * P = 2 * (P * (q * y)) + P * y := by grind
  rw [e1] at k1; rw [e2] at k2; rw [e3] at h1; rw [e4] at h2; rw [e5]
  clear e1 e2 e3 e4 e5 hq0 hcr b1 b2 hnum hden
  simp only [P_val] at *
  refine ⟨hqn, ?_, ?_⟩ <;> omega

/-- the swap slippage check, in exact terms: if `1 − Quo(x, y) ≤ limit` then
    x/y ≥ 1 − limit − ½·10⁻¹⁸ (cross-multiplied) -/
theorem slippageOk_real (x y : Int) (slip : Dec) (hx : 0 ≤ x) (hy : 0 < y)
    (h : slippageOk (Dec.quo (Dec.ofInt x) (Dec.ofInt y)) slip = true) :
    2 * ((P - slip.m) * y) ≤ 2 * x * P + y := by
  obtain ⟨q0, qu, -⟩ := quoInt_bounds x y hx hy
  unfold slippageOk Dec.sub Dec.one at h
  simp only [Bool.not_eq_true', decide_eq_false_iff_not] at h
  generalize (Dec.quo (Dec.ofInt x) (Dec.ofInt y)).m = q at *
  have hq : P - slip.m ≤ q := by omega
  have : (P - slip.m) * y ≤ q * y := Int.mul_le_mul_of_nonneg_right hq (by omega)
  omega

theorem Dec_max_m (a b : Dec) : (Dec.max a b).m = if a.m < b.m then b.m else a.m := by
  unfold Dec.max; split <;> rfl

/-- the deposit slippage check, in exact terms: if `max(Quo(xA,dA), Quo(xB,dB)) − 1 ≤ limit` then both
    desired/actual ratios are below 1 + limit + ½·10⁻¹⁸ + 10⁻³⁶ (cross-multiplied) -/
theorem depositSlippage_real (xA xB dA dB : Int) (slip : Dec) (hxA : 0 ≤ xA) (hxB : 0 ≤ xB)
    (hdA : 0 < dA) (hdB : 0 < dB)
    (h : (Dec.sub (Dec.max (Dec.quo (Dec.ofInt xA) (Dec.ofInt dA)) (Dec.quo (Dec.ofInt xB) (Dec.ofInt dB)))
            Dec.one).m ≤ slip.m) :
    2 * xA * P * P < (2 * ((P + slip.m) * dA) + dA) * P + 2 * dA ∧
    2 * xB * P * P < (2 * ((P + slip.m) * dB) + dB) * P + 2 * dB := by
  obtain ⟨-, -, la⟩ := quoInt_bounds xA dA hxA hdA
  obtain ⟨-, -, lb⟩ := quoInt_bounds xB dB hxB hdB
  unfold Dec.sub Dec.one at h
  simp only [Dec_max_m] at h
  generalize (Dec.quo (Dec.ofInt xA) (Dec.ofInt dA)).m = qa at *
  generalize (Dec.quo (Dec.ofInt xB) (Dec.ofInt dB)).m = qb at *
  have hq : qa ≤ P + slip.m ∧ qb ≤ P + slip.m := by
    split at h <;> omega
  have ka : qa * dA ≤ (P + slip.m) * dA := Int.mul_le_mul_of_nonneg_right hq.1 (by omega)
  have kb : qb * dB ≤ (P + slip.m) * dB := Int.mul_le_mul_of_nonneg_right hq.2 (by omega)
  have ea : (2 * (qa * dA) + dA) * P = 2 * (P * (qa * dA)) + P * dA := by grind
  have eb : (2 * (qb * dB) + dB) * P = 2 * (P * (qb * dB)) + P * dB := by grind
  have ea' : (2 * ((P + slip.m) * dA) + dA) * P = 2 * (P * ((P + slip.m) * dA)) + P * dA := by grind
  have eb' : (2 * ((P + slip.m) * dB) + dB) * P = 2 * (P * ((P + slip.m) * dB)) + P * dB := by grind
  rw [ea] at la; rw [eb] at lb; rw [ea', eb']
  generalize (P + slip.m) * dA = ta at *
  generalize (P + slip.m) * dB = tb at *
  generalize qa * dA = ua at *
  generalize qb * dB = ub at *
  clear ea eb ea' eb' h
  simp only [P_val] at *
  constructor <;> omega

end KV.SW
