/-
  Source tie ("tie 1b") for x/cdp/keeper/draw.go: the Lean definitions REGENERATED from the Go source on every run
  (Generated/FnCdp.lean, tools/extract/fn*.go) equal the hand-written model functions the C04 theorems are
  about.  An edit of a Go function changes the generated definition and its equality proof stops checking.
  Encoding: `sdk.Coin` = its amount (`Int`); the three coins have the same denomination in every call
  (CONTRACT of the Go function), which the translation assumes.
-/
import KavaVerif.Generated.FnCdp
import KavaVerif.Model.Cdp
import KavaVerif.Proofs.TieFnBase
set_option linter.unusedSimpArgs false

namespace KV.TieFn
open KV KV.Go

/-- `calculatePayment` = `Cdp.calcPayment`, on the domain `0 ≤ owed`.

    Outside it the two differ: for `payment > owed` the Go code computes `payment.Sub(payment.Sub(owed))`, and
    `sdk.Coin.Sub` panics on the negative result `owed`, while the hand model is total and returns `owed`.  `owed`
    is `principal + accumulated fees` of a stored CDP (non-negative by the C04 invariant), so the difference is
    not reachable; the model function is left total and the domain is stated here. -/
theorem cdp_calculatePayment (owed fees pay : Int) (h : 0 ≤ owed) :
    GoFn.Cdp.calculatePayment_translated = true ∧
    GoFn.Cdp.calculatePayment owed fees pay = R.ok (KV.Cdp.calcPayment owed fees pay) := by
  refine ⟨rfl, ?_⟩
  simp only [GoFn.Cdp.calculatePayment, KV.Cdp.calcPayment, Go.newCoin, Go.coinSub]
  tie_norm
  tie_split

/-- `calculateCollateralRatio` (the bulk path of `SynchronizeInterestForRiskyCDPs`) = `Cdp.c2dBulk` on the CDP's
    collateral amount and total principal (`Principal + AccumulatedFees`), for conversion factors in 0 … 18 (outside,
    `sdk.NewDecFromIntWithPrec` panics; the model's `Nat` exponent `18 - cf` has no such case).  In particular the
    function never panics there: the division is guarded by the `IsZero` test. -/
theorem cdp_calculateCollateralRatio (dp : GoFn.Cdp.DebtParam) (cp : GoFn.Cdp.CollateralParam) (cdp : GoFn.Cdp.CDP)
    (hd : 0 ≤ dp.ConversionFactor ∧ dp.ConversionFactor ≤ 18)
    (hc : 0 ≤ cp.ConversionFactor ∧ cp.ConversionFactor ≤ 18) :
    GoFn.Cdp.calculateCollateralRatio_translated = true ∧
    GoFn.Cdp.calculateCollateralRatio dp cp cdp
      = R.ok (KV.Cdp.c2dBulk cdp.Collateral cp.ConversionFactor.toNat (cdp.Principal + cdp.AccumulatedFees)
          dp.ConversionFactor.toNat) := by
  refine ⟨rfl, ?_⟩
  have hd1 : ¬ (dp.ConversionFactor < 0 ∨ dp.ConversionFactor > 18) := by omega
  have hc1 : ¬ (cp.ConversionFactor < 0 ∨ cp.ConversionFactor > 18) := by omega
  have hd2 : (18 - dp.ConversionFactor).toNat = 18 - dp.ConversionFactor.toNat := by omega
  have hc2 : (18 - cp.ConversionFactor).toNat = 18 - cp.ConversionFactor.toNat := by omega
  have hs : Dec.smallest.m ≠ 0 := by decide
  simp only [GoFn.Cdp.calculateCollateralRatio, GoFn.Cdp.GetTotalPrincipal, KV.Cdp.c2dBulk, KV.Cdp.maxSortable,
    Go.decFromIntWithPrec, Go.decQuo, hd1, hc1, hd2, hc2, hs, if_false, Int.one_mul]
  dsimp only [Dec.isZero, Dec.le]
  tie_norm
  generalize ((Dec.ofInt (cdp.Principal + cdp.AccumulatedFees)).mul { m := 10 ^ (18 - dp.ConversionFactor.toNat) }) = D
  generalize (Dec.one.quo Dec.smallest) = M
  by_cases h0 : D.m = 0
  · simp only [h0, if_true, true_or, R.ok_bind]
  · by_cases hm : M.m ≤ D.m
    · simp only [h0, hm, if_false, if_true, R.ok_bind, decide_true, or_true, false_or]
    · simp only [h0, hm, if_false, if_true, R.ok_bind, decide_false, or_false, false_or, Bool.false_eq_true]

end KV.TieFn
