/-
  Helper lemmas for C18, part 1: sorting, permutation invariance and the rank characterisation of
  `CalculateMedianPrice`.  Core Lean only (`List.Perm`, `List.Pairwise` are in core).
-/
import KavaVerif.Model.Pricefeed
set_option linter.unusedSimpArgs false
set_option linter.unusedVariables false
namespace KV.PF
open List

/-- non-decreasing -/
def Sorted (l : List Int) : Prop := l.Pairwise (· ≤ ·)

theorem ins_perm (x : Int) (l : List Int) : ins x l ~ x :: l := by
  induction l with
  | nil => exact Perm.refl _
  | cons y t ih =>
    unfold ins
    split
    · exact Perm.refl _
    · exact (Perm.cons y ih).trans (Perm.swap x y t)

theorem isort_perm (l : List Int) : isort l ~ l := by
  induction l with
  | nil => exact Perm.refl _
  | cons x t ih =>
    unfold isort
    exact (ins_perm x (isort t)).trans (Perm.cons x ih)

theorem ins_sorted (x : Int) (l : List Int) (h : Sorted l) : Sorted (ins x l) := by
  induction l with
  | nil => unfold ins; exact pairwise_singleton _ _
  | cons y t ih =>
    unfold ins
    have hy : ∀ a, a ∈ t → y ≤ a := fun a ha => rel_of_pairwise_cons h ha
    have ht : Sorted t := Pairwise.tail h
    split
    · rename_i hxy
      refine pairwise_cons.2 ⟨?_, h⟩
      intro a ha
      rcases mem_cons.1 ha with rfl | ha
      · exact hxy
      · exact Int.le_trans hxy (hy _ ha)
    · rename_i hxy
      refine pairwise_cons.2 ⟨?_, ih ht⟩
      intro a ha
      have := (ins_perm x t).subset ha
      rcases mem_cons.1 this with rfl | ha'
      · omega
      · exact hy _ ha'

theorem isort_sorted (l : List Int) : Sorted (isort l) := by
  induction l with
  | nil => exact Pairwise.nil
  | cons x t ih => unfold isort; exact ins_sorted x _ ih

theorem sorted_perm_eq (s t : List Int) (hs : Sorted s) (ht : Sorted t) (h : s ~ t) : s = t :=
  Perm.eq_of_pairwise (le := (· ≤ ·)) (fun a b _ _ h1 h2 => Int.le_antisymm h1 h2) hs ht h

theorem isort_eq_of_perm (l1 l2 : List Int) (h : l1 ~ l2) : isort l1 = isort l2 :=
  sorted_perm_eq _ _ (isort_sorted l1) (isort_sorted l2)
    ((isort_perm l1).trans (h.trans (isort_perm l2).symm))

theorem isort_of_sorted (s l : List Int) (hs : Sorted s) (h : s ~ l) : isort l = s :=
  sorted_perm_eq _ _ (isort_sorted l) hs ((isort_perm l).trans h.symm)

theorem isort_length (l : List Int) : (isort l).length = l.length := (isort_perm l).length_eq

/-- middle of a sorted list -/
def medianS (s : List Int) : Int :=
  if s.length % 2 = 0 then mean (s.getD (s.length / 2 - 1) 0) (s.getD (s.length / 2) 0)
  else s.getD (s.length / 2) 0

theorem median_eq_medianS (l : List Int) : median l = medianS (isort l) := by
  unfold median medianS
  rw [isort_length]
  by_cases h1 : l.length = 1
  · simp only [h1, ite_true]
    match l, h1 with
    | [a], _ => simp [isort, ins]
  · simp only [h1, ite_false]

theorem median_perm (l1 l2 : List Int) (h : l1 ~ l2) : median l1 = median l2 := by
  rw [median_eq_medianS, median_eq_medianS, isort_eq_of_perm l1 l2 h]

theorem median_any_sort (l s : List Int) (hs : Sorted s) (h : s ~ l) : median l = medianS s := by
  rw [median_eq_medianS, isort_of_sorted s l hs h]

theorem sorted_cons_le {y : Int} {t : List Int} (h : Sorted (y :: t)) : ∀ a, a ∈ t → y ≤ a :=
  fun a ha => rel_of_pairwise_cons h ha

theorem getD_mem (s : List Int) (k : Nat) (hk : k < s.length) : s.getD k 0 ∈ s := by
  induction s generalizing k with
  | nil => simp at hk
  | cons y t ih =>
    cases k with
    | zero => simp only [List.getD_cons_zero]; exact mem_cons_self
    | succ k =>
      simp only [List.getD_cons_succ]
      exact mem_cons_of_mem _ (ih k (by simp only [List.length_cons] at hk; omega))

/-- below the k-th element of a sorted list there are at most k elements -/
theorem sorted_count_lt (s : List Int) (hs : Sorted s) (k : Nat) (hk : k < s.length) :
    s.countP (fun y => decide (y < s.getD k 0)) ≤ k := by
  induction s generalizing k with
  | nil => simp at hk
  | cons y t ih =>
    have hy := sorted_cons_le hs
    cases k with
    | zero =>
      simp only [List.getD_cons_zero]
      rw [List.countP_eq_zero.2]
      · omega
      · intro a ha
        simp only [decide_eq_true_eq]
        rcases mem_cons.1 ha with rfl | ha
        · omega
        · have := hy a ha; omega
    | succ k =>
      simp only [List.getD_cons_succ, List.countP_cons]
      have hk' : k < t.length := by simp only [List.length_cons] at hk; omega
      have := ih (Pairwise.tail hs) k hk'
      split <;> omega

theorem sorted_count_gt (s : List Int) (hs : Sorted s) (k : Nat) (hk : k < s.length) :
    s.countP (fun y => decide (s.getD k 0 < y)) + k + 1 ≤ s.length := by
  induction s generalizing k with
  | nil => simp at hk
  | cons y t ih =>
    have hy := sorted_cons_le hs
    cases k with
    | zero =>
      simp only [List.getD_cons_zero, List.countP_cons, List.length_cons]
      have : countP (fun x => decide (y < x)) t ≤ t.length := List.countP_le_length
      have hyy : ¬ (y < y) := by omega
      simp only [hyy, decide_false, Bool.false_eq_true, ite_false]
      omega
    | succ k =>
      simp only [List.getD_cons_succ, List.countP_cons, List.length_cons]
      have hk' : k < t.length := by simp only [List.length_cons] at hk; omega
      have := ih (Pairwise.tail hs) k hk'
      have hm := hy _ (getD_mem t k hk')
      have : ¬ (t.getD k 0 < y) := by omega
      simp only [this, decide_false, Bool.false_eq_true, ite_false]
      omega

theorem sorted_below (s : List Int) (hs : Sorted s) (k : Nat) (hk : k < s.length) (x : Int)
    (hx : x < s.getD k 0) : s.length ≤ s.countP (fun y => decide (x < y)) + k := by
  induction s generalizing k with
  | nil => simp at hk
  | cons y t ih =>
    have hy := sorted_cons_le hs
    cases k with
    | zero =>
      simp only [List.getD_cons_zero] at hx
      have : (y :: t).countP (fun z => decide (x < z)) = (y :: t).length := by
        rw [List.countP_eq_length]
        intro a ha
        simp only [decide_eq_true_eq]
        rcases mem_cons.1 ha with rfl | ha
        · exact hx
        · have := hy a ha; omega
      omega
    | succ k =>
      simp only [List.getD_cons_succ] at hx
      simp only [List.countP_cons, List.length_cons]
      have hk' : k < t.length := by simp only [List.length_cons] at hk; omega
      have := ih (Pairwise.tail hs) k hk' hx
      split <;> omega

theorem sorted_above (s : List Int) (hs : Sorted s) (k : Nat) (hk : k < s.length) (x : Int)
    (hx : s.getD k 0 < x) : k + 1 ≤ s.countP (fun y => decide (y < x)) := by
  induction s generalizing k with
  | nil => simp at hk
  | cons y t ih =>
    have hy := sorted_cons_le hs
    cases k with
    | zero =>
      simp only [List.getD_cons_zero] at hx
      simp only [List.countP_cons, hx, decide_true, ite_true]
      omega
    | succ k =>
      simp only [List.getD_cons_succ] at hx
      have hk' : k < t.length := by simp only [List.length_cons] at hk; omega
      have hm := hy _ (getD_mem t k hk')
      have hyx : y < x := by omega
      simp only [List.countP_cons, hyx, decide_true, ite_true]
      have := ih (Pairwise.tail hs) k hk' hx
      omega

theorem isKth_sorted (s : List Int) (hs : Sorted s) (k : Nat) (hk : k < s.length) :
    isKth s k (s.getD k 0) = true := by
  unfold isKth
  simp only [Bool.and_eq_true, decide_eq_true_eq]
  exact ⟨sorted_count_lt s hs k hk, sorted_count_gt s hs k hk⟩

theorem isKth_unique (s : List Int) (hs : Sorted s) (k : Nat) (hk : k < s.length) (x : Int)
    (h : isKth s k x = true) : x = s.getD k 0 := by
  unfold isKth at h
  simp only [Bool.and_eq_true, decide_eq_true_eq] at h
  rcases Int.lt_trichotomy x (s.getD k 0) with h1 | h1 | h1
  · have := sorted_below s hs k hk x h1; omega
  · exact h1
  · have := sorted_above s hs k hk x h1; omega

theorem isKth_perm (l1 l2 : List Int) (h : l1 ~ l2) (k : Nat) (x : Int) :
    isKth l1 k x = isKth l2 k x := by
  unfold isKth
  rw [h.countP_eq, h.countP_eq, h.length_eq]

/-- counting finds the element a sort would put at position `k` -/
theorem kth_eq (l : List Int) (k : Nat) (hk : k < l.length) : kth l k = (isort l).getD k 0 := by
  have hp := isort_perm l
  have hs := isort_sorted l
  have hk' : k < (isort l).length := by rw [isort_length]; exact hk
  have hv : isKth l k ((isort l).getD k 0) = true := by
    rw [← isKth_perm _ _ hp]; exact isKth_sorted _ hs k hk'
  have hm : (isort l).getD k 0 ∈ l := hp.subset (getD_mem _ k hk')
  unfold kth
  cases hf : l.find? (isKth l k) with
  | none =>
    have := List.find?_eq_none.1 hf _ hm
    exact absurd hv this
  | some x =>
    have hx := List.find?_some hf
    rw [← isKth_perm _ _ hp] at hx
    simp only [Option.getD_some]
    exact isKth_unique _ hs k hk' x hx

theorem median_eq_spec (l : List Int) (hl : l ≠ []) : median l = specMedian l := by
  have hn : 0 < l.length := List.length_pos_iff.2 hl
  rw [median_eq_medianS]
  unfold medianS specMedian
  rw [isort_length]
  rw [kth_eq l (l.length / 2) (by omega), kth_eq l (l.length / 2 - 1) (by omega)]

end KV.PF
