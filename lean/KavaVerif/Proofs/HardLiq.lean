/-
  Helper lemmas for C08 (x/hard), liquidation part: the invariant of the `StartAuctions` loops (lots started plus
  what is left never exceed what is to be auctioned; cash goes down by exactly the lots), the refund loop, the
  keeper-reward bounds and the frame of `AttemptKeeperLiquidation`.
-/
import KavaVerif.Proofs.HardInterest
set_option linter.unusedSimpArgs false
set_option linter.unusedVariables false
namespace KV.Hard
open KV

/-- total lot of denom `d` over a list of started auctions -/
def lotsOf : List Auction → Denom → Int
  | [], _ => 0
  | a :: t, d => (if a.lotDenom = d then a.lot else 0) + lotsOf t d

theorem lotsOf_append (l1 l2 : List Auction) (d : Denom) : lotsOf (l1 ++ l2) d = lotsOf l1 d + lotsOf l2 d := by
  induction l1 with
  | nil => simp [lotsOf]
  | cons a t ih => simp only [List.cons_append, lotsOf, ih]; omega

theorem lotsOf_single (a : Auction) (d : Denom) : lotsOf [a] d = if a.lotDenom = d then a.lot else 0 := by
  simp [lotsOf]

/-- invariant of the `StartAuctions` loops relative to the locals `st0` they started with: what is still
    unassigned of each deposit denom is non-negative, lots started so far plus the unassigned rest never exceed the
    amount to auction, and the module's cash went down by exactly the lots -/
def AInv (st0 st : AS) : Prop :=
  ∀ d, 0 ≤ st.deposits d ∧
    (lotsOf st.aucs d - lotsOf st0.aucs d) + st.deposits d ≤ st0.deposits d ∧
    st.cash d = st0.cash d - (lotsOf st.aucs d - lotsOf st0.aucs d)

theorem AInv_refl (st0 : AS) (h : ∀ d, 0 ≤ st0.deposits d) : AInv st0 st0 := by
  intro d; exact ⟨h d, by omega, by omega⟩

theorem commitCore_inv (cfg : Cfg) (b d : Denom) (st0 st st' : AS) (lot bid bv dv : Int) (ins : Bool)
    (h : AInv st0 st) (hc : commitCore cfg b d st lot bid bv dv ins = .ok st') : AInv st0 st' := by
  unfold commitCore at hc
  split at hc
  · cases hc
  rename_i hle
  split at hc
  · cases hc
  split at hc
  · cases hc
  split at hc
  · cases hc
  split at hc
  · cases hc
  cases hc
  intro x
  obtain ⟨h1, h2, h3⟩ := h x
  dsimp only
  rw [lotsOf_append, lotsOf_single]
  dsimp only
  by_cases hx : x = d
  · subst hx
    rw [upd_same, upd_same]
    simp only [ite_true]
    split <;> omega
  · have hx' : ¬ d = x := fun e => hx e.symm
    rw [upd_other _ _ _ _ hx, upd_other _ _ _ _ hx]
    simp only [hx', ite_false]
    omega

theorem commitAuction_inv (cfg : Cfg) (mc : Coins) (b d : Denom) (st0 st st' : AS) (lot0 bid bv dv : Int)
    (h : AInv st0 st) (hc : commitAuction cfg mc b d st lot0 bid bv dv = .ok st') : AInv st0 st' := by
  unfold commitAuction at hc
  exact commitCore_inv cfg b d st0 st st' _ _ _ _ _ h hc

theorem startOne_inv (cfg : Cfg) (ltv : Dec) (mc : Coins) (b d : Denom) (st0 st st' : AS) (ml ml' : Int)
    (hi : AInv st0 st) (h : startOne cfg ltv mc b d st ml = .ok (st', ml')) : AInv st0 st' := by
  unfold startOne at h
  split at h
  · cases h; exact hi
  split at h
  · unfold startFull at h
    split at h
    · cases h
    simp only at h
    split at h
    · cases h; exact hi
    split at h
    · cases h
    split at h
    · cases h
    · cases h
    · rename_i st1 hc
      cases h
      exact commitAuction_inv cfg mc b d st0 st st' _ _ _ _ hi hc
  · unfold startPartial at h
    split at h
    · cases h
    simp only at h
    split at h
    · cases h
    split at h
    · cases h; exact hi
    split at h
    · cases h
    split at h
    · cases h
    · cases h
    · rename_i st1 hc
      cases h
      exact commitAuction_inv cfg mc b d st0 st st' _ _ _ _ hi hc

theorem startInner_inv (cfg : Cfg) (ltv : Dec) (mc : Coins) (b : Denom) (l : List Denom) (st0 st st' : AS) (ml : Int)
    (hi : AInv st0 st) (h : startInner cfg ltv mc b l st ml = .ok st') : AInv st0 st' := by
  induction l generalizing st ml with
  | nil => unfold startInner at h; cases h; exact hi
  | cons d t ih =>
    unfold startInner at h
    split at h
    · cases h
    · cases h
    · rename_i st1 ml1 h1
      exact ih st1 ml1 (startOne_inv cfg ltv mc b d st0 st st1 ml ml1 hi h1) h

theorem startOuter_inv (cfg : Cfg) (ltv : Dec) (mc : Coins) (dKeys l : List Denom) (st0 st st' : AS)
    (hi : AInv st0 st) (h : startOuter cfg ltv mc dKeys l st = .ok st') : AInv st0 st' := by
  induction l generalizing st with
  | nil => unfold startOuter at h; cases h; exact hi
  | cons b t ih =>
    unfold startOuter at h
    split at h
    · cases h
    split at h
    · cases h
    · cases h
    · rename_i st1 h1
      exact ih st1 (startInner_inv cfg ltv mc b dKeys st0 st st1 _ hi h1) h


/-- the refund loop: each listed denom with something left is paid once -/
theorem returnLoop_spec (l : List Denom) (hn : l.Nodup) (deposits cash ret0 cash2 ret : Coins)
    (h : returnLoop l deposits cash ret0 = .ok (cash2, ret)) :
    ∀ x, cash2 x = cash x - (ret x - ret0 x) ∧ (x ∉ l → ret x = ret0 x) ∧
         (x ∈ l → ret x - ret0 x = if 0 < deposits x then deposits x else 0) := by
  induction l generalizing cash ret0 with
  | nil =>
    unfold returnLoop at h; cases h
    intro x; exact ⟨by omega, fun _ => rfl, fun hx => by cases hx⟩
  | cons d t ih =>
    have hd : d ∉ t := (List.nodup_cons.mp hn).1
    have ht : t.Nodup := (List.nodup_cons.mp hn).2
    unfold returnLoop at h
    split at h
    · rename_i hpos
      split at h
      · cases h
      have := ih ht _ _ h
      intro x
      obtain ⟨a1, a2, a3⟩ := this x
      by_cases hx : x = d
      · subst hx
        have e := a2 hd
        simp only [upd_same] at a1 e
        refine ⟨by omega, fun hm => absurd List.mem_cons_self hm, fun _ => ?_⟩
        simp only [hpos, ite_true]; omega
      · simp only [upd_other _ _ _ _ hx] at a1 a2 a3
        refine ⟨a1, fun hm => a2 (fun hm' => hm (List.mem_cons_of_mem _ hm')), fun hm => ?_⟩
        rcases List.mem_cons.mp hm with e | hm'
        · exact absurd e hx
        · exact a3 hm'
    · rename_i hpos
      have := ih ht _ _ h
      intro x
      obtain ⟨a1, a2, a3⟩ := this x
      refine ⟨a1, fun hm => a2 (fun hm' => hm (List.mem_cons_of_mem _ hm')), fun hm => ?_⟩
      rcases List.mem_cons.mp hm with e | hm'
      · subst e
        have := a2 hd
        simp only [hpos, ite_false]; omega
      · exact a3 hm'

theorem returnLoop_bounds (l : List Denom) (hn : l.Nodup) (deposits cash cash2 ret : Coins)
    (hdep : ∀ d, 0 ≤ deposits d) (h : returnLoop l deposits cash zeroC = .ok (cash2, ret)) :
    ∀ x, cash2 x = cash x - ret x ∧ 0 ≤ ret x ∧ ret x ≤ deposits x := by
  intro x
  obtain ⟨a1, a2, a3⟩ := returnLoop_spec l hn deposits cash zeroC cash2 ret h x
  have hz : zeroC x = 0 := rfl
  have := hdep x
  by_cases hx : x ∈ l
  · have := a3 hx
    split at this <;> omega
  · have := a2 hx; omega

/-- keeper reward `⌊pct·amount⌋` lies between 0 and the amount when 0 ≤ pct ≤ 1 -/
theorem keeperReward_bounds (cfg : Cfg) (dep : Coins) (d : Denom)
    (h0 : 0 ≤ (cfg.mkt d).keeperReward.m) (h1 : (cfg.mkt d).keeperReward.m ≤ P) (hd : 0 ≤ dep d) :
    0 ≤ keeperReward cfg dep d ∧ keeperReward cfg dep d ≤ dep d ∧
    keeperReward cfg dep d * P ≤ (cfg.mkt d).keeperReward.m * dep d := by
  unfold keeperReward
  split
  · unfold Dec.mulInt Dec.truncateInt chopTrunc
    simp only
    have hnn : 0 ≤ (cfg.mkt d).keeperReward.m * dep d := Int.mul_nonneg h0 hd
    have hle : (cfg.mkt d).keeperReward.m * dep d ≤ dep d * P := by
      rw [Int.mul_comm (dep d) P]; exact Int.mul_le_mul_of_nonneg_right h1 hd
    have a := tquo_P_mono _ _ hnn
    have b := tquo_P_mono _ _ hle
    rw [tquo_P_mulP] at b
    have h00 : tquo 0 P = 0 := by decide
    refine ⟨by omega, by omega, ?_⟩
    rw [tquo_nonneg_eq _ _ hnn (by decide)]
    exact Int.ediv_mul_le _ (by decide)
  · refine ⟨by omega, by omega, ?_⟩
    have := Int.mul_nonneg h0 hd; omega


theorem nodup_supp (ds : List Denom) (c : Coins) (h : ds.Nodup) : (supp ds c).Nodup := by
  unfold supp; exact List.Nodup.sublist List.filter_sublist h

/-- module-level effect of `SeizeDeposits`: reward = ⌊pct·deposit⌋; reward + lots + refund never exceed the
    deposit; exactly that leaves the module account -/
theorem seizeDeposits_spec (cfg : Cfg) (hn : cfg.ds.Nodup) (s : St) (dep bor : Coins) (z : Seized)
    (hdep : ∀ d, 0 ≤ dep d)
    (hkr : ∀ d, 0 ≤ (cfg.mkt d).keeperReward.m ∧ (cfg.mkt d).keeperReward.m ≤ P)
    (h : seizeDeposits cfg s dep bor = .ok z) :
    ∀ d, z.reward d = keeperReward cfg dep d ∧ 0 ≤ z.returned d ∧
      z.reward d + (lotsOf z.aucs d - lotsOf s.aucs d) + z.returned d ≤ dep d ∧
      z.cash d = s.cash d - z.reward d - (lotsOf z.aucs d - lotsOf s.aucs d) - z.returned d := by
  have hrw : ∀ d, (if 0 < keeperReward cfg dep d then keeperReward cfg dep d else 0) = keeperReward cfg dep d := by
    intro d
    have := (keeperReward_bounds cfg dep d (hkr d).1 (hkr d).2 (hdep d)).1
    split <;> omega
  unfold seizeDeposits at h
  simp only [hrw] at h
  split at h
  · cases h
  split at h
  · cases h
  split at h
  · cases h
    intro d
    have kb := keeperReward_bounds cfg dep d (hkr d).1 (hkr d).2 (hdep d)
    refine ⟨rfl, by simp [zeroC], ?_, ?_⟩
    · simp only [zeroC]; omega
    · simp only [zeroC, subC]; omega
  split at h
  · cases h
  · cases h
  rename_i st hst
  split at h
  · cases h
  · cases h
  rename_i cash2 ret hret
  cases h
  intro d
  have kb := keeperReward_bounds cfg dep d (hkr d).1 (hkr d).2 (hdep d)
  have hinv := startOuter_inv cfg _ _ _ _ _ _ st (AInv_refl _ (by
    intro x
    have kbx := keeperReward_bounds cfg dep x (hkr x).1 (hkr x).2 (hdep x)
    simp only [subC]; omega)) hst
  obtain ⟨i1, i2, i3⟩ := hinv d
  have hr := returnLoop_bounds _ (nodup_supp _ _ hn) st.deposits st.cash cash2 ret (fun x => (hinv x).1) hret d
  simp only [subC] at i2 i3
  obtain ⟨r1, r2, r3⟩ := hr
  refine ⟨rfl, r2, ?_, ?_⟩
  · dsimp only; omega
  · dsimp only; omega


theorem liquidate_spec (cfg : Cfg) (hn : cfg.ds.Nodup)
    (hkr : ∀ d, 0 ≤ (cfg.mkt d).keeperReward.m ∧ (cfg.mkt d).keeperReward.m ≤ P)
    (s s' : St) (keeper borrower : User) (hdep : ∀ d, 0 ≤ s.dep borrower d)
    (h : liquidate cfg s keeper borrower = .ok s') :
    ∃ s1 s2 z, syncBorrow cfg s borrower = .ok s1 ∧ syncSupply cfg s1 borrower = .ok s2 ∧
      seizeDeposits cfg s2 (s2.dep borrower) (s2.bor borrower) = .ok z ∧
      (∀ d, s'.dep borrower d = 0 ∧ s'.bor borrower d = 0 ∧ s'.depIdx borrower d = none ∧ s'.borIdx borrower d = none) ∧
      (∀ v, v ≠ borrower → s'.dep v = s.dep v ∧ s'.depIdx v = s.depIdx v ∧ s'.bor v = s.bor v ∧ s'.borIdx v = s.borIdx v) ∧
      (s'.supIdx = s.supIdx ∧ s'.brwIdx = s.brwIdx ∧ s'.reserves = s.reserves ∧ s'.accr = s.accr) ∧
      (∀ d, z.reward d = keeperReward cfg (s2.dep borrower) d ∧ 0 ≤ z.reward d ∧ 0 ≤ z.returned d ∧
        z.reward d + (lotsOf s'.aucs d - lotsOf s.aucs d) + z.returned d ≤ s2.dep borrower d ∧
        s.cash d - s'.cash d = z.reward d + (lotsOf s'.aucs d - lotsOf s.aucs d) + z.returned d) ∧
      (∀ v, v ≠ keeper → v ≠ borrower → s'.bal v = s.bal v) ∧
      (∀ d, (keeper ≠ borrower → s'.bal keeper d = s.bal keeper d + z.reward d ∧
                                  s'.bal borrower d = s.bal borrower d + z.returned d) ∧
            (keeper = borrower → s'.bal keeper d = s.bal keeper d + z.reward d + z.returned d)) := by
  unfold liquidate at h
  split at h
  · cases h
  split at h
  · cases h
  split at h
  · cases h
  · cases h
  rename_i s1 h1
  split at h
  · cases h
  · cases h
  rename_i s2 h2
  split at h
  · cases h
  · cases h
  · cases h
  split at h
  · cases h
  · cases h
  rename_i z hz
  cases h
  obtain ⟨d1, di1, g1, o1, -, -⟩ := syncBorrow_spec cfg s s1 borrower h1
  obtain ⟨b2, bi2, g2, o2, ge2, -⟩ := syncSupply_spec cfg s1 s2 borrower h2
  obtain ⟨g1a, g1b, g1c, g1d, g1e, g1f, g1g, g1h, g1i⟩ := g1
  obtain ⟨g2a, g2b, g2c, g2d, g2e, g2f, g2g, g2h, g2i⟩ := g2
  have hdep2 : ∀ d, 0 ≤ s2.dep borrower d := by
    intro d; have := ge2 d; rw [d1] at this; have := hdep d; omega
  have hz' := seizeDeposits_spec cfg hn s2 _ _ z hdep2 hkr hz
  refine ⟨s1, s2, z, h1, h2, hz, ?_, ?_, ?_, ?_, ?_, ?_⟩
  · intro d; simp only [upd_same, zeroC, and_self]
  · intro v hv
    simp only [upd_other _ _ _ _ hv]
    refine ⟨?_, ?_, ?_, ?_⟩
    · rw [(o2 v hv).1, d1]
    · rw [(o2 v hv).2, di1]
    · rw [b2, (o1 v hv).1]
    · rw [bi2, (o1 v hv).2]
  · exact ⟨by rw [g2a, g1a], by rw [g2b, g1b], by rw [g2e, g1e], by rw [g2h, g1h]⟩
  · intro d
    obtain ⟨r1, r2, r3, r4⟩ := hz' d
    have kb := keeperReward_bounds cfg (s2.dep borrower) d (hkr d).1 (hkr d).2 (hdep2 d)
    rw [g2i, g1i] at r3 r4
    rw [g2f, g1f] at r4
    dsimp only
    refine ⟨r1, by omega, r2, r3, by omega⟩
  · intro v hk hb
    dsimp only
    rw [upd_other _ _ _ _ hb, upd_other _ _ _ _ hk, g2g, g1g]
  · intro d
    dsimp only
    constructor
    · intro hne
      have hne' : borrower ≠ keeper := fun e => hne e.symm
      constructor
      · rw [upd_other _ _ _ _ hne, upd_same]; simp only [addC, g2g, g1g]
      · rw [upd_same, upd_other _ _ _ _ hne']; simp only [addC, g2g, g1g]
    · intro he
      subst he
      rw [upd_same, upd_same]; simp only [addC, g2g, g1g]

end KV.Hard
