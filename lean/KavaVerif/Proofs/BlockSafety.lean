/-
  Helper lemmas for C02 (block safety). Core Lean only.
-/
import KavaVerif.Model.BlockSafety
set_option linter.unusedSimpArgs false
set_option linter.unusedVariables false

namespace KV.Safe
open KV

theorem P_pos : 0 < P := by decide

/-- `Dec(d) / Dec(d) = 1` for a positive integer `d` -/
theorem quo_self (d : Int) (hd : 0 < d) : Dec.quo (Dec.ofInt d) (Dec.ofInt d) = Dec.one := by
  unfold Dec.quo Dec.ofInt Dec.one
  simp only
  have hP : 0 < P := P_pos
  have hdP : 0 < d * P := Int.mul_pos hd hP
  have h1 : 0 ≤ d * P * P * P := by
    have := Int.mul_pos (Int.mul_pos hdP hP) hP
    omega
  have ht : tquo (d * P * P * P) (d * P) = P * P := by
    rw [tquo_nonneg_eq _ _ h1 (by omega)]
    have : d * P * P * P = (d * P) * (P * P) := by
      rw [Int.mul_assoc (d * P) P P]
    rw [this, Int.mul_ediv_cancel_left _ (by omega : d * P ≠ 0)]
  rw [ht, chopRound_mul_P]

/-- multiplying by one and rounding to an integer gives back the integer -/
theorem mul_one_round (debt : Int) : Dec.roundInt (Dec.mul Dec.one (Dec.ofInt debt)) = debt := by
  unfold Dec.roundInt Dec.mul Dec.one Dec.ofInt
  simp only
  have : P * (debt * P) = (debt * P) * P := Int.mul_comm _ _
  rw [this, chopRound_mul_P, chopRound_mul_P]

theorem sumInts_foldl (l : List Int) (a : Int) : l.foldl (· + ·) a = a + sumInts l := by
  unfold sumInts
  induction l generalizing a with
  | nil => simp
  | cons x xs ih =>
    simp only [List.foldl_cons]
    rw [ih (a + x), ih (0 + x)]; omega

theorem sumInts_cons (x : Int) (xs : List Int) : sumInts (x :: xs) = x + sumInts xs := by
  have := sumInts_foldl xs (0 + x)
  unfold sumInts at this ⊢
  simp only [List.foldl_cons]
  rw [this]; omega

theorem sumInts_nonneg (l : List Int) (h : ∀ x ∈ l, 0 ≤ x) : 0 ≤ sumInts l := by
  induction l with
  | nil => decide
  | cons x xs ih =>
    rw [sumInts_cons]
    have := h x (by simp)
    have := ih (fun y hy => h y (by simp [hy]))
    omega

theorem splitCapped_sum (total debt : Int) (l : List Int) (rem : Int) (h : l ≠ []) :
    sumInts (splitCapped total debt l rem) = rem := by
  induction l generalizing rem with
  | nil => exact absurd rfl h
  | cons d rest ih =>
    cases rest with
    | nil => simp [splitCapped, sumInts]
    | cons d2 r2 =>
      unfold splitCapped
      simp only
      rw [sumInts_cons, ih _ (by simp)]
      omega

end KV.Safe
